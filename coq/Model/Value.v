(* Value.v — token types, AST node types, runtime values and AST nodes
   (mutually inductive: a literal node holds a value, an expression
   reference value holds a node), objects as key-sorted association lists. *)
From JM Require Import Model.Base Model.Num.

(* lexer.go: const ( tUnknown tokType = iota … ) — the order is checked against
   the source by gen/Tables.v + Proofs/TablesOk.v *)
Inductive tokType :=
| tUnknown | tStar | tDot | tFilter | tFlatten | tLparen | tRparen | tLbracket | tRbracket
| tLbrace | tRbrace | tOr | tPipe | tNumber | tUnquotedIdentifier | tQuotedIdentifier
| tComma | tColon | tLT | tLTE | tGT | tGTE | tEQ | tNE | tJSONLiteral | tStringLiteral
| tCurrent | tExpref | tAnd | tNot | tEOF.

Definition all_tokTypes : list tokType :=
  [tUnknown; tStar; tDot; tFilter; tFlatten; tLparen; tRparen; tLbracket; tRbracket;
   tLbrace; tRbrace; tOr; tPipe; tNumber; tUnquotedIdentifier; tQuotedIdentifier;
   tComma; tColon; tLT; tLTE; tGT; tGTE; tEQ; tNE; tJSONLiteral; tStringLiteral;
   tCurrent; tExpref; tAnd; tNot; tEOF].

Definition tok_code (t : tokType) : N :=
  match t with
  | tUnknown => 0 | tStar => 1 | tDot => 2 | tFilter => 3 | tFlatten => 4 | tLparen => 5
  | tRparen => 6 | tLbracket => 7 | tRbracket => 8 | tLbrace => 9 | tRbrace => 10 | tOr => 11
  | tPipe => 12 | tNumber => 13 | tUnquotedIdentifier => 14 | tQuotedIdentifier => 15
  | tComma => 16 | tColon => 17 | tLT => 18 | tLTE => 19 | tGT => 20 | tGTE => 21 | tEQ => 22
  | tNE => 23 | tJSONLiteral => 24 | tStringLiteral => 25 | tCurrent => 26 | tExpref => 27
  | tAnd => 28 | tNot => 29 | tEOF => 30
  end%N.
Definition tok_eqb (a b : tokType) : bool := N.eqb (tok_code a) (tok_code b).

(* parser.go: const ( ASTEmpty astNodeType = iota … ) *)
Inductive astNodeType :=
| ASTEmpty | ASTComparator | ASTCurrentNode | ASTExpRef | ASTFunctionExpression | ASTField
| ASTFilterProjection | ASTFlatten | ASTIdentity | ASTIndex | ASTIndexExpression
| ASTKeyValPair | ASTLiteral | ASTMultiSelectHash | ASTMultiSelectList | ASTOrExpression
| ASTAndExpression | ASTNotExpression | ASTPipe | ASTProjection | ASTSubexpression
| ASTSlice | ASTValueProjection.

Definition all_astTypes : list astNodeType :=
  [ASTEmpty; ASTComparator; ASTCurrentNode; ASTExpRef; ASTFunctionExpression; ASTField;
   ASTFilterProjection; ASTFlatten; ASTIdentity; ASTIndex; ASTIndexExpression;
   ASTKeyValPair; ASTLiteral; ASTMultiSelectHash; ASTMultiSelectList; ASTOrExpression;
   ASTAndExpression; ASTNotExpression; ASTPipe; ASTProjection; ASTSubexpression;
   ASTSlice; ASTValueProjection].

Definition ast_code (t : astNodeType) : N :=
  match t with
  | ASTEmpty => 0 | ASTComparator => 1 | ASTCurrentNode => 2 | ASTExpRef => 3
  | ASTFunctionExpression => 4 | ASTField => 5 | ASTFilterProjection => 6 | ASTFlatten => 7
  | ASTIdentity => 8 | ASTIndex => 9 | ASTIndexExpression => 10 | ASTKeyValPair => 11
  | ASTLiteral => 12 | ASTMultiSelectHash => 13 | ASTMultiSelectList => 14
  | ASTOrExpression => 15 | ASTAndExpression => 16 | ASTNotExpression => 17 | ASTPipe => 18
  | ASTProjection => 19 | ASTSubexpression => 20 | ASTSlice => 21 | ASTValueProjection => 22
  end%N.
Definition ast_eqb (a b : astNodeType) : bool := N.eqb (ast_code a) (ast_code b).

(* functions.go: jpType *)
Inductive jpType := jpNumber | jpString | jpArray | jpObject | jpArrayNumber | jpArrayString
                  | jpExpref | jpAny.
(* argSpec{types, variadic} *)
Record argSpec := ArgSpec { as_types : list jpType; as_variadic : bool }.
(* functionEntry{name, arguments, handler, hasExpRef}; the handler is recorded by
   the identifier of the Go function *)
Record functionEntry := FunctionEntry {
  fe_key : bytes; fe_name : bytes; fe_args : list argSpec; fe_handler : bytes; fe_hasExpRef : bool }.

Record token := Token { ttype : tokType; tvalue : bytes; tpos : Z; tlen : Z }.

Section WithNum.
Context {NumO : NumOps}.

(* interface{} values the interpreter handles for JSON data, plus expRef *)
Inductive value :=
| VNull
| VBool (b : bool)
| VNum (n : num)
| VStr (s : bytes)
| VArr (l : list value)
| VObj (m : list (bytes * value))    (* map[string]interface{}: sorted by key, keys unique *)
| VExp (r : node)                    (* expRef{ref: ASTNode} *)
with node :=
| Node (ty : astNodeType) (val : nodeval) (children : list node)
with nodeval :=
| NVNone                              (* nil *)
| NVStr (s : bytes)                   (* string *)
| NVInt (z : Z)                       (* int *)
| NVTok (t : tokType)                 (* tokType (comparators) *)
| NVSlice (a b c : option Z)          (* []*int *)
| NVJson (v : value).                 (* decoded JSON literal *)

Definition node_type (n : node) := let 'Node t _ _ := n in t.
Definition node_val (n : node) := let 'Node _ v _ := n in v.
Definition node_children (n : node) := let 'Node _ _ c := n in c.
Definition empty_node : node := Node ASTEmpty NVNone [].   (* ASTNode{} *)

(* ---- objects ---- *)
Definition obj := list (bytes * value).

Fixpoint obj_get (k : bytes) (m : obj) : option value :=
  match m with
  | [] => None
  | (k', v) :: r => if bytes_eqb k k' then Some v else obj_get k r
  end.

(* m[k] = v on a key-sorted list *)
Fixpoint obj_set (k : bytes) (v : value) (m : obj) : obj :=
  match m with
  | [] => [(k, v)]
  | (k', v') :: r =>
    if bytes_eqb k k' then (k, v) :: r
    else if bytes_ltb k k' then (k, v) :: m
    else (k', v') :: obj_set k v r
  end.

Fixpoint obj_sorted (m : obj) : bool :=
  match m with
  | [] => true
  | (k, _) :: r =>
    match r with
    | [] => true
    | (k', _) :: _ => bytes_ltb k k' && obj_sorted r
    end
  end.

(* ---- sizes (fuel bounds, induction measures) ---- *)
Fixpoint value_size (v : value) : nat :=
  match v with
  | VArr l => S (fold_right (fun x a => value_size x + a)%nat 0%nat l)
  | VObj m => S (fold_right (fun kv a => value_size (snd kv) + a)%nat 0%nat m)
  | VExp r => S (node_size r)
  | _ => 1%nat
  end
with node_size (n : node) : nat :=
  match n with
  | Node _ v c =>
    S ((match v with NVJson j => value_size j | _ => 0%nat end)
       + fold_right (fun x a => node_size x + a)%nat 0%nat c)
  end.

(* depth of an AST: bounds the interpreter's recursion *)
Fixpoint node_depth (n : node) : nat :=
  match n with
  | Node _ _ c => S (fold_right (fun x a => Nat.max (node_depth x) a) 0%nat c)
  end.

(* ---- structural equality with a chosen equality on numbers ---- *)
Section Eqb.
Variable neq : num -> num -> bool.

Definition opt_Z_eqb (a b : option Z) : bool :=
  match a, b with
  | None, None => true
  | Some x, Some y => Z.eqb x y
  | _, _ => false
  end.

Fixpoint value_eqb (a b : value) {struct a} : bool :=
  match a, b with
  | VNull, VNull => true
  | VBool x, VBool y => Bool.eqb x y
  | VNum x, VNum y => neq x y
  | VStr x, VStr y => bytes_eqb x y
  | VArr x, VArr y =>
    (fix go (x y : list value) : bool :=
       match x, y with
       | [], [] => true
       | p :: x', q :: y' => value_eqb p q && go x' y'
       | _, _ => false
       end) x y
  | VObj x, VObj y =>
    (fix go (x y : obj) : bool :=
       match x, y with
       | [], [] => true
       | (k, p) :: x', (k', q) :: y' => bytes_eqb k k' && value_eqb p q && go x' y'
       | _, _ => false
       end) x y
  | VExp x, VExp y => node_eqb x y
  | _, _ => false
  end
with node_eqb (a b : node) {struct a} : bool :=
  match a, b with
  | Node t v c, Node t' v' c' =>
    ast_eqb t t' &&
    (match v, v' with
     | NVNone, NVNone => true
     | NVStr s, NVStr s' => bytes_eqb s s'
     | NVInt z, NVInt z' => Z.eqb z z'
     | NVTok k, NVTok k' => tok_eqb k k'
     | NVSlice a1 b1 c1, NVSlice a2 b2 c2 => opt_Z_eqb a1 a2 && opt_Z_eqb b1 b2 && opt_Z_eqb c1 c2
     | NVJson j, NVJson j' => value_eqb j j'
     | _, _ => false
     end) &&
    (fix go (x y : list node) : bool :=
       match x, y with
       | [], [] => true
       | p :: x', q :: y' => node_eqb p q && go x' y'
       | _, _ => false
       end) c c'
  end.
End Eqb.

(* util.go objsEqual = reflect.DeepEqual on JSON trees: numbers with Go == *)
Definition objs_equal (a b : value) : bool := value_eqb num_eqb a b.

(* JSON data: no expression reference, finite numbers, well-formed objects *)
Fixpoint is_json (v : value) : bool :=
  match v with
  | VNull | VBool _ | VStr _ => true
  | VNum n => num_finite n
  | VArr l => forallb is_json l
  | VObj m => forallb (fun kv => is_json (snd kv)) m && obj_sorted m
  | VExp _ => false
  end.

End WithNum.

(* Parser.v — parser.go, function by function.  Parser{expression,tokens,index}
   is the token list (fixed during one Parse) and an index threaded through the
   functions; lookaheadToken indexes the token slice unchecked and advance
   increments without bound, exactly as in Go, so that "the cursor stays inside
   the token list" is a theorem, not an assumption. *)
From JM Require Import Model.Base Model.Num Model.Utf8 Model.Value Model.JsonText Model.Lexer.
From JM Require Import gen.Tables.

Section WithNum.
Context {NumO : NumOps}.

(* strconv.Atoi on what consumeNumber produces *)
Fixpoint digits_val (s : bytes) (acc : Z) : option Z :=
  match s with
  | [] => Some acc
  | c :: r => if is_digit c then digits_val r (acc * 10 + (Z.of_N c - 48)) else None
  end.
Definition sign_of (s : bytes) : bool * bytes :=
  match s with
  | 45%N :: r => (true, r)
  | 43%N :: r => (false, r)
  | _ => (false, s)
  end.
Definition atoi (s : bytes) : option Z :=
  let '(neg, d) := sign_of s in
  match d with
  | [] => None
  | _ =>
    match digits_val d 0 with
    | Some v => let z := if neg then - v else v in
                if in_int64 z then Some z else None
    | None => None
    end
  end.

Definition bp_of (a : bpArg) (argtok : tokType) (param : Z) : Z :=
  match a with
  | BPLit z => z
  | BPTok t => binding_power t
  | BPArgTok => binding_power argtok
  | BPParam => param
  end.

Definition mk (ty : astNodeType) (v : nodeval) (c : list node) : node := Node ty v c.
Definition identity_node : node := mk ASTIdentity NVNone [].

Section Tokens.
Variable ts : list token.

Definition lookaheadToken (i n : nat) : outcome token := nth_or_panic ts (i + n).
Definition lookahead (i n : nat) : outcome tokType := omap ttype (lookaheadToken i n).
Definition current (i : nat) : outcome tokType := lookahead i 0.

Definition syntaxError {A} (i : nat) : outcome A :=
  t <- lookaheadToken i 0 ;; Err (ESyntax (tpos t)).
Definition syntaxErrorToken {A} (t : token) : outcome A := Err (ESyntax (tpos t)).

(* p.match: advance when the current token has the given type *)
Definition match_ (i : nat) (ty : tokType) : outcome nat :=
  c <- current i ;;
  if tok_eqb c ty then Ok (S i) else syntaxError i.

(* parseSliceExpression *)
Definition set_part (parts : option Z * option Z * option Z) (index : nat) (z : Z) :=
  let '(a, b, c) := parts in
  match index with
  | 0%nat => (Some z, b, c)
  | 1%nat => (a, Some z, c)
  | _ => (a, b, Some z)
  end.
Definition get_part (parts : option Z * option Z * option Z) (index : nat) : option Z :=
  let '(a, b, c) := parts in
  match index with 0%nat => a | 1%nat => b | _ => c end.

Fixpoint slice_loop (g : nat) (parts : option Z * option Z * option Z) (index : nat) (i : nat)
  : outcome (node * nat) :=
  match g with
  | O => OutOfFuel
  | S g' =>
    cur <- current i ;;
    if negb (tok_eqb cur tRbracket) && Nat.ltb index 3 then
      if tok_eqb cur tColon then
        if Nat.eqb (S index) 3 then syntaxError i
        else slice_loop g' parts (S index) (S i)
      else if tok_eqb cur tNumber && match get_part parts index with None => true | Some _ => false end then
        t <- lookaheadToken i 0 ;;
        match atoi (tvalue t) with
        | None => Err ECompileOther
        | Some z => slice_loop g' (set_part parts index z) index (S i)
        end
      else syntaxError i
    else
      i' <- match_ i tRbracket ;;
      let '(a, b, c) := parts in
      Ok (mk ASTSlice (NVSlice a b c) [], i')
  end.
Definition parseSliceExpression (i : nat) : outcome (node * nat) :=
  slice_loop (S (length ts)) (None, None, None) 0 i.

(* parseIndexExpression *)
Definition parseIndexExpression (i : nat) : outcome (node * nat) :=
  l0 <- lookahead i 0 ;;
  is_slice <- (if tok_eqb l0 tColon then Ok true
               else l1 <- lookahead i 1 ;; Ok (tok_eqb l1 tColon)) ;;
  if is_slice then parseSliceExpression i
  else
    t <- lookaheadToken i 0 ;;
    match atoi (tvalue t) with
    | None => Err ECompileOther
    | Some z =>
      i' <- match_ (S i) tRbracket ;;
      Ok (mk ASTIndex (NVInt z) [], i')
    end.

Section Body.
(* parseExpression and continueExpression with one unit of fuel less *)
Variable pe : Z -> nat -> outcome (node * nat).
Variable ce : node -> Z -> nat -> outcome (node * nat).

(* parseMultiSelectList *)
Fixpoint msl_loop (g : nat) (acc : list node) (i : nat) : outcome (node * nat) :=
  match g with
  | O => OutOfFuel
  | S g' =>
    '(e, i1) <- pe (bp_of site_parseMultiSelectList_parseExpression tUnknown 0) i ;;
    let acc' := e :: acc in
    c <- current i1 ;;
    if tok_eqb c tRbracket then
      i2 <- match_ i1 tRbracket ;;
      Ok (mk ASTMultiSelectList NVNone (rev acc'), i2)
    else
      i2 <- match_ i1 tComma ;;
      msl_loop g' acc' i2
  end.
Definition parseMultiSelectList (i : nat) : outcome (node * nat) :=
  msl_loop (S (length ts)) [] i.

(* parseMultiSelectHash *)
Fixpoint msh_loop (g : nat) (acc : list node) (i : nat) : outcome (node * nat) :=
  match g with
  | O => OutOfFuel
  | S g' =>
    keyToken <- lookaheadToken i 0 ;;
    c0 <- current i ;;
    if tok_eqb c0 tUnquotedIdentifier || tok_eqb c0 tQuotedIdentifier then
      i1 <- match_ (S i) tColon ;;
      '(v, i2) <- pe (bp_of site_parseMultiSelectHash_parseExpression tUnknown 0) i1 ;;
      let acc' := mk ASTKeyValPair (NVStr (tvalue keyToken)) [v] :: acc in
      c <- current i2 ;;
      if tok_eqb c tComma then msh_loop g' acc' (S i2)
      else if tok_eqb c tRbrace then Ok (mk ASTMultiSelectHash NVNone (rev acc'), S i2)
      else syntaxError i2
    else syntaxError i
  end.
Definition parseMultiSelectHash (i : nat) : outcome (node * nat) :=
  msh_loop (S (length ts)) [] i.

(* parseDotRHS *)
Definition parseDotRHS (bp : Z) (i : nat) : outcome (node * nat) :=
  la <- current i ;;
  if tok_eqb la tQuotedIdentifier || tok_eqb la tUnquotedIdentifier || tok_eqb la tStar then
    pe (bp_of site_parseDotRHS_parseExpression tUnknown bp) i
  else if tok_eqb la tLbracket then
    i1 <- match_ i tLbracket ;;
    '(lft, i2) <- parseMultiSelectList i1 ;;
    ce lft (bp_of site_parseDotRHS_continueExpression tUnknown bp) i2
  else if tok_eqb la tLbrace then
    i1 <- match_ i tLbrace ;;
    '(lft, i2) <- parseMultiSelectHash i1 ;;
    ce lft (bp_of site_parseDotRHS_continueExpression2 tUnknown bp) i2
  else syntaxError i.

(* parseProjectionRHS *)
Definition parseProjectionRHS (bp : Z) (i : nat) : outcome (node * nat) :=
  c <- current i ;;
  if binding_power c <? projection_stop then Ok (identity_node, i)
  else if tok_eqb c tLbracket then
    next <- lookahead i 1 ;;
    ok <- (if tok_eqb next tNumber || tok_eqb next tColon then Ok true
           else if tok_eqb next tStar then l2 <- lookahead i 2 ;; Ok (tok_eqb l2 tRbracket)
           else Ok false) ;;
    if ok then pe (bp_of site_parseProjectionRHS_parseExpression tUnknown bp) i
    else syntaxError i
  else if tok_eqb c tFilter then pe (bp_of site_parseProjectionRHS_parseExpression2 tUnknown bp) i
  else if tok_eqb c tDot then
    i1 <- match_ i tDot ;;
    parseDotRHS (bp_of site_parseProjectionRHS_parseDotRHS tUnknown bp) i1
  else syntaxError i.

(* projectIfSlice *)
Definition projectIfSlice (lft rgt : node) (i : nat) : outcome (node * nat) :=
  let indexExpr := mk ASTIndexExpression NVNone [lft; rgt] in
  if ast_eqb (node_type rgt) ASTSlice then
    '(r, i1) <- parseProjectionRHS (bp_of site_projectIfSlice_parseProjectionRHS tUnknown 0) i ;;
    Ok (mk ASTProjection NVNone [indexExpr; r], i1)
  else Ok (indexExpr, i).

(* parseFilter *)
Definition parseFilter (n : node) (i : nat) : outcome (node * nat) :=
  '(condition, i1) <- pe (bp_of site_parseFilter_parseExpression tUnknown 0) i ;;
  i2 <- match_ i1 tRbracket ;;
  c <- current i2 ;;
  '(rgt, i3) <- (if tok_eqb c tFlatten then Ok (identity_node, i2)
                   else parseProjectionRHS (bp_of site_parseFilter_parseProjectionRHS tUnknown 0) i2) ;;
  Ok (mk ASTFilterProjection NVNone [n; rgt; condition], i3).

(* parseFunctionArg *)
Definition parseFunctionArg (i : nat) : outcome (node * nat) :=
  c <- current i ;;
  if negb (tok_eqb c tExpref) then pe (bp_of site_parseFunctionArg_parseExpression tUnknown 0) i
  else
    '(e, i1) <- pe (bp_of site_parseFunctionArg_parseExpression2 tUnknown 0) (S i) ;;
    Ok (mk ASTExpRef NVNone [e], i1).

Fixpoint args_loop (g : nat) (acc : list node) (i : nat) : outcome (list node * nat) :=
  match g with
  | O => OutOfFuel
  | S g' =>
    '(e, i1) <- parseFunctionArg i ;;
    let acc' := e :: acc in
    c <- current i1 ;;
    if tok_eqb c tRparen then Ok (rev acc', i1)
    else i2 <- match_ i1 tComma ;; args_loop g' acc' i2
  end.

(* nud *)
Definition nud (t : token) (i : nat) : outcome (node * nat) :=
  match ttype t with
  | tJSONLiteral =>
    match json_unmarshal (tvalue t) with
    | None => Err ECompileOther
    | Some v => Ok (mk ASTLiteral (NVJson v) [], i)
    end
  | tStringLiteral => Ok (mk ASTLiteral (NVJson (VStr (tvalue t))) [], i)
  | tUnquotedIdentifier => Ok (mk ASTField (NVStr (tvalue t)) [], i)
  | tQuotedIdentifier =>
    c <- current i ;;
    if tok_eqb c tLparen then syntaxErrorToken t
    else Ok (mk ASTField (NVStr (tvalue t)) [], i)
  | tStar =>
    c <- current i ;;
    '(rgt, i1) <- (if tok_eqb c tRbracket then Ok (identity_node, i)
                     else parseProjectionRHS (bp_of site_nud_tStar_parseProjectionRHS tUnknown 0) i) ;;
    Ok (mk ASTValueProjection NVNone [identity_node; rgt], i1)
  | tFilter => parseFilter identity_node i
  | tLbrace => parseMultiSelectHash i
  | tFlatten =>
    let lft := mk ASTFlatten NVNone [identity_node] in
    '(rgt, i1) <- parseProjectionRHS (bp_of site_nud_tFlatten_parseProjectionRHS tUnknown 0) i ;;
    Ok (mk ASTProjection NVNone [lft; rgt], i1)
  | tLbracket =>
    c <- current i ;;
    if tok_eqb c tNumber || tok_eqb c tColon then
      '(rgt, i1) <- parseIndexExpression i ;;
      projectIfSlice identity_node rgt i1
    else
      star_rb <- (if tok_eqb c tStar then l1 <- lookahead i 1 ;; Ok (tok_eqb l1 tRbracket)
                  else Ok false) ;;
      if star_rb then
        '(rgt, i1) <- parseProjectionRHS (bp_of site_nud_tLbracket_parseProjectionRHS tUnknown 0) (S (S i)) ;;
        Ok (mk ASTProjection NVNone [identity_node; rgt], i1)
      else parseMultiSelectList i
  | tCurrent => Ok (mk ASTCurrentNode NVNone [], i)
  | tNot =>
    '(e, i1) <- pe (bp_of site_nud_tNot_parseExpression tUnknown 0) i ;;
    Ok (mk ASTNotExpression NVNone [e], i1)
  | tLparen =>
    '(e, i1) <- pe (bp_of site_nud_tLparen_parseExpression tUnknown 0) i ;;
    i2 <- match_ i1 tRparen ;;
    Ok (e, i2)
  | _ => syntaxErrorToken t     (* tEOF: "Incomplete expression"; tExpref and the rest: invalid token *)
  end.

(* led; i is the index after the operator token *)
Definition led (tt : tokType) (n : node) (i : nat) : outcome (node * nat) :=
  match tt with
  | tDot =>
    c <- current i ;;
    if negb (tok_eqb c tStar) then
      '(rgt, i1) <- parseDotRHS (bp_of site_led_tDot_parseDotRHS tt 0) i ;;
      Ok (mk ASTSubexpression NVNone [n; rgt], i1)
    else
      '(rgt, i1) <- parseProjectionRHS (bp_of site_led_tDot_parseProjectionRHS tt 0) (S i) ;;
      Ok (mk ASTValueProjection NVNone [n; rgt], i1)
  | tPipe =>
    '(rgt, i1) <- pe (bp_of site_led_tPipe_parseExpression tt 0) i ;;
    Ok (mk ASTPipe NVNone [n; rgt], i1)
  | tOr =>
    '(rgt, i1) <- pe (bp_of site_led_tOr_parseExpression tt 0) i ;;
    Ok (mk ASTOrExpression NVNone [n; rgt], i1)
  | tAnd =>
    '(rgt, i1) <- pe (bp_of site_led_tAnd_parseExpression tt 0) i ;;
    Ok (mk ASTAndExpression NVNone [n; rgt], i1)
  | tLparen =>
    (* p.tokens[p.index-2], p.tokens[p.index-1]: unchecked *)
    prev <- (if Nat.ltb i 2 then Panic else nth_or_panic ts (i - 2)) ;;
    if negb (ast_eqb (node_type n) ASTField && tok_eqb (ttype prev) tUnquotedIdentifier) then
      lp <- nth_or_panic ts (i - 1) ;; syntaxErrorToken lp
    else
      c <- current i ;;
      '(args, i1) <- (if negb (tok_eqb c tRparen) then args_loop (S (length ts)) [] i
                      else Ok ([], i)) ;;
      i2 <- match_ i1 tRparen ;;
      Ok (mk ASTFunctionExpression (node_val n) args, i2)
  | tFilter => parseFilter n i
  | tFlatten =>
    let lft := mk ASTFlatten NVNone [n] in
    '(rgt, i1) <- parseProjectionRHS (bp_of site_led_tFlatten_parseProjectionRHS tt 0) i ;;
    Ok (mk ASTProjection NVNone [lft; rgt], i1)
  | tEQ | tNE | tGT | tGTE | tLT | tLTE =>
    '(rgt, i1) <- pe (bp_of site_led_tEQ_tNE_tGT_tGTE_tLT_tLTE_parseExpression tt 0) i ;;
    Ok (mk ASTComparator (NVTok tt) [n; rgt], i1)
  | tLbracket =>
    c <- current i ;;
    if tok_eqb c tNumber || tok_eqb c tColon then
      '(rgt, i1) <- parseIndexExpression i ;;
      projectIfSlice n rgt i1
    else
      i1 <- match_ i tStar ;;
      i2 <- match_ i1 tRbracket ;;
      '(rgt, i3) <- parseProjectionRHS (bp_of site_led_tLbracket_parseProjectionRHS tt 0) i2 ;;
      Ok (mk ASTProjection NVNone [n; rgt], i3)
  | _ => syntaxError i
  end.

End Body.

(* parseExpression and continueExpression (its for loop); one unit of fuel per
   nested call and per loop iteration *)
Fixpoint parseExpression (fuel : nat) (bp : Z) (i : nat) {struct fuel} : outcome (node * nat) :=
  match fuel with
  | O => OutOfFuel
  | S f =>
    leftToken <- lookaheadToken i 0 ;;
    '(lft, i1) <- nud (parseExpression f) (continueExpression f) leftToken (S i) ;;
    continueExpression f lft (bp_of site_parseExpression_continueExpression tUnknown bp) i1
  end
with continueExpression (fuel : nat) (lft : node) (bp : Z) (i : nat) {struct fuel} : outcome (node * nat) :=
  match fuel with
  | O => OutOfFuel
  | S f =>
    cur <- current i ;;
    if bp <? binding_power cur then
      '(lft', i') <- led (parseExpression f) (continueExpression f) cur lft (S i) ;;
      continueExpression f lft' bp i'
    else Ok (lft, i)
  end.

End Tokens.

(* enough for every token list (Proofs/ParserTotal.v) *)
Definition parse_fuel (ts : list token) : nat := S (S (2 * length ts)).

(* Parser.Parse, after the lexer *)
Definition parse_tokens (ts : list token) : outcome node :=
  '(parsed, i) <- parseExpression ts (parse_fuel ts) (bp_of site_Parse_parseExpression tUnknown 0) 0 ;;
  c <- current ts i ;;
  if negb (tok_eqb c tEOF) then syntaxError ts i else Ok parsed.

(* Parser.Parse *)
Definition parse (e : bytes) : outcome node :=
  ts <- tokenize e ;; parse_tokens ts.

End WithNum.

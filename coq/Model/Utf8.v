(* Utf8.v — unicode/utf8 as the library uses it: DecodeRuneInString,
   RuneCountInString, []rune(s), string([]rune), EncodeRune. *)
From JM Require Import Model.Base.

Definition rune_error : Z := 65533.   (* U+FFFD *)

Definition in_range (lo hi b : N) : bool := N.leb lo b && N.leb b hi.
Definition cont (b : N) : Z := Z.of_N b - 128.

(* utf8.DecodeRuneInString: rune and width; (RuneError, 1) for every ill-formed
   prefix; (RuneError, 0) for the empty string. *)
Definition decode_rune (s : bytes) : Z * nat :=
  match s with
  | [] => (rune_error, 0%nat)
  | b0 :: r =>
    if N.ltb b0 128 then (Z.of_N b0, 1%nat)
    else if in_range 194 223 b0 then
      match r with
      | b1 :: _ => if in_range 128 191 b1
                   then ((Z.of_N b0 - 192) * 64 + cont b1, 2%nat) else (rune_error, 1%nat)
      | _ => (rune_error, 1%nat)
      end
    else if in_range 224 239 b0 then
      let lo := if N.eqb b0 224 then 160%N else 128%N in
      let hi := if N.eqb b0 237 then 159%N else 191%N in
      match r with
      | b1 :: b2 :: _ =>
        if in_range lo hi b1 && in_range 128 191 b2
        then ((Z.of_N b0 - 224) * 4096 + cont b1 * 64 + cont b2, 3%nat) else (rune_error, 1%nat)
      | _ => (rune_error, 1%nat)
      end
    else if in_range 240 244 b0 then
      let lo := if N.eqb b0 240 then 144%N else 128%N in
      let hi := if N.eqb b0 244 then 143%N else 191%N in
      match r with
      | b1 :: b2 :: b3 :: _ =>
        if in_range lo hi b1 && in_range 128 191 b2 && in_range 128 191 b3
        then ((Z.of_N b0 - 240) * 262144 + cont b1 * 4096 + cont b2 * 64 + cont b3, 4%nat)
        else (rune_error, 1%nat)
      | _ => (rune_error, 1%nat)
      end
    else (rune_error, 1%nat)
  end.

Definition is_surrogate (r : Z) : bool := (55296 <=? r) && (r <=? 57343).
Definition valid_rune (r : Z) : bool := (0 <=? r) && (r <=? 1114111) && negb (is_surrogate r).

(* utf8.EncodeRune / string(rune): invalid runes encode U+FFFD *)
Definition encode_rune (r0 : Z) : bytes :=
  let r := if valid_rune r0 then r0 else rune_error in
  if r <? 128 then [Z.to_N r]
  else if r <? 2048 then [Z.to_N (192 + r / 64); Z.to_N (128 + r mod 64)]
  else if r <? 65536 then
    [Z.to_N (224 + r / 4096); Z.to_N (128 + (r / 64) mod 64); Z.to_N (128 + r mod 64)]
  else
    [Z.to_N (240 + r / 262144); Z.to_N (128 + (r / 4096) mod 64);
     Z.to_N (128 + (r / 64) mod 64); Z.to_N (128 + r mod 64)].

(* []rune(s) — fuel is the byte length; every step consumes at least one byte *)
Fixpoint runes_of_fuel (fuel : nat) (s : bytes) : list Z :=
  match fuel with
  | O => []
  | S f =>
    match s with
    | [] => []
    | _ => let '(r, w) := decode_rune s in r :: runes_of_fuel f (skipn w s)
    end
  end.
Definition runes_of (s : bytes) : list Z := runes_of_fuel (length s) s.

Definition string_of_runes (rs : list Z) : bytes := concat (map encode_rune rs).

(* utf8.RuneCountInString *)
Definition rune_count (s : bytes) : Z := zlen (runes_of s).

(* Api.v — api.go: Compile, MustCompile, JMESPath.Search, Search. *)
From JM Require Import Model.Base Model.Num Model.Utf8 Model.Value Model.JsonText
     Model.Lexer Model.Parser Model.Slice Model.Functions Model.Interp.

Section WithNum.
Context {NumO : NumOps}.
Variable ord : obj -> obj.

(* enough fuel for the interpreter on a well-formed AST (Proofs/Total.v) *)
Definition exec_fuel (n : node) : nat := S (node_size n).

(* Compile: (JMESPath pointer, error) — Ok n stands for (&JMESPath{ast: n, intr: …}, nil),
   Err e for (nil, e) *)
Definition compile (e : bytes) : outcome node := parse e.

(* JMESPath.Search *)
Definition search_compiled (n : node) (d : value) : outcome value :=
  Execute ord (exec_fuel n) n d.

(* Search *)
Definition search (e : bytes) (d : value) : outcome value :=
  n <- parse e ;; Execute ord (exec_fuel n) n d.

(* MustCompile: panics exactly when Compile fails *)
Definition must_compile (e : bytes) : outcome node :=
  match compile e with
  | Ok n => Ok n
  | Err _ => Panic
  | Panic => Panic
  | OutOfFuel => OutOfFuel
  end.

(* SyntaxError.HighlightLocation: the expression, a newline, Offset spaces and a
   caret; strings.Repeat panics on a negative count *)
Definition highlight_location (e : bytes) (offset : Z) : outcome bytes :=
  if offset <? 0 then Panic
  else Ok (e ++ [10%N] ++ repeat 32%N (Z.to_nat offset) ++ [94%N]).

End WithNum.

(* Lexer.v — lexer.go, function by function.  The lexer state is
   (currentPos, lastWidth) over the fixed expression; buf is local to
   consumeRawStringLiteral (it is reset before every return that yields a token). *)
From JM Require Import Model.Base Model.Num Model.Utf8 Model.Value Model.JsonText.
From JM Require Import gen.Tables.

Section WithNum.
Context {NumO : NumOps}.

Definition eof : Z := -1.

Record lstate := LState { currentPos : Z; lastWidth : Z }.

Definition elen (e : bytes) : Z := zlen e.

(* lexer.next *)
Definition next (e : bytes) (st : lstate) : Z * lstate :=
  if elen e <=? currentPos st then (eof, LState (currentPos st) 0)
  else
    let '(r, w) := decode_rune (skipn (Z.to_nat (currentPos st)) e) in
    (r, LState (currentPos st + Z.of_nat w) (Z.of_nat w)).

(* lexer.back *)
Definition back (st : lstate) : lstate := LState (currentPos st - lastWidth st) (lastWidth st).

(* lexer.peek: note that lastWidth keeps the width of the peeked rune *)
Definition peek (e : bytes) (st : lstate) : Z * lstate :=
  let '(r, st') := next e st in (r, back st').

(* s[a:b] with Go's bounds check *)
Definition slice_or_panic (e : bytes) (a b : Z) : outcome bytes :=
  if (0 <=? a) && (a <=? b) && (b <=? elen e)
  then Ok (substr e (Z.to_nat a) (Z.to_nat b)) else Panic.

(* 1 << k for a uint64 shift count: 0 when k >= 64 *)
Definition u64 (z : Z) : Z := z mod two64.
Definition shl1 (k : Z) : Z := if k <? 64 then 2 ^ k else 0.

(* identifierStartBits&(1<<(uint64(r)-64)) > 0 *)
Definition ident_start (r : Z) : bool :=
  0 <? Z.land identifier_start_bits (shl1 (u64 (u64 r - 64))).

(* r < 0 || r >= 128 || identifierTrailingBits[uint64(r)/64]&(1<<(uint64(r)%64)) == 0
   — the array access is unchecked, as in Go *)
Definition ident_trailing_stop (r : Z) : outcome bool :=
  if (r <? trailing_guard_lo) || (trailing_guard_hi <=? r) then Ok true
  else
    w <- nth_or_panic identifier_trailing_bits (Z.to_nat (u64 r / 64)) ;;
    Ok (Z.land w (shl1 (u64 r mod 64)) =? 0).

Fixpoint assoc_Z {A} (k : Z) (l : list (Z * A)) : option A :=
  match l with
  | [] => None
  | (k', v) :: r => if k =? k' then Some v else assoc_Z k r
  end.

Definition is_white (r : Z) : bool := existsb (Z.eqb r) white_space.

Definition syntax_error {A} (st : lstate) : outcome A := Err (ESyntax (currentPos st - 1)).
Definition unclosed {A} (e : bytes) : outcome A := Err (ESyntax (elen e)).

(* lexer.consumeUntil *)
Fixpoint consume_until_loop (fuel : nat) (e : bytes) (endr : Z) (current : Z) (st : lstate)
  : outcome lstate :=
  match fuel with
  | O => OutOfFuel
  | S f =>
    if negb (current =? endr) && negb (current =? eof) then
      let st1 :=
        if (current =? 92) then
          let '(p, stp) := peek e st in
          if negb (p =? eof) then snd (next e stp) else stp
        else st in
      let '(c', st2) := next e st1 in
      consume_until_loop f e endr c' st2
    else Ok st
  end.

Definition consumeUntil (e : bytes) (endr : Z) (st : lstate) : outcome (bytes * lstate) :=
  let start := currentPos st in
  let '(current, st1) := next e st in
  st2 <- consume_until_loop (S (length e)) e endr current st1 ;;
  if lastWidth st2 =? 0 then unclosed e
  else
    s <- slice_or_panic e start (currentPos st2 - lastWidth st2) ;;
    Ok (s, st2).

(* strings.Replace(s, old, new, -1) for a two-byte old and one-byte new *)
Fixpoint replace2 (a b : N) (by_ : N) (s : bytes) : bytes :=
  match s with
  | x :: ((y :: r) as t) =>
    if N.eqb x a && N.eqb y b then by_ :: replace2 a b by_ r else x :: replace2 a b by_ t
  | _ => s
  end.

(* lexer.consumeLiteral *)
Definition consumeLiteral (e : bytes) (st : lstate) : outcome (token * lstate) :=
  let start := currentPos st in
  '(value, st') <- consumeUntil e 96 st ;;
  let value' := replace2 92 96 96 value in
  Ok (Token tJSONLiteral value' start (zlen value'), st').

(* lexer.consumeRawStringLiteral *)
Fixpoint raw_loop (fuel : nat) (e : bytes) (current : Z) (currentIndex : Z) (buf : bytes) (st : lstate)
  : outcome (Z * bytes * lstate) :=
  match fuel with
  | O => OutOfFuel
  | S f =>
    if current =? 39 then Ok (currentIndex, buf, st)
    else
      let '(p, st0) := peek e st in
      if p =? eof then Ok (currentIndex, buf, st0)
      else
        r <- (if (current =? 92) then
                let '(p2, st1) := peek e st0 in
                if p2 =? 39 then
                  chunk <- slice_or_panic e currentIndex (currentPos st1 - 1) ;;
                  let '(_, st2) := next e st1 in
                  Ok (currentPos st2, buf ++ chunk ++ [39%N], st2)
                else Ok (currentIndex, buf, st1)
              else Ok (currentIndex, buf, st0)) ;;
        let '(ci, buf', st3) := r in
        let '(c', st4) := next e st3 in
        raw_loop f e c' ci buf' st4
  end.

Definition consumeRawStringLiteral (e : bytes) (st : lstate) : outcome (token * lstate) :=
  let start := currentPos st in
  let '(current, st1) := next e st in
  '(ci, buf, st2) <- raw_loop (S (length e)) e current start [] st1 ;;
  if lastWidth st2 =? 0 then unclosed e
  else
    buf' <- (if ci <? currentPos st2
             then chunk <- slice_or_panic e ci (currentPos st2 - 1) ;; Ok (buf ++ chunk)
             else Ok buf) ;;
    Ok (Token tStringLiteral buf' start (zlen buf'), st2).

(* lexer.matchOrElse *)
Definition matchOrElse (e : bytes) (first second : Z) (matched single : tokType) (st : lstate)
  : token * lstate :=
  let start := currentPos st - lastWidth st in
  let '(nextRune, st1) := next e st in
  if nextRune =? second
  then (Token matched (encode_rune first ++ encode_rune second) start 2, st1)
  else (Token single (encode_rune first) start 1, back st1).

(* lexer.consumeLBracket *)
Definition consumeLBracket (e : bytes) (st : lstate) : token * lstate :=
  let start := currentPos st - lastWidth st in
  let '(nextRune, st1) := next e st in
  if nextRune =? 63 then (Token tFilter (str "[?") start 2, st1)
  else if nextRune =? 93 then (Token tFlatten (str "[]") start 2, st1)
  else (Token tLbracket (str "[") start 1, back st1).

(* lexer.consumeQuotedIdentifier *)
Definition consumeQuotedIdentifier (e : bytes) (st : lstate) : outcome (token * lstate) :=
  let start := currentPos st in
  '(value, st') <- consumeUntil e 34 st ;;
  match json_unquote value with
  | None => Err ECompileOther
  | Some decoded => Ok (Token tQuotedIdentifier decoded (start - 1) (zlen decoded), st')
  end.

(* lexer.consumeUnquotedIdentifier *)
Fixpoint ident_loop (fuel : nat) (e : bytes) (st : lstate) : outcome lstate :=
  match fuel with
  | O => OutOfFuel
  | S f =>
    let '(r, st1) := next e st in
    stop <- ident_trailing_stop r ;;
    if stop then Ok (back st1) else ident_loop f e st1
  end.

Definition consumeUnquotedIdentifier (e : bytes) (st : lstate) : outcome (token * lstate) :=
  let start := currentPos st - lastWidth st in
  st' <- ident_loop (S (length e)) e st ;;
  value <- slice_or_panic e start (currentPos st') ;;
  Ok (Token tUnquotedIdentifier value start (currentPos st' - start), st').

(* lexer.consumeNumber *)
Fixpoint number_loop (fuel : nat) (e : bytes) (st : lstate) : outcome lstate :=
  match fuel with
  | O => OutOfFuel
  | S f =>
    let '(r, st1) := next e st in
    if (r <? 48) || (57 <? r) then Ok (back st1) else number_loop f e st1
  end.

Definition consumeNumber (e : bytes) (st : lstate) : outcome (token * lstate) :=
  let start := currentPos st - lastWidth st in
  st' <- number_loop (S (length e)) e st ;;
  value <- slice_or_panic e start (currentPos st') ;;
  Ok (Token tNumber value start (currentPos st' - start), st').

(* lexer.tokenize: the main loop.  On an error Go returns the tokens so far
   together with the error; callers only look at the error. *)
Fixpoint tokenize_loop (fuel : nat) (e : bytes) (st : lstate) (acc : list token)
  : outcome (list token) :=
  match fuel with
  | O => OutOfFuel
  | S f =>
    let '(r, st1) := next e st in
    if ident_start r then
      '(t, st2) <- consumeUnquotedIdentifier e st1 ;; tokenize_loop f e st2 (t :: acc)
    else
      match assoc_Z r basic_tokens with
      | Some ty =>
        tokenize_loop f e st1
          (Token ty (encode_rune r) (currentPos st1 - lastWidth st1) 1 :: acc)
      | None =>
        if (r =? 45) || ((48 <=? r) && (r <=? 57)) then
          '(t, st2) <- consumeNumber e st1 ;; tokenize_loop f e st2 (t :: acc)
        else if r =? 91 then
          let '(t, st2) := consumeLBracket e st1 in tokenize_loop f e st2 (t :: acc)
        else if r =? 34 then
          '(t, st2) <- consumeQuotedIdentifier e st1 ;; tokenize_loop f e st2 (t :: acc)
        else if r =? 39 then
          '(t, st2) <- consumeRawStringLiteral e st1 ;; tokenize_loop f e st2 (t :: acc)
        else if r =? 96 then
          '(t, st2) <- consumeLiteral e st1 ;; tokenize_loop f e st2 (t :: acc)
        else if r =? 124 then
          let '(t, st2) := matchOrElse e r 124 tOr tPipe st1 in tokenize_loop f e st2 (t :: acc)
        else if r =? 60 then
          let '(t, st2) := matchOrElse e r 61 tLTE tLT st1 in tokenize_loop f e st2 (t :: acc)
        else if r =? 62 then
          let '(t, st2) := matchOrElse e r 61 tGTE tGT st1 in tokenize_loop f e st2 (t :: acc)
        else if r =? 33 then
          let '(t, st2) := matchOrElse e r 61 tNE tNot st1 in tokenize_loop f e st2 (t :: acc)
        else if r =? 61 then
          let '(t, st2) := matchOrElse e r 61 tEQ tUnknown st1 in tokenize_loop f e st2 (t :: acc)
        else if r =? 38 then
          let '(t, st2) := matchOrElse e r 38 tAnd tExpref st1 in tokenize_loop f e st2 (t :: acc)
        else if r =? eof then
          Ok (rev (Token tEOF [] (elen e) 0 :: acc))
        else if is_white r then tokenize_loop f e st1 acc
        else syntax_error st1
      end
  end.

Definition tokenize (e : bytes) : outcome (list token) :=
  tokenize_loop (S (S (length e))) e (LState 0 0) [].

End WithNum.

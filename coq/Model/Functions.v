(* Functions.v — functions.go: resolveArgs, typeCheck, CallFunction and the 26
   handlers.  Type assertions of the Go code (x.(float64), x.([]interface{}), …)
   are as_num, as_arr, …: they Panic when the dynamic type differs, exactly as
   the Go assertion does; nothing here assumes that resolveArgs ran first.
   Handlers with hasExpRef receive the interpreter as an extra first argument in
   Go; here they receive exec and the argument positions are not shifted. *)
From JM Require Import Model.Base Model.Num Model.Utf8 Model.Value Model.JsonText.
From JM Require Import gen.Tables.

Section WithNum.
Context {NumO : NumOps}.

(* iteration order of a Go map where it is observable *)
Variable ord : obj -> obj.
(* the interpreter, for expression-reference arguments *)
Variable exec : node -> value -> outcome value.

Definition arg (args : list value) (i : nat) : outcome value := nth_or_panic args i.
Definition as_num (v : value) : outcome num := match v with VNum n => Ok n | _ => Panic end.
Definition as_str (v : value) : outcome bytes := match v with VStr s => Ok s | _ => Panic end.
Definition as_arr (v : value) : outcome (list value) := match v with VArr l => Ok l | _ => Panic end.
Definition as_obj (v : value) : outcome obj := match v with VObj m => Ok m | _ => Panic end.
Definition as_exp (v : value) : outcome node := match v with VExp r => Ok r | _ => Panic end.

(* util.go toArrayNum / toArrayStr *)
Fixpoint all_nums (l : list value) : option (list num) :=
  match l with
  | [] => Some []
  | VNum n :: r => match all_nums r with Some ns => Some (n :: ns) | None => None end
  | _ => None
  end.
Fixpoint all_strs (l : list value) : option (list bytes) :=
  match l with
  | [] => Some []
  | VStr s :: r => match all_strs r with Some ss => Some (s :: ss) | None => None end
  | _ => None
  end.
Definition toArrayNum (v : value) : option (list num) :=
  match v with VArr l => all_nums l | _ => None end.
Definition toArrayStr (v : value) : option (list bytes) :=
  match v with VArr l => all_strs l | _ => None end.

(* util.go isSliceType, on the values of this model *)
Definition isSliceType (v : value) : bool := match v with VArr _ => true | _ => false end.

(* argSpec.typeCheck *)
Definition type_ok (t : jpType) (a : value) : bool :=
  match t with
  | jpNumber => match a with VNum _ => true | _ => false end
  | jpString => match a with VStr _ => true | _ => false end
  | jpArray => isSliceType a
  | jpObject => match a with VObj _ => true | _ => false end
  | jpArrayNumber => match toArrayNum a with Some _ => true | None => false end
  | jpArrayString => match toArrayStr a with Some _ => true | None => false end
  | jpAny => match a with VExp _ => false | _ => true end
  | jpExpref => match a with VExp _ => true | _ => false end
  end.
Definition typeCheck (s : argSpec) (a : value) : bool := existsb (fun t => type_ok t a) (as_types s).

(* functionEntry.resolveArgs: true = accepted *)
Fixpoint check_fixed (specs : list argSpec) (args : list value) : bool :=
  match specs, args with
  | s :: ss, a :: aa => typeCheck s a && check_fixed ss aa
  | _, _ => true
  end.
Fixpoint check_variadic (specs : list argSpec) (lastspec : argSpec) (args : list value) : bool :=
  match args with
  | [] => true
  | a :: aa =>
    match specs with
    | s :: ss => typeCheck s a && check_variadic ss lastspec aa
    | [] => typeCheck lastspec a && check_variadic [] lastspec aa
    end
  end.
Definition resolveArgs (e : functionEntry) (args : list value) : bool :=
  match fe_args e with
  | [] => true
  | s0 :: _ =>
    let lastspec := last (fe_args e) s0 in
    if negb (as_variadic lastspec) then
      Nat.eqb (length (fe_args e)) (length args) && check_fixed (fe_args e) args
    else
      negb (Nat.ltb (length args) (length (fe_args e))) && check_variadic (fe_args e) lastspec args
  end.

(* ---- helpers on byte strings ---- *)
Fixpoint has_prefix (s p : bytes) : bool :=
  match p, s with
  | [], _ => true
  | a :: p', b :: s' => N.eqb a b && has_prefix s' p'
  | _ :: _, [] => false
  end.
Definition has_suffix (s p : bytes) : bool := has_prefix (rev s) (rev p).
Fixpoint contains_sub (s p : bytes) : bool :=
  has_prefix s p || match s with [] => false | _ :: r => contains_sub r p end.

(* a stable sort: insertion from the right, inserting before the first strictly
   greater element.  Stands for sort.Stable (see DESIGN, trusted base). *)
Section Sort.
Context {A : Type} (lt : A -> A -> bool).
(* equal elements keep their order: x, coming from the left of l, goes before them *)
Fixpoint insert_before (x : A) (l : list A) : list A :=
  match l with
  | [] => [x]
  | y :: r => if lt y x then y :: insert_before x r else x :: l
  end.
Fixpoint stable_sort (l : list A) : list A :=
  match l with
  | [] => []
  | x :: r => insert_before x (stable_sort r)
  end.
End Sort.

(* ---- the handlers ---- *)
Definition jpfAbs (args : list value) : outcome value :=
  a <- arg args 0 ;; n <- as_num a ;; Ok (VNum (num_abs n)).

Definition jpfLength (args : list value) : outcome value :=
  a <- arg args 0 ;;
  match a with
  | VStr s => Ok (VNum (num_of_Z (rune_count s)))
  | VArr l => Ok (VNum (num_of_Z (zlen l)))
  | VObj m => Ok (VNum (num_of_Z (zlen m)))
  | _ => Err EEval
  end.

Definition jpfStartsWith (args : list value) : outcome value :=
  a <- arg args 0 ;; s <- as_str a ;; b <- arg args 1 ;; p <- as_str b ;;
  Ok (VBool (has_prefix s p)).

Definition jpfEndsWith (args : list value) : outcome value :=
  a <- arg args 0 ;; s <- as_str a ;; b <- arg args 1 ;; p <- as_str b ;;
  Ok (VBool (has_suffix s p)).

Definition jpfAvg (args : list value) : outcome value :=
  a <- arg args 0 ;; l <- as_arr a ;;
  match l with
  | [] => Ok VNull
  | _ =>
    ns <- mapM as_num l ;;
    Ok (VNum (num_div (fold_left num_add ns (num_of_Z 0)) (num_of_Z (zlen l))))
  end.

Definition jpfCeil (args : list value) : outcome value :=
  a <- arg args 0 ;; n <- as_num a ;; Ok (VNum (num_ceil n)).
Definition jpfFloor (args : list value) : outcome value :=
  a <- arg args 0 ;; n <- as_num a ;; Ok (VNum (num_floor n)).

Definition jpfContains (args : list value) : outcome value :=
  search <- arg args 0 ;; el <- arg args 1 ;;
  match search with
  | VStr s => match el with
              | VStr e => Ok (VBool (contains_sub s e))
              | _ => Ok (VBool false)
              end
  | _ => l <- as_arr search ;; Ok (VBool (existsb (fun item => objs_equal item el) l))
  end.

Definition jpfMap (args : list value) : outcome value :=
  a <- arg args 0 ;; r <- as_exp a ;; b <- arg args 1 ;; l <- as_arr b ;;
  ys <- mapM (exec r) l ;; Ok (VArr ys).

(* best := items[0]; for item in items[1:] { if better item best { best = item } } *)
Definition pick {A} (better : A -> A -> bool) (l : list A) : option A :=
  match l with
  | [] => None
  | x :: r => Some (fold_left (fun best item => if better item best then item else best) r x)
  end.

Definition jpfMax (args : list value) : outcome value :=
  a <- arg args 0 ;;
  match toArrayNum a with
  | Some ns => Ok (match pick (fun item best => num_ltb best item) ns with
                   | Some n => VNum n | None => VNull end)
  | None =>
    let ss := match toArrayStr a with Some ss => ss | None => [] end in
    Ok (match pick (fun item best => bytes_ltb best item) ss with
        | Some s => VStr s | None => VNull end)
  end.

Definition jpfMin (args : list value) : outcome value :=
  a <- arg args 0 ;;
  match toArrayNum a with
  | Some ns => Ok (match pick (fun item best => num_ltb item best) ns with
                   | Some n => VNum n | None => VNull end)
  | None =>
    let ss := match toArrayStr a with Some ss => ss | None => [] end in
    Ok (match pick (fun item best => bytes_ltb item best) ss with
        | Some s => VStr s | None => VNull end)
  end.

Definition jpfMerge (args : list value) : outcome value :=
  ms <- mapM as_obj args ;;
  Ok (VObj (fold_left (fun final m => fold_left (fun f kv => obj_set (fst kv) (snd kv) f) m final) ms [])).

Definition jpfSum (args : list value) : outcome value :=
  a <- arg args 0 ;;
  let ns := match toArrayNum a with Some ns => ns | None => [] end in
  Ok (VNum (fold_left num_add ns (num_of_Z 0))).

(* the loop of max_by / min_by over arr[1:] for number keys *)
Fixpoint by_loop_num (better : num -> num -> bool) (r : node) (items : list value)
         (bestVal : num) (bestItem : value) : outcome value :=
  match items with
  | [] => Ok bestItem
  | item :: rest =>
    res <- exec r item ;;
    match res with
    | VNum cur => if better cur bestVal then by_loop_num better r rest cur item
                  else by_loop_num better r rest bestVal bestItem
    | _ => Err EEval
    end
  end.
Fixpoint by_loop_str (better : bytes -> bytes -> bool) (r : node) (items : list value)
         (bestVal : bytes) (bestItem : value) : outcome value :=
  match items with
  | [] => Ok bestItem
  | item :: rest =>
    res <- exec r item ;;
    match res with
    | VStr cur => if better cur bestVal then by_loop_str better r rest cur item
                  else by_loop_str better r rest bestVal bestItem
    | _ => Err EEval
    end
  end.

Definition by_extreme (num_better : num -> num -> bool) (str_better : bytes -> bytes -> bool)
           (args : list value) : outcome value :=
  a <- arg args 0 ;; arr <- as_arr a ;; b <- arg args 1 ;; r <- as_exp b ;;
  match arr with
  | [] => Ok VNull
  | first :: rest =>
    start <- exec r first ;;
    match start with
    | VNum t => by_loop_num num_better r rest t first
    | VStr t => by_loop_str str_better r rest t first
    | _ => Err EEval
    end
  end.

Definition jpfMaxBy := by_extreme (fun cur best => num_ltb best cur) (fun cur best => bytes_ltb best cur).
Definition jpfMinBy := by_extreme (fun cur best => num_ltb cur best) (fun cur best => bytes_ltb cur best).

Definition jpfType (args : list value) : outcome value :=
  a <- arg args 0 ;;
  match a with
  | VNum _ => Ok (VStr (str "number"))
  | VStr _ => Ok (VStr (str "string"))
  | VArr _ => Ok (VStr (str "array"))
  | VObj _ => Ok (VStr (str "object"))
  | VNull => Ok (VStr (str "null"))
  | VBool _ => Ok (VStr (str "boolean"))
  | VExp _ => Err EEval
  end.

Definition jpfKeys (args : list value) : outcome value :=
  a <- arg args 0 ;; m <- as_obj a ;; Ok (VArr (map (fun kv => VStr (fst kv)) (ord m))).
Definition jpfValues (args : list value) : outcome value :=
  a <- arg args 0 ;; m <- as_obj a ;; Ok (VArr (map snd (ord m))).

Definition jpfSort (args : list value) : outcome value :=
  a <- arg args 0 ;;
  match toArrayNum a with
  | Some ns => Ok (VArr (map VNum (stable_sort num_ltb ns)))
  | None =>
    let ss := match toArrayStr a with Some ss => ss | None => [] end in
    Ok (VArr (map VStr (stable_sort bytes_ltb ss)))
  end.

(* keys of all elements, each of the kind of the first key; Err = hasError *)
Definition key_num (r : node) (x : value) : outcome (num * value) :=
  k <- exec r x ;; match k with VNum n => Ok (n, x) | _ => Err EEval end.
Definition key_str (r : node) (x : value) : outcome (bytes * value) :=
  k <- exec r x ;; match k with VStr s => Ok (s, x) | _ => Err EEval end.

Definition jpfSortBy (args : list value) : outcome value :=
  a <- arg args 0 ;; arr <- as_arr a ;; b <- arg args 1 ;; r <- as_exp b ;;
  match arr with
  | [] => Ok (VArr arr)
  | first :: _ =>
    start <- exec r first ;;
    match start with
    | VNum _ =>
      ks <- mapM (key_num r) arr ;;
      Ok (VArr (map snd (stable_sort (fun p q => num_ltb (fst p) (fst q)) ks)))
    | VStr _ =>
      ks <- mapM (key_str r) arr ;;
      Ok (VArr (map snd (stable_sort (fun p q => bytes_ltb (fst p) (fst q)) ks)))
    | _ => Err EEval
    end
  end.

Definition jpfJoin (args : list value) : outcome value :=
  a <- arg args 0 ;; sep <- as_str a ;; b <- arg args 1 ;; l <- as_arr b ;;
  ss <- mapM as_str l ;; Ok (VStr (join_bytes sep ss)).

Definition jpfReverse (args : list value) : outcome value :=
  a <- arg args 0 ;;
  match a with
  | VStr s => Ok (VStr (string_of_runes (rev (runes_of s))))
  | _ => l <- as_arr a ;; Ok (VArr (rev l))
  end.

Definition jpfToArray (args : list value) : outcome value :=
  a <- arg args 0 ;;
  match a with
  | VArr _ => Ok a
  | _ => Ok (VArr [a])
  end.

Definition jpfToString (args : list value) : outcome value :=
  a <- arg args 0 ;;
  match a with
  | VStr _ => Ok a
  | _ => match json_marshal a with Some t => Ok (VStr t) | None => Err EEval end
  end.

Definition jpfToNumber (args : list value) : outcome value :=
  a <- arg args 0 ;;
  match a with
  | VNum _ => Ok a
  | VStr s => match num_parse_go s with
              | Some x => if num_finite x then Ok (VNum x) else Ok VNull
              | None => Ok VNull
              end
  | VArr _ | VObj _ | VNull | VBool _ => Ok VNull
  | VExp _ => Err EEval
  end.

Definition jpfNotNull (args : list value) : outcome value :=
  Ok (match find (fun a => match a with VNull => false | _ => true end) args with
      | Some a => a | None => VNull end).

Definition handlers : list (bytes * (list value -> outcome value)) :=
  [ (str "jpfLength", jpfLength); (str "jpfStartsWith", jpfStartsWith); (str "jpfAbs", jpfAbs);
    (str "jpfAvg", jpfAvg); (str "jpfCeil", jpfCeil); (str "jpfContains", jpfContains);
    (str "jpfEndsWith", jpfEndsWith); (str "jpfFloor", jpfFloor); (str "jpfMap", jpfMap);
    (str "jpfMax", jpfMax); (str "jpfMerge", jpfMerge); (str "jpfMaxBy", jpfMaxBy);
    (str "jpfSum", jpfSum); (str "jpfMin", jpfMin); (str "jpfMinBy", jpfMinBy);
    (str "jpfType", jpfType); (str "jpfKeys", jpfKeys); (str "jpfValues", jpfValues);
    (str "jpfSort", jpfSort); (str "jpfSortBy", jpfSortBy); (str "jpfJoin", jpfJoin);
    (str "jpfReverse", jpfReverse); (str "jpfToArray", jpfToArray); (str "jpfToString", jpfToString);
    (str "jpfToNumber", jpfToNumber); (str "jpfNotNull", jpfNotNull) ].

Fixpoint assoc_bytes {A} (k : bytes) (l : list (bytes * A)) : option A :=
  match l with
  | [] => None
  | (k', v) :: r => if bytes_eqb k k' then Some v else assoc_bytes k r
  end.

Definition find_entry (name : bytes) : option functionEntry :=
  find (fun e => bytes_eqb (fe_key e) name) function_table.

(* functionCaller.CallFunction *)
Definition CallFunction (name : bytes) (args : list value) : outcome value :=
  match find_entry name with
  | None => Err EEval
  | Some e =>
    if resolveArgs e args then
      match assoc_bytes (fe_handler e) handlers with
      | Some h => h args
      | None => Panic          (* a handler this model does not know *)
      end
    else Err EEval
  end.

End WithNum.

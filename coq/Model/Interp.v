(* Interp.v — interpreter.go Execute (the paths taken for JSON data and
   expression references; the reflection paths for Go structs and typed slices
   are in GoVal.v), util.go isFalse. *)
From JM Require Import Model.Base Model.Num Model.Utf8 Model.Value Model.JsonText
     Model.Slice Model.Functions.
From JM Require Import gen.Tables.

Section WithNum.
Context {NumO : NumOps}.
Variable ord : obj -> obj.

(* util.go isFalse *)
Definition isFalse (v : value) : bool :=
  match v with
  | VBool b => negb b
  | VArr l => match l with [] => true | _ => false end
  | VObj m => match m with [] => true | _ => false end
  | VStr s => match s with [] => true | _ => false end
  | VNull => true
  | VNum _ => false
  | VExp _ => false          (* reflect.Struct: never false *)
  end.

Definition child (ch : list node) (k : nat) : outcome node := nth_or_panic ch k.
Definition is_null (v : value) : bool := match v with VNull => true | _ => false end.

Fixpoint Execute (fuel : nat) (n : node) (v : value) {struct fuel} : outcome value :=
  match fuel with
  | O => OutOfFuel
  | S f =>
    let exec := Execute f in
    let 'Node ty val ch := n in
    match ty with
    | ASTComparator =>
      c0 <- child ch 0 ;; lft <- exec c0 v ;;
      c1 <- child ch 1 ;; rgt <- exec c1 v ;;
      match val with
      | NVTok tEQ => Ok (VBool (objs_equal lft rgt))
      | NVTok tNE => Ok (VBool (negb (objs_equal lft rgt)))
      | _ =>
        match lft with
        | VNum ln =>
          match rgt with
          | VNum rn =>
            match val with
            | NVTok tGT => Ok (VBool (num_ltb rn ln))
            | NVTok tGTE => Ok (VBool (num_leb rn ln))
            | NVTok tLT => Ok (VBool (num_ltb ln rn))
            | NVTok tLTE => Ok (VBool (num_leb ln rn))
            | _ => Err EEval      (* falls out of the switch: "Unknown AST node" *)
            end
          | _ => Ok VNull
          end
        | _ => Ok VNull
        end
      end
    | ASTExpRef => c0 <- child ch 0 ;; Ok (VExp c0)
    | ASTFunctionExpression =>
      args <- mapM (fun a => exec a v) ch ;;
      match val with
      | NVStr name => CallFunction ord exec name args
      | _ => Panic                 (* node.value.(string) *)
      end
    | ASTField =>
      match val with
      | NVStr key =>
        match v with
        | VObj m => Ok (match obj_get key m with Some x => x | None => VNull end)
        | _ => Ok VNull            (* fieldFromStruct on a non-struct *)
        end
      | _ => Panic                 (* node.value.(string) *)
      end
    | ASTFilterProjection =>
      c0 <- child ch 0 ;; lft <- exec c0 v ;;
      match lft with
      | VArr l =>
        compareNode <- child ch 2 ;;
        rs <- mapM (fun element =>
                      result <- exec compareNode element ;;
                      if negb (isFalse result) then
                        c1 <- child ch 1 ;; exec c1 element
                      else Ok VNull) l ;;
        Ok (VArr (filter (fun x => negb (is_null x)) rs))
      | _ => Ok VNull
      end
    | ASTFlatten =>
      c0 <- child ch 0 ;; lft <- exec c0 v ;;
      match lft with
      | VArr l =>
        Ok (VArr (flat_map (fun element => match element with VArr inner => inner | _ => [element] end) l))
      | _ => Ok VNull
      end
    | ASTIdentity | ASTCurrentNode => Ok v
    | ASTIndex =>
      match v with
      | VArr l =>
        if two63 <=? zlen l then OutOfFuel   (* len(slice) < 2^63 in Go: a longer list is outside the model *)
        else
        match val with
        | NVInt index0 =>
          let index := if index0 <? 0 then wrap64 (index0 + zlen l) else index0 in
          if (index <? zlen l) && (0 <=? index)
          then Ok (nth (Z.to_nat index) l VNull) else Ok VNull
        | _ => Panic               (* node.value.(int) *)
        end
      | _ => Ok VNull
      end
    | ASTKeyValPair => c0 <- child ch 0 ;; exec c0 v
    | ASTLiteral =>
      match val with
      | NVJson j => Ok j
      | NVNone => Ok VNull
      | NVStr s => Ok (VStr s)
      | _ => Panic   (* an int / tokType / []*int as a value: not representable here; excluded by wf_node *)
      end
    | ASTMultiSelectHash =>
      if is_null v then Ok VNull
      else
        kvs <- mapM (fun c =>
                       cur <- exec c v ;;
                       match node_val c with
                       | NVStr key => Ok (key, cur)
                       | _ => Panic          (* child.value.(string) *)
                       end) ch ;;
        Ok (VObj (fold_left (fun m kv => obj_set (fst kv) (snd kv) m) kvs []))
    | ASTMultiSelectList =>
      if is_null v then Ok VNull
      else rs <- mapM (fun c => exec c v) ch ;; Ok (VArr rs)
    | ASTOrExpression =>
      c0 <- child ch 0 ;; matched <- exec c0 v ;;
      if isFalse matched then c1 <- child ch 1 ;; exec c1 v else Ok matched
    | ASTAndExpression =>
      c0 <- child ch 0 ;; matched <- exec c0 v ;;
      if isFalse matched then Ok matched else c1 <- child ch 1 ;; exec c1 v
    | ASTNotExpression =>
      c0 <- child ch 0 ;; matched <- exec c0 v ;;
      Ok (VBool (isFalse matched))
    | ASTPipe =>
      fold_left (fun acc c => r <- acc ;; exec c r) ch (Ok v)
    | ASTProjection =>
      c0 <- child ch 0 ;; lft <- exec c0 v ;;
      match lft with
      | VArr l =>
        rs <- mapM (fun element => c1 <- child ch 1 ;; exec c1 element) l ;;
        Ok (VArr (filter (fun x => negb (is_null x)) rs))
      | _ => Ok VNull
      end
    | ASTSubexpression | ASTIndexExpression =>
      c0 <- child ch 0 ;; lft <- exec c0 v ;;
      c1 <- child ch 1 ;; exec c1 lft
    | ASTSlice =>
      match v with
      | VArr l =>
        if two63 <=? zlen l then OutOfFuel   (* as for ASTIndex *)
        else
        match val with
        | NVSlice a b c => r <- slice_go l (mk_param a) (mk_param b) (mk_param c) ;; Ok (VArr r)
        | _ => Panic               (* node.value.([]*int) *)
        end
      | _ => Ok VNull
      end
    | ASTValueProjection =>
      c0 <- child ch 0 ;; lft <- exec c0 v ;;
      match lft with
      | VObj m =>
        rs <- mapM (fun element => c1 <- child ch 1 ;; exec c1 element) (map snd (ord m)) ;;
        Ok (VArr (filter (fun x => negb (is_null x)) rs))
      | _ => Ok VNull
      end
    | ASTEmpty => Err EEval        (* "Unknown AST node" *)
    end
  end.

End WithNum.

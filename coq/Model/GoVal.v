(* GoVal.v — interpreter.go on documents made of Go structs, pointers to
   structs and typed slices: the reflection paths of Execute (fieldFromStruct,
   the ...WithReflection twins, the reflection cases of isFalse, valueOf, the
   root normalisation of api.go) for the navigational node types, and
   length().  Comparators (reflect.DeepEqual depends on Go type identity), the
   object wildcard (defined on maps only) and the other functions are outside
   this model: ExecuteG answers Err EEval for them and the statements about it
   are restricted to the navigational fragment.
   What is modelled of Go's type system: a struct value is its list of fields,
   each with the JSON key of its tag (the Go field name is cap key); a pointer
   points to a struct or is nil; a typed slice is non-nil and holds its
   elements as Index(i).Interface() would give them. *)
From JM Require Import Model.Base Model.Num Model.Utf8 Model.Value Model.Slice.

Section WithNum.
Context {NumO : NumOps}.

(* string(unicode.ToUpper(first rune)) + rest *)
Variable cap : bytes -> bytes.

Inductive gval :=
| GNull
| GBool (b : bool)
| GNum (n : num)
| GStr (s : bytes)
| GArr (l : list gval)                        (* []interface{} *)
| GObj (m : list (bytes * gval))              (* map[string]interface{} *)
| GStruct (fs : list (bytes * gval))          (* struct value *)
| GPtr (p : option (list (bytes * gval)))     (* pointer to struct; None: nil pointer *)
| GSlice (l : list gval).                     (* typed slice *)

(* interpreter.go valueOf: a nil pointer becomes the untyped nil *)
Definition value_of (g : gval) : gval := match g with GPtr None => GNull | _ => g end.

(* util.go isFalse with its reflection cases *)
Definition isFalseG (g : gval) : bool :=
  match g with
  | GNull | GBool false | GStr [] | GArr [] | GObj [] | GSlice [] | GPtr None => true
  | _ => false
  end.

Fixpoint field_by_name (name : bytes) (fs : list (bytes * gval)) : option gval :=
  match fs with
  | [] => None
  | (k, v) :: r => if bytes_eqb (cap k) name then Some v else field_by_name name r
  end.

Fixpoint gobj_get (k : bytes) (m : list (bytes * gval)) : option gval :=
  match m with
  | [] => None
  | (k', v) :: r => if bytes_eqb k k' then Some v else gobj_get k r
  end.

Fixpoint gobj_set (k : bytes) (v : gval) (m : list (bytes * gval)) : list (bytes * gval) :=
  match m with
  | [] => [(k, v)]
  | (k', v') :: r =>
    if bytes_eqb k k' then (k, v) :: r
    else if bytes_ltb k k' then (k, v) :: m
    else (k', v') :: gobj_set k v r
  end.

(* interpreter.go fieldFromStruct *)
Definition field_from_struct (key : bytes) (g : gval) : gval :=
  match g with
  | GStruct fs | GPtr (Some fs) =>
    match field_by_name (cap key) fs with Some v => value_of v | None => GNull end
  | _ => GNull
  end.

(* a JSON value held by the AST (a literal) as a Go value *)
Fixpoint embed (v : value) : option gval :=
  match v with
  | VNull => Some GNull
  | VBool b => Some (GBool b)
  | VNum n => Some (GNum n)
  | VStr s => Some (GStr s)
  | VArr l =>
    match (fix go (l : list value) : option (list gval) :=
             match l with
             | [] => Some []
             | x :: r => match embed x, go r with Some a, Some b => Some (a :: b) | _, _ => None end
             end) l with
    | Some l' => Some (GArr l') | None => None end
  | VObj m =>
    match (fix go (m : obj) : option (list (bytes * gval)) :=
             match m with
             | [] => Some []
             | (k, x) :: r => match embed x, go r with Some a, Some b => Some ((k, a) :: b) | _, _ => None end
             end) m with
    | Some m' => Some (GObj m') | None => None end
  | VExp _ => None
  end.

Definition is_gnull (g : gval) : bool := match g with GNull => true | _ => false end.

(* the elements a projection, flatten, slice or index sees *)
Definition elements (g : gval) : option (list gval) :=
  match g with
  | GArr l => Some l
  | GSlice l => Some (map value_of l)       (* valueOf(v.Index(i)) *)
  | _ => None
  end.

Fixpoint ExecuteG (fuel : nat) (n : node) (v : gval) {struct fuel} : outcome gval :=
  match fuel with
  | O => OutOfFuel
  | S f =>
    let exec := ExecuteG f in
    let 'Node ty val ch := n in
    match ty with
    | ASTField =>
      match val with
      | NVStr key =>
        match v with
        | GObj m => Ok (match gobj_get key m with Some x => x | None => GNull end)
        | _ => Ok (field_from_struct key v)
        end
      | _ => Panic
      end
    | ASTFilterProjection =>
      c0 <- nth_or_panic ch 0 ;; lft <- exec c0 v ;;
      match elements lft with
      | Some l =>
        compareNode <- nth_or_panic ch 2 ;;
        rs <- mapM (fun element =>
                      result <- exec compareNode element ;;
                      if negb (isFalseG result) then
                        c1 <- nth_or_panic ch 1 ;; exec c1 element
                      else Ok GNull) l ;;
        Ok (GArr (filter (fun x => negb (is_gnull x)) rs))
      | None => Ok GNull
      end
    | ASTFlatten =>
      c0 <- nth_or_panic ch 0 ;; lft <- exec c0 v ;;
      match elements lft with
      | Some l =>
        Ok (GArr (flat_map (fun element =>
                              match element with
                              | GArr inner => inner
                              | GSlice inner => map value_of inner
                              | _ => [element]
                              end) l))
      | None => Ok GNull
      end
    | ASTIdentity | ASTCurrentNode => Ok v
    | ASTIndex =>
      match elements v with
      | Some l =>
        if two63 <=? zlen l then OutOfFuel
        else
        match val with
        | NVInt index0 =>
          let index := if index0 <? 0 then wrap64 (index0 + zlen l) else index0 in
          if (index <? zlen l) && (0 <=? index)
          then Ok (nth (Z.to_nat index) l GNull) else Ok GNull
        | _ => Panic
        end
      | None => Ok GNull
      end
    | ASTKeyValPair => c0 <- nth_or_panic ch 0 ;; exec c0 v
    | ASTLiteral =>
      match val with
      | NVJson j => match embed j with Some g => Ok g | None => Err EEval end
      | NVNone => Ok GNull
      | NVStr s => Ok (GStr s)
      | _ => Panic
      end
    | ASTMultiSelectHash =>
      if is_gnull v then Ok GNull
      else
        kvs <- mapM (fun c =>
                       cur <- exec c v ;;
                       match node_val c with
                       | NVStr key => Ok (key, cur)
                       | _ => Panic
                       end) ch ;;
        Ok (GObj (fold_left (fun m kv => gobj_set (fst kv) (snd kv) m) kvs []))
    | ASTMultiSelectList =>
      if is_gnull v then Ok GNull
      else rs <- mapM (fun c => exec c v) ch ;; Ok (GArr rs)
    | ASTOrExpression =>
      c0 <- nth_or_panic ch 0 ;; matched <- exec c0 v ;;
      if isFalseG matched then c1 <- nth_or_panic ch 1 ;; exec c1 v else Ok matched
    | ASTAndExpression =>
      c0 <- nth_or_panic ch 0 ;; matched <- exec c0 v ;;
      if isFalseG matched then Ok matched else c1 <- nth_or_panic ch 1 ;; exec c1 v
    | ASTNotExpression =>
      c0 <- nth_or_panic ch 0 ;; matched <- exec c0 v ;;
      Ok (GBool (isFalseG matched))
    | ASTPipe =>
      fold_left (fun acc c => r <- acc ;; exec c r) ch (Ok v)
    | ASTProjection =>
      c0 <- nth_or_panic ch 0 ;; lft <- exec c0 v ;;
      match elements lft with
      | Some l =>
        rs <- mapM (fun element => c1 <- nth_or_panic ch 1 ;; exec c1 element) l ;;
        Ok (GArr (filter (fun x => negb (is_gnull x)) rs))
      | None => Ok GNull
      end
    | ASTSubexpression | ASTIndexExpression =>
      c0 <- nth_or_panic ch 0 ;; lft <- exec c0 v ;;
      c1 <- nth_or_panic ch 1 ;; exec c1 lft
    | ASTSlice =>
      match elements v with
      | Some l =>
        if two63 <=? zlen l then OutOfFuel
        else
        match val with
        | NVSlice a b c => r <- slice_go l (mk_param a) (mk_param b) (mk_param c) ;; Ok (GArr r)
        | _ => Panic
        end
      | None => Ok GNull
      end
    | ASTFunctionExpression =>
      (* only length(x): a string, a slice of any kind, a map *)
      match val, ch with
      | NVStr name, [a] =>
        if bytes_eqb name (str "length") then
          x <- exec a v ;;
          match x with
          | GStr s => Ok (GNum (num_of_Z (rune_count s)))
          | GArr l | GSlice l => Ok (GNum (num_of_Z (zlen l)))
          | GObj m => Ok (GNum (num_of_Z (zlen m)))
          | _ => Err EEval
          end
        else Err EEval
      | _, _ => Err EEval
      end
    | _ => Err EEval      (* outside the navigational fragment *)
    end
  end.

(* the equivalent generic JSON document: structs and pointers to structs become
   objects keyed by the JSON keys, nil pointers null, typed slices arrays *)
Fixpoint norm (g : gval) : value :=
  let norm_fields :=
      fix go (fs : list (bytes * gval)) : obj :=
        match fs with
        | [] => []
        | (k, x) :: r => obj_set k (norm x) (go r)
        end in
  match g with
  | GNull => VNull
  | GBool b => VBool b
  | GNum n => VNum n
  | GStr s => VStr s
  | GArr l | GSlice l => VArr (map norm l)
  | GObj m | GStruct m | GPtr (Some m) => VObj (norm_fields m)
  | GPtr None => VNull
  end.

(* api.go Search on a compiled expression: the document goes through rootValue *)
Definition search_go (fuel : nat) (n : node) (doc : gval) : outcome gval := ExecuteG fuel n (value_of doc).

(* unicode.ToUpper on an ASCII first letter (the instance the correspondence run uses) *)
Definition ascii_cap (k : bytes) : bytes :=
  match k with
  | c :: r => (if N.leb 97 c && N.leb c 122 then c - 32 else c)%N :: r
  | [] => []
  end.

End WithNum.

(* Base.v — byte strings, outcomes, small utilities shared by the whole model.
   Definitions only; proofs about them live in Proofs/. *)
From Coq Require Export List ZArith NArith Bool Lia.
From Coq Require Ascii String.
Export ListNotations.
Export Ascii.AsciiSyntax String.StringSyntax.
Open Scope Z_scope.

(* Go strings are byte sequences; a byte is an N below 256. *)
Definition byte := N.
Definition bytes := list N.

Definition byte_ok (b : N) : bool := N.ltb b 256.
Definition bytes_ok (s : bytes) : bool := forallb byte_ok s.

Fixpoint bytes_eqb (a b : bytes) : bool :=
  match a, b with
  | [], [] => true
  | x :: a', y :: b' => N.eqb x y && bytes_eqb a' b'
  | _, _ => false
  end.

(* Go's < on strings: lexicographic on bytes. *)
Fixpoint bytes_ltb (a b : bytes) : bool :=
  match a, b with
  | [], [] => false
  | [], _ :: _ => true
  | _ :: _, [] => false
  | x :: a', y :: b' => if N.ltb x y then true else if N.ltb y x then false else bytes_ltb a' b'
  end.

Definition ch (a : Ascii.ascii) : N := Ascii.N_of_ascii a.
Fixpoint str (s : String.string) : bytes :=
  match s with
  | String.EmptyString => []
  | String.String a r => ch a :: str r
  end.
Arguments ch a%char_scope.
Arguments str s%string_scope.

(* errors as the callers can observe them *)
Inductive err :=
| ESyntax (offset : Z)        (* jmespath.SyntaxError with its Offset *)
| ECompileOther               (* error of json.Unmarshal / strconv.Atoi surfacing from Compile *)
| EEval.                      (* any error returned by Execute *)

(* What a call into the library can do.  Panic is produced exactly where the
   Go code would panic (unchecked assertion / index); OutOfFuel is the model's
   own artefact and every theorem excludes it by a fuel bound. *)
Inductive outcome (A : Type) :=
| Ok (a : A)
| Err (e : err)
| Panic
| OutOfFuel.
Arguments Ok {A} a.
Arguments Err {A} e.
Arguments Panic {A}.
Arguments OutOfFuel {A}.

Definition bind {A B} (x : outcome A) (f : A -> outcome B) : outcome B :=
  match x with
  | Ok a => f a
  | Err e => Err e
  | Panic => Panic
  | OutOfFuel => OutOfFuel
  end.

Notation "x <- e ;; f" := (bind e (fun x => f))
  (at level 61, e at next level, right associativity).
Notation "' p <- e ;; f" := (bind e (fun p => f))
  (at level 61, p pattern, e at next level, right associativity).

Definition omap {A B} (f : A -> B) (x : outcome A) : outcome B :=
  bind x (fun a => Ok (f a)).

(* map with early exit, left to right — the shape of every Go "for … { x, err := …; if err != nil { return } }" *)
Fixpoint mapM {A B} (f : A -> outcome B) (l : list A) : outcome (list B) :=
  match l with
  | [] => Ok []
  | x :: r => y <- f x ;; ys <- mapM f r ;; Ok (y :: ys)
  end.

Definition is_ok {A} (x : outcome A) : bool := match x with Ok _ => true | _ => false end.
Definition is_err {A} (x : outcome A) : bool := match x with Err _ => true | _ => false end.
(* "returns normally": a value or an error *)
Definition returns {A} (x : outcome A) : Prop := match x with Ok _ | Err _ => True | _ => False end.

(* unchecked indexing: Go panics when out of range *)
Definition nth_or_panic {A} (l : list A) (i : nat) : outcome A :=
  match nth_error l i with Some x => Ok x | None => Panic end.

(* Go int: 64-bit two's complement *)
Definition two63 : Z := 9223372036854775808.
Definition two64 : Z := 18446744073709551616.
Definition wrap64 (z : Z) : Z := (z + two63) mod two64 - two63.
Definition in_int64 (z : Z) : bool := (- two63 <=? z) && (z <? two63).

Definition zlen {A} (l : list A) : Z := Z.of_nat (length l).

Definition substr {A} (l : list A) (a b : nat) : list A := firstn (b - a) (skipn a l).

(* Cli.v — cmd/jpgo/main.go: run() as a function of the command line and the
   input bytes.  What is modelled: the argument count check, Parse, the choice
   of the input channel (both deliver a byte string or a read error), json.
   Unmarshal, Search, json.MarshalIndent(result, "", "  "), Println, and the
   exit status.  Not modelled: the text written to standard error, the flag
   package's own parsing (-ast, -input and "--" handling), the -ast printout. *)
From JM Require Import Model.Base Model.Num Model.Utf8 Model.Value Model.JsonText
     Model.Lexer Model.Parser Model.Slice Model.Functions Model.Interp Model.Api.

Section WithNum.
Context {NumO : NumOps}.
Variable ord : obj -> obj.

(* json.MarshalIndent(v, "", "  ") = Marshal, then Indent: a newline and two
   spaces per level after every opening bracket and comma and before every
   closing bracket, one space after a colon, empty containers kept closed *)
Definition indent_of (lvl : nat) : bytes := 10%N :: concat (repeat [32%N; 32%N] lvl).

Fixpoint marshal_indent (lvl : nat) (v : value) : option bytes :=
  match v with
  | VArr [] => Some (str "[]")
  | VObj [] => Some (str "{}")
  | VArr l =>
    match (fix go (l : list value) : option (list bytes) :=
             match l with
             | [] => Some []
             | x :: r => match marshal_indent (S lvl) x, go r with
                         | Some a, Some b => Some (a :: b)
                         | _, _ => None end
             end) l with
    | Some parts => Some (91%N :: indent_of (S lvl) ++ join_bytes (44%N :: indent_of (S lvl)) parts
                               ++ indent_of lvl ++ [93%N])
    | None => None
    end
  | VObj m =>
    match (fix go (m : obj) : option (list bytes) :=
             match m with
             | [] => Some []
             | (k, x) :: r => match marshal_indent (S lvl) x, go r with
                              | Some a, Some b => Some ((marshal_string k ++ 58%N :: 32%N :: a) :: b)
                              | _, _ => None end
             end) m with
    | Some parts => Some (123%N :: indent_of (S lvl) ++ join_bytes (44%N :: indent_of (S lvl)) parts
                                ++ indent_of lvl ++ [125%N])
    | None => None
    end
  | _ => json_marshal v
  end.

(* where the JSON input comes from; None = the read failed *)
Inductive channel := FromFile (content : option bytes) | FromStdin (content : option bytes).
Definition input_of (c : channel) : option bytes :=
  match c with FromFile x => x | FromStdin x => x end.

Record cli_result := CliResult { cli_stdout : bytes; cli_exit : Z }.

Definition fail : outcome cli_result := Ok (CliResult [] 1).

(* run(), for the positional arguments left after flag parsing, without -ast *)
Definition cli_run (args : list bytes) (c : channel) : outcome cli_result :=
  match args with
  | [expression] =>
    match parse expression with
    | Err _ => fail
    | Panic => Panic
    | OutOfFuel => OutOfFuel
    | Ok _ =>
      match input_of c with
      | None => fail
      | Some text =>
        match json_unmarshal text with
        | None => fail
        | Some data =>
          match search ord expression data with
          | Err _ => fail
          | Panic => Panic
          | OutOfFuel => OutOfFuel
          | Ok result =>
            match marshal_indent 0 result with
            | None => fail
            | Some t => Ok (CliResult (t ++ [10%N]) 0)
            end
          end
        end
      end
    end
  | _ => fail
  end.

End WithNum.

(* JsonText.v — encoding/json as the library uses it:
   json.Unmarshal(text, &interface{}) (literals), json.Unmarshal(text, &string)
   (quoted identifiers), json.Marshal(value) (to_string).
   MODELLED, not verified: this is Go's standard library, transcribed from
   encoding/json/{scanner,decode,encode}.go of the installed toolchain and tied
   to it by the correspondence check only. *)
From JM Require Import Model.Base Model.Num Model.Utf8 Model.Value.

Section WithNum.
Context {NumO : NumOps}.

Definition is_ws (c : N) : bool := N.eqb c 32 || N.eqb c 9 || N.eqb c 10 || N.eqb c 13.
Fixpoint skip_ws (s : bytes) : bytes :=
  match s with
  | c :: r => if is_ws c then skip_ws r else s
  | [] => []
  end.

Definition is_digit (c : N) : bool := N.leb 48 c && N.leb c 57.

Definition hex_val (c : N) : option Z :=
  if is_digit c then Some (Z.of_N c - 48)
  else if N.leb 97 c && N.leb c 102 then Some (Z.of_N c - 87)
  else if N.leb 65 c && N.leb c 70 then Some (Z.of_N c - 55)
  else None.

(* getu4 on the four characters after "\u" *)
Definition hex4 (s : bytes) : option (Z * bytes) :=
  match s with
  | a :: b :: c :: d :: r =>
    match hex_val a, hex_val b, hex_val c, hex_val d with
    | Some x, Some y, Some z, Some w => Some (x * 4096 + y * 256 + z * 16 + w, r)
    | _, _, _, _ => None
    end
  | _ => None
  end.

(* body of a JSON string after the opening quote: decoded bytes and the rest
   after the closing quote.  Scanner validity (control characters, escapes) and
   unquoteBytes (surrogates, coercion of ill-formed UTF-8 to U+FFFD) in one pass. *)
Fixpoint string_body (fuel : nat) (s : bytes) (acc : bytes) : option (bytes * bytes) :=
  match fuel with
  | O => None
  | S f =>
    match s with
    | [] => None
    | c :: r =>
      if N.eqb c 34 then Some (rev acc, r)
      else if N.ltb c 32 then None
      else if N.eqb c 92 then
        match r with
        | [] => None
        | e :: r' =>
          if N.eqb e 34 || N.eqb e 92 || N.eqb e 47 then string_body f r' (e :: acc)
          else if N.eqb e 98 then string_body f r' (8%N :: acc)
          else if N.eqb e 102 then string_body f r' (12%N :: acc)
          else if N.eqb e 110 then string_body f r' (10%N :: acc)
          else if N.eqb e 114 then string_body f r' (13%N :: acc)
          else if N.eqb e 116 then string_body f r' (9%N :: acc)
          else if N.eqb e 117 then
            match hex4 r' with
            | None => None
            | Some (rr, r2) =>
              if is_surrogate rr then
                (* utf16.DecodeRune(rr, getu4(next)) *)
                let pair :=
                  match r2 with
                  | 92%N :: 117%N :: r3 =>
                    match hex4 r3 with
                    | Some (rr1, r4) =>
                      if (rr <? 56320) && (56320 <=? rr1) && (rr1 <=? 57343)
                      then Some (65536 + (rr - 55296) * 1024 + (rr1 - 56320), r4) else None
                    | None => None
                    end
                  | _ => None
                  end in
                match pair with
                | Some (dec, r4) => string_body f r4 (rev_append (encode_rune dec) acc)
                | None => string_body f r2 (rev_append (encode_rune rune_error) acc)
                end
              else string_body f r2 (rev_append (encode_rune rr) acc)
            end
          else None
        end
      else if N.ltb c 128 then string_body f r (c :: acc)
      else
        let '(rr, w) := decode_rune s in
        string_body f (skipn w s) (rev_append (encode_rune rr) acc)
    end
  end.

(* number token of the scanner: -? (0 | [1-9][0-9]* ) (. [0-9]+)? ([eE] [+-]? [0-9]+)? *)
Fixpoint take_digits (s : bytes) : bytes * bytes :=
  match s with
  | c :: r => if is_digit c then let '(d, r') := take_digits r in (c :: d, r') else ([], s)
  | [] => ([], [])
  end.

Definition scan_number (s : bytes) : option (bytes * bytes) :=
  let '(sign, s1) := match s with 45%N :: r => ([45%N], r) | _ => ([], s) end in
  match s1 with
  | [] => None
  | c :: r1 =>
    let int_part :=
      if N.eqb c 48 then Some ([48%N], r1)
      else if is_digit c then let '(d, r') := take_digits r1 in Some (c :: d, r')
      else None in
    match int_part with
    | None => None
    | Some (ip, s2) =>
      let frac :=
        match s2 with
        | 46%N :: r2 =>
          let '(d, r') := take_digits r2 in
          match d with [] => None | _ => Some (46%N :: d, r') end
        | _ => Some ([], s2)
        end in
      match frac with
      | None => None
      | Some (fp, s3) =>
        let ex :=
          match s3 with
          | e :: r3 =>
            if N.eqb e 101 || N.eqb e 69 then
              let '(sg, r4) := match r3 with
                               | 43%N :: r' => ([43%N], r')
                               | 45%N :: r' => ([45%N], r')
                               | _ => ([], r3) end in
              let '(d, r') := take_digits r4 in
              match d with [] => None | _ => Some (e :: sg ++ d, r') end
            else Some ([], s3)
          | [] => Some ([], s3)
          end in
        match ex with
        | None => None
        | Some (ep, s4) => Some (sign ++ ip ++ fp ++ ep, s4)
        end
      end
    end
  end.

Fixpoint expect (lit : bytes) (s : bytes) : option bytes :=
  match lit, s with
  | [], _ => Some s
  | a :: l, b :: r => if N.eqb a b then expect l r else None
  | _, [] => None
  end.

Definition max_nesting_depth : Z := 10000.

(* array elements after "[" (the array is not empty), object members after "{";
   pv parses one value one nesting level further down *)
Fixpoint json_elems (pv : bytes -> option (value * bytes)) (g : nat) (s : bytes) (acc : list value)
  : option (value * bytes) :=
  match g with
  | O => None
  | S g' =>
    match pv s with
    | None => None
    | Some (v, r1) =>
      match skip_ws r1 with
      | 44%N :: r2 => json_elems pv g' r2 (v :: acc)
      | 93%N :: r2 => Some (VArr (rev (v :: acc)), r2)
      | _ => None
      end
    end
  end.

Fixpoint json_members (pv : bytes -> option (value * bytes)) (g : nat) (s : bytes) (acc : obj)
  : option (value * bytes) :=
  match g with
  | O => None
  | S g' =>
    match skip_ws s with
    | 34%N :: r0 =>
      match string_body (S (length r0)) r0 [] with
      | None => None
      | Some (k, r1) =>
        match skip_ws r1 with
        | 58%N :: r2 =>
          match pv r2 with
          | None => None
          | Some (v, r3) =>
            let acc' := obj_set k v acc in   (* duplicate key: last wins *)
            match skip_ws r3 with
            | 44%N :: r4 => json_members pv g' r4 acc'
            | 125%N :: r4 => Some (VObj acc', r4)
            | _ => None
            end
          end
        | _ => None
        end
      end
    | _ => None
    end
  end.

(* value := any JSON value; fuel bounds the number of bytes looked at *)
Fixpoint parse_value (fuel : nat) (depth : Z) (s0 : bytes) : option (value * bytes) :=
  match fuel with
  | O => None
  | S f =>
    let s := skip_ws s0 in
    match s with
    | [] => None
    | c :: r =>
      if N.eqb c 110 then match expect (str "ull") r with Some r' => Some (VNull, r') | None => None end
      else if N.eqb c 116 then match expect (str "rue") r with Some r' => Some (VBool true, r') | None => None end
      else if N.eqb c 102 then match expect (str "alse") r with Some r' => Some (VBool false, r') | None => None end
      else if N.eqb c 34 then
        match string_body (S (length r)) r [] with
        | Some (b, r') => Some (VStr b, r')
        | None => None
        end
      else if N.eqb c 45 || is_digit c then
        match scan_number s with
        | Some (tok, r') =>
          (* strconv.ParseFloat reports a range error for a token whose value
             is not a finite float64, and json.Unmarshal fails *)
          match num_parse_json tok with
          | Some n => if num_finite n then Some (VNum n, r') else None
          | None => None
          end
        | None => None
        end
      else if N.eqb c 91 then
        if max_nesting_depth <? depth + 1 then None else
        match skip_ws r with
        | 93%N :: r' => Some (VArr [], r')
        | _ => json_elems (parse_value f (depth + 1)) f r []
        end
      else if N.eqb c 123 then
        if max_nesting_depth <? depth + 1 then None else
        match skip_ws r with
        | 125%N :: r' => Some (VObj [], r')
        | _ => json_members (parse_value f (depth + 1)) f r []
        end
      else None
    end
  end.

(* json.Unmarshal([]byte(s), &interface{}) *)
Definition json_unmarshal (s : bytes) : option value :=
  match parse_value (S (length s)) 0 s with
  | Some (v, r) => match skip_ws r with [] => Some v | _ => None end
  | None => None
  end.

(* json.Unmarshal of (quote + body + quote) into a string, for a body produced by
   consumeUntil(quote): the text always starts with a quote *)
Definition json_unquote (body : bytes) : option bytes :=
  let s := body ++ [34%N] in
  match string_body (S (length s)) s [] with
  | Some (b, r) => match skip_ws r with [] => Some b | _ => None end
  | None => None
  end.

(* ---- json.Marshal ---- *)
Definition hex_digit (z : Z) : N := if z <? 10 then Z.to_N (48 + z) else Z.to_N (87 + z).

(* appendString with escapeHTML = true *)
Fixpoint marshal_string_fuel (fuel : nat) (s : bytes) : bytes :=
  match fuel with
  | O => []
  | S f =>
    match s with
    | [] => []
    | c :: r =>
      if N.ltb c 128 then
        (if N.eqb c 92 || N.eqb c 34 then [92%N; c]
         else if N.eqb c 8 then str "\b"
         else if N.eqb c 12 then str "\f"
         else if N.eqb c 10 then str "\n"
         else if N.eqb c 13 then str "\r"
         else if N.eqb c 9 then str "\t"
         else if N.ltb c 32 || N.eqb c 60 || N.eqb c 62 || N.eqb c 38 then
           str "\u00" ++ [hex_digit (Z.of_N c / 16); hex_digit (Z.of_N c mod 16)]
         else [c]) ++ marshal_string_fuel f r
      else
        let '(rr, w) := decode_rune s in
        if (rr =? rune_error) && Nat.eqb w 1 then str "\ufffd" ++ marshal_string_fuel f r
        else if (rr =? 8232) || (rr =? 8233) then
          str "\u202" ++ [hex_digit (rr mod 16)] ++ marshal_string_fuel f (skipn w s)
        else firstn w s ++ marshal_string_fuel f (skipn w s)
    end
  end.
Definition marshal_string (s : bytes) : bytes :=
  34%N :: marshal_string_fuel (length s) s ++ [34%N].

Fixpoint join_bytes (sep : bytes) (l : list bytes) : bytes :=
  match l with
  | [] => []
  | [x] => x
  | x :: r => x ++ sep ++ join_bytes sep r
  end.

(* None = json.Marshal returns an error (NaN / infinity) *)
Fixpoint json_marshal (v : value) : option bytes :=
  match v with
  | VNull => Some (str "null")
  | VBool true => Some (str "true")
  | VBool false => Some (str "false")
  | VNum n => if num_finite n then Some (num_print n) else None
  | VStr s => Some (marshal_string s)
  | VArr l =>
    match (fix go (l : list value) : option (list bytes) :=
             match l with
             | [] => Some []
             | x :: r => match json_marshal x, go r with
                         | Some a, Some b => Some (a :: b)
                         | _, _ => None end
             end) l with
    | Some parts => Some (91%N :: join_bytes [44%N] parts ++ [93%N])
    | None => None
    end
  | VObj m =>
    match (fix go (m : obj) : option (list bytes) :=
             match m with
             | [] => Some []
             | (k, x) :: r => match json_marshal x, go r with
                              | Some a, Some b => Some ((marshal_string k ++ 58%N :: a) :: b)
                              | _, _ => None end
             end) m with
    | Some parts => Some (123%N :: join_bytes [44%N] parts ++ [125%N])
    | None => None
    end
  | VExp _ => Some (str "{}")     (* struct with unexported fields only *)
  end.

End WithNum.

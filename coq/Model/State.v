(* State.v — the objects of the API that live across calls, with their fields:
   Parser{expression, tokens, index} and JMESPath{ast, intr}.  Parse and Search
   are written as state transformers that mirror the field assignments of
   parser.go / api.go, so that "the result does not depend on the history" is a
   statement about them and not a definition. *)
From JM Require Import Model.Base Model.Num Model.Utf8 Model.Value Model.JsonText Model.Lexer Model.Parser
     Model.Slice Model.Functions Model.Interp Model.Api.
From JM Require Import gen.Tables.

Section WithNum.
Context {NumO : NumOps}.
Variable ord : obj -> obj.

Record parser_state := PState { ps_expression : bytes; ps_tokens : list token; ps_index : nat }.

(* NewParser() *)
Definition new_parser : parser_state := PState [] [] 0.

(* the part of Parse after the lexer, reading the parser's own fields *)
Definition parse_with_state (p : parser_state) : parser_state * outcome node :=
  match parseExpression (ps_tokens p) (parse_fuel (ps_tokens p))
                        (bp_of site_Parse_parseExpression tUnknown 0) (ps_index p) with
  | Ok (parsed, i) =>
    let p' := PState (ps_expression p) (ps_tokens p) i in
    (p', c <- current (ps_tokens p) i ;;
         if negb (tok_eqb c tEOF) then syntaxError (ps_tokens p) i else Ok parsed)
  | Err e => (p, Err e)          (* index left wherever the error occurred: not observable, reset by the next Parse *)
  | Panic => (p, Panic)
  | OutOfFuel => (p, OutOfFuel)
  end.

(* (p *Parser) Parse(expression): lexer := NewLexer(); p.expression = expression;
   p.index = 0; tokens, err := lexer.tokenize(expression); if err != nil return;
   p.tokens = tokens; … *)
Definition Parse_st (p : parser_state) (e : bytes) : parser_state * outcome node :=
  let p1 := PState e (ps_tokens p) 0 in
  match tokenize e with
  | Ok ts => parse_with_state (PState e ts 0)
  | Err er => (p1, Err er)        (* p.tokens keeps the previous expression's tokens *)
  | Panic => (p1, Panic)
  | OutOfFuel => (p1, OutOfFuel)
  end.

(* JMESPath{ast, intr}: Search reads both fields and assigns none *)
Record jmespath := JMESPath { jp_ast : node }.
Definition Search_st (jp : jmespath) (d : value) : jmespath * outcome value :=
  (jp, Execute ord (exec_fuel (jp_ast jp)) (jp_ast jp) d).

(* a history of calls on one object *)
Fixpoint run_searches (jp : jmespath) (ds : list value) : jmespath * list (outcome value) :=
  match ds with
  | [] => (jp, [])
  | d :: r => let '(jp1, o) := Search_st jp d in
              let '(jp2, os) := run_searches jp1 r in (jp2, o :: os)
  end.
Fixpoint run_parses (p : parser_state) (es : list bytes) : parser_state * list (outcome node) :=
  match es with
  | [] => (p, [])
  | e :: r => let '(p1, o) := Parse_st p e in
              let '(p2, os) := run_parses p1 r in (p2, o :: os)
  end.

End WithNum.

(* Num.v — the interface through which the model uses Go's float64.
   Everything in Model/ and every theorem is parametric in an instance of
   NumOps; Inst/FloatNum.v gives the executable binary64 instance used by the
   correspondence check. *)
From JM Require Import Model.Base.

Class NumOps := {
  num : Type;
  num_eqb : num -> num -> bool;           (* Go == on float64 *)
  num_ltb : num -> num -> bool;           (* Go <  *)
  num_leb : num -> num -> bool;           (* Go <= *)
  num_add : num -> num -> num;
  num_div : num -> num -> num;
  num_of_Z : Z -> num;                    (* float64(n) for a length *)
  num_abs : num -> num;                   (* math.Abs *)
  num_ceil : num -> num;                  (* math.Ceil *)
  num_floor : num -> num;                 (* math.Floor *)
  num_finite : num -> bool;               (* neither NaN nor an infinity *)
  num_same : num -> num -> bool;          (* identical datum (used only by the checker, not by the model) *)
  (* strconv.ParseFloat(s, 64) applied to a token that the JSON scanner accepted
     as a number; None = range error (json.Unmarshal then fails) *)
  num_parse_json : bytes -> option num;
  (* strconv.ParseFloat(s, 64) on an arbitrary string, err == nil *)
  num_parse_go : bytes -> option num;
  (* the float formatting of json.Marshal (finite numbers) *)
  num_print : num -> bytes
}.

(* Slice.v — util.go: slice, computeSliceParams, capSlice.  Go int arithmetic
   that can leave the int64 range is written with wrap64; slice[i] is the
   unchecked index of the Go code. *)
From JM Require Import Model.Base.

Record sliceParam := SliceParam { spN : Z; spSpecified : bool }.
Definition mk_param (o : option Z) : sliceParam :=
  match o with Some z => SliceParam z true | None => SliceParam 0 false end.

Definition capSlice (length actual step : Z) : Z :=
  if actual <? 0 then
    let actual := wrap64 (actual + length) in
    if actual <? 0 then (if step <? 0 then -1 else 0) else actual
  else if length <=? actual then (if step <? 0 then wrap64 (length - 1) else length)
  else actual.

(* None: "Invalid slice, step cannot be 0" *)
Definition computeSliceParams (length : Z) (p0 p1 p2 : sliceParam) : option (Z * Z * Z) :=
  let step_o :=
    if negb (spSpecified p2) then Some 1
    else if spN p2 =? 0 then None
    else Some (spN p2) in
  match step_o with
  | None => None
  | Some step =>
    let neg := step <? 0 in
    let start :=
      if negb (spSpecified p0) then (if neg then wrap64 (length - 1) else 0)
      else capSlice length (spN p0) step in
    let stop :=
      if negb (spSpecified p1) then (if neg then -1 else length)
      else capSlice length (spN p1) step in
    Some (start, stop, step)
  end.

Definition index_or_panic {A} (l : list A) (i : Z) : outcome A :=
  if i <? 0 then Panic else nth_or_panic l (Z.to_nat i).

(* for i := start; i < stop; i += step { append(slice[i]); if stop-i <= step { break } } *)
Fixpoint slice_up {A} (fuel : nat) (xs : list A) (i stop step : Z) (acc : list A) : outcome (list A) :=
  match fuel with
  | O => OutOfFuel
  | S f =>
    if i <? stop then
      x <- index_or_panic xs i ;;
      if wrap64 (stop - i) <=? step then Ok (rev (x :: acc))
      else slice_up f xs (wrap64 (i + step)) stop step (x :: acc)
    else Ok (rev acc)
  end.

(* for i := start; i > stop; i += step { append(slice[i]); if stop-i >= step { break } } *)
Fixpoint slice_down {A} (fuel : nat) (xs : list A) (i stop step : Z) (acc : list A) : outcome (list A) :=
  match fuel with
  | O => OutOfFuel
  | S f =>
    if stop <? i then
      x <- index_or_panic xs i ;;
      if step <=? wrap64 (stop - i) then Ok (rev (x :: acc))
      else slice_down f xs (wrap64 (i + step)) stop step (x :: acc)
    else Ok (rev acc)
  end.

(* util.go slice *)
Definition slice_go {A} (xs : list A) (p0 p1 p2 : sliceParam) : outcome (list A) :=
  match computeSliceParams (zlen xs) p0 p1 p2 with
  | None => Err EEval
  | Some (start, stop, step) =>
    if 0 <? step then slice_up (S (length xs)) xs start stop step []
    else slice_down (S (length xs)) xs start stop step []
  end.

(* PySlice.v — Python extended slicing, from the definition of slice.indices and
   range in the Python reference, over unbounded integers. *)
From JM Require Import Model.Base.

(* slice.indices(len) for a non-zero step *)
Definition py_bound (len : Z) (step : Z) (x : option Z) (is_start : bool) : Z :=
  let lower := if step <? 0 then -1 else 0 in
  let upper := if step <? 0 then len - 1 else len in
  match x with
  | None => if is_start then (if step <? 0 then upper else lower)
            else (if step <? 0 then lower else upper)
  | Some z =>
    if z <? 0 then Z.max (z + len) lower else Z.min z upper
  end.

(* range(start, stop, step) as a list, by counting: the number of elements is
   max(0, ceil((stop - start) / step)) *)
Definition py_range_len (start stop step : Z) : Z :=
  if 0 <? step then (if start <? stop then (stop - start + step - 1) / step else 0)
  else (if stop <? start then (start - stop - step - 1) / (- step) else 0).

Definition py_indices (len : Z) (a b c : option Z) : option (list Z) :=
  let step := match c with Some s => s | None => 1 end in
  if step =? 0 then None
  else
    let start := py_bound len step a true in
    let stop := py_bound len step b false in
    let n := py_range_len start stop step in
    Some (map (fun k => start + Z.of_nat k * step) (seq 0 (Z.to_nat n))).

Definition py_slice {A} (xs : list A) (a b c : option Z) : option (list A) :=
  match py_indices (zlen xs) a b c with
  | None => None
  | Some idx => Some (flat_map (fun i => match nth_error xs (Z.to_nat i) with Some x => [x] | None => [] end) idx)
  end.

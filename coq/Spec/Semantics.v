(* Semantics.v — what JMESPath says an expression means: eval, written from the
   specification (jmespath.org: identifiers, index/slice, projections, multi-
   select, pipes, or/and/not, comparators, function calls), and the built-in
   function library (signatures and results).  Independent of Model/Interp.v
   and Model/Functions.v and of gen/Tables.v; it shares only data types,
   byte-string helpers, the stable sort and the JSON printer with the model. *)
From JM Require Import Model.Base Model.Num Model.Utf8 Model.Value Model.JsonText Model.Functions.
From JM Require Import Spec.Grammar Spec.PySlice.

Section WithNum.
Context {NumO : NumOps}.
Variable ord : obj -> obj.

(* ---- truth ---- *)
Definition falsy (v : value) : bool :=
  match v with
  | VNull | VBool false | VStr [] | VArr [] | VObj [] => true
  | _ => false
  end.
Definition truthy (v : value) : bool := negb (falsy v).

Definition not_null (v : value) : bool := match v with VNull => false | _ => true end.
Definition drop_nulls (l : list value) : list value := filter not_null l.

(* deep JSON equality: never equal across types; numbers numerically *)
Definition json_equal (a b : value) : bool := value_eqb num_eqb a b.

(* ---- function library ---- *)
Inductive sarg :=
| SVal (v : value)
| SRef (f : value -> outcome value).      (* &expr: evaluate expr with the given current node *)

Inductive stype := TNumber | TString | TBoolean | TArray | TObject | TNull | TAny
                 | TArrayNumber | TArrayString | TExpref.

Definition all_num (l : list value) : bool := forallb (fun v => match v with VNum _ => true | _ => false end) l.
Definition all_str (l : list value) : bool := forallb (fun v => match v with VStr _ => true | _ => false end) l.

Definition has_type (t : stype) (a : sarg) : bool :=
  match a, t with
  | SRef _, TExpref => true
  | SRef _, _ => false
  | SVal _, TExpref => false
  | SVal v, TAny => true
  | SVal (VNum _), TNumber => true
  | SVal (VStr _), TString => true
  | SVal (VBool _), TBoolean => true
  | SVal VNull, TNull => true
  | SVal (VArr _), TArray => true
  | SVal (VObj _), TObject => true
  | SVal (VArr l), TArrayNumber => all_num l
  | SVal (VArr l), TArrayString => all_str l
  | _, _ => false
  end.

(* a signature: fixed parameters (each a set of admissible types), and for a
   variadic function the type set of the further arguments *)
Record signature := Sig { sig_params : list (list stype); sig_rest : option (list stype) }.

Definition spec_signatures : list (bytes * signature) :=
  [ (str "abs", Sig [[TNumber]] None);
    (str "avg", Sig [[TArrayNumber]] None);
    (str "ceil", Sig [[TNumber]] None);
    (str "contains", Sig [[TArray; TString]; [TAny]] None);
    (str "ends_with", Sig [[TString]; [TString]] None);
    (str "floor", Sig [[TNumber]] None);
    (str "join", Sig [[TString]; [TArrayString]] None);
    (str "keys", Sig [[TObject]] None);
    (str "length", Sig [[TString; TArray; TObject]] None);
    (str "map", Sig [[TExpref]; [TArray]] None);
    (str "max", Sig [[TArrayNumber; TArrayString]] None);
    (str "max_by", Sig [[TArray]; [TExpref]] None);
    (str "merge", Sig [[TObject]] (Some [TObject]));
    (str "min", Sig [[TArrayNumber; TArrayString]] None);
    (str "min_by", Sig [[TArray]; [TExpref]] None);
    (str "not_null", Sig [[TAny]] (Some [TAny]));
    (str "reverse", Sig [[TArray; TString]] None);
    (str "sort", Sig [[TArrayString; TArrayNumber]] None);
    (str "sort_by", Sig [[TArray]; [TExpref]] None);
    (str "starts_with", Sig [[TString]; [TString]] None);
    (str "sum", Sig [[TArrayNumber]] None);
    (str "to_array", Sig [[TAny]] None);
    (str "to_number", Sig [[TAny]] None);
    (str "to_string", Sig [[TAny]] None);
    (str "type", Sig [[TAny]] None);
    (str "values", Sig [[TObject]] None) ].

Fixpoint args_ok (params : list (list stype)) (rest : option (list stype)) (args : list sarg) : bool :=
  match params, args with
  | [], [] => true
  | [], a :: aa => match rest with
                   | Some ts => existsb (fun t => has_type t a) ts && args_ok [] rest aa
                   | None => false
                   end
  | ts :: ps, a :: aa => existsb (fun t => has_type t a) ts && args_ok ps rest aa
  | _ :: _, [] => false
  end.

Definition well_typed (name : bytes) (args : list sarg) : bool :=
  match assoc_bytes name spec_signatures with
  | Some s => args_ok (sig_params s) (sig_rest s) args
  | None => false
  end.

Definition nums_of (l : list value) : list num :=
  flat_map (fun v => match v with VNum n => [n] | _ => [] end) l.
Definition strs_of (l : list value) : list bytes :=
  flat_map (fun v => match v with VStr s => [s] | _ => [] end) l.

(* scan from the left, keep the best so far, replace it only by a strictly better
   element: the first extremal element (Proofs/FunFacts.v: first_best_spec) *)
Definition first_best {A} (better : A -> A -> bool) (l : list A) : option A :=
  match l with
  | [] => None
  | x :: r => Some (fold_left (fun best y => if better y best then y else best) r x)
  end.

(* keys of a by-function: evaluated element by element, left to right; every key
   must be of the kind (number or string) of the first one, else an error *)
Inductive keys := KNum (ks : list (num * value)) | KStr (ks : list (bytes * value)).
Definition num_key (f : value -> outcome value) (x : value) : outcome (num * value) :=
  k <- f x ;; match k with VNum n => Ok (n, x) | _ => Err EEval end.
Definition str_key (f : value -> outcome value) (x : value) : outcome (bytes * value) :=
  k <- f x ;; match k with VStr s => Ok (s, x) | _ => Err EEval end.
Definition by_keys (f : value -> outcome value) (l : list value) : outcome keys :=
  match l with
  | [] => Ok (KNum [])
  | x :: _ =>
    k0 <- f x ;;
    match k0 with
    | VNum _ => ks <- mapM (num_key f) l ;; Ok (KNum ks)
    | VStr _ => ks <- mapM (str_key f) l ;; Ok (KStr ks)
    | _ => Err EEval
    end
  end.

Definition type_name (v : value) : bytes :=
  match v with
  | VNum _ => str "number" | VStr _ => str "string" | VBool _ => str "boolean"
  | VArr _ => str "array" | VObj _ => str "object" | VNull => str "null"
  | VExp _ => str "expref"
  end.

Definition name_is (name : bytes) (s : String.string) : bool := bytes_eqb name (str s).
Arguments name_is name s%string_scope.

(* the result of a well-typed call *)
Definition arg_values (args : list sarg) : list value :=
  flat_map (fun a => match a with SVal v => [v] | SRef _ => [] end) args.

Definition apply_function (name : bytes) (args : list sarg) : outcome value :=
  (* the two variadic functions *)
  if name_is name "merge" then
    (* later arguments win *)
    Ok (VObj (fold_left (fun f v => match v with
                                    | VObj m => fold_left (fun f kv => obj_set (fst kv) (snd kv) f) m f
                                    | _ => f end) (arg_values args) []))
  else if name_is name "not_null" then
    Ok (match find not_null (arg_values args) with Some v => v | None => VNull end)
  else
  match args with
  | [SVal (VNum n)] =>
    if name_is name "abs" then Ok (VNum (num_abs n))
    else if name_is name "ceil" then Ok (VNum (num_ceil n))
    else if name_is name "floor" then Ok (VNum (num_floor n))
    else if name_is name "to_array" then Ok (VArr [VNum n])
    else if name_is name "to_number" then Ok (VNum n)
    else if name_is name "to_string" then match json_marshal (VNum n) with Some t => Ok (VStr t) | None => Err EEval end
    else if name_is name "type" then Ok (VStr (str "number"))
    else Err EEval
  | [SVal v] =>
    if name_is name "avg" then
      match v with
      | VArr [] => Ok VNull
      | VArr l => Ok (VNum (num_div (fold_left num_add (nums_of l) (num_of_Z 0)) (num_of_Z (zlen l))))
      | _ => Err EEval
      end
    else if name_is name "sum" then
      match v with VArr l => Ok (VNum (fold_left num_add (nums_of l) (num_of_Z 0))) | _ => Err EEval end
    else if name_is name "keys" then
      match v with VObj m => Ok (VArr (map (fun kv => VStr (fst kv)) (ord m))) | _ => Err EEval end
    else if name_is name "values" then
      match v with VObj m => Ok (VArr (map snd (ord m))) | _ => Err EEval end
    else if name_is name "length" then
      match v with
      | VStr s => Ok (VNum (num_of_Z (zlen (runes_of s))))     (* code points *)
      | VArr l => Ok (VNum (num_of_Z (zlen l)))
      | VObj m => Ok (VNum (num_of_Z (zlen m)))
      | _ => Err EEval
      end
    else if name_is name "max" then
      match v with
      | VArr l => if all_num l
                  then Ok (match first_best (fun y x => num_ltb x y) (nums_of l) with Some n => VNum n | None => VNull end)
                  else Ok (match first_best (fun y x => bytes_ltb x y) (strs_of l) with Some s => VStr s | None => VNull end)
      | _ => Err EEval
      end
    else if name_is name "min" then
      match v with
      | VArr l => if all_num l
                  then Ok (match first_best (fun y x => num_ltb y x) (nums_of l) with Some n => VNum n | None => VNull end)
                  else Ok (match first_best (fun y x => bytes_ltb y x) (strs_of l) with Some s => VStr s | None => VNull end)
      | _ => Err EEval
      end
    else if name_is name "reverse" then
      match v with
      | VStr s => Ok (VStr (string_of_runes (rev (runes_of s))))
      | VArr l => Ok (VArr (rev l))
      | _ => Err EEval
      end
    else if name_is name "sort" then
      match v with
      | VArr l => if all_num l then Ok (VArr (map VNum (stable_sort num_ltb (nums_of l))))
                  else Ok (VArr (map VStr (stable_sort bytes_ltb (strs_of l))))
      | _ => Err EEval
      end
    else if name_is name "to_array" then Ok (match v with VArr _ => v | _ => VArr [v] end)
    else if name_is name "to_string" then
      match v with
      | VStr _ => Ok v
      | _ => match json_marshal v with Some t => Ok (VStr t) | None => Err EEval end
      end
    else if name_is name "to_number" then
      match v with
      | VStr s => Ok (match num_parse_go s with
                      | Some x => if num_finite x then VNum x else VNull
                      | None => VNull end)
      | _ => Ok VNull
      end
    else if name_is name "type" then Ok (VStr (type_name v))
    else Err EEval
  | [SVal a; SVal b] =>
    if name_is name "contains" then
      match a with
      | VStr s => Ok (VBool (match b with VStr e => contains_sub s e | _ => false end))
      | VArr l => Ok (VBool (existsb (fun x => json_equal x b) l))
      | _ => Err EEval
      end
    else if name_is name "starts_with" then
      match a, b with VStr s, VStr p => Ok (VBool (has_prefix s p)) | _, _ => Err EEval end
    else if name_is name "ends_with" then
      match a, b with VStr s, VStr p => Ok (VBool (has_suffix s p)) | _, _ => Err EEval end
    else if name_is name "join" then
      match a, b with VStr sep, VArr l => Ok (VStr (join_bytes sep (strs_of l))) | _, _ => Err EEval end
    else Err EEval
  | [SRef f; SVal (VArr l)] =>
    if name_is name "map" then ys <- mapM f l ;; Ok (VArr ys) else Err EEval
  | [SVal (VArr l); SRef f] =>
    if name_is name "sort_by" then
      ks <- by_keys f l ;;
      match ks with
      | KNum ks => Ok (VArr (map snd (stable_sort (fun p q => num_ltb (fst p) (fst q)) ks)))
      | KStr ks => Ok (VArr (map snd (stable_sort (fun p q => bytes_ltb (fst p) (fst q)) ks)))
      end
    else if name_is name "max_by" then
      ks <- by_keys f l ;;
      match ks with
      | KNum ks => Ok (match first_best (fun y x => num_ltb (fst x) (fst y)) ks with Some p => snd p | None => VNull end)
      | KStr ks => Ok (match first_best (fun y x => bytes_ltb (fst x) (fst y)) ks with Some p => snd p | None => VNull end)
      end
    else if name_is name "min_by" then
      ks <- by_keys f l ;;
      match ks with
      | KNum ks => Ok (match first_best (fun y x => num_ltb (fst y) (fst x)) ks with Some p => snd p | None => VNull end)
      | KStr ks => Ok (match first_best (fun y x => bytes_ltb (fst y) (fst x)) ks with Some p => snd p | None => VNull end)
      end
    else Err EEval
  | _ => Err EEval
  end.

(* a call: unknown function, wrong arity or ill-typed argument is an error *)
Definition spec_call (name : bytes) (args : list sarg) : outcome value :=
  if well_typed name args then apply_function name args else Err EEval.

(* ---- evaluation ---- *)
Definition cmp_num (op : cmpop) (a b : num) : bool :=
  match op with
  | CmpLT => num_ltb a b | CmpLE => num_leb a b
  | CmpGT => num_ltb b a | CmpGE => num_leb b a
  | CmpEQ => num_eqb a b | CmpNE => negb (num_eqb a b)
  end.

Definition flatten1 (l : list value) : list value :=
  flat_map (fun x => match x with VArr inner => inner | _ => [x] end) l.

Definition index_list (l : list value) (i : Z) : value :=
  let j := if i <? 0 then i + zlen l else i in
  if (0 <=? j) && (j <? zlen l) then nth (Z.to_nat j) l VNull else VNull.

(* Indexing and slicing are specified for arrays of fewer than 2^63 elements (the
   index type of every implementation); on a longer array eval signals
   OutOfFuel, "outside the specification". *)
Fixpoint eval (e : expr) (v : value) {struct e} : outcome value :=
  let lhs (l : option expr) : outcome value :=
      match l with Some x => eval x v | None => Ok v end in
  let on_rhs (r : rhs) (x : value) : outcome value :=
      match r with RNone => Ok x | RDot y => eval y x | RBrk y => eval y x end in
  (* apply the right-hand side to every element, drop nulls *)
  let project (r : rhs) (xs : list value) : outcome value :=
      ys <- mapM (on_rhs r) xs ;; Ok (VArr (drop_nulls ys)) in
  match e with
  | EIdent _ name =>
    Ok (match v with
        | VObj m => match obj_get name m with Some x => x | None => VNull end
        | _ => VNull end)
  | ECurrent => Ok v
  | ELit j => Ok j
  | ERaw s => Ok (VStr s)
  | EParen x => eval x v
  | EMSList es =>
    match v with
    | VNull => Ok VNull
    | _ => ys <- (fix go (es : list expr) : outcome (list value) :=
                    match es with
                    | [] => Ok []
                    | x :: r => y <- eval x v ;; ys <- go r ;; Ok (y :: ys)
                    end) es ;;
           Ok (VArr ys)
    end
  | EMSHash kvs =>
    match v with
    | VNull => Ok VNull
    | _ => ys <- (fix go (kvs : list (bool * bytes * expr)) : outcome (list (bytes * value)) :=
                    match kvs with
                    | [] => Ok []
                    | (_, k, x) :: r => y <- eval x v ;; ys <- go r ;; Ok ((k, y) :: ys)
                    end) kvs ;;
           Ok (VObj (fold_left (fun m kv => obj_set (fst kv) (snd kv) m) ys []))
    end
  | ECall name args =>
    xs <- (fix go (args : list arg) : outcome (list sarg) :=
             match args with
             | [] => Ok []
             | AExpr x :: r => y <- eval x v ;; ys <- go r ;; Ok (SVal y :: ys)
             | ARef x :: r => ys <- go r ;; Ok (SRef (eval x) :: ys)
             end) args ;;
    spec_call name xs
  | ENot x => y <- eval x v ;; Ok (VBool (falsy y))
  | EIndex l i =>
    x <- lhs l ;;
    match x with
    | VArr xs => if two63 <=? zlen xs then OutOfFuel else Ok (index_list xs i)
    | _ => Ok VNull
    end
  | ESlice l a b c r =>
    x <- lhs l ;;
    match x with
    | VArr xs =>
      if two63 <=? zlen xs then OutOfFuel else
      match py_slice xs a b (cjoin c) with
      | Some ys => project r ys
      | None => Err EEval                 (* step 0 *)
      end
    | _ => Ok VNull
    end
  | EListProj l r =>
    x <- lhs l ;;
    match x with VArr xs => project r xs | _ => Ok VNull end
  | EFlatten l r =>
    x <- lhs l ;;
    match x with VArr xs => project r (flatten1 xs) | _ => Ok VNull end
  | EFilter l c r =>
    x <- lhs l ;;
    match x with
    | VArr xs =>
      ys <- mapM (fun el => t <- eval c el ;; if truthy t then on_rhs r el else Ok VNull) xs ;;
      Ok (VArr (drop_nulls ys))
    | _ => Ok VNull
    end
  | EValProj l r =>
    x <- lhs l ;;
    match x with VObj m => project r (map snd (ord m)) | _ => Ok VNull end
  | ESub l r => x <- eval l v ;; eval r x
  | EPipe l r => x <- eval l v ;; eval r x
  | EOr l r => x <- eval l v ;; if truthy x then Ok x else eval r v
  | EAnd l r => x <- eval l v ;; if truthy x then eval r v else Ok x
  | ECmp op l r =>
    x <- eval l v ;; y <- eval r v ;;
    match op with
    | CmpEQ => Ok (VBool (json_equal x y))
    | CmpNE => Ok (VBool (negb (json_equal x y)))
    | _ => match x, y with
           | VNum a, VNum b => Ok (VBool (cmp_num op a b))
           | _, _ => Ok VNull
           end
    end
  end.

End WithNum.

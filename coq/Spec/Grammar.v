(* Grammar.v — the specification's view of expressions: typed trees, the AST the
   implementation is expected to build for them (compile), their token spelling
   (render), and the JMESPath precedence rules (levels, wp).  Written from the
   JMESPath specification and grammar, not from parser.go; it does not import
   gen/Tables.v. *)
From JM Require Import Model.Base Model.Num Model.Value.

Section WithNum.
Context {NumO : NumOps}.

Inductive cmpop := CmpEQ | CmpNE | CmpLT | CmpLE | CmpGT | CmpGE.

(* Expression trees.  "l : option expr" is the left-hand side of a bracket or
   wildcard form; None is the prefix form, which applies to the current node.
   Parentheses are explicit.  A projection carries its right-hand side. *)
Inductive expr :=
| EIdent (quoted : bool) (name : bytes)             (* name   "name" *)
| ECurrent                                          (* @ *)
| ELit (v : value)                                  (* `json` *)
| ERaw (s : bytes)                                  (* 'raw' *)
| EParen (e : expr)                                 (* ( e ) *)
| EMSList (es : list expr)                          (* [e1, …, en] *)
| EMSHash (kvs : list (bool * bytes * expr))        (* {k1: e1, …} *)
| ECall (name : bytes) (args : list arg)            (* name(a1, …) *)
| ENot (e : expr)                                   (* !e *)
| EIndex (l : option expr) (i : Z)                  (* l[i] *)
| ESlice (l : option expr) (a b : option Z) (c : option (option Z)) (r : rhs)
    (* l[a:b] r (c = None), l[a:b:] r (Some None), l[a:b:c] r (Some (Some c)) *)
| EListProj (l : option expr) (r : rhs)             (* l[*] r *)
| EFlatten (l : option expr) (r : rhs)              (* l[] r *)
| EFilter (l : option expr) (c : expr) (r : rhs)    (* l[?c] r *)
| EValProj (l : option expr) (r : rhs)              (* l.* r     * r *)
| ESub (l r : expr)                                 (* l.r *)
| EPipe (l r : expr)
| EOr (l r : expr)
| EAnd (l r : expr)
| ECmp (op : cmpop) (l r : expr)
with arg :=
| AExpr (e : expr)
| ARef (e : expr)                                   (* &e *)
with rhs :=                                         (* right-hand side of a projection *)
| RNone
| RDot (e : expr)                                   (* .e *)
| RBrk (e : expr).                                  (* e, which starts with a bracket form *)

(* ---- the AST the implementation must build ---- *)
Definition cmp_tok (op : cmpop) : tokType :=
  match op with
  | CmpEQ => tEQ | CmpNE => tNE | CmpLT => tLT | CmpLE => tLTE | CmpGT => tGT | CmpGE => tGTE
  end.

(* the step of a slice: absent when there is no second colon or nothing after it *)
Definition cjoin (c : option (option Z)) : option Z := match c with Some (Some z) => Some z | _ => None end.

Definition N0 (ty : astNodeType) (c : list node) : node := Node ty NVNone c.
Definition ident_node : node := Node ASTIdentity NVNone [].

Fixpoint compile (e : expr) : node :=
  let lhs (l : option expr) := match l with Some x => compile x | None => ident_node end in
  let crhs (r : rhs) := match r with RNone => ident_node | RDot x => compile x | RBrk x => compile x end in
  match e with
  | EIdent _ name => Node ASTField (NVStr name) []
  | ECurrent => N0 ASTCurrentNode []
  | ELit v => Node ASTLiteral (NVJson v) []
  | ERaw s => Node ASTLiteral (NVJson (VStr s)) []
  | EParen x => compile x
  | EMSList es => N0 ASTMultiSelectList (map compile es)
  | EMSHash kvs =>
    N0 ASTMultiSelectHash
       (map (fun kv => Node ASTKeyValPair (NVStr (snd (fst kv))) [compile (snd kv)]) kvs)
  | ECall name args =>
    Node ASTFunctionExpression (NVStr name)
         (map (fun a => match a with
                        | AExpr x => compile x
                        | ARef x => N0 ASTExpRef [compile x]
                        end) args)
  | ENot x => N0 ASTNotExpression [compile x]
  | EIndex l i => N0 ASTIndexExpression [lhs l; Node ASTIndex (NVInt i) []]
  | ESlice l a b c r =>
    N0 ASTProjection [N0 ASTIndexExpression [lhs l; Node ASTSlice (NVSlice a b (cjoin c)) []]; crhs r]
  | EListProj l r => N0 ASTProjection [lhs l; crhs r]
  | EFlatten l r => N0 ASTProjection [N0 ASTFlatten [lhs l]; crhs r]
  | EFilter l c r => N0 ASTFilterProjection [lhs l; crhs r; compile c]
  | EValProj l r => N0 ASTValueProjection [lhs l; crhs r]
  | ESub l r => N0 ASTSubexpression [compile l; compile r]
  | EPipe l r => N0 ASTPipe [compile l; compile r]
  | EOr l r => N0 ASTOrExpression [compile l; compile r]
  | EAnd l r => N0 ASTAndExpression [compile l; compile r]
  | ECmp op l r => Node ASTComparator (NVTok (cmp_tok op)) [compile l; compile r]
  end.

(* ---- token spelling ---- *)
(* positions are not part of a spelling: 0 *)
Definition tk (ty : tokType) (v : bytes) : token := Token ty v 0 0.

(* the decimal spelling of an integer *)
Fixpoint pos_digits (fuel : nat) (z : Z) (acc : bytes) : bytes :=
  match fuel with
  | O => acc
  | S f => if z <? 10 then Z.to_N (48 + z) :: acc
           else pos_digits f (z / 10) (Z.to_N (48 + z mod 10) :: acc)
  end.
Definition int_text (z : Z) : bytes :=
  if z <? 0 then 45%N :: pos_digits 20 (- z) [] else pos_digits 20 z [].

Definition opt_num (o : option Z) : list token :=
  match o with Some z => [tk tNumber (int_text z)] | None => [] end.

(* the value of a JSON-literal token is the JSON text; Spec does not fix one: the
   token carries the value and Lit-token equality is up to that value, see lit_tok *)
Variable lit_text : value -> bytes.

Fixpoint sep_by (s : list token) (l : list (list token)) : list token :=
  match l with
  | [] => []
  | [x] => x
  | x :: r => x ++ s ++ sep_by s r
  end.

Fixpoint render (e : expr) : list token :=
  let lhs (l : option expr) := match l with Some x => render x | None => [] end in
  let rrhs (r : rhs) := match r with
                        | RNone => []
                        | RDot x => tk tDot (str ".") :: render x
                        | RBrk x => render x end in
  match e with
  | EIdent false name => [tk tUnquotedIdentifier name]
  | EIdent true name => [tk tQuotedIdentifier name]
  | ECurrent => [tk tCurrent (str "@")]
  | ELit v => [tk tJSONLiteral (lit_text v)]
  | ERaw s => [tk tStringLiteral s]
  | EParen x => tk tLparen (str "(") :: render x ++ [tk tRparen (str ")")]
  | EMSList es =>
    tk tLbracket (str "[") :: sep_by [tk tComma (str ",")] (map render es) ++ [tk tRbracket (str "]")]
  | EMSHash kvs =>
    tk tLbrace (str "{") ::
       sep_by [tk tComma (str ",")]
         (map (fun kv : bool * bytes * expr => tk (if fst (fst kv) then tQuotedIdentifier else tUnquotedIdentifier) (snd (fst kv))
                         :: tk tColon (str ":") :: render (snd kv)) kvs)
       ++ [tk tRbrace (str "}")]
  | ECall name args =>
    tk tUnquotedIdentifier name :: tk tLparen (str "(") ::
       sep_by [tk tComma (str ",")]
         (map (fun a => match a with
                        | AExpr x => render x
                        | ARef x => tk tExpref (str "&") :: render x
                        end) args)
       ++ [tk tRparen (str ")")]
  | ENot x => tk tNot (str "!") :: render x
  | EIndex l i => lhs l ++ [tk tLbracket (str "["); tk tNumber (int_text i); tk tRbracket (str "]")]
  | ESlice l a b c r =>
    lhs l ++ [tk tLbracket (str "[")] ++ opt_num a ++ [tk tColon (str ":")] ++ opt_num b
        ++ (match c with Some o => [tk tColon (str ":")] ++ opt_num o | None => [] end)
        ++ [tk tRbracket (str "]")] ++ rrhs r
  | EListProj l r =>
    lhs l ++ [tk tLbracket (str "["); tk tStar (str "*"); tk tRbracket (str "]")] ++ rrhs r
  | EFlatten l r => lhs l ++ [tk tFlatten (str "[]")] ++ rrhs r
  | EFilter l c r => lhs l ++ [tk tFilter (str "[?")] ++ render c ++ [tk tRbracket (str "]")] ++ rrhs r
  | EValProj (Some l) r => render l ++ [tk tDot (str "."); tk tStar (str "*")] ++ rrhs r
  | EValProj None r => tk tStar (str "*") :: rrhs r
  | ESub l r => render l ++ [tk tDot (str ".")] ++ render r
  | EPipe l r => render l ++ [tk tPipe (str "|")] ++ render r
  | EOr l r => render l ++ [tk tOr (str "||")] ++ render r
  | EAnd l r => render l ++ [tk tAnd (str "&&")] ++ render r
  | ECmp op l r =>
    render l ++ [tk (cmp_tok op)
                    (match op with
                     | CmpEQ => str "==" | CmpNE => str "!=" | CmpLT => str "<"
                     | CmpLE => str "<=" | CmpGT => str ">" | CmpGE => str ">=" end)]
           ++ render r
  end.

(* ---- precedence: the JMESPath table, loosest to tightest ----
   pipe < or < and < comparators < flatten < wildcard projections < filter
   < dot < not < brace < bracket < call *)
Definition lvl_pipe : Z := 1.
Definition lvl_or : Z := 2.
Definition lvl_and : Z := 3.
Definition lvl_cmp : Z := 5.
Definition lvl_flatten : Z := 9.
Definition lvl_star : Z := 20.
Definition lvl_filter : Z := 21.
Definition lvl_dot : Z := 40.
Definition lvl_not : Z := 45.
Definition lvl_brace : Z := 50.
Definition lvl_bracket : Z := 55.
Definition lvl_call : Z := 60.
Definition lvl_top : Z := 1000.      (* atoms and closed forms *)
(* a projection whose right-hand side is empty ends at any operator looser than this *)
Definition lvl_proj_stop : Z := 10.

(* level of the loosest operator on the left spine: the whole of e is read in a
   context of level c exactly when c < lmin e *)
Fixpoint lmin (e : expr) : Z :=
  let lo (l : option expr) (p : Z) := match l with Some x => Z.min (lmin x) p | None => lvl_top end in
  match e with
  | ECall _ _ => lvl_call
  | EIndex l _ => lo l lvl_bracket
  | ESlice l _ _ _ _ => lo l lvl_bracket
  | EListProj l _ => lo l lvl_bracket
  | EFlatten l _ => lo l lvl_flatten
  | EFilter l _ _ => lo l lvl_filter
  | EValProj l _ => lo l lvl_dot
  | ESub l _ => Z.min (lmin l) lvl_dot
  | EPipe l _ => Z.min (lmin l) lvl_pipe
  | EOr l _ => Z.min (lmin l) lvl_or
  | EAnd l _ => Z.min (lmin l) lvl_and
  | ECmp _ l _ => Z.min (lmin l) lvl_cmp
  | _ => lvl_top
  end.

(* level at which e is still open on its right: a following operator tighter than
   rl e would be taken by an operand inside e *)
Fixpoint rl (e : expr) : Z :=
  let rr (r : rhs) (p : Z) :=
      match r with
      | RNone => lvl_proj_stop - 1
      | RDot x => Z.min p (rl x)
      | RBrk x => Z.min p (rl x)
      end in
  match e with
  | EIdent true _ => lvl_call - 1      (* a quoted identifier is not a function name: no call may follow *)
  | ENot x => Z.min lvl_not (rl x)
  | ESlice _ _ _ _ r => rr r lvl_star
  | EListProj _ r => rr r lvl_star
  | EFlatten _ r => rr r lvl_flatten
  | EFilter _ _ r => rr r lvl_filter
  | EValProj _ r => rr r lvl_star
  | ESub _ r => Z.min lvl_dot (rl r)
  | EPipe _ r => Z.min lvl_pipe (rl r)
  | EOr _ r => Z.min lvl_or (rl r)
  | EAnd _ r => Z.min lvl_and (rl r)
  | ECmp _ _ r => Z.min lvl_cmp (rl r)
  | _ => lvl_top
  end.

(* the leftmost form of e *)
Inductive headkind := HIdent | HQuoted | HMulti | HMultiStar | HStar | HBracket | HFilter | HFlatten | HOther.
(* [*] as a multi-select list of the bare wildcard: only after a dot, elsewhere [*] is the list wildcard *)
Definition star_list (es : list expr) : bool :=
  match es with [EValProj None RNone] => true | _ => false end.
Fixpoint head (e : expr) : headkind :=
  let ho (l : option expr) (k : headkind) := match l with Some x => head x | None => k end in
  match e with
  | EIdent false _ => HIdent
  | EIdent true _ => HQuoted
  | ECall _ _ => HIdent
  | EMSList es => if star_list es then HMultiStar else HMulti
  | EMSHash _ => HMulti
  | EIndex l _ => ho l HBracket
  | ESlice l _ _ _ _ => ho l HBracket
  | EListProj l _ => ho l HBracket
  | EFlatten l _ => ho l HFlatten
  | EFilter l _ _ => ho l HFilter
  | EValProj l _ => ho l HStar
  | ESub l _ | EPipe l _ | EOr l _ | EAnd l _ | ECmp _ l _ => head l
  | _ => HOther
  end.

Definition is_alpha_ (c : N) : bool :=
  (N.leb 65 c && N.leb c 90) || (N.leb 97 c && N.leb c 122) || N.eqb c 95.
Definition is_alnum_ (c : N) : bool := is_alpha_ c || (N.leb 48 c && N.leb c 57).
Definition valid_unquoted (s : bytes) : bool :=
  match s with
  | c :: r => is_alpha_ c && forallb is_alnum_ r
  | [] => false
  end.

(* strings the raw-string syntax can spell: no backslash directly before a quote
   or at the end *)
Fixpoint raw_ok (s : bytes) : bool :=
  match s with
  | [] => true
  | c :: r => (if N.eqb c 92 then match r with [] => false | d :: _ => negb (N.eqb d 39) end else true)
              && raw_ok r
  end.

Definition opt_int64 (o : option Z) : bool := match o with Some z => in_int64 z | None => true end.

(* nud position: anywhere but directly after a dot.  There "[*]" is the list
   wildcard, so a multi-select list holding only the bare wildcard cannot be
   written (after a dot, a.[*], it can). *)
Definition npos (e : expr) : bool := match head e with HMultiStar => false | _ => true end.

(* well-precedenced, well-formed trees: exactly the trees whose spelling needs no
   further parentheses.  An operand to the left of an operator of level p must
   not be open below p; an operand to the right must be wholly tighter than p.
   Every operand that is not the left operand of its parent and does not follow a
   dot is in nud position (npos).  Lexical conditions on names and strings are
   not part of wp (Proofs/LexText.v, texty). *)
Fixpoint wp (e : expr) : bool :=
  let left_ok (l : option expr) (p : Z) :=
      match l with Some x => wp x && (p <=? rl x) | None => true end in
  let rhs_ok (r : rhs) (p : Z) :=
      match r with
      | RNone => true
      | RDot x => wp x && (p <? lmin x) &&
                  match head x with HIdent | HQuoted | HMulti | HMultiStar | HStar => true | _ => false end
      | RBrk x => wp x && (p <? lmin x) &&
                  match head x with HBracket | HFilter => true | _ => false end
      end in
  match e with
  | EIdent _ _ => true
  | ECurrent => true
  | ELit v => is_json v
  | ERaw _ => true
  | EParen x => wp x && npos x
  | EMSList es =>
    negb (match es with [] => true | _ => false end) && forallb (fun x => wp x && npos x) es
  | EMSHash kvs =>
    negb (match kvs with [] => true | _ => false end) &&
    forallb (fun kv : bool * bytes * expr => wp (snd kv) && npos (snd kv)) kvs
  | ECall name args =>
    forallb (fun a => match a with AExpr x => wp x && npos x | ARef x => wp x && npos x end) args
  | ENot x => wp x && (lvl_not <? lmin x) && npos x
  | EIndex l i => left_ok l lvl_bracket && in_int64 i
  | ESlice l a b c r =>
    left_ok l lvl_bracket && opt_int64 a && opt_int64 b && opt_int64 (cjoin c) && rhs_ok r lvl_star
  | EListProj l r => left_ok l lvl_bracket && rhs_ok r lvl_star
  | EFlatten l r => left_ok l lvl_flatten && rhs_ok r lvl_flatten
  | EFilter l c r => left_ok l lvl_filter && wp c && npos c && rhs_ok r lvl_filter
  | EValProj l r => left_ok l lvl_dot && rhs_ok r lvl_star
  | ESub l r =>
    wp l && (lvl_dot <=? rl l) && wp r && (lvl_dot <? lmin r) &&
    match head r with HIdent | HQuoted | HMulti | HMultiStar => true | _ => false end
  | EPipe l r => wp l && (lvl_pipe <=? rl l) && wp r && (lvl_pipe <? lmin r) && npos r
  | EOr l r => wp l && (lvl_or <=? rl l) && wp r && (lvl_or <? lmin r) && npos r
  | EAnd l r => wp l && (lvl_and <=? rl l) && wp r && (lvl_and <? lmin r) && npos r
  | ECmp _ l r => wp l && (lvl_cmp <=? rl l) && wp r && (lvl_cmp <? lmin r) && npos r
  end.

(* a quoted identifier directly followed by "(" is rejected by the grammar
   (function names are unquoted): excluded structurally, since ECall has an
   unquoted name and no other form puts "(" after an identifier. *)

End WithNum.

(* Exact.v — a TEST, not a proof: for every token list up to a length bound over a
   representative alphabet, the parser accepts it iff it is the spelling of a
   well-precedenced tree (wp, npos).  Both sets are enumerated and compared. *)
From Coq Require Import Floats Mergesort Orders.
Local Open Scope nat_scope.
From JM Require Import Model.Base Model.Num Model.Value Model.JsonText Model.Lexer Model.Parser Spec.Grammar Inst.FloatNum.

Local Open Scope nat_scope.
Definition E := @expr FloatNum.
Definition lt (_ : @value FloatNum) : bytes := str "true".
Definition rend (e : E) : list token := render lt e.

Definition alphabet : list token :=
  [tk tUnquotedIdentifier (str "a"); tk tQuotedIdentifier (str "q"); tk tNumber (str "1"); tk tJSONLiteral (str "true");
   tk tCurrent (str "@"); tk tStar (str "*"); tk tDot (str "."); tk tLbracket (str "["); tk tRbracket (str "]");
   tk tFilter (str "[?"); tk tFlatten (str "[]"); tk tLparen (str "("); tk tRparen (str ")"); tk tLbrace (str "{");
   tk tRbrace (str "}"); tk tComma (str ","); tk tColon (str ":"); tk tExpref (str "&"); tk tNot (str "!");
   tk tPipe (str "|"); tk tOr (str "||"); tk tAnd (str "&&"); tk tEQ (str "==")].

Definition code (ts : list token) : N := fold_left (fun a t => (a * 32 + tok_code (ttype t))%N) ts 1%N.

Definition accepted (ts : list token) : bool :=
  match @parse_tokens FloatNum (ts ++ [tk tEOF []]) with Ok _ => true | _ => false end.

Fixpoint enum (alpha : list token) (d : nat) (pre : list token) (acc : list N) : list N :=
  let ts := rev pre in
  let acc' := match pre with [] => acc | _ => if accepted ts then code ts :: acc else acc end in
  match d with
  | O => acc'
  | S d' => fold_left (fun a t => enum alpha d' (t :: pre) a) alpha acc'
  end.

(* ---- trees by the length of their spelling ---- *)
Definition range (a b : nat) : list nat := seq a (S b - a).   (* a..b *)

Section Gen.
Variable G : nat -> list E.     (* trees of spelling length exactly n, for smaller n *)

Definition optG (n : nat) : list (option E) := match n with O => [None] | _ => map Some (G n) end.
Definition rhsG (n : nat) : list (@rhs FloatNum) :=
  match n with
  | O => [RNone]
  | S m => map RDot (G m) ++ map RBrk (G n)
  end.

(* nonempty sequences of items, separated by one token; item cost given *)
Fixpoint seqs {A} (items : nat -> list A) (f : nat) (m : nat) : list (list A) :=
  match f with
  | O => []
  | S f' =>
    flat_map (fun j =>
                let xs := items j in
                if Nat.eqb j m then map (fun x => [x]) xs
                else if Nat.ltb (S j) m then
                       flat_map (fun rest => map (fun x => x :: rest) xs) (seqs items f' (m - j - 1))
                     else []) (range 1 m)
  end.

Definition kv_items (j : nat) : list (bool * bytes * E) :=
  match j with
  | S (S k) => flat_map (fun x => [(false, str "a", x); (true, str "q", x)]) (G k)
  | _ => []
  end.
Definition arg_items (j : nat) : list (@arg FloatNum) :=
  map AExpr (G j) ++ match j with S k => map ARef (G k) | O => [] end.

Definition split2 {A B C} (n : nat) (fa : nat -> list A) (fb : nat -> list B) (mk : A -> B -> C) : list C :=
  flat_map (fun j => flat_map (fun a => map (mk a) (fb (n - j))) (fa j)) (range 0 n).

Definition gen1 (n : nat) : list E :=
  let one := Some 1%Z in
  (match n with
   | 1%nat => [EIdent false (str "a"); EIdent true (str "q"); ECurrent; ELit (VBool true)]
   | _ => []
   end) ++
  (if Nat.leb 3 n then map EParen (G (n - 2)) else []) ++
  (if Nat.leb 2 n then map ENot (G (n - 1)) else []) ++
  (if Nat.leb 3 n then map EMSList (seqs G n (n - 2)) else []) ++
  (if Nat.leb 3 n then map EMSHash (seqs kv_items n (n - 2)) else []) ++
  (if Nat.eqb n 3 then [ECall (str "a") []] else []) ++
  (if Nat.leb 4 n then map (ECall (str "a")) (seqs arg_items n (n - 3)) else []) ++
  (if Nat.leb 3 n then map (fun l => EIndex l 1%Z) (optG (n - 3)) else []) ++
  flat_map (fun abc : option Z * option Z * option (option Z) =>
              let '(a, b, c) := abc in
              let m := (3 + (match a with Some _ => 1 | None => 0 end) + (match b with Some _ => 1 | None => 0 end) +
                        (match c with None => 0 | Some None => 1 | Some (Some _) => 2 end))%nat in
              if Nat.leb m n then split2 (n - m) optG rhsG (fun l r => ESlice l a b c r) else [])
           (flat_map (fun a => flat_map (fun b => map (fun c => (a, b, c)) [None; Some None; Some one]) [None; one]) [None; one]) ++
  (if Nat.leb 3 n then split2 (n - 3) optG rhsG EListProj else []) ++
  (if Nat.leb 1 n then split2 (n - 1) optG rhsG EFlatten else []) ++
  (if Nat.leb 3 n then
     flat_map (fun k => flat_map (fun c => split2 (n - 2 - k) optG rhsG (fun l r => EFilter l c r)) (G k)) (range 1 (n - 2))
   else []) ++
  (if Nat.leb 1 n then map (EValProj None) (rhsG (n - 1)) else []) ++
  (if Nat.leb 3 n then split2 (n - 2) (fun j => match j with O => [] | _ => map Some (G j) end) rhsG EValProj else []) ++
  (if Nat.leb 3 n then
     flat_map (fun mk : E -> E -> E => split2 (n - 1) (fun j => match j with O => [] | _ => G j end)
                                              (fun j => match j with O => [] | _ => G j end) mk)
              [ESub; EPipe; EOr; EAnd; ECmp CmpEQ]
   else []).
End Gen.

Fixpoint gen (f : nat) (n : nat) : list E :=
  match f with
  | O => []
  | S f' => gen1 (fun m => if Nat.ltb m n then gen f' m else []) n
  end.

Definition trees (L : nat) : list E := flat_map (fun n => gen (S n) n) (range 1 L).
Definition good (e : E) : bool := wp e && npos e.
Definition rcodes (L : nat) : list N := map (fun e => code (rend e)) (filter good (trees L)).

Module NOrder <: TotalLeBool.
  Definition t := N.
  Definition leb := N.leb.
  Lemma leb_total : forall a b, leb a b = true \/ leb b a = true.
  Proof. intros a b. unfold leb. destruct (N.leb_spec a b); [left; reflexivity|]. right. apply N.leb_le. apply N.lt_le_incl. assumption. Qed.
End NOrder.
Module NSort := Sort NOrder.

Fixpoint dedup (l : list N) : list N :=
  match l with
  | a :: ((b :: _) as r) => if N.eqb a b then dedup r else a :: dedup r
  | _ => l
  end.
(* elements of the sorted list a that are not in the sorted list b *)
Fixpoint diff (f : nat) (a b : list N) : list N :=
  match f with
  | O => []
  | S f' =>
    match a, b with
    | [], _ => []
    | _, [] => a
    | x :: a', y :: b' => if N.eqb x y then diff f' a' b' else if N.ltb x y then x :: diff f' a' b else diff f' a b'
    end
  end.

Definition compare (alpha : list token) (L : nat) :=
  let A := dedup (NSort.sort (enum alpha L [] [])) in
  let R := dedup (NSort.sort (rcodes L)) in
  (length A, length R, firstn 12 (diff (length A + length R + 1) A R), firstn 12 (diff (length A + length R + 1) R A)).

Definition T3 := Eval vm_compute in (length (trees 3), length (filter good (trees 3))).
Print T3.
Definition C3 := Eval vm_compute in compare alphabet 3.
Print C3.
Definition C4 := Eval vm_compute in compare alphabet 4.
Print C4.
Definition C5 := Eval vm_compute in compare alphabet 5.
Print C5.

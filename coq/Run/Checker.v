(* Checker.v — the Coq side of the correspondence check.  The harness writes
   files of cases (input + what the Go library did); mismatches runs the model
   on every input inside Coq and returns the cases on which model and
   implementation differ. *)
From Coq Require Import Floats.
From JM Require Import Model.Base Model.Num Model.Utf8 Model.Value Model.JsonText
     Model.Lexer Model.Parser Model.Slice Model.Functions Model.Interp Model.Api Model.Cli Model.GoVal Inst.FloatNum.

Definition ord_id (m : @obj FloatNum) : @obj FloatNum := m.

(* what a call did, as far as the harness compares it *)
Inductive obs :=
| OVal (v : @value FloatNum)
| OSyn (off : Z)          (* SyntaxError with offset *)
| OCompErr                (* other error from Compile *)
| OEvalErr                (* error from Execute *)
| OPanic
| OFuel                   (* model only *)
| ONonJson.               (* Go returned something `value` cannot express (nil slice/map, other Go type) *)

Definition obs_of_outcome (during_compile : bool) (r : outcome value) : obs :=
  match r with
  | Ok v => OVal v
  | Err (ESyntax o) => OSyn o
  | Err ECompileOther => OCompErr
  | Err EEval => OEvalErr
  | Panic => OPanic
  | OutOfFuel => OFuel
  end.

(* KindOnly: the expression exposes the unspecified iteration order of an object with
   several members; only "returns (a value or an evaluation error)" is compared *)
Inductive cmp_mode := Exact | UpToPerm | KindOnly.

(* equality of values up to the order of array elements, recursively *)
Section PermEq.
Fixpoint remove_first {A} (p : A -> bool) (l : list A) : option (list A) :=
  match l with
  | [] => None
  | x :: r => if p x then Some r
              else match remove_first p r with Some r' => Some (x :: r') | None => None end
  end.
Fixpoint perm_eqb (fuel : nat) (a b : @value FloatNum) : bool :=
  match fuel with
  | O => false
  | S f =>
    match a, b with
    | VArr x, VArr y =>
      (fix go (x y : list value) : bool :=
         match x with
         | [] => match y with [] => true | _ => false end
         | p :: x' => match remove_first (perm_eqb f p) y with
                      | Some y' => go x' y'
                      | None => false
                      end
         end) x y
    | VObj x, VObj y =>
      (fix go (x y : obj) : bool :=
         match x, y with
         | [], [] => true
         | (k, p) :: x', (k', q) :: y' => bytes_eqb k k' && perm_eqb f p q && go x' y'
         | _, _ => false
         end) x y
    | _, _ => value_eqb num_same a b
    end
  end.
End PermEq.

Definition val_match (m : cmp_mode) (a b : value) : bool :=
  match m with
  | Exact => value_eqb num_same a b
  | UpToPerm => perm_eqb (value_size a + 1) a b
  | KindOnly => true
  end.

(* cmp_off: compare syntax-error offsets too *)
Definition kind_only (m : cmp_mode) : bool := match m with KindOnly => true | _ => false end.
Definition obs_match (m : cmp_mode) (cmp_off : bool) (model go : obs) : bool :=
  match model, go with
  | OVal a, OVal b => val_match m a b
  (* with an exposed iteration order even value-versus-error can legitimately
     differ (values(o)[0] may or may not be what the next function accepts) *)
  | OVal _, OEvalErr | OEvalErr, OVal _ => kind_only m
  | OSyn a, OSyn b => if cmp_off then Z.eqb a b else true
  | OCompErr, OCompErr => true
  | OEvalErr, OEvalErr => true
  | OPanic, OPanic => true
  | _, _ => false
  end.

(* boolean equality of two outcomes over binary64 values; used by the examples
   in Properties/ (an equation between outcomes must not be handed to
   vm_compute directly: normalising its type would normalise the whole FloatNum
   record, fuelled text functions included) *)
Definition same_outcome (a b : outcome (@value FloatNum)) : bool :=
  match a, b with
  | OutOfFuel, OutOfFuel => true
  | _, _ => obs_match Exact true (obs_of_outcome false a) (obs_of_outcome false b)
  end.

(* ---- Search cases ---- *)
Record scase := SCase {
  sc_id : nat; sc_expr : bytes; sc_doc : @value FloatNum; sc_mode : cmp_mode;
  sc_off : bool; sc_go : obs }.

Definition run_search (e : bytes) (d : value) : obs := obs_of_outcome false (search ord_id e d).

Definition smismatches (cs : list scase) : list (nat * obs) :=
  flat_map (fun c =>
              let m := run_search (sc_expr c) (sc_doc c) in
              if obs_match (sc_mode c) (sc_off c) m (sc_go c) then [] else [(sc_id c, m)]) cs.

(* ---- Compile cases: the AST ---- *)
Inductive aobs :=
| AOk (n : @node FloatNum) | ASyn (off : Z) | ACompErr | APanic | AFuel.

Definition aobs_of (r : outcome node) : aobs :=
  match r with
  | Ok n => AOk n
  | Err (ESyntax o) => ASyn o
  | Err _ => ACompErr
  | Panic => APanic
  | OutOfFuel => AFuel
  end.
Definition aobs_match (cmp_off : bool) (model go : aobs) : bool :=
  match model, go with
  | AOk a, AOk b => node_eqb num_same a b
  | ASyn a, ASyn b => if cmp_off then Z.eqb a b else true
  | ACompErr, ACompErr => true
  | APanic, APanic => true
  | _, _ => false
  end.
Record acase := ACase { ac_id : nat; ac_expr : bytes; ac_off : bool; ac_go : aobs }.
Definition amismatches (cs : list acase) : list (nat * aobs) :=
  flat_map (fun c =>
              let m := aobs_of (compile (ac_expr c)) in
              if aobs_match (ac_off c) m (ac_go c) then [] else [(ac_id c, m)]) cs.

(* ---- Lexer cases ---- *)
Inductive tobs :=
| TOk (ts : list token) | TSyn (off : Z) | TErr | TPanic | TFuel.
Definition tobs_of (r : outcome (list token)) : tobs :=
  match r with
  | Ok ts => TOk ts
  | Err (ESyntax o) => TSyn o
  | Err _ => TErr
  | Panic => TPanic
  | OutOfFuel => TFuel
  end.
Definition token_eqb (a b : token) : bool :=
  tok_eqb (ttype a) (ttype b) && bytes_eqb (tvalue a) (tvalue b) && Z.eqb (tpos a) (tpos b)
  && Z.eqb (tlen a) (tlen b).
Fixpoint list_eqb {A} (eq : A -> A -> bool) (a b : list A) : bool :=
  match a, b with
  | [], [] => true
  | x :: a', y :: b' => eq x y && list_eqb eq a' b'
  | _, _ => false
  end.
Definition tobs_match (model go : tobs) : bool :=
  match model, go with
  | TOk a, TOk b => list_eqb token_eqb a b
  | TSyn a, TSyn b => Z.eqb a b
  | TErr, TErr => true
  | TPanic, TPanic => true
  | _, _ => false
  end.
Record tcase := TCase { tc_id : nat; tc_expr : bytes; tc_go : tobs }.
Definition tmismatches (cs : list tcase) : list (nat * tobs) :=
  flat_map (fun c =>
              let m := tobs_of (tokenize (tc_expr c)) in
              if tobs_match m (tc_go c) then [] else [(tc_id c, m)]) cs.

(* ---- command-line cases: cmd/jpgo run on (arguments, input channel, input bytes) ---- *)
Record ccase := CCase {
  cc_id : nat; cc_args : list bytes; cc_file : bool; cc_input : option bytes;
  cc_exit : Z; cc_stdout : bytes }.
(* what the model says the process does: (exit status, standard output); a Go
   panic ends the process with status 2 and nothing on standard output *)
Definition cli_obs (c : ccase) : option (Z * bytes) :=
  match cli_run ord_id (cc_args c) (if cc_file c then FromFile (cc_input c) else FromStdin (cc_input c)) with
  | Ok r => Some (cli_exit r, cli_stdout r)
  | Panic => Some (2, [])
  | _ => None
  end.
Definition ccase_ok (c : ccase) : bool :=
  match cli_obs c with
  | Some (x, out) => Z.eqb x (cc_exit c) && bytes_eqb out (cc_stdout c)
  | None => false
  end.

(* ---- Go-typed documents: Search(expr, structs/pointers/typed slices), normalised through JSON ---- *)
Record gcase := GCase { gc_id : nat; gc_expr : bytes; gc_doc : @gval FloatNum; gc_go : obs }.
Definition gobs (c : gcase) : obs :=
  match compile (gc_expr c) with
  | Ok n =>
    match search_go ascii_cap (exec_fuel n) n (gc_doc c) with
    | Ok r => OVal (norm r)
    | Err _ => OEvalErr
    | Panic => OPanic
    | OutOfFuel => OFuel
    end
  | Err (ESyntax o) => OSyn o
  | Err _ => OCompErr
  | Panic => OPanic
  | OutOfFuel => OFuel
  end.
Definition gcase_ok (c : gcase) : bool := obs_match Exact false (gobs c) (gc_go c).

(* byte strings are written in hexadecimal in generated files *)
Definition hexv (a : Ascii.ascii) : N :=
  let n := Ascii.N_of_ascii a in
  if N.leb 97 n then n - 87 else n - 48.
Fixpoint hx (s : String.string) : bytes :=
  match s with
  | String.String a (String.String b r) => (16 * hexv a + hexv b)%N :: hx r
  | _ => []
  end.
Arguments hx s%string_scope.

(* short constructors for generated files *)
Definition N_ := @VNum FloatNum.
Definition F (neg : bool) (m e : Z) : @value FloatNum := VNum (mkf neg m e).
Definition T (ty : tokType) (v : bytes) (p l : Z) : token := Token ty v p l.
(* Go-typed values *)
Definition gN := @GNull FloatNum.
Definition gB := @GBool FloatNum.
Definition gF (neg : bool) (m e : Z) : @gval FloatNum := GNum (mkf neg m e).
Definition gS := @GStr FloatNum.
Definition gA := @GArr FloatNum.
Definition gO := @GObj FloatNum.
Definition gT := @GStruct FloatNum.
Definition gP := @GPtr FloatNum.
Definition gL := @GSlice FloatNum.
Definition gkv (k : bytes) (v : @gval FloatNum) : bytes * @gval FloatNum := (k, v).

(* SpecChecker.v — cases that carry a specification tree: besides comparing the
   model with the implementation, the checker evaluates the specification
   (compile, wp, eval) on the tree and compares the implementation with it.
   report returns, per case, the list of checks that failed:
     1 the generated tree is not well-precedenced (the case is discarded)
     2 model AST  <> compile tree        (model vs specification)
     3 Go AST     <> compile tree        (implementation vs specification)
     4 model result <> eval tree doc     (model vs specification)
     5 Go result  <> eval tree doc       (implementation vs specification)
     6 Go result  <> model result        (correspondence)
     7 Go AST     <> model AST           (correspondence)
     8 Go tokens  <> model tokens        (correspondence) *)
From Coq Require Import Floats.
From JM Require Import Model.Base Model.Num Model.Utf8 Model.Value Model.JsonText
     Model.Lexer Model.Parser Model.Slice Model.Functions Model.Interp Model.Api Model.Cli Model.GoVal
     Spec.Grammar Spec.PySlice Spec.Semantics Inst.FloatNum Run.Checker.

Record ecase := ECase {
  ec_id : nat; ec_tree : @expr FloatNum; ec_text : bytes; ec_doc : @value FloatNum;
  ec_mode : cmp_mode; ec_go_ast : aobs; ec_go : obs }.

Inductive anycase := CS (c : scase) | CE (c : ecase) | CA (c : acase) | CT (c : tcase) | CC (c : ccase) | CG (c : gcase).

Definition spec_obs (t : expr) (d : value) : obs := obs_of_outcome false (eval ord_id t d).

Definition check_ecase (c : ecase) : list N :=
  let model_ast := aobs_of (Api.compile (ec_text c)) in
  let model_res := run_search (ec_text c) (ec_doc c) in
  let corr :=
      (if obs_match (ec_mode c) false model_res (ec_go c) then [] else [6%N]) ++
      (if aobs_match false model_ast (ec_go_ast c) then [] else [7%N]) in
  if negb (wp (ec_tree c) && npos (ec_tree c)) then 1%N :: corr
  else
    let want_ast := AOk (Grammar.compile (ec_tree c)) in
    let want_res := spec_obs (ec_tree c) (ec_doc c) in
    (if aobs_match false model_ast want_ast then [] else [2%N]) ++
    (if aobs_match false (ec_go_ast c) want_ast then [] else [3%N]) ++
    (if obs_match (ec_mode c) false model_res want_res then [] else [4%N]) ++
    (if obs_match (ec_mode c) false (ec_go c) want_res then [] else [5%N]) ++
    corr.

(* accept on one side, reject on the other (a panic is neither) *)
Definition verdict_differs (model go : aobs) : bool :=
  match model, go with
  | AOk _, ASyn _ | AOk _, ACompErr | ASyn _, AOk _ | ACompErr, AOk _ => true
  | _, _ => false
  end.

Definition check_case (c : anycase) : nat * list N :=
  match c with
  | CS c => (sc_id c,
             if obs_match (sc_mode c) (sc_off c) (run_search (sc_expr c) (sc_doc c)) (sc_go c)
             then [] else [6%N])
  | CE c => (ec_id c, check_ecase c)
  | CA c => (ac_id c,
             let m := aobs_of (Api.compile (ac_expr c)) in
             (if aobs_match (ac_off c) m (ac_go c) then [] else [7%N]) ++
             (if verdict_differs m (ac_go c) then [9%N] else []))
  | CT c => (tc_id c,
             if tobs_match (tobs_of (tokenize (tc_expr c))) (tc_go c) then [] else [8%N])
  | CC c => (cc_id c, if ccase_ok c then [] else [6%N])
  | CG c => (gc_id c, if gcase_ok c then [] else [6%N])
  end.

Definition report (cs : list anycase) : list (nat * list N) :=
  filter (fun r => match snd r with [] => false | _ => true end) (map check_case cs).

(* for replay files: everything the three sides say about one case *)
Definition explain (c : anycase) :=
  match c with
  | CS c => (Some (run_search (sc_expr c) (sc_doc c)), None, None, None)
  | CE c => (Some (run_search (ec_text c) (ec_doc c)),
             Some (spec_obs (ec_tree c) (ec_doc c)),
             Some (aobs_of (Api.compile (ec_text c))),
             Some (AOk (Grammar.compile (ec_tree c))))
  | CA c => (None, None, Some (aobs_of (Api.compile (ac_expr c))), None)
  | CT c => (None, None, None, None)
  | CC c => (None, None, None, None)
  | CG c => (Some (gobs c), None, None, None)
  end.

(* Monomorphic names for generated files: no implicit NumOps argument is left to
   type-class resolution, which dominates the time to read a large case file. *)
Definition jNull := @VNull FloatNum.
Definition jB := @VBool FloatNum.
Definition jS := @VStr FloatNum.
Definition jA := @VArr FloatNum.
Definition jO := @VObj FloatNum.
Definition jX := @VExp FloatNum.
Definition nd := @Node FloatNum.
Definition nvNone := @NVNone FloatNum.
Definition nvStr := @NVStr FloatNum.
Definition nvInt := @NVInt FloatNum.
Definition nvTok := @NVTok FloatNum.
Definition nvSlice := @NVSlice FloatNum.
Definition nvJson := @NVJson FloatNum.
Definition eIdent := @EIdent FloatNum.
Definition eCurrent := @ECurrent FloatNum.
Definition eLit := @ELit FloatNum.
Definition eRaw := @ERaw FloatNum.
Definition eParen := @EParen FloatNum.
Definition eMSList := @EMSList FloatNum.
Definition eMSHash := @EMSHash FloatNum.
Definition eCall := @ECall FloatNum.
Definition eNot := @ENot FloatNum.
Definition eIndex := @EIndex FloatNum.
Definition eSlice l a b (c : option Z) r := @ESlice FloatNum l a b (option_map Some c) r.
Definition eListProj := @EListProj FloatNum.
Definition eFlatten := @EFlatten FloatNum.
Definition eFilter := @EFilter FloatNum.
Definition eValProj := @EValProj FloatNum.
Definition eSub := @ESub FloatNum.
Definition ePipe := @EPipe FloatNum.
Definition eOr := @EOr FloatNum.
Definition eAnd := @EAnd FloatNum.
Definition eCmp := @ECmp FloatNum.
Definition aExpr := @AExpr FloatNum.
Definition aRef := @ARef FloatNum.
Definition rNone := @RNone FloatNum.
Definition rDot := @RDot FloatNum.
Definition rBrk := @RBrk FloatNum.
Definition noE : option (@expr FloatNum) := None.
Definition soE (e : @expr FloatNum) : option (@expr FloatNum) := Some e.
Definition noZ : option Z := None.
Definition soZ (z : Z) : option Z := Some z.
Definition vnil : list (@value FloatNum) := [].
Definition onil : list (bytes * @value FloatNum) := [].
Definition kv (k : bytes) (v : @value FloatNum) : bytes * @value FloatNum := (k, v).

(* FloatNum.v — the executable NumOps instance: Coq's primitive binary64 floats.
   Arithmetic and comparisons are the hardware's (as Go's on amd64).  The text
   functions (decimal -> binary64 with correct rounding, shortest round-trip
   binary64 -> decimal in json.Marshal's format) are written in exact Z
   arithmetic; they MODEL strconv and are tied to it by the correspondence
   check only. *)
From Coq Require Import Floats Uint63.
From JM Require Import Model.Base Model.Num Model.JsonText.

Definition f_of_Z (z : Z) : float :=
  if z <? 0 then PrimFloat.opp (PrimFloat.of_uint63 (Uint63.of_Z (- z)))
  else PrimFloat.of_uint63 (Uint63.of_Z z).

(* math.Floor *)
Definition f_floor (x : float) : float :=
  match Prim2SF x with
  | S754_finite s m e =>
    if 0 <=? e then x
    else
      let p := 2 ^ (- e) in
      let q := Z.pos m / p in
      let exact := Z.pos m mod p =? 0 in
      if s then PrimFloat.opp (f_of_Z (if exact then q else q + 1))
      else f_of_Z q
  | _ => x
  end.
(* math.Ceil(x) = -Floor(-x) *)
Definition f_ceil (x : float) : float := PrimFloat.opp (f_floor (PrimFloat.opp x)).

Definition f_finite (x : float) : bool := PrimFloat.is_finite x.

Definition sf_eqb (a b : spec_float) : bool :=
  match a, b with
  | S754_zero s, S754_zero s' => Bool.eqb s s'
  | S754_infinity s, S754_infinity s' => Bool.eqb s s'
  | S754_nan, S754_nan => true
  | S754_finite s m e, S754_finite s' m' e' => Bool.eqb s s' && Pos.eqb m m' && Z.eqb e e'
  | _, _ => false
  end.
Definition f_same (a b : float) : bool := sf_eqb (Prim2SF a) (Prim2SF b).

(* ---------- decimal text -> binary64, round to nearest even ---------- *)

(* the float nearest to num/den (both positive); None = overflow *)
Definition round_ratio (neg : bool) (num den : Z) : option float :=
  let k := Z.log2 num - Z.log2 den in           (* floor(log2 v) is k or k-1 *)
  let e0 := k - 52 in
  let scaled (e : Z) := if e <? 0 then (num * 2 ^ (- e), den) else (num, den * 2 ^ e) in
  let '(n0, d0) := scaled e0 in
  let e1 := if n0 / d0 <? 2 ^ 52 then e0 - 1 else e0 in
  let e := Z.max e1 (-1074) in
  let '(n, d) := scaled e in
  let q := n / d in
  let r := n mod d in
  let q' := if (d <? 2 * r) || ((2 * r =? d) && Z.odd q) then q + 1 else q in
  if q' =? 0 then Some (if neg then (-0)%float else 0%float)
  else
    (* q' <= 2^53; 2^53 * 2^e is still exact *)
    if 1024 <? Z.log2 q' + e + 1 then None
    else Some (SF2Prim (S754_finite neg (Z.to_pos q') e)).

Fixpoint digits_to_Z (s : bytes) (acc : Z) : Z :=
  match s with
  | [] => acc
  | c :: r => digits_to_Z r (acc * 10 + (Z.of_N c - 48))
  end.

Fixpoint strip_leading_zeros (s : bytes) : bytes :=
  match s with
  | 48%N :: r => strip_leading_zeros r
  | _ => s
  end.

(* value = ± (ip ++ fp) * 10^(ex - |fp|) *)
Definition decimal_to_float (neg : bool) (ip fp : bytes) (ex : Z) : option float :=
  let ds := strip_leading_zeros (ip ++ fp) in
  let D := digits_to_Z ds 0 in
  let E := ex - zlen fp in
  if D =? 0 then Some (if neg then (-0)%float else 0%float)
  else
    let nd := zlen ds in
    if 310 <? nd + E then None                              (* >= 10^310: overflow *)
    else if nd + E <? -330 then Some (if neg then (-0)%float else 0%float)   (* < 10^-330: underflow *)
    else if 0 <=? E then round_ratio neg (D * 10 ^ E) 1
    else round_ratio neg D (10 ^ (- E)).

(* [eE] [+-]? digits+ ; the exponent saturates like strconv's (e < 10000) *)
Definition parse_exponent (s : bytes) : option (Z * bytes) :=
  match s with
  | c :: r =>
    if N.eqb c 101 || N.eqb c 69 then
      let '(neg, r1) := match r with
                        | 43%N :: r' => (false, r')
                        | 45%N :: r' => (true, r')
                        | _ => (false, r) end in
      let '(d, r2) := take_digits r1 in
      match d with
      | [] => None
      | _ =>
        let v := if 6 <? zlen (strip_leading_zeros d) then 100000 else digits_to_Z d 0 in
        Some (if neg then - v else v, r2)
      end
    else Some (0, s)
  | [] => Some (0, [])
  end.

(* strconv.ParseFloat(s, 64) for decimal syntax; None = error (syntax or range).
   Hexadecimal floats, underscores, and the words inf/infinity/nan are not
   parsed here: None (see DESIGN, trusted base). *)
Definition parse_float_decimal (s : bytes) : option float :=
  let '(neg, s1) := match s with
                    | 43%N :: r => (false, r)
                    | 45%N :: r => (true, r)
                    | _ => (false, s) end in
  let '(ip, s2) := take_digits s1 in
  let '(fp, s3) := match s2 with
                   | 46%N :: r => take_digits r
                   | _ => ([], s2) end in
  match ip ++ fp with
  | [] => None
  | _ =>
    match parse_exponent s3 with
    | Some (ex, []) => decimal_to_float neg ip fp ex
    | _ => None
    end
  end.

(* ---------- binary64 -> shortest decimal that reads back ---------- *)

Fixpoint Z_to_digits_fuel (fuel : nat) (z : Z) (acc : bytes) : bytes :=
  match fuel with
  | O => acc
  | S f => if z <? 10 then Z.to_N (48 + z) :: acc
           else Z_to_digits_fuel f (z / 10) (Z.to_N (48 + z mod 10) :: acc)
  end.
Definition Z_to_digits (z : Z) : bytes := Z_to_digits_fuel 400 z [].

(* number of decimal digits of the integer part of num/den, i.e. the x with
   10^(x-1) <= num/den < 10^x ; may be <= 0 *)
Fixpoint dec_exp_search (fuel : nat) (num den : Z) (x : Z) : Z :=
  match fuel with
  | O => x
  | S f =>
    (* invariant: estimate x; fix up *)
    let ge := if 0 <=? x - 1 then den * 10 ^ (x - 1) <=? num else den <=? num * 10 ^ (1 - x) in
    let lt := if 0 <=? x then num <? den * 10 ^ x else num * 10 ^ (- x) <? den in
    if negb ge then dec_exp_search f num den (x - 1)
    else if negb lt then dec_exp_search f num den (x + 1)
    else x
  end.
Definition dec_exp (num den : Z) : Z :=
  let est := ((Z.log2 num - Z.log2 den) * 30103) / 100000 + 1 in
  dec_exp_search 8 num den est.

(* num/den rounded to n significant digits: (down, up-needed?, nearest-is-up?)
   returns the digit integers Ddown, and flags *)
Definition to_n_digits (num den x n : Z) : Z * bool * bool :=
  (* scaled = num/den * 10^(n - x)  in [10^(n-1), 10^n) *)
  let s := n - x in
  let '(a, b) := if 0 <=? s then (num * 10 ^ s, den) else (num, den * 10 ^ (- s)) in
  let q := a / b in
  let r := a mod b in
  (q, negb (r =? 0), (b <? 2 * r) || ((2 * r =? b) && Z.odd q)).

Definition float_of_digits (D x n : Z) : option float :=
  (* D * 10^(x - n) *)
  let E := x - n in
  if 0 <=? E then round_ratio false (D * 10 ^ E) 1 else round_ratio false D (10 ^ (- E)).

Fixpoint shortest_search (fuel : nat) (v : float) (num den x n : Z) : Z * Z * Z :=
  match fuel with
  | O => (0, x, n)
  | S f =>
    let '(q, inexact, up) := to_n_digits num den x n in
    let ok (D : Z) := match float_of_digits D x n with
                      | Some w => PrimFloat.eqb w v
                      | None => false end in
    let first := if up then q + 1 else q in
    let second := if up then q else q + 1 in
    if negb inexact then (q, x, n)
    else if ok first then (first, x, n)
    else if ok second then (second, x, n)
    else shortest_search f v num den x (n + 1)
  end.

Fixpoint strip_trailing_zero_count (fuel : nat) (D : Z) (k : Z) : Z * Z :=
  match fuel with
  | O => (D, k)
  | S f => if (D mod 10 =? 0) && negb (D =? 0) then strip_trailing_zero_count f (D / 10) (k + 1) else (D, k)
  end.

(* digits and decimal point position: |v| = 0.d1…dn * 10^x *)
Definition shortest_digits (v : float) : bytes * Z :=
  match Prim2SF v with
  | S754_finite _ m e =>
    let '(num, den) := if 0 <=? e then (Z.pos m * 2 ^ e, 1) else (Z.pos m, 2 ^ (- e)) in
    let x := dec_exp num den in
    let '(D, x', n) := shortest_search 18 (PrimFloat.abs v) num den x 1 in
    (* rounding up can carry into 10^n *)
    let '(D1, x1) := if D =? 10 ^ n then (D / 10, x' + 1) else (D, x') in
    let '(D2, _) := strip_trailing_zero_count 20 D1 0 in
    (Z_to_digits D2, x1)
  | _ => ([48%N], 1)
  end.

Fixpoint zeros (n : nat) : bytes := match n with O => [] | S k => 48%N :: zeros k end.

(* strconv 'f' format with the shortest digits *)
Definition fmt_f (ds : bytes) (x : Z) : bytes :=
  let n := zlen ds in
  if x <=? 0 then str "0." ++ zeros (Z.to_nat (- x)) ++ ds
  else if n <=? x then ds ++ zeros (Z.to_nat (x - n))
  else firstn (Z.to_nat x) ds ++ [46%N] ++ skipn (Z.to_nat x) ds.

(* strconv 'e' format, then json's clean-up of e-0N to e-N *)
Definition fmt_e (ds : bytes) (x : Z) : bytes :=
  let ex := x - 1 in
  let mant := match ds with
              | [d] => [d]
              | d :: r => d :: 46%N :: r
              | [] => [48%N] end in
  let exd := Z_to_digits (Z.abs ex) in
  let exd2 := if Z.abs ex <? 10 then 48%N :: exd else exd in
  let raw := mant ++ [101%N] ++ (if ex <? 0 then [45%N] else [43%N]) ++ exd2 in
  if (ex <? 0) && (Z.abs ex <? 10) then mant ++ [101%N; 45%N] ++ exd else raw.

(* the float formatting of json.Marshal for a finite float64 *)
Definition f_print (v : float) : bytes :=
  match Prim2SF v with
  | S754_zero s => if s then str "-0" else str "0"
  | S754_finite s _ _ =>
    let a := PrimFloat.abs v in
    let '(ds, x) := shortest_digits a in
    let body := if PrimFloat.ltb a 1e-6 || PrimFloat.leb 1e21 a then fmt_e ds x else fmt_f ds x in
    if s then 45%N :: body else body
  | _ => str "null"
  end.

Global Instance FloatNum : NumOps := {|
  num := float;
  num_eqb := PrimFloat.eqb;
  num_ltb := PrimFloat.ltb;
  num_leb := PrimFloat.leb;
  num_add := PrimFloat.add;
  num_div := PrimFloat.div;
  num_of_Z := f_of_Z;
  num_abs := PrimFloat.abs;
  num_ceil := f_ceil;
  num_floor := f_floor;
  num_finite := f_finite;
  num_same := f_same;
  num_parse_json := parse_float_decimal;
  num_parse_go := parse_float_decimal;
  num_print := f_print
|}.

(* how the harness writes a float64: sign, mantissa, exponent *)
Definition mkf (neg : bool) (m : Z) (e : Z) : float :=
  if m =? 0 then (if neg then (-0)%float else 0%float)
  else SF2Prim (S754_finite neg (Z.to_pos m) e).
Definition f_nan : float := PrimFloat.nan.
Definition f_inf (neg : bool) : float := if neg then neg_infinity else infinity.

(* FloatOrder.v — the order hypothesis NumOrder holds of the binary64 instance
   (Inst/FloatNum.v on Coq's primitive floats): on finite numbers, < is a strict
   weak order.  Via Flocq's bridge from primitive floats to binary floats and from
   there to the reals.  Axioms: the standard library's specification of the
   primitive float operations (Coq.Floats.FloatAxioms) and of the real numbers
   (Coq.Reals), nothing of this development's. *)
From Coq Require Import Floats Reals Lra.
From Flocq Require Import IEEE754.PrimFloat IEEE754.BinarySingleNaN Core.Raux.
From JM Require Import Model.Num Inst.FloatNum Proofs.SortFacts Proofs.FunSpec.

Lemma ltb_real (x y : float) :
  PrimFloat.is_finite x = true -> PrimFloat.is_finite y = true ->
  PrimFloat.ltb x y = Rlt_bool (B2R (Prim2B x)) (B2R (Prim2B y)).
Proof.
  intros Hx Hy. rewrite ltb_equiv. apply Bltb_correct; rewrite <- is_finite_equiv; assumption.
Qed.

Theorem float_order : @NumOrder FloatNum.
Proof.
  unfold NumOrder, finite. constructor; cbn [num_ltb num_finite FloatNum]; unfold f_finite.
  - intros x y Hx Hy. rewrite (ltb_real x y Hx Hy), (ltb_real y x Hy Hx). intros H.
    apply Rlt_bool_false. pose proof (Rlt_bool_spec (B2R (Prim2B x)) (B2R (Prim2B y))) as S. rewrite H in S. inversion S. lra.
  - intros x y z Hx Hy Hz. rewrite (ltb_real x y Hx Hy), (ltb_real y z Hy Hz), (ltb_real x z Hx Hz). intros H1 H2.
    apply Rlt_bool_false.
    pose proof (Rlt_bool_spec (B2R (Prim2B x)) (B2R (Prim2B y))) as S1. rewrite H1 in S1. inversion S1.
    pose proof (Rlt_bool_spec (B2R (Prim2B y)) (B2R (Prim2B z))) as S2. rewrite H2 in S2. inversion S2. lra.
Qed.

Print Assumptions float_order.

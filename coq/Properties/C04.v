(* C04 — Compile accepts exactly the sentences of the JMESPath grammar.
   Statements only.
   The grammar is given by its trees (Spec/Grammar.v): expr, their token spelling
   render, and wp/npos — operands placed as the precedence rules require, lists
   non-empty, integers in range, "&" only as an argument, what may follow a dot
   or open a projection's right-hand side.  A sentence is the spelling of such a
   tree; a token counts by what the parser reads from it (a number by its
   integer, a literal by the JSON value of its text, a name or raw string by its
   bytes, anything else by its type: veq/Spell).
   Proved here, for every token list that ends in its only EOF (which is what
   the lexer produces, C05):
     C04_exactly_the_sentences  Parse accepts ts  <->  ts spells a well-precedenced tree,
                                and the AST returned is that tree's (both directions,
                                Proofs/ParserComplete.v and Proofs/ParserSound.v);
   and for every byte string: Compile returns (accept or reject, at compile
   time); whatever it accepts is the AST of a tree and searching it is evaluating
   that tree.
   From bytes to tokens: C14 (each token kind, whole token lists); every
   well-precedenced tree has a text that Compile accepts
   (C04_grammatical_text_is_accepted).  Not a theorem: that the lexer, on arbitrary
   bytes, produces only tokens that some text of the grammar produces (it is total
   and its errors are located: C05, C17); covered by the run — exhaustive token
   strings to a length bound, mutated valid expressions, the fuzz corpus, grammar
   expectations, and Run/Exact.v (a test: accepted = spellings, enumerated to
   length 5 over 23 token kinds). *)
From Coq Require Import Floats Permutation.
From JM Require Import Model.Base Model.Num Model.Value Model.JsonText Model.Lexer Model.Parser Model.Interp Model.Api
     Spec.Grammar Spec.Semantics Proofs.ValueFacts Proofs.InterpRefine Proofs.CompileTotal Proofs.ParserShape
     Proofs.SearchTotal Proofs.ApiFacts Proofs.ParserTotal Proofs.ParserComplete Proofs.LexText Proofs.LexAdj Proofs.ParserSound Proofs.LexExact Proofs.LitText Inst.FloatNum Run.Checker.

Section C04.
Context {NumO : NumOps}.
Variable ord : obj -> obj.
Hypothesis ord_perm : forall m, Permutation (ord m) m.

(* rejection happens at compile time: Compile always returns an expression or an error *)
Theorem C04_accept_or_reject :
  forall e : bytes, (exists n, Api.compile e = Ok n) \/ (exists er, Api.compile e = Err er).
Proof. exact compile_exactly_one. Qed.

(* nothing malformed compiles: an accepted input yields the AST of an expression
   tree — identifiers, literals, multi-selects with at least one member, calls of
   unquoted names with expression references only as arguments, bracket forms,
   projections with their right-hand sides, operators *)
Theorem C04_accepted_is_a_tree :
  forall (e : bytes) n, Api.compile e = Ok n -> exists x, n = compile x /\ sem_ok x = true.
Proof. exact parse_shape. Qed.

(* and therefore never "fails or misbehaves only when searched" for a structural
   reason: searching it is evaluating that tree *)
Theorem C04_accepted_evaluates_as_its_tree :
  forall (e : bytes) n, Api.compile e = Ok n ->
    exists x, n = compile x /\ sem_ok x = true /\
              forall d, plain d = true -> search_compiled ord n d = eval ord x d.
Proof. exact (compiled_is_tree ord ord_perm). Qed.

(* every sentence of the grammar is accepted, with the AST of its tree: for any
   token list that spells a well-precedenced tree (types and values; positions
   free) and ends in its only EOF.  lit_text: the JSON text chosen for a literal: a
   JSON text of v whenever v has one, not a JSON text otherwise (lit_spec); such a
   choice exists (C04_lit_text_exists below). *)
Variable lit_text : value -> bytes.
Hypothesis lit_ok : lit_spec lit_text.

Theorem C04_grammatical_is_accepted :
  forall (x : expr) (ts : list token),
    wp x = true -> npos x = true -> wf_tokens ts ->
    Spell ts 0 (render lit_text x ++ [tk tEOF []]) ->
    parse_tokens ts = Ok (compile x).
Proof. exact (parse_tokens_complete lit_text lit_ok). Qed.

(* conversely, whatever token list is accepted spells, token by token, a
   well-precedenced tree, and the AST is that tree's: nothing ungrammatical is
   accepted *)
Theorem C04_accepted_is_a_sentence :
  forall (ts : list token) n, parse_tokens ts = Ok n ->
    exists x, n = compile x /\ wp x = true /\ npos x = true /\ Spell ts 0 (render lit_text x ++ [tk tEOF []]).
Proof. exact (parse_tokens_sound_spell lit_text lit_ok). Qed.

(* accepted = grammatical *)
Theorem C04_exactly_the_sentences :
  forall ts : list token, wf_tokens ts ->
  forall n, parse_tokens ts = Ok n <->
            exists x, n = compile x /\ wp x = true /\ npos x = true /\ Spell ts 0 (render lit_text x ++ [tk tEOF []]).
Proof. exact (parse_tokens_exact_spell lit_text lit_ok). Qed.

(* from bytes: Compile accepts a byte string exactly when the lexer turns it into
   a token list that spells a well-precedenced tree, and the AST is that tree's *)
Theorem C04_compile_exactly :
  forall (s : bytes) n,
    Api.compile s = Ok n <->
    exists ts x, tokenize s = Ok ts /\ n = compile x /\ wp x = true /\ npos x = true /\
                 Spell ts 0 (render lit_text x ++ [tk tEOF []]).
Proof. exact (compile_exact lit_text lit_ok). Qed.

(* from bytes, against the lexical grammar instead of the lexer: Compile accepts a
   byte string exactly when it reads (Lex: whitespace, and token texts each followed
   by something that cannot extend it — Proofs/LexExact.v) as a list of tokens that
   is, token by token, the spelling of a well-precedenced tree; the AST is that
   tree's.  reads_as: same token types, values equal as the parser reads them
   (numbers by their integer, literals by their JSON value, names byte for byte). *)
Theorem C04_compile_accepts_exactly_the_sentences :
  forall (s : bytes) n,
    Api.compile s = Ok n <->
    exists l x, Lex s l /\ reads_as l (render lit_text x) /\ n = compile x /\ wp x = true /\ npos x = true.
Proof. exact (compile_bytes_exact lit_text lit_ok). Qed.

(* ... and from bytes: the spaced text of every such tree is accepted by Compile *)
Theorem C04_grammatical_text_is_accepted :
  forall x : expr, wp x = true -> npos x = true -> texty lit_text x = true ->
    Api.compile (expr_text lit_text x) = Ok (compile x).
Proof. exact (compile_expr_text lit_text lit_ok). Qed.

(* the hypothesis on lit_text can be met (this statement, and only this one, uses
   the standard library's excluded middle and indefinite description) *)
Theorem C04_lit_text_exists : exists lt : value -> bytes, lit_spec lt.
Proof. exact lit_spec_satisfiable. Qed.

End C04.


Print Assumptions C04_lit_text_exists.
Print Assumptions C04_accept_or_reject.
Print Assumptions C04_grammatical_is_accepted.
Print Assumptions C04_accepted_is_a_sentence.
Print Assumptions C04_exactly_the_sentences.
Print Assumptions C04_compile_exactly.
Print Assumptions C04_compile_accepts_exactly_the_sentences.
Print Assumptions C04_grammatical_text_is_accepted.
Print Assumptions C04_accepted_is_a_tree.
Print Assumptions C04_accepted_evaluates_as_its_tree.

(* the inputs of the defects repaired in this repository are rejected; their
   grammatical neighbours are accepted *)
Definition rejects (s : String.string) : bool := match @Api.compile FloatNum (str s) with Err _ => true | _ => false end.
Definition accepts (s : String.string) : bool := match @Api.compile FloatNum (str s) with Ok _ => true | _ => false end.
Arguments rejects s%string_scope.
Arguments accepts s%string_scope.
Example C04_example :
  (rejects "[0" && rejects "[:" && rejects "f(a b)" && rejects "f(a,)" && rejects "{a: b c: d}" &&
   rejects "[:1 2]" && rejects "[:::]" && rejects "@(x)" && rejects "(a)(@)" && rejects "a(b)(c)" &&
   rejects "[&a]" && rejects "&a" && rejects "a[*][x,y]" && rejects "*[x]" && rejects "a.(b)" && rejects "a.@" &&
   accepts "[0]" && accepts "[:]" && accepts "f(a, b)" && accepts "{a: b, c: d}" && accepts "[::]" &&
   accepts "f(&a, @)" && accepts "a[*].[x,y]" && accepts "*.x" && accepts "a.b(c)" && accepts "(a).b")%bool = true.
Proof. vm_compute. reflexivity. Qed.

(* the byte-level statement is not vacuous: a text written unlike the canonical spelling
   (a number with leading zeros, a quoted name with a \u escape, a raw string with an escaped quote, spaces)
   that reads, token by token, as the spelling of a well-precedenced tree — and Compile
   returns that tree's AST *)
Definition mtext4 (v : @value FloatNum) : bytes := match json_marshal v with Some t => t | None => [] end.
Definition e_ex4 : @expr FloatNum :=
  EFilter (Some (ESub (EIndex (Some (EIdent false (str "foo"))) 7) (EIdent true (str "bc"))))
          (ECmp CmpLT (EIdent false (str "x")) (ERaw (str "it's"))) RNone.
Definition l_ex4 : list (tokType * bytes) :=
  [(tUnquotedIdentifier, str "foo"); (tLbracket, str "["); (tNumber, str "007"); (tRbracket, str "]"); (tDot, str ".");
   (tQuotedIdentifier, str "bc"); (tFilter, str "[?"); (tUnquotedIdentifier, str "x"); (tLT, str "<"); (tStringLiteral, str "it's"); (tRbracket, str "]")].
Example C04_sentence_example :
  Lex (str "foo[ 007 ]. ""b\u0063""[?x<'it\'s']") l_ex4 /\ reads_as l_ex4 (render mtext4 e_ex4) /\
  wp e_ex4 = true /\ npos e_ex4 = true /\
  aobs_match false (aobs_of (Api.compile (str "foo[ 007 ]. ""b\u0063""[?x<'it\'s']"))) (AOk (compile e_ex4)) = true.
Proof.
  split; [|split; [|split; [|split]]].
  - (apply lex_exact; exists (match tokenize (str "foo[ 007 ]. ""b\u0063""[?x<'it\'s']") with Ok ts => removelast ts | _ => [] end); split; vm_compute; reflexivity).
  - unfold reads_as, l_ex4. set (r := render mtext4 e_ex4). vm_compute in r. subst r.
    repeat (apply Forall2_cons; [split; [reflexivity | vm_compute; first [exact I | reflexivity | (split; [reflexivity | discriminate])]] |]).
    apply Forall2_nil.
  - vm_compute. reflexivity.
  - vm_compute. reflexivity.
  - vm_compute. reflexivity.
Qed.

(* C04 — Compile accepts exactly the sentences of the JMESPath grammar.
   Statements only.
   Proved here: (soundness of shape) whatever Compile accepts is the AST of an
   expression tree of the grammar's tree language — there is no accepted input
   whose AST is malformed and fails only when searched; every input is either
   accepted or rejected at compile time (Compile always returns).
   (completeness) every grammatical sentence is accepted: the parser, on any
   token list that spells a well-precedenced tree of the grammar, returns the AST
   of that tree (C04_grammatical_is_accepted, Proofs/ParserComplete.v).
   Not a theorem: that an accepted token list is always the spelling of the
   tree it yields (no ungrammatical sentence slips through with a well-formed
   AST); this is covered by the run: exhaustive token strings up to a length
   bound, mutated valid expressions, the fuzz corpus and a list of expectations
   written from the grammar, compared between library, model and specification. *)
From Coq Require Import Floats Permutation.
From JM Require Import Model.Base Model.Num Model.Value Model.JsonText Model.Lexer Model.Parser Model.Interp Model.Api
     Spec.Grammar Spec.Semantics Proofs.ValueFacts Proofs.InterpRefine Proofs.CompileTotal Proofs.ParserShape
     Proofs.SearchTotal Proofs.ApiFacts Proofs.ParserTotal Proofs.ParserComplete Proofs.LexText Inst.FloatNum Run.Checker.

Section C04.
Context {NumO : NumOps}.
Variable ord : obj -> obj.
Hypothesis ord_perm : forall m, Permutation (ord m) m.

(* rejection happens at compile time: Compile always returns an expression or an error *)
Theorem C04_accept_or_reject :
  forall e : bytes, (exists n, Api.compile e = Ok n) \/ (exists er, Api.compile e = Err er).
Proof. exact compile_exactly_one. Qed.

(* nothing malformed compiles: an accepted input yields the AST of an expression
   tree — identifiers, literals, multi-selects with at least one member, calls of
   unquoted names with expression references only as arguments, bracket forms,
   projections with their right-hand sides, operators *)
Theorem C04_accepted_is_a_tree :
  forall (e : bytes) n, Api.compile e = Ok n -> exists x, n = compile x /\ sem_ok x = true.
Proof. exact parse_shape. Qed.

(* and therefore never "fails or misbehaves only when searched" for a structural
   reason: searching it is evaluating that tree *)
Theorem C04_accepted_evaluates_as_its_tree :
  forall (e : bytes) n, Api.compile e = Ok n ->
    exists x, n = compile x /\ sem_ok x = true /\
              forall d, plain d = true -> search_compiled ord n d = eval ord x d.
Proof. exact (compiled_is_tree ord ord_perm). Qed.

(* every sentence of the grammar is accepted, with the AST of its tree: for any
   token list that spells a well-precedenced tree (types and values; positions
   free) and ends in its only EOF.  lit_text: the JSON text chosen for a literal,
   assumed to be read back as that literal. *)
Variable lit_text : value -> bytes.
Hypothesis lit_ok : forall v, is_json v = true -> json_unmarshal (lit_text v) = Some v.

Theorem C04_grammatical_is_accepted :
  forall (x : expr) (ts : list token),
    wp x = true -> wf_tokens ts ->
    Spell ts 0 (render lit_text x ++ [tk tEOF []]) ->
    parse_tokens ts = Ok (compile x).
Proof. exact (parse_tokens_complete lit_text lit_ok). Qed.

(* ... and from bytes: the spaced text of every such tree is accepted by Compile *)
Theorem C04_grammatical_text_is_accepted :
  forall x : expr, wp x = true -> texty lit_text x = true ->
    Api.compile (expr_text lit_text x) = Ok (compile x).
Proof. exact (compile_expr_text lit_text lit_ok). Qed.

End C04.

Print Assumptions C04_accept_or_reject.
Print Assumptions C04_grammatical_is_accepted.
Print Assumptions C04_grammatical_text_is_accepted.
Print Assumptions C04_accepted_is_a_tree.
Print Assumptions C04_accepted_evaluates_as_its_tree.

(* the inputs of the defects repaired in this repository are rejected; their
   grammatical neighbours are accepted *)
Definition rejects (s : String.string) : bool := match @Api.compile FloatNum (str s) with Err _ => true | _ => false end.
Definition accepts (s : String.string) : bool := match @Api.compile FloatNum (str s) with Ok _ => true | _ => false end.
Arguments rejects s%string_scope.
Arguments accepts s%string_scope.
Example C04_example :
  (rejects "[0" && rejects "[:" && rejects "f(a b)" && rejects "f(a,)" && rejects "{a: b c: d}" &&
   rejects "[:1 2]" && rejects "[:::]" && rejects "@(x)" && rejects "(a)(@)" && rejects "a(b)(c)" &&
   rejects "[&a]" && rejects "&a" && rejects "a[*][x,y]" && rejects "*[x]" && rejects "a.(b)" && rejects "a.@" &&
   accepts "[0]" && accepts "[:]" && accepts "f(a, b)" && accepts "{a: b, c: d}" && accepts "[::]" &&
   accepts "f(&a, @)" && accepts "a[*].[x,y]" && accepts "*.x" && accepts "a.b(c)" && accepts "(a).b")%bool = true.
Proof. vm_compute. reflexivity. Qed.

(* C19 — jpgo prints exactly the library result and signals failure by exit
   status.  Statements only; proofs in Proofs/CliFacts.v.  The model of run() is
   Model/Cli.v; the correspondence run executes the built jpgo binary. *)
From Coq Require Import Floats Permutation.
From JM Require Import Model.Base Model.Num Model.Value Model.JsonText Model.Parser Model.Interp Model.Api Model.Cli
     Spec.Grammar Spec.Semantics Proofs.ValueFacts Proofs.InterpRefine Proofs.Closure Proofs.CliFacts
     Inst.FloatNum Run.Checker.

Section C19.
Context {NumO : NumOps}.
Variable ord : obj -> obj.
Hypothesis ord_perm : forall m, Permutation (ord m) m.

(* valid expression, valid JSON input, successful Search: standard output is the
   indented JSON text of exactly the value the library's Search returns on the
   decoded input, followed by a newline; the status is 0 *)
Theorem C19_success :
  forall (e text : bytes) c d r t,
    (exists n, parse e = Ok n) -> input_of c = Some text -> json_unmarshal text = Some d ->
    search ord e d = Ok r -> marshal_indent 0 r = Some t ->
    cli_run ord [e] c = Ok (CliResult (t ++ [10%N]) 0).
Proof. exact (cli_success ord). Qed.

(* status 0 happens only then; in every other case - invalid expression, unreadable
   or invalid input, evaluation error, unserialisable result - the status is 1
   and nothing is printed on standard output *)
Theorem C19_exit_status :
  forall (e : bytes) c res,
  cli_run ord [e] c = Ok res ->
  (cli_exit res = 0 /\
   exists n text d r t, parse e = Ok n /\ input_of c = Some text /\ json_unmarshal text = Some d /\
                        search ord e d = Ok r /\ marshal_indent 0 r = Some t /\ cli_stdout res = t ++ [10%N]) \/
  (cli_exit res = 1 /\ cli_stdout res = [] /\
   ((exists er, parse e = Err er) \/ input_of c = None \/
    (exists text, input_of c = Some text /\ json_unmarshal text = None) \/
    (exists text d er, input_of c = Some text /\ json_unmarshal text = Some d /\ search ord e d = Err er) \/
    (exists text d r, input_of c = Some text /\ json_unmarshal text = Some d /\ search ord e d = Ok r /\
                      marshal_indent 0 r = None))).
Proof. exact (cli_exit_status ord). Qed.

(* under C16's no-overflow proviso a successful Search on decoded JSON input is
   always serialisable, so the last failure case does not occur *)
Theorem C19_status_complete :
  forall (e text : bytes) c d r,
    NoOverflow -> input_of c = Some text -> json_unmarshal text = Some d -> search ord e d = Ok r ->
    exists t, marshal_indent 0 r = Some t /\ cli_run ord [e] c = Ok (CliResult (t ++ [10%N]) 0).
Proof. exact (cli_status_complete ord ord_perm). Qed.

Theorem C19_usage : forall args c, length args <> 1%nat -> cli_run ord args c = Ok (CliResult [] 1).
Proof. exact (cli_usage ord). Qed.

(* -input file and standard input are interchangeable *)
Theorem C19_channels : forall args x, cli_run ord args (FromFile x) = cli_run ord args (FromStdin x).
Proof. exact (cli_channel ord). Qed.

Theorem C19_no_panic : forall args c, cli_run ord args c <> Panic.
Proof. exact (cli_no_panic ord ord_perm). Qed.

End C19.

Print Assumptions C19_success.
Print Assumptions C19_exit_status.
Print Assumptions C19_status_complete.
Print Assumptions C19_usage.
Print Assumptions C19_channels.
Print Assumptions C19_no_panic.

(* jpgo 'a.b' on {"a":{"b":[1,{}]}} prints the indented array; an invalid
   expression, invalid input and an evaluation error print nothing and exit 1 *)
Definition cli (e input : String.string) : option (Z * bytes) :=
  cli_obs (CCase 0 [str e] false (Some (str input)) 0 []).
Arguments cli (e input)%string_scope.
Example C19_example :
  (match cli "a.b" "{""a"":{""b"":[1,{}]}}" with
   | Some (0, out) => bytes_eqb out (str "[" ++ [10] ++ str "  1," ++ [10] ++ str "  {}" ++ [10] ++ str "]" ++ [10])%N
   | _ => false end &&
   match cli "a." "{}" with Some (1, []) => true | _ => false end &&
   match cli "a" "{" with Some (1, []) => true | _ => false end &&
   match cli "abs('x')" "{}" with Some (1, []) => true | _ => false end)%bool = true.
Proof. vm_compute. reflexivity. Qed.

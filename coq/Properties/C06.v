(* C06 — Search never modifies the document it is given.
   Statements only.
   A pure Gallina function cannot modify its argument, so a theorem "the model
   leaves the document unchanged" would be true for the wrong reason.  What is
   proved instead is a statement about the Go source itself, re-established on
   every run: tools/extract_tables lists every statement of lexer.go, parser.go,
   interpreter.go, functions.go, util.go and api.go that stores into a slice, a
   map or a struct field (index assignments, append into spare capacity,
   sort.Stable/sort.Sort, copy, the Swap methods of the sort adapters through
   the slice their constructor stored) together with the provenance of the
   storage written, computed by a conservative flow-sensitive analysis
   (gen/Writes.v); the theorem below says that none of them writes storage
   reachable from a parameter — the document, or a literal held by the compiled
   AST.  With the fact that storage allocated by an activation is unreachable
   from the caller's data until returned, no call writes the document, on the
   success path or on an error path.  The analysis is part of the trusted base;
   the check additionally compares a deep snapshot of the document before and
   after every generated call (and sub-slice identity) on the real library. *)
From JM Require Import Model.Base Model.Num Model.Value Model.Api Model.State Proofs.Frame.
From JM Require Import gen.Writes.

Theorem C06_no_write_outside_own_allocations :
  forall w : write_site, In w write_sites -> ws_prov w = PFresh.
Proof. exact write_site_fresh. Qed.

Theorem C06_all_write_sites_checked : forallb site_is_fresh write_sites = true.
Proof. exact all_write_sites_fresh. Qed.

(* the analysis saw the code that matters: store statements in the methods of the interpreter,
   the parser and the lexer, in the sort adapters and in at least eight places of the function
   handlers, fifty or more in all (by name prefix: extracting or renaming a helper changes nothing) *)
Theorem C06_analysis_covers_the_handlers :
  (Nat.leb 1 (sites_with_prefix "treeInterpreter.") && Nat.leb 1 (sites_with_prefix "Parser.") &&
   Nat.leb 1 (sites_with_prefix "Lexer.") && Nat.leb 2 (sites_with_prefix "byExpr") &&
   Nat.leb 8 (sites_with_prefix "jpf") && Nat.leb 50 (length write_sites))%bool = true.
Proof. exact write_sites_cover. Qed.

Print Assumptions C06_no_write_outside_own_allocations.
Print Assumptions C06_all_write_sites_checked.
Print Assumptions C06_analysis_covers_the_handlers.

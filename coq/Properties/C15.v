(* C15 — Pipe is sequential composition and sub-expressions are referentially
   transparent.  Statements only; proofs in Proofs/Contexts.v, Proofs/CtxFacts.v.
   The statements are about expression trees; that the text "A | B" is read as
   the pipe of the trees of A and of B is a parser statement (the pipe is the
   loosest operator): C03. *)
From Coq Require Import Floats Permutation.
From JM Require Import Model.Base Model.Num Model.Value Model.JsonText Model.Lexer Model.Interp Model.Api
     Spec.Grammar Spec.Semantics Proofs.ValueFacts Proofs.InterpRefine Proofs.Contexts Proofs.CtxFacts
     Proofs.ParserComplete Proofs.LexText Proofs.LexAdj Proofs.LexExact Proofs.PipeText Inst.FloatNum Run.Checker.

Section C15.
Context {NumO : NumOps}.
Variable ord : obj -> obj.
Hypothesis ord_perm : forall m, Permutation (ord m) m.

Theorem C15_pipe_is_composition :
  forall (a b : expr) d, eval ord (EPipe a b) d = (x <- eval ord a d ;; eval ord b x).
Proof. exact (pipe_is_composition ord). Qed.

Theorem C15_pipe_fails_exactly_when_a_step_fails :
  forall (a b : expr) d,
    (exists er, eval ord (EPipe a b) d = Err er) <->
    (exists er, eval ord a d = Err er) \/ (exists x er, eval ord a d = Ok x /\ eval ord b x = Err er).
Proof. exact (pipe_error_iff ord). Qed.

(* the compiled pipe, on the interpreter *)
Theorem C15_pipe_on_the_interpreter :
  forall (a b : expr) d,
    sem_ok a = true -> sem_ok b = true -> plain d = true ->
    search_compiled ord (compile (EPipe a b)) d = (x <- eval ord a d ;; eval ord b x).
Proof. exact (pipe_compiled ord ord_perm). Qed.

(* referential transparency: in a context whose hole is evaluated against the
   root document (operands, left-hand sides, multi-select members, function
   arguments, at any nesting), only the value of the sub-expression matters *)
Theorem C15_referential_transparency :
  forall (c : rctx) (e e' : expr) d,
    eval ord e d = eval ord e' d -> eval ord (rplug c e) d = eval ord (rplug c e') d.
Proof. exact (rctx_congruence ord). Qed.

Theorem C15_replace_by_literal :
  forall (c : rctx) (e : expr) d v,
    eval ord e d = Ok v -> eval ord (rplug c e) d = eval ord (rplug c (ELit v)) d.
Proof. exact (replace_by_literal ord). Qed.

(* from bytes: for ANY two texts A and B that read as expressions (Lex: the lexical
   grammar; reads_as ... (render a): token by token the spelling of a well-precedenced
   tree), Search on the text "A | B" is Search on B of the result of Search on A, and
   fails exactly when a step fails — also when B contains pipes itself (the pipe is
   the loosest operator and associates).  lit_text: the JSON text chosen for a
   literal (lit_spec, satisfiable: C04_lit_text_exists). *)
Theorem C15_pipe_from_bytes :
  forall lit_text : value -> bytes, lit_spec lit_text ->
  forall (sa sb : bytes) la lb (a b : expr) d,
    Lex sa la -> reads_as la (render lit_text a) -> wp a = true -> npos a = true ->
    Lex sb lb -> reads_as lb (render lit_text b) -> wp b = true -> npos b = true ->
    plain d = true ->
    Api.search ord (pipe_text sa sb) d = (x <- Api.search ord sa d ;; Api.search ord sb x).
Proof. exact (fun lt ok => search_pipe_text lt ok ord ord_perm). Qed.

End C15.

Print Assumptions C15_pipe_is_composition.
Print Assumptions C15_pipe_fails_exactly_when_a_step_fails.
Print Assumptions C15_pipe_on_the_interpreter.
Print Assumptions C15_referential_transparency.
Print Assumptions C15_replace_by_literal.
Print Assumptions C15_pipe_from_bytes.

Definition d0 : @value FloatNum := VObj [(str "a", VArr [VNum 3%float; VNum 1%float])].
Example C15_example :
  (same_outcome (search_compiled (fun m => m)
                   (compile (EPipe (EIdent false (str "a")) (EIndex None 1))) d0) (Ok (VNum 1%float)) &&
   same_outcome (search_compiled (fun m => m)
                   (compile (EMSList [EIdent false (str "a"); ECurrent])) d0)
                (search_compiled (fun m => m)
                   (compile (EMSList [ELit (VArr [VNum 3%float; VNum 1%float]); ECurrent])) d0))%bool = true.
Proof. vm_compute. reflexivity. Qed.

Example C15_pipe_text_example :
  (bytes_eqb (pipe_text (str "a[0]") (str "b | c")) (str "a[0] | b | c"))%bool = true.
Proof. vm_compute. reflexivity. Qed.

(* the premises of C15_pipe_from_bytes are met by concrete texts: A = "a[ 00 ]", B = "b | c"
   (B holds a pipe itself), with their readings and trees *)
Definition mtext15 (v : @value FloatNum) : bytes := match json_marshal v with Some t => t | None => [] end.
Definition ea15 : @expr FloatNum := EIndex (Some (EIdent false (str "a"))) 0.
Definition eb15 : @expr FloatNum := EPipe (EIdent false (str "b")) (EIdent false (str "c")).
Definition la15 : list (tokType * bytes) := [(tUnquotedIdentifier, str "a"); (tLbracket, str "["); (tNumber, str "00"); (tRbracket, str "]")].
Definition lb15 : list (tokType * bytes) := [(tUnquotedIdentifier, str "b"); (tPipe, str "|"); (tUnquotedIdentifier, str "c")].
Example C15_pipe_from_bytes_premises :
  Lex (str "a[ 00 ]") la15 /\ reads_as la15 (render mtext15 ea15) /\ wp ea15 = true /\ npos ea15 = true /\
  Lex (str "b | c") lb15 /\ reads_as lb15 (render mtext15 eb15) /\ wp eb15 = true /\ npos eb15 = true.
Proof.
  assert (HA : Lex (str "a[ 00 ]") la15).
  { apply lex_exact. exists (match tokenize (str "a[ 00 ]") with Ok ts => removelast ts | _ => [] end). split; vm_compute; reflexivity. }
  assert (HB : Lex (str "b | c") lb15).
  { apply lex_exact. exists (match tokenize (str "b | c") with Ok ts => removelast ts | _ => [] end). split; vm_compute; reflexivity. }
  assert (RA : reads_as la15 (render mtext15 ea15)).
  { unfold reads_as, la15. set (r := render mtext15 ea15). vm_compute in r. subst r.
    repeat (apply Forall2_cons; [split; [reflexivity | vm_compute; first [exact I | reflexivity]] |]). apply Forall2_nil. }
  assert (RB : reads_as lb15 (render mtext15 eb15)).
  { unfold reads_as, lb15. set (r := render mtext15 eb15). vm_compute in r. subst r.
    repeat (apply Forall2_cons; [split; [reflexivity | vm_compute; first [exact I | reflexivity]] |]). apply Forall2_nil. }
  assert (W : (wp ea15 && npos ea15 && wp eb15 && npos eb15)%bool = true) by (vm_compute; reflexivity).
  apply andb_true_iff in W as [W W4]. apply andb_true_iff in W as [W W3]. apply andb_true_iff in W as [W1 W2].
  repeat split; assumption.
Qed.

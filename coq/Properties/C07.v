(* C07 — Truthiness, logical operators and comparators follow the specification.
   Statements only; proofs in Proofs/LogicFacts.v and Proofs/InterpRefine.v. *)
From Coq Require Import Floats Permutation.
From JM Require Import Model.Base Model.Num Model.Value Model.Interp Model.Api
     Spec.Grammar Spec.Semantics Proofs.ValueFacts Proofs.InterpRefine Proofs.SpecFacts Proofs.LogicFacts
     Inst.FloatNum Run.Checker.

Section C07.
Context {NumO : NumOps}.
Variable ord : obj -> obj.
Hypothesis ord_perm : forall m, Permutation (ord m) m.

(* the implementation's isFalse is the specification's truth definition, for
   every value (expression references included) *)
Theorem C07_isFalse_is_falsy : forall v, isFalse v = falsy v.
Proof. exact isFalse_falsy. Qed.

(* false, null, "", [] and {} are false-like; everything else, 0 included, is true-like *)
Theorem C07_false_like_values :
  forall v, falsy v = true <-> v = VNull \/ v = VBool false \/ v = VStr [] \/ v = VArr [] \/ v = VObj [].
Proof. exact falsy_iff. Qed.

Theorem C07_zero_is_true_like : forall n, truthy (VNum n) = true.
Proof. exact zero_is_truthy. Qed.

(* the interpreter computes eval for ||, &&, !, comparators and filters at any nesting *)
Theorem C07_conformance :
  forall e v fuel,
    sem_ok e = true -> plain v = true -> (node_depth (compile e) <= fuel)%nat ->
    Execute ord fuel (compile e) v = eval ord e v.
Proof. exact (execute_is_eval ord ord_perm). Qed.

(* || and && return an operand value and do not depend on the right operand when
   the left one decides — in particular not on whether it would fail *)
Theorem C07_or_short_circuit :
  forall l r v x, eval ord l v = Ok x -> truthy x = true -> eval ord (EOr l r) v = Ok x.
Proof. exact (eval_or_left ord). Qed.
Theorem C07_or_otherwise :
  forall l r v x, eval ord l v = Ok x -> truthy x = false -> eval ord (EOr l r) v = eval ord r v.
Proof. exact (eval_or_right ord). Qed.
Theorem C07_and_short_circuit :
  forall l r v x, eval ord l v = Ok x -> truthy x = false -> eval ord (EAnd l r) v = Ok x.
Proof. exact (eval_and_left ord). Qed.
Theorem C07_and_otherwise :
  forall l r v x, eval ord l v = Ok x -> truthy x = true -> eval ord (EAnd l r) v = eval ord r v.
Proof. exact (eval_and_right ord). Qed.
Theorem C07_not_is_boolean :
  forall x v y, eval ord x v = Ok y -> eval ord (ENot x) v = Ok (VBool (falsy y)).
Proof. exact (eval_not ord). Qed.

(* == and != are deep equality, never equal across types *)
Theorem C07_equality :
  forall l r v x y, eval ord l v = Ok x -> eval ord r v = Ok y ->
    eval ord (ECmp CmpEQ l r) v = Ok (VBool (json_equal x y)) /\
    eval ord (ECmp CmpNE l r) v = Ok (VBool (negb (json_equal x y))).
Proof. exact (eval_eq ord). Qed.
Theorem C07_never_equal_across_types :
  forall a b : value, json_equal a b = true -> same_kind a b = true.
Proof. exact json_equal_same_kind. Qed.
Theorem C07_objs_equal_is_json_equal : forall a b : value, objs_equal a b = json_equal a b.
Proof. reflexivity. Qed.

(* <, <=, >, >= compare two numbers and are null otherwise *)
Theorem C07_ordering :
  forall op l r v x y, is_order op = true -> eval ord l v = Ok x -> eval ord r v = Ok y ->
    eval ord (ECmp op l r) v =
    match x, y with
    | VNum a, VNum b => Ok (VBool (cmp_num op a b))
    | _, _ => Ok VNull
    end.
Proof. exact (eval_order ord). Qed.

End C07.

Print Assumptions C07_isFalse_is_falsy.
Print Assumptions C07_false_like_values.
Print Assumptions C07_zero_is_true_like.
Print Assumptions C07_conformance.
Print Assumptions C07_or_short_circuit.
Print Assumptions C07_or_otherwise.
Print Assumptions C07_and_short_circuit.
Print Assumptions C07_and_otherwise.
Print Assumptions C07_not_is_boolean.
Print Assumptions C07_equality.
Print Assumptions C07_never_equal_across_types.
Print Assumptions C07_objs_equal_is_json_equal.
Print Assumptions C07_ordering.

(* `0` || abs('x')  is 0 although the right operand fails; !`[]` is true; `1` < 'a' is null *)
Definition bad_call : @expr FloatNum := ECall (str "abs") [AExpr (ERaw (str "x"))].
Example C07_example :
  (same_outcome (search_compiled (fun m => m) (compile (EOr (ELit (VNum 0%float)) bad_call)) VNull) (Ok (VNum 0%float)) &&
   same_outcome (search_compiled (fun m => m) (compile (EAnd (ELit (VNum 0%float)) bad_call)) VNull) (Err EEval) &&
   same_outcome (search_compiled (fun m => m) (compile (ENot (ELit (VArr [])))) VNull) (Ok (VBool true)) &&
   same_outcome (search_compiled (fun m => m) (compile (ECmp CmpLT (ELit (VNum 1%float)) (ERaw (str "a")))) VNull) (Ok VNull))%bool = true.
Proof. vm_compute. reflexivity. Qed.

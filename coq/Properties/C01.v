(* C01 — Core expression evaluation conforms to the JMESPath specification.
   Statements only; proofs in Proofs/InterpRefine.v, Proofs/SpecFacts.v. *)
From Coq Require Import Floats Permutation.
From JM Require Import Model.Base Model.Num Model.Value Model.Interp Model.Api
     Spec.Grammar Spec.Semantics Proofs.ValueFacts Proofs.InterpRefine Proofs.SpecFacts
     Proofs.ParserComplete Proofs.LexText Proofs.LexAdj Proofs.LexExact Inst.FloatNum Run.Checker.

Section C01.
Context {NumO : NumOps}.
Variable ord : obj -> obj.
Hypothesis ord_perm : forall m, Permutation (ord m) m.

(* For every expression tree e (literals without expression references, integers
   in the int64 range), every document without expression references and every
   sufficient amount of fuel, the interpreter run on the AST of e returns exactly
   what the specification's eval assigns — value or error. *)
Theorem C01_conformance :
  forall e v fuel,
    sem_ok e = true -> plain v = true -> (node_depth (compile e) <= fuel)%nat ->
    Execute ord fuel (compile e) v = eval ord e v.
Proof. exact (execute_is_eval ord ord_perm). Qed.

(* the compiled-expression entry point allots enough fuel *)
Theorem C01_search_compiled :
  forall e v, sem_ok e = true -> plain v = true ->
    search_compiled ord (compile e) v = eval ord e v.
Proof. exact (search_compiled_is_eval ord ord_perm). Qed.

(* On the core fragment (identifiers, sub-expressions, index expressions,
   literals, raw strings, @, parentheses, pipes, multi-select lists and hashes)
   evaluation never fails: a missing key, an out-of-range index or a type
   mismatch is null, not an error. *)
Theorem C01_core_never_fails :
  forall e v, core e = true -> (exists r, eval ord e v = Ok r) \/ eval ord e v = OutOfFuel.
Proof. exact (eval_core_total ord). Qed.

(* the clauses the property names, as the specification states them *)
Theorem C01_identifier :
  forall q k v, eval ord (EIdent q k) v =
    Ok (match v with
        | VObj m => match obj_get k m with Some x => x | None => VNull end
        | _ => VNull
        end).
Proof. reflexivity. Qed.

Theorem C01_index :
  forall l i v xs, eval ord l v = Ok (VArr xs) -> zlen xs < two63 ->
    eval ord (EIndex (Some l) i) v =
    Ok (let j := if i <? 0 then i + zlen xs else i in
        if (0 <=? j) && (j <? zlen xs) then nth (Z.to_nat j) xs VNull else VNull).
Proof. exact (eval_index_array ord). Qed.

Theorem C01_index_non_array :
  forall l i v x, eval ord l v = Ok x -> (forall xs, x <> VArr xs) ->
    eval ord (EIndex (Some l) i) v = Ok VNull.
Proof. exact (eval_index_other ord). Qed.

Theorem C01_multiselect_null :
  forall es kvs, eval ord (EMSList es) VNull = Ok VNull /\ eval ord (EMSHash kvs) VNull = Ok VNull.
Proof. exact (eval_multiselect_null ord). Qed.

(* every member is evaluated against the same current node *)
Theorem C01_multiselect_list :
  forall es v, v <> VNull ->
    eval ord (EMSList es) v = (ys <- mapM (fun x => eval ord x v) es ;; Ok (VArr ys)).
Proof. exact (eval_mslist_nonnull ord). Qed.

Theorem C01_pipe_and_subexpression :
  forall l r v, eval ord (EPipe l r) v = (x <- eval ord l v ;; eval ord r x) /\
                eval ord (ESub l r) v = (x <- eval ord l v ;; eval ord r x).
Proof. intros; split; reflexivity. Qed.

(* from bytes, for every text: if the text reads (Lex: the lexical grammar of
   Proofs/LexExact.v) as a token list that spells, token by token, a well-precedenced
   tree e, then Search on the text is the specification's eval of e on every JSON
   document; a text with no such reading is an error.  lit_text: the JSON text
   chosen for a literal (lit_spec, satisfiable: C04_lit_text_exists). *)
Theorem C01_search_from_bytes :
  forall lit_text : value -> bytes, lit_spec lit_text ->
  forall (s : bytes) l (e : expr) d,
    Lex s l -> reads_as l (render lit_text e) -> wp e = true -> npos e = true -> plain d = true ->
    Api.search ord s d = eval ord e d.
Proof. exact (fun lt ok => search_bytes_exact lt ok ord ord_perm). Qed.

Theorem C01_unreadable_text_is_an_error :
  forall lit_text : value -> bytes, lit_spec lit_text ->
  forall (s : bytes) d,
    (forall l (e : expr), Lex s l -> reads_as l (render lit_text e) -> wp e = true -> npos e = true -> False) ->
    exists err, Api.search ord s d = Err err.
Proof. exact (fun lt ok => search_bytes_rejects lt ok ord). Qed.

End C01.

Print Assumptions C01_conformance.
Print Assumptions C01_search_compiled.
Print Assumptions C01_core_never_fails.
Print Assumptions C01_identifier.
Print Assumptions C01_index.
Print Assumptions C01_index_non_array.
Print Assumptions C01_multiselect_null.
Print Assumptions C01_multiselect_list.
Print Assumptions C01_pipe_and_subexpression.
Print Assumptions C01_search_from_bytes.
Print Assumptions C01_unreadable_text_is_an_error.

(* non-vacuity: a concrete core expression on a concrete document; the
   hypotheses of C01_conformance hold for it and both sides compute *)
Definition ex_doc : @value FloatNum :=
  VObj [(str "a", VArr [VNum 1%float; VObj [(str "b", VStr (str "x"))]])].
Definition ex_expr : @expr FloatNum :=
  EPipe (EIndex (Some (EIdent false (str "a"))) (-1)) (EMSList [EIdent false (str "b"); ECurrent]).
Example C01_example :
  (sem_ok ex_expr && plain ex_doc && core ex_expr &&
   same_outcome (search_compiled (fun m => m) (compile ex_expr) ex_doc)
                (Ok (VArr [VStr (str "x"); VObj [(str "b", VStr (str "x"))]])))%bool = true.
Proof. vm_compute. reflexivity. Qed.

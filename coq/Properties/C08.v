(* C08 — Slices select what Python-style extended slicing selects, for all integers.
   Only statements; the proofs are in Proofs/SliceFacts.v and Proofs/SliceInterp.v. *)
From Coq Require Import Floats.
From JM Require Import Model.Base Model.Num Model.Value Model.Slice Model.Interp
     Spec.PySlice Proofs.SliceFacts Proofs.SliceInterp Inst.FloatNum Run.Checker.

Section C08.
Context {NumO : NumOps}.
Variable ord : obj -> obj.

(* For every array (shorter than 2^63 elements, as every Go slice is), every
   present or absent start/stop/step of the int64 range: the interpreter's slice
   node — capSlice, computeSliceParams and the loop with 64-bit wrap-around and
   the unchecked slice[i] — returns exactly Python's xs[a:b:c], and an error
   exactly for step 0. *)
Theorem C08_slice_python :
  forall fuel (xs : list value) (a b c : option Z),
    zlen xs < two63 -> int64_opt a -> int64_opt b -> int64_opt c ->
    Execute ord (S fuel) (slice_node a b c) (VArr xs) =
    match py_slice xs a b c with
    | Some ys => Ok (VArr ys)
    | None => Err EEval
    end.
Proof. exact (execute_slice_array ord). Qed.

Theorem C08_error_iff_step_zero :
  forall (xs : list value) (a b c : option Z), py_slice xs a b c = None <-> c = Some 0.
Proof. exact (@py_slice_none_iff value). Qed.

Theorem C08_step_zero_is_an_error :
  forall fuel (xs : list value) (a b : option Z),
    zlen xs < two63 -> int64_opt a -> int64_opt b ->
    Execute ord (S fuel) (slice_node a b (Some 0)) (VArr xs) = Err EEval.
Proof. exact (execute_slice_step_zero ord). Qed.

Theorem C08_non_array_is_null :
  forall fuel v (a b c : option Z),
    (forall xs, v <> VArr xs) -> Execute ord (S fuel) (slice_node a b c) v = Ok VNull.
Proof. exact (execute_slice_non_array ord). Qed.

(* no parameter value, however large, causes a panic or exhausts the loop's fuel *)
Theorem C08_never_panics_or_hangs :
  forall fuel v (a b c : option Z),
    (forall xs, v = VArr xs -> zlen xs < two63) -> int64_opt a -> int64_opt b -> int64_opt c ->
    returns (Execute ord (S fuel) (slice_node a b c) v).
Proof. exact (execute_slice_returns ord). Qed.

End C08.

Print Assumptions C08_slice_python.
Print Assumptions C08_error_iff_step_zero.
Print Assumptions C08_step_zero_is_an_error.
Print Assumptions C08_non_array_is_null.
Print Assumptions C08_never_panics_or_hangs.

(* non-vacuity: the input that used to overflow the loop index *)
Example C08_extreme_step :
  same_outcome
    (Execute (fun m => m) 1 (slice_node (Some 1%Z) None (Some 9223372036854775807%Z))
             (VArr [VNum 1%float; VNum 2%float; VNum 3%float]))
    (Ok (VArr [VNum 2%float])) = true.
Proof. vm_compute. reflexivity. Qed.

(* C03 — Operator precedence, associativity and projection scope follow JMESPath
   rules.  Statements only.
   What is proved here: (1) the implementation's Pratt tables, regenerated from
   parser.go on every run, are exactly the specification's precedence levels, at
   every token and at every parse call site (a mutation of a binding power, of a
   call-site level or of the projection stop constant breaks these theorems);
   (2) parentheses are transparent for the AST.
   (3) the Pratt theorem (Proofs/ParserComplete.v): for every well-precedenced
   tree e — wp: an operand to the left of an operator of level p is not open
   below p, an operand to the right is wholly tighter than p, a projection's
   right-hand side extends as far as the rules say — the parser, on ANY token
   list that spells e (the token types and values of render e, arbitrary
   positions, a final EOF), builds exactly compile e.  With C04_accepted_is_a_tree
   (whatever is accepted is compile of some tree) this is the statement that
   parser.go implements the precedence, associativity and projection-scope rules.
   (4) at the level of bytes (Proofs/LexText.v): every well-precedenced tree has
   a text — its tokens in the Go spelling, each followed by one space — on which
   Compile returns compile e and Search returns the denotation of e.  Other
   spellings of the same tokens (no spaces, more spaces, parentheses) are the
   lexer's business (C14) and are exercised by the run: every generated tree in
   minimal, fully parenthesised and randomly spaced spelling. *)
From Coq Require Import Floats.
From JM Require Import Model.Base Model.Num Model.Value Model.JsonText Model.Lexer Model.Parser Model.Api
     Spec.Grammar Spec.Semantics Proofs.ValueFacts Proofs.TablesOk Proofs.ParserTotal Proofs.ParserComplete Proofs.InterpRefine Proofs.LexText Proofs.LexAdj
     Inst.FloatNum Run.Checker.
From JM Require Import gen.Tables.

(* from loosest to tightest: pipe, or, and, comparators, flatten, wildcard and
   filter projections, dot, not, brace, bracket, call *)
Theorem C03_levels_are_ordered :
  0 < lvl_pipe < lvl_or /\ lvl_or < lvl_and /\ lvl_and < lvl_cmp /\ lvl_cmp < lvl_flatten /\
  lvl_flatten < lvl_proj_stop /\ lvl_proj_stop <= lvl_star /\ lvl_star < lvl_filter /\
  lvl_filter < lvl_dot /\ lvl_dot < lvl_not /\ lvl_not < lvl_brace /\ lvl_brace < lvl_bracket /\
  lvl_bracket < lvl_call.
Proof. exact levels_ordered. Qed.

Theorem C03_binding_powers_realise_the_levels : forall t, binding_power t = spec_level t.
Proof. exact binding_power_is_spec_level. Qed.

Theorem C03_call_sites_pass_the_right_level : call_sites_ok.
Proof. exact call_sites_are_ok. Qed.

Theorem C03_projection_stop : projection_stop = lvl_proj_stop.
Proof. exact projection_stop_ok. Qed.

Section C03.
Context {NumO : NumOps}.

(* redundant parentheses never change the AST, hence never the meaning *)
Theorem C03_parentheses_are_transparent : forall e : expr, compile (EParen e) = compile e.
Proof. reflexivity. Qed.

(* binary operators associate to the left: a op b op c is read (a op b) op c, and
   the right-nested tree needs parentheses *)
Theorem C03_left_associative :
  forall a b c : expr, wp a = true -> wp b = true -> wp c = true -> npos b = true -> npos c = true ->
    lvl_or <= rl a -> lvl_or < lmin b -> lvl_or < lmin c -> lvl_or <= rl b ->
    wp (EOr (EOr a b) c) = true /\ wp (EOr a (EOr b c)) = false.
Proof. exact or_left_assoc. Qed.

(* ---- the Pratt theorem ---- *)
(* the JSON text chosen to spell a literal: lit_text v is a JSON text of v whenever v
   has one and not a JSON text otherwise (lit_spec, Proofs/ParserComplete.v).  Such a
   choice exists (C04_lit_text_exists); json.Marshal's text is one wherever it is
   read back (C16_json_round_trip) *)
Variable lit_text : value -> bytes.
Hypothesis lit_ok : lit_spec lit_text.

Theorem C03_parse_of_any_spelling :
  forall (e : expr) (ts : list token),
    wp e = true -> npos e = true -> wf_tokens ts ->
    Spell ts 0 (render lit_text e ++ [tk tEOF []]) ->
    parse_tokens ts = Ok (compile e).
Proof. exact (parse_tokens_complete lit_text lit_ok). Qed.

Theorem C03_parse_render :
  forall e : expr, wp e = true -> npos e = true -> lits_valid (render lit_text e) ->
    parse_tokens (render lit_text e ++ [tk tEOF []]) = Ok (compile e).
Proof. exact (parse_render lit_text lit_ok). Qed.

(* from bytes: Compile on the spaced text of a well-precedenced tree is its AST;
   texty: quoted names are valid UTF-8 and the literal texts have no dangling
   backslash (both hold for what json.Marshal writes) *)
Theorem C03_compile_of_text :
  forall e : expr, wp e = true -> npos e = true -> texty lit_text e = true ->
    Api.compile (expr_text lit_text e) = Ok (compile e).
Proof. exact (compile_expr_text lit_text lit_ok). Qed.

Theorem C03_search_of_text :
  forall (ord : obj -> obj), (forall m, Permutation.Permutation (ord m) m) ->
  forall (e : expr) d, wp e = true -> npos e = true -> texty lit_text e = true -> sem_ok e = true -> plain d = true ->
    Api.search ord (expr_text lit_text e) d = eval ord e d.
Proof. exact (search_expr_text lit_text lit_ok). Qed.

(* adding whitespace between tokens never changes the AST: any two texts that put
   some whitespace after each token of the tree's spelling compile to compile e *)
Theorem C03_whitespace_never_changes_the_ast :
  forall (e : expr) l1 l2, wp e = true -> npos e = true -> ws_text_ok l1 -> ws_text_ok l2 ->
    map fst l1 = render lit_text e -> map fst l2 = render lit_text e ->
    Api.compile (text_ws l1) = Api.compile (text_ws l2).
Proof. exact (whitespace_insignificant lit_text lit_ok). Qed.

Theorem C03_compile_of_any_spaced_text :
  forall (e : expr) l, wp e = true -> npos e = true -> ws_text_ok l -> map fst l = render lit_text e ->
    Api.compile (text_ws l) = Ok (compile e).
Proof. exact (compile_text_ws lit_text lit_ok). Qed.

(* ... and whitespace may be absent altogether wherever the next byte cannot extend
   the token (adj_ok: a name is not followed by a letter, digit or underscore, a
   number not by a digit, '[' not by '?' or ']', '|' '&' '!' '<' '>' not by the second
   character of the longer operator), may precede the first token, and need not
   follow the last: Compile on any such text of the tokens of e is compile e *)
Theorem C03_compile_of_any_layout :
  forall (e : expr) lead l, wp e = true -> npos e = true -> Forall wsc lead -> adj_ok l -> map fst l = render lit_text e ->
    Api.compile (lead ++ text_ws l) = Ok (compile e).
Proof. exact (compile_text_adj lit_text lit_ok). Qed.

Theorem C03_layout_never_changes_the_ast :
  forall (e : expr) lead1 l1 lead2 l2, wp e = true -> npos e = true ->
    Forall wsc lead1 -> adj_ok l1 -> Forall wsc lead2 -> adj_ok l2 ->
    map fst l1 = render lit_text e -> map fst l2 = render lit_text e ->
    Api.compile (lead1 ++ text_ws l1) = Api.compile (lead2 ++ text_ws l2).
Proof. exact (layout_insignificant lit_text lit_ok). Qed.

(* the compact text (a space only where two tokens would run together) of every
   well-precedenced tree compiles to the tree, and Search on any layout is eval *)
Theorem C03_compile_of_compact_text :
  forall e : expr, wp e = true -> npos e = true -> texty lit_text e = true ->
    Api.compile (compact_text (render lit_text e)) = Ok (compile e).
Proof. exact (compile_compact_text lit_text lit_ok). Qed.

Theorem C03_search_of_any_layout :
  forall (ord : obj -> obj), (forall m, Permutation.Permutation (ord m) m) ->
  forall (e : expr) lead l d, wp e = true -> npos e = true -> Forall wsc lead -> adj_ok l -> map fst l = render lit_text e ->
    sem_ok e = true -> plain d = true ->
    Api.search ord (lead ++ text_ws l) d = eval ord e d.
Proof. exact (search_text_adj lit_text lit_ok). Qed.

(* fuel is immaterial: any two amounts that suffice give the same answer *)
Theorem C03_fuel_independent :
  forall ts f f' bp i,
    parseExpression ts f bp i <> OutOfFuel -> parseExpression ts f' bp i <> OutOfFuel ->
    parseExpression ts f bp i = parseExpression ts f' bp i.
Proof. exact ParserFuel.parse_fuel_independent. Qed.

End C03.

Print Assumptions C03_levels_are_ordered.
Print Assumptions C03_parse_of_any_spelling.
Print Assumptions C03_parse_render.
Print Assumptions C03_compile_of_text.
Print Assumptions C03_search_of_text.
Print Assumptions C03_whitespace_never_changes_the_ast.
Print Assumptions C03_compile_of_any_spaced_text.
Print Assumptions C03_compile_of_any_layout.
Print Assumptions C03_layout_never_changes_the_ast.
Print Assumptions C03_compile_of_compact_text.
Print Assumptions C03_search_of_any_layout.
Print Assumptions C03_fuel_independent.
Print Assumptions C03_binding_powers_realise_the_levels.
Print Assumptions C03_call_sites_pass_the_right_level.
Print Assumptions C03_projection_stop.
Print Assumptions C03_parentheses_are_transparent.
Print Assumptions C03_left_associative.

(* a.*.b.c keeps .b.c inside the projection; a || b && c groups as a || (b && c);
   !a.b is (!a).b *)
Definition idn (s : String.string) : @expr FloatNum := EIdent false (str s).
Arguments idn s%string_scope.
Example C03_example :
  (aobs_match false (aobs_of (Api.compile (str "a.*.b.c")))
       (AOk (compile (EValProj (Some (idn "a")) (RDot (ESub (idn "b") (idn "c")))))) &&
   aobs_match false (aobs_of (Api.compile (str "a || b && c")))
       (AOk (compile (EOr (idn "a") (EAnd (idn "b") (idn "c"))))) &&
   aobs_match false (aobs_of (Api.compile (str "!a.b")))
       (AOk (compile (ESub (ENot (idn "a")) (idn "b")))) &&
   aobs_match false (aobs_of (Api.compile (str "a[*].[x,y][0]")))
       (AOk (compile (EListProj (Some (idn "a")) (RDot (EIndex (Some (EMSList [idn "x"; idn "y"])) 0))))))%bool = true.
Proof. vm_compute. reflexivity. Qed.

(* the text-level theorem is not vacuous: a tree with a quoted name, a literal
   containing a backtick, a negative index and a projection, its spaced text,
   and Compile on that text *)
Definition mtext (v : @value FloatNum) : bytes := match json_marshal v with Some t => t | None => [] end.
Definition e_text : @expr FloatNum :=
  EPipe (EValProj (Some (idn "a")) (RDot (ESub (EIdent true (str "b c")) (idn "c"))))
        (EOr (ELit (VStr (str "x`y"))) (EIndex None (-1))).
Example C03_text_example :
  (wp e_text && npos e_text && texty mtext e_text &&
   bytes_eqb (expr_text mtext e_text) (str "a . * . ""b c"" . c | `""x\`y""` || [ -1 ] ") &&
   aobs_match false (aobs_of (Api.compile (expr_text mtext e_text))) (AOk (compile e_text)))%bool = true.
Proof. vm_compute. reflexivity. Qed.

(* the compact text of the same tree: no whitespace at all is needed here *)
Example C03_compact_example :
  (bytes_eqb (compact_text (render mtext e_text)) (str "a.*.""b c"".c|`""x\`y""`||[-1]") &&
   aobs_match false (aobs_of (Api.compile (compact_text (render mtext e_text)))) (AOk (compile e_text)) &&
   bytes_eqb (compact_text (render mtext (EAnd (ENot (idn "a")) (ECmp CmpLT (idn "b") (EIndex None 1))))) (str "!a&&b<[1]") &&
   bytes_eqb (compact_text (render mtext (EPipe (idn "a") (EOr (idn "b") (idn "c"))))) (str "a|b||c") &&
   bytes_eqb (compact_text [tk tPipe (str "|"); tk tPipe (str "|"); tk tLbracket (str "["); tk tRbracket (str "]"); tk tNot (str "!"); tk tEQ (str "==");
                            tk tUnquotedIdentifier (str "a"); tk tNumber (str "1"); tk tNumber (str "2"); tk tUnquotedIdentifier (str "b")])
             (str "| |[ ]! ==a 1 2b"))%bool = true.
Proof. vm_compute. reflexivity. Qed.

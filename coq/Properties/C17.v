(* C17 — Compile failures are reported consistently and with a usable location.
   Statements only; proofs in Proofs/{LexerTotal,ParserTotal,CompileTotal,ApiFacts}.v. *)
From Coq Require Import Floats.
From JM Require Import Model.Base Model.Num Model.Value Model.Lexer Model.Parser Model.Api
     Proofs.CompileTotal Proofs.ApiFacts Proofs.LexView Proofs.LexSpell Proofs.LexText Proofs.LexAdj Proofs.LexExact Inst.FloatNum Run.Checker.

Section C17.
Context {NumO : NumOps}.

(* for every byte string — grammatical, ungrammatical, unlexable, not UTF-8 —
   Compile returns a compiled expression or an error: exactly one of the two
   (in the model: never a panic and never out of fuel), and a syntax error's
   offset lies inside the expression *)
Theorem C17_compile_result :
  forall e : bytes,
    match compile e with
    | Ok _ => True
    | Err (ESyntax o) => 0 <= o <= elen e
    | Err _ => True
    | Panic => False
    | OutOfFuel => False
    end.
Proof. exact compile_total. Qed.

Theorem C17_exactly_one :
  forall e : bytes, (exists n, compile e = Ok n) \/ (exists er, compile e = Err er).
Proof. exact compile_exactly_one. Qed.

Theorem C17_offset_in_range :
  forall (e : bytes) o, compile e = Err (ESyntax o) -> 0 <= o <= elen e.
Proof. exact compile_offset_in_range. Qed.

(* the caret rendering is the expression, a newline, Offset spaces and "^";
   strings.Repeat is never called with a negative count *)
Theorem C17_highlight :
  forall (e : bytes) o, compile e = Err (ESyntax o) ->
    highlight_location e o = Ok (e ++ [10%N] ++ repeat 32%N (Z.to_nat o) ++ [94%N]).
Proof. exact highlight_of_compile_error. Qed.

(* MustCompile panics exactly when Compile fails, and otherwise returns what Compile returns *)
Theorem C17_must_compile :
  forall e : bytes,
    (must_compile e = Panic <-> exists er, compile e = Err er) /\
    (forall n, compile e = Ok n -> must_compile e = Ok n).
Proof. exact must_compile_panics_iff. Qed.

(* a usable location for lexical errors: the error is reported where the reading of the
   text stops.  The text before the remainder r reads as tokens (LexTo: the lexical
   grammar of Proofs/LexExact.v), r is not empty, and the error tells why r cannot be
   read on (stuck): its first character begins no token — the offset is that of the
   character's last byte; or it opens a quoted identifier, raw string or literal that is
   never closed — the offset is the end of the input; or it is a quoted identifier whose
   body is not a JSON string — reported as a non-syntax error *)
Theorem C17_lexical_error_is_reported_where_reading_stops :
  forall e er, tokenize e = Err er ->
    exists l r, LexTo e l r /\ r <> [] /\ stuck (zlen e - zlen r) r er.
Proof. exact lex_error_located. Qed.

Theorem C17_lexical_error_offset :
  forall e o, tokenize e = Err (ESyntax o) ->
    exists pre r, e = pre ++ r /\ r <> [] /\
      ((exists k, o = zlen pre + k - 1 /\ 1 <= k <= zlen r /\ snd (fst (stepS r)) = k) \/ o = zlen e).
Proof. exact lex_error_offset. Qed.

(* every token the lexer returns is recorded at the offset where its text begins in the
   expression (raw strings and literals: just after the opening apostrophe or backtick;
   the end-of-input token at the end) *)
Theorem C17_tokens_stand_where_their_text_begins :
  forall e ts, tokenize e = Ok ts ->
    exists out, ts = out ++ [Token tEOF [] (zlen e) 0] /\ Forall (placed e) out.
Proof. exact tokens_placed. Qed.

(* ... hence for the parser's errors: the offset of a syntax error is either a lexical one
   (above), or the end of the text, or the offset at which a token's text begins in the
   expression (tok_pos: just after the opening quote for raw strings and literals) *)
Theorem C17_syntax_error_is_lexical_or_points_at_a_token :
  forall (e : bytes) o, Api.compile e = Err (ESyntax o) ->
    tokenize e = Err (ESyntax o) \/ o = zlen e \/
    exists pre text rest ty v, e = pre ++ text ++ rest /\ tok_text ty v text /\ o = tok_pos ty (zlen pre).
Proof. exact compile_error_located. Qed.

End C17.

Print Assumptions C17_compile_result.
Print Assumptions C17_exactly_one.
Print Assumptions C17_offset_in_range.
Print Assumptions C17_highlight.
Print Assumptions C17_must_compile.
Print Assumptions C17_lexical_error_is_reported_where_reading_stops.
Print Assumptions C17_lexical_error_offset.
Print Assumptions C17_syntax_error_is_lexical_or_points_at_a_token.
Print Assumptions C17_tokens_stand_where_their_text_begins.

(* "a[" : the error is at the end of the expression; "a\x80": at the unknown character *)
Example C17_example :
  (match @compile FloatNum (str "a[") with Err (ESyntax o) => o =? 2 | _ => false end &&
   match @compile FloatNum [97%N; 128%N] with Err (ESyntax o) => o =? 1 | _ => false end &&
   match @compile FloatNum (str "a.b") with Ok _ => true | _ => false end)%bool = true.
Proof. vm_compute. reflexivity. Qed.

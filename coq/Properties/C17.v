(* C17 — Compile failures are reported consistently and with a usable location.
   Statements only; proofs in Proofs/{LexerTotal,ParserTotal,CompileTotal,ApiFacts}.v. *)
From Coq Require Import Floats.
From JM Require Import Model.Base Model.Num Model.Value Model.Lexer Model.Parser Model.Api
     Proofs.CompileTotal Proofs.ApiFacts Inst.FloatNum Run.Checker.

Section C17.
Context {NumO : NumOps}.

(* for every byte string — grammatical, ungrammatical, unlexable, not UTF-8 —
   Compile returns a compiled expression or an error: exactly one of the two
   (in the model: never a panic and never out of fuel), and a syntax error's
   offset lies inside the expression *)
Theorem C17_compile_result :
  forall e : bytes,
    match compile e with
    | Ok _ => True
    | Err (ESyntax o) => 0 <= o <= elen e
    | Err _ => True
    | Panic => False
    | OutOfFuel => False
    end.
Proof. exact compile_total. Qed.

Theorem C17_exactly_one :
  forall e : bytes, (exists n, compile e = Ok n) \/ (exists er, compile e = Err er).
Proof. exact compile_exactly_one. Qed.

Theorem C17_offset_in_range :
  forall (e : bytes) o, compile e = Err (ESyntax o) -> 0 <= o <= elen e.
Proof. exact compile_offset_in_range. Qed.

(* the caret rendering is the expression, a newline, Offset spaces and "^";
   strings.Repeat is never called with a negative count *)
Theorem C17_highlight :
  forall (e : bytes) o, compile e = Err (ESyntax o) ->
    highlight_location e o = Ok (e ++ [10%N] ++ repeat 32%N (Z.to_nat o) ++ [94%N]).
Proof. exact highlight_of_compile_error. Qed.

(* MustCompile panics exactly when Compile fails, and otherwise returns what Compile returns *)
Theorem C17_must_compile :
  forall e : bytes,
    (must_compile e = Panic <-> exists er, compile e = Err er) /\
    (forall n, compile e = Ok n -> must_compile e = Ok n).
Proof. exact must_compile_panics_iff. Qed.

End C17.

Print Assumptions C17_compile_result.
Print Assumptions C17_exactly_one.
Print Assumptions C17_offset_in_range.
Print Assumptions C17_highlight.
Print Assumptions C17_must_compile.

(* "a[" : the error is at the end of the expression; "a\x80": at the unknown character *)
Example C17_example :
  (match @compile FloatNum (str "a[") with Err (ESyntax o) => o =? 2 | _ => false end &&
   match @compile FloatNum [97%N; 128%N] with Err (ESyntax o) => o =? 1 | _ => false end &&
   match @compile FloatNum (str "a.b") with Ok _ => true | _ => false end)%bool = true.
Proof. vm_compute. reflexivity. Qed.

(* C13 — Compiled expressions and parsers are history-independent; one-shot =
   compiled.  Statements only; proofs in Proofs/Frame.v.  The stateful model
   (Model/State.v) mirrors the field assignments of Parser.Parse and
   JMESPath.Search; that no other write to shared storage exists is the
   regenerated write-site theorem. *)
From Coq Require Import Floats.
From JM Require Import Model.Base Model.Num Model.Value Model.Lexer Model.Parser Model.Interp Model.Api Model.State
     Proofs.Frame Inst.FloatNum Run.Checker.
From Coq Require Import String.
From JM Require Import gen.Writes gen.State Proofs.StateOk.
Import ListNotations.

Section C13.
Context {NumO : NumOps}.
Variable ord : obj -> obj.

(* any sequence of Search calls on one compiled expression — other documents,
   failing searches, repetitions: the k-th result is what a fresh call returns,
   and the object is unchanged *)
Theorem C13_search_history :
  forall (jp : jmespath) ds,
    run_searches ord jp ds = (jp, map (fun d => search_compiled ord (jp_ast jp) d) ds).
Proof. exact (run_searches_spec ord). Qed.

(* the one-shot function is Compile followed by Search *)
Theorem C13_oneshot_is_compiled :
  forall (e : bytes) d, search ord e d = (n <- compile e ;; search_compiled ord n d).
Proof. exact (oneshot_is_compiled ord). Qed.

(* a Parser reused for many expressions, failed ones included, answers each like a fresh Parser *)
Theorem C13_parser_reuse :
  forall (p : parser_state) es, snd (run_parses p es) = map parse es.
Proof. exact run_parses_spec. Qed.

Theorem C13_parse_ignores_previous_state :
  forall (p : parser_state) e, snd (Parse_st p e) = snd (Parse_st new_parser e).
Proof. exact parse_ignores_state. Qed.

End C13.

Theorem C13_no_write_to_shared_storage :
  forall w : write_site, In w write_sites -> ws_prov w = PFresh.
Proof. exact write_site_fresh. Qed.

(* ---- the state inventory, regenerated from the source on every run (gen/State.v) ----
   the objects that live across calls have exactly the fields the history model accounts
   for (Model/State.v): Parser{expression, tokens, index}, JMESPath{ast, intr}; the
   interpreter and the function table hold no per-call data; the only package-level
   variables are the constant tables — no pool, cache or counter; and Parse assigns every
   field of its Parser.  A new field, a package-level variable or a field that Parse does not
   assign breaks these obligations (and the check then searches for the failing history). *)
Theorem C13_objects_have_the_modelled_fields :
  forall n known, In (n, known) modelled_objects -> fields_known n known = true.
Proof. exact state_objects. Qed.

Theorem C13_no_package_level_state : forall v, In v package_vars -> In v constant_tables.
Proof. exact state_package_vars. Qed.

Theorem C13_parse_assigns_every_field_of_the_parser :
  forall fs, fields_of "Parser" struct_fields = Some fs -> forall f, In f fs -> In f parse_assigns.
Proof. exact parse_assigns_every_field. Qed.

Print Assumptions C13_search_history.
Print Assumptions C13_oneshot_is_compiled.
Print Assumptions C13_parser_reuse.
Print Assumptions C13_parse_ignores_previous_state.
Print Assumptions C13_no_write_to_shared_storage.
Print Assumptions C13_objects_have_the_modelled_fields.
Print Assumptions C13_no_package_level_state.
Print Assumptions C13_parse_assigns_every_field_of_the_parser.

(* a parser that just failed on "a[" parses "a.b" like a fresh one *)
Example C13_example :
  match snd (@run_parses FloatNum new_parser [str "a["; str "a.b"; str "`"; str "a.b"]) with
  | [Err _; Ok n1; Err _; Ok n2] => node_eqb num_same n1 n2
  | _ => false
  end = true.
Proof. vm_compute. reflexivity. Qed.

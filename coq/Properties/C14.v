(* C14 — Identifiers, raw strings and JSON literals denote exactly the written
   name/value.  Statements only; proofs in Proofs/LexView.v (the lexer of
   Model/Lexer.v read as a function of the remaining input), LexSpell.v,
   JsonString.v, Utf8Facts.v, TablesOk.v. *)
From Coq Require Import Floats Permutation.
From JM Require Import Model.Base Model.Num Model.Utf8 Model.Value Model.JsonText Model.Lexer Model.Parser Model.Interp Model.Api
     Spec.Grammar Proofs.ValueFacts Proofs.TablesOk Proofs.Utf8Facts Proofs.JsonString Proofs.LexView Proofs.LexSpell Proofs.LexText Proofs.LexAdj Proofs.ParserSound Proofs.LexExact Proofs.JsonRound
     Inst.FloatNum Run.Checker.
From JM Require Import gen.Tables.

Section C14.
Context {NumO : NumOps}.
Variable ord : obj -> obj.

(* ---- unquoted identifiers are exactly [A-Za-z_][A-Za-z0-9_]* ---- *)
Theorem C14_unquoted_lexes :
  forall name, valid_unquoted name = true ->
  tokenize name = Ok [Token tUnquotedIdentifier name 0 (zlen name); Token tEOF [] (zlen name) 0].
Proof. exact tok_unquoted. Qed.

Theorem C14_unquoted_only :
  forall s n t2, tokenize s = Ok [Token tUnquotedIdentifier s 0 n; t2] -> valid_unquoted s = true.
Proof. exact tok_unquoted_only. Qed.

Theorem C14_unquoted_selects :
  forall name m, valid_unquoted name = true ->
  search ord name (VObj m) = Ok (match obj_get name m with Some v => v | None => VNull end).
Proof. exact (unquoted_identifier_selects ord). Qed.

(* the character classes come from the bit masks of lexer.go, regenerated on every run *)
Theorem C14_identifier_start_class :
  forall r, -1 <= r <= 1114111 -> ident_start r = is_alpha_Z r.
Proof. exact ident_start_ok. Qed.
Theorem C14_identifier_continue_class :
  forall r, -1 <= r <= 1114111 -> ident_trailing_stop r = Ok (negb (is_alnum_Z r)).
Proof. exact ident_trailing_ok. Qed.
Theorem C14_whitespace_set :
  forall r, is_white r = ((r =? 32) || (r =? 9) || (r =? 10) || (r =? 13)).
Proof. exact white_space_ok. Qed.

(* ---- quoted identifiers ---- *)
(* for every Unicode string s (sequence of scalar values rs, s its UTF-8
   encoding) the quoted identifier spelled as json.Marshal spells s is one
   token holding exactly s, and selects exactly the member s *)
Theorem C14_quoted_lexes :
  forall rs, forallb valid_rune rs = true ->
  tokenize (marshal_string (string_of_runes rs)) =
  Ok [Token tQuotedIdentifier (string_of_runes rs) 0 (zlen (string_of_runes rs));
      Token tEOF [] (zlen (json_escape rs) + 2) 0].
Proof. exact tok_quoted. Qed.

Theorem C14_quoted_selects :
  forall rs m, forallb valid_rune rs = true ->
  search ord (marshal_string (string_of_runes rs)) (VObj m) =
  Ok (match obj_get (string_of_runes rs) m with Some v => v | None => VNull end).
Proof. exact (quoted_identifier_go_spelling ord). Qed.

(* any other JSON spelling: a body in which every quote and backslash is escaped
   is read whole, and the name is its JSON decoding *)
Theorem C14_quoted_any_spelling :
  forall body s m, clean 34 body = true -> json_unquote body = Some s ->
  search ord (34%N :: body ++ [34%N]) (VObj m) = Ok (match obj_get s m with Some v => v | None => VNull end).
Proof. exact (quoted_identifier_selects ord). Qed.

(* ---- raw strings: for EVERY byte string without a backslash directly before a
   quote or at the end ---- *)
Theorem C14_raw_lexes :
  forall x, raw_ok x = true ->
  tokenize (39%N :: raw_escape x ++ [39%N]) =
  Ok [Token tStringLiteral x 1 (zlen x); Token tEOF [] (zlen (39%N :: raw_escape x ++ [39%N])) 0].
Proof. exact tok_raw. Qed.

Theorem C14_raw_denotes :
  forall x d, raw_ok x = true -> search ord (39%N :: raw_escape x ++ [39%N]) d = Ok (VStr x).
Proof. exact (raw_string_denotes ord). Qed.

(* ---- JSON literals ---- *)
(* a JSON text t (backslashes only as the first byte of an escape: paired) written
   between backticks with ` as \` is one literal token holding t, and the
   expression denotes what json.Unmarshal gives for t *)
Theorem C14_literal_lexes :
  forall t, paired t = true ->
  tokenize (96%N :: lit_escape t ++ [96%N]) =
  Ok [Token tJSONLiteral t 1 (zlen t); Token tEOF [] (zlen (lit_escape t) + 2) 0].
Proof. exact tok_literal. Qed.

Theorem C14_literal_denotes :
  forall t d, paired t = true ->
  search ord (96%N :: lit_escape t ++ [96%N]) d =
  match json_unmarshal t with Some v => Ok v | None => Err ECompileOther end.
Proof. exact (json_literal_denotes ord). Qed.

(* for every JSON value v (strings valid UTF-8, any depth up to the decoder's
   limit), the backtick literal spelled as json.Marshal's text of v denotes exactly
   v.  NumText: the number law (Proofs/JsonRound.v), a hypothesis on the number
   type; paired: the text has no backslash before a backtick or at its end, which
   holds of what json.Marshal writes and is decidable for a given text *)
Theorem C14_literal_of_value :
  NumText -> forall v t d, json_marshal v = Some t -> jok v -> vdepth v <= max_nesting_depth -> paired t = true ->
    search ord (96%N :: lit_escape t ++ [96%N]) d = Ok v.
Proof. exact (fun NT => literal_of_value NT ord). Qed.

Theorem C14_backtick_unescape : forall t, replace2 92 96 96 (lit_escape t) = t.
Proof. exact lit_unescape. Qed.

(* ---- in context: a whole token list ---- *)
(* any list of tokens, each spelled the way the properties above say (identifier
   as its name, quoted identifier as the JSON string of its name, raw string
   and literal in quotes with the delimiter escaped, number as digits, operator
   as its text) and followed by a space, is read back by the lexer as exactly
   those tokens, types and values, then EOF *)
Theorem C14_token_list_lexes :
  forall l, Forall (fun t => lexable t = true) l ->
    exists out, tokenize (text_of l) = Ok (out ++ [Token tEOF [] (zlen (text_of l)) 0]) /\ Forall2 same_tv out l.
Proof. exact tokenize_text. Qed.

(* whitespace between tokens is insignificant: whatever non-empty runs of space,
   tab, line feed and carriage return follow the tokens, the lexer reads the same
   token types and values *)
Theorem C14_whitespace_is_insignificant :
  forall l1 l2, ws_text_ok l1 -> ws_text_ok l2 -> map fst l1 = map fst l2 ->
    exists o1 o2 e1 e2, tokenize (text_ws l1) = Ok (o1 ++ [e1]) /\ tokenize (text_ws l2) = Ok (o2 ++ [e2]) /\
      ttype e1 = tEOF /\ ttype e2 = tEOF /\
      Forall2 (fun a b => ttype a = ttype b /\ tvalue a = tvalue b) o1 o2.
Proof. exact whitespace_insignificant_tokens. Qed.

(* tokens written with nothing between them: after optional leading whitespace, each
   token may be followed by any run of whitespace, including none, provided that what
   follows it cannot extend it (follow_ok: a letter, digit or underscore after a name,
   a digit after a number, '?' or ']' after '[', the second character of '||' '&&' '!='
   '<=' '>=' after the first); the lexer reads exactly those tokens, then EOF — so
   a name denotes exactly the written name whatever it is adjacent to *)
Theorem C14_adjacent_tokens_lex :
  forall lead l, Forall wsc lead -> adj_ok l ->
    exists out, tokenize (lead ++ text_ws l) = Ok (out ++ [Token tEOF [] (zlen (lead ++ text_ws l)) 0]) /\ Forall2 same_tv out (map fst l).
Proof. exact tokenize_text_adj. Qed.

Theorem C14_compact_layout_is_well_separated :
  forall l, Forall (fun t => lexable t = true) l -> adj_ok (compact l) /\ map fst (compact l) = l.
Proof. exact (fun l H => conj (compact_adj l H) (map_fst_compact l)). Qed.

(* ---- the lexer against the lexical grammar, for every byte string ----
   Lex s l (Proofs/LexExact.v): s is whitespace and token texts, each token followed
   by something that cannot extend it, and l lists their types and values.  A token
   text (tok_text) is: an operator's text; a name [A-Za-z_][A-Za-z0-9_]* standing for
   itself; a minus sign or digit followed by digits; "body" with every quote and
   backslash of the body escaped, standing for the JSON decoding of the body; 'body'
   with no bare quote, standing for the body with \' read as '; `body` with no bare
   backtick, standing for the body with \` read as `.
   The lexer returns l exactly when Lex s l; the reading is unique; a text without a
   reading is refused. *)
Theorem C14_lexer_is_exactly_the_lexical_grammar :
  forall e l, Lex e l <-> exists out, tokenize e = Ok (out ++ [Token tEOF [] (zlen e) 0]) /\ map tv out = l.
Proof. exact lex_exact. Qed.

Theorem C14_text_without_a_reading_is_refused :
  forall e, (forall l, ~ Lex e l) <-> exists err, tokenize e = Err err.
Proof. exact lex_refuses. Qed.

Theorem C14_reading_is_unique : forall e l1 l2, Lex e l1 -> Lex e l2 -> l1 = l2.
Proof. exact lex_deterministic. Qed.

(* ---- the machinery behind: cursor lexer = lexer over the remaining input;
   UTF-8 and JSON string escaping round trips ---- *)
Theorem C14_lexer_view : forall e, tokenize e = tokenizeS e.
Proof. exact tokenize_view. Qed.

Theorem C14_utf8_round_trip : forall rs, forallb valid_rune rs = true -> runes_of (string_of_runes rs) = rs.
Proof. exact runes_of_string. Qed.

Theorem C14_json_string_round_trip :
  forall rs, forallb valid_rune rs = true -> json_unquote (json_escape rs) = Some (string_of_runes rs).
Proof. exact unquote_escape. Qed.

End C14.

Print Assumptions C14_unquoted_lexes.
Print Assumptions C14_unquoted_only.
Print Assumptions C14_unquoted_selects.
Print Assumptions C14_identifier_start_class.
Print Assumptions C14_identifier_continue_class.
Print Assumptions C14_whitespace_set.
Print Assumptions C14_quoted_lexes.
Print Assumptions C14_quoted_selects.
Print Assumptions C14_quoted_any_spelling.
Print Assumptions C14_raw_lexes.
Print Assumptions C14_raw_denotes.
Print Assumptions C14_literal_lexes.
Print Assumptions C14_literal_denotes.
Print Assumptions C14_literal_of_value.
Print Assumptions C14_backtick_unescape.
Print Assumptions C14_token_list_lexes.
Print Assumptions C14_whitespace_is_insignificant.
Print Assumptions C14_adjacent_tokens_lex.
Print Assumptions C14_compact_layout_is_well_separated.
Print Assumptions C14_lexer_is_exactly_the_lexical_grammar.
Print Assumptions C14_text_without_a_reading_is_refused.
Print Assumptions C14_reading_is_unique.
Print Assumptions C14_lexer_view.
Print Assumptions C14_utf8_round_trip.
Print Assumptions C14_json_string_round_trip.

(* a string with a quote, a backslash, a non-ASCII letter, U+2028 and an angle
   bracket as a quoted identifier; a raw string with an escaped quote and a
   lone backslash; a literal containing a backtick *)
Definition rs1 : list Z := [97; 34; 92; 32; 233; 8232; 60].
Example C14_example :
  (forallb valid_rune rs1 &&
   match tokenize (marshal_string (string_of_runes rs1)) with
   | Ok [t; _] => tok_eqb (ttype t) tQuotedIdentifier && bytes_eqb (tvalue t) (string_of_runes rs1)
   | _ => false end &&
   match tokenize (39%N :: raw_escape (str "it's \ ok") ++ [39%N]) with
   | Ok [t; _] => bytes_eqb (tvalue t) (str "it's \ ok")
   | _ => false end &&
   match tokenize (96%N :: lit_escape (str """a`b""") ++ [96%N]) with
   | Ok [t; _] => bytes_eqb (tvalue t) (str """a`b""")
   | _ => false end &&
   raw_ok (str "it's \ ok") && paired (str """a`b""") && negb (raw_ok (str "a\")))%bool = true.
Proof. vm_compute. reflexivity. Qed.

(* the lexical grammar is not empty talk: a text with every kind of token, some of
   them touching, an escaped quote in a raw string, a non-canonical escape in a quoted
   name, and its reading *)
Example C14_lex_example :
  Lex (str " a.""b\u0063""[?x<=`1`]|'it\'s'!=-12")
      [(tUnquotedIdentifier, str "a"); (tDot, str "."); (tQuotedIdentifier, str "bc"); (tFilter, str "[?");
       (tUnquotedIdentifier, str "x"); (tLTE, str "<="); (tJSONLiteral, str "1"); (tRbracket, str "]"); (tPipe, str "|");
       (tStringLiteral, str "it's"); (tNE, str "!="); (tNumber, str "-12")].
Proof.
  apply lex_exact. exists (match tokenize (str " a.""b\u0063""[?x<=`1`]|'it\'s'!=-12") with Ok ts => removelast ts | _ => [] end).
  split; vm_compute; reflexivity.
Qed.

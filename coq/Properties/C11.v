(* C11 — Evaluation errors propagate; never swallowed into null or a partial
   result.  Statements only; proofs in Proofs/Contexts.v and Proofs/InterpRefine.v. *)
From Coq Require Import Floats Permutation.
From JM Require Import Model.Base Model.Num Model.Value Model.Interp Model.Api
     Spec.Grammar Spec.Semantics Proofs.ValueFacts Proofs.InterpRefine Proofs.Contexts Proofs.CtxFacts
     Inst.FloatNum Run.Checker.

Section C11.
Context {NumO : NumOps}.
Variable ord : obj -> obj.
Hypothesis ord_perm : forall m, Permutation (ord m) m.

(* Strict contexts, nested to any depth: operands of every operator (the right
   operand of || / && only when the left one does not decide), both sides of "."
   and "|", the left-hand side of every bracket form and projection, the
   right-hand side and the filter condition of a projection over at least one
   element, every multi-select member, every function argument (by value, and by
   expression reference for map).  sreached c d v: the hole of c is evaluated
   with current node v when the whole is evaluated on d (everything evaluated
   before it succeeds).  If the expression in the hole fails there, the whole
   fails. *)
Theorem C11_errors_propagate :
  forall (c : sctx) (e : expr) d v er,
    sreached ord c d v -> eval ord e v = Err er -> exists er', eval ord (splug c e) d = Err er'.
Proof. exact (sctx_strict ord). Qed.

(* the same, for the interpreter run on the AST of the plugged expression *)
Theorem C11_interpreter_propagates :
  forall (c : sctx) (e : expr) d v er fuel,
    sem_ok (splug c e) = true -> plain d = true -> (node_depth (compile (splug c e)) <= fuel)%nat ->
    sreached ord c d v -> eval ord e v = Err er ->
    exists er', Execute ord fuel (compile (splug c e)) d = Err er'.
Proof. exact (interpreter_propagates ord ord_perm). Qed.

(* a projection whose left-hand side fails, fails (flatten, filter and object
   wildcard used to return null here) *)
Theorem C11_projection_lhs :
  forall (l : expr) d er (r : rhs) cond,
    eval ord l d = Err er ->
    eval ord (EFlatten (Some l) r) d = Err er /\ eval ord (EFilter (Some l) cond r) d = Err er /\
    eval ord (EValProj (Some l) r) d = Err er /\ eval ord (EListProj (Some l) r) d = Err er.
Proof. exact (projection_lhs_error ord). Qed.

(* what may legitimately hide an erroring sub-expression: an operand that is not evaluated *)
Theorem C11_unevaluated_operand_is_not_looked_at :
  forall (l r r' : expr) d x, eval ord l d = Ok x ->
    (truthy x = true -> eval ord (EOr l r) d = eval ord (EOr l r') d) /\
    (truthy x = false -> eval ord (EAnd l r) d = eval ord (EAnd l r') d).
Proof. exact (unevaluated_operand ord). Qed.

Theorem C11_empty_projection_does_not_evaluate_its_rhs :
  forall (l : expr) d (r r' : rhs), eval ord l d = Ok (VArr []) ->
    eval ord (EListProj (Some l) r) d = Ok (VArr []) /\ eval ord (EListProj (Some l) r') d = Ok (VArr []).
Proof. exact (empty_projection ord). Qed.

End C11.

Print Assumptions C11_errors_propagate.
Print Assumptions C11_interpreter_propagates.
Print Assumptions C11_projection_lhs.
Print Assumptions C11_unevaluated_operand_is_not_looked_at.
Print Assumptions C11_empty_projection_does_not_evaluate_its_rhs.

(* abs('a')[] , [abs('a')] , a[*].abs(@) on {"a":["x"]} fail; `[]`[*].abs('a') does not *)
Definition bad : @expr FloatNum := ECall (str "abs") [AExpr (ERaw (str "a"))].
Definition doc1 : @value FloatNum := VObj [(str "a", VArr [VStr (str "x")])].
Example C11_example :
  (same_outcome (search_compiled (fun m => m) (compile (EFlatten (Some bad) RNone)) doc1) (Err EEval) &&
   same_outcome (search_compiled (fun m => m) (compile (EMSList [bad])) doc1) (Err EEval) &&
   same_outcome (search_compiled (fun m => m)
        (compile (EListProj (Some (EIdent false (str "a"))) (RDot (ECall (str "abs") [AExpr ECurrent])))) doc1) (Err EEval) &&
   same_outcome (search_compiled (fun m => m) (compile (EListProj (Some (ELit (VArr []))) (RDot bad))) doc1) (Ok (VArr [])))%bool = true.
Proof. vm_compute. reflexivity. Qed.

(* C02 — Projections apply element-wise, drop nulls, keep order and stop where
   specified.  Statements only. *)
From Coq Require Import Floats Permutation.
From JM Require Import Model.Base Model.Num Model.Value Model.Interp Model.Api
     Spec.Grammar Spec.PySlice Spec.Semantics Proofs.ValueFacts Proofs.InterpRefine Proofs.SpecFacts
     Proofs.ProjFacts Inst.FloatNum Run.Checker.

Section C02.
Context {NumO : NumOps}.
Variable ord : obj -> obj.
Hypothesis ord_perm : forall m, Permutation (ord m) m.

(* the interpreter computes eval on every expression, projections included, for
   every iteration order of objects *)
Theorem C02_conformance :
  forall e v fuel,
    sem_ok e = true -> plain v = true -> (node_depth (compile e) <= fuel)%nat ->
    Execute ord fuel (compile e) v = eval ord e v.
Proof. exact (execute_is_eval ord ord_perm). Qed.

(* what the specification assigns to the five projection forms; rhs_eval r x is
   the right-hand side applied to one element (x itself when it is empty) *)
Theorem C02_list_projection :
  forall l r v,
    eval ord (EListProj l r) v =
    (x <- lhs_eval ord l v ;;
     match x with
     | VArr xs => ys <- mapM (rhs_eval ord r) xs ;; Ok (VArr (drop_nulls ys))   (* in order, nulls dropped *)
     | _ => Ok VNull                                                             (* not an array *)
     end).
Proof. reflexivity. Qed.

Theorem C02_flatten :
  forall l r v,
    eval ord (EFlatten l r) v =
    (x <- lhs_eval ord l v ;;
     match x with
     | VArr xs => ys <- mapM (rhs_eval ord r) (flatten1 xs) ;; Ok (VArr (drop_nulls ys))
     | _ => Ok VNull
     end).
Proof. reflexivity. Qed.

(* exactly one level *)
Theorem C02_flatten_one_level :
  forall xs : list value,
    flatten1 xs = concat (map (fun x => match x with VArr inner => inner | _ => [x] end) xs).
Proof. exact flatten1_concat. Qed.

Theorem C02_filter :
  forall l c r v,
    eval ord (EFilter l c r) v =
    (x <- lhs_eval ord l v ;;
     match x with
     | VArr xs =>
       ys <- mapM (fun el => t <- eval ord c el ;; if truthy t then rhs_eval ord r el else Ok VNull) xs ;;
       Ok (VArr (drop_nulls ys))
     | _ => Ok VNull
     end).
Proof. reflexivity. Qed.

Theorem C02_slice_projection :
  forall l a b c r v,
    eval ord (ESlice l a b c r) v =
    (x <- lhs_eval ord l v ;;
     match x with
     | VArr xs =>
       if two63 <=? zlen xs then OutOfFuel else
       match py_slice xs a b (cjoin c) with
       | Some ys => ys0 <- mapM (rhs_eval ord r) ys ;; Ok (VArr (drop_nulls ys0))
       | None => Err EEval
       end
     | _ => Ok VNull
     end).
Proof. reflexivity. Qed.

Theorem C02_value_projection :
  forall l r v,
    eval ord (EValProj l r) v =
    (x <- lhs_eval ord l v ;;
     match x with
     | VObj m => ys <- mapM (rhs_eval ord r) (map snd (ord m)) ;; Ok (VArr (drop_nulls ys))
     | _ => Ok VNull
     end).
Proof. reflexivity. Qed.

(* the object wildcard's content does not depend on the iteration order: one entry
   per member with a non-null image, nothing else *)
Theorem C02_value_projection_content :
  forall (g : value -> outcome value) (m : obj) ys zs,
    mapM g (map snd (ord m)) = Ok ys -> mapM g (map snd m) = Ok zs ->
    Permutation (drop_nulls ys) (drop_nulls zs).
Proof. exact (value_projection_content ord ord_perm). Qed.

(* a result of a projection never contains a null *)
Theorem C02_no_nulls :
  forall ys : list value, Forall (fun y => y <> VNull) (drop_nulls ys).
Proof. exact drop_nulls_no_null. Qed.

End C02.

Print Assumptions C02_conformance.
Print Assumptions C02_list_projection.
Print Assumptions C02_flatten.
Print Assumptions C02_flatten_one_level.
Print Assumptions C02_filter.
Print Assumptions C02_slice_projection.
Print Assumptions C02_value_projection.
Print Assumptions C02_value_projection_content.
Print Assumptions C02_no_nulls.

Definition ex_doc : @value FloatNum :=
  VObj [(str "a", VArr [VObj [(str "b", VNum 1%float)]; VObj [(str "c", VNum 2%float)];
                        VObj [(str "b", VArr [VNum 3%float])]])].
(* a[*].b  and  a[].b[]  *)
Example C02_example :
  (same_outcome (search_compiled (fun m => m)
                   (compile (EListProj (Some (EIdent false (str "a"))) (RDot (EIdent false (str "b"))))) ex_doc)
                (Ok (VArr [VNum 1%float; VArr [VNum 3%float]])) &&
   same_outcome (search_compiled (fun m => m)
                   (compile (EFlatten (Some (EFlatten (Some (EIdent false (str "a"))) (RDot (EIdent false (str "b"))))) RNone)) ex_doc)
                (Ok (VArr [VNum 1%float; VNum 3%float])))%bool = true.
Proof. vm_compute. reflexivity. Qed.

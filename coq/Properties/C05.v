(* C05 — Compile and Search never panic and always return, for any bytes and JSON
   data.  Statements only; proofs in Proofs/{LexerTotal,ParserTotal,CompileTotal,
   ParserShape,InterpRefine,SpecFacts,SearchTotal}.v.
   The model keeps every unchecked Go operation unchecked (token cursor, bit-mask
   index, type assertions, slice indexing with 64-bit wrap-around): these
   theorems are the correctness of the guards around them.
   PARTIAL, by nature: real time, memory and goroutine-stack use are not
   expressible in the model; the fuel bounds below (linear in the number of
   tokens, AST depth) are the model-level statement, the harness measures the
   rest on long inputs. *)
From Coq Require Import Floats Permutation.
From JM Require Import Model.Base Model.Num Model.Value Model.Lexer Model.Parser Model.Interp Model.Api
     Spec.Grammar Spec.Semantics Proofs.ValueFacts Proofs.InterpRefine Proofs.SpecFacts
     Proofs.LexerTotal Proofs.ParserTotal Proofs.CompileTotal Proofs.ParserShape Proofs.SearchTotal
     Proofs.LogicFacts Proofs.ApiFacts Inst.FloatNum Run.Checker.

Section C05.
Context {NumO : NumOps}.
Variable ord : obj -> obj.
Hypothesis ord_perm : forall m, Permutation (ord m) m.

(* the lexer, on any list of bytes (valid UTF-8 or not): tokens ending in the only
   tEOF with positions inside the expression, or an error; never a panic; the
   fuel length+2 suffices *)
Theorem C05_tokenize_total :
  forall e : bytes,
    match tokenize e with
    | Ok ts => (exists acc, ts = rev (Token tEOF [] (elen e) 0 :: acc) /\
                            Forall (fun t => 0 <= tpos t <= elen e /\ ttype t <> tEOF) acc)
    | Err (ESyntax o) => 0 <= o <= elen e
    | Err _ => True
    | Panic => False
    | OutOfFuel => False
    end.
Proof. exact tokenize_total. Qed.

(* Compile on any bytes: returns; the parser's cursor never leaves the token list
   and fuel 2*tokens+2 suffices *)
Theorem C05_compile_total :
  forall e : bytes,
    match Api.compile e with
    | Ok _ | Err _ => True
    | Panic | OutOfFuel => False
    end.
Proof. exact compile_returns. Qed.

(* whatever compiles is the AST of an expression tree: no malformed node reaches
   the interpreter, and searching it is eval of that tree *)
Theorem C05_compiled_is_well_formed :
  forall (e : bytes) n, Api.compile e = Ok n ->
    exists x, n = Grammar.compile x /\ sem_ok x = true /\
              forall d, plain d = true -> search_compiled ord n d = eval ord x d.
Proof. exact (compiled_is_tree ord ord_perm). Qed.

(* Search on any bytes and any data without expression references: a value or an
   error; never a panic; out of the model's scope only when an array of 2^63 or
   more elements is indexed or sliced *)
Theorem C05_search_total :
  forall (e : bytes) d, plain d = true ->
    match search ord e d with
    | Ok r => plain r = true
    | Err _ => True
    | Panic => False
    | OutOfFuel => exists x, Api.compile e = Ok (Grammar.compile x) /\ eval ord x d = OutOfFuel
    end.
Proof. exact (search_total ord ord_perm). Qed.

Theorem C05_interpreter_never_panics :
  forall e v fuel, sem_ok e = true -> plain v = true -> (node_depth (Grammar.compile e) <= fuel)%nat ->
    Execute ord fuel (Grammar.compile e) v <> Panic.
Proof. exact (execute_never_panics ord ord_perm). Qed.

End C05.

Print Assumptions C05_tokenize_total.
Print Assumptions C05_compile_total.
Print Assumptions C05_compiled_is_well_formed.
Print Assumptions C05_search_total.
Print Assumptions C05_interpreter_never_panics.

(* inputs that used to panic or crash: a\x80, @(x), merge('a'), the self-applying map *)
Example C05_example :
  (match @search FloatNum (fun m => m) [97%N; 128%N] VNull with Err _ => true | _ => false end &&
   match @search FloatNum (fun m => m) (str "@(x)") VNull with Err _ => true | _ => false end &&
   match @search FloatNum (fun m => m) (str "merge('a')") VNull with Err _ => true | _ => false end &&
   match @search FloatNum (fun m => m) (str "map(&map(@, [@]), [&map(@, [@])])") VNull with Err _ => true | _ => false end &&
   match @search FloatNum (fun m => m) (str "[1::9223372036854775807]")
               (VArr [VNum 1%float; VNum 2%float]) with Ok _ => true | _ => false end)%bool = true.
Proof. vm_compute. reflexivity. Qed.

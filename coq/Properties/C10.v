(* C10 — Ill-typed, wrong-arity and unknown function calls are errors, never
   panics.  Statements only; proofs in Proofs/FunFacts.v, LogicFacts.v, SpecFacts.v. *)
From Coq Require Import Floats Permutation.
From JM Require Import Model.Base Model.Num Model.Value Model.Functions Model.Interp Model.Api
     Spec.Grammar Spec.Semantics Proofs.ValueFacts Proofs.FunFacts Proofs.InterpRefine
     Proofs.SpecFacts Proofs.LogicFacts Inst.FloatNum Run.Checker.
From JM Require Import gen.Tables.

Section C10.
Context {NumO : NumOps}.
Variable ord : obj -> obj.
Hypothesis ord_perm : forall m, Permutation (ord m) m.

(* The dispatcher of functions.go — table lookup (the table is regenerated from
   the source), resolveArgs/typeCheck and the 26 handlers with their unchecked
   type assertions — agrees with the specification's call on every function
   name and every argument list: runtime values (mv = sv) and expression
   references (mv an expRef whose AST the interpreter executes as the
   specification evaluates it).  In particular it never panics where the
   specification has an answer. *)
Theorem C10_dispatcher_is_spec_call :
  forall (exec : node -> value -> outcome value) name margs sargs,
    Forall2 (arg_rel_gen exec) margs sargs ->
    CallFunction ord exec name margs = spec_call ord name sargs.
Proof. exact (dispatcher_is_spec_call ord ord_perm). Qed.

(* a call that is not well typed against the function's signature — unknown
   name, wrong number of arguments, an argument outside the declared types in any
   position (variadic positions included), an expression reference where a value
   is required or a value where a reference is required — is an error *)
Theorem C10_illtyped_is_an_error :
  forall name sargs, well_typed name sargs = false -> spec_call ord name sargs = Err EEval.
Proof. exact (illtyped_call_errors ord). Qed.

Theorem C10_unknown_function_is_an_error :
  forall name sargs, assoc_bytes name spec_signatures = None -> spec_call ord name sargs = Err EEval.
Proof. exact (unknown_function_errors ord). Qed.

(* by-expression keys that are not consistently numbers or consistently strings:
   an error, for arrays of any length (a single element with a null key too) *)
Theorem C10_inconsistent_keys_are_an_error :
  forall (g : value -> outcome value) l x y kx ky,
    (forall z, In z l -> exists kz, g z = Ok kz) ->
    In x l -> In y l -> g x = Ok kx -> g y = Ok ky ->
    ((forall n, kx <> VNum n) /\ (forall s, kx <> VStr s)) \/
    ((exists n, kx = VNum n) /\ (forall n, ky <> VNum n)) \/
    ((exists s, kx = VStr s) /\ (forall s, ky <> VStr s)) ->
    by_keys g l = Err EEval.
Proof. exact by_keys_inconsistent. Qed.

(* the whole interpreter on a call expression: arguments left to right, then the call *)
Theorem C10_call_semantics :
  forall name args v,
    eval ord (ECall name args) v = (xs <- mapM (eval_arg ord v) args ;; spec_call ord name xs).
Proof. exact (call_eval ord). Qed.

(* evaluation of any expression never panics *)
Theorem C10_never_a_panic :
  forall e v fuel, sem_ok e = true -> plain v = true -> (node_depth (compile e) <= fuel)%nat ->
    Execute ord fuel (compile e) v <> Panic.
Proof. exact (execute_never_panics ord ord_perm). Qed.

End C10.

(* every function of the specification has an entry in the table read from functions.go *)
Theorem C10_table_covers_specification :
  forallb (fun ksg : bytes * signature =>
             existsb (fun e => bytes_eqb (fe_key e) (fst ksg)) function_table) spec_signatures = true.
Proof. exact spec_names_in_table. Qed.

Print Assumptions C10_dispatcher_is_spec_call.
Print Assumptions C10_illtyped_is_an_error.
Print Assumptions C10_unknown_function_is_an_error.
Print Assumptions C10_inconsistent_keys_are_an_error.
Print Assumptions C10_call_semantics.
Print Assumptions C10_never_a_panic.
Print Assumptions C10_table_covers_specification.

(* merge('a'), contains(`[[1]]`,`[1]`), sort_by(`[{"a":null}]`, &a), to_array(&a) *)
Definition call1 (n : String.string) (args : list (@arg FloatNum)) : @expr FloatNum := ECall (str n) args.
Arguments call1 n%string_scope args.
Example C10_example :
  (same_outcome (search_compiled (fun m => m) (compile (call1 "merge" [AExpr (ERaw (str "a"))])) VNull) (Err EEval) &&
   same_outcome (search_compiled (fun m => m)
       (compile (call1 "contains" [AExpr (ELit (VArr [VArr [VNum 1%float]])); AExpr (ELit (VArr [VNum 1%float]))])) VNull)
       (Ok (VBool true)) &&
   same_outcome (search_compiled (fun m => m)
       (compile (call1 "sort_by" [AExpr (ELit (VArr [VObj [(str "a", VNull)]])); ARef (EIdent false (str "a"))])) VNull)
       (Err EEval) &&
   same_outcome (search_compiled (fun m => m) (compile (call1 "to_array" [ARef (EIdent false (str "a"))])) VNull) (Err EEval) &&
   same_outcome (search_compiled (fun m => m) (compile (call1 "nosuch" [])) VNull) (Err EEval))%bool = true.
Proof. vm_compute. reflexivity. Qed.

(* C18 — Go structs, pointers and typed slices navigate like their JSON form.
   Statements only; proofs in Proofs/GoFacts.v; the model of the reflection paths
   of interpreter.go is Model/GoVal.v (ExecuteG), tied to the library by running
   both on generated documents built with reflect (case kind CG). *)
From Coq Require Import Floats Permutation.
From JM Require Import Model.Base Model.Num Model.Value Model.Interp Model.Api Model.GoVal
     Proofs.ValueFacts Proofs.GoFacts Inst.FloatNum Run.Checker.

Section C18.
Context {NumO : NumOps}.
Variable cap : bytes -> bytes.        (* upper-casing of the first rune: unicode.ToUpper *)
Variable ord : obj -> obj.
Variable K : bytes -> Prop.           (* the JSON keys of the struct types the document is made of *)

(* Navigational expressions (nav): field access, sub-expressions, index, slice,
   flatten, list and filter projections, multi-select lists and hashes, ||, &&, !,
   pipes, @, literals, and length().  Documents (Good): structs with at least
   one field, pointers to such structs or nil, typed slices, generic slices and
   maps (maps with distinct keys; no typed nil pointer stored directly in a
   generic slice or map), scalars.  IdOK: an identifier of the expression that
   matches a field after upper-casing its first letter is that field's key.

   Whenever the interpreter, on the Go document g (a nil pointer counts as null:
   cur), returns r, the interpreter on the equivalent generic JSON document
   norm g returns norm r; r is again such a document and not a nil pointer. *)
Theorem C18_navigation_agrees_with_json_form :
  forall fuel n g r,
    nav n = true -> Forall (IdOK cap K) (idents n) -> Good K g -> cur g = true ->
    ExecuteG cap fuel n g = Ok r ->
    Execute ord fuel n (norm g) = Ok (norm r) /\ Good K r /\ cur r = true.
Proof. exact (go_nav cap ord K). Qed.

(* Search on a compiled expression: the document first goes through rootValue,
   so that a nil pointer passed as the document is the null document *)
Theorem C18_search_agrees_with_json_form :
  forall fuel n g r,
    nav n = true -> Forall (IdOK cap K) (idents n) -> Good K g ->
    search_go cap fuel n g = Ok r ->
    Execute ord fuel n (norm g) = Ok (norm r).
Proof. exact (go_search cap ord K). Qed.

(* no panic: on ANY Go document whatever — structs, pointers, nil pointers,
   typed slices, maps, well-formed or not — a navigational expression (nav; slice
   bounds are Go ints) returns a value, an error, or nothing for arrays of 2^63
   elements; it never panics *)
Theorem C18_navigation_never_panics :
  forall fuel n g, nav n = true -> slices_ok n = true -> ExecuteG cap fuel n g <> Panic.
Proof. exact (go_no_panic cap). Qed.

End C18.

Print Assumptions C18_navigation_agrees_with_json_form.
Print Assumptions C18_search_agrees_with_json_form.
Print Assumptions C18_navigation_never_panics.

(* a struct with a slice of pointers (one nil) and a nil pointer field:
   lp[*].foo, [p, lp[0]], lp[?foo].foo, length(lp), p || 'none' *)
Definition two : float := 2%float.
Definition docG : @gval FloatNum :=
  GStruct [(str "lp", GSlice [GPtr None; GPtr (Some [(str "foo", GNum two); (str "sub", GPtr None)])]);
           (str "p", GPtr None)].
Definition agree (e : String.string) : bool :=
  match compile (str e) with
  | Ok n =>
    match search_go ascii_cap (exec_fuel n) n docG, Execute ord_id (exec_fuel n) n (norm docG) with
    | Ok r, Ok v => value_eqb num_same (norm r) v && negb (value_eqb num_same v VNull)
    | _, _ => false
    end
  | _ => false
  end.
Arguments agree e%string_scope.
Example C18_example :
  (agree "lp[*].foo" && agree "[p, lp[0]]" && agree "lp[?foo].foo" && agree "length(lp)" && agree "p || 'none'" &&
   agree "lp[1:].{f: foo, s: sub}" && agree "lp[]")%bool = true.
Proof. vm_compute. reflexivity. Qed.

(* C16 — A successful Search over JSON data returns JSON data.
   Statements only; proofs in Proofs/Closure.v. *)
From Coq Require Import Floats Permutation.
From JM Require Import Model.Base Model.Num Model.Value Model.JsonText Model.Interp Model.Api
     Spec.Grammar Spec.Semantics Proofs.ValueFacts Proofs.InterpRefine Proofs.Closure Proofs.JsonRound
     Inst.FloatNum Run.Checker.

Section C16.
Context {NumO : NumOps}.
Variable ord : obj -> obj.
Hypothesis ord_perm : forall m, Permutation (ord m) m.

(* Search on the text of any expression whatever and any JSON document: a
   successful result has no expression reference anywhere inside and every
   object in it is a well-formed string-keyed object (empty containers are empty
   containers: the model has no nil/empty distinction, the correspondence run
   checks that one on the Go side).  No proviso; holds for binary64. *)
Theorem C16_shape :
  forall (e : bytes) d r, json_shape d = true -> search ord e d = Ok r -> json_shape r = true.
Proof. exact (search_shape ord ord_perm). Qed.

(* ... and every number in it is finite, provided the arithmetic performed does
   not overflow (the proviso in the property's quantifier): NoOverflow says
   abs/ceil/floor/length conversion/addition/division-by-a-length of finite
   numbers are finite.  That to_number and JSON literals only ever produce finite
   numbers and that avg of nothing is null is part of what is proved. *)
Theorem C16_json :
  forall (e : bytes) d r, NoOverflow -> is_json d = true -> search ord e d = Ok r -> is_json r = true.
Proof. exact (search_json ord ord_perm). Qed.

(* the same at the level of the specification, for any expression tree *)
Theorem C16_eval_json :
  forall (e : expr) d r, NoOverflow -> sem_ok e = true -> is_json d = true -> eval ord e d = Ok r -> is_json r = true.
Proof. exact (eval_json ord ord_perm). Qed.

(* JSON data can always be serialised *)
Theorem C16_serialisable : forall v, is_json v = true -> exists s, json_marshal v = Some s.
Proof. exact marshal_total. Qed.

(* ... and read back as an equal value: json.Unmarshal (json.Marshal v) = v for all
   JSON data whose strings and keys are valid UTF-8 (jok; encoding/json replaces
   invalid bytes, so equality cannot hold beyond that), at every nesting depth up
   to the decoder's limit, for objects with any number of members.  The number
   law NumText (the printed form of a finite number is a JSON number token that is
   read back as that number) is a hypothesis on the number type, like NoOverflow. *)
Theorem C16_json_round_trip :
  NumText -> forall v text, json_marshal v = Some text -> jok v -> vdepth v <= max_nesting_depth ->
    json_unmarshal text = Some v.
Proof. exact unmarshal_marshal. Qed.

End C16.

Print Assumptions C16_shape.
Print Assumptions C16_json.
Print Assumptions C16_eval_json.
Print Assumptions C16_serialisable.
Print Assumptions C16_json_round_trip.

(* the proviso is satisfiable: exact integer arithmetic meets it (binary64 meets
   it on the evaluations in which no sum or quotient leaves the finite range) *)
Definition ZNum : NumOps := {|
  num := Z; num_eqb := Z.eqb; num_ltb := Z.ltb; num_leb := Z.leb; num_add := Z.add; num_div := Z.div;
  num_of_Z := fun z => z; num_abs := Z.abs; num_ceil := fun z => z; num_floor := fun z => z;
  num_finite := fun _ => true; num_same := Z.eqb;
  num_parse_json := fun _ => None; num_parse_go := fun _ => None; num_print := fun _ => nil |}.
Example C16_proviso_satisfiable : @NoOverflow ZNum.
Proof. constructor; reflexivity. Qed.

(* the number law is satisfiable too: a two-valued number type printed as 0 / 1 *)
Definition BitNum : NumOps := {|
  num := bool; num_eqb := Bool.eqb; num_ltb := fun a b => negb a && b; num_leb := fun a b => negb a || b;
  num_add := orb; num_div := fun a _ => a; num_of_Z := fun z => negb (Z.eqb z 0); num_abs := fun a => a;
  num_ceil := fun a => a; num_floor := fun a => a; num_finite := fun _ => true; num_same := Bool.eqb;
  num_parse_json := fun t => match t with [49%N] => Some true | [48%N] => Some false | _ => None end;
  num_parse_go := fun _ => None; num_print := fun b => if b then [49%N] else [48%N] |}.
Example C16_number_law_satisfiable : @NumText BitNum.
Proof.
  constructor.
  - intros [|] [|c r] _ Ht; try reflexivity; destruct Ht as [->|[->| ->]]; reflexivity.
  - intros [|] _; reflexivity.
  - intros [|] _; eexists _, _; (split; [reflexivity | right; reflexivity]).
Qed.

(* avg(`[]`) is null, to_number('inf') and to_number('nan') are null, sum(`[]`) is 0 *)
Definition lit0 : @expr FloatNum := ELit (VArr []).
Example C16_example :
  (same_outcome (search_compiled (fun m => m) (compile (ECall (str "avg") [AExpr lit0])) VNull) (Ok VNull) &&
   same_outcome (search_compiled (fun m => m) (compile (ECall (str "to_number") [AExpr (ERaw (str "inf"))])) VNull) (Ok VNull) &&
   same_outcome (search_compiled (fun m => m) (compile (ECall (str "to_number") [AExpr (ERaw (str "nan"))])) VNull) (Ok VNull) &&
   same_outcome (search_compiled (fun m => m) (compile (ECall (str "sum") [AExpr lit0])) VNull) (Ok (VNum 0%float)))%bool = true.
Proof. vm_compute. reflexivity. Qed.

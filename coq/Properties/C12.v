(* C12 — A compiled expression is safe for concurrent use by multiple goroutines.
   Statements only.
   PARTIAL, named: thread interleavings and the Go memory model are outside any
   executable Gallina model.  What is proved: (1) footprints — no statement of
   the library writes storage reachable from a parameter or a field of an object
   shared between calls (JMESPath, treeInterpreter, functionCaller, ASTNode), so
   two calls on the same compiled expression and the same documents share only
   storage that neither writes (Bernstein's conditions hold; read-read sharing
   is not a race); (2) each call computes a function of the compiled AST and its
   own document alone.  The step from (1) to "no data race in any interleaving"
   is covered by test only: this check runs 8 goroutines x many calls on shared
   compiled expressions and shared documents under the Go race detector and
   compares every result with the same call made alone. *)
From Coq Require Import Permutation.
From JM Require Import Model.Base Model.Num Model.Value Model.Interp Model.Api Model.State Proofs.Frame.
From Coq Require Import String.
From JM Require Import gen.Writes gen.State Proofs.StateOk.
Import ListNotations.

Theorem C12_no_write_to_shared_storage :
  forall w : write_site, In w write_sites -> ws_prov w = PFresh.
Proof. exact write_site_fresh. Qed.

Section C12.
Context {NumO : NumOps}.
Variable ord : obj -> obj.

(* a call leaves the compiled expression as it was, and its result is a function
   of the AST and the document of that call only: the same as when made alone *)
Theorem C12_call_does_not_change_the_compiled_expression :
  forall (jp : jmespath) d, fst (Search_st ord jp d) = jp.
Proof. exact (search_keeps_object ord). Qed.

Theorem C12_result_as_when_alone :
  forall (jp : jmespath) ds,
    run_searches ord jp ds = (jp, map (fun d => search_compiled ord (jp_ast jp) d) ds).
Proof. exact (run_searches_spec ord). Qed.

End C12.

(* ---- the state inventory, regenerated from the source on every run (gen/State.v) ----
   the objects that live across calls have exactly the fields the history model accounts
   for (Model/State.v): Parser{expression, tokens, index}, JMESPath{ast, intr}; the
   interpreter and the function table hold no per-call data; the only package-level
   variables are the constant tables — no pool, cache or counter; and Parse assigns every
   field of its Parser.  A new field, a package-level variable or a field that Parse does not
   assign breaks these obligations (and the check then searches for the failing history). *)
Theorem C12_objects_have_the_modelled_fields :
  forall n known, In (n, known) modelled_objects -> fields_known n known = true.
Proof. exact state_objects. Qed.

Theorem C12_no_package_level_state : forall v, In v package_vars -> In v constant_tables.
Proof. exact state_package_vars. Qed.

Print Assumptions C12_no_write_to_shared_storage.
Print Assumptions C12_call_does_not_change_the_compiled_expression.
Print Assumptions C12_result_as_when_alone.
Print Assumptions C12_objects_have_the_modelled_fields.
Print Assumptions C12_no_package_level_state.

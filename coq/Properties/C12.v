(* C12 — A compiled expression is safe for concurrent use by multiple goroutines.
   Statements only.
   PARTIAL, named: thread interleavings and the Go memory model are outside any
   executable Gallina model.  What is proved: (1) footprints — no statement of
   the library writes storage reachable from a parameter or a field of an object
   shared between calls (JMESPath, treeInterpreter, functionCaller, ASTNode), so
   two calls on the same compiled expression and the same documents share only
   storage that neither writes (Bernstein's conditions hold; read-read sharing
   is not a race); (2) each call computes a function of the compiled AST and its
   own document alone.  The step from (1) to "no data race in any interleaving"
   is covered by test only: this check runs 8 goroutines x many calls on shared
   compiled expressions and shared documents under the Go race detector and
   compares every result with the same call made alone. *)
From Coq Require Import Permutation.
From JM Require Import Model.Base Model.Num Model.Value Model.Interp Model.Api Model.State Proofs.Frame.
From JM Require Import gen.Writes.

Theorem C12_no_write_to_shared_storage :
  forall w : write_site, In w write_sites -> ws_prov w = PFresh.
Proof. exact write_site_fresh. Qed.

Section C12.
Context {NumO : NumOps}.
Variable ord : obj -> obj.

(* a call leaves the compiled expression as it was, and its result is a function
   of the AST and the document of that call only: the same as when made alone *)
Theorem C12_call_does_not_change_the_compiled_expression :
  forall (jp : jmespath) d, fst (Search_st ord jp d) = jp.
Proof. exact (search_keeps_object ord). Qed.

Theorem C12_result_as_when_alone :
  forall (jp : jmespath) ds,
    run_searches ord jp ds = (jp, map (fun d => search_compiled ord (jp_ast jp) d) ds).
Proof. exact (run_searches_spec ord). Qed.

End C12.

Print Assumptions C12_no_write_to_shared_storage.
Print Assumptions C12_call_does_not_change_the_compiled_expression.
Print Assumptions C12_result_as_when_alone.

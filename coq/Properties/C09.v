(* C09 — Each built-in function returns the value its specification defines.
   Statements only; proofs in Proofs/FunSpec.v, SortFacts.v, Utf8Facts.v, FunFacts.v.
   Every statement about spec_call is, by C09_dispatcher_is_spec_call, a statement
   about the model of functions.go (table regenerated from the source). *)
From Coq Require Import Floats Permutation Sorted.
From JM Require Import Model.Base Model.Num Model.Utf8 Model.Value Model.JsonText Model.Functions Model.Interp Model.Api
     Spec.Grammar Spec.Semantics Proofs.ValueFacts Proofs.FunFacts Proofs.InterpRefine Proofs.SpecFacts Proofs.LogicFacts
     Proofs.SortFacts Proofs.Utf8Facts Proofs.FunSpec Proofs.JsonRound Inst.FloatNum Run.Checker.
From JM Require Import gen.Tables Inst.FloatOrder.

Section C09.
Context {NumO : NumOps}.
Variable ord : obj -> obj.
Hypothesis ord_perm : forall m, Permutation (ord m) m.

Theorem C09_dispatcher_is_spec_call :
  forall (exec : node -> value -> outcome value) name margs sargs,
    Forall2 (arg_rel_gen exec) margs sargs ->
    CallFunction ord exec name margs = spec_call ord name sargs.
Proof. exact (dispatcher_is_spec_call ord ord_perm). Qed.

(* nested in arbitrary expressions: arguments are evaluated left to right with
   the current node; an expression-reference argument &x is the function
   "evaluate x with the given element as the current node" *)
Theorem C09_call_semantics :
  forall name args v,
    eval ord (ECall name args) v = (xs <- mapM (eval_arg ord v) args ;; spec_call ord name xs).
Proof. exact (call_eval ord). Qed.

(* ---- sort, sort_by: ascending, a permutation, stable ---- *)
Theorem C09_sort_numbers :
  forall l, all_num l = true ->
  exists ns, spec_call ord (str "sort") [SVal (VArr l)] = Ok (VArr (map VNum ns)) /\
             Permutation ns (nums_of l) /\
             (NumOrder -> Forall finite (nums_of l) ->
              StronglySorted (le num_ltb) ns /\
              forall a, finite a -> filter (eqv num_ltb a) ns = filter (eqv num_ltb a) (nums_of l)).
Proof. exact (sort_numbers ord). Qed.

Theorem C09_sort_strings :
  forall l, all_num l = false -> all_str l = true ->
  exists ss, spec_call ord (str "sort") [SVal (VArr l)] = Ok (VArr (map VStr ss)) /\
             Permutation ss (strs_of l) /\ StronglySorted (le bytes_ltb) ss.
Proof. exact (sort_strings ord). Qed.

(* keyed inj f l ks: ks pairs every element of l, in order, with the key that
   the expression reference f gives for that element as the current node *)
Theorem C09_sort_by :
  forall l f r,
  spec_call ord (str "sort_by") [SVal (VArr l); SRef f] = Ok r ->
  exists out,
    r = VArr out /\ Permutation out l /\
    ((exists ks sorted, keyed VNum f l ks /\ out = map snd sorted /\ Permutation sorted ks /\
        (NumOrder -> Forall (fun p => finite (fst p)) ks ->
         StronglySorted (le (key_lt num_ltb)) sorted /\
         forall a, finite (fst a) -> filter (eqv (key_lt num_ltb) a) sorted = filter (eqv (key_lt num_ltb) a) ks))
     \/
     (exists ks sorted, keyed VStr f l ks /\ out = map snd sorted /\ Permutation sorted ks /\
         StronglySorted (le (key_lt bytes_ltb)) sorted /\
         forall a, filter (eqv (key_lt bytes_ltb) a) sorted = filter (eqv (key_lt bytes_ltb) a) ks)).
Proof. exact (sort_by_numbers ord). Qed.

(* ---- max, min: numbers numerically, strings by code point (byte order of UTF-8) ---- *)
Theorem C09_max_numbers :
  forall l, all_num l = true -> NumOrder -> Forall finite (nums_of l) ->
  (l = [] /\ spec_call ord (str "max") [SVal (VArr l)] = Ok VNull) \/
  (exists n, spec_call ord (str "max") [SVal (VArr l)] = Ok (VNum n) /\ first_greatest num_ltb (nums_of l) n).
Proof. exact (max_numbers ord). Qed.

Theorem C09_min_numbers :
  forall l, all_num l = true -> NumOrder -> Forall finite (nums_of l) ->
  (l = [] /\ spec_call ord (str "min") [SVal (VArr l)] = Ok VNull) \/
  (exists n, spec_call ord (str "min") [SVal (VArr l)] = Ok (VNum n) /\ first_least num_ltb (nums_of l) n).
Proof. exact (min_numbers ord). Qed.

Theorem C09_max_strings :
  forall l, all_num l = false -> all_str l = true ->
  exists s, spec_call ord (str "max") [SVal (VArr l)] = Ok (VStr s) /\ first_greatest bytes_ltb (strs_of l) s.
Proof. exact (max_strings ord). Qed.

Theorem C09_min_strings :
  forall l, all_num l = false -> all_str l = true ->
  exists s, spec_call ord (str "min") [SVal (VArr l)] = Ok (VStr s) /\ first_least bytes_ltb (strs_of l) s.
Proof. exact (min_strings ord). Qed.

(* ---- max_by, min_by: the first extremal element; null for an empty array ---- *)
Theorem C09_max_by_empty : forall f, spec_call ord (str "max_by") [SVal (VArr []); SRef f] = Ok VNull.
Proof. exact (max_by_empty ord). Qed.
Theorem C09_min_by_empty : forall f, spec_call ord (str "min_by") [SVal (VArr []); SRef f] = Ok VNull.
Proof. exact (min_by_empty ord). Qed.

Theorem C09_max_by :
  forall l f r, l <> [] -> spec_call ord (str "max_by") [SVal (VArr l); SRef f] = Ok r ->
  (exists ks p, keyed VNum f l ks /\ r = snd p /\
                (NumOrder -> Forall (fun p => finite (fst p)) ks -> first_greatest (key_lt num_ltb) ks p)) \/
  (exists ks p, keyed VStr f l ks /\ r = snd p /\ first_greatest (key_lt bytes_ltb) ks p).
Proof. exact (max_by_spec ord). Qed.

Theorem C09_min_by :
  forall l f r, l <> [] -> spec_call ord (str "min_by") [SVal (VArr l); SRef f] = Ok r ->
  (exists ks p, keyed VNum f l ks /\ r = snd p /\
                (NumOrder -> Forall (fun p => finite (fst p)) ks -> first_least (key_lt num_ltb) ks p)) \/
  (exists ks p, keyed VStr f l ks /\ r = snd p /\ first_least (key_lt bytes_ltb) ks p).
Proof. exact (min_by_spec ord). Qed.

(* ---- merge: later arguments win ---- *)
Theorem C09_merge :
  forall args m,
  Forall (fun v => match v with VObj o => obj_sorted o = true | _ => True end) (arg_values args) ->
  spec_call ord (str "merge") args = Ok (VObj m) ->
  forall k, obj_get k m = last_binding k (objs_of (arg_values args)).
Proof. exact (merge_later_wins ord). Qed.

(* ---- map: one result per element, nulls kept ---- *)
Theorem C09_map :
  forall f l r, spec_call ord (str "map") [SRef f; SVal (VArr l)] = Ok r ->
  exists ys, r = VArr ys /\ Forall2 (fun x y => f x = Ok y) l ys.
Proof. exact (map_elementwise ord). Qed.

(* ---- avg, sum, to_number ---- *)
Theorem C09_avg_empty : spec_call ord (str "avg") [SVal (VArr [])] = Ok VNull.
Proof. exact (avg_empty ord). Qed.

Theorem C09_avg :
  forall l, l <> [] -> all_num l = true ->
  spec_call ord (str "avg") [SVal (VArr l)] =
  Ok (VNum (num_div (fold_left num_add (nums_of l) (num_of_Z 0)) (num_of_Z (zlen l)))).
Proof. exact (avg_equation ord). Qed.

Theorem C09_sum :
  forall l, all_num l = true ->
  spec_call ord (str "sum") [SVal (VArr l)] = Ok (VNum (fold_left num_add (nums_of l) (num_of_Z 0))).
Proof. exact (sum_equation ord). Qed.

Theorem C09_to_number :
  forall v, spec_call ord (str "to_number") [SVal v] =
  Ok (match v with
      | VNum n => VNum n
      | VStr s => match num_parse_go s with Some x => if num_finite x then VNum x else VNull | None => VNull end
      | _ => VNull
      end).
Proof. exact (to_number_equation ord). Qed.

Theorem C09_to_number_finite_or_null :
  forall s r, spec_call ord (str "to_number") [SVal (VStr s)] = Ok r -> r = VNull \/ exists x, r = VNum x /\ finite x.
Proof. exact (to_number_finite_or_null ord). Qed.

(* ---- to_string, to_array, type, not_null ---- *)
Theorem C09_to_string :
  forall v, spec_call ord (str "to_string") [SVal v] =
  match v with
  | VStr _ => Ok v
  | _ => match json_marshal v with Some t => Ok (VStr t) | None => Err EEval end
  end.
Proof. exact (to_string_equation ord). Qed.

(* ... and that text decodes back to the argument (all JSON data with valid UTF-8
   strings; NumText: the number law of Proofs/JsonRound.v, a hypothesis on the
   number type) *)
Theorem C09_to_string_decodes_back :
  NumText -> forall v, jok v -> vdepth v <= max_nesting_depth -> (forall s, v <> VStr s) ->
    exists t, spec_call ord (str "to_string") [SVal v] = Ok (VStr t) /\ json_unmarshal t = Some v.
Proof. exact (fun NT => to_string_round_trip NT ord). Qed.

Theorem C09_to_array :
  forall v, spec_call ord (str "to_array") [SVal v] = Ok (match v with VArr _ => v | _ => VArr [v] end).
Proof. exact (to_array_equation ord). Qed.

Theorem C09_type : forall v, spec_call ord (str "type") [SVal v] = Ok (VStr (type_name v)).
Proof. exact (type_equation ord). Qed.

Theorem C09_not_null :
  forall args, well_typed (str "not_null") args = true ->
  spec_call ord (str "not_null") args =
  Ok (match find not_null (arg_values args) with Some v => v | None => VNull end).
Proof. exact (not_null_first ord). Qed.

(* ---- length, reverse: Unicode code points ---- *)
Theorem C09_length_code_points :
  forall rs, forallb valid_rune rs = true ->
  spec_call ord (str "length") [SVal (VStr (string_of_runes rs))] = Ok (VNum (num_of_Z (zlen rs))).
Proof. exact (length_code_points ord). Qed.

Theorem C09_reverse_code_points :
  forall rs, forallb valid_rune rs = true ->
  spec_call ord (str "reverse") [SVal (VStr (string_of_runes rs))] = Ok (VStr (string_of_runes (rev rs))).
Proof. exact (reverse_code_points ord). Qed.

Theorem C09_length :
  forall v, spec_call ord (str "length") [SVal v] =
  match v with
  | VStr s => Ok (VNum (num_of_Z (zlen (runes_of s))))
  | VArr l => Ok (VNum (num_of_Z (zlen l)))
  | VObj m => Ok (VNum (num_of_Z (zlen m)))
  | _ => Err EEval
  end.
Proof. exact (length_equation ord). Qed.

Theorem C09_reverse :
  forall v, spec_call ord (str "reverse") [SVal v] =
  match v with
  | VStr s => Ok (VStr (string_of_runes (rev (runes_of s))))
  | VArr l => Ok (VArr (rev l))
  | _ => Err EEval
  end.
Proof. exact (reverse_equation ord). Qed.

(* ---- the rest ---- *)
Theorem C09_abs : forall n, spec_call ord (str "abs") [SVal (VNum n)] = Ok (VNum (num_abs n)).
Proof. exact (abs_equation ord). Qed.
Theorem C09_ceil : forall n, spec_call ord (str "ceil") [SVal (VNum n)] = Ok (VNum (num_ceil n)).
Proof. exact (ceil_equation ord). Qed.
Theorem C09_floor : forall n, spec_call ord (str "floor") [SVal (VNum n)] = Ok (VNum (num_floor n)).
Proof. exact (floor_equation ord). Qed.

Theorem C09_contains :
  forall a b, spec_call ord (str "contains") [SVal a; SVal b] =
  match a with
  | VStr s => Ok (VBool (match b with VStr e => contains_sub s e | _ => false end))
  | VArr l => Ok (VBool (existsb (fun x => json_equal x b) l))
  | _ => Err EEval
  end.
Proof. exact (contains_equation ord). Qed.

Theorem C09_starts_with :
  forall s p, spec_call ord (str "starts_with") [SVal (VStr s); SVal (VStr p)] = Ok (VBool (has_prefix s p)).
Proof. exact (starts_with_equation ord). Qed.
Theorem C09_ends_with :
  forall s p, spec_call ord (str "ends_with") [SVal (VStr s); SVal (VStr p)] = Ok (VBool (has_suffix s p)).
Proof. exact (ends_with_equation ord). Qed.
Theorem C09_prefix_means : forall s p, has_prefix s p = true <-> exists t, s = p ++ t.
Proof. exact has_prefix_spec. Qed.
Theorem C09_suffix_means : forall s p, has_suffix s p = true <-> exists t, s = t ++ p.
Proof. exact has_suffix_spec. Qed.

Theorem C09_join :
  forall sep l, all_str l = true ->
  spec_call ord (str "join") [SVal (VStr sep); SVal (VArr l)] = Ok (VStr (join_bytes sep (strs_of l))).
Proof. exact (join_equation ord). Qed.

Theorem C09_keys :
  forall m, spec_call ord (str "keys") [SVal (VObj m)] = Ok (VArr (map (fun kv => VStr (fst kv)) (ord m))).
Proof. exact (keys_equation ord). Qed.
Theorem C09_values :
  forall m, spec_call ord (str "values") [SVal (VObj m)] = Ok (VArr (map snd (ord m))).
Proof. exact (values_equation ord). Qed.

End C09.

Print Assumptions C09_dispatcher_is_spec_call.
Print Assumptions C09_call_semantics.
Print Assumptions C09_sort_numbers.
Print Assumptions C09_sort_strings.
Print Assumptions C09_sort_by.
Print Assumptions C09_max_numbers.
Print Assumptions C09_min_numbers.
Print Assumptions C09_max_strings.
Print Assumptions C09_min_strings.
Print Assumptions C09_max_by.
Print Assumptions C09_min_by.
Print Assumptions C09_max_by_empty.
Print Assumptions C09_min_by_empty.
Print Assumptions C09_merge.
Print Assumptions C09_map.
Print Assumptions C09_avg_empty.
Print Assumptions C09_avg.
Print Assumptions C09_sum.
Print Assumptions C09_to_number.
Print Assumptions C09_to_number_finite_or_null.
Print Assumptions C09_to_string.
Print Assumptions C09_to_string_decodes_back.
Print Assumptions C09_to_array.
Print Assumptions C09_type.
Print Assumptions C09_not_null.
Print Assumptions C09_length_code_points.
Print Assumptions C09_reverse_code_points.
Print Assumptions C09_length.
Print Assumptions C09_reverse.
Print Assumptions C09_abs.
Print Assumptions C09_ceil.
Print Assumptions C09_floor.
Print Assumptions C09_contains.
Print Assumptions C09_starts_with.
Print Assumptions C09_ends_with.
Print Assumptions C09_prefix_means.
Print Assumptions C09_suffix_means.
Print Assumptions C09_join.
Print Assumptions C09_keys.
Print Assumptions C09_values.

(* sort_by keeps equal keys in order; max_by takes the first of two equal maxima;
   reverse and length on a multi-byte string; merge; map keeps nulls *)
Definition o2 (k : Z) (t : String.string) : @value FloatNum :=
  VObj [(str "k", VNum (f_of_Z k)); (str "t", VStr (str t))].
Arguments o2 k t%string_scope.
Definition by_k : @arg FloatNum := ARef (EIdent false (str "k")).
Definition arr3 : @expr FloatNum := ELit (VArr [o2 2 "a"; o2 1 "b"; o2 2 "c"; o2 1 "d"]).
(* the order hypothesis is satisfiable: exact integers under < (binary64's < on
   finite numbers is such an order by IEEE 754; that is not proved for PrimFloat) *)
Definition ZNum9 : NumOps := {|
  num := Z; num_eqb := Z.eqb; num_ltb := Z.ltb; num_leb := Z.leb; num_add := Z.add; num_div := Z.div;
  num_of_Z := fun z => z; num_abs := Z.abs; num_ceil := fun z => z; num_floor := fun z => z;
  num_finite := fun _ => true; num_same := Z.eqb;
  num_parse_json := fun _ => None; num_parse_go := fun _ => None; num_print := fun _ => nil |}.
Example C09_order_satisfiable : @NumOrder ZNum9.
Proof. constructor; cbn; intros; lia. Qed.

(* ... and it holds of the binary64 instance the correspondence run uses: on finite
   floats < is a strict weak order (Inst/FloatOrder.v, through Flocq; this statement
   alone rests on the standard library's axioms for primitive floats and the reals) *)
Theorem C09_order_holds_for_binary64 : @NumOrder FloatNum.
Proof. exact float_order. Qed.
Print Assumptions C09_order_holds_for_binary64.

Example C09_example :
  (same_outcome (search_compiled (fun m => m) (compile (ECall (str "sort_by") [AExpr arr3; by_k])) VNull)
                (Ok (VArr [o2 1 "b"; o2 1 "d"; o2 2 "a"; o2 2 "c"])) &&
   same_outcome (search_compiled (fun m => m) (compile (ECall (str "max_by") [AExpr arr3; by_k])) VNull) (Ok (o2 2 "a")) &&
   same_outcome (search_compiled (fun m => m) (compile (ECall (str "min_by") [AExpr arr3; by_k])) VNull) (Ok (o2 1 "b")) &&
   same_outcome (search_compiled (fun m => m) (compile (ECall (str "reverse") [AExpr (ELit (VStr [97; 195; 169; 240; 159; 152; 128]%N))])) VNull)
                (Ok (VStr [240; 159; 152; 128; 195; 169; 97]%N)) &&
   same_outcome (search_compiled (fun m => m) (compile (ECall (str "length") [AExpr (ELit (VStr [97; 195; 169; 240; 159; 152; 128]%N))])) VNull)
                (Ok (VNum (f_of_Z 3))) &&
   same_outcome (search_compiled (fun m => m)
                   (compile (ECall (str "map") [ARef (EIdent false (str "z")); AExpr arr3])) VNull)
                (Ok (VArr [VNull; VNull; VNull; VNull])))%bool = true.
Proof. vm_compute. reflexivity. Qed.

(* LogicFacts.v — truth, logical operators, comparators, deep equality (C07);
   ill-typed calls (C10). *)
From JM Require Import Model.Base Model.Num Model.Value Model.Functions Model.Interp.
From JM Require Import Spec.Grammar Spec.PySlice Spec.Semantics.
From JM Require Import Proofs.ValueFacts Proofs.FunFacts Proofs.InterpRefine Proofs.SpecFacts.
From Coq Require Import ZifyBool Permutation.

Section WithNum.
Context {NumO : NumOps}.
Variable ord : obj -> obj.

(* the five false-like values, and nothing else *)
Lemma falsy_iff v :
  falsy v = true <-> v = VNull \/ v = VBool false \/ v = VStr [] \/ v = VArr [] \/ v = VObj [].
Proof.
  split.
  - destruct v as [ | [|] | | [|] | [|] | [|] | ]; cbn; intros H; try discriminate; auto 6.
  - intros [->|[->|[->|[->| ->]]]]; reflexivity.
Qed.

Lemma zero_is_truthy n : truthy (VNum n) = true.
Proof. reflexivity. Qed.

(* || and && return an operand, and do not look at the right one when the left decides *)
Lemma eval_or_left l r v x :
  eval ord l v = Ok x -> truthy x = true -> eval ord (EOr l r) v = Ok x.
Proof. intros E T. cbn [eval]. rewrite E. cbn. rewrite T. reflexivity. Qed.
Lemma eval_or_right l r v x :
  eval ord l v = Ok x -> truthy x = false -> eval ord (EOr l r) v = eval ord r v.
Proof. intros E T. cbn [eval]. rewrite E. cbn. rewrite T. reflexivity. Qed.
Lemma eval_and_left l r v x :
  eval ord l v = Ok x -> truthy x = false -> eval ord (EAnd l r) v = Ok x.
Proof. intros E T. cbn [eval]. rewrite E. cbn. rewrite T. reflexivity. Qed.
Lemma eval_and_right l r v x :
  eval ord l v = Ok x -> truthy x = true -> eval ord (EAnd l r) v = eval ord r v.
Proof. intros E T. cbn [eval]. rewrite E. cbn. rewrite T. reflexivity. Qed.
Lemma eval_not x v y : eval ord x v = Ok y -> eval ord (ENot x) v = Ok (VBool (falsy y)).
Proof. intros E. cbn [eval]. rewrite E. reflexivity. Qed.

(* comparators *)
Definition same_kind (a b : value) : bool :=
  match a, b with
  | VNull, VNull | VBool _, VBool _ | VNum _, VNum _ | VStr _, VStr _
  | VArr _, VArr _ | VObj _, VObj _ | VExp _, VExp _ => true
  | _, _ => false
  end.
Lemma json_equal_same_kind a b : json_equal a b = true -> same_kind a b = true.
Proof. destruct a, b; cbn; intros H; try discriminate; reflexivity. Qed.

Lemma eval_eq l r v x y :
  eval ord l v = Ok x -> eval ord r v = Ok y ->
  eval ord (ECmp CmpEQ l r) v = Ok (VBool (json_equal x y)) /\
  eval ord (ECmp CmpNE l r) v = Ok (VBool (negb (json_equal x y))).
Proof. intros E1 E2. cbn [eval]. rewrite E1, E2. split; reflexivity. Qed.

Definition is_order (op : cmpop) : bool :=
  match op with CmpLT | CmpLE | CmpGT | CmpGE => true | _ => false end.

Lemma eval_order op l r v x y :
  is_order op = true -> eval ord l v = Ok x -> eval ord r v = Ok y ->
  eval ord (ECmp op l r) v =
  match x, y with
  | VNum a, VNum b => Ok (VBool (cmp_num op a b))
  | _, _ => Ok VNull
  end.
Proof. intros Ho E1 E2. cbn [eval]. rewrite E1, E2. destruct op; try discriminate; reflexivity. Qed.

(* ---- calls (C10) ---- *)
Lemma illtyped_call_errors name sargs :
  well_typed name sargs = false -> spec_call ord name sargs = Err EEval.
Proof. intros H. unfold spec_call. rewrite H. reflexivity. Qed.

Lemma unknown_function_errors name sargs :
  assoc_bytes name spec_signatures = None -> spec_call ord name sargs = Err EEval.
Proof. intros H. apply illtyped_call_errors. unfold well_typed. rewrite H. reflexivity. Qed.

(* what a call evaluates to: arguments left to right, then the function *)
Lemma call_eval name args v :
  eval ord (ECall name args) v = (xs <- mapM (eval_arg ord v) args ;; spec_call ord name xs).
Proof. apply eval_call. Qed.

(* a key of the wrong kind makes the by-functions fail, whatever the array length *)
Lemma by_keys_first_bad g x l k :
  g x = Ok k -> (forall n, k <> VNum n) -> (forall s, k <> VStr s) -> by_keys g (x :: l) = Err EEval.
Proof.
  intros E Hn Hs. cbn [by_keys]. rewrite E. cbn.
  destruct k; try reflexivity; [exfalso; eapply Hn | exfalso; eapply Hs]; reflexivity.
Qed.

Lemma mapM_num_key_bad g l x k :
  In x l -> (forall y, In y l -> exists ky, g y = Ok ky) -> g x = Ok k -> (forall n, k <> VNum n) ->
  mapM (num_key g) l = Err EEval.
Proof.
  intros Hin Hall E Hn. induction l as [|y l IH]; [destruct Hin|]. cbn [mapM].
  destruct (Hall y (or_introl eq_refl)) as [ky Ey]. unfold num_key at 1. rewrite Ey. cbn [bind].
  destruct Hin as [->|Hin].
  - rewrite E in Ey. inversion Ey; subst. destruct ky; try reflexivity. exfalso. eapply Hn. reflexivity.
  - destruct ky; try reflexivity. cbn [bind]. rewrite IH; [reflexivity | exact Hin |].
    intros z Hz. apply Hall. right. exact Hz.
Qed.
Lemma mapM_str_key_bad g l x k :
  In x l -> (forall y, In y l -> exists ky, g y = Ok ky) -> g x = Ok k -> (forall s, k <> VStr s) ->
  mapM (str_key g) l = Err EEval.
Proof.
  intros Hin Hall E Hn. induction l as [|y l IH]; [destruct Hin|]. cbn [mapM].
  destruct (Hall y (or_introl eq_refl)) as [ky Ey]. unfold str_key at 1. rewrite Ey. cbn [bind].
  destruct Hin as [->|Hin].
  - rewrite E in Ey. inversion Ey; subst. destruct ky; try reflexivity. exfalso. eapply Hn. reflexivity.
  - destruct ky; try reflexivity. cbn [bind]. rewrite IH; [reflexivity | exact Hin |].
    intros z Hz. apply Hall. right. exact Hz.
Qed.

(* keys that are not consistently numbers or consistently strings: an error *)
Theorem by_keys_inconsistent g l x y kx ky :
  (forall z, In z l -> exists kz, g z = Ok kz) ->
  In x l -> In y l -> g x = Ok kx -> g y = Ok ky ->
  ((forall n, kx <> VNum n) /\ (forall s, kx <> VStr s)) \/
  ((exists n, kx = VNum n) /\ (forall n, ky <> VNum n)) \/
  ((exists s, kx = VStr s) /\ (forall s, ky <> VStr s)) ->
  by_keys g l = Err EEval.
Proof.
  intros Hall Hx Hy Ex Ey Hbad. destruct l as [|z l]; [destruct Hx|].
  destruct (Hall z (or_introl eq_refl)) as [kz Ez]. cbn [by_keys]. rewrite Ez. cbn [bind].
  destruct kz; try reflexivity.
  - (* first key a number: some key is not a number *)
    assert (Hbadkey : exists w kw, In w (z :: l) /\ g w = Ok kw /\ (forall n0, kw <> VNum n0)).
    { destruct Hbad as [[H1 _]|[[[n1 ->] H2]|[[s1 ->] H2]]].
      - exists x, kx. auto.
      - exists y, ky. auto.
      - exists x, (VStr s1). repeat split; auto. intros n0 Hc. discriminate. }
    destruct Hbadkey as [w [kw [Hw [Ew Hnw]]]].
    rewrite (mapM_num_key_bad g (z :: l) w kw Hw Hall Ew Hnw). reflexivity.
  - assert (Hbadkey : exists w kw, In w (z :: l) /\ g w = Ok kw /\ (forall s0, kw <> VStr s0)).
    { destruct Hbad as [[_ H1]|[[[n1 ->] H2]|[[s1 ->] H2]]].
      - exists x, kx. auto.
      - exists x, (VNum n1). repeat split; auto. intros s0 Hc. discriminate.
      - exists y, ky. auto. }
    destruct Hbadkey as [w [kw [Hw [Ew Hnw]]]].
    rewrite (mapM_str_key_bad g (z :: l) w kw Hw Hall Ew Hnw). reflexivity.
Qed.

Hypothesis ord_perm : forall m, Permutation (ord m) m.

Lemma dispatcher_is_spec_call (exec : node -> value -> outcome value) name margs sargs :
  Forall2 (arg_rel_gen exec) margs sargs ->
  CallFunction ord exec name margs = spec_call ord name sargs.
Proof. intros H. apply (FunFacts.call_refines ord ord_perm exec name margs sargs H). Qed.

Lemma execute_never_panics e v fuel :
  sem_ok e = true -> plain v = true -> (node_depth (compile e) <= fuel)%nat ->
  Execute ord fuel (compile e) v <> Panic.
Proof.
  intros H1 H2 H3. rewrite (execute_is_eval ord ord_perm e v fuel H1 H2 H3). apply eval_no_panic.
Qed.

End WithNum.

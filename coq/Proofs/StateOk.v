(* StateOk.v — the state inventory regenerated from the source on every run
   (gen/State.v: the fields of the struct types, the package-level variables, the
   receiver fields that Parser.Parse assigns) is exactly the state that the history
   model (Model/State.v) and the per-call independence argument account for.  A new
   field on an object that lives across calls, a package-level pool, cache or counter,
   or a Parser field that Parse does not assign makes these obligations fail. *)
From Coq Require Import String List.
Import ListNotations.
Open Scope string_scope.
From JM Require Import gen.State.

Fixpoint fields_of (n : string) (l : list (string * list string)) : option (list string) :=
  match l with
  | [] => None
  | (k, fs) :: r => if String.eqb k n then Some fs else fields_of n r
  end.

(* the objects that live across calls have exactly the fields of Model/State.v:
   Parser{expression, tokens, index}, JMESPath{ast, intr}; the interpreter and the function
   table hold no per-call data; the lexer is created per Parse call *)
Theorem state_objects :
  fields_of "Parser" struct_fields = Some ["expression"; "tokens"; "index"] /\
  fields_of "JMESPath" struct_fields = Some ["ast"; "intr"] /\
  fields_of "treeInterpreter" struct_fields = Some ["fCall"] /\
  fields_of "functionCaller" struct_fields = Some ["functionTable"] /\
  fields_of "functionEntry" struct_fields = Some ["name"; "arguments"; "handler"; "hasExpRef"] /\
  fields_of "Lexer" struct_fields = Some ["expression"; "currentPos"; "lastWidth"; "buf"].
Proof. repeat split; reflexivity. Qed.

(* the package-level variables are the constant tables of lexer.go and parser.go and the
   generated name tables — no pool, cache, counter or registry (that none of them is ever
   written is part of the write-site theorem, Proofs/Frame.v) *)
Theorem state_package_vars :
  package_vars = ["_astNodeType_index"; "_tokType_index"; "basicTokens"; "bindingPowers"; "identifierTrailingBits"; "whiteSpace"].
Proof. reflexivity. Qed.

(* Parse assigns every field of its Parser: nothing of an earlier call survives in a field that is read *)
Theorem parse_assigns_every_field :
  forall fs, fields_of "Parser" struct_fields = Some fs -> forall f, In f fs -> In f parse_assigns.
Proof.
  intros fs H f Hf. destruct state_objects as [Hp _]. rewrite Hp in H. inversion H; subst fs.
  cbn in Hf. destruct Hf as [<-|[<-|[<-|[]]]]; cbn; auto.
Qed.

(* StateOk.v — the state inventory regenerated from the source on every run
   (gen/State.v: the fields of the struct types, the package-level variables, the
   receiver fields that Parser.Parse assigns) is exactly the state that the history
   model (Model/State.v) and the per-call independence argument account for.  A new
   field on an object that lives across calls, a package-level pool, cache or counter,
   or a Parser field that Parse does not assign makes these obligations fail. *)
From Coq Require Import String List.
Import ListNotations.
Open Scope string_scope.
From JM Require Import gen.State.

Fixpoint fields_of (n : string) (l : list (string * list string)) : option (list string) :=
  match l with
  | [] => None
  | (k, fs) :: r => if String.eqb k n then Some fs else fields_of n r
  end.

(* the objects that live across calls have exactly the fields of Model/State.v:
   Parser{expression, tokens, index}, JMESPath{ast, intr}; the interpreter and the function
   table hold no per-call data; the lexer is created per Parse call *)
Definition modelled_objects : list (string * list string) :=
  [("Parser", ["expression"; "tokens"; "index"]); ("JMESPath", ["ast"; "intr"]); ("treeInterpreter", ["fCall"]);
   ("functionCaller", ["functionTable"]); ("functionEntry", ["name"; "arguments"; "handler"; "hasExpRef"]);
   ("Lexer", ["expression"; "currentPos"; "lastWidth"; "buf"])].

(* every field that one of these types has in the source is a field the models know (a field
   that disappears is no new state) *)
Definition fields_known (n : string) (known : list string) : bool :=
  match fields_of n struct_fields with
  | Some fs => forallb (fun f => existsb (String.eqb f) known) fs
  | None => true
  end.

Theorem state_objects : forall n known, In (n, known) modelled_objects -> fields_known n known = true.
Proof.
  assert (H : forallb (fun nk => fields_known (fst nk) (snd nk)) modelled_objects = true) by reflexivity.
  intros n known Hin. rewrite forallb_forall in H. exact (H (n, known) Hin).
Qed.

(* the package-level variables are among the constant tables of lexer.go and parser.go and the
   generated name tables — no pool, cache, counter or registry (that none of them is ever
   written is part of the write-site theorem, Proofs/Frame.v).  Inclusion, not equality: a table
   turned into a function, or removed, is no new state *)
Definition constant_tables : list string :=
  ["_astNodeType_index"; "_tokType_index"; "basicTokens"; "bindingPowers"; "identifierTrailingBits"; "whiteSpace"].

Theorem state_package_vars : forall v, In v package_vars -> In v constant_tables.
Proof.
  assert (H : forallb (fun v => existsb (String.eqb v) constant_tables) package_vars = true) by reflexivity.
  intros v Hv. rewrite forallb_forall in H. specialize (H v Hv). apply existsb_exists in H as [c [Hc E]].
  apply String.eqb_eq in E. subst c. exact Hc.
Qed.

(* Parse assigns every field of its Parser: nothing of an earlier call survives in a field that is read *)
Theorem parse_assigns_every_field :
  forall fs, fields_of "Parser" struct_fields = Some fs -> forall f, In f fs -> In f parse_assigns.
Proof.
  assert (H : match fields_of "Parser" struct_fields with
              | Some fs => forallb (fun f => existsb (String.eqb f) parse_assigns) fs
              | None => true end = true) by reflexivity.
  intros fs Hfs f Hf. rewrite Hfs in H. rewrite forallb_forall in H. specialize (H f Hf).
  apply existsb_exists in H as [c [Hc E]]. apply String.eqb_eq in E. subst c. exact Hc.
Qed.

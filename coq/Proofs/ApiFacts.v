(* ApiFacts.v — the contract of Compile / MustCompile / HighlightLocation (C17). *)
From JM Require Import Model.Base Model.Num Model.Value Model.Lexer Model.Parser Model.Api.
From JM Require Import Proofs.CompileTotal.
From Coq Require Import ZifyBool.

Section WithNum.
Context {NumO : NumOps}.

(* exactly one of (expression, error) *)
Lemma compile_exactly_one (e : bytes) :
  (exists n, compile e = Ok n) \/ (exists er, compile e = Err er).
Proof.
  pose proof (compile_total e) as T. destruct (compile e) as [n|er| |]; try contradiction; eauto.
Qed.

Lemma compile_returns (e : bytes) :
  match compile e with
  | Ok _ | Err _ => True
  | Panic | OutOfFuel => False
  end.
Proof. pose proof (compile_total e) as T. destruct (compile e) as [n|[o| |]| |]; auto. Qed.

Lemma compile_offset_in_range (e : bytes) o : compile e = Err (ESyntax o) -> 0 <= o <= elen e.
Proof. intros E. pose proof (compile_total e) as T. rewrite E in T. exact T. Qed.

Lemma highlight_of_compile_error (e : bytes) o :
  compile e = Err (ESyntax o) ->
  highlight_location e o = Ok (e ++ [10%N] ++ repeat 32%N (Z.to_nat o) ++ [94%N]).
Proof.
  intros E. apply compile_offset_in_range in E. unfold highlight_location.
  destruct (o <? 0) eqn:Eo; [lia | reflexivity].
Qed.

Lemma must_compile_panics_iff (e : bytes) :
  (must_compile e = Panic <-> exists er, compile e = Err er) /\
  (forall n, compile e = Ok n -> must_compile e = Ok n).
Proof.
  pose proof (compile_total e) as T. unfold must_compile.
  destruct (compile e) as [n|er| |]; try contradiction.
  - split; [split; [discriminate | intros [er E]; discriminate] | intros n0 E; exact E].
  - split; [split; [eauto | reflexivity] | discriminate].
Qed.

End WithNum.

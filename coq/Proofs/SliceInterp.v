(* SliceInterp.v — the slice node of the interpreter, on top of SliceFacts. *)
From JM Require Import Model.Base Model.Num Model.Value Model.Slice Model.Functions Model.Interp.
From JM Require Import Spec.PySlice Proofs.SliceFacts.
From Coq Require Import ZifyBool.

Section WithNum.
Context {NumO : NumOps}.
Variable ord : obj -> obj.

Definition int64_opt (o : option Z) : Prop := forall z, o = Some z -> - two63 <= z < two63.

Definition slice_node (a b c : option Z) : node := Node ASTSlice (NVSlice a b c) [].

Lemma execute_slice_array fuel (xs : list value) a b c :
  zlen xs < two63 -> int64_opt a -> int64_opt b -> int64_opt c ->
  Execute ord (S fuel) (slice_node a b c) (VArr xs) =
  match py_slice xs a b c with
  | Some ys => Ok (VArr ys)
  | None => Err EEval
  end.
Proof.
  intros Hl Ha Hb Hc. cbn [Execute slice_node].
  destruct (two63 <=? zlen xs) eqn:Eh; [lia|].
  rewrite (slice_go_python xs a b c Hl Ha Hb Hc).
  destruct (py_slice xs a b c); reflexivity.
Qed.

Lemma py_slice_none_iff {A} (xs : list A) a b c :
  py_slice xs a b c = None <-> c = Some 0.
Proof.
  unfold py_slice, py_indices. destruct c as [s|]; cbn.
  - destruct (Z.eqb_spec s 0) as [->|Hne].
    + split; reflexivity.
    + split; [discriminate|]. intros H. exfalso. apply Hne. congruence.
  - split; discriminate.
Qed.

Lemma int64_opt_zero : int64_opt (Some 0).
Proof. intros z Hz. injection Hz as <-. unfold two63. lia. Qed.

Lemma execute_slice_step_zero fuel (xs : list value) a b :
  zlen xs < two63 -> int64_opt a -> int64_opt b ->
  Execute ord (S fuel) (slice_node a b (Some 0)) (VArr xs) = Err EEval.
Proof.
  intros Hl Ha Hb.
  rewrite (execute_slice_array fuel xs a b (Some 0) Hl Ha Hb int64_opt_zero).
  rewrite (proj2 (py_slice_none_iff xs a b (Some 0)) eq_refl). reflexivity.
Qed.

Lemma execute_slice_non_array fuel v a b c :
  (forall xs, v <> VArr xs) ->
  Execute ord (S fuel) (slice_node a b c) v = Ok VNull.
Proof.
  intros H. cbn [Execute slice_node]. destruct v; try reflexivity. exfalso. eapply H. reflexivity.
Qed.

(* no parameter value makes the slice panic or hang *)
Lemma execute_slice_returns fuel v a b c :
  (forall xs, v = VArr xs -> zlen xs < two63) -> int64_opt a -> int64_opt b -> int64_opt c ->
  returns (Execute ord (S fuel) (slice_node a b c) v).
Proof.
  intros Hl Ha Hb Hc.
  destruct v; try (rewrite execute_slice_non_array; [exact I | congruence]).
  rewrite execute_slice_array; auto.
  destruct (py_slice l a b c); exact I.
Qed.

(* every selected element is an element of the array, at the Python index *)
Lemma py_slice_indices {A} (xs : list A) a b c ys :
  py_slice xs a b c = Some ys ->
  exists idx, py_indices (zlen xs) a b c = Some idx /\ ys = pick_idx xs idx.
Proof.
  unfold py_slice. destruct (py_indices (zlen xs) a b c) as [idx|]; [|discriminate].
  intros H. inversion H. exists idx. split; reflexivity.
Qed.

End WithNum.

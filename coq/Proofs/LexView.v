(* LexView.v — the lexer as a function of (position, remaining input).
   Model/Lexer.v follows lexer.go: a cursor into the fixed expression.  Here the
   same functions are written over the remaining input, and tokenize is proved
   equal to that reading (tokenize_view).  Statements about what the lexer does
   with a given spelling (C14) are then statements about lists. *)
From JM Require Import Model.Base Model.Num Model.Utf8 Model.Value Model.JsonText Model.Lexer.
From JM Require Import gen.Tables Proofs.ValueFacts Proofs.LexerTotal.
From Coq Require Import ZifyBool.

Section WithNum.
Context {NumO : NumOps}.

Record astate := AS { ap : Z; asuf : bytes; aw : Z }.

(* one rune off the front of the remaining input *)
Definition stepS (s : bytes) : Z * Z * bytes :=
  match s with
  | [] => (eof, 0, [])
  | _ => let '(r, k) := decode_rune s in (r, Z.of_nat k, skipn k s)
  end.
Definition nextS (a : astate) : Z * astate :=
  let '(r, k, s') := stepS (asuf a) in (r, AS (ap a + k) s' k).
Definition peekS (a : astate) : Z * astate :=
  let '(r, k, _) := stepS (asuf a) in (r, AS (ap a) (asuf a) k).
Definition endS (a : astate) : Z := ap a + zlen (asuf a).
Definition unclosedS {A} (a : astate) : outcome A := Err (ESyntax (endS a)).
Definition syntax_errorS {A} (a : astate) : outcome A := Err (ESyntax (ap a - 1)).
(* the bytes from position p0, where the remaining input was s0, up to position q *)
Definition sliceS (p0 : Z) (s0 : bytes) (q : Z) : outcome bytes :=
  if (0 <=? p0) && (p0 <=? q) && (q <=? p0 + zlen s0) then Ok (firstn (Z.to_nat (q - p0)) s0) else Panic.

(* the bytes from position ci (at or after p0) up to position q *)
Definition sliceFromS (p0 : Z) (s0 : bytes) (ci q : Z) : outcome bytes :=
  if (p0 <=? ci) && (ci <=? q) && (q <=? p0 + zlen s0)
  then Ok (firstn (Z.to_nat (q - ci)) (skipn (Z.to_nat (ci - p0)) s0)) else Panic.

Fixpoint consume_until_loopS (fuel : nat) (endr : Z) (current : Z) (a : astate) : outcome astate :=
  match fuel with
  | O => OutOfFuel
  | S f =>
    if negb (current =? endr) && negb (current =? eof) then
      let a1 :=
        if (current =? 92) then
          let '(p, ap_) := peekS a in
          if negb (p =? eof) then snd (nextS ap_) else ap_
        else a in
      let '(c', a2) := nextS a1 in
      consume_until_loopS f endr c' a2
    else Ok a
  end.

Definition consumeUntilS (endr : Z) (a : astate) : outcome (bytes * astate) :=
  let '(current, a1) := nextS a in
  a2 <- consume_until_loopS (S (length (asuf a) + Z.to_nat (ap a))) endr current a1 ;;
  if aw a2 =? 0 then unclosedS a2
  else
    s <- sliceS (ap a) (asuf a) (ap a2 - aw a2) ;;
    Ok (s, a2).

Definition consumeLiteralS (a : astate) : outcome (token * astate) :=
  let start := ap a in
  '(value, a') <- consumeUntilS 96 a ;;
  let value' := replace2 92 96 96 value in
  Ok (Token tJSONLiteral value' start (zlen value'), a').

Definition consumeQuotedIdentifierS (a : astate) : outcome (token * astate) :=
  let start := ap a in
  '(value, a') <- consumeUntilS 34 a ;;
  match json_unquote value with
  | None => Err ECompileOther
  | Some decoded => Ok (Token tQuotedIdentifier decoded (start - 1) (zlen decoded), a')
  end.


Fixpoint raw_loopS (fuel : nat) (p0 : Z) (s0 : bytes) (current : Z) (currentIndex : Z) (buf : bytes) (a : astate)
  : outcome (Z * bytes * astate) :=
  match fuel with
  | O => OutOfFuel
  | S f =>
    if current =? 39 then Ok (currentIndex, buf, a)
    else
      let '(p, a0) := peekS a in
      if p =? eof then Ok (currentIndex, buf, a0)
      else
        r <- (if (current =? 92) then
                let '(p2, a1) := peekS a0 in
                if p2 =? 39 then
                  chunk <- sliceFromS p0 s0 currentIndex (ap a1 - 1) ;;
                  let '(_, a2) := nextS a1 in
                  Ok (ap a2, buf ++ chunk ++ [39%N], a2)
                else Ok (currentIndex, buf, a1)
              else Ok (currentIndex, buf, a0)) ;;
        let '(ci, buf', a3) := r in
        let '(c', a4) := nextS a3 in
        raw_loopS f p0 s0 c' ci buf' a4
  end.

Definition consumeRawStringLiteralS (a : astate) : outcome (token * astate) :=
  let start := ap a in
  let '(current, a1) := nextS a in
  '(ci, buf, a2) <- raw_loopS (S (length (asuf a) + Z.to_nat (ap a))) (ap a) (asuf a) current start [] a1 ;;
  if aw a2 =? 0 then unclosedS a2
  else
    buf' <- (if ci <? ap a2
             then chunk <- sliceFromS (ap a) (asuf a) ci (ap a2 - 1) ;; Ok (buf ++ chunk)
             else Ok buf) ;;
    Ok (Token tStringLiteral buf' start (zlen buf'), a2).

(* a0: the state before the first rune of the token was read *)
Definition matchOrElseS (first second : Z) (matched single : tokType) (a : astate) : token * astate :=
  let start := ap a - aw a in
  let '(nextRune, a1) := nextS a in
  if nextRune =? second
  then (Token matched (encode_rune first ++ encode_rune second) start 2, a1)
  else (Token single (encode_rune first) start 1, snd (peekS a)).

Definition consumeLBracketS (a : astate) : token * astate :=
  let start := ap a - aw a in
  let '(nextRune, a1) := nextS a in
  if nextRune =? 63 then (Token tFilter (str "[?") start 2, a1)
  else if nextRune =? 93 then (Token tFlatten (str "[]") start 2, a1)
  else (Token tLbracket (str "[") start 1, snd (peekS a)).

Fixpoint ident_loopS (fuel : nat) (a : astate) : outcome astate :=
  match fuel with
  | O => OutOfFuel
  | S f =>
    let '(r, a1) := nextS a in
    stop <- ident_trailing_stop r ;;
    if stop then Ok (snd (peekS a)) else ident_loopS f a1
  end.

(* p0, s0: position and remaining input where the token starts *)
Definition consumeUnquotedIdentifierS (p0 : Z) (s0 : bytes) (a : astate) : outcome (token * astate) :=
  let start := ap a - aw a in
  a' <- ident_loopS (S (length s0 + Z.to_nat p0)) a ;;
  value <- (if start =? p0 then sliceS p0 s0 (ap a') else Panic) ;;
  Ok (Token tUnquotedIdentifier value start (ap a' - start), a').

Fixpoint number_loopS (fuel : nat) (a : astate) : outcome astate :=
  match fuel with
  | O => OutOfFuel
  | S f =>
    let '(r, a1) := nextS a in
    if (r <? 48) || (57 <? r) then Ok (snd (peekS a)) else number_loopS f a1
  end.

Definition consumeNumberS (p0 : Z) (s0 : bytes) (a : astate) : outcome (token * astate) :=
  let start := ap a - aw a in
  a' <- number_loopS (S (length s0 + Z.to_nat p0)) a ;;
  value <- (if start =? p0 then sliceS p0 s0 (ap a') else Panic) ;;
  Ok (Token tNumber value start (ap a' - start), a').

Fixpoint tokenize_loopS (fuel : nat) (a : astate) (acc : list token) : outcome (list token) :=
  match fuel with
  | O => OutOfFuel
  | S f =>
    let '(r, a1) := nextS a in
    if ident_start r then
      '(t, a2) <- consumeUnquotedIdentifierS (ap a) (asuf a) a1 ;; tokenize_loopS f a2 (t :: acc)
    else
      match assoc_Z r basic_tokens with
      | Some ty =>
        tokenize_loopS f a1 (Token ty (encode_rune r) (ap a1 - aw a1) 1 :: acc)
      | None =>
        if (r =? 45) || ((48 <=? r) && (r <=? 57)) then
          '(t, a2) <- consumeNumberS (ap a) (asuf a) a1 ;; tokenize_loopS f a2 (t :: acc)
        else if r =? 91 then
          let '(t, a2) := consumeLBracketS a1 in tokenize_loopS f a2 (t :: acc)
        else if r =? 34 then
          '(t, a2) <- consumeQuotedIdentifierS a1 ;; tokenize_loopS f a2 (t :: acc)
        else if r =? 39 then
          '(t, a2) <- consumeRawStringLiteralS a1 ;; tokenize_loopS f a2 (t :: acc)
        else if r =? 96 then
          '(t, a2) <- consumeLiteralS a1 ;; tokenize_loopS f a2 (t :: acc)
        else if r =? 124 then
          let '(t, a2) := matchOrElseS r 124 tOr tPipe a1 in tokenize_loopS f a2 (t :: acc)
        else if r =? 60 then
          let '(t, a2) := matchOrElseS r 61 tLTE tLT a1 in tokenize_loopS f a2 (t :: acc)
        else if r =? 62 then
          let '(t, a2) := matchOrElseS r 61 tGTE tGT a1 in tokenize_loopS f a2 (t :: acc)
        else if r =? 33 then
          let '(t, a2) := matchOrElseS r 61 tNE tNot a1 in tokenize_loopS f a2 (t :: acc)
        else if r =? 61 then
          let '(t, a2) := matchOrElseS r 61 tEQ tUnknown a1 in tokenize_loopS f a2 (t :: acc)
        else if r =? 38 then
          let '(t, a2) := matchOrElseS r 38 tAnd tExpref a1 in tokenize_loopS f a2 (t :: acc)
        else if r =? eof then
          Ok (rev (Token tEOF [] (endS a1) 0 :: acc))
        else if is_white r then tokenize_loopS f a1 acc
        else syntax_errorS a1
      end
  end.

Definition tokenizeS (e : bytes) : outcome (list token) :=
  tokenize_loopS (S (S (length e))) (AS 0 e 0) [].

(* ---- the cursor reading and the remaining-input reading agree ---- *)
Section Expr.
Variable e : bytes.

(* the remaining input at position p is s *)
Definition At (p : Z) (s : bytes) : Prop := 0 <= p /\ p + zlen s = elen e /\ skipn (Z.to_nat p) e = s.
Definition Rel (st : lstate) (a : astate) : Prop :=
  currentPos st = ap a /\ lastWidth st = aw a /\ At (ap a) (asuf a).

Lemma skipn_skipn' {A} (a b : nat) (l : list A) : skipn a (skipn b l) = skipn (b + a) l.
Proof. revert l. induction b as [|b IH]; intros l; [reflexivity|]. destruct l; [destruct a; reflexivity|]. apply IH. Qed.

Lemma At_start : At 0 e.
Proof. unfold At, elen. repeat split; try lia. Qed.

Lemma At_step p s : At p s -> s <> [] ->
  let '(r, k, s') := stepS s in At (p + k) s' /\ 1 <= k <= zlen s.
Proof.
  intros [H0 [H1 H2]] Hs. unfold stepS. destruct s as [|b s0]; [congruence|].
  pose proof (decode_rune_width (b :: s0) Hs) as [W1 [W2 _]].
  destruct (decode_rune (b :: s0)) as [r k] eqn:Ed. cbn [fst snd] in W1, W2.
  split; [|unfold zlen; lia]. unfold At. split; [lia|]. split.
  - unfold zlen in *. rewrite skipn_length. lia.
  - rewrite <- H2. replace (Z.to_nat (p + Z.of_nat k)) with (Z.to_nat p + k)%nat by lia.
    symmetry. apply skipn_skipn'.
Qed.

Lemma next_sim st a : Rel st a ->
  fst (next e st) = fst (nextS a) /\ Rel (snd (next e st)) (snd (nextS a)).
Proof.
  destruct a as [p s w]. intros [Hp [Hw HA]]. cbn [ap aw asuf] in *. unfold next, nextS. cbn [ap aw asuf]. rewrite Hp.
  destruct HA as [H0 [H1 H2]]. destruct s as [|b s0].
  - assert (elen e <=? p = true) as -> by (unfold zlen in H1; cbn in H1; lia).
    cbn. split; [reflexivity|]. unfold Rel, At. cbn. rewrite Z.add_0_r. repeat split; auto.
  - assert (elen e <=? p = false) as -> by (unfold zlen in H1; cbn [length] in H1; lia).
    rewrite H2. unfold stepS.
    pose proof (At_step p (b :: s0)) as HS. unfold stepS in HS.
    destruct (decode_rune (b :: s0)) as [r k] eqn:Ed. cbn [fst snd].
    split; [reflexivity|]. unfold Rel. cbn [currentPos lastWidth ap aw asuf].
    split; [reflexivity|]. split; [reflexivity|]. apply HS; [repeat split; auto | discriminate].
Qed.

Lemma peek_sim st a : Rel st a ->
  fst (peek e st) = fst (peekS a) /\ Rel (snd (peek e st)) (snd (peekS a)).
Proof.
  intros HR. pose proof (next_sim st a HR) as [H1 H2]. unfold peek, peekS.
  unfold nextS in *. destruct (next e st) as [r st'] eqn:En. destruct (stepS (asuf a)) as [[r' k] s'] eqn:Es.
  cbn [fst snd] in *. split; [exact H1|]. destruct H2 as [Hp [Hw _]]. cbn [ap aw asuf] in *.
  destruct HR as [Hp0 [Hw0 HA]]. unfold Rel, back. cbn [currentPos lastWidth ap aw asuf].
  repeat split; try lia; apply HA.
Qed.

Lemma slice_sim p0 s0 q : At p0 s0 -> slice_or_panic e p0 q = sliceS p0 s0 q.
Proof.
  intros [H0 [H1 H2]]. unfold slice_or_panic, sliceS. rewrite <- H1.
  assert (0 <=? p0 = true) as -> by lia. cbn [andb].
  destruct ((p0 <=? q) && (q <=? p0 + zlen s0)) eqn:E; [|reflexivity].
  unfold substr. rewrite H2. f_equal. f_equal. lia.
Qed.

Lemma Rel_end st a : Rel st a -> elen e = endS a.
Proof. intros [_ [_ [_ [H _]]]]. unfold endS. lia. Qed.

Lemma sliceFrom_sim p0 s0 ci q : At p0 s0 -> p0 <= ci -> slice_or_panic e ci q = sliceFromS p0 s0 ci q.
Proof.
  intros [H0 [H1 H2]] Hci. unfold slice_or_panic, sliceFromS. rewrite <- H1.
  assert (0 <=? ci = true) as -> by lia. assert (p0 <=? ci = true) as -> by lia. cbn [andb].
  destruct ((ci <=? q) && (q <=? p0 + zlen s0)) eqn:E; [|reflexivity].
  unfold substr. f_equal. f_equal; [lia|]. rewrite <- H2, skipn_skipn'. f_equal. lia.
Qed.

Definition RelO (x : outcome lstate) (y : outcome astate) : Prop :=
  match x, y with
  | Ok st, Ok a => Rel st a
  | Err a, Err b => a = b
  | Panic, Panic => True
  | OutOfFuel, OutOfFuel => True
  | _, _ => False
  end.
Definition RelT {T} (x : outcome (T * lstate)) (y : outcome (T * astate)) : Prop :=
  match x, y with
  | Ok (t, st), Ok (t', a) => t = t' /\ Rel st a
  | Err a, Err b => a = b
  | Panic, Panic => True
  | OutOfFuel, OutOfFuel => True
  | _, _ => False
  end.

(* read one rune on both sides *)
Ltac sim_next HR r st' a' HR' :=
  let N := fresh "N" in
  match type of HR with Rel ?st0 ?a0 =>
    pose proof (next_sim _ _ HR) as N;
    let E := fresh "EnS" in
    destruct (next e st0) as [r st'], (nextS a0) as [? a'] eqn:E;
    cbn [fst snd] in N; destruct N as [<- HR'] end.
Ltac sim_peek HR r st' a' HR' :=
  let N := fresh "N" in
  match type of HR with Rel ?st0 ?a0 =>
    pose proof (peek_sim _ _ HR) as N;
    let E := fresh "EpS" in
    destruct (peek e st0) as [r st'], (peekS a0) as [? a'] eqn:E;
    cbn [fst snd] in N; destruct N as [<- HR'] end.

Lemma consume_until_loop_sim endr : forall fuel c st a, Rel st a ->
  RelO (consume_until_loop fuel e endr c st) (consume_until_loopS fuel endr c a).
Proof.
  induction fuel as [|f IH]; intros c st a HR; [exact I|]. cbn [consume_until_loop consume_until_loopS].
  destruct (negb (c =? endr) && negb (c =? eof)); [|exact HR].
  destruct (c =? 92).
  - sim_peek HR p stp ap_ HRp. destruct (negb (p =? eof)).
    + pose proof (next_sim _ _ HRp) as [_ HR1].
      sim_next HR1 c' st2 a2 HR2. apply IH. exact HR2.
    + sim_next HRp c' st2 a2 HR2. apply IH. exact HR2.
  - sim_next HR c' st2 a2 HR2. apply IH. exact HR2.
Qed.

Lemma At_fuel p s : At p s -> (length s + Z.to_nat p)%nat = length e.
Proof. intros [H0 [H1 _]]. unfold zlen, elen, zlen in *. lia. Qed.

Lemma consumeUntil_sim endr st a : Rel st a -> RelT (consumeUntil e endr st) (consumeUntilS endr a).
Proof.
  intros HR. unfold consumeUntil, consumeUntilS.
  assert (HA : At (ap a) (asuf a)) by apply HR. rewrite (At_fuel _ _ HA).
  assert (Hstart : currentPos st = ap a) by apply HR. rewrite Hstart.
  sim_next HR c st1 a1 HR1.
  pose proof (consume_until_loop_sim endr (S (length e)) c st1 a1 HR1) as HL.
  destruct (consume_until_loop _ e endr c st1) as [st2|er| |], (consume_until_loopS _ endr c a1) as [a2|er'| |];
    cbn [RelO bind] in *; try contradiction; try exact HL; try exact I.
  destruct HL as [Hp [Hw HA2]]. rewrite Hw.
  destruct (aw a2 =? 0).
  - unfold unclosed, unclosedS. cbn. f_equal. f_equal. apply (Rel_end st2 a2). split; [exact Hp | split; [exact Hw | exact HA2]].
  - rewrite Hp. rewrite (slice_sim _ _ _ HA).
    destruct (sliceS (ap a) (asuf a) (ap a2 - aw a2)); cbn; try exact I; try reflexivity.
    split; [reflexivity|]. split; [exact Hp | split; [exact Hw | exact HA2]].
Qed.

Lemma consumeLiteral_sim st a : Rel st a -> RelT (consumeLiteral e st) (consumeLiteralS a).
Proof.
  intros HR. unfold consumeLiteral, consumeLiteralS. pose proof (consumeUntil_sim 96 st a HR) as H.
  assert (Hstart : currentPos st = ap a) by apply HR. rewrite Hstart.
  destruct (consumeUntil e 96 st) as [[v st']|er| |], (consumeUntilS 96 a) as [[v' a']|er'| |];
    cbn [RelT bind] in *; try contradiction; try exact H; try exact I.
  destruct H as [<- H]. split; [reflexivity | exact H].
Qed.

Lemma consumeQuotedIdentifier_sim st a : Rel st a -> RelT (consumeQuotedIdentifier e st) (consumeQuotedIdentifierS a).
Proof.
  intros HR. unfold consumeQuotedIdentifier, consumeQuotedIdentifierS. pose proof (consumeUntil_sim 34 st a HR) as H.
  assert (Hstart : currentPos st = ap a) by apply HR. rewrite Hstart.
  destruct (consumeUntil e 34 st) as [[v st']|er| |], (consumeUntilS 34 a) as [[v' a']|er'| |];
    cbn [RelT bind] in *; try contradiction; try exact H; try exact I.
  destruct H as [<- H]. destruct (json_unquote v); cbn; [split; [reflexivity | exact H] | reflexivity].
Qed.

Lemma back_next_peek st : back (snd (next e st)) = snd (peek e st).
Proof. unfold peek. destruct (next e st). reflexivity. Qed.

Lemma Rel_back st a : Rel st a -> Rel (back (snd (next e st))) (snd (peekS a)).
Proof. intros HR. rewrite back_next_peek. apply (peek_sim st a HR). Qed.

Lemma peekS_ap a r a' : peekS a = (r, a') -> ap a' = ap a.
Proof. unfold peekS. destruct (stepS (asuf a)) as [[r0 k] s']. intros H; inversion H; reflexivity. Qed.

Lemma stepS_width s : let '(r, k, s') := stepS s in 0 <= k.
Proof. unfold stepS. destruct s; [lia|]. destruct (decode_rune (n :: s)). lia. Qed.

Lemma nextS_ap a r a' : nextS a = (r, a') -> ap a <= ap a'.
Proof.
  unfold nextS. pose proof (stepS_width (asuf a)) as W. destruct (stepS (asuf a)) as [[r0 k] s'].
  intros H; inversion H; cbn; lia.
Qed.

Lemma raw_loop_sim p0 s0 : At p0 s0 -> forall fuel c ci buf st a, Rel st a -> p0 <= ci -> p0 <= ap a ->
  match raw_loop fuel e c ci buf st, raw_loopS fuel p0 s0 c ci buf a with
  | Ok (ci1, b1, st'), Ok (ci2, b2, a') => ci1 = ci2 /\ b1 = b2 /\ Rel st' a' /\ p0 <= ci1
  | Err x, Err y => x = y
  | Panic, Panic => True
  | OutOfFuel, OutOfFuel => True
  | _, _ => False
  end.
Proof.
  intros HA0. induction fuel as [|f IH]; intros c ci buf st a HR Hci Hpa; [exact I|].
  cbn [raw_loop raw_loopS]. destruct (c =? 39); [split; [reflexivity | split; [reflexivity | split; [exact HR | exact Hci]]]|].
  sim_peek HR p st0 a0 HR0. pose proof (peekS_ap _ _ _ EpS) as Hp0.
  destruct (p =? eof); [split; [reflexivity | split; [reflexivity | split; [exact HR0 | exact Hci]]]|].
  destruct (c =? 92).
  - sim_peek HR0 p2 st1 a1 HR1. pose proof (peekS_ap _ _ _ EpS0) as Hp1.
    destruct (p2 =? 39).
    + assert (Hc : currentPos st1 = ap a1) by apply HR1. rewrite Hc.
      rewrite (sliceFrom_sim p0 s0 ci _ HA0 Hci).
      destruct (sliceFromS p0 s0 ci (ap a1 - 1)) as [chunk| | |]; cbn [bind]; try exact I; try reflexivity.
      sim_next HR1 c1 st2 a2 HR2. pose proof (nextS_ap _ _ _ EnS) as Hn2.
      assert (Hc2 : currentPos st2 = ap a2) by apply HR2. rewrite Hc2. cbn [bind].
      sim_next HR2 c' st4 a4 HR4. pose proof (nextS_ap _ _ _ EnS0) as Hn4.
      apply IH; [exact HR4 | lia | lia].
    + cbn [bind]. sim_next HR1 c' st4 a4 HR4. pose proof (nextS_ap _ _ _ EnS) as Hn4.
      apply IH; [exact HR4 | lia | lia].
  - cbn [bind]. sim_next HR0 c' st4 a4 HR4. pose proof (nextS_ap _ _ _ EnS) as Hn4.
    apply IH; [exact HR4 | lia | lia].
Qed.

Lemma consumeRawStringLiteral_sim st a : Rel st a ->
  RelT (consumeRawStringLiteral e st) (consumeRawStringLiteralS a).
Proof.
  intros HR. unfold consumeRawStringLiteral, consumeRawStringLiteralS.
  assert (HA : At (ap a) (asuf a)) by apply HR. rewrite (At_fuel _ _ HA).
  assert (Hstart : currentPos st = ap a) by apply HR. rewrite Hstart.
  sim_next HR c st1 a1 HR1. pose proof (nextS_ap _ _ _ EnS) as Hn1.
  pose proof (raw_loop_sim (ap a) (asuf a) HA (S (length e)) c (ap a) [] st1 a1 HR1 (Z.le_refl _) Hn1) as HL.
  destruct (raw_loop _ e c (ap a) [] st1) as [[[ci1 b1] st2]|er| |],
           (raw_loopS _ (ap a) (asuf a) c (ap a) [] a1) as [[[ci2 b2] a2]|er'| |];
    cbn [bind] in *; try contradiction; try exact HL; try exact I.
  destruct HL as [<- [<- [HR2 Hci]]]. destruct HR2 as [Hp [Hw HA2]]. rewrite Hw, Hp.
  destruct (aw a2 =? 0).
  - unfold unclosed, unclosedS. cbn. f_equal. f_equal. apply (Rel_end st2 a2). split; [exact Hp | split; [exact Hw | exact HA2]].
  - destruct (ci1 <? ap a2).
    + rewrite (sliceFrom_sim (ap a) (asuf a) ci1 _ HA Hci).
      destruct (sliceFromS (ap a) (asuf a) ci1 (ap a2 - 1)); cbn; try exact I; try reflexivity.
      split; [reflexivity|]. split; [exact Hp | split; [exact Hw | exact HA2]].
    + cbn. split; [reflexivity|]. split; [exact Hp | split; [exact Hw | exact HA2]].
Qed.

Lemma matchOrElse_sim first second m1 m2 st a : Rel st a ->
  fst (matchOrElse e first second m1 m2 st) = fst (matchOrElseS first second m1 m2 a) /\
  Rel (snd (matchOrElse e first second m1 m2 st)) (snd (matchOrElseS first second m1 m2 a)).
Proof.
  intros HR. unfold matchOrElse, matchOrElseS. pose proof (Rel_back st a HR) as HB.
  destruct HR as [Hp [Hw HA]]. rewrite Hp, Hw.
  assert (HR : Rel st a) by (split; [exact Hp | split; [exact Hw | exact HA]]).
  pose proof (next_sim _ _ HR) as N. destruct (next e st) as [r st1], (nextS a) as [r' a1]. cbn [fst snd] in *.
  destruct N as [<- HR1]. destruct (r =? second); cbn [fst snd]; split; auto.
Qed.

Lemma consumeLBracket_sim st a : Rel st a ->
  fst (consumeLBracket e st) = fst (consumeLBracketS a) /\
  Rel (snd (consumeLBracket e st)) (snd (consumeLBracketS a)).
Proof.
  intros HR. unfold consumeLBracket, consumeLBracketS. pose proof (Rel_back st a HR) as HB.
  destruct HR as [Hp [Hw HA]]. rewrite Hp, Hw.
  assert (HR : Rel st a) by (split; [exact Hp | split; [exact Hw | exact HA]]).
  pose proof (next_sim _ _ HR) as N. destruct (next e st) as [r st1], (nextS a) as [r' a1]. cbn [fst snd] in *.
  destruct N as [<- HR1]. destruct (r =? 63); [cbn [fst snd]; split; auto|].
  destruct (r =? 93); cbn [fst snd]; split; auto.
Qed.

Lemma ident_loop_sim : forall fuel st a, Rel st a -> RelO (ident_loop fuel e st) (ident_loopS fuel a).
Proof.
  induction fuel as [|f IH]; intros st a HR; [exact I|]. cbn [ident_loop ident_loopS].
  pose proof (Rel_back st a HR) as HB.
  pose proof (next_sim _ _ HR) as N. destruct (next e st) as [r st1], (nextS a) as [r' a1]. cbn [fst snd] in *.
  destruct N as [<- HR1]. destruct (ident_trailing_stop r) as [[|]| | |]; cbn [bind RelO]; auto.
Qed.

Lemma number_loop_sim : forall fuel st a, Rel st a -> RelO (number_loop fuel e st) (number_loopS fuel a).
Proof.
  induction fuel as [|f IH]; intros st a HR; [exact I|]. cbn [number_loop number_loopS].
  pose proof (Rel_back st a HR) as HB.
  pose proof (next_sim _ _ HR) as N. destruct (next e st) as [r st1], (nextS a) as [r' a1]. cbn [fst snd] in *.
  destruct N as [<- HR1]. destruct ((r <? 48) || (57 <? r)); cbn [RelO]; auto.
Qed.

Lemma consumeUnquotedIdentifier_sim p0 s0 st a : At p0 s0 -> Rel st a -> ap a - aw a = p0 ->
  RelT (consumeUnquotedIdentifier e st) (consumeUnquotedIdentifierS p0 s0 a).
Proof.
  intros HA0 HR Hs. unfold consumeUnquotedIdentifier, consumeUnquotedIdentifierS.
  rewrite (At_fuel _ _ HA0). pose proof (ident_loop_sim (S (length e)) st a HR) as HL.
  destruct HR as [Hp [Hw HA]]. rewrite Hp, Hw, Hs, Z.eqb_refl.
  destruct (ident_loop _ e st) as [st'|er| |], (ident_loopS _ a) as [a'|er'| |];
    cbn [RelO bind] in *; try contradiction; try exact HL; try exact I.
  destruct HL as [Hp' [Hw' HA']]. rewrite Hp', (slice_sim _ _ _ HA0).
  destruct (sliceS p0 s0 (ap a')); cbn; try exact I; try reflexivity.
  split; [reflexivity|]. split; [exact Hp' | split; [exact Hw' | exact HA']].
Qed.

Lemma consumeNumber_sim p0 s0 st a : At p0 s0 -> Rel st a -> ap a - aw a = p0 ->
  RelT (consumeNumber e st) (consumeNumberS p0 s0 a).
Proof.
  intros HA0 HR Hs. unfold consumeNumber, consumeNumberS.
  rewrite (At_fuel _ _ HA0). pose proof (number_loop_sim (S (length e)) st a HR) as HL.
  destruct HR as [Hp [Hw HA]]. rewrite Hp, Hw, Hs, Z.eqb_refl.
  destruct (number_loop _ e st) as [st'|er| |], (number_loopS _ a) as [a'|er'| |];
    cbn [RelO bind] in *; try contradiction; try exact HL; try exact I.
  destruct HL as [Hp' [Hw' HA']]. rewrite Hp', (slice_sim _ _ _ HA0).
  destruct (sliceS p0 s0 (ap a')); cbn; try exact I; try reflexivity.
  split; [reflexivity|]. split; [exact Hp' | split; [exact Hw' | exact HA']].
Qed.

Definition RelL (x y : outcome (list token)) : Prop := x = y.

Lemma tokenize_loop_sim : forall fuel st a acc, Rel st a ->
  tokenize_loop fuel e st acc = tokenize_loopS fuel a acc.
Proof.
  induction fuel as [|f IH]; intros st a acc HR; [reflexivity|]. cbn [tokenize_loop tokenize_loopS].
  assert (HA : At (ap a) (asuf a)) by apply HR.
  pose proof (next_sim _ _ HR) as N.
  destruct (next e st) as [r st1], (nextS a) as [r' a1] eqn:EnS. cbn [fst snd] in N. destruct N as [<- HR1].
  assert (Hstart : ap a1 - aw a1 = ap a).
  { unfold nextS in EnS. destruct (stepS (asuf a)) as [[r0 k] s']. inversion EnS; subst. cbn. lia. }
  destruct (ident_start r).
  { pose proof (consumeUnquotedIdentifier_sim (ap a) (asuf a) st1 a1 HA HR1 Hstart) as H.
    destruct (consumeUnquotedIdentifier e st1) as [[t st2]|er| |],
             (consumeUnquotedIdentifierS (ap a) (asuf a) a1) as [[t' a2]|er'| |];
      cbn [RelT bind] in *; try contradiction; try reflexivity; [|congruence].
    destruct H as [<- H]. apply IH. exact H. }
  destruct (assoc_Z r basic_tokens) as [ty|].
  { destruct HR1 as [Hp [Hw HA1]]. rewrite Hp, Hw. apply IH. split; [exact Hp | split; [exact Hw | exact HA1]]. }
  destruct ((r =? 45) || ((48 <=? r) && (r <=? 57))).
  { pose proof (consumeNumber_sim (ap a) (asuf a) st1 a1 HA HR1 Hstart) as H.
    destruct (consumeNumber e st1) as [[t st2]|er| |],
             (consumeNumberS (ap a) (asuf a) a1) as [[t' a2]|er'| |];
      cbn [RelT bind] in *; try contradiction; try reflexivity; [|congruence].
    destruct H as [<- H]. apply IH. exact H. }
  destruct (r =? 91).
  { pose proof (consumeLBracket_sim st1 a1 HR1) as [H1 H2].
    destruct (consumeLBracket e st1) as [t st2], (consumeLBracketS a1) as [t' a2]. cbn [fst snd] in *. subst t'.
    apply IH. exact H2. }
  destruct (r =? 34).
  { pose proof (consumeQuotedIdentifier_sim st1 a1 HR1) as H.
    destruct (consumeQuotedIdentifier e st1) as [[t st2]|er| |],
             (consumeQuotedIdentifierS a1) as [[t' a2]|er'| |];
      cbn [RelT bind] in *; try contradiction; try reflexivity; [|congruence].
    destruct H as [<- H]. apply IH. exact H. }
  destruct (r =? 39).
  { pose proof (consumeRawStringLiteral_sim st1 a1 HR1) as H.
    destruct (consumeRawStringLiteral e st1) as [[t st2]|er| |],
             (consumeRawStringLiteralS a1) as [[t' a2]|er'| |];
      cbn [RelT bind] in *; try contradiction; try reflexivity; [|congruence].
    destruct H as [<- H]. apply IH. exact H. }
  destruct (r =? 96).
  { pose proof (consumeLiteral_sim st1 a1 HR1) as H.
    destruct (consumeLiteral e st1) as [[t st2]|er| |],
             (consumeLiteralS a1) as [[t' a2]|er'| |];
      cbn [RelT bind] in *; try contradiction; try reflexivity; [|congruence].
    destruct H as [<- H]. apply IH. exact H. }
  assert (MO : forall second m1 m2,
             (let '(t, st2) := matchOrElse e r second m1 m2 st1 in tokenize_loop f e st2 (t :: acc)) =
             (let '(t, a2) := matchOrElseS r second m1 m2 a1 in tokenize_loopS f a2 (t :: acc))).
  { intros second m1 m2. pose proof (matchOrElse_sim r second m1 m2 st1 a1 HR1) as [H1 H2].
    destruct (matchOrElse e r second m1 m2 st1) as [t st2], (matchOrElseS r second m1 m2 a1) as [t' a2].
    cbn [fst snd] in *. subst t'. apply IH. exact H2. }
  destruct (r =? 124); [apply MO|]. destruct (r =? 60); [apply MO|]. destruct (r =? 62); [apply MO|].
  destruct (r =? 33); [apply MO|]. destruct (r =? 61); [apply MO|]. destruct (r =? 38); [apply MO|].
  destruct (r =? eof).
  { rewrite (Rel_end st1 a1 HR1). reflexivity. }
  destruct (is_white r); [apply IH; exact HR1|].
  unfold syntax_error, syntax_errorS. destruct HR1 as [Hp _]. rewrite Hp. reflexivity.
Qed.

(* the lexer of Model/Lexer.v is the lexer over the remaining input *)
Theorem tokenize_view : tokenize e = tokenizeS e.
Proof.
  unfold tokenize, tokenizeS. apply tokenize_loop_sim. split; [reflexivity | split; [reflexivity | exact At_start]].
Qed.

End Expr.

End WithNum.

(* JsonRound.v — json.Unmarshal (json.Marshal v) = v for JSON data: all nesting
   depths up to the decoder's limit, all valid-UTF-8 strings and keys, objects with
   any number of members.  Numbers: the law that the printed form of a finite
   number is a JSON number token read back as that number is a hypothesis on the
   number type (NumText), like NumOrder; everything else is proved. *)
From JM Require Import Model.Base Model.Num Model.Utf8 Model.Value Model.JsonText.
From JM Require Import Model.Lexer Model.Parser Model.Interp Model.Api.
From JM Require Import Model.Functions Spec.Semantics.
From JM Require Import Proofs.ValueFacts Proofs.SortFacts Proofs.Utf8Facts Proofs.JsonString Proofs.LexSpell Proofs.FunSpec.
From Coq Require Import ZifyBool ZifyN ZifyNat.

Section WithNum.
Context {NumO : NumOps}.

(* what may follow a value inside a JSON text written without whitespace *)
Definition term (rest : bytes) : Prop :=
  match rest with [] => True | c :: _ => c = 44%N \/ c = 93%N \/ c = 125%N end.

(* the number law *)
Record NumText : Prop := {
  nt_scan : forall n rest, num_finite n = true -> term rest -> scan_number (num_print n ++ rest) = Some (num_print n, rest);
  nt_parse : forall n, num_finite n = true -> num_parse_json (num_print n) = Some n;
  nt_first : forall n, num_finite n = true -> exists c r, num_print n = c :: r /\ (c = 45%N \/ is_digit c = true)
}.

Definition str_ok (s : bytes) : Prop := exists rs, forallb valid_rune rs = true /\ s = string_of_runes rs.

Fixpoint vdepth (v : value) : Z :=
  match v with
  | VArr l => 1 + fold_right (fun x a => Z.max (vdepth x) a) 0 l
  | VObj m => 1 + fold_right (fun kv a => Z.max (vdepth (snd kv)) a) 0 m
  | _ => 0
  end.

(* JSON data whose strings are valid UTF-8 *)
Fixpoint jok (v : value) : Prop :=
  match v with
  | VNull | VBool _ => True
  | VNum n => num_finite n = true
  | VStr s => str_ok s
  | VArr l => (fix all (l : list value) : Prop := match l with [] => True | x :: r => jok x /\ all r end) l
  | VObj m => (fix all (m : obj) : Prop := match m with [] => True | (k, x) :: r => str_ok k /\ jok x /\ all r end) m /\
              obj_sorted m = true
  | VExp _ => False
  end.

Lemma vdepth_nonneg : forall v, 0 <= vdepth v.
Proof.
  fix IH 1. intros [ | b | n | s | l | m | e]; cbn [vdepth]; try lia.
  - assert (0 <= fold_right (fun x a => Z.max (vdepth x) a) 0 l) by (induction l as [|x l IHl]; cbn; [lia | specialize (IH x); lia]). lia.
  - assert (0 <= fold_right (fun kv a => Z.max (vdepth (snd kv)) a) 0 m) by (induction m as [|[k x] m IHm]; cbn; [lia | specialize (IH x); lia]). lia.
Qed.

Hypothesis NT : NumText.

Lemma skip_ws_nonws c r : is_ws c = false -> skip_ws (c :: r) = c :: r.
Proof. intros H. cbn [skip_ws]. rewrite H. reflexivity. Qed.

Lemma term_skip rest : term rest -> skip_ws rest = rest.
Proof. destruct rest as [|c r]; [reflexivity|]. intros [->|[->| ->]]; reflexivity. Qed.

Lemma string_text s rest f : str_ok s -> (length (marshal_string s ++ rest) <= f)%nat ->
  exists body, marshal_string s = 34%N :: body /\ string_body f (body ++ rest) [] = Some (s, rest).
Proof.
  intros [rs [Hv ->]] Hf. rewrite marshal_string_escape by exact Hv. exists (json_escape rs ++ [34%N]). split; [reflexivity|].
  rewrite <- app_assoc. cbn [app]. unfold json_escape. rewrite string_body_runes; [reflexivity | exact Hv|].
  rewrite marshal_string_escape in Hf by exact Hv. pose proof (json_escape_len rs Hv). cbn [length app] in Hf.
  rewrite !app_length in Hf. cbn [length] in Hf. lia.
Qed.

(* objects: inserting increasing keys appends *)
Definition keys_below (m : obj) (k : bytes) : Prop := Forall (fun kv => bytes_ltb (fst kv) k = true) m.

Lemma obj_set_snoc : forall m k v, keys_below m k -> obj_set k v m = m ++ [(k, v)].
Proof.
  induction m as [|[k' v'] m IH]; intros k v Hb; [reflexivity|]. inversion Hb as [|? ? Hk Hm]; subst. cbn [fst] in Hk.
  cbn [obj_set app]. assert (bytes_eqb k k' = false) as ->.
  { apply bytes_eqb_neq. intros ->. rewrite bytes_ltb_irrefl in Hk. discriminate. }
  rewrite (bytes_ltb_asym _ _ Hk). rewrite IH by exact Hm. reflexivity.
Qed.

Lemma sorted_tail k v m : obj_sorted ((k, v) :: m) = true -> obj_sorted m = true /\ Forall (fun kv => bytes_ltb k (fst kv) = true) m.
Proof.
  revert k v. induction m as [|[k2 v2] m IH]; intros k v H; [split; [reflexivity | constructor]|].
  cbn [obj_sorted] in H. apply andb_true_iff in H as [H1 H2]. split; [exact H2|].
  constructor; [exact H1|]. destruct (IH k2 v2 H2) as [_ Hall].
  eapply Forall_impl; [|exact Hall]. intros [k3 v3] H3. cbn [fst] in *. eapply bytes_ltb_trans; eauto.
Qed.

(* ---- the round trip ---- *)
Definition Spec (v : value) : Prop :=
  forall text rest fuel d, json_marshal v = Some text -> jok v -> 0 <= d -> vdepth v + d <= max_nesting_depth ->
    term rest -> (length (text ++ rest) < fuel)%nat ->
    parse_value fuel d (text ++ rest) = Some (v, rest).

(* pv reads x from any text of length at most L that starts with t and goes on with a terminator *)
Definition reads (pv : bytes -> option (value * bytes)) (L : nat) (x : value) (t : bytes) : Prop :=
  forall rest', term rest' -> (length (t ++ rest') <= L)%nat -> pv (t ++ rest') = Some (x, rest').

Lemma reads_le pv L L' x t : (L' <= L)%nat -> reads pv L x t -> reads pv L' x t.
Proof. intros Hl H rest' Ht Hlen. apply H; [exact Ht | lia]. Qed.

Lemma elems_round (pv : bytes -> option (value * bytes)) (L : nat) :
  forall (l : list value) (parts : list bytes) acc g rest,
    l <> [] -> Forall2 (reads pv L) l parts -> (length l <= g)%nat ->
    (length (join_bytes [44%N] parts ++ 93%N :: rest) <= L)%nat ->
    json_elems pv g (join_bytes [44%N] parts ++ 93%N :: rest) acc = Some (VArr (rev acc ++ l), rest).
Proof.
  induction l as [|x l IH]; intros parts acc g rest Hne Hall Hg HL; [congruence|].
  inversion Hall as [|? t ? parts' Hx Hall']; subst. destruct g as [|g]; [cbn in Hg; lia|].
  cbn [json_elems]. destruct l as [|y l'].
  - inversion Hall'; subst. cbn [join_bytes] in *.
    rewrite (Hx (93%N :: rest)) by (first [right; left; reflexivity | exact HL]).
    change (skip_ws (93%N :: rest)) with (93%N :: rest). cbn [rev]. rewrite <- ?app_assoc. reflexivity.
  - inversion Hall' as [|? t2 ? parts2 Hy Hall2]; subst.
    change (join_bytes [44%N] (t :: t2 :: parts2)) with (t ++ [44%N] ++ join_bytes [44%N] (t2 :: parts2)) in *.
    rewrite <- !app_assoc in *. cbn [app] in *.
    rewrite (Hx (44%N :: join_bytes [44%N] (t2 :: parts2) ++ 93%N :: rest)) by (first [left; reflexivity | exact HL]).
    change (skip_ws (44%N :: join_bytes [44%N] (t2 :: parts2) ++ 93%N :: rest)) with (44%N :: join_bytes [44%N] (t2 :: parts2) ++ 93%N :: rest).
    cbv iota beta. rewrite (IH (t2 :: parts2) (x :: acc) g rest ltac:(discriminate) Hall' ltac:(cbn in *; lia)).
    + cbn [rev]. rewrite <- app_assoc. reflexivity.
    + rewrite app_length in HL. cbn [length] in HL. lia.
Qed.

Definition member_ok (pv : bytes -> option (value * bytes)) (L : nat) (kv : bytes * value) (part : bytes) : Prop :=
  str_ok (fst kv) /\ exists t, part = marshal_string (fst kv) ++ 58%N :: t /\ reads pv L (snd kv) t.

Lemma members_round (pv : bytes -> option (value * bytes)) (L : nat) :
  forall (m : obj) (parts : list bytes) acc g rest,
    m <> [] -> Forall2 (member_ok pv L) m parts -> (length m <= g)%nat ->
    obj_sorted m = true -> (forall kv, In kv m -> keys_below acc (fst kv)) ->
    (length (join_bytes [44%N] parts ++ 125%N :: rest) <= L)%nat ->
    json_members pv g (join_bytes [44%N] parts ++ 125%N :: rest) acc = Some (VObj (acc ++ m), rest).
Proof.
  induction m as [|[k x] m IH]; intros parts acc g rest Hne Hall Hg Hsorted Hbelow HL; [congruence|].
  inversion Hall as [|? part ? parts' [Hk [t [Ep Hpv]]] Hall']; subst. cbn [fst snd] in *.
  destruct g as [|g]; [cbn in Hg; lia|]. cbn [json_members].
  assert (Hset : obj_set k x acc = acc ++ [(k, x)]) by (apply obj_set_snoc; apply (Hbelow (k, x)); left; reflexivity).
  destruct (sorted_tail _ _ _ Hsorted) as [Hsm Habove].
  assert (Hkey : forall tail, exists body, marshal_string k = 34%N :: body /\
                   string_body (S (length (body ++ tail))) (body ++ tail) [] = Some (k, tail)).
  { intros tail. destruct (string_text k tail (length (marshal_string k ++ tail)) Hk (le_n _)) as [body [Eb Hb]].
    exists body. split; [exact Eb|]. rewrite Eb in Hb. cbn [app length] in Hb. exact Hb. }
  destruct m as [|[k2 x2] m'].
  - inversion Hall'; subst. cbn [join_bytes] in *. rewrite <- !app_assoc in *. cbn [app] in *.
    destruct (Hkey (58%N :: t ++ 125%N :: rest)) as [body [Eb Hb]]. rewrite Eb in *. cbn [app] in *.
    change (skip_ws (34%N :: body ++ 58%N :: t ++ 125%N :: rest)) with (34%N :: body ++ 58%N :: t ++ 125%N :: rest).
    cbv iota beta. rewrite Hb.
    change (skip_ws (58%N :: t ++ 125%N :: rest)) with (58%N :: t ++ 125%N :: rest). cbv iota beta.
    rewrite (Hpv (125%N :: rest)) by (first [right; right; reflexivity | cbn [length] in HL; rewrite app_length in HL; cbn [length] in HL; lia]).
    change (skip_ws (125%N :: rest)) with (125%N :: rest). cbv iota beta. rewrite Hset. reflexivity.
  - inversion Hall' as [|? part2 ? parts2 Hm2 Hall2]; subst.
    change (join_bytes [44%N] ((marshal_string k ++ 58%N :: t) :: part2 :: parts2))
      with ((marshal_string k ++ 58%N :: t) ++ [44%N] ++ join_bytes [44%N] (part2 :: parts2)) in *.
    rewrite <- !app_assoc in *. cbn [app] in *.
    set (tailtxt := join_bytes [44%N] (part2 :: parts2) ++ 125%N :: rest) in *.
    destruct (Hkey (58%N :: t ++ 44%N :: tailtxt)) as [body [Eb Hb]]. rewrite Eb in *. cbn [app] in *.
    change (skip_ws (34%N :: body ++ 58%N :: t ++ 44%N :: tailtxt)) with (34%N :: body ++ 58%N :: t ++ 44%N :: tailtxt).
    cbv iota beta. rewrite Hb.
    change (skip_ws (58%N :: t ++ 44%N :: tailtxt)) with (58%N :: t ++ 44%N :: tailtxt). cbv iota beta.
    rewrite (Hpv (44%N :: tailtxt)) by (first [left; reflexivity | cbn [length] in HL; rewrite app_length in HL; cbn [length] in HL; lia]).
    change (skip_ws (44%N :: tailtxt)) with (44%N :: tailtxt). cbv iota beta. rewrite Hset. unfold tailtxt in *.
    rewrite (IH (part2 :: parts2) (acc ++ [(k, x)]) g rest ltac:(discriminate) Hall' ltac:(cbn in *; lia) Hsm).
    + rewrite <- app_assoc. reflexivity.
    + intros kv Hin. unfold keys_below. apply Forall_app. split.
      * apply (Hbelow kv). right. exact Hin.
      * constructor; [|constructor]. cbn [fst]. rewrite Forall_forall in Habove. apply (Habove kv Hin).
    + cbn [length] in HL. rewrite !app_length in HL. cbn [length] in HL. rewrite app_length in HL. cbn [length] in HL. lia.
Qed.


(* ---- reading json_marshal's text ---- *)
Lemma jok_arr l : jok (VArr l) -> Forall jok l.
Proof. induction l as [|x l IH]; intros H; [constructor|]. cbn in H. destruct H as [H1 H2]. constructor; [exact H1 | apply IH; exact H2]. Qed.

Lemma jok_obj m : jok (VObj m) -> Forall (fun kv => str_ok (fst kv) /\ jok (snd kv)) m /\ obj_sorted m = true.
Proof.
  intros [H Hs]. split; [|exact Hs]. clear Hs. induction m as [|[k x] m IH]; [constructor|]. destruct H as [H1 [H2 H3]].
  constructor; [split; assumption | apply IH; exact H3].
Qed.

Lemma marshal_arr_parts l text : json_marshal (VArr l) = Some text ->
  exists parts, Forall2 (fun x t => json_marshal x = Some t) l parts /\ text = 91%N :: join_bytes [44%N] parts ++ [93%N].
Proof.
  cbn [json_marshal].
  set (go := fix go (l : list value) : option (list bytes) :=
               match l with
               | [] => Some []
               | x :: r => match json_marshal x, go r with Some a, Some b => Some (a :: b) | _, _ => None end
               end).
  assert (G : forall l parts, go l = Some parts -> Forall2 (fun x t => json_marshal x = Some t) l parts).
  { induction l0 as [|x l0 IH]; intros parts H; cbn in H; [inversion H; constructor|].
    destruct (json_marshal x) as [a|] eqn:Ea; [|discriminate]. destruct (go l0) as [b|] eqn:Eb; [|discriminate].
    inversion H; subst. constructor; [exact Ea | apply IH; reflexivity]. }
  destruct (go l) as [parts|] eqn:Eg; [|discriminate]. intros H. inversion H; subst. exists parts. split; [apply G; exact Eg | reflexivity].
Qed.

Lemma marshal_obj_parts m text : json_marshal (VObj m) = Some text ->
  exists parts, Forall2 (fun (kv : bytes * value) part => exists t, json_marshal (snd kv) = Some t /\ part = marshal_string (fst kv) ++ 58%N :: t) m parts /\
                text = 123%N :: join_bytes [44%N] parts ++ [125%N].
Proof.
  cbn [json_marshal].
  set (go := fix go (m : obj) : option (list bytes) :=
               match m with
               | [] => Some []
               | (k, x) :: r => match json_marshal x, go r with
                                | Some a, Some b => Some ((marshal_string k ++ 58%N :: a) :: b)
                                | _, _ => None end
               end).
  assert (G : forall m parts, go m = Some parts ->
             Forall2 (fun (kv : bytes * value) part => exists t, json_marshal (snd kv) = Some t /\ part = marshal_string (fst kv) ++ 58%N :: t) m parts).
  { induction m0 as [|[k x] m0 IH]; intros parts H; cbn in H; [inversion H; constructor|].
    destruct (json_marshal x) as [a|] eqn:Ea; [|discriminate]. destruct (go m0) as [b|] eqn:Eb; [|discriminate].
    inversion H; subst. constructor; [exists a; split; [exact Ea | reflexivity] | apply IH; reflexivity]. }
  destruct (go m) as [parts|] eqn:Eg; [|discriminate]. intros H. inversion H; subst. exists parts. split; [apply G; exact Eg | reflexivity].
Qed.

(* the first character of a value's text: not whitespace, not a closing bracket *)
Lemma marshal_first v t : json_marshal v = Some t -> jok v ->
  exists c t', t = c :: t' /\ is_ws c = false /\ c <> 93%N /\ c <> 125%N.
Proof.
  destruct v as [ | [|] | n | s | l | m | e]; intros H Hj.
  - cbn in H. inversion H; subst. eexists _, _. split; [reflexivity|]. repeat split; discriminate.
  - cbn in H. inversion H; subst. eexists _, _. split; [reflexivity|]. repeat split; discriminate.
  - cbn in H. inversion H; subst. eexists _, _. split; [reflexivity|]. repeat split; discriminate.
  - cbn in H. cbn in Hj. rewrite Hj in H. inversion H; subst. destruct (nt_first NT n Hj) as [c [r [E Hc]]]. rewrite E.
    exists c, r. split; [reflexivity|]. destruct Hc as [->|Hd]; [repeat split; discriminate|].
    unfold is_digit in Hd. unfold is_ws. repeat split; lia.
  - cbn in H. inversion H; subst. unfold marshal_string. eexists _, _. split; [reflexivity|]. repeat split; discriminate.
  - destruct (marshal_arr_parts l t H) as [parts [_ ->]]. eexists _, _. split; [reflexivity|]. repeat split; discriminate.
  - destruct (marshal_obj_parts m t H) as [parts [_ ->]]. eexists _, _. split; [reflexivity|]. repeat split; discriminate.
  - contradiction.
Qed.

Lemma join_len parts : Forall (fun t : bytes => t <> []) parts -> (length parts <= length (join_bytes [44%N] parts))%nat.
Proof.
  induction 1 as [|t parts Ht Hall IH]; [cbn; lia|]. destruct parts as [|t2 parts'].
  - cbn [join_bytes length]. destruct t; [congruence | cbn; lia].
  - change (join_bytes [44%N] (t :: t2 :: parts')) with (t ++ [44%N] ++ join_bytes [44%N] (t2 :: parts')). rewrite !app_length.
    destruct t; [congruence|]. cbn [length] in *. lia.
Qed.


Lemma size_in_arr x l : In x l -> (value_size x < value_size (VArr l))%nat.
Proof. intros H. cbn [value_size]. induction l as [|y l IH]; [contradiction|]. destruct H as [->|H]; cbn [fold_right]; [lia | specialize (IH H); lia]. Qed.
Lemma size_in_obj kv m : In kv m -> (value_size (snd kv) < value_size (VObj m))%nat.
Proof. intros H. cbn [value_size]. induction m as [|y m IH]; [contradiction|]. destruct H as [->|H]; cbn [fold_right]; [lia | specialize (IH H); lia]. Qed.
Lemma depth_in_arr x l : In x l -> vdepth x + 1 <= vdepth (VArr l).
Proof. intros H. cbn [vdepth]. induction l as [|y l IH]; [contradiction|]. destruct H as [->|H]; cbn [fold_right]; [lia | specialize (IH H); lia]. Qed.
Lemma depth_in_obj kv m : In kv m -> vdepth (snd kv) + 1 <= vdepth (VObj m).
Proof. intros H. cbn [vdepth]. induction m as [|y m IH]; [contradiction|]. destruct H as [->|H]; cbn [fold_right]; [lia | specialize (IH H); lia]. Qed.

Lemma expect_app lit rest : expect lit (lit ++ rest) = Some rest.
Proof. induction lit as [|c lit IH]; [destruct rest; reflexivity|]. cbn [expect app]. rewrite N.eqb_refl. exact IH. Qed.

Lemma F2_length {A B} (R : A -> B -> Prop) l1 l2 : Forall2 R l1 l2 -> length l1 = length l2.
Proof. induction 1; cbn; congruence. Qed.

Lemma reads_all {A} (f : A -> value) (g : A -> bytes -> Prop) (R : A -> bytes -> Prop) (l : list A) parts :
  Forall2 g l parts -> (forall a p, In a l -> g a p -> R a p) -> Forall2 R l parts.
Proof.
  induction 1 as [|a p l parts Hg _ IH]; intros H; constructor.
  - apply H; [left; reflexivity | exact Hg].
  - apply IH. intros a' p' Hin. apply H. right. exact Hin.
Qed.

Theorem parse_marshal : forall n v, (value_size v <= n)%nat -> Spec v.
Proof.
  induction n as [|n IH]; intros v Hsz; [destruct v; cbn in Hsz; lia|].
  intros text rest fuel d Hm Hj Hd Hdepth Hterm Hfuel.
  destruct fuel as [|f]; [lia|].
  destruct v as [ | b | num | s | l | m | e].
  - (* null *) cbn in Hm. inversion Hm; subst. reflexivity.
  - (* booleans *) destruct b; cbn in Hm; inversion Hm; subst; reflexivity.
  - (* numbers *)
    cbn in Hm, Hj. rewrite Hj in Hm. inversion Hm; subst text.
    destruct (nt_first NT num Hj) as [c [r [E Hc]]].
    cbn [parse_value]. rewrite E. cbn [app].
    assert (Hws : is_ws c = false) by (destruct Hc as [->|Hc]; [reflexivity | unfold is_digit in Hc; unfold is_ws; lia]).
    rewrite (skip_ws_nonws c _ Hws).
    assert (N.eqb c 110 = false /\ N.eqb c 116 = false /\ N.eqb c 102 = false /\ N.eqb c 34 = false /\ (N.eqb c 45 || is_digit c) = true) as [E1 [E2 [E3 [E4 E5]]]].
    { destruct Hc as [->|Hc]; [repeat split; reflexivity|]. unfold is_digit in *. repeat split; lia. }
    rewrite E1, E2, E3, E4, E5. change (c :: r ++ rest) with ((c :: r) ++ rest). rewrite <- E.
    rewrite (nt_scan NT num rest Hj Hterm), (nt_parse NT num Hj), Hj. reflexivity.
  - (* strings *)
    cbn in Hm. inversion Hm; subst text. cbn in Hj.
    destruct (string_text s rest (length (marshal_string s ++ rest)) Hj (le_n _)) as [body [Eb Hb]].
    cbn [parse_value]. rewrite Eb in *. cbn [app length] in *.
    rewrite (skip_ws_nonws 34%N _ eq_refl). cbv iota beta.
    change (N.eqb 34 110) with false. change (N.eqb 34 116) with false. change (N.eqb 34 102) with false. change (N.eqb 34 34) with true.
    cbv iota. rewrite Hb. reflexivity.
  - (* arrays *)
    destruct (marshal_arr_parts l text Hm) as [parts [Hparts ->]].
    cbn [parse_value app]. rewrite (skip_ws_nonws 91%N _ eq_refl).
    cbv iota beta. change (N.eqb 91 110) with false. change (N.eqb 91 116) with false. change (N.eqb 91 102) with false.
    change (N.eqb 91 34) with false. change (N.eqb 91 45 || is_digit 91) with false. change (N.eqb 91 91) with true. cbv iota.
    assert (Hdp : (max_nesting_depth <? d + 1) = false).
    { assert (1 <= vdepth (VArr l)) by (cbn [vdepth]; assert (0 <= fold_right (fun x a => Z.max (vdepth x) a) 0 l) by (clear; induction l as [|x l IHl]; cbn; [lia | pose proof (vdepth_nonneg x); lia]); lia). lia. }
    rewrite Hdp. rewrite <- ?app_assoc. cbn [app].
    destruct l as [|x0 l0].
    + inversion Hparts; subst. cbn [join_bytes app]. change (skip_ws (93%N :: rest)) with (93%N :: rest). reflexivity.
    + pose proof (jok_arr _ Hj) as Hjl.
      assert (Hne : exists c tl, join_bytes [44%N] parts ++ 93%N :: rest = c :: tl /\ is_ws c = false /\ c <> 93%N).
      { inversion Hparts as [|? t0 ? parts0 Ht0 Hrest]; subst. inversion Hjl as [|? ? Hj0 _]; subst.
        destruct (marshal_first x0 t0 Ht0 Hj0) as [c [t' [-> [Hc1 [Hc2 _]]]]].
        destruct parts0; cbn [join_bytes app]; eexists _, _; (split; [reflexivity | split; assumption]). }
      destruct Hne as [c [tl [Etl [Hc1 Hc2]]]].
      assert (Hsk : match skip_ws (join_bytes [44%N] parts ++ 93%N :: rest) with
                    | 93%N :: r' => Some (VArr [], r')
                    | _ => json_elems (parse_value f (d + 1)) f (join_bytes [44%N] parts ++ 93%N :: rest) []
                    end = json_elems (parse_value f (d + 1)) f (join_bytes [44%N] parts ++ 93%N :: rest) []).
      { rewrite Etl, (skip_ws_nonws c tl Hc1). destruct (N.eq_dec c 93) as [->|Hn]; [congruence|].
        destruct c as [|p]; [reflexivity|]. do 7 (destruct p as [p|p|]; try reflexivity). congruence. }
      rewrite Hsk.
      assert (Hnonempty : Forall (fun t : bytes => t <> []) parts).
      { clear - Hparts Hjl NT. induction Hparts as [|x t l' parts' Ht _ IHp]; constructor.
        - inversion Hjl; subst. destruct (marshal_first x t Ht ltac:(assumption)) as [c [t' [-> _]]]. discriminate.
        - apply IHp. inversion Hjl; assumption. }
      pose proof (join_len parts Hnonempty) as Hjl2.
      pose proof (F2_length _ _ _ Hparts) as Hlen.
      rewrite !app_length in Hfuel. cbn [length] in Hfuel. rewrite !app_length in Hfuel. cbn [length] in Hfuel.
      rewrite (elems_round (parse_value f (d + 1)) (length (join_bytes [44%N] parts ++ 93%N :: rest)) (x0 :: l0) parts [] f rest);
        [reflexivity | discriminate | | rewrite Hlen; lia | lia].
      apply (reads_all (fun x => x) _ _ _ _ Hparts). intros x t Hin Ht rest' Hterm' Hlen'.
      rewrite Forall_forall in Hjl.
      apply (IH x ltac:(pose proof (size_in_arr x _ Hin); lia) t rest' f (d + 1) Ht (Hjl x Hin) ltac:(lia)
                ltac:(pose proof (depth_in_arr x _ Hin); lia) Hterm').
      rewrite !app_length in *. cbn [length] in *. lia.
  - (* objects *)
    destruct (marshal_obj_parts m text Hm) as [parts [Hparts ->]].
    cbn [parse_value app]. rewrite (skip_ws_nonws 123%N _ eq_refl).
    cbv iota beta. change (N.eqb 123 110) with false. change (N.eqb 123 116) with false. change (N.eqb 123 102) with false.
    change (N.eqb 123 34) with false. change (N.eqb 123 45 || is_digit 123) with false. change (N.eqb 123 91) with false.
    change (N.eqb 123 123) with true. cbv iota.
    assert (Hdp : (max_nesting_depth <? d + 1) = false).
    { assert (1 <= vdepth (VObj m)) by (cbn [vdepth]; assert (0 <= fold_right (fun kv a => Z.max (vdepth (snd kv)) a) 0 m) by (clear; induction m as [|[k x] m IHm]; cbn; [lia | pose proof (vdepth_nonneg x); lia]); lia). lia. }
    rewrite Hdp. rewrite <- ?app_assoc. cbn [app].
    destruct m as [|[k0 x0] m0].
    + inversion Hparts; subst. cbn [join_bytes app]. change (skip_ws (125%N :: rest)) with (125%N :: rest). reflexivity.
    + destruct (jok_obj _ Hj) as [Hjm Hsorted].
      assert (Hne : exists tl, join_bytes [44%N] parts ++ 125%N :: rest = 34%N :: tl).
      { inversion Hparts as [|? p0 ? parts0 [t0 [_ ->]] _]; subst. cbn [fst]. unfold marshal_string.
        destruct parts0; cbn [join_bytes app]; eexists; reflexivity. }
      destruct Hne as [tl Etl].
      assert (Hsk : match skip_ws (join_bytes [44%N] parts ++ 125%N :: rest) with
                    | 125%N :: r' => Some (VObj [], r')
                    | _ => json_members (parse_value f (d + 1)) f (join_bytes [44%N] parts ++ 125%N :: rest) []
                    end = json_members (parse_value f (d + 1)) f (join_bytes [44%N] parts ++ 125%N :: rest) []).
      { rewrite Etl. reflexivity. }
      rewrite Hsk.
      assert (Hnonempty : Forall (fun t : bytes => t <> []) parts).
      { clear - Hparts. induction Hparts as [|kv p m' parts' [t [_ ->]] _ IHp]; constructor; [|exact IHp]. unfold marshal_string. discriminate. }
      pose proof (join_len parts Hnonempty) as Hjl2.
      pose proof (F2_length _ _ _ Hparts) as Hlen.
      rewrite !app_length in Hfuel. cbn [length] in Hfuel. rewrite !app_length in Hfuel. cbn [length] in Hfuel.
      rewrite (members_round (parse_value f (d + 1)) (length (join_bytes [44%N] parts ++ 125%N :: rest)) ((k0, x0) :: m0) parts [] f rest);
        [reflexivity | discriminate | | rewrite Hlen; eapply Nat.le_trans; [exact Hjl2|]; clear - Hfuel; lia | exact Hsorted | intros kv _; constructor | clear - Hfuel; rewrite app_length; cbn [length]; lia].
      apply (reads_all snd _ _ _ _ Hparts). intros kv p Hin [t [Ht ->]].
      rewrite Forall_forall in Hjm. destruct (Hjm kv Hin) as [Hk Hjx].
      split; [exact Hk|]. exists t. split; [reflexivity|]. intros rest' Hterm' Hlen'.
      apply (IH (snd kv) ltac:(pose proof (size_in_obj kv _ Hin); lia) t rest' f (d + 1) Ht Hjx ltac:(lia)
                ltac:(pose proof (depth_in_obj kv _ Hin); lia) Hterm').
      rewrite !app_length in *. cbn [length] in *. lia.
  - contradiction.
Qed.

(* json.Unmarshal (json.Marshal v) = v *)
Theorem unmarshal_marshal v text : json_marshal v = Some text -> jok v -> vdepth v <= max_nesting_depth ->
  json_unmarshal text = Some v.
Proof.
  intros Hm Hj Hd. unfold json_unmarshal.
  pose proof (parse_marshal (value_size v) v (le_n _) text [] (S (length text)) 0 Hm Hj ltac:(lia) ltac:(lia) I) as H.
  rewrite app_nil_r in H. rewrite H by lia. reflexivity.
Qed.


(* the backtick literal of json.Marshal's text of v denotes v *)
Theorem literal_of_value (ord : obj -> obj) v t d :
  json_marshal v = Some t -> jok v -> vdepth v <= max_nesting_depth -> paired t = true ->
  search ord (96%N :: lit_escape t ++ [96%N]) d = Ok v.
Proof.
  intros Hm Hj Hd Hp. rewrite (json_literal_denotes ord t d Hp). rewrite (unmarshal_marshal v t Hm Hj Hd). reflexivity.
Qed.


(* to_string of a JSON value that is not a string: a string that decodes back to the argument *)
Theorem to_string_round_trip (ord : obj -> obj) v :
  jok v -> vdepth v <= max_nesting_depth -> (forall s, v <> VStr s) ->
  exists t, spec_call ord (str "to_string") [SVal v] = Ok (VStr t) /\ json_unmarshal t = Some v.
Proof.
  intros Hj Hd Hns. rewrite (to_string_equation ord v).
  assert (Hm : exists t, json_marshal v = Some t).
  { clear Hd Hns. revert v Hj. fix IH 1. intros [ | [|] | n | s | l | m | e] Hj; try (eexists; reflexivity).
    - cbn in Hj. cbn [json_marshal]. rewrite Hj. eexists; reflexivity.
    - pose proof (jok_arr _ Hj) as Hl. cbn [json_marshal].
      assert (G : exists parts, (fix go (l : list value) : option (list bytes) :=
                    match l with [] => Some [] | x :: r => match json_marshal x, go r with Some a, Some b => Some (a :: b) | _, _ => None end end) l = Some parts).
      { clear Hj. induction l as [|x l IHl]; [eexists; reflexivity|]. inversion Hl as [|? ? Hx Hl']; subst.
        destruct (IH x Hx) as [a Ea]. destruct (IHl Hl') as [b Eb]. rewrite Ea, Eb. eexists; reflexivity. }
      destruct G as [parts ->]. eexists; reflexivity.
    - destruct (jok_obj _ Hj) as [Hm _]. cbn [json_marshal].
      assert (G : exists parts, (fix go (m : obj) : option (list bytes) :=
                    match m with [] => Some [] | (k, x) :: r => match json_marshal x, go r with Some a, Some b => Some ((marshal_string k ++ 58%N :: a) :: b) | _, _ => None end end) m = Some parts).
      { clear Hj. induction m as [|[k x] m IHm]; [eexists; reflexivity|]. inversion Hm as [|? ? [_ Hx] Hm']; subst. cbn [snd] in Hx.
        destruct (IH x Hx) as [a Ea]. destruct (IHm Hm') as [b Eb]. rewrite Ea, Eb. eexists; reflexivity. }
      destruct G as [parts ->]. eexists; reflexivity. }
  destruct Hm as [t Ht]. exists t. destruct v; try (rewrite Ht; split; [reflexivity | apply (unmarshal_marshal _ _ Ht Hj Hd)]).
  exfalso. eapply Hns. reflexivity.
Qed.

End WithNum.

(* CompileTotal.v — Compile on arbitrary bytes: a compiled expression or an
   error, never a panic, never out of fuel; a syntax error's offset lies inside
   the expression. *)
From JM Require Import Model.Base Model.Num Model.Utf8 Model.Value Model.JsonText Model.Lexer Model.Parser Model.Api.
From JM Require Import gen.Tables Proofs.TablesOk Proofs.ValueFacts Proofs.LexerTotal Proofs.ParserTotal.
From Coq Require Import ZifyBool.

Section WithNum.
Context {NumO : NumOps}.

Lemma lexed_tokens_wf (e : bytes) acc :
  Forall (fun t => 0 <= tpos t <= elen e /\ ttype t <> tEOF) acc ->
  wf_tokens (rev (Token tEOF [] (elen e) 0 :: acc)).
Proof.
  intros Hacc. cbn [rev]. unfold wf_tokens. rewrite app_length, rev_length. cbn [length].
  split; [lia|]. intros i t Ht.
  destruct (Nat.lt_ge_cases i (length (rev acc))) as [Hlt|Hge].
  - rewrite nth_error_app1 in Ht by exact Hlt. apply nth_error_In in Ht. apply in_rev in Ht.
    rewrite Forall_forall in Hacc. destruct (Hacc t Ht) as [_ Hne]. rewrite rev_length in Hlt.
    split; [intros E; contradiction | lia].
  - rewrite nth_error_app2 in Ht by exact Hge. rewrite rev_length in *.
    destruct (i - length acc)%nat as [|k] eqn:Ek; cbn in Ht.
    + inversion Ht; subst. cbn. split; [intros _; lia | reflexivity].
    + destruct k; discriminate.
Qed.

Lemma lexed_positions (e : bytes) acc t :
  Forall (fun t => 0 <= tpos t <= elen e /\ ttype t <> tEOF) acc ->
  In t (rev (Token tEOF [] (elen e) 0 :: acc)) -> 0 <= tpos t <= elen e.
Proof.
  intros Hacc Hin. apply in_rev in Hin. destruct Hin as [<-|Hin].
  - cbn. unfold elen, zlen. lia.
  - rewrite Forall_forall in Hacc. apply (Hacc t Hin).
Qed.

(* Compile: (compiled expression, nil) or (nil, error) — and nothing else *)
Theorem compile_total (e : bytes) :
  match compile e with
  | Ok _ => True
  | Err (ESyntax o) => 0 <= o <= elen e
  | Err _ => True
  | Panic => False
  | OutOfFuel => False
  end.
Proof.
  unfold compile, parse. pose proof (tokenize_total e) as T.
  destruct (tokenize e) as [ts|er| |]; cbn [bind]; try contradiction.
  - destruct T as [acc [-> Hacc]].
    pose proof (parse_tokens_total _ (lexed_tokens_wf e acc Hacc)) as P.
    destruct (parse_tokens (rev (Token tEOF [] (elen e) 0 :: acc))) as [nd|er| |]; try contradiction; [exact I|].
    destruct er; try exact I. destruct P as [t [Hin ->]]. eapply lexed_positions; eauto.
  - destruct er; try exact I. exact T.
Qed.

End WithNum.

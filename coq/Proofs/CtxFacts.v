(* CtxFacts.v — consequences of Contexts.v used by C11 and C15. *)
From JM Require Import Model.Base Model.Num Model.Value Model.Functions Model.Interp Model.Lexer Model.Parser Model.Api.
From JM Require Import Spec.Grammar Spec.PySlice Spec.Semantics.
From JM Require Import Proofs.ValueFacts Proofs.InterpRefine Proofs.Contexts.
From Coq Require Import ZifyBool Permutation.

Section WithNum.
Context {NumO : NumOps}.
Variable ord : obj -> obj.
Hypothesis ord_perm : forall m, Permutation (ord m) m.

Lemma interpreter_propagates (c : sctx) (e : expr) d v er fuel :
  sem_ok (splug c e) = true -> plain d = true -> (node_depth (compile (splug c e)) <= fuel)%nat ->
  sreached ord c d v -> eval ord e v = Err er ->
  exists er', Execute ord fuel (compile (splug c e)) d = Err er'.
Proof.
  intros H1 H2 H3 H4 H5. rewrite (execute_is_eval ord ord_perm _ _ _ H1 H2 H3).
  eapply sctx_strict; eauto.
Qed.

Lemma projection_lhs_error (l : expr) d er (r : rhs) cond :
  eval ord l d = Err er ->
  eval ord (EFlatten (Some l) r) d = Err er /\ eval ord (EFilter (Some l) cond r) d = Err er /\
  eval ord (EValProj (Some l) r) d = Err er /\ eval ord (EListProj (Some l) r) d = Err er.
Proof. intros H. cbn [eval]. rewrite H. repeat split; reflexivity. Qed.

Lemma unevaluated_operand (l r r' : expr) d x :
  eval ord l d = Ok x ->
  (truthy x = true -> eval ord (EOr l r) d = eval ord (EOr l r') d) /\
  (truthy x = false -> eval ord (EAnd l r) d = eval ord (EAnd l r') d).
Proof. intros H. cbn [eval]. rewrite H. cbn [bind]. split; intros ->; reflexivity. Qed.

Lemma empty_projection (l : expr) d (r r' : rhs) :
  eval ord l d = Ok (VArr []) ->
  eval ord (EListProj (Some l) r) d = Ok (VArr []) /\ eval ord (EListProj (Some l) r') d = Ok (VArr []).
Proof. intros H. cbn [eval]. rewrite H. split; reflexivity. Qed.

(* Search('A | B', d) = Search(B, Search(A, d)), and an error exactly when a step fails *)
Lemma pipe_is_composition (a b : expr) d :
  eval ord (EPipe a b) d = (x <- eval ord a d ;; eval ord b x).
Proof. reflexivity. Qed.

Lemma pipe_error_iff (a b : expr) d :
  (exists er, eval ord (EPipe a b) d = Err er) <->
  (exists er, eval ord a d = Err er) \/ (exists x er, eval ord a d = Ok x /\ eval ord b x = Err er).
Proof.
  rewrite pipe_is_composition. destruct (eval ord a d) as [x|e0| |]; cbn [bind]; split.
  - intros [er E]. right. eauto.
  - intros [[er E]|[x0 [er [E1 E2]]]]; [discriminate | inversion E1; subst; eauto].
  - intros _. left. eauto.
  - intros _. eauto.
  - intros [er E]. discriminate.
  - intros [[er E]|[x0 [er [E1 E2]]]]; discriminate.
  - intros [er E]. discriminate.
  - intros [[er E]|[x0 [er [E1 E2]]]]; discriminate.
Qed.

Lemma pipe_compiled (a b : expr) d :
  sem_ok a = true -> sem_ok b = true -> plain d = true ->
  search_compiled ord (compile (EPipe a b)) d = (x <- eval ord a d ;; eval ord b x).
Proof.
  intros Ha Hb Hd. rewrite (search_compiled_is_eval ord ord_perm (EPipe a b) d); [reflexivity | | exact Hd].
  cbn [sem_ok]. rewrite Ha, Hb. reflexivity.
Qed.

End WithNum.

(* ParserShape.v — whatever the parser accepts is the AST of an expression tree
   (compile e for some e whose literals contain no expression reference and
   whose integers are in the int64 range).  In particular: no ASTEmpty node,
   function names are strings, every node has the children the interpreter
   reads.  (That the tree is moreover well-precedenced and spells the token list
   is Proofs/ParserSound.v.) *)
From JM Require Import Model.Base Model.Num Model.Utf8 Model.Value Model.JsonText Model.Lexer Model.Parser.
From JM Require Import Spec.Grammar gen.Tables Proofs.TablesOk Proofs.ValueFacts Proofs.InterpRefine.
From Coq Require Import ZifyBool.

Section WithNum.
Context {NumO : NumOps}.

Lemma bind_ok_inv {A B} (x : outcome A) (k : A -> outcome B) r :
  bind x k = Ok r -> exists a, x = Ok a /\ k a = Ok r.
Proof. destruct x; cbn; intros H; try discriminate. eauto. Qed.

(* ---- json.Unmarshal yields JSON data: finite numbers, well-formed objects, no expression reference ---- *)
Lemma json_elems_json (pv : bytes -> option (value * bytes)) :
  (forall s v r, pv s = Some (v, r) -> is_json v = true) ->
  forall g s acc v r, Forall (fun x => is_json x = true) acc ->
                      json_elems pv g s acc = Some (v, r) -> is_json v = true.
Proof.
  intros Hpv. induction g as [|g IH]; intros s acc v r Hacc H; [discriminate|].
  cbn [json_elems] in H. destruct (pv s) as [[x r1]|] eqn:Ex; [|discriminate].
  assert (Hx := Hpv _ _ _ Ex).
  destruct (skip_ws r1) as [|c r2]; [discriminate|].
  destruct (N.eqb_spec c 44) as [->|]; [eapply IH; [|exact H]; constructor; assumption|].
  destruct (N.eqb_spec c 93) as [->|].
  - assert (Hp : is_json (VArr (rev (x :: acc))) = true) by (apply is_json_arr; apply Forall_rev; constructor; assumption).
    inversion H; subst. exact Hp.
  - destruct c as [|p]; try discriminate; repeat (destruct p as [p|p|]; try discriminate); congruence.
Qed.

Lemma json_members_json (pv : bytes -> option (value * bytes)) :
  (forall s v r, pv s = Some (v, r) -> is_json v = true) ->
  forall g s acc v r, is_json (VObj acc) = true ->
                      json_members pv g s acc = Some (v, r) -> is_json v = true.
Proof.
  intros Hpv. induction g as [|g IH]; intros s acc v r Hacc H; [discriminate|].
  cbn [json_members] in H. destruct (skip_ws s) as [|c0 r0]; [discriminate|].
  destruct (N.eqb_spec c0 34) as [->|]; [|destruct c0 as [|p]; try discriminate; repeat (destruct p as [p|p|]; try discriminate); congruence].
  destruct (string_body _ r0 []) as [[k r1]|]; [|discriminate].
  destruct (skip_ws r1) as [|c1 r2]; [discriminate|].
  destruct (N.eqb_spec c1 58) as [->|]; [|destruct c1 as [|p]; try discriminate; repeat (destruct p as [p|p|]; try discriminate); congruence].
  destruct (pv r2) as [[x r3]|] eqn:Ex; [|discriminate].
  assert (Hx := Hpv _ _ _ Ex). assert (Hacc' := is_json_obj_set k x acc Hx Hacc).
  destruct (skip_ws r3) as [|c3 r4]; [discriminate|].
  destruct (N.eqb_spec c3 44) as [->|]; [eapply IH; [|exact H]; exact Hacc'|].
  destruct (N.eqb_spec c3 125) as [->|].
  - inversion H; subst. exact Hacc'.
  - destruct c3 as [|p]; try discriminate; repeat (destruct p as [p|p|]; try discriminate); congruence.
Qed.

Lemma parse_value_json : forall fuel depth s v r, parse_value fuel depth s = Some (v, r) -> is_json v = true.
Proof.
  induction fuel as [|fuel IH]; intros depth s v r H; [discriminate|].
  cbn [parse_value] in H. destruct (skip_ws s) as [|c rest]; [discriminate|].
  repeat match type of H with
         | (if ?b then _ else _) = _ => destruct b eqn:?
         end; try discriminate.
  - destruct (expect _ rest); inversion H; reflexivity.
  - destruct (expect _ rest); inversion H; reflexivity.
  - destruct (expect _ rest); inversion H; reflexivity.
  - destruct (string_body _ rest []) as [[b r']|]; inversion H; reflexivity.
  - destruct (scan_number (c :: rest)) as [[tok r']|]; [|discriminate].
    destruct (num_parse_json tok) as [n|]; [|discriminate]. destruct (num_finite n) eqn:Ef; inversion H; subst. exact Ef.
  - assert (G : json_elems (parse_value fuel (depth + 1)) fuel rest [] = Some (v, r) -> is_json v = true).
    { apply json_elems_json; [intros; eapply IH; eauto | constructor]. }
    destruct (skip_ws rest) as [|c2 rest2]; [apply G; exact H|].
    destruct (N.eqb_spec c2 93) as [->|]; [inversion H; reflexivity|].
    apply G. destruct c2 as [|p]; try exact H; repeat (destruct p as [p|p|]; try exact H); congruence.
  - assert (G : json_members (parse_value fuel (depth + 1)) fuel rest [] = Some (v, r) -> is_json v = true).
    { apply json_members_json; [intros; eapply IH; eauto | reflexivity]. }
    destruct (skip_ws rest) as [|c2 rest2]; [apply G; exact H|].
    destruct (N.eqb_spec c2 125) as [->|]; [inversion H; reflexivity|].
    apply G. destruct c2 as [|p]; try exact H; repeat (destruct p as [p|p|]; try exact H); congruence.
Qed.

Lemma json_unmarshal_json s v : json_unmarshal s = Some v -> is_json v = true.
Proof.
  unfold json_unmarshal. destruct (parse_value _ 0 s) as [[x r]|] eqn:E; [|discriminate].
  destruct (skip_ws r); [|discriminate]. intros H. inversion H; subst. eapply parse_value_json; eauto.
Qed.

(* ---- shapes ---- *)
Definition is_compiled (n : node) : Prop := exists e, n = compile e /\ sem_ok e = true.
Definition is_rhs (n : node) : Prop := n = ident_node \/ is_compiled n.
(* what parseIndexExpression returns *)
Definition is_bracket (n : node) : Prop :=
  (exists z, n = Node ASTIndex (NVInt z) [] /\ in_int64 z = true) \/
  (exists a b c, n = Node ASTSlice (NVSlice a b c) [] /\
                 opt_int64 a = true /\ opt_int64 b = true /\ opt_int64 c = true).

Lemma rhs_cases n : is_rhs n -> exists r : rhs, n = rhs_node r /\ rok r = true.
Proof.
  intros [->|[e [-> He]]].
  - exists RNone. split; reflexivity.
  - (* any compiled node can stand as a right-hand side; the dot/bracket distinction is a matter of spelling *)
    exists (RDot e). split; [reflexivity | exact He].
Qed.

Lemma lhs_cases n : n = ident_node \/ is_compiled n -> exists l : option expr, n = lhs_node l /\ ook l = true.
Proof.
  intros [->|[e [-> He]]].
  - exists None. split; reflexivity.
  - exists (Some e). split; [reflexivity | exact He].
Qed.

Lemma atoi_int64 s z : atoi s = Some z -> in_int64 z = true.
Proof.
  unfold atoi.
  destruct (sign_of s) as [neg d].
  destruct d as [|c d]; [discriminate|].
  destruct (digits_val (c :: d) 0) as [v|]; [|discriminate].
  destruct (in_int64 (if neg then - v else v)) eqn:E; [|discriminate].
  intros H. inversion H; subst. exact E.
Qed.

Section Tokens.
Variable ts : list token.

Lemma slice_loop_shape : forall g parts index i n j,
  (let '(a, b, c) := parts in opt_int64 a = true /\ opt_int64 b = true /\ opt_int64 c = true) ->
  slice_loop ts g parts index i = Ok (n, j) -> is_bracket n.
Proof.
  induction g as [|g IH]; intros parts index i n j Hp H; [discriminate|].
  cbn [slice_loop] in H. apply bind_ok_inv in H as [cur [_ H]].
  destruct (negb (tok_eqb cur tRbracket) && Nat.ltb index 3).
  - destruct (tok_eqb cur tColon).
    + destruct (Nat.eqb (S index) 3); [unfold syntaxError in H; apply bind_ok_inv in H as [? [_ H]]; discriminate|].
      eapply IH; eauto.
    + destruct (tok_eqb cur tNumber && _).
      * apply bind_ok_inv in H as [t [_ H]]. destruct (atoi (tvalue t)) as [z|] eqn:Ez; [|discriminate].
        eapply IH; [|exact H]. apply atoi_int64 in Ez. destruct parts as [[a b] c]. destruct Hp as [Ha [Hb Hc]].
        unfold set_part. destruct index as [|[|k]]; repeat split; assumption.
      * unfold syntaxError in H. apply bind_ok_inv in H as [? [_ H]]. discriminate.
  - apply bind_ok_inv in H as [i' [_ H]]. destruct parts as [[a b] c]. inversion H; subst.
    right. exists a, b, c. split; [reflexivity | exact Hp].
Qed.

Lemma parseIndexExpression_shape i n j : parseIndexExpression ts i = Ok (n, j) -> is_bracket n.
Proof.
  unfold parseIndexExpression, parseSliceExpression. intros H.
  apply bind_ok_inv in H as [l0 [_ H]]. apply bind_ok_inv in H as [b [_ H]].
  destruct b.
  - eapply slice_loop_shape; [|exact H]. repeat split; reflexivity.
  - apply bind_ok_inv in H as [t [_ H]]. destruct (atoi (tvalue t)) as [z|] eqn:Ez; [|discriminate].
    apply bind_ok_inv in H as [i' [_ H]]. inversion H; subst. left. exists z. split; [reflexivity | eapply atoi_int64; eauto].
Qed.

Section Body.
Variable pe : Z -> nat -> outcome (node * nat).
Variable ce : node -> Z -> nat -> outcome (node * nat).
Hypothesis Hpe : forall bp i n j, pe bp i = Ok (n, j) -> is_compiled n.
Hypothesis Hce : forall l bp i n j, is_compiled l -> ce l bp i = Ok (n, j) -> is_compiled n.

Lemma compiled_list (ns : list node) :
  Forall is_compiled ns -> exists es, ns = map compile es /\ forallb sem_ok es = true.
Proof.
  induction 1 as [|n ns [e [-> He]] _ [es [-> Hes]]].
  - exists []. split; reflexivity.
  - exists (e :: es). split; [reflexivity | cbn; rewrite He, Hes; reflexivity].
Qed.

Lemma msl_loop_shape : forall g acc i n j,
  Forall is_compiled acc -> msl_loop ts pe g acc i = Ok (n, j) -> is_compiled n.
Proof.
  induction g as [|g IH]; intros acc i n j Hacc H; [discriminate|].
  cbn [msl_loop] in H. apply bind_ok_inv in H as [[e i1] [He H]]. cbn beta iota in H.
  apply bind_ok_inv in H as [c [_ H]].
  assert (Hacc' : Forall is_compiled (e :: acc)) by (constructor; [eapply Hpe; eauto | exact Hacc]).
  destruct (tok_eqb c tRbracket).
  - apply bind_ok_inv in H as [i2 [_ H]].
    destruct (compiled_list (rev (e :: acc)) (Forall_rev Hacc')) as [es [Ees Hes]].
    rewrite Ees in H. inversion H; subst.
    exists (EMSList es). split; [reflexivity | exact Hes].
  - apply bind_ok_inv in H as [i2 [_ H]]. eapply IH; eauto.
Qed.

Definition is_kvp (n : node) : Prop :=
  exists k e, n = Node ASTKeyValPair (NVStr k) [compile e] /\ sem_ok e = true.

Lemma kvp_list (ns : list node) :
  Forall is_kvp ns ->
  exists kvs : list (bool * bytes * expr),
    ns = map (fun kv => Node ASTKeyValPair (NVStr (snd (fst kv))) [compile (snd kv)]) kvs /\
    forallb (fun kv : bool * bytes * expr => sem_ok (snd kv)) kvs = true.
Proof.
  induction 1 as [|n ns [k [e [-> He]]] _ [kvs [-> Hk]]].
  - exists []. split; reflexivity.
  - exists ((false, k, e) :: kvs). split; [reflexivity | cbn; rewrite He, Hk; reflexivity].
Qed.

Lemma msh_loop_shape : forall g acc i n j,
  Forall is_kvp acc -> msh_loop ts pe g acc i = Ok (n, j) -> is_compiled n.
Proof.
  induction g as [|g IH]; intros acc i n j Hacc H; [discriminate|].
  cbn [msh_loop] in H. apply bind_ok_inv in H as [kt [_ H]]. apply bind_ok_inv in H as [c0 [_ H]].
  destruct (tok_eqb c0 tUnquotedIdentifier || tok_eqb c0 tQuotedIdentifier);
    [|unfold syntaxError in H; apply bind_ok_inv in H as [? [_ H]]; discriminate].
  apply bind_ok_inv in H as [i1 [_ H]]. apply bind_ok_inv in H as [[v i2] [Hv H]]. cbn beta iota in H.
  apply bind_ok_inv in H as [c [_ H]].
  assert (Hacc' : Forall is_kvp (mk ASTKeyValPair (NVStr (tvalue kt)) [v] :: acc)).
  { constructor; [|exact Hacc]. destruct (Hpe _ _ _ _ Hv) as [e [-> He]]. exists (tvalue kt), e. split; [reflexivity | exact He]. }
  destruct (tok_eqb c tComma); [eapply IH; eauto|].
  destruct (tok_eqb c tRbrace); [|unfold syntaxError in H; apply bind_ok_inv in H as [? [_ H]]; discriminate].
  destruct (kvp_list _ (Forall_rev Hacc')) as [kvs [Ek Hk]].
  rewrite Ek in H. inversion H; subst.
  exists (EMSHash kvs). split; [reflexivity | exact Hk].
Qed.

Lemma parseDotRHS_shape bp i n j : parseDotRHS ts pe ce bp i = Ok (n, j) -> is_compiled n.
Proof.
  unfold parseDotRHS. intros H. apply bind_ok_inv in H as [la [_ H]].
  destruct (_ || _ || _); [eapply Hpe; eauto|].
  destruct (tok_eqb la tLbracket).
  - apply bind_ok_inv in H as [i1 [_ H]]. apply bind_ok_inv in H as [[l i2] [Hl H]]. cbn beta iota in H.
    eapply Hce; [|exact H]. eapply msl_loop_shape; [constructor | exact Hl].
  - destruct (tok_eqb la tLbrace); [|unfold syntaxError in H; apply bind_ok_inv in H as [? [_ H]]; discriminate].
    apply bind_ok_inv in H as [i1 [_ H]]. apply bind_ok_inv in H as [[l i2] [Hl H]]. cbn beta iota in H.
    eapply Hce; [|exact H]. eapply msh_loop_shape; [constructor | exact Hl].
Qed.

Lemma parseProjectionRHS_shape bp i n j : parseProjectionRHS ts pe ce bp i = Ok (n, j) -> is_rhs n.
Proof.
  unfold parseProjectionRHS. intros H. apply bind_ok_inv in H as [c [_ H]].
  destruct (binding_power c <? projection_stop); [inversion H; left; reflexivity|].
  destruct (tok_eqb c tLbracket).
  - apply bind_ok_inv in H as [nx [_ H]]. apply bind_ok_inv in H as [ok [_ H]].
    destruct ok; [right; eapply Hpe; eauto | unfold syntaxError in H; apply bind_ok_inv in H as [? [_ H]]; discriminate].
  - destruct (tok_eqb c tFilter); [right; eapply Hpe; eauto|].
    destruct (tok_eqb c tDot); [|unfold syntaxError in H; apply bind_ok_inv in H as [? [_ H]]; discriminate].
    apply bind_ok_inv in H as [i1 [_ H]]. right. eapply parseDotRHS_shape; eauto.
Qed.

Lemma projectIfSlice_shape lft rgt i n j :
  (lft = ident_node \/ is_compiled lft) -> is_bracket rgt ->
  projectIfSlice ts pe ce lft rgt i = Ok (n, j) -> is_compiled n.
Proof.
  intros Hl Hr H. unfold projectIfSlice in H. destruct (lhs_cases lft Hl) as [l [-> Hlo]].
  destruct Hr as [[z [-> Hz]]|[a [b [c [-> [Ha [Hb Hc]]]]]]]; cbn [node_type ast_eqb ast_code N.eqb] in H.
  - inversion H; subst. exists (EIndex l z). split; [reflexivity|]. cbn [sem_ok]. fold (ook l). rewrite Hlo, Hz. reflexivity.
  - change (ast_eqb ASTSlice ASTSlice) with true in H. cbn iota in H.
    apply bind_ok_inv in H as [[r i1] [Hr H]]. cbn beta iota in H. inversion H; subst.
    destruct (rhs_cases r (parseProjectionRHS_shape _ _ _ _ Hr)) as [rr [-> Hrr]].
    exists (ESlice l a b (option_map Some c) rr). split; [destruct c; reflexivity|]. cbn [sem_ok]. fold (ook l) (rok rr).
    assert (cjoin (option_map Some c) = c) as -> by (destruct c; reflexivity).
    rewrite Hlo, Ha, Hb, Hc, Hrr. reflexivity.
Qed.

Lemma parseFilter_shape nd i n j :
  (nd = ident_node \/ is_compiled nd) -> parseFilter ts pe ce nd i = Ok (n, j) -> is_compiled n.
Proof.
  intros Hl H. unfold parseFilter in H. apply bind_ok_inv in H as [[cond i1] [Hc H]]. cbn beta iota in H.
  apply bind_ok_inv in H as [i2 [_ H]]. apply bind_ok_inv in H as [c [_ H]].
  apply bind_ok_inv in H as [[r i3] [Hr H]]. cbn beta iota in H. inversion H; subst.
  destruct (lhs_cases nd Hl) as [l [-> Hlo]]. destruct (Hpe _ _ _ _ Hc) as [ec [-> Hec]].
  assert (Hrr : is_rhs r).
  { destruct (tok_eqb c tFlatten); [inversion Hr; left; reflexivity | eapply parseProjectionRHS_shape; eauto]. }
  destruct (rhs_cases r Hrr) as [rr [-> Hrk]].
  exists (EFilter l ec rr). split; [reflexivity|]. cbn [sem_ok]. fold (ook l) (rok rr). rewrite Hlo, Hec, Hrk. reflexivity.
Qed.

Definition is_arg (n : node) : Prop :=
  exists a : arg, n = carg a /\ sem_ok (match a with AExpr x => x | ARef x => x end) = true.

Lemma parseFunctionArg_shape i n j : parseFunctionArg ts pe i = Ok (n, j) -> is_arg n.
Proof.
  unfold parseFunctionArg. intros H. apply bind_ok_inv in H as [c [_ H]].
  destruct (negb (tok_eqb c tExpref)).
  - destruct (Hpe _ _ _ _ H) as [e [-> He]]. exists (AExpr e). split; [reflexivity | exact He].
  - apply bind_ok_inv in H as [[e i1] [He H]]. cbn beta iota in H. inversion H; subst.
    destruct (Hpe _ _ _ _ He) as [x [-> Hx]]. exists (ARef x). split; [reflexivity | exact Hx].
Qed.

Lemma args_loop_shape : forall g acc i ns j,
  Forall is_arg acc -> args_loop ts pe g acc i = Ok (ns, j) -> Forall is_arg ns.
Proof.
  induction g as [|g IH]; intros acc i ns j Hacc H; [discriminate|].
  cbn [args_loop] in H. apply bind_ok_inv in H as [[e i1] [He H]]. cbn beta iota in H.
  apply bind_ok_inv in H as [c [_ H]].
  assert (Hacc' : Forall is_arg (e :: acc)) by (constructor; [eapply parseFunctionArg_shape; eauto | exact Hacc]).
  destruct (tok_eqb c tRparen).
  - assert (Hr := Forall_rev Hacc'). inversion H; subst. exact Hr.
  - apply bind_ok_inv in H as [i2 [_ H]]. eapply IH; eauto.
Qed.

Lemma arg_list (ns : list node) :
  Forall is_arg ns ->
  exists args, ns = map carg args /\
               forallb (fun a => match a with AExpr x => sem_ok x | ARef x => sem_ok x end) args = true.
Proof.
  induction 1 as [|n ns [a [-> Ha]] _ [args [-> Hargs]]].
  - exists []. split; reflexivity.
  - exists (a :: args). split; [reflexivity|]. cbn [forallb]. rewrite Hargs. destruct a; cbn in *; rewrite Ha; reflexivity.
Qed.

Lemma nud_shape t i n j : nud ts pe ce t i = Ok (n, j) -> is_compiled n.
Proof.
  unfold nud. intros H. destruct (ttype t); try (unfold syntaxErrorToken in H; discriminate).
  - (* tStar *)
    apply bind_ok_inv in H as [c [_ H]]. apply bind_ok_inv in H as [[r i1] [Hr H]]. cbn beta iota in H. inversion H; subst.
    assert (Hrr : is_rhs r).
    { destruct (tok_eqb c tRbracket); [inversion Hr; left; reflexivity | eapply parseProjectionRHS_shape; eauto]. }
    destruct (rhs_cases r Hrr) as [rr [-> Hrk]].
    exists (EValProj None rr). split; [reflexivity|]. cbn [sem_ok]. fold (rok rr). rewrite Hrk. reflexivity.
  - (* tFilter *) eapply parseFilter_shape; [left; reflexivity | exact H].
  - (* tFlatten *)
    apply bind_ok_inv in H as [[r i1] [Hr H]]. cbn beta iota in H. inversion H; subst.
    destruct (rhs_cases r (parseProjectionRHS_shape _ _ _ _ Hr)) as [rr [-> Hrk]].
    exists (EFlatten None rr). split; [reflexivity|]. cbn [sem_ok]. fold (rok rr). rewrite Hrk. reflexivity.
  - (* tLparen *)
    apply bind_ok_inv in H as [[e i1] [He H]]. cbn beta iota in H. apply bind_ok_inv in H as [i2 [_ H]]. inversion H; subst.
    destruct (Hpe _ _ _ _ He) as [x [-> Hx]]. exists (EParen x). split; [reflexivity | exact Hx].
  - (* tLbracket *)
    apply bind_ok_inv in H as [c [_ H]].
    destruct (tok_eqb c tNumber || tok_eqb c tColon).
    + apply bind_ok_inv in H as [[r i1] [Hr H]]. cbn beta iota in H.
      eapply projectIfSlice_shape; [left; reflexivity | eapply parseIndexExpression_shape; eauto | exact H].
    + apply bind_ok_inv in H as [sr [_ H]]. destruct sr.
      * apply bind_ok_inv in H as [[r i1] [Hr H]]. cbn beta iota in H. inversion H; subst.
        destruct (rhs_cases r (parseProjectionRHS_shape _ _ _ _ Hr)) as [rr [-> Hrk]].
        exists (EListProj None rr). split; [reflexivity|]. cbn [sem_ok]. fold (rok rr). rewrite Hrk. reflexivity.
      * eapply msl_loop_shape; [constructor | exact H].
  - (* tLbrace *) eapply msh_loop_shape; [constructor | exact H].
  - (* tUnquotedIdentifier *) inversion H; subst. exists (EIdent false (tvalue t)). split; reflexivity.
  - (* tQuotedIdentifier *)
    apply bind_ok_inv in H as [c [_ H]]. destruct (tok_eqb c tLparen); [discriminate|].
    inversion H; subst. exists (EIdent true (tvalue t)). split; reflexivity.
  - (* tJSONLiteral *)
    destruct (json_unmarshal (tvalue t)) as [v|] eqn:Ev; [|discriminate]. inversion H; subst.
    exists (ELit v). split; [reflexivity | cbn; eapply json_unmarshal_json; eauto].
  - (* tStringLiteral *) inversion H; subst. exists (ERaw (tvalue t)). split; reflexivity.
  - (* tCurrent *) inversion H; subst. exists ECurrent. split; reflexivity.
  - (* tNot *)
    apply bind_ok_inv in H as [[e i1] [He H]]. cbn beta iota in H. inversion H; subst.
    destruct (Hpe _ _ _ _ He) as [x [-> Hx]]. exists (ENot x). split; [reflexivity | exact Hx].
Qed.

Lemma led_shape tt nd i n j : is_compiled nd -> led ts pe ce tt nd i = Ok (n, j) -> is_compiled n.
Proof.
  intros [el [-> Hel]] H. unfold led in H.
  assert (Hbin : forall ty bp (mkE : expr -> expr -> expr),
             (forall a b, compile (mkE a b) = mk ty NVNone [compile a; compile b]) ->
             (forall a b, sem_ok (mkE a b) = sem_ok a && sem_ok b) ->
             ('(rgt, i1) <- pe bp i ;; Ok (mk ty NVNone [compile el; rgt], i1)) = Ok (n, j) -> is_compiled n).
  { intros ty bp mkE Hc Hs H0. apply bind_ok_inv in H0 as [[r i1] [Hr H0]]. cbn beta iota in H0. inversion H0; subst.
    destruct (Hpe _ _ _ _ Hr) as [er [-> Her]]. exists (mkE el er). split; [symmetry; apply Hc | rewrite Hs, Hel, Her; reflexivity]. }
  assert (Hcmp : forall op bp,
             ('(rgt, i1) <- pe bp i ;; Ok (mk ASTComparator (NVTok (cmp_tok op)) [compile el; rgt], i1)) = Ok (n, j) -> is_compiled n).
  { intros op bp H0. apply bind_ok_inv in H0 as [[r i1] [Hr H0]]. cbn beta iota in H0. inversion H0; subst.
    destruct (Hpe _ _ _ _ Hr) as [er [-> Her]]. exists (ECmp op el er). split; [reflexivity | cbn [sem_ok]; rewrite Hel, Her; reflexivity]. }
  destruct tt; try (unfold syntaxError in H; apply bind_ok_inv in H as [? [_ H]]; discriminate).
  - (* tDot *)
    apply bind_ok_inv in H as [c [_ H]]. destruct (negb (tok_eqb c tStar)).
    + apply bind_ok_inv in H as [[r i1] [Hr H]]. cbn beta iota in H. inversion H; subst.
      destruct (parseDotRHS_shape _ _ _ _ Hr) as [er [-> Her]].
      exists (ESub el er). split; [reflexivity | cbn [sem_ok]; rewrite Hel, Her; reflexivity].
    + apply bind_ok_inv in H as [[r i1] [Hr H]]. cbn beta iota in H. inversion H; subst.
      destruct (rhs_cases r (parseProjectionRHS_shape _ _ _ _ Hr)) as [rr [-> Hrk]].
      exists (EValProj (Some el) rr). split; [reflexivity|]. cbn [sem_ok]. fold (rok rr). rewrite Hel, Hrk. reflexivity.
  - (* tFilter *) eapply parseFilter_shape; [right; exists el; split; [reflexivity | exact Hel] | exact H].
  - (* tFlatten *)
    apply bind_ok_inv in H as [[r i1] [Hr H]]. cbn beta iota in H. inversion H; subst.
    destruct (rhs_cases r (parseProjectionRHS_shape _ _ _ _ Hr)) as [rr [-> Hrk]].
    exists (EFlatten (Some el) rr). split; [reflexivity|]. cbn [sem_ok]. fold (rok rr). rewrite Hel, Hrk. reflexivity.
  - (* tLparen *)
    apply bind_ok_inv in H as [prev [_ H]].
    destruct (ast_eqb (node_type (compile el)) ASTField && tok_eqb (ttype prev) tUnquotedIdentifier) eqn:Ef; cbn [negb] in H;
      [|apply bind_ok_inv in H as [? [_ H]]; discriminate].
    apply bind_ok_inv in H as [c [_ H]]. apply bind_ok_inv in H as [[args i1] [Ha H]]. cbn beta iota in H.
    apply bind_ok_inv in H as [i2 [_ H]]. inversion H; subst.
    assert (Hargs : Forall is_arg args).
    { destruct (negb (tok_eqb c tRparen)); [eapply args_loop_shape; [constructor | exact Ha] | inversion Ha; constructor]. }
    destruct (arg_list args Hargs) as [al [-> Hal]].
    (* a Field node carries its name *)
    apply andb_true_iff in Ef as [Ef _].
    assert (Hname : exists name, node_val (compile el) = NVStr name).
    { clear - Ef. revert Ef. induction el; cbn; intros Ef; try discriminate; eauto. }
    destruct Hname as [name ->].
    exists (ECall name al). split; [reflexivity | exact Hal].
  - (* tLbracket *)
    apply bind_ok_inv in H as [c [_ H]].
    destruct (tok_eqb c tNumber || tok_eqb c tColon).
    + apply bind_ok_inv in H as [[r i1] [Hr H]]. cbn beta iota in H.
      eapply projectIfSlice_shape; [right; exists el; split; [reflexivity | exact Hel] | eapply parseIndexExpression_shape; eauto | exact H].
    + apply bind_ok_inv in H as [i1 [_ H]]. apply bind_ok_inv in H as [i2 [_ H]].
      apply bind_ok_inv in H as [[r i3] [Hr H]]. cbn beta iota in H. inversion H; subst.
      destruct (rhs_cases r (parseProjectionRHS_shape _ _ _ _ Hr)) as [rr [-> Hrk]].
      exists (EListProj (Some el) rr). split; [reflexivity|]. cbn [sem_ok]. fold (rok rr). rewrite Hel, Hrk. reflexivity.
  - (* tOr *) eapply (Hbin ASTOrExpression _ EOr); [reflexivity | reflexivity | exact H].
  - (* tPipe *) eapply (Hbin ASTPipe _ EPipe); [reflexivity | reflexivity | exact H].
  - eapply (Hcmp CmpLT); exact H.
  - eapply (Hcmp CmpLE); exact H.
  - eapply (Hcmp CmpGT); exact H.
  - eapply (Hcmp CmpGE); exact H.
  - eapply (Hcmp CmpEQ); exact H.
  - eapply (Hcmp CmpNE); exact H.
  - (* tAnd *) eapply (Hbin ASTAndExpression _ EAnd); [reflexivity | reflexivity | exact H].
Qed.

End Body.

Lemma pe_ce_shape : forall f,
  (forall bp i n j, parseExpression ts f bp i = Ok (n, j) -> is_compiled n) /\
  (forall l bp i n j, is_compiled l -> continueExpression ts f l bp i = Ok (n, j) -> is_compiled n).
Proof.
  induction f as [|f [IHpe IHce]]; [split; intros; discriminate|]. split.
  - intros bp i n j H. cbn [parseExpression] in H. apply bind_ok_inv in H as [t [_ H]].
    apply bind_ok_inv in H as [[l i1] [Hl H]]. cbn beta iota in H.
    eapply IHce; [|exact H]. eapply nud_shape; [exact IHpe | exact IHce | exact Hl].
  - intros l bp i n j Hlc H. cbn [continueExpression] in H. apply bind_ok_inv in H as [cur [_ H]].
    destruct (bp <? binding_power cur).
    + apply bind_ok_inv in H as [[l' i'] [Hl' H]]. cbn beta iota in H.
      eapply IHce; [|exact H]. eapply led_shape; [exact IHpe | exact IHce | exact Hlc | exact Hl'].
    + inversion H; subst. exact Hlc.
Qed.

End Tokens.

Theorem parse_shape (e : bytes) n : parse e = Ok n -> is_compiled n.
Proof.
  unfold parse. intros H. apply bind_ok_inv in H as [ts [_ H]]. unfold parse_tokens in H.
  apply bind_ok_inv in H as [[nd i] [Hp H]]. cbn beta iota in H. apply bind_ok_inv in H as [c [_ H]].
  destruct (negb (tok_eqb c tEOF)); [unfold syntaxError in H; apply bind_ok_inv in H as [? [_ H]]; discriminate|].
  inversion H; subst. eapply (proj1 (pe_ce_shape ts _)). exact Hp.
Qed.

End WithNum.

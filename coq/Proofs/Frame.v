(* Frame.v — (1) the write sites of the library, regenerated from the source on
   every run by tools/extract_tables (gen/Writes.v): every statement that stores
   into a slice, a map or a struct field stores into storage allocated by the
   same function activation, or into a field of a per-call object; none stores
   into storage reachable from a parameter (the document, a literal held by the
   compiled AST) or into a field of an object shared between calls (JMESPath,
   treeInterpreter, functionCaller, ASTNode).  (2) history independence of the
   stateful API model. *)
From JM Require Import Model.Base Model.Num Model.Utf8 Model.Value Model.JsonText Model.Lexer Model.Parser
     Model.Slice Model.Functions Model.Interp Model.Api Model.State.
From JM Require Import gen.Tables gen.Writes.

Definition site_is_fresh (w : write_site) : bool :=
  match ws_prov w with PFresh => true | PInput => false end.

Lemma all_write_sites_fresh : forallb site_is_fresh write_sites = true.
Proof. vm_compute. reflexivity. Qed.

Lemma write_site_fresh (w : write_site) : In w write_sites -> ws_prov w = PFresh.
Proof.
  intros H. pose proof all_write_sites_fresh as A. rewrite forallb_forall in A.
  specialize (A w H). unfold site_is_fresh in A. destruct (ws_prov w); [reflexivity | discriminate].
Qed.

(* the analysis saw the code that matters: it reports store statements in the methods of the
   interpreter, the parser and the lexer, in the sort adapters and in several function handlers,
   and a plausible number of them in all (by name prefix, so that extracting or renaming a
   helper does not matter) *)
Fixpoint is_prefix (p s : bytes) : bool :=
  match p, s with
  | [], _ => true
  | a :: p', b :: s' => N.eqb a b && is_prefix p' s'
  | _, [] => false
  end.
Definition sites_with_prefix (fn : String.string) : nat :=
  length (filter (fun w => is_prefix (str fn) (ws_func w)) write_sites).
Arguments sites_with_prefix fn%string_scope.
Lemma write_sites_cover :
  (Nat.leb 1 (sites_with_prefix "treeInterpreter.") && Nat.leb 1 (sites_with_prefix "Parser.") &&
   Nat.leb 1 (sites_with_prefix "Lexer.") && Nat.leb 2 (sites_with_prefix "byExpr") &&
   Nat.leb 8 (sites_with_prefix "jpf") && Nat.leb 50 (length write_sites))%bool = true.
Proof. vm_compute. reflexivity. Qed.

Section WithNum.
Context {NumO : NumOps}.
Variable ord : obj -> obj.

(* ---- history independence ---- *)
Lemma search_keeps_object (jp : jmespath) d : fst (Search_st ord jp d) = jp.
Proof. reflexivity. Qed.

Lemma run_searches_spec (jp : jmespath) ds :
  run_searches ord jp ds = (jp, map (fun d => search_compiled ord (jp_ast jp) d) ds).
Proof.
  induction ds as [|d ds IH]; [reflexivity|]. cbn [run_searches Search_st]. rewrite IH. reflexivity.
Qed.

Lemma Parse_st_result (p : parser_state) (e : bytes) : snd (Parse_st p e) = parse e.
Proof.
  unfold Parse_st, parse. destruct (tokenize e) as [ts|er| |]; cbn [bind snd]; try reflexivity.
  unfold parse_with_state, parse_tokens. cbn [ps_tokens ps_index ps_expression].
  destruct (parseExpression ts (parse_fuel ts) _ 0) as [[parsed i]|er| |]; reflexivity.
Qed.

Lemma parse_ignores_state (p : parser_state) (e : bytes) : snd (Parse_st p e) = snd (Parse_st new_parser e).
Proof. rewrite !Parse_st_result. reflexivity. Qed.

Lemma run_parses_spec (p : parser_state) es : snd (run_parses p es) = map parse es.
Proof.
  revert p. induction es as [|e es IH]; intros p; [reflexivity|]. cbn [run_parses].
  pose proof (Parse_st_result p e) as R. destruct (Parse_st p e) as [p1 o]. cbn [snd] in R. subst o.
  specialize (IH p1). destruct (run_parses p1 es) as [p2 os]. cbn [snd] in *. rewrite IH. reflexivity.
Qed.

Lemma oneshot_is_compiled (e : bytes) d :
  search ord e d = (n <- compile e ;; search_compiled ord n d).
Proof. reflexivity. Qed.

End WithNum.

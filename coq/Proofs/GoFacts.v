(* GoFacts.v — C18: on documents made of Go structs, pointers to structs and
   typed slices the interpreter (reflection paths, Model/GoVal.v) navigates as it
   does on the equivalent generic JSON document (norm), and never panics. *)
From JM Require Import Model.Base Model.Num Model.Utf8 Model.Value Model.JsonText Model.Slice Model.Functions
     Model.Interp Model.GoVal.
From JM Require Import gen.Tables Proofs.ValueFacts Proofs.SortFacts Spec.Grammar Spec.PySlice Proofs.SpecFacts Proofs.SliceFacts Proofs.InterpRefine.
From Coq Require Import ZifyBool.

Section WithNum.
Context {NumO : NumOps}.
Variable cap : bytes -> bytes.
Variable ord : obj -> obj.

Notation ExecuteG := (ExecuteG cap).

(* ---- the navigational fragment, with the arities the parser produces ---- *)
Fixpoint nav (n : node) : bool :=
  let 'Node ty val ch := n in
  match ty with
  | ASTField => match val with NVStr _ => true | _ => false end
  | ASTIdentity | ASTCurrentNode => match ch with [] => true | _ => false end
  | ASTLiteral => match val with NVJson j => is_json j | NVNone | NVStr _ => true | _ => false end
  | ASTIndex => match val with NVInt _ => true | _ => false end
  | ASTSlice => match val with NVSlice _ _ _ => true | _ => false end
  | ASTSubexpression | ASTIndexExpression | ASTOrExpression | ASTAndExpression | ASTProjection =>
    match ch with [_; _] => forallb nav ch | _ => false end
  | ASTNotExpression | ASTFlatten | ASTKeyValPair =>
    match ch with [_] => forallb nav ch | _ => false end
  | ASTFilterProjection => match ch with [_; _; _] => forallb nav ch | _ => false end
  | ASTMultiSelectList | ASTPipe => forallb nav ch
  | ASTMultiSelectHash =>
    forallb (fun c => nav c && match c with Node ASTKeyValPair (NVStr _) _ => true | _ => false end) ch
  | ASTFunctionExpression =>
    match val, ch with
    | NVStr name, [a] => bytes_eqb name (str "length") && nav a
    | _, _ => false
    end
  | _ => false
  end.

Fixpoint idents (n : node) : list bytes :=
  let 'Node ty val ch := n in
  (match ty, val with ASTField, NVStr id => [id] | _, _ => [] end) ++ flat_map idents ch.

Lemma idents_child ty val ch c : In c ch -> incl (idents c) (idents (Node ty val ch)).
Proof.
  intros Hin x Hx. cbn [idents]. apply in_app_iff. right. apply in_flat_map. exists c. split; assumption.
Qed.

(* ---- well-formed Go documents ---- *)
Definition cur (g : gval) : bool := match g with GPtr None => false | _ => true end.

Section Good.
Variable K : bytes -> Prop.       (* the JSON keys of the struct types in play *)
(* a map has distinct keys: the model keeps its members sorted by key *)
Inductive Good : gval -> Prop :=
| G_null : Good GNull
| G_bool b : Good (GBool b)
| G_num x : Good (GNum x)
| G_str s : Good (GStr s)
| G_arr l : Forall (fun x => Good x /\ cur x = true) l -> Good (GArr l)
| G_obj m : Forall (fun kv => Good (snd kv) /\ cur (snd kv) = true) m -> obj_sorted (map (fun kv => (fst kv, VNull)) m) = true -> Good (GObj m)
| G_struct fs : fs <> [] -> Forall (fun kv => K (fst kv) /\ Good (snd kv)) fs -> Good (GStruct fs)
| G_ptr_nil : Good (GPtr None)
| G_ptr fs : fs <> [] -> Forall (fun kv => K (fst kv) /\ Good (snd kv)) fs -> Good (GPtr (Some fs))
| G_slice l : Forall Good l -> Good (GSlice l).

(* an identifier that matches a field after capitalisation is that field's key *)
Definition IdOK (id : bytes) : Prop := forall k, K k -> cap id = cap k -> id = k.
End Good.

(* ---- norm and the small functions ---- *)
Definition norm_fields (fs : list (bytes * gval)) : obj :=
  (fix go (fs : list (bytes * gval)) : obj :=
     match fs with
     | [] => []
     | (k, x) :: r => obj_set k (norm x) (go r)
     end) fs.

Lemma norm_fields_cons k x r : norm_fields ((k, x) :: r) = obj_set k (norm x) (norm_fields r).
Proof. reflexivity. Qed.

Lemma norm_struct fs : norm (GStruct fs) = VObj (norm_fields fs).
Proof. reflexivity. Qed.
Lemma norm_ptr fs : norm (GPtr (Some fs)) = VObj (norm_fields fs).
Proof. reflexivity. Qed.
Lemma norm_obj fs : norm (GObj fs) = VObj (norm_fields fs).
Proof. reflexivity. Qed.

Lemma norm_value_of g : norm (value_of g) = norm g.
Proof. destruct g as [ | | | | | | |[fs|]| ]; reflexivity. Qed.

Lemma cur_value_of g : cur (value_of g) = true.
Proof. destruct g as [ | | | | | | |[fs|]| ]; reflexivity. Qed.

Lemma obj_set_nonempty k v m : obj_set k v m <> [].
Proof. destruct m as [|[k1 v1] m]; cbn; [discriminate|]. destruct (bytes_eqb k k1); [discriminate|]. destruct (bytes_ltb k k1); discriminate. Qed.

Lemma norm_fields_nonempty fs : fs <> [] -> norm_fields fs <> [].
Proof. destruct fs as [|[k x] r]; [congruence|]. intros _. rewrite norm_fields_cons. apply obj_set_nonempty. Qed.

Lemma isFalse_norm K g : Good K g -> isFalse (norm g) = isFalseG g.
Proof.
  intros H. destruct H as [ | [|] | | [|] | [|] | [|[]] ? ? | fs Hne _ | | fs Hne _ | [|] ]; try reflexivity.
  - rewrite norm_obj, norm_fields_cons. cbn [isFalse isFalseG]. destruct (obj_set _ _ _) eqn:E; [exfalso; eapply obj_set_nonempty; eauto | reflexivity].
  - rewrite norm_struct. cbn [isFalse]. pose proof (norm_fields_nonempty fs Hne). destruct (norm_fields fs), fs; try congruence; reflexivity.
  - rewrite norm_ptr. cbn [isFalse]. pose proof (norm_fields_nonempty fs Hne). destruct (norm_fields fs), fs; try congruence; reflexivity.
Qed.

Lemma is_null_norm g : cur g = true -> is_null (norm g) = is_gnull g.
Proof. destruct g as [ | | | | | | |[fs|]| ]; try reflexivity; discriminate. Qed.

(* looking a key up in the normalised members = the first member with that key *)
Lemma obj_get_set k k' v m :
  obj_get k (obj_set k' v m) = if bytes_eqb k k' then Some v else obj_get k m.
Proof.
  induction m as [|[k1 v1] m IH]; cbn [obj_set obj_get].
  - destruct (bytes_eqb k k'); reflexivity.
  - destruct (bytes_eqb k' k1) eqn:E1.
    + apply bytes_eqb_eq in E1. subst k1. cbn [obj_get]. destruct (bytes_eqb k k'); reflexivity.
    + destruct (bytes_ltb k' k1); cbn [obj_get].
      * destruct (bytes_eqb k k'); reflexivity.
      * rewrite IH. destruct (bytes_eqb k k1) eqn:E2; [|reflexivity].
        apply bytes_eqb_eq in E2. subst k1. destruct (bytes_eqb k k') eqn:E3; [|reflexivity].
        apply bytes_eqb_eq in E3. subst k'. rewrite bytes_eqb_refl in E1. discriminate.
Qed.

Lemma obj_get_norm_fields id fs :
  obj_get id (norm_fields fs) = option_map norm (gobj_get id fs).
Proof.
  induction fs as [|[k x] r IH]; [reflexivity|]. rewrite norm_fields_cons, obj_get_set. cbn [gobj_get].
  destruct (bytes_eqb id k); [reflexivity | exact IH].
Qed.

Lemma field_by_name_get K id fs : IdOK K id -> Forall (fun kv => K (fst kv) /\ Good K (snd kv)) fs ->
  field_by_name cap (cap id) fs = gobj_get id fs.
Proof.
  intros Hid. induction 1 as [|[k x] r [Hk _] _ IH]; [reflexivity|]. cbn [field_by_name gobj_get fst] in *.
  destruct (bytes_eqb (cap k) (cap id)) eqn:E.
  - apply bytes_eqb_eq in E. rewrite (Hid k Hk (eq_sym E)), bytes_eqb_refl. reflexivity.
  - destruct (bytes_eqb id k) eqn:E2; [|exact IH]. apply bytes_eqb_eq in E2. subst. rewrite bytes_eqb_refl in E. discriminate.
Qed.


(* ---- slices commute with maps ---- *)
Definition omap {A B} (f : A -> B) (o : outcome A) : outcome B :=
  match o with Ok x => Ok (f x) | Err e => Err e | Panic => Panic | OutOfFuel => OutOfFuel end.

Lemma index_or_panic_map {A B} (f : A -> B) xs i : index_or_panic (map f xs) i = omap f (index_or_panic xs i).
Proof.
  unfold index_or_panic, nth_or_panic. destruct (i <? 0); [reflexivity|]. rewrite nth_error_map.
  destruct (nth_error xs (Z.to_nat i)); reflexivity.
Qed.

Lemma slice_up_map {A B} (f : A -> B) xs stop step : forall fuel i acc,
  slice_up fuel (map f xs) i stop step (map f acc) = omap (map f) (slice_up fuel xs i stop step acc).
Proof.
  induction fuel as [|fu IH]; intros i acc; [reflexivity|]. cbn [slice_up]. destruct (i <? stop).
  - rewrite index_or_panic_map. destruct (index_or_panic xs i) as [x| | |]; cbn [omap bind]; try reflexivity.
    destruct (wrap64 (stop - i) <=? step).
    + cbn [omap]. rewrite map_rev. reflexivity.
    + apply (IH _ (x :: acc)).
  - cbn [omap]. rewrite map_rev. reflexivity.
Qed.

Lemma slice_down_map {A B} (f : A -> B) xs stop step : forall fuel i acc,
  slice_down fuel (map f xs) i stop step (map f acc) = omap (map f) (slice_down fuel xs i stop step acc).
Proof.
  induction fuel as [|fu IH]; intros i acc; [reflexivity|]. cbn [slice_down]. destruct (stop <? i).
  - rewrite index_or_panic_map. destruct (index_or_panic xs i) as [x| | |]; cbn [omap bind]; try reflexivity.
    destruct (step <=? wrap64 (stop - i)).
    + cbn [omap]. rewrite map_rev. reflexivity.
    + apply (IH _ (x :: acc)).
  - cbn [omap]. rewrite map_rev. reflexivity.
Qed.

Lemma slice_go_map {A B} (f : A -> B) xs p0 p1 p2 :
  slice_go (map f xs) p0 p1 p2 = omap (map f) (slice_go xs p0 p1 p2).
Proof.
  unfold slice_go, zlen. rewrite map_length.
  destruct (computeSliceParams _ p0 p1 p2) as [[[a b] c]|]; [|reflexivity].
  destruct (0 <? c); [apply (slice_up_map f xs b c _ a []) | apply (slice_down_map f xs b c _ a [])].
Qed.

(* a slice selects elements of the list *)
Lemma index_or_panic_in {A} (xs : list A) i x : index_or_panic xs i = Ok x -> In x xs.
Proof.
  unfold index_or_panic, nth_or_panic. destruct (i <? 0); [discriminate|].
  destruct (nth_error xs (Z.to_nat i)) eqn:E; [|discriminate]. intros H; inversion H; subst. eapply nth_error_In; eauto.
Qed.

Lemma slice_up_forall {A} (P : A -> Prop) xs stop step : Forall P xs -> forall fuel i acc rs,
  Forall P acc -> slice_up fuel xs i stop step acc = Ok rs -> Forall P rs.
Proof.
  intros Hxs. induction fuel as [|fu IH]; intros i acc rs Hacc H; [discriminate|]. cbn [slice_up] in H.
  destruct (i <? stop).
  - destruct (index_or_panic xs i) as [x| | |] eqn:Ex; cbn [bind] in H; try discriminate.
    assert (Px : P x) by (rewrite Forall_forall in Hxs; apply Hxs; eapply index_or_panic_in; eauto).
    destruct (wrap64 (stop - i) <=? step).
    + injection H as <-. change (Forall P (rev (x :: acc))). apply Forall_rev. constructor; assumption.
    + eapply IH; [|exact H]. constructor; assumption.
  - injection H as <-. apply Forall_rev. exact Hacc.
Qed.

Lemma slice_down_forall {A} (P : A -> Prop) xs stop step : Forall P xs -> forall fuel i acc rs,
  Forall P acc -> slice_down fuel xs i stop step acc = Ok rs -> Forall P rs.
Proof.
  intros Hxs. induction fuel as [|fu IH]; intros i acc rs Hacc H; [discriminate|]. cbn [slice_down] in H.
  destruct (stop <? i).
  - destruct (index_or_panic xs i) as [x| | |] eqn:Ex; cbn [bind] in H; try discriminate.
    assert (Px : P x) by (rewrite Forall_forall in Hxs; apply Hxs; eapply index_or_panic_in; eauto).
    destruct (step <=? wrap64 (stop - i)).
    + injection H as <-. change (Forall P (rev (x :: acc))). apply Forall_rev. constructor; assumption.
    + eapply IH; [|exact H]. constructor; assumption.
  - injection H as <-. apply Forall_rev. exact Hacc.
Qed.

Lemma slice_go_forall {A} (P : A -> Prop) xs p0 p1 p2 rs :
  Forall P xs -> slice_go xs p0 p1 p2 = Ok rs -> Forall P rs.
Proof.
  intros Hxs. unfold slice_go. destruct (computeSliceParams _ p0 p1 p2) as [[[a b] c]|]; [|discriminate].
  destruct (0 <? c); [eapply slice_up_forall | eapply slice_down_forall]; eauto.
Qed.

(* ---- elements ---- *)
Lemma elements_norm g l : elements g = Some l -> norm g = VArr (map norm l).
Proof.
  destruct g; cbn; intros H; inversion H; subst; [reflexivity|].
  f_equal. rewrite map_map. apply map_ext. intros x. symmetry. apply norm_value_of.
Qed.

Lemma elements_none_norm K g : Good K g -> elements g = None -> match norm g with VArr _ => False | _ => True end.
Proof. intros H. destruct H; cbn; intros E; try exact I; try discriminate. Qed.

Lemma elements_good K g l : Good K g -> elements g = Some l -> Forall (fun x => Good K x /\ cur x = true) l.
Proof.
  intros H. destruct H; cbn; intros E; inversion E; subst; [assumption|].
  rewrite Forall_forall in *. intros x Hx. apply in_map_iff in Hx as [y [<- Hy]]. split; [|apply cur_value_of].
  specialize (H y Hy). destruct y as [ | | | | | | |[fs|]| ]; cbn; try exact H. constructor.
Qed.

Lemma zlen_map {A B} (f : A -> B) l : zlen (map f l) = zlen l.
Proof. unfold zlen. rewrite map_length. reflexivity. Qed.

(* ---- lists of results ---- *)
Lemma filter_nulls_norm rs : Forall (fun x => cur x = true) rs ->
  filter (fun x => negb (is_null x)) (map norm rs) = map norm (filter (fun x => negb (is_gnull x)) rs).
Proof.
  induction 1 as [|x rs Hx _ IH]; [reflexivity|]. cbn [map filter]. rewrite (is_null_norm x Hx).
  destruct (is_gnull x); cbn [negb map]; rewrite IH; reflexivity.
Qed.

Lemma mapM_rel K (fg : gval -> outcome gval) (fv : value -> outcome value) l ys :
  Forall (fun x => Good K x /\ cur x = true) l ->
  (forall x y, In x l -> Good K x -> cur x = true -> fg x = Ok y ->
               fv (norm x) = Ok (norm y) /\ Good K y /\ cur y = true) ->
  mapM fg l = Ok ys ->
  mapM fv (map norm l) = Ok (map norm ys) /\ Forall (fun y => Good K y /\ cur y = true) ys.
Proof.
  intros Hl. revert ys. induction Hl as [|x l [Hg Hc] _ IH]; intros ys Hf H; cbn in H.
  - inversion H. split; [reflexivity | constructor].
  - destruct (fg x) as [y| | |] eqn:Ey; cbn in H; try discriminate.
    destruct (mapM fg l) as [ys'| | |] eqn:Em; cbn in H; try discriminate. inversion H; subst.
    destruct (Hf x y (or_introl eq_refl) Hg Hc Ey) as [E1 [G1 C1]].
    destruct (IH ys' (fun x0 y0 Hin => Hf x0 y0 (or_intror Hin)) eq_refl) as [E2 G2].
    cbn [map mapM]. rewrite E1. cbn [bind]. rewrite E2. cbn [bind]. split; [reflexivity | constructor; [split; assumption | exact G2]].
Qed.

(* length() on the three kinds of argument it accepts *)
Lemma call_length (exec : node -> value -> outcome value) x :
  CallFunction ord exec (str "length") [x] =
  match x with
  | VStr s => Ok (VNum (num_of_Z (rune_count s)))
  | VArr l => Ok (VNum (num_of_Z (zlen l)))
  | VObj m => Ok (VNum (num_of_Z (zlen m)))
  | _ => Err EEval
  end.
Proof. destruct x; reflexivity. Qed.


(* embedding a literal *)
Lemma obj_set_front k v m :
  match m with [] => True | (k1, _) :: _ => bytes_ltb k k1 = true end -> obj_set k v m = (k, v) :: m.
Proof.
  destruct m as [|[k1 v1] m]; [reflexivity|]. intros H. cbn [obj_set].
  destruct (bytes_eqb k k1) eqn:E; [apply bytes_eqb_eq in E; subst; rewrite bytes_ltb_irrefl in H; discriminate|].
  rewrite H. reflexivity.
Qed.

Lemma keys_sorted (m : obj) : obj_sorted m = true -> obj_sorted (map (fun kv : bytes * value => (fst kv, @VNull NumO)) m) = true.
Proof.
  induction m as [|[k x] m IH]; [reflexivity|]. destruct m as [|[k1 x1] m1]; [reflexivity|].
  cbn [obj_sorted map fst] in *. intros H. apply andb_true_iff in H as [H1 H2]. rewrite H1. exact (IH H2).
Qed.

Lemma embed_spec K : forall j, is_json j = true ->
  exists g, embed j = Some g /\ norm g = j /\ Good K g /\ cur g = true.
Proof.
  fix IH 1. intros [ | b | x | s0 | l | m | r] H; cbn [is_json] in H; try discriminate.
  - exists GNull. repeat split; constructor.
  - exists (GBool b). repeat split; constructor.
  - exists (GNum x). repeat split; constructor.
  - exists (GStr s0). repeat split; constructor.
  - assert (G : exists l', (fix go (l : list value) : option (list gval) :=
             match l with
             | [] => Some []
             | x :: r => match embed x, go r with Some a, Some b => Some (a :: b) | _, _ => None end
             end) l = Some l' /\ map norm l' = l /\ Forall (fun x => Good K x /\ cur x = true) l').
    { induction l as [|x l IHl]; [exists []; repeat split; constructor|]. cbn in H. apply andb_true_iff in H as [H1 H2].
      destruct (IH x H1) as [g [E1 [E2 [E3 E4]]]]. destruct (IHl H2) as [l' [F1 [F2 F3]]].
      exists (g :: l'). rewrite E1, F1. repeat split; [cbn; rewrite E2, F2; reflexivity | constructor; [split; assumption | exact F3]]. }
    destruct G as [l' [F1 [F2 F3]]]. exists (GArr l'). cbn [embed]. rewrite F1. repeat split; [cbn; rewrite F2; reflexivity | constructor; exact F3].
  - apply andb_true_iff in H as [Hall Hs].
    assert (G : exists m', (fix go (m : obj) : option (list (bytes * gval)) :=
             match m with
             | [] => Some []
             | (k, x) :: r => match embed x, go r with Some a, Some b => Some ((k, a) :: b) | _, _ => None end
             end) m = Some m' /\ norm_fields m' = m /\
             Forall (fun kv => Good K (snd kv) /\ cur (snd kv) = true) m' /\
             map (fun kv : bytes * gval => (fst kv, @VNull NumO)) m' = map (fun kv : bytes * value => (fst kv, @VNull NumO)) m).
    { induction m as [|[k x] m IHm]; [exists []; repeat split; constructor|]. cbn in Hall. apply andb_true_iff in Hall as [H1 H2].
      destruct (IH x H1) as [g [E1 [E2 [E3 E4]]]].
      assert (Hs' : obj_sorted m = true) by (cbn in Hs; destruct m as [|[k1 v1] m1]; [reflexivity | apply andb_true_iff in Hs as [_ Hs]; exact Hs]).
      destruct (IHm H2 Hs') as [m' [F1 [F2 [F3 F4]]]].
      exists ((k, g) :: m'). rewrite E1, F1. repeat split.
      - rewrite norm_fields_cons, E2, F2. apply obj_set_front. destruct m as [|[k1 v1] m1]; [exact I|].
        cbn in Hs. apply andb_true_iff in Hs as [Hs _]. exact Hs.
      - constructor; [split; assumption | exact F3].
      - cbn [map fst]. rewrite F4. reflexivity. }
    destruct G as [m' [F1 [F2 [F3 F4]]]]. exists (GObj m'). cbn [embed]. rewrite F1.
    repeat split; [rewrite norm_obj, F2; reflexivity | constructor; [exact F3 | rewrite F4; apply keys_sorted; exact Hs]].
Qed.


(* ---- maps built by multi-select ---- *)
Definition msn (m : list (bytes * gval)) : obj := map (fun kv => (fst kv, norm (snd kv))) m.
Definition keysof {A} (m : list (bytes * A)) : obj := map (fun kv => (fst kv, @VNull NumO)) m.

Lemma obj_sorted_keys (m : obj) : obj_sorted (keysof m) = obj_sorted m.
Proof.
  induction m as [|[k x] m IH]; [reflexivity|]. destruct m as [|[k1 x1] m1]; [reflexivity|].
  cbn [obj_sorted keysof map fst] in *. rewrite IH. reflexivity.
Qed.

Lemma keysof_msn m : keysof (msn m) = keysof m.
Proof. unfold keysof, msn. rewrite map_map. reflexivity. Qed.

Lemma msn_gobj_set k v m : msn (gobj_set k v m) = obj_set k (norm v) (msn m).
Proof.
  induction m as [|[k1 v1] m IH]; [reflexivity|]. cbn [gobj_set msn map obj_set fst snd].
  destruct (bytes_eqb k k1); [reflexivity|]. destruct (bytes_ltb k k1); [reflexivity|].
  cbn [map fst snd]. f_equal. exact IH.
Qed.

Lemma norm_fields_sorted m : obj_sorted (keysof m) = true -> norm_fields m = msn m.
Proof.
  induction m as [|[k x] m IH]; [reflexivity|]. intros Hs. rewrite norm_fields_cons.
  assert (Hs' : obj_sorted (keysof m) = true).
  { destruct m as [|[k1 x1] m1]; [reflexivity|]. cbn [keysof map obj_sorted fst] in *. apply andb_true_iff in Hs as [_ Hs]. exact Hs. }
  rewrite (IH Hs'). cbn [msn map fst snd]. apply obj_set_front.
  destruct m as [|[k1 x1] m1]; [exact I|]. cbn [msn map fst snd keysof obj_sorted] in *. apply andb_true_iff in Hs as [Hs _]. exact Hs.
Qed.

Lemma fold_gobj_set_norm kvs acc :
  msn (fold_left (fun m kv => gobj_set (fst kv) (snd kv) m) kvs acc) =
  fold_left (fun m kv => obj_set (fst kv) (snd kv) m) (msn kvs) (msn acc).
Proof.
  revert acc. induction kvs as [|[k v] kvs IH]; intros acc; [reflexivity|]. cbn [fold_left msn map fst snd].
  rewrite IH, msn_gobj_set. reflexivity.
Qed.

Lemma fold_obj_set_sorted (kvs : obj) acc : obj_sorted acc = true ->
  obj_sorted (fold_left (fun m kv => obj_set (fst kv) (snd kv) m) kvs acc) = true.
Proof. revert acc. induction kvs as [|[k v] kvs IH]; intros acc H; [exact H|]. cbn. apply IH. apply obj_set_sorted. exact H. Qed.

Lemma gobj_get_in (k : bytes) (m : list (bytes * gval)) v : gobj_get k m = Some v -> exists k', In (k', v) m.
Proof.
  induction m as [|[k1 v1] m IH]; cbn; [discriminate|]. destruct (bytes_eqb k k1).
  - intros H; inversion H; subst. exists k1. left. reflexivity.
  - intros H. destruct (IH H) as [k' Hk]. exists k'. right. exact Hk.
Qed.

Lemma gobj_set_good K k v m :
  Good K v -> cur v = true -> Forall (fun kv => Good K (snd kv) /\ cur (snd kv) = true) m ->
  Forall (fun kv => Good K (snd kv) /\ cur (snd kv) = true) (gobj_set k v m).
Proof.
  intros Hv Hc. induction 1 as [|[k1 v1] m H1 Hm IH]; cbn [gobj_set].
  - constructor; [split; assumption | constructor].
  - destruct (bytes_eqb k k1); [constructor; [split; assumption | exact Hm]|].
    destruct (bytes_ltb k k1); [constructor; [split; assumption | constructor; assumption]|].
    constructor; [exact H1 | exact IH].
Qed.

Lemma good_value_of K g : Good K g -> Good K (value_of g).
Proof. intros H. destruct g as [ | | | | | | |[fs|]| ]; cbn; try exact H. constructor. Qed.

(* flattening *)
Lemma flatten_norm K l : Forall (fun x => Good K x /\ cur x = true) l ->
  flat_map (fun element => match element with VArr inner => inner | _ => [element] end) (map norm l) =
  map norm (flat_map (fun element => match element with
                                     | GArr inner => inner
                                     | GSlice inner => map value_of inner
                                     | _ => [element] end) l).
Proof.
  induction 1 as [|x l [Hx Hc] _ IH]; [reflexivity|]. cbn [map flat_map]. rewrite map_app, IH. f_equal.
  destruct x as [ | | | | | | |[fs|]| ]; try reflexivity; try discriminate.
  cbn [norm]. rewrite map_map. apply map_ext. intros y. symmetry. apply norm_value_of.
Qed.

Lemma flatten_good K l : Forall (fun x => Good K x /\ cur x = true) l ->
  Forall (fun x => Good K x /\ cur x = true)
         (flat_map (fun element => match element with
                                   | GArr inner => inner
                                   | GSlice inner => map value_of inner
                                   | _ => [element] end) l).
Proof.
  induction 1 as [|x l [Hx Hc] _ IH]; [constructor|]. cbn [flat_map]. apply Forall_app. split; [|exact IH].
  inversion Hx; subst; try (constructor; [split; assumption | constructor]).
  - assumption.
  - rewrite Forall_forall in *. intros y Hy. apply in_map_iff in Hy as [z [<- Hz]]. split; [apply good_value_of; auto | apply cur_value_of].
Qed.


(* ---- the main statement ---- *)
Definition Agree K (f : nat) : Prop :=
  forall n g r, nav n = true -> Forall (IdOK K) (idents n) -> Good K g -> cur g = true ->
    ExecuteG f n g = Ok r ->
    Execute ord f n (norm g) = Ok (norm r) /\ Good K r /\ cur r = true.

Lemma mapM_children K f (IH : Agree K f) ch g rs :
  forallb nav ch = true -> (forall c, In c ch -> Forall (IdOK K) (idents c)) -> Good K g -> cur g = true ->
  mapM (fun c => ExecuteG f c g) ch = Ok rs ->
  mapM (fun c => Execute ord f c (norm g)) ch = Ok (map norm rs) /\ Forall (fun y => Good K y /\ cur y = true) rs.
Proof.
  intros Hn Hid Hg Hc. revert rs. induction ch as [|c ch IHc]; intros rs H; cbn in H.
  - inversion H. split; [reflexivity | constructor].
  - cbn in Hn. apply andb_true_iff in Hn as [Hn1 Hn2].
    destruct (ExecuteG f c g) as [y| | |] eqn:Ey; cbn in H; try discriminate.
    destruct (mapM (fun c0 => ExecuteG f c0 g) ch) as [ys| | |] eqn:Em; cbn in H; try discriminate. inversion H; subst.
    destruct (IH c g y Hn1 (Hid c (or_introl eq_refl)) Hg Hc Ey) as [E1 [G1 C1]].
    destruct (IHc Hn2 (fun c0 Hin => Hid c0 (or_intror Hin)) ys eq_refl) as [E2 G2].
    cbn [mapM map]. rewrite E1. cbn [bind]. rewrite E2. cbn [bind].
    split; [reflexivity | constructor; [split; assumption | exact G2]].
Qed.

Lemma pipe_fold K f (IH : Agree K f) ch : forallb nav ch = true -> (forall c, In c ch -> Forall (IdOK K) (idents c)) ->
  forall g r, Good K g -> cur g = true ->
  fold_left (fun acc c => x <- acc ;; ExecuteG f c x) ch (Ok g) = Ok r ->
  fold_left (fun acc c => x <- acc ;; Execute ord f c x) ch (Ok (norm g)) = Ok (norm r) /\ Good K r /\ cur r = true.
Proof.
  induction ch as [|c ch IHc]; intros Hn Hid g r Hg Hc H.
  - cbn in *. inversion H; subst. repeat split; assumption.
  - cbn in Hn. apply andb_true_iff in Hn as [Hn1 Hn2]. cbn [fold_left bind] in *.
    destruct (ExecuteG f c g) as [y| | |] eqn:Ey.
    + destruct (IH c g y Hn1 (Hid c (or_introl eq_refl)) Hg Hc Ey) as [E1 [G1 C1]]. rewrite E1.
      apply (IHc Hn2 (fun c0 Hin => Hid c0 (or_intror Hin)) y r G1 C1 H).
    + exfalso. clear -H. induction ch as [|c0 ch IHx]; cbn in H; [discriminate | apply IHx; exact H].
    + exfalso. clear -H. induction ch as [|c0 ch IHx]; cbn in H; [discriminate | apply IHx; exact H].
    + exfalso. clear -H. induction ch as [|c0 ch IHx]; cbn in H; [discriminate | apply IHx; exact H].
Qed.


Lemma mapM_hash K f (IH : Agree K f) ch g kvs :
  forallb (fun c => nav c && match c with Node ASTKeyValPair (NVStr _) _ => true | _ => false end) ch = true ->
  (forall c, In c ch -> Forall (IdOK K) (idents c)) -> Good K g -> cur g = true ->
  mapM (fun c => cur0 <- ExecuteG f c g ;; match node_val c with NVStr key => Ok (key, cur0) | _ => Panic end) ch = Ok kvs ->
  mapM (fun c => cur0 <- Execute ord f c (norm g) ;; match node_val c with NVStr key => Ok (key, cur0) | _ => Panic end) ch
    = Ok (msn kvs) /\ Forall (fun kv => Good K (snd kv) /\ cur (snd kv) = true) kvs.
Proof.
  intros Hn Hid Hg Hc. revert kvs. induction ch as [|c ch IHc]; intros kvs Em; cbn in Em.
  - inversion Em. split; [reflexivity | constructor].
  - cbn [forallb] in Hn. apply andb_true_iff in Hn as [Hn1 Hn2]. apply andb_true_iff in Hn1 as [Hn1 Hkv].
    destruct (ExecuteG f c g) as [y| | |] eqn:Ey; cbn [bind] in Em; try discriminate.
    destruct (IH c g y Hn1 (Hid c (or_introl eq_refl)) Hg Hc Ey) as [E1 [G1 C1]].
    destruct (node_val c) as [ |key| | | | ] eqn:Enode; cbn [bind] in Em; try discriminate.
    destruct (mapM _ ch) as [ys| | |] eqn:Em2; cbn [bind] in Em; try discriminate. inversion Em; subst.
    destruct (IHc Hn2 (fun c0 Hin => Hid c0 (or_intror Hin)) ys eq_refl) as [E2 G2].
    cbn [mapM]. rewrite E1. cbn [bind]. rewrite Enode. cbn [bind]. rewrite E2. cbn [bind msn map fst snd].
    split; [reflexivity | constructor; [split; assumption | exact G2]].
Qed.

Ltac bind_ok H x E :=
  match type of H with
  | bind ?X _ = Ok _ => destruct X as [x| | |] eqn:E; cbn [bind] in H; try discriminate
  end.

Theorem go_nav K : forall f, Agree K f.
Proof.
  induction f as [|f IH]; intros n g r Hn Hid Hg Hc H; [discriminate|].
  destruct n as [ty val ch].
  assert (Hch : forall c, In c ch -> Forall (IdOK K) (idents c)).
  { intros c Hin. rewrite Forall_forall in *. intros x Hx. apply Hid. eapply idents_child; eauto. }
  destruct ty; cbn [nav] in Hn; try discriminate; cbn [ExecuteG Execute] in *.
  - (* ASTCurrentNode *) inversion H; subst. repeat split; assumption.
  - (* ASTFunctionExpression: length *)
    destruct val as [ |name| | | | ]; try discriminate. destruct ch as [|a [|]]; try discriminate.
    apply andb_true_iff in Hn as [Hname Hna]. rewrite Hname in H. apply bytes_eqb_eq in Hname. subst name.
    bind_ok H x Ex. destruct (IH a g x Hna (Hch a ltac:(cbn; auto)) Hg Hc Ex) as [E1 [G1 C1]].
    cbn [mapM]. rewrite E1. cbn [bind]. rewrite call_length.
    inversion G1 as [ | | | | l Hl | m Hm Hs | fs Hne Hfs | | fs Hne Hfs | l Hl ]; subst; try discriminate;
      inversion H; subst; cbn [norm]; rewrite ?zlen_map.
    + repeat split; constructor.
    + repeat split; constructor.
    + fold (norm_fields m). rewrite (norm_fields_sorted m Hs). unfold msn. rewrite zlen_map. repeat split; constructor.
    + repeat split; constructor.
  - (* ASTField *)
    destruct val as [ |key| | | | ]; try discriminate.
    assert (Hkey : IdOK K key).
    { rewrite Forall_forall in Hid. apply Hid. cbn. left. reflexivity. }
    inversion Hg as [ | | | | l Hl | m Hm Hs | fs Hne Hfs | | fs Hne Hfs | l Hl ]; subst; cbn [field_from_struct] in H; cbn [norm].
    1-5, 10: inversion H; subst; repeat split; constructor.
    + (* map *)
      inversion H; subst. fold (norm_fields m). rewrite (norm_fields_sorted m Hs).
      replace (obj_get key (msn m)) with (option_map norm (gobj_get key m)).
      2:{ rewrite <- (norm_fields_sorted m Hs). symmetry. apply obj_get_norm_fields. }
      destruct (gobj_get key m) as [x|] eqn:Eg; cbn [option_map]; [|repeat split; constructor].
      destruct (gobj_get_in key m x Eg) as [k' Hin]. rewrite Forall_forall in Hm. destruct (Hm _ Hin) as [G1 C1].
      repeat split; assumption.
    + (* struct *)
      fold (norm_fields fs). rewrite obj_get_norm_fields.
      rewrite (field_by_name_get K key fs Hkey Hfs) in H.
      destruct (gobj_get key fs) as [x|] eqn:Eg; cbn [option_map]; inversion H; subst; [|repeat split; constructor].
      destruct (gobj_get_in key fs x Eg) as [k' Hin]. rewrite Forall_forall in Hfs. destruct (Hfs _ Hin) as [_ G1].
      rewrite norm_value_of. repeat split; [apply good_value_of; exact G1 | apply cur_value_of].
    + discriminate.
    + (* pointer to struct *)
      fold (norm_fields fs). rewrite obj_get_norm_fields.
      rewrite (field_by_name_get K key fs Hkey Hfs) in H.
      destruct (gobj_get key fs) as [x|] eqn:Eg; cbn [option_map]; inversion H; subst; [|repeat split; constructor].
      destruct (gobj_get_in key fs x Eg) as [k' Hin]. rewrite Forall_forall in Hfs. destruct (Hfs _ Hin) as [_ G1].
      rewrite norm_value_of. repeat split; [apply good_value_of; exact G1 | apply cur_value_of].
  - (* ASTFilterProjection *)
    destruct ch as [|c0 [|c1 [|c2 [|]]]]; try discriminate. cbn [forallb] in Hn.
    apply andb_true_iff in Hn as [Hn0 Hn]. apply andb_true_iff in Hn as [Hn1 Hn]. apply andb_true_iff in Hn as [Hn2 _].
    cbn [nth_or_panic nth_error child bind] in *.
    bind_ok H lft El.
    destruct (IH c0 g lft Hn0 (Hch c0 ltac:(cbn; auto)) Hg Hc El) as [E1 [G1 C1]]. rewrite E1. cbn [bind].
    destruct (elements lft) as [l|] eqn:Ee.
    + rewrite (elements_norm lft l Ee). pose proof (elements_good K lft l G1 Ee) as Gl.
      bind_ok H rs Em. inversion H; subst.
      assert (M : mapM (fun element => result <- Execute ord f c2 element ;;
                                       if negb (isFalse result) then Execute ord f c1 element else Ok VNull) (map norm l)
                  = Ok (map norm rs) /\ Forall (fun y => Good K y /\ cur y = true) rs).
      { eapply mapM_rel; [exact Gl | | exact Em]. intros x y Hin Gx Cx Hy. cbv beta in Hy. bind_ok Hy res Er.
        destruct (IH c2 x res Hn2 (Hch c2 ltac:(cbn; auto)) Gx Cx Er) as [R1 [R2 R3]]. rewrite R1. cbn [bind].
        rewrite (isFalse_norm K res R2). destruct (isFalseG res); cbn [negb] in *.
        - inversion Hy; subst. repeat split; constructor.
        - apply (IH c1 x y Hn1 (Hch c1 ltac:(cbn; auto)) Gx Cx Hy). }
      destruct M as [M1 M2].
      * rewrite M1. cbn [bind]. rewrite filter_nulls_norm by (eapply Forall_impl; [|exact M2]; cbn; tauto).
        repeat split. constructor. rewrite Forall_forall in *. intros x Hx. apply filter_In in Hx as [Hx _]. auto.
    + inversion H; subst. pose proof (elements_none_norm K lft G1 Ee) as Hn'.
      destruct (norm lft); try contradiction; repeat split; constructor.
  - (* ASTFlatten *)
    destruct ch as [|c0 [|]]; try discriminate. cbn [forallb] in Hn. apply andb_true_iff in Hn as [Hn0 _].
    cbn [nth_or_panic nth_error child bind] in *.
    bind_ok H lft El.
    destruct (IH c0 g lft Hn0 (Hch c0 ltac:(cbn; auto)) Hg Hc El) as [E1 [G1 C1]]. rewrite E1. cbn [bind].
    destruct (elements lft) as [l|] eqn:Ee.
    + rewrite (elements_norm lft l Ee). pose proof (elements_good K lft l G1 Ee) as Gl. inversion H; subst.
      rewrite (flatten_norm K l Gl). repeat split. constructor. apply flatten_good. exact Gl.
    + inversion H; subst. pose proof (elements_none_norm K lft G1 Ee) as Hn'.
      destruct (norm lft); try contradiction; repeat split; constructor.
  - (* ASTIdentity *) inversion H; subst. repeat split; assumption.
  - (* ASTIndex *)
    destruct val as [ | |i| | | ]; try discriminate.
    destruct (elements g) as [l|] eqn:Ee.
    + rewrite (elements_norm g l Ee), zlen_map. pose proof (elements_good K g l Hg Ee) as Gl.
      destruct (two63 <=? zlen l); [discriminate|].
      destruct ((_ <? zlen l) && _).
      * inversion H; subst. change VNull with (norm GNull). rewrite map_nth. split; [reflexivity|].
        destruct (nth_in_or_default (Z.to_nat (if i <? 0 then wrap64 (i + zlen l) else i)) l GNull) as [Hin|Hd].
        -- rewrite Forall_forall in Gl. apply Gl. exact Hin.
        -- rewrite Hd. split; constructor.
      * inversion H; subst. repeat split; constructor.
    + inversion H; subst. pose proof (elements_none_norm K g Hg Ee) as Hn'.
      destruct (norm g); try contradiction; repeat split; constructor.
  - (* ASTIndexExpression *)
    destruct ch as [|c0 [|c1 [|]]]; try discriminate. cbn [forallb] in Hn.
    apply andb_true_iff in Hn as [Hn0 Hn]. apply andb_true_iff in Hn as [Hn1 _].
    cbn [nth_or_panic nth_error child bind] in *.
    bind_ok H lft El. destruct (IH c0 g lft Hn0 (Hch c0 ltac:(cbn; auto)) Hg Hc El) as [E1 [G1 C1]]. rewrite E1. cbn [bind].
    apply (IH c1 lft r Hn1 (Hch c1 ltac:(cbn; auto)) G1 C1 H).
  - (* ASTKeyValPair *)
    destruct ch as [|c0 [|]]; try discriminate. cbn [forallb] in Hn. apply andb_true_iff in Hn as [Hn0 _].
    cbn [nth_or_panic nth_error child bind] in *. apply (IH c0 g r Hn0 (Hch c0 ltac:(cbn; auto)) Hg Hc H).
  - (* ASTLiteral *)
    destruct val as [ | | | | |j]; try discriminate.
    + inversion H; subst. repeat split; constructor.
    + inversion H; subst. repeat split; constructor.
    + destruct (embed_spec K j Hn) as [g' [E1 [E2 [E3 E4]]]]. rewrite E1 in H. injection H as <-. rewrite E2. repeat split; assumption.
  - (* ASTMultiSelectHash *)
    rewrite (is_null_norm g Hc). destruct (is_gnull g); [inversion H; subst; repeat split; constructor|].
    bind_ok H kvs Em. inversion H; subst.
    destruct (mapM_hash K f IH ch g kvs Hn Hch Hg Hc Em) as [G1 G2]. rewrite G1. cbn [bind].
    set (res := fold_left (fun m kv => gobj_set (fst kv) (snd kv) m) kvs []).
    assert (Hs : obj_sorted (keysof res) = true).
    { rewrite <- keysof_msn, obj_sorted_keys. unfold res. rewrite fold_gobj_set_norm. apply fold_obj_set_sorted. reflexivity. }
    rewrite norm_obj, (norm_fields_sorted res Hs). unfold res at 1. rewrite fold_gobj_set_norm.
    split; [reflexivity|]. split; [|reflexivity]. constructor; [|exact Hs].
    unfold res. clear -G2. assert (A : Forall (fun kv : bytes * gval => Good K (snd kv) /\ cur (snd kv) = true) []) by constructor.
    revert A. generalize (@nil (bytes * gval)). induction G2 as [|[k v] kvs [Hv Hcv] _ IHk]; intros acc A; [exact A|].
    cbn [fold_left fst snd]. apply IHk. apply gobj_set_good; assumption.
  - (* ASTMultiSelectList *)
    rewrite (is_null_norm g Hc). destruct (is_gnull g); [inversion H; subst; repeat split; constructor|].
    bind_ok H rs Em. inversion H; subst.
    destruct (mapM_children K f IH ch g rs Hn Hch Hg Hc Em) as [M1 M2]. rewrite M1. cbn [bind norm].
    repeat split. constructor. exact M2.
  - (* ASTOrExpression *)
    destruct ch as [|c0 [|c1 [|]]]; try discriminate. cbn [forallb] in Hn.
    apply andb_true_iff in Hn as [Hn0 Hn]. apply andb_true_iff in Hn as [Hn1 _].
    cbn [nth_or_panic nth_error child bind] in *.
    bind_ok H m El. destruct (IH c0 g m Hn0 (Hch c0 ltac:(cbn; auto)) Hg Hc El) as [E1 [G1 C1]]. rewrite E1. cbn [bind].
    rewrite (isFalse_norm K m G1). destruct (isFalseG m).
    + apply (IH c1 g r Hn1 (Hch c1 ltac:(cbn; auto)) Hg Hc H).
    + inversion H; subst. repeat split; assumption.
  - (* ASTAndExpression *)
    destruct ch as [|c0 [|c1 [|]]]; try discriminate. cbn [forallb] in Hn.
    apply andb_true_iff in Hn as [Hn0 Hn]. apply andb_true_iff in Hn as [Hn1 _].
    cbn [nth_or_panic nth_error child bind] in *.
    bind_ok H m El. destruct (IH c0 g m Hn0 (Hch c0 ltac:(cbn; auto)) Hg Hc El) as [E1 [G1 C1]]. rewrite E1. cbn [bind].
    rewrite (isFalse_norm K m G1). destruct (isFalseG m).
    + inversion H; subst. repeat split; assumption.
    + apply (IH c1 g r Hn1 (Hch c1 ltac:(cbn; auto)) Hg Hc H).
  - (* ASTNotExpression *)
    destruct ch as [|c0 [|]]; try discriminate. cbn [forallb] in Hn. apply andb_true_iff in Hn as [Hn0 _].
    cbn [nth_or_panic nth_error child bind] in *.
    bind_ok H m El. destruct (IH c0 g m Hn0 (Hch c0 ltac:(cbn; auto)) Hg Hc El) as [E1 [G1 C1]]. rewrite E1. cbn [bind].
    inversion H; subst. rewrite (isFalse_norm K m G1). repeat split; constructor.
  - (* ASTPipe *)
    apply (pipe_fold K f IH ch Hn Hch g r Hg Hc H).
  - (* ASTProjection *)
    destruct ch as [|c0 [|c1 [|]]]; try discriminate. cbn [forallb] in Hn.
    apply andb_true_iff in Hn as [Hn0 Hn]. apply andb_true_iff in Hn as [Hn1 _].
    cbn [nth_or_panic nth_error child bind] in *.
    bind_ok H lft El.
    destruct (IH c0 g lft Hn0 (Hch c0 ltac:(cbn; auto)) Hg Hc El) as [E1 [G1 C1]]. rewrite E1. cbn [bind].
    destruct (elements lft) as [l|] eqn:Ee.
    + rewrite (elements_norm lft l Ee). pose proof (elements_good K lft l G1 Ee) as Gl.
      bind_ok H rs Em. inversion H; subst.
      assert (M : mapM (fun element => Execute ord f c1 element) (map norm l) = Ok (map norm rs) /\
                  Forall (fun y => Good K y /\ cur y = true) rs).
      { eapply mapM_rel; [exact Gl | | exact Em]. intros x y Hin Gx Cx Hy.
        apply (IH c1 x y Hn1 (Hch c1 ltac:(cbn; auto)) Gx Cx Hy). }
      destruct M as [M1 M2].
      * rewrite M1. cbn [bind]. rewrite filter_nulls_norm by (eapply Forall_impl; [|exact M2]; cbn; tauto).
        repeat split. constructor. rewrite Forall_forall in *. intros x Hx. apply filter_In in Hx as [Hx _]. auto.
    + inversion H; subst. pose proof (elements_none_norm K lft G1 Ee) as Hn'.
      destruct (norm lft); try contradiction; repeat split; constructor.
  - (* ASTSubexpression *)
    destruct ch as [|c0 [|c1 [|]]]; try discriminate. cbn [forallb] in Hn.
    apply andb_true_iff in Hn as [Hn0 Hn]. apply andb_true_iff in Hn as [Hn1 _].
    cbn [nth_or_panic nth_error child bind] in *.
    bind_ok H lft El. destruct (IH c0 g lft Hn0 (Hch c0 ltac:(cbn; auto)) Hg Hc El) as [E1 [G1 C1]]. rewrite E1. cbn [bind].
    apply (IH c1 lft r Hn1 (Hch c1 ltac:(cbn; auto)) G1 C1 H).
  - (* ASTSlice *)
    destruct val as [ | | | |a b c| ]; try discriminate.
    destruct (elements g) as [l|] eqn:Ee.
    + rewrite (elements_norm g l Ee), zlen_map. pose proof (elements_good K g l Hg Ee) as Gl.
      destruct (two63 <=? zlen l); [discriminate|].
      rewrite slice_go_map. bind_ok H rs Es. inversion H; subst. cbn [omap bind norm].
      repeat split. constructor. eapply slice_go_forall; [exact Gl | exact Es].
    + inversion H; subst. pose proof (elements_none_norm K g Hg Ee) as Hn'.
      destruct (norm g); try contradiction; repeat split; constructor.
Qed.


Theorem go_search K fuel n g r :
  nav n = true -> Forall (IdOK K) (idents n) -> Good K g ->
  search_go cap fuel n g = Ok r -> Execute ord fuel n (norm g) = Ok (norm r).
Proof.
  intros Hn Hid Hg H. unfold search_go in H.
  destruct (go_nav K fuel n (value_of g) r Hn Hid (good_value_of K g Hg) (cur_value_of g) H) as [E _].
  rewrite norm_value_of in E. exact E.
Qed.


(* ---- no panic on Go documents ---- *)
(* every slice bound is a Go int *)
Fixpoint slices_ok (n : node) : bool :=
  let 'Node ty val ch := n in
  (match val with NVSlice a b c => opt_int64 a && opt_int64 b && opt_int64 c | _ => true end) && forallb slices_ok ch.

Lemma np_fold_pipe (f : nat) (ch : list node) : forall (acc : outcome gval),
  np acc -> (forall c g, In c ch -> np (ExecuteG f c g)) ->
  np (fold_left (fun acc c => r <- acc ;; ExecuteG f c r) ch acc).
Proof.
  induction ch as [|c ch IH]; intros acc Ha H; [exact Ha|]. cbn [fold_left]. apply IH.
  - apply np_bind; [exact Ha|]. intros r _. apply H. left. reflexivity.
  - intros c' g Hin. apply H. right. exact Hin.
Qed.

(* on any Go document whatever (structs, pointers, nil pointers, typed slices,
   maps), a navigational expression never panics: it returns a value, an error
   or, for arrays of 2^63 elements, nothing *)
Theorem go_no_panic : forall f n g, nav n = true -> slices_ok n = true -> np (ExecuteG f n g).
Proof.
  induction f as [|f IH]; intros n g Hn Hs; [(unfold np; discriminate)|].
  destruct n as [ty val ch]. cbn [slices_ok] in Hs. apply andb_true_iff in Hs as [Hsv Hsc].
  assert (Hc : forall c g', In c ch -> nav c = true -> np (ExecuteG f c g')).
  { intros c g' Hin Hnc. apply IH; [exact Hnc|]. rewrite forallb_forall in Hsc. apply Hsc. exact Hin. }
  destruct ty; cbn [nav] in Hn; try (unfold np; discriminate); cbn [ExecuteG].
  - (* ASTFunctionExpression *)
    destruct val as [ |name| | | | ]; try (unfold np; discriminate). destruct ch as [|a [|]]; try (unfold np; discriminate).
    apply andb_true_iff in Hn as [Hname Hna]. rewrite Hname.
    apply np_bind; [apply Hc; [left; reflexivity | exact Hna]|]. intros x _. destruct x; (unfold np; discriminate).
  - (* ASTField *) destruct val; try (unfold np; discriminate). destruct g; (unfold np; discriminate).
  - (* ASTFilterProjection *)
    destruct ch as [|c0 [|c1 [|c2 [|]]]]; try (unfold np; discriminate). cbn [forallb] in Hn. apply andb_true_iff in Hn as [H0 Hn].
    apply andb_true_iff in Hn as [H1 Hn]. apply andb_true_iff in Hn as [H2 _]. cbn [nth_or_panic nth_error bind].
    apply np_bind; [apply Hc; [left; reflexivity | exact H0]|]. intros lft _. destruct (elements lft); [|(unfold np; discriminate)].
    apply np_bind; [|(unfold np; discriminate)]. apply np_mapM. intros el _.
    apply np_bind; [apply Hc; [right; right; left; reflexivity | exact H2]|]. intros r _.
    destruct (negb (isFalseG r)); [|(unfold np; discriminate)]. apply Hc; [right; left; reflexivity | exact H1].
  - (* ASTFlatten *)
    destruct ch as [|c0 [|]]; try (unfold np; discriminate). cbn [forallb] in Hn. apply andb_true_iff in Hn as [H0 _]. cbn [nth_or_panic nth_error bind].
    apply np_bind; [apply Hc; [left; reflexivity | exact H0]|]. intros lft _. destruct (elements lft); (unfold np; discriminate).
  - (* ASTIndex *)
    destruct val; try (unfold np; discriminate). destruct (elements g); [|(unfold np; discriminate)]. destruct (two63 <=? zlen l); [(unfold np; discriminate)|].
    destruct (_ && _); (unfold np; discriminate).
  - (* ASTIndexExpression *)
    destruct ch as [|c0 [|c1 [|]]]; try (unfold np; discriminate). cbn [forallb] in Hn. apply andb_true_iff in Hn as [H0 Hn]. apply andb_true_iff in Hn as [H1 _].
    cbn [nth_or_panic nth_error bind].
    apply np_bind; [apply Hc; [left; reflexivity | exact H0]|]. intros lft _. apply Hc; [right; left; reflexivity | exact H1].
  - (* ASTKeyValPair *)
    destruct ch as [|c0 [|]]; try (unfold np; discriminate). cbn [forallb] in Hn. apply andb_true_iff in Hn as [H0 _]. cbn [nth_or_panic nth_error bind].
    apply Hc; [left; reflexivity | exact H0].
  - (* ASTLiteral *)
    destruct val as [ | | | | |j]; try (unfold np; discriminate). destruct (embed j); (unfold np; discriminate).
  - (* ASTMultiSelectHash *)
    destruct (is_gnull g); [(unfold np; discriminate)|]. apply np_bind; [|(unfold np; discriminate)]. apply np_mapM. intros c Hin.
    rewrite forallb_forall in Hn. specialize (Hn c Hin). apply andb_true_iff in Hn as [Hnc Hkv].
    apply np_bind; [apply Hc; assumption|]. intros r _. destruct c as [cty cval cch]. cbn [node_val].
    destruct cty; try (unfold np; discriminate). destruct cval; (unfold np; discriminate).
  - (* ASTMultiSelectList *)
    destruct (is_gnull g); [(unfold np; discriminate)|]. apply np_bind; [|(unfold np; discriminate)]. apply np_mapM. intros c Hin.
    rewrite forallb_forall in Hn. apply Hc; [exact Hin | apply Hn; exact Hin].
  - (* ASTOrExpression *)
    destruct ch as [|c0 [|c1 [|]]]; try (unfold np; discriminate). cbn [forallb] in Hn. apply andb_true_iff in Hn as [H0 Hn]. apply andb_true_iff in Hn as [H1 _].
    cbn [nth_or_panic nth_error bind].
    apply np_bind; [apply Hc; [left; reflexivity | exact H0]|]. intros m _. destruct (isFalseG m); [|(unfold np; discriminate)].
    apply Hc; [right; left; reflexivity | exact H1].
  - (* ASTAndExpression *)
    destruct ch as [|c0 [|c1 [|]]]; try (unfold np; discriminate). cbn [forallb] in Hn. apply andb_true_iff in Hn as [H0 Hn]. apply andb_true_iff in Hn as [H1 _].
    cbn [nth_or_panic nth_error bind].
    apply np_bind; [apply Hc; [left; reflexivity | exact H0]|]. intros m _. destruct (isFalseG m); [(unfold np; discriminate)|].
    apply Hc; [right; left; reflexivity | exact H1].
  - (* ASTNotExpression *)
    destruct ch as [|c0 [|]]; try (unfold np; discriminate). cbn [forallb] in Hn. apply andb_true_iff in Hn as [H0 _]. cbn [nth_or_panic nth_error bind].
    apply np_bind; [apply Hc; [left; reflexivity | exact H0]|]. intros m _. (unfold np; discriminate).
  - (* ASTPipe *)
    apply np_fold_pipe; [(unfold np; discriminate)|]. intros c g' Hin. rewrite forallb_forall in Hn. apply Hc; [exact Hin | apply Hn; exact Hin].
  - (* ASTProjection *)
    destruct ch as [|c0 [|c1 [|]]]; try (unfold np; discriminate). cbn [forallb] in Hn. apply andb_true_iff in Hn as [H0 Hn]. apply andb_true_iff in Hn as [H1 _].
    cbn [nth_or_panic nth_error bind].
    apply np_bind; [apply Hc; [left; reflexivity | exact H0]|]. intros lft _. destruct (elements lft); [|(unfold np; discriminate)].
    apply np_bind; [|(unfold np; discriminate)]. apply np_mapM. intros el _. apply Hc; [right; left; reflexivity | exact H1].
  - (* ASTSubexpression *)
    destruct ch as [|c0 [|c1 [|]]]; try (unfold np; discriminate). cbn [forallb] in Hn. apply andb_true_iff in Hn as [H0 Hn]. apply andb_true_iff in Hn as [H1 _].
    cbn [nth_or_panic nth_error bind].
    apply np_bind; [apply Hc; [left; reflexivity | exact H0]|]. intros lft _. apply Hc; [right; left; reflexivity | exact H1].
  - (* ASTSlice *)
    destruct val as [ | | | | a b c | ]; try (unfold np; discriminate). destruct (elements g) as [l|]; [|(unfold np; discriminate)].
    destruct (two63 <=? zlen l) eqn:El; [(unfold np; discriminate)|].
    apply andb_true_iff in Hsv as [Hab Hcc]. apply andb_true_iff in Hab as [Ha Hb].
    rewrite (slice_go_python l a b c) by (first [lia | apply opt_int64_spec; assumption]).
    destruct (py_slice l a b c); (unfold np; discriminate).
Qed.

End WithNum.

(* LexerTotal.v — the lexer on arbitrary bytes: never a panic, never out of fuel;
   on success the token list ends in its only tEOF and every token position lies
   inside the expression; a reported error offset lies inside the expression. *)
From JM Require Import Model.Base Model.Num Model.Utf8 Model.Value Model.JsonText Model.Lexer.
From JM Require Import gen.Tables Proofs.TablesOk Proofs.ValueFacts.
From Coq Require Import ZifyBool.

Section WithNum.
Context {NumO : NumOps}.

(* utf8.DecodeRuneInString: width between 1 and the remaining length, rune in range *)
Lemma decode_rune_width s : s <> [] ->
  (1 <= snd (decode_rune s))%nat /\ (snd (decode_rune s) <= length s)%nat /\
  0 <= fst (decode_rune s) <= 1114111.
Proof.
  intros Hs. destruct s as [|b0 r]; [contradiction|]. unfold decode_rune, rune_error.
  assert (Hb : 0 <= Z.of_N b0) by lia.
  destruct (N.ltb b0 128) eqn:E0; [cbn; lia|].
  destruct (in_range 194 223 b0) eqn:E1.
  { destruct r as [|b1 r]; [cbn; lia|]. destruct (in_range 128 191 b1) eqn:E; cbn; unfold in_range, cont in *; lia. }
  destruct (in_range 224 239 b0) eqn:E2.
  { destruct r as [|b1 [|b2 r]]; try (cbn; lia).
    destruct (_ && _) eqn:E; cbn; unfold in_range, cont in *;
      destruct (N.eqb_spec b0 224), (N.eqb_spec b0 237); lia. }
  destruct (in_range 240 244 b0) eqn:E3.
  { destruct r as [|b1 [|b2 [|b3 r]]]; try (cbn; lia).
    destruct (_ && _ && _) eqn:E; cbn; unfold in_range, cont in *;
      destruct (N.eqb_spec b0 240), (N.eqb_spec b0 244); lia. }
  cbn. lia.
Qed.

Section Expr.
Variable e : bytes.
Let len := elen e.

Lemma len_nonneg : 0 <= len.
Proof. unfold len, elen, zlen. lia. Qed.

(* a lexer state inside the expression *)
Definition inr (st : lstate) : Prop := 0 <= currentPos st <= len /\ 0 <= lastWidth st.

Lemma skipn_nonempty (k : nat) : (k < length e)%nat -> skipn k e <> [].
Proof. intros H E. apply (f_equal (@length _)) in E. rewrite skipn_length in E. cbn in E. lia. Qed.

(* lexer.next *)
Lemma next_spec st : inr st ->
  let '(r, st') := next e st in
  inr st' /\ -1 <= r <= 1114111 /\
  ((r = eof /\ currentPos st' = currentPos st /\ lastWidth st' = 0 /\ currentPos st = len) \/
   (r <> eof /\ currentPos st' = currentPos st + lastWidth st' /\ 1 <= lastWidth st' /\ currentPos st < len)).
Proof.
  intros [[H0 H1] H2]. unfold next. fold len.
  destruct (len <=? currentPos st) eqn:E.
  - cbn. unfold inr, eof. cbn. repeat split; lia.
  - assert (Hk : (Z.to_nat (currentPos st) < length e)%nat) by (unfold len, elen, zlen in *; lia).
    destruct (decode_rune_width (skipn (Z.to_nat (currentPos st)) e) (skipn_nonempty _ Hk)) as [W1 [W2 W3]].
    rewrite skipn_length in W2.
    destruct (decode_rune (skipn (Z.to_nat (currentPos st)) e)) as [r w] eqn:Ed. cbn [fst snd] in *.
    unfold inr. cbn [currentPos lastWidth]. unfold len, elen, zlen in *.
    unfold eof. repeat split; lia.
Qed.

Lemma back_inr st st0 r : inr st0 -> next e st0 = (r, st) -> inr (back st) /\ currentPos (back st) = currentPos st0.
Proof.
  intros H0 E. pose proof (next_spec st0 H0) as S. rewrite E in S. destruct H0 as [[X Y] Z0].
  destruct S as [[[A B] C] [_ [[_ [D [F G]]]|[_ [D [F G]]]]]]; unfold back, inr; cbn; repeat split; lia.
Qed.

Lemma peek_spec st : inr st ->
  let '(r, st') := peek e st in
  inr st' /\ currentPos st' = currentPos st /\ -1 <= r <= 1114111 /\
  (r = eof <-> currentPos st = len) /\ (r = eof -> lastWidth st' = 0) /\ (r <> eof -> 1 <= lastWidth st').
Proof.
  intros H. unfold peek. pose proof (next_spec st H) as S. destruct (next e st) as [r st1] eqn:E.
  destruct (back_inr st1 st r H E) as [B1 B2]. destruct S as [S1 [S2 S3]].
  split; [exact B1|]. split; [exact B2|]. split; [exact S2|].
  unfold back. cbn [lastWidth]. destruct H as [[X Y] Z0]. unfold eof in *.
  destruct S3 as [[-> [A [B C]]]|[Hne [A [B C]]]]; repeat split; intros; lia.
Qed.

Lemma slice_ok a b : 0 <= a -> a <= b -> b <= len -> exists s, slice_or_panic e a b = Ok s.
Proof.
  intros H1 H2 H3. unfold slice_or_panic. fold len.
  destruct ((0 <=? a) && (a <=? b) && (b <=? len)) eqn:E; [eauto | lia].
Qed.

(* a result of a consume* function: a token positioned inside the expression and
   a state inside the expression that moved forward, or an error with its offset
   inside the expression *)
Definition tok_pos_ok (t : token) : Prop := 0 <= tpos t <= len /\ ttype t <> tEOF.
Definition lex_err_ok {A} (r : outcome A) : Prop :=
  r <> Panic /\ r <> OutOfFuel /\ forall o, r = Err (ESyntax o) -> 0 <= o <= len.
Definition tok_res (p0 : Z) (r : outcome (token * lstate)) : Prop :=
  lex_err_ok r /\ forall t st, r = Ok (t, st) -> tok_pos_ok t /\ inr st /\ p0 <= currentPos st.

Lemma unclosed_ok {A} : lex_err_ok (unclosed e : outcome A).
Proof.
  unfold unclosed, lex_err_ok. fold len. split; [discriminate|]. split; [discriminate|].
  intros o E. inversion E. pose proof len_nonneg. lia.
Qed.

(* consumeUntil's loop: every position reached stays at or after start *)
Lemma consume_until_loop_spec endr start : forall fuel current st,
  inr st -> start <= currentPos st - lastWidth st -> -1 <= current <= 1114111 ->
  (current = eof -> lastWidth st = 0) -> (current <> eof -> 1 <= lastWidth st) ->
  (len - currentPos st + (if current =? eof then 1 else 2) <= Z.of_nat fuel) ->
  exists st', consume_until_loop fuel e endr current st = Ok st' /\ inr st' /\
              start <= currentPos st' - lastWidth st' /\ currentPos st <= currentPos st'.
Proof.
  induction fuel as [|fuel IH]; intros current st Hin Hst Hc He Hne Hf.
  - destruct Hin as [[A B] C]. destruct (current =? eof); lia.
  - cbn [consume_until_loop].
    destruct (negb (current =? endr) && negb (current =? eof)) eqn:Econd.
    + assert (Hcur : current <> eof) by lia. specialize (Hne Hcur).
      (* the optional skip of an escaped character *)
      assert (Hskip : exists st1, (if current =? 92
                                   then let '(p, stp) := peek e st in if negb (p =? eof) then snd (next e stp) else stp
                                   else st) = st1 /\ inr st1 /\ currentPos st <= currentPos st1 /\
                                  start <= currentPos st1 /\
                                  (currentPos st < currentPos st1 \/ currentPos st1 = currentPos st)).
      { destruct (current =? 92).
        - pose proof (peek_spec st Hin) as P. destruct (peek e st) as [p stp].
          destruct P as [P1 [P2 [P3 [P4 [P5 P6]]]]].
          destruct (negb (p =? eof)) eqn:Ep.
          + pose proof (next_spec stp P1) as N. destruct (next e stp) as [r2 st2]. cbn [snd].
            destruct N as [N1 [N2 N3]]. exists st2. split; [reflexivity|]. split; [exact N1|].
            destruct Hin as [[A B] C]. destruct N3 as [[_ [D _]]|[_ [D [F _]]]]; lia.
          + exists stp. split; [reflexivity|]. split; [exact P1|]. destruct Hin as [[A B] C]. lia.
        - exists st. split; [reflexivity|]. split; [exact Hin|]. destruct Hin as [[A B] C]. lia. }
      destruct Hskip as [st1 [-> [I1 [I2 [I3 I4]]]]].
      pose proof (next_spec st1 I1) as N. destruct (next e st1) as [c' st2].
      destruct N as [N1 [N2 N3]].
      destruct (IH c' st2 N1) as [st' [E' [J1 [J2 J3]]]].
      * destruct N3 as [[_ [D [F _]]]|[_ [D [F _]]]]; lia.
      * exact N2.
      * intros ->. destruct N3 as [[_ [_ [F _]]]|[Hx _]]; [exact F | contradiction].
      * intros Hx. destruct N3 as [[Hy _]|[_ [_ [F _]]]]; [contradiction | exact F].
      * destruct Hin as [[A B] C]. destruct (current =? eof) eqn:Ece; [lia|].
        destruct N3 as [[-> [D [F G]]]|[Hx [D [F G]]]]; [cbn; lia|]. destruct (c' =? eof) eqn:Ec'; lia.
      * exists st'. split; [exact E'|]. split; [exact J1|]. split; [exact J2|].
        destruct N3 as [[_ [D _]]|[_ [D [F _]]]]; lia.
    + exists st. split; [reflexivity|]. split; [exact Hin|]. split; [exact Hst | lia].
Qed.

Lemma consumeUntil_spec endr st : inr st ->
  lex_err_ok (consumeUntil e endr st) /\
  forall s st', consumeUntil e endr st = Ok (s, st') -> inr st' /\ currentPos st <= currentPos st'.
Proof.
  intros Hin. unfold consumeUntil.
  pose proof (next_spec st Hin) as N. destruct (next e st) as [current st1]. destruct N as [N1 [N2 N3]].
  assert (Hstart : currentPos st <= currentPos st1 - lastWidth st1)
    by (destruct N3 as [[_ [D [F _]]]|[_ [D [F _]]]]; lia).
  destruct (consume_until_loop_spec endr (currentPos st) (S (length e)) current st1 N1 Hstart N2) as [st2 [E2 [J1 [J2 J3]]]].
  - intros ->. destruct N3 as [[_ [_ [F _]]]|[Hx _]]; [exact F | contradiction].
  - intros Hx. destruct N3 as [[Hy _]|[_ [_ [F _]]]]; [contradiction | exact F].
  - destruct N1 as [[A B] C]. destruct Hin as [[A0 B0] C0].
    destruct N3 as [[-> [D [F G]]]|[Hx [D [F G]]]]; [cbn; unfold len, elen, zlen in *; lia|].
    destruct (current =? eof) eqn:Ece; unfold len, elen, zlen in *; lia.
  - rewrite E2. cbn [bind]. destruct (lastWidth st2 =? 0) eqn:E0.
    + split; [apply unclosed_ok | discriminate].
    + destruct J1 as [[A B] C].
      destruct (slice_ok (currentPos st) (currentPos st2 - lastWidth st2)) as [s Es]; try lia.
      { destruct Hin as [[A0 B0] C0]. lia. }
      rewrite Es. cbn [bind]. split.
      * split; [discriminate|]. split; discriminate.
      * intros s' st' E. inversion E; subst. split; [split; [split; assumption | assumption]|].
        destruct N3 as [[_ [D _]]|[_ [D [F _]]]]; lia.
Qed.

Lemma tok_res_intro p0 (r : outcome (token * lstate)) :
  lex_err_ok r -> (forall t st, r = Ok (t, st) -> tok_pos_ok t /\ inr st /\ p0 <= currentPos st) -> tok_res p0 r.
Proof. intros H1 H2. split; assumption. Qed.

Lemma lex_err_ok_ok {A} (x : A) : lex_err_ok (Ok x).
Proof. split; [discriminate|]. split; discriminate. Qed.
Lemma lex_err_ok_other {A} : lex_err_ok (Err ECompileOther : outcome A).
Proof. split; [discriminate|]. split; discriminate. Qed.

(* consumeLiteral / consumeQuotedIdentifier: st is the state after the opening delimiter *)
Lemma consumeLiteral_res st : inr st -> 1 <= currentPos st -> tok_res (currentPos st) (consumeLiteral e st).
Proof.
  intros Hin H1. unfold consumeLiteral. destruct (consumeUntil_spec 96 st Hin) as [[E1 [E2 E3]] S].
  destruct (consumeUntil e 96 st) as [[v st']| er | |]; cbn [bind]; try congruence.
  - destruct (S v st' eq_refl) as [I J]. apply tok_res_intro; [apply lex_err_ok_ok|].
    intros t st0 E. inversion E; subst. split; [|split; [exact I | exact J]].
    split; [cbn; destruct Hin as [[A B] C]; lia | cbn; discriminate].
  - apply tok_res_intro; [|discriminate]. split; [discriminate|]. split; [discriminate|].
    intros o E. apply E3. inversion E; subst. reflexivity.
Qed.

Lemma consumeQuotedIdentifier_res st : inr st -> 1 <= currentPos st -> tok_res (currentPos st) (consumeQuotedIdentifier e st).
Proof.
  intros Hin H1. unfold consumeQuotedIdentifier. destruct (consumeUntil_spec 34 st Hin) as [[E1 [E2 E3]] S].
  destruct (consumeUntil e 34 st) as [[v st']| er | |]; cbn [bind]; try congruence.
  - destruct (S v st' eq_refl) as [I J]. destruct (json_unquote v).
    + apply tok_res_intro; [apply lex_err_ok_ok|].
      intros t st0 E. inversion E; subst. split; [|split; [exact I | exact J]].
      split; [cbn; destruct Hin as [[A B] C]; lia | cbn; discriminate].
    + apply tok_res_intro; [apply lex_err_ok_other | discriminate].
  - apply tok_res_intro; [|discriminate]. split; [discriminate|]. split; [discriminate|].
    intros o E. apply E3. inversion E; subst. reflexivity.
Qed.

(* consumeRawStringLiteral's loop *)
Lemma raw_loop_spec : forall fuel current ci buf st,
  inr st -> -1 <= current <= 1114111 -> 0 <= ci ->
  (current <> eof -> ci <= currentPos st - 1) -> (current = eof -> ci <= currentPos st) ->
  (current = eof -> currentPos st = len) ->
  (len - currentPos st + 1 <= Z.of_nat fuel) ->
  exists ci' buf' st', raw_loop fuel e current ci buf st = Ok (ci', buf', st') /\ inr st' /\
                       0 <= ci' /\ (lastWidth st' <> 0 -> ci' <= currentPos st') /\ currentPos st <= currentPos st'.
Proof.
  induction fuel as [|fuel IH]; intros current ci buf st Hin Hc Hci Hne He Hel Hf.
  - destruct Hin as [[A B] C]. lia.
  - cbn [raw_loop]. destruct (current =? 39) eqn:E39.
    + exists ci, buf, st. split; [reflexivity|]. split; [exact Hin|]. split; [exact Hci|]. split; [|lia].
      intros _. assert (current <> eof) by (unfold eof; lia). specialize (Hne H). lia.
    + pose proof (peek_spec st Hin) as P. destruct (peek e st) as [p st0].
      destruct P as [P1 [P2 [P3 [P4 [P5 P6]]]]].
      destruct (p =? eof) eqn:Ep.
      * exists ci, buf, st0. split; [reflexivity|]. split; [exact P1|]. split; [exact Hci|].
        split; [|lia]. intros Hlw. exfalso. apply Hlw. apply P5. lia.
      * assert (Hp : p <> eof) by lia. assert (Hlt : currentPos st < len).
        { destruct Hin as [[A B] C]. destruct (Z.eq_dec (currentPos st) len) as [Eq|Nq]; [|lia].
          exfalso. apply Hp. apply P4. exact Eq. }
        assert (Hcur : current <> eof) by (intros Eq; specialize (Hel Eq); lia).
        specialize (Hne Hcur).
        (* the escape step *)
        assert (Hstep : exists ci1 buf1 st3,
                   (if current =? 92
                    then let '(p2, st1) := peek e st0 in
                         if p2 =? 39
                         then chunk <- slice_or_panic e ci (currentPos st1 - 1) ;;
                              let '(_, st2) := next e st1 in Ok (currentPos st2, buf ++ chunk ++ [39%N], st2)
                         else Ok (ci, buf, st1)
                    else Ok (ci, buf, st0)) = Ok (ci1, buf1, st3) /\
                   inr st3 /\ 0 <= ci1 /\ ci1 <= currentPos st3 /\ currentPos st <= currentPos st3).
        { destruct (current =? 92).
          - pose proof (peek_spec st0 P1) as Q. destruct (peek e st0) as [p2 st1].
            destruct Q as [Q1 [Q2 [Q3 _]]].
            destruct (p2 =? 39).
            + assert (Hb1 : currentPos st1 - 1 <= len) by (destruct Q1 as [[A B] C]; lia).
              destruct (slice_ok ci (currentPos st1 - 1)) as [chunk Ech]; try lia.
              rewrite Ech. cbn [bind].
              pose proof (next_spec st1 Q1) as N. destruct (next e st1) as [r2 st2]. destruct N as [N1 [N2 N3]].
              exists (currentPos st2), (buf ++ chunk ++ [39%N]), st2. split; [reflexivity|]. split; [exact N1|].
              destruct N1 as [[A B] C]. destruct N3 as [[_ [D _]]|[_ [D [F _]]]]; repeat split; lia.
            + exists ci, buf, st1. split; [reflexivity|]. split; [exact Q1|]. repeat split; lia.
          - exists ci, buf, st0. split; [reflexivity|]. split; [exact P1|]. repeat split; lia. }
        destruct Hstep as [ci1 [buf1 [st3 [-> [I1 [I2 [I3 I4]]]]]]]. cbn [bind].
        pose proof (next_spec st3 I1) as N. destruct (next e st3) as [c' st4]. destruct N as [N1 [N2 N3]].
        destruct (IH c' ci1 buf1 st4 N1 N2 I2) as [ci' [buf' [st' [E' [J1 [J2 [J3 J4]]]]]]].
        -- intros Hx. destruct N3 as [[Hy _]|[_ [D [F _]]]]; [contradiction | lia].
        -- intros ->. destruct N3 as [[_ [D _]]|[Hx _]]; [lia | contradiction].
        -- intros ->. destruct N3 as [[_ [D [_ G]]]|[Hx _]]; [lia | contradiction].
        -- destruct N3 as [[_ [D [_ G]]]|[_ [D [F G]]]]; lia.
        -- exists ci', buf', st'. split; [exact E'|]. split; [exact J1|]. split; [exact J2|]. split; [exact J3|].
           destruct N3 as [[_ [D _]]|[_ [D [F _]]]]; lia.
Qed.

Lemma consumeRawStringLiteral_res st : inr st -> 1 <= currentPos st ->
  tok_res (currentPos st) (consumeRawStringLiteral e st).
Proof.
  intros Hin H1. unfold consumeRawStringLiteral.
  pose proof (next_spec st Hin) as N. destruct (next e st) as [current st1]. destruct N as [N1 [N2 N3]].
  destruct (raw_loop_spec (S (length e)) current (currentPos st) [] st1 N1 N2 ltac:(lia))
    as [ci [buf [st2 [E2 [J1 [J2 [J3 J4]]]]]]].
  - intros Hx. destruct N3 as [[Hy _]|[_ [D [F _]]]]; [contradiction | lia].
  - intros ->. destruct N3 as [[_ [D _]]|[Hx _]]; [lia | contradiction].
  - intros ->. destruct N3 as [[_ [D [_ G]]]|[Hx _]]; [lia | contradiction].
  - destruct N1 as [[A B] C]. unfold len, elen, zlen in *. lia.
  - rewrite E2. cbn [bind]. destruct (lastWidth st2 =? 0) eqn:E0.
    + apply tok_res_intro; [apply unclosed_ok | discriminate].
    + assert (Hlw : lastWidth st2 <> 0) by lia. specialize (J3 Hlw).
      assert (Hbuf : exists b, (if ci <? currentPos st2
                                then chunk <- slice_or_panic e ci (currentPos st2 - 1) ;; Ok (buf ++ chunk)
                                else Ok buf) = Ok b).
      { destruct (ci <? currentPos st2) eqn:El; [|eauto].
        assert (Hb1 : currentPos st2 - 1 <= len) by (destruct J1 as [[A B] C]; lia).
        destruct (slice_ok ci (currentPos st2 - 1)) as [chunk Ech]; try lia.
        rewrite Ech. cbn [bind]. eauto. }
      destruct Hbuf as [b ->]. cbn [bind].
      apply tok_res_intro; [apply lex_err_ok_ok|]. intros t st0 E. inversion E; subst.
      split; [|split; [exact J1|]].
      * split; [cbn; destruct Hin as [[A B] C]; lia | cbn; discriminate].
      * destruct N3 as [[_ [D _]]|[_ [D [F _]]]]; lia.
Qed.

(* matchOrElse / consumeLBracket: st is the state after the first character *)
Lemma matchOrElse_res first second m1 m2 st :
  inr st -> 1 <= lastWidth st <= currentPos st -> m1 <> tEOF -> m2 <> tEOF ->
  let '(t, st') := matchOrElse e first second m1 m2 st in
  tok_pos_ok t /\ inr st' /\ currentPos st <= currentPos st'.
Proof.
  intros Hin Hlw H1 H2. unfold matchOrElse.
  pose proof (next_spec st Hin) as N. destruct (next e st) as [nr st1] eqn:En. destruct N as [N1 [N2 N3]].
  destruct Hin as [[A B] C].
  destruct (nr =? second).
  - split; [split; [cbn; lia | cbn; exact H1]|]. split; [exact N1|].
    destruct N3 as [[_ [D _]]|[_ [D [F _]]]]; lia.
  - destruct (back_inr st1 st nr (conj (conj A B) C) En) as [K1 K2].
    split; [split; [cbn; lia | cbn; exact H2]|]. split; [exact K1 | lia].
Qed.

Lemma consumeLBracket_res st :
  inr st -> 1 <= lastWidth st <= currentPos st ->
  let '(t, st') := consumeLBracket e st in
  tok_pos_ok t /\ inr st' /\ currentPos st <= currentPos st'.
Proof.
  intros Hin Hlw. unfold consumeLBracket.
  pose proof (next_spec st Hin) as N. destruct (next e st) as [nr st1] eqn:En. destruct N as [N1 [N2 N3]].
  destruct Hin as [[A B] C].
  destruct (nr =? 63); [|destruct (nr =? 93)].
  - split; [split; [cbn; lia | cbn; discriminate]|]. split; [exact N1|].
    destruct N3 as [[_ [D _]]|[_ [D [F _]]]]; lia.
  - split; [split; [cbn; lia | cbn; discriminate]|]. split; [exact N1|].
    destruct N3 as [[_ [D _]]|[_ [D [F _]]]]; lia.
  - destruct (back_inr st1 st nr (conj (conj A B) C) En) as [K1 K2].
    split; [split; [cbn; lia | cbn; discriminate]|]. split; [exact K1 | lia].
Qed.

(* identifiers and numbers: read while the class holds, then step back *)
Lemma ident_loop_spec : forall fuel st, inr st -> (len - currentPos st + 1 <= Z.of_nat fuel) ->
  exists st', ident_loop fuel e st = Ok st' /\ inr st' /\ currentPos st <= currentPos st'.
Proof.
  induction fuel as [|fuel IH]; intros st Hin Hf; [destruct Hin as [[A B] C]; lia|].
  cbn [ident_loop]. pose proof (next_spec st Hin) as N. destruct (next e st) as [r st1] eqn:En.
  destruct N as [N1 [N2 N3]]. rewrite (ident_trailing_ok r N2). cbn [bind].
  destruct (trailing_stop_spec r) eqn:Et.
  - destruct (back_inr st1 st r Hin En) as [K1 K2]. exists (back st1). split; [reflexivity|]. split; [exact K1 | lia].
  - destruct N3 as [[-> _]|[Hx [D [F G]]]]; [vm_compute in Et; discriminate|].
    destruct (IH st1 N1 ltac:(lia)) as [st' [E' [J1 J2]]]. exists st'. split; [exact E'|]. split; [exact J1 | lia].
Qed.

Lemma number_loop_spec : forall fuel st, inr st -> (len - currentPos st + 1 <= Z.of_nat fuel) ->
  exists st', number_loop fuel e st = Ok st' /\ inr st' /\ currentPos st <= currentPos st'.
Proof.
  induction fuel as [|fuel IH]; intros st Hin Hf; [destruct Hin as [[A B] C]; lia|].
  cbn [number_loop]. pose proof (next_spec st Hin) as N. destruct (next e st) as [r st1] eqn:En.
  destruct N as [N1 [N2 N3]].
  destruct ((r <? 48) || (57 <? r)) eqn:Es.
  - destruct (back_inr st1 st r Hin En) as [K1 K2]. exists (back st1). split; [reflexivity|]. split; [exact K1 | lia].
  - destruct N3 as [[-> _]|[Hx [D [F G]]]]; [unfold eof in Es; cbn in Es; discriminate|].
    destruct (IH st1 N1 ltac:(lia)) as [st' [E' [J1 J2]]]. exists st'. split; [exact E'|]. split; [exact J1 | lia].
Qed.

Lemma consumeUnquotedIdentifier_res st :
  inr st -> 1 <= lastWidth st <= currentPos st -> tok_res (currentPos st) (consumeUnquotedIdentifier e st).
Proof.
  intros Hin Hlw. unfold consumeUnquotedIdentifier.
  destruct (ident_loop_spec (S (length e)) st Hin) as [st' [E' [J1 J2]]].
  { destruct Hin as [[A B] C]. unfold len, elen, zlen in *. lia. }
  rewrite E'. cbn [bind]. destruct J1 as [[A B] C]. destruct Hin as [[A0 B0] C0].
  destruct (slice_ok (currentPos st - lastWidth st) (currentPos st')) as [v Ev]; try lia.
  rewrite Ev. cbn [bind]. apply tok_res_intro; [apply lex_err_ok_ok|].
  intros t st0 E. inversion E; subst. split; [split; [cbn; lia | cbn; discriminate]|].
  split; [split; [split; assumption | assumption] | exact J2].
Qed.

Lemma consumeNumber_res st :
  inr st -> 1 <= lastWidth st <= currentPos st -> tok_res (currentPos st) (consumeNumber e st).
Proof.
  intros Hin Hlw. unfold consumeNumber.
  destruct (number_loop_spec (S (length e)) st Hin) as [st' [E' [J1 J2]]].
  { destruct Hin as [[A B] C]. unfold len, elen, zlen in *. lia. }
  rewrite E'. cbn [bind]. destruct J1 as [[A B] C]. destruct Hin as [[A0 B0] C0].
  destruct (slice_ok (currentPos st - lastWidth st) (currentPos st')) as [v Ev]; try lia.
  rewrite Ev. cbn [bind]. apply tok_res_intro; [apply lex_err_ok_ok|].
  intros t st0 E. inversion E; subst. split; [split; [cbn; lia | cbn; discriminate]|].
  split; [split; [split; assumption | assumption] | exact J2].
Qed.

(* ---- the main loop ---- *)
Definition eof_token : token := Token tEOF [] len 0.

Definition loop_post (r : outcome (list token)) : Prop :=
  lex_err_ok r /\ forall ts, r = Ok ts -> exists acc', ts = rev (eof_token :: acc') /\ Forall tok_pos_ok acc'.

Lemma loop_post_err o : 0 <= o <= len -> loop_post (Err (ESyntax o)).
Proof.
  intros H. split; [|discriminate]. split; [discriminate|]. split; [discriminate|].
  intros o' E. inversion E; subst. exact H.
Qed.

Lemma tokenize_loop_spec : forall fuel st acc,
  inr st -> Forall tok_pos_ok acc -> (len - currentPos st + 1 <= Z.of_nat fuel) ->
  loop_post (tokenize_loop fuel e st acc).
Proof.
  induction fuel as [|fuel IH]; intros st acc Hin Hacc Hf; [destruct Hin as [[A B] C]; lia|].
  cbn [tokenize_loop]. pose proof (next_spec st Hin) as N. destruct (next e st) as [r st1] eqn:En.
  destruct N as [N1 [N2 N3]].
  (* helpers *)
  assert (Hcont : forall (x : outcome (token * lstate)),
             tok_res (currentPos st1) x -> r <> eof ->
             loop_post ('(t, st2) <- x ;; tokenize_loop fuel e st2 (t :: acc))).
  { intros x [Hx1 Hx2] Hr. destruct x as [[t st2]| er | |]; cbn [bind].
    - destruct (Hx2 t st2 eq_refl) as [T1 [T2 T3]]. apply IH; [exact T2 | constructor; assumption|].
      destruct N3 as [[Hy _]|[_ [D [F G]]]]; [contradiction | lia].
    - destruct Hx1 as [_ [_ H3]]. destruct er; try (split; [split; [discriminate | split; discriminate] | discriminate]).
      apply loop_post_err. apply H3. reflexivity.
    - destruct Hx1 as [H _]. congruence.
    - destruct Hx1 as [_ [H _]]. congruence. }
  assert (Hpair : forall (p : token * lstate),
             (let '(t, st2) := p in tok_pos_ok t /\ inr st2 /\ currentPos st1 <= currentPos st2) -> r <> eof ->
             loop_post (let '(t, st2) := p in tokenize_loop fuel e st2 (t :: acc))).
  { intros [t st2] [T1 [T2 T3]] Hr. apply IH; [exact T2 | constructor; assumption|].
    destruct N3 as [[Hy _]|[_ [D [F G]]]]; [contradiction | lia]. }
  assert (Hlw : r <> eof -> 1 <= lastWidth st1 <= currentPos st1).
  { intros Hr. destruct Hin as [[A B] C]. destruct N3 as [[Hy _]|[_ [D [F G]]]]; [contradiction | lia]. }
  destruct (ident_start r) eqn:Eis.
  { assert (Hr : r <> eof) by (intros ->; vm_compute in Eis; discriminate).
    apply Hcont; [apply consumeUnquotedIdentifier_res; [exact N1 | apply Hlw; exact Hr] | exact Hr]. }
  rewrite basic_tokens_ok.
  repeat match goal with
         | |- context [if ?a =? ?b then Some ?ty else _] =>
           destruct (Z.eqb_spec a b);
           [ apply IH; [exact N1 | constructor; [split; [cbn; destruct N1 as [[? ?] ?];
                                                         assert (r <> eof) by (unfold eof; lia);
                                                         specialize (Hlw H2); lia | cbn; discriminate] | exact Hacc] |
                        assert (Hr : r <> eof) by (unfold eof; lia);
                        destruct N3 as [[Hy _]|[_ [D [F G]]]]; [contradiction | lia]] | ]
         end.
  destruct ((r =? 45) || ((48 <=? r) && (r <=? 57))) eqn:Enum.
  { assert (Hr : r <> eof) by (unfold eof; lia).
    apply Hcont; [apply consumeNumber_res; [exact N1 | apply Hlw; exact Hr] | exact Hr]. }
  destruct (r =? 91) eqn:E91.
  { assert (Hr : r <> eof) by (unfold eof; lia).
    apply Hpair; [apply consumeLBracket_res; [exact N1 | apply Hlw; exact Hr] | exact Hr]. }
  destruct (r =? 34) eqn:E34.
  { assert (Hr : r <> eof) by (unfold eof; lia).
    apply Hcont; [apply consumeQuotedIdentifier_res; [exact N1 | specialize (Hlw Hr); lia] | exact Hr]. }
  destruct (r =? 39) eqn:E39.
  { assert (Hr : r <> eof) by (unfold eof; lia).
    apply Hcont; [apply consumeRawStringLiteral_res; [exact N1 | specialize (Hlw Hr); lia] | exact Hr]. }
  destruct (r =? 96) eqn:E96.
  { assert (Hr : r <> eof) by (unfold eof; lia).
    apply Hcont; [apply consumeLiteral_res; [exact N1 | specialize (Hlw Hr); lia] | exact Hr]. }
  repeat match goal with
         | |- context [if ?a =? ?b then let '(_, _) := matchOrElse _ _ _ ?m1 ?m2 _ in _ else _] =>
           destruct (Z.eqb_spec a b);
           [ assert (Hr : r <> eof) by (unfold eof; lia);
             apply Hpair; [apply matchOrElse_res; [exact N1 | apply Hlw; exact Hr | discriminate | discriminate] | exact Hr] | ]
         end.
  destruct (r =? eof) eqn:Eeof.
  { split; [apply lex_err_ok_ok|]. intros ts E. inversion E; subst. exists acc. split; [reflexivity | exact Hacc]. }
  assert (Hr : r <> eof) by lia.
  destruct (is_white r).
  { apply IH; [exact N1 | exact Hacc|]. destruct N3 as [[Hy _]|[_ [D [F G]]]]; [contradiction | lia]. }
  unfold syntax_error. apply loop_post_err. specialize (Hlw Hr). destruct N1 as [[A B] C]. lia.
Qed.

End Expr.

(* lexer.tokenize on any byte string *)
Theorem tokenize_total (e : bytes) :
  match tokenize e with
  | Ok ts => (exists acc, ts = rev (Token tEOF [] (elen e) 0 :: acc) /\
                          Forall (fun t => 0 <= tpos t <= elen e /\ ttype t <> tEOF) acc)
  | Err (ESyntax o) => 0 <= o <= elen e
  | Err _ => True
  | Panic => False
  | OutOfFuel => False
  end.
Proof.
  unfold tokenize.
  destruct (tokenize_loop_spec e (S (S (length e))) (LState 0 0) []) as [[H1 [H2 H3]] H4].
  - unfold inr. cbn. pose proof (len_nonneg e). lia.
  - constructor.
  - cbn [currentPos]. unfold elen, zlen. lia.
  - destruct (tokenize_loop (S (S (length e))) e (LState 0 0) []) as [ts|er| |]; try congruence.
    + destruct (H4 ts eq_refl) as [acc [E F]]. exists acc. split; [exact E | exact F].
    + destruct er; try exact I. apply H3. reflexivity.
Qed.



End WithNum.

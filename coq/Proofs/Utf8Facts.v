(* Utf8Facts.v — decoding an encoded code point sequence gives it back, so that
   length and reverse on strings count and permute code points (C09), and the
   rune-wise scan of the lexer sees the characters that were written (C14). *)
From JM Require Import Model.Base Model.Utf8.
From Coq Require Import ZifyBool ZifyN ZifyNat.
Ltac Zify.zify_post_hook ::= Z.div_mod_to_equations.

Lemma in_range_Z lo hi z : Z.of_N lo <= z <= Z.of_N hi -> in_range lo hi (Z.to_N z) = true.
Proof. intros H. unfold in_range. lia. Qed.

Lemma eqb_to_N z (n : N) : 0 <= z -> N.eqb (Z.to_N z) n = (z =? Z.of_N n).
Proof. intros H. lia. Qed.

Lemma cont_to_N z : 0 <= z -> cont (Z.to_N z) = z - 128.
Proof. intros H. unfold cont. lia. Qed.

Lemma decode_encode r t :
  valid_rune r = true -> decode_rune (encode_rune r ++ t) = (r, length (encode_rune r)).
Proof.
  intros Hv. unfold encode_rune. rewrite Hv. unfold valid_rune, is_surrogate in Hv.
  destruct (r <? 128) eqn:E1.
  - cbn [app decode_rune length]. assert (N.ltb (Z.to_N r) 128 = true) as -> by lia.
    f_equal. lia.
  - destruct (r <? 2048) eqn:E2.
    + cbn [app decode_rune length].
      assert (N.ltb (Z.to_N (192 + r / 64)) 128 = false) as -> by lia.
      rewrite (in_range_Z 194 223) by lia. rewrite (in_range_Z 128 191) by lia.
      rewrite cont_to_N by lia. f_equal. lia.
    + destruct (r <? 65536) eqn:E3.
      * cbn [app decode_rune length].
        assert (N.ltb (Z.to_N (224 + r / 4096)) 128 = false) as -> by lia.
        assert (in_range 194 223 (Z.to_N (224 + r / 4096)) = false) as -> by (unfold in_range; lia).
        rewrite (in_range_Z 224 239) by lia. rewrite !eqb_to_N by lia.
        assert (G : in_range (if 224 + r / 4096 =? Z.of_N 224 then 160%N else 128%N)
                             (if 224 + r / 4096 =? Z.of_N 237 then 159%N else 191%N)
                             (Z.to_N (128 + (r / 64) mod 64)) = true).
        { unfold in_range. destruct (224 + r / 4096 =? Z.of_N 224) eqn:Ea; destruct (224 + r / 4096 =? Z.of_N 237) eqn:Eb; lia. }
        rewrite G. rewrite (in_range_Z 128 191) by lia. cbn [andb]. rewrite !cont_to_N by lia. f_equal. lia.
      * cbn [app decode_rune length].
        assert (N.ltb (Z.to_N (240 + r / 262144)) 128 = false) as -> by lia.
        assert (in_range 194 223 (Z.to_N (240 + r / 262144)) = false) as -> by (unfold in_range; lia).
        assert (in_range 224 239 (Z.to_N (240 + r / 262144)) = false) as -> by (unfold in_range; lia).
        rewrite (in_range_Z 240 244) by lia. rewrite !eqb_to_N by lia.
        assert (G : in_range (if 240 + r / 262144 =? Z.of_N 240 then 144%N else 128%N)
                             (if 240 + r / 262144 =? Z.of_N 244 then 143%N else 191%N)
                             (Z.to_N (128 + (r / 4096) mod 64)) = true).
        { unfold in_range. destruct (240 + r / 262144 =? Z.of_N 240) eqn:Ea; destruct (240 + r / 262144 =? Z.of_N 244) eqn:Eb; lia. }
        rewrite G. rewrite !(in_range_Z 128 191) by lia. cbn [andb]. rewrite !cont_to_N by lia. f_equal. lia.
Qed.

Lemma encode_rune_nonempty r : encode_rune r <> [].
Proof. unfold encode_rune. repeat destruct (_ <? _); discriminate. Qed.

Lemma runes_of_fuel_encode : forall rs fuel,
  forallb valid_rune rs = true -> (length (string_of_runes rs) <= fuel)%nat ->
  runes_of_fuel fuel (string_of_runes rs) = rs.
Proof.
  induction rs as [|r rs IH]; intros fuel Hv Hf.
  - destruct fuel; reflexivity.
  - cbn in Hv. apply andb_true_iff in Hv as [Hr Hrs].
    unfold string_of_runes in *. cbn [map concat] in *. rewrite app_length in Hf.
    pose proof (encode_rune_nonempty r) as Hne.
    destruct fuel as [|fuel]; [destruct (encode_rune r); [congruence | cbn in Hf; lia]|].
    cbn [runes_of_fuel]. destruct (encode_rune r ++ concat (map encode_rune rs)) eqn:Es.
    + destruct (encode_rune r); [congruence | discriminate].
    + rewrite <- Es. rewrite decode_encode by exact Hr.
      rewrite skipn_app, skipn_all, Nat.sub_diag. cbn [app skipn]. f_equal. apply IH; [exact Hrs|].
      destruct (encode_rune r); [congruence | cbn in Hf; lia].
Qed.

(* []rune(string(rs)) = rs for Unicode scalar values *)
Theorem runes_of_string rs : forallb valid_rune rs = true -> runes_of (string_of_runes rs) = rs.
Proof. intros H. apply runes_of_fuel_encode; [exact H | lia]. Qed.

Lemma rune_count_string rs : forallb valid_rune rs = true -> rune_count (string_of_runes rs) = zlen rs.
Proof. intros H. unfold rune_count. rewrite runes_of_string by exact H. reflexivity. Qed.

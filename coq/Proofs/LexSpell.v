(* LexSpell.v — what the lexer makes of a given spelling (C14): unquoted
   identifiers, quoted identifiers, raw strings, JSON literals.  All statements
   are about tokenizeS (LexView.v), i.e. about tokenize. *)
From JM Require Import Model.Base Model.Num Model.Utf8 Model.Value Model.JsonText Model.Lexer Model.Parser Model.Slice
     Model.Functions Model.Interp Model.Api.
From JM Require Import Spec.Grammar.
From JM Require Import gen.Tables Proofs.TablesOk Proofs.ValueFacts Proofs.LexerTotal Proofs.LexView Proofs.Utf8Facts Proofs.JsonString.
From Coq Require Import ZifyBool.

Section WithNum.
Context {NumO : NumOps}.

(* ---- one rune ---- *)
Lemma stepS_ascii c s : N.ltb c 128 = true -> stepS (c :: s) = (Z.of_N c, 1, s).
Proof. intros H. unfold stepS, decode_rune. rewrite H. reflexivity. Qed.

Lemma stepS_range s : let '(r, k, s') := stepS s in -1 <= r <= 1114111.
Proof.
  unfold stepS. destruct s as [|b s0]; [cbn; unfold eof; lia|].
  pose proof (decode_rune_width (b :: s0)) as W. destruct (decode_rune (b :: s0)) as [r k].
  cbn [fst snd] in W. assert (Hne : b :: s0 <> []) by discriminate. specialize (W Hne). lia.
Qed.

(* the rune read from the front is an ASCII character exactly when the first byte is one *)
Lemma decode_rune_high b s : N.ltb b 128 = false -> 128 <= fst (decode_rune (b :: s)).
Proof.
  intros E. unfold decode_rune, rune_error. rewrite E.
  destruct (in_range 194 223 b) eqn:E1.
  { destruct s as [|b1 s]; [cbn; lia|]. destruct (in_range 128 191 b1) eqn:E2; cbn [fst]; unfold in_range, cont in *; lia. }
  destruct (in_range 224 239 b) eqn:E2.
  { destruct s as [|b1 [|b2 s]]; try (cbn; lia).
    destruct (_ && _) eqn:E3; cbn [fst]; unfold in_range, cont in *; destruct (N.eqb_spec b 224), (N.eqb_spec b 237); lia. }
  destruct (in_range 240 244 b) eqn:E3.
  { destruct s as [|b1 [|b2 [|b3 s]]]; try (cbn; lia).
    destruct (_ && _ && _) eqn:E4; cbn [fst]; unfold in_range, cont in *; destruct (N.eqb_spec b 240), (N.eqb_spec b 244); lia. }
  cbn. lia.
Qed.

Lemma stepS_first b s : let '(r, k, s') := stepS (b :: s) in
  (N.ltb b 128 = true /\ r = Z.of_N b /\ k = 1 /\ s' = s) \/ (N.ltb b 128 = false /\ 128 <= r).
Proof.
  destruct (N.ltb b 128) eqn:E.
  - rewrite (stepS_ascii b s E). left. repeat split; reflexivity.
  - pose proof (decode_rune_high b s E) as H. unfold stepS. destruct (decode_rune (b :: s)) as [r k].
    right. split; [reflexivity | exact H].
Qed.

(* ---- unquoted identifiers ---- *)
Definition alnumN (c : N) : bool := is_alnum_ c.

Lemma is_alnum_Z_N c : N.ltb c 128 = true -> is_alnum_Z (Z.of_N c) = is_alnum_ c.
Proof. intros H. unfold is_alnum_Z, is_alpha_Z, is_alnum_, is_alpha_. lia. Qed.
Lemma is_alpha_Z_N c : is_alpha_Z (Z.of_N c) = is_alpha_ c.
Proof. unfold is_alpha_Z, is_alpha_. lia. Qed.
Lemma alnum_ascii c : is_alnum_ c = true -> N.ltb c 128 = true.
Proof. unfold is_alnum_, is_alpha_. lia. Qed.

(* the first rune of the remaining input ends an identifier *)
Definition stops (rest : bytes) : Prop :=
  match rest with [] => True | b :: _ => is_alnum_ b = false end.

Lemma stops_stop rest : stops rest ->
  let '(r, k, s') := stepS rest in ident_trailing_stop r = Ok true.
Proof.
  intros H. pose proof (stepS_range rest) as R. destruct rest as [|b s].
  - cbn. reflexivity.
  - pose proof (stepS_first b s) as F. destruct (stepS (b :: s)) as [[r k] s'].
    rewrite ident_trailing_ok by exact R. f_equal. unfold trailing_stop_spec.
    destruct F as [[Hb [-> _]]|[Hb Hr]].
    + rewrite is_alnum_Z_N by exact Hb. cbn in H. rewrite H. reflexivity.
    + unfold is_alnum_Z, is_alpha_Z. lia.
Qed.

Lemma ident_loopS_spec : forall name fuel p rest w, forallb is_alnum_ name = true -> stops rest ->
  (length name < fuel)%nat ->
  exists k, ident_loopS fuel (AS p (name ++ rest) w) = Ok (AS (p + zlen name) rest k).
Proof.
  induction name as [|c name IH]; intros fuel p rest w Hn Hs Hf.
  - destruct fuel as [|f]; [cbn in Hf; lia|]. cbn [ident_loopS app].
    pose proof (stops_stop rest Hs) as HS. unfold nextS, peekS. cbn [asuf ap].
    destruct (stepS rest) as [[r k] s']. rewrite HS. cbn [bind snd]. exists k. f_equal. f_equal. unfold zlen; cbn; lia.
  - destruct fuel as [|f]; [cbn in Hf; lia|]. cbn in Hn. apply andb_true_iff in Hn as [Hc Hn].
    pose proof (alnum_ascii c Hc) as Hc128.
    cbn [ident_loopS app]. unfold nextS at 1. cbn [asuf ap].
    rewrite (stepS_ascii c (name ++ rest) Hc128).
    rewrite ident_trailing_ok by lia. unfold trailing_stop_spec.
    rewrite is_alnum_Z_N by (apply alnum_ascii; exact Hc). rewrite Hc. cbn [negb bind].
    destruct (IH f (p + 1) rest 1 Hn Hs ltac:(cbn in Hf; lia)) as [k Hk]. exists k. rewrite Hk.
    f_equal. f_equal. unfold zlen. cbn [length]. lia.
Qed.

Lemma firstn_app_exact {A} (a b : list A) : firstn (length a) (a ++ b) = a.
Proof. induction a; cbn; [destruct b; reflexivity | f_equal; assumption]. Qed.

(* in any context: at the start of a token, a well-formed name followed by a
   character that cannot continue it is read as one unquoted-identifier token
   holding exactly that name *)
Lemma lex_unquoted name rest f p w acc :
  valid_unquoted name = true -> stops rest -> 0 <= p ->
  exists k,
    tokenize_loopS (S f) (AS p (name ++ rest) w) acc =
    tokenize_loopS f (AS (p + zlen name) rest k) (Token tUnquotedIdentifier name p (zlen name) :: acc).
Proof.
  intros Hv Hs Hp. destruct name as [|c name]; [discriminate|]. cbn in Hv. apply andb_true_iff in Hv as [Hc Hn].
  assert (Hc128 : N.ltb c 128 = true) by (unfold is_alpha_ in Hc; lia).
  cbn [tokenize_loopS app]. unfold nextS at 1. cbn [asuf ap]. rewrite (stepS_ascii c _ Hc128).
  rewrite ident_start_ok by lia. rewrite is_alpha_Z_N, Hc.
  unfold consumeUnquotedIdentifierS. cbn [ap aw asuf].
  destruct (ident_loopS_spec name (S (length (c :: name ++ rest) + Z.to_nat p)) (p + 1) rest 1 Hn Hs) as [k Hk].
  { cbn [length]. rewrite app_length. lia. }
  rewrite Hk. cbn [bind ap]. replace (p + 1 - 1) with p by lia. rewrite Z.eqb_refl.
  unfold sliceS.
  assert ((0 <=? p) && (p <=? p + 1 + zlen name) && (p + 1 + zlen name <=? p + zlen (c :: name ++ rest)) = true) as ->.
  { unfold zlen. cbn [length]. rewrite app_length. lia. }
  cbn [bind]. exists k.
  replace (Z.to_nat (p + 1 + zlen name - p)) with (length (c :: name)) by (unfold zlen; cbn [length]; lia).
  change (c :: name ++ rest) with ((c :: name) ++ rest). rewrite firstn_app_exact.
  f_equal; [f_equal; unfold zlen; cbn [length]; lia|].
  f_equal. f_equal; unfold zlen; cbn [length]; lia.
Qed.

(* the end of the input *)
Lemma lex_eof f p w acc :
  tokenize_loopS (S f) (AS p [] w) acc = Ok (rev (Token tEOF [] p 0 :: acc)).
Proof.
  cbn [tokenize_loopS]. unfold nextS. cbn [asuf ap stepS].
  assert (ident_start eof = false) as -> by (vm_compute; reflexivity).
  assert (assoc_Z eof basic_tokens = None) as -> by (vm_compute; reflexivity).
  cbn. unfold endS. cbn. unfold zlen. cbn. repeat f_equal; lia.
Qed.

Theorem unquoted_identifier_lexes name :
  valid_unquoted name = true ->
  tokenizeS name = Ok [Token tUnquotedIdentifier name 0 (zlen name); Token tEOF [] (zlen name) 0].
Proof.
  intros Hv. unfold tokenizeS.
  destruct (lex_unquoted name [] (S (length name)) 0 0 [] Hv I (Z.le_refl 0)) as [k Hk].
  rewrite app_nil_r in Hk. rewrite Hk. rewrite lex_eof. reflexivity.
Qed.


(* ---- positions only move forward ---- *)
Lemma nextS_mono a : ap a <= ap (snd (nextS a)).
Proof. destruct (nextS a) as [r a'] eqn:E. cbn. eapply nextS_ap; eauto. Qed.
Lemma peekS_same a : ap (snd (peekS a)) = ap a.
Proof. destruct (peekS a) as [r a'] eqn:E. cbn. eapply peekS_ap; eauto. Qed.

(* reading a rune that is not the end of input advances by at least one byte *)
Lemma nextS_advance a r a' : nextS a = (r, a') -> r <> eof -> ap a + 1 <= ap a' /\ aw a' = ap a' - ap a.
Proof.
  unfold nextS, stepS. destruct (asuf a) as [|b s] eqn:Es.
  - intros H Hr. inversion H; subst. congruence.
  - pose proof (decode_rune_width (b :: s)) as W. destruct (decode_rune (b :: s)) as [r0 k].
    assert (Hne : b :: s <> []) by discriminate. specialize (W Hne). cbn [fst snd] in W.
    intros H _. inversion H; subst. cbn. lia.
Qed.

Lemma consume_until_loopS_mono endr : forall fuel c a a', consume_until_loopS fuel endr c a = Ok a' -> ap a <= ap a'.
Proof.
  induction fuel as [|f IH]; intros c a a' H; [discriminate|]. cbn [consume_until_loopS] in H.
  destruct (negb (c =? endr) && negb (c =? eof)); [|inversion H; lia].
  destruct (c =? 92).
  - destruct (peekS a) as [p ap_] eqn:Ep. pose proof (peekS_ap _ _ _ Ep) as H1.
    destruct (negb (p =? eof)).
    + pose proof (nextS_mono ap_) as H2. destruct (nextS (snd (nextS ap_))) as [c' a2] eqn:En.
      pose proof (nextS_ap _ _ _ En) as H3. apply IH in H. lia.
    + destruct (nextS ap_) as [c' a2] eqn:En. pose proof (nextS_ap _ _ _ En) as H3. apply IH in H. lia.
  - destruct (nextS a) as [c' a2] eqn:En. pose proof (nextS_ap _ _ _ En) as H3. apply IH in H. lia.
Qed.

Lemma consumeUntilS_mono endr a v a' : consumeUntilS endr a = Ok (v, a') -> ap a <= ap a'.
Proof.
  unfold consumeUntilS. destruct (nextS a) as [c a1] eqn:En. pose proof (nextS_ap _ _ _ En) as H1.
  destruct (consume_until_loopS _ endr c a1) as [a2| | |] eqn:El; cbn [bind]; try discriminate.
  apply consume_until_loopS_mono in El. destruct (aw a2 =? 0); [discriminate|].
  destruct (sliceS _ _ _); cbn [bind]; try discriminate. intros H; inversion H; subst. lia.
Qed.

Lemma raw_loopS_mono p0 s0 : forall fuel c ci buf a ci' buf' a',
  raw_loopS fuel p0 s0 c ci buf a = Ok (ci', buf', a') -> ap a <= ap a'.
Proof.
  induction fuel as [|f IH]; intros c ci buf a ci' buf' a' H; [discriminate|]. cbn [raw_loopS] in H.
  destruct (c =? 39); [inversion H; lia|].
  destruct (peekS a) as [p a0] eqn:Ep. pose proof (peekS_ap _ _ _ Ep) as H0.
  destruct (p =? eof); [inversion H; subst; lia|].
  destruct (c =? 92).
  - destruct (peekS a0) as [p2 a1] eqn:Ep2. pose proof (peekS_ap _ _ _ Ep2) as H1.
    destruct (p2 =? 39).
    + destruct (sliceFromS _ _ _ _); cbn [bind] in H; try discriminate.
      destruct (nextS a1) as [c1 a5] eqn:En. pose proof (nextS_ap _ _ _ En) as H2. cbn [bind] in H.
      destruct (nextS a5) as [c' a4] eqn:En2. pose proof (nextS_ap _ _ _ En2) as H3. apply IH in H. lia.
    + cbn [bind] in H. destruct (nextS a1) as [c' a4] eqn:En2. pose proof (nextS_ap _ _ _ En2) as H3. apply IH in H. lia.
  - cbn [bind] in H. destruct (nextS a0) as [c' a4] eqn:En2. pose proof (nextS_ap _ _ _ En2) as H3. apply IH in H. lia.
Qed.

Lemma ident_loopS_mono : forall fuel a a', ident_loopS fuel a = Ok a' -> ap a <= ap a'.
Proof.
  induction fuel as [|f IH]; intros a a' H; [discriminate|]. cbn [ident_loopS] in H.
  destruct (nextS a) as [r a1] eqn:En. pose proof (nextS_ap _ _ _ En) as H1.
  destruct (ident_trailing_stop r) as [[|]| | |]; cbn [bind] in H; try discriminate.
  - inversion H; subst. rewrite peekS_same. lia.
  - apply IH in H. lia.
Qed.

Lemma number_loopS_mono : forall fuel a a', number_loopS fuel a = Ok a' -> ap a <= ap a'.
Proof.
  induction fuel as [|f IH]; intros a a' H; [discriminate|]. cbn [number_loopS] in H.
  destruct (nextS a) as [r a1] eqn:En. pose proof (nextS_ap _ _ _ En) as H1.
  destruct ((r <? 48) || (57 <? r)).
  - inversion H; subst. rewrite peekS_same. lia.
  - apply IH in H. lia.
Qed.

(* every token produced from a state lies at or after the position of that state *)
Lemma tokens_after : forall fuel a acc l, tokenize_loopS fuel a acc = Ok l ->
  exists l', l = rev acc ++ l' /\ Forall (fun t => ap a <= tpos t) l'.
Proof.
  induction fuel as [|f IH]; intros a acc l H; [discriminate|]. cbn [tokenize_loopS] in H.
  destruct (nextS a) as [r a1] eqn:En. pose proof (nextS_ap _ _ _ En) as H1.
  (* a recursive call from a later state with one more token *)
  assert (K : forall t a2, ap a <= tpos t -> ap a <= ap a2 -> tokenize_loopS f a2 (t :: acc) = Ok l ->
                           exists l', l = rev acc ++ l' /\ Forall (fun t => ap a <= tpos t) l').
  { intros t a2 Ht Ha Hl. destruct (IH _ _ _ Hl) as [l' [-> Hl']]. exists (t :: l'). split.
    - cbn [rev]. rewrite <- app_assoc. reflexivity.
    - constructor; [exact Ht|]. eapply Forall_impl; [|exact Hl']. cbn. intros; lia. }
  assert (Hadv : r <> eof -> ap a + 1 <= ap a1 /\ aw a1 = ap a1 - ap a) by (apply (nextS_advance a r a1 En)).
  destruct (ident_start r) eqn:Eid.
  { assert (Hr : r <> eof) by (intros ->; vm_compute in Eid; discriminate). destruct (Hadv Hr) as [A1 A2].
    unfold consumeUnquotedIdentifierS in H.
    destruct (ident_loopS _ a1) as [a'| | |] eqn:El; cbn [bind] in H; try discriminate.
    apply ident_loopS_mono in El.
    destruct (ap a1 - aw a1 =? ap a); [|discriminate].
    destruct (sliceS _ _ _); cbn [bind] in H; try discriminate.
    eapply K; [| |exact H]; cbn [tpos]; lia. }
  destruct (assoc_Z r basic_tokens) as [ty|] eqn:Eb.
  { assert (Hr : r <> eof) by (intros ->; vm_compute in Eb; discriminate). destruct (Hadv Hr) as [A1 A2].
    eapply K; [| |exact H]; cbn [tpos]; lia. }
  destruct ((r =? 45) || ((48 <=? r) && (r <=? 57))) eqn:En1.
  { assert (Hr : r <> eof) by (unfold eof; lia). destruct (Hadv Hr) as [A1 A2].
    unfold consumeNumberS in H.
    destruct (number_loopS _ a1) as [a'| | |] eqn:El; cbn [bind] in H; try discriminate.
    apply number_loopS_mono in El.
    destruct (ap a1 - aw a1 =? ap a); [|discriminate].
    destruct (sliceS _ _ _); cbn [bind] in H; try discriminate.
    eapply K; [| |exact H]; cbn [tpos]; lia. }
  destruct (r =? 91) eqn:E91.
  { assert (Hr : r <> eof) by (unfold eof; lia). destruct (Hadv Hr) as [A1 A2].
    unfold consumeLBracketS in H. pose proof (nextS_mono a1) as M1. pose proof (peekS_same a1) as M2.
    destruct (nextS a1) as [nr a2]. cbn [snd] in M1.
    destruct (nr =? 63); [eapply K; [| |exact H]; cbn [tpos]; lia|].
    destruct (nr =? 93); eapply K; try exact H; cbn [tpos]; lia. }
  destruct (r =? 34) eqn:E34.
  { assert (Hr : r <> eof) by (unfold eof; lia). destruct (Hadv Hr) as [A1 A2].
    unfold consumeQuotedIdentifierS in H.
    destruct (consumeUntilS 34 a1) as [[v a']| | |] eqn:Ec; cbn [bind] in H; try discriminate.
    apply consumeUntilS_mono in Ec. destruct (json_unquote v); [|discriminate]. cbn [bind] in H.
    eapply K; [| |exact H]; cbn [tpos]; lia. }
  destruct (r =? 39) eqn:E39.
  { assert (Hr : r <> eof) by (unfold eof; lia). destruct (Hadv Hr) as [A1 A2].
    unfold consumeRawStringLiteralS in H.
    destruct (nextS a1) as [c a2] eqn:En2. pose proof (nextS_ap _ _ _ En2) as M.
    destruct (raw_loopS _ _ _ c (ap a1) [] a2) as [[[ci buf] a3]| | |] eqn:El; cbn [bind] in H; try discriminate.
    apply raw_loopS_mono in El. destruct (aw a3 =? 0); [discriminate|].
    destruct (ci <? ap a3).
    - destruct (sliceFromS _ _ _ _); cbn [bind] in H; try discriminate.
      eapply K; [| |exact H]; cbn [tpos]; lia.
    - cbn [bind] in H. eapply K; [| |exact H]; cbn [tpos]; lia. }
  destruct (r =? 96) eqn:E96.
  { assert (Hr : r <> eof) by (unfold eof; lia). destruct (Hadv Hr) as [A1 A2].
    unfold consumeLiteralS in H.
    destruct (consumeUntilS 96 a1) as [[v a']| | |] eqn:Ec; cbn [bind] in H; try discriminate.
    apply consumeUntilS_mono in Ec.
    eapply K; [| |exact H]; cbn [tpos]; lia. }
  assert (MO : forall second m1 m2, r <> eof ->
             (let '(t, a2) := matchOrElseS r second m1 m2 a1 in tokenize_loopS f a2 (t :: acc)) = Ok l ->
             exists l', l = rev acc ++ l' /\ Forall (fun t => ap a <= tpos t) l').
  { intros second m1 m2 Hr Hm. destruct (Hadv Hr) as [A1 A2]. unfold matchOrElseS in Hm.
    pose proof (nextS_mono a1) as M1. pose proof (peekS_same a1) as M2.
    destruct (nextS a1) as [nr a2]. cbn [snd] in M1.
    destruct (nr =? second); eapply K; try exact Hm; cbn [tpos]; lia. }
  destruct (r =? 124) eqn:E1; [apply (MO _ _ _ ltac:(unfold eof; lia) H)|].
  destruct (r =? 60) eqn:E2; [apply (MO _ _ _ ltac:(unfold eof; lia) H)|].
  destruct (r =? 62) eqn:E3; [apply (MO _ _ _ ltac:(unfold eof; lia) H)|].
  destruct (r =? 33) eqn:E4; [apply (MO _ _ _ ltac:(unfold eof; lia) H)|].
  destruct (r =? 61) eqn:E5; [apply (MO _ _ _ ltac:(unfold eof; lia) H)|].
  destruct (r =? 38) eqn:E6; [apply (MO _ _ _ ltac:(unfold eof; lia) H)|].
  destruct (r =? eof) eqn:E7.
  { inversion H; subst. exists [Token tEOF [] (endS a1) 0]. split; [reflexivity|].
    constructor; [|constructor]. cbn [tpos]. unfold endS. pose proof (Zle_0_nat (length (asuf a1))). unfold zlen. lia. }
  destruct (is_white r); [|discriminate].
  destruct (IH _ _ _ H) as [l' [-> Hl']]. exists l'. split; [reflexivity|].
  eapply Forall_impl; [|exact Hl']. cbn. intros; lia.
Qed.


(* ---- the converse: only such names are read as one unquoted identifier ---- *)
Fixpoint span_alnum (s : bytes) : bytes * bytes :=
  match s with
  | c :: r => if is_alnum_ c then let '(a, b) := span_alnum r in (c :: a, b) else ([], s)
  | [] => ([], [])
  end.
Lemma span_alnum_spec s : let '(a, b) := span_alnum s in s = a ++ b /\ forallb is_alnum_ a = true /\ stops b.
Proof.
  induction s as [|c r IH]; cbn; [repeat split|]. destruct (is_alnum_ c) eqn:E.
  - destruct (span_alnum r) as [a b]. destruct IH as [-> [H1 H2]]. cbn. rewrite E. repeat split; assumption.
  - cbn. repeat split. exact E.
Qed.

Lemma basic_not_ident r ty : assoc_Z r basic_tokens = Some ty -> ty <> tUnquotedIdentifier.
Proof.
  unfold basic_tokens. cbn [assoc_Z].
  repeat match goal with |- context [if ?c then _ else _] => destruct c end; intros H; inversion H; discriminate.
Qed.

(* at the start of a token, a character outside [A-Za-z_] does not start an
   unquoted identifier: the first token read is of another type or starts later *)
Lemma not_alpha_not_ident c s0 f t l :
  is_alpha_ c = false ->
  tokenize_loopS (S f) (AS 0 (c :: s0) 0) [] = Ok (t :: l) ->
  ttype t <> tUnquotedIdentifier \/ 1 <= tpos t.
Proof.
  intros Hc H. cbn [tokenize_loopS] in H.
  destruct (nextS (AS 0 (c :: s0) 0)) as [r a1] eqn:En.
  assert (Hr : r <> eof /\ is_alpha_Z r = false /\ 1 <= ap a1).
  { unfold nextS in En. cbn [asuf ap] in En. pose proof (stepS_first c s0) as F.
    pose proof (At_step (c :: s0) 0 (c :: s0)) as _.
    destruct (stepS (c :: s0)) as [[r0 k] s'] eqn:Es. inversion En; subst. cbn [ap].
    assert (Hk : 1 <= k).
    { unfold stepS in Es. pose proof (decode_rune_width (c :: s0)) as W. destruct (decode_rune (c :: s0)) as [rr kk].
      assert (Hne : c :: s0 <> []) by discriminate. specialize (W Hne). cbn [fst snd] in W. inversion Es; subst. lia. }
    destruct F as [[Hb [-> _]]|[Hb Hr]].
    - repeat split; [unfold eof; lia | rewrite is_alpha_Z_N; exact Hc | lia].
    - repeat split; [unfold eof; lia | unfold is_alpha_Z; lia | lia]. }
  destruct Hr as [Hr [Ha Hp1]].
  assert (Hrange : -1 <= r <= 1114111).
  { unfold nextS in En. cbn [asuf] in En. pose proof (stepS_range (c :: s0)) as R.
    destruct (stepS (c :: s0)) as [[r0 k] s']. inversion En; subst. exact R. }
  rewrite ident_start_ok in H by exact Hrange. rewrite Ha in H.
  (* one more token t0, then the rest: t0 is the first token of the result *)
  assert (K : forall t0 a2, ttype t0 <> tUnquotedIdentifier -> tokenize_loopS f a2 [t0] = Ok (t :: l) ->
                            ttype t <> tUnquotedIdentifier \/ 1 <= tpos t).
  { intros t0 a2 Ht Hl. destruct (tokens_after _ _ _ _ Hl) as [l' [E _]]. cbn in E. inversion E; subst. left. exact Ht. }
  destruct (assoc_Z r basic_tokens) as [ty|] eqn:Eb.
  { eapply K; [|exact H]. cbn. eapply basic_not_ident; eauto. }
  destruct ((r =? 45) || ((48 <=? r) && (r <=? 57))).
  { unfold consumeNumberS in H. destruct (number_loopS _ a1); cbn [bind] in H; try discriminate.
    destruct (_ =? _); [|discriminate]. destruct (sliceS _ _ _); cbn [bind] in H; try discriminate.
    eapply K; [|exact H]. discriminate. }
  destruct (r =? 91).
  { unfold consumeLBracketS in H. destruct (nextS a1) as [nr a2].
    destruct (nr =? 63); [eapply K; [|exact H]; discriminate|].
    destruct (nr =? 93); (eapply K; [|exact H]; discriminate). }
  destruct (r =? 34).
  { unfold consumeQuotedIdentifierS in H. destruct (consumeUntilS 34 a1) as [[v a']| | |]; cbn [bind] in H; try discriminate.
    destruct (json_unquote v); [|discriminate]. cbn [bind] in H. eapply K; [|exact H]. discriminate. }
  destruct (r =? 39).
  { unfold consumeRawStringLiteralS in H. destruct (nextS a1) as [c1 a2].
    destruct (raw_loopS _ _ _ c1 (ap a1) [] a2) as [[[ci buf] a3]| | |]; cbn [bind] in H; try discriminate.
    destruct (aw a3 =? 0); [discriminate|].
    destruct (ci <? ap a3).
    - destruct (sliceFromS _ _ _ _); cbn [bind] in H; try discriminate. eapply K; [|exact H]. discriminate.
    - cbn [bind] in H. eapply K; [|exact H]. discriminate. }
  destruct (r =? 96).
  { unfold consumeLiteralS in H. destruct (consumeUntilS 96 a1) as [[v a']| | |]; cbn [bind] in H; try discriminate.
    eapply K; [|exact H]. discriminate. }
  assert (MO : forall second m1 m2, m1 <> tUnquotedIdentifier -> m2 <> tUnquotedIdentifier ->
             (let '(t0, a2) := matchOrElseS r second m1 m2 a1 in tokenize_loopS f a2 [t0]) = Ok (t :: l) ->
             ttype t <> tUnquotedIdentifier \/ 1 <= tpos t).
  { intros second m1 m2 H1 H2 Hm. unfold matchOrElseS in Hm. destruct (nextS a1) as [nr a2].
    destruct (nr =? second); (eapply K; [|exact Hm]); cbn; assumption. }
  destruct (r =? 124); [apply (MO 124 tOr tPipe); [discriminate | discriminate | exact H]|].
  destruct (r =? 60); [apply (MO 61 tLTE tLT); [discriminate | discriminate | exact H]|].
  destruct (r =? 62); [apply (MO 61 tGTE tGT); [discriminate | discriminate | exact H]|].
  destruct (r =? 33); [apply (MO 61 tNE tNot); [discriminate | discriminate | exact H]|].
  destruct (r =? 61); [apply (MO 61 tEQ tUnknown); [discriminate | discriminate | exact H]|].
  destruct (r =? 38); [apply (MO 38 tAnd tExpref); [discriminate | discriminate | exact H]|].
  destruct (r =? eof); [inversion H; subst; left; discriminate|].
  destruct (is_white r); [|discriminate].
  destruct (tokens_after _ _ _ _ H) as [l' [E Hl']]. cbn in E. subst l'. inversion Hl'; subst. right. lia.
Qed.

(* Unquoted identifiers are exactly the strings matching [A-Za-z_][A-Za-z0-9_]* *)
Theorem unquoted_identifier_exactly s n t2 :
  tokenizeS s = Ok [Token tUnquotedIdentifier s 0 n; t2] -> valid_unquoted s = true.
Proof.
  intros H. unfold tokenizeS in H. destruct s as [|c s0].
  - rewrite lex_eof in H. discriminate.
  - destruct (is_alpha_ c) eqn:Ec.
    + pose proof (span_alnum_spec s0) as Sp. destruct (span_alnum s0) as [a b]. destruct Sp as [E [Ha Hb]].
      assert (Hv : valid_unquoted (c :: a) = true) by (cbn; rewrite Ec, Ha; reflexivity).
      subst s0.
      destruct (lex_unquoted (c :: a) b (S (length (c :: a ++ b))) 0 0 [] Hv Hb (Z.le_refl 0)) as [k Hk].
      change (c :: a ++ b) with ((c :: a) ++ b) in H. change (c :: a ++ b) with ((c :: a) ++ b) in Hk. rewrite Hk in H.
      destruct (tokens_after _ _ _ _ H) as [l' [El _]]. cbn [rev app] in El. inversion El as [[E1 E2]].
      assert (Eb : b = []) by (apply (app_inv_head a); rewrite app_nil_r; exact E1). subst b. rewrite ?app_nil_r in *. exact Hv.
    + destruct (not_alpha_not_ident c s0 _ _ _ Ec H) as [Ht|Ht]; cbn in Ht; [congruence | lia].
Qed.


(* ---- delimited tokens: scanning to the closing delimiter ---- *)
Lemma stepS_split s : s <> [] ->
  let '(r, k, s') := stepS s in 1 <= k /\ s = firstn (Z.to_nat k) s ++ s' /\ zlen s = k + zlen s' /\ r <> eof.
Proof.
  intros Hs. unfold stepS. destruct s as [|b s0]; [congruence|].
  pose proof (decode_rune_width (b :: s0) Hs) as W. destruct (decode_rune (b :: s0)) as [r k]. cbn [fst snd] in W.
  rewrite Nat2Z.id. split; [lia|]. split; [symmetry; apply firstn_skipn|]. split.
  - unfold zlen. rewrite skipn_length. lia.
  - unfold eof. lia.
Qed.

(* body up to the first delimiter that is not escaped by a backslash, and the
   input after that delimiter; None: no closing delimiter *)
Fixpoint scan_until (fuel : nat) (endr : Z) (s : bytes) : option (bytes * bytes) :=
  match fuel with
  | O => None
  | S f =>
    match s with
    | [] => None
    | _ =>
      let '(r, k, s') := stepS s in
      if r =? endr then Some ([], s')
      else if r =? 92 then
        match s' with
        | [] => None
        | _ => let '(_, k2, s'') := stepS s' in
               match scan_until f endr s'' with
               | Some (b, rest) => Some (firstn (Z.to_nat (k + k2)) s ++ b, rest)
               | None => None
               end
        end
      else match scan_until f endr s' with
           | Some (b, rest) => Some (firstn (Z.to_nat k) s ++ b, rest)
           | None => None
           end
    end
  end.

Lemma scan_until_split endr : 0 <= endr < 128 -> forall fuel s b rest,
  scan_until fuel endr s = Some (b, rest) -> s = b ++ Z.to_N endr :: rest.
Proof.
  intros He. induction fuel as [|f IH]; intros s b rest H; [discriminate|]. cbn [scan_until] in H.
  destruct s as [|c s0]; [discriminate|].
  pose proof (stepS_split (c :: s0) ltac:(discriminate)) as Sp. pose proof (stepS_first c s0) as Fi.
  destruct (stepS (c :: s0)) as [[r k] s'] eqn:Es. destruct Sp as [Hk [Hsp [Hl Hr]]].
  destruct (r =? endr) eqn:E1.
  - inversion H; subst. destruct Fi as [[Hc [-> [-> ->]]]|[Hc Hr2]]; [|lia].
    cbn. f_equal. lia.
  - destruct (r =? 92).
    + destruct s' as [|c1 s1] eqn:Es'; [discriminate|].
      pose proof (stepS_split (c1 :: s1) ltac:(discriminate)) as Sp2.
      destruct (stepS (c1 :: s1)) as [[r2 k2] s''] eqn:Es2. destruct Sp2 as [Hk2 [Hsp2 [Hl2 _]]].
      destruct (scan_until f endr s'') as [[b0 rest0]|] eqn:Ei; [|discriminate]. inversion H; subst.
      apply IH in Ei. rewrite <- app_assoc. rewrite <- Ei.
      rewrite Hsp at 1. rewrite Hsp2 at 1.
      replace (Z.to_nat (k + k2)) with (Z.to_nat k + Z.to_nat k2)%nat by lia.
      rewrite Hsp at 2. rewrite firstn_app. rewrite firstn_firstn.
      replace (Init.Nat.min (Z.to_nat k + Z.to_nat k2) (Z.to_nat k)) with (Z.to_nat k) by lia.
      rewrite firstn_length. 
      assert (Hlen : (Z.to_nat k <= length (c :: s0))%nat) by (unfold zlen in Hl; lia).
      replace (Z.to_nat k + Z.to_nat k2 - Init.Nat.min (Z.to_nat k) (length (c :: s0)))%nat with (Z.to_nat k2) by lia.
      rewrite <- app_assoc. reflexivity.
    + destruct (scan_until f endr s') as [[b0 rest0]|] eqn:Ei; [|discriminate]. inversion H; subst.
      apply IH in Ei. rewrite <- app_assoc, <- Ei. exact Hsp.
Qed.


Lemma nextS_eq p s w : nextS (AS p s w) = let '(r, k, s') := stepS s in (r, AS (p + k) s' k).
Proof. reflexivity. Qed.

Lemma zlen_firstn_le {A} (n : nat) (l : list A) : (n <= length l)%nat -> zlen (firstn n l) = Z.of_nat n.
Proof. intros H. unfold zlen. rewrite firstn_length. lia. Qed.

Lemma zlen_app {A} (a b : list A) : zlen (a ++ b) = zlen a + zlen b.
Proof. unfold zlen. rewrite app_length. lia. Qed.

Lemma cul_scan endr : 0 <= endr < 128 -> forall fuel s p w, (length s < fuel)%nat ->
  consume_until_loopS fuel endr (fst (nextS (AS p s w))) (snd (nextS (AS p s w))) =
  match scan_until fuel endr s with
  | Some (b, rest) => Ok (AS (p + zlen b + 1) rest 1)
  | None => Ok (AS (p + zlen s) [] 0)
  end.
Proof.
  intros He. induction fuel as [|f IH]; intros s p w Hf; [lia|].
  rewrite nextS_eq. cbn [scan_until consume_until_loopS].
  destruct s as [|c s0].
  { cbn [stepS fst snd]. assert (negb (eof =? endr) && negb (eof =? eof) = false) as -> by (unfold eof; lia).
    unfold zlen. cbn. rewrite Z.add_0_r. reflexivity. }
  pose proof (stepS_split (c :: s0) ltac:(discriminate)) as Sp. pose proof (stepS_first c s0) as Fi.
  destruct (stepS (c :: s0)) as [[r k] s'] eqn:Es. destruct Sp as [Hk [Hsp [Hl Hr]]]. cbn [fst snd].
  destruct (r =? endr) eqn:E1.
  { cbn [negb andb]. destruct Fi as [[Hc [-> [-> ->]]]|[Hc Hr2]]; [|lia]. unfold zlen. cbn. f_equal. f_equal. lia. }
  assert (negb (r =? eof) = true) as -> by (apply negb_true_iff; apply Z.eqb_neq; exact Hr). cbn [negb andb].
  assert (Hlen' : (length s' < f)%nat) by (unfold zlen in Hl; cbn [length] in *; lia).
  destruct (r =? 92) eqn:E2.
  - unfold peekS at 1. cbn [asuf ap].
    destruct s' as [|c1 s1].
    + cbn [stepS]. assert (negb (eof =? eof) = false) as -> by reflexivity.
      rewrite nextS_eq. cbn [stepS]. destruct f as [|f']; [cbn in Hf; lia|].
      cbn [consume_until_loopS]. assert (negb (eof =? endr) && negb (eof =? eof) = false) as -> by (unfold eof; lia).
      f_equal. f_equal; unfold zlen in *; cbn [length] in *; lia.
    + pose proof (stepS_split (c1 :: s1) ltac:(discriminate)) as Sp2.
      destruct (stepS (c1 :: s1)) as [[r2 k2] s''] eqn:Es2. destruct Sp2 as [Hk2 [Hsp2 [Hl2 Hr2]]].
      assert (negb (r2 =? eof) = true) as -> by (apply negb_true_iff; apply Z.eqb_neq; exact Hr2).
      rewrite nextS_eq. cbn [asuf ap]. rewrite Es2. cbn [snd].
      assert (Hlen'' : (length s'' < f)%nat) by (unfold zlen in *; cbn [length] in *; lia).
      pose proof (IH s'' (p + k + k2) k2 Hlen'') as G.
      destruct (nextS (AS (p + k + k2) s'' k2)) as [c' a2]. cbn [fst snd] in G. rewrite G.
      destruct (scan_until f endr s'') as [[b rest]|].
      * f_equal. f_equal. rewrite zlen_app, zlen_firstn_le by (unfold zlen in *; cbn [length] in *; lia). lia.
      * f_equal. f_equal. unfold zlen in *. cbn [length] in *. lia.
  - pose proof (IH s' (p + k) k Hlen') as G.
    destruct (nextS (AS (p + k) s' k)) as [c' a2]. cbn [fst snd] in G. rewrite G.
    destruct (scan_until f endr s') as [[b rest]|].
    + f_equal. f_equal. rewrite zlen_app, zlen_firstn_le by (unfold zlen in *; cbn [length] in *; lia). lia.
    + f_equal. f_equal. lia.
Qed.

(* consumeUntil: the body before the first unescaped delimiter, or "unclosed" *)
Theorem consumeUntilS_scan endr p s w : 0 <= endr < 128 -> 0 <= p ->
  consumeUntilS endr (AS p s w) =
  match scan_until (S (length s + Z.to_nat p)) endr s with
  | Some (b, rest) => Ok (b, AS (p + zlen b + 1) rest 1)
  | None => Err (ESyntax (p + zlen s))
  end.
Proof.
  intros He Hp. unfold consumeUntilS. cbn [asuf ap].
  pose proof (cul_scan endr He (S (length s + Z.to_nat p)) s p w ltac:(lia)) as G.
  destruct (nextS (AS p s w)) as [c a1]. cbn [fst snd] in G. rewrite G.
  destruct (scan_until _ endr s) as [[b rest]|] eqn:Esc; cbn [bind aw ap].
  - assert (1 =? 0 = false) as -> by reflexivity.
    pose proof (scan_until_split endr He _ _ _ _ Esc) as Hs.
    unfold sliceS. assert ((0 <=? p) && (p <=? p + zlen b + 1 - 1) && (p + zlen b + 1 - 1 <=? p + zlen s) = true) as ->.
    { rewrite Hs, zlen_app. unfold zlen. cbn [length]. lia. }
    cbn [bind]. f_equal. f_equal. replace (Z.to_nat (p + zlen b + 1 - 1 - p)) with (length b) by (unfold zlen; lia).
    rewrite Hs. apply firstn_app_exact.
  - cbn. unfold unclosedS, endS. cbn. unfold zlen. cbn. f_equal. f_equal. lia.
Qed.


(* ---- reading a rune does not look past an ASCII character ---- *)
Lemma decode_rune_app s c rest : s <> [] -> N.ltb c 128 = true ->
  decode_rune (s ++ c :: rest) = decode_rune s.
Proof.
  intros Hs Hc. destruct s as [|b0 r]; [congruence|]. cbn [app]. unfold decode_rune.
  destruct (N.ltb b0 128); [reflexivity|].
  assert (Hnc : forall lo hi, N.leb 128 lo = true -> in_range lo hi c = false) by (intros; unfold in_range; lia).
  assert (H1 : in_range 128 191 c = false) by (apply Hnc; reflexivity).
  assert (H2 : in_range 160 191 c = false) by (apply Hnc; reflexivity).
  assert (H3 : in_range 128 159 c = false) by (apply Hnc; reflexivity).
  assert (H4 : in_range 144 191 c = false) by (apply Hnc; reflexivity).
  assert (H5 : in_range 128 143 c = false) by (apply Hnc; reflexivity).
  destruct (in_range 194 223 b0).
  { destruct r as [|b1 r]; cbn [app]; [rewrite H1; reflexivity | reflexivity]. }
  destruct (in_range 224 239 b0).
  { destruct r as [|b1 [|b2 r]]; cbn [app]; try reflexivity.
    - destruct rest as [|x rest]; [reflexivity|].
      destruct (N.eqb b0 224), (N.eqb b0 237); rewrite Hnc by reflexivity; reflexivity.
    - rewrite H1, andb_false_r. reflexivity. }
  destruct (in_range 240 244 b0); [|reflexivity].
  destruct r as [|b1 [|b2 [|b3 r]]]; cbn [app]; try reflexivity.
  - destruct rest as [|x [|y rest]]; try reflexivity.
    destruct (N.eqb b0 240), (N.eqb b0 244); rewrite Hnc by reflexivity; reflexivity.
  - destruct rest as [|x rest]; [reflexivity|]. rewrite H1, andb_false_r. reflexivity.
  - rewrite H1, andb_false_r. reflexivity.
Qed.

Lemma stepS_app s c rest : s <> [] -> N.ltb c 128 = true ->
  stepS (s ++ c :: rest) = let '(r, k, s') := stepS s in (r, k, s' ++ c :: rest).
Proof.
  intros Hs Hc. unfold stepS. destruct s as [|b0 r0]; [congruence|]. cbn [app].
  change (b0 :: r0 ++ c :: rest) with ((b0 :: r0) ++ c :: rest). rewrite decode_rune_app by (auto; discriminate).
  pose proof (decode_rune_width (b0 :: r0) Hs) as W. destruct (decode_rune (b0 :: r0)) as [r k]. cbn [fst snd] in W.
  f_equal. rewrite skipn_app. replace (k - length (b0 :: r0))%nat with 0%nat by lia. reflexivity.
Qed.


(* ---- raw strings ---- *)
Definition map_fst {A B C} (f : A -> C) (o : option (A * B)) : option (C * B) :=
  match o with Some (a, b) => Some (f a, b) | None => None end.

(* the string a raw literal denotes (input after the opening quote) and the
   input after its closing quote: a backslash directly before a quote is dropped,
   everything else is copied *)
Fixpoint raw_scan (fuel : nat) (s : bytes) : option (bytes * bytes) :=
  match fuel with
  | O => None
  | S f =>
    match s with
    | [] => None
    | _ =>
      let '(r, k, s') := stepS s in
      if r =? 39 then Some ([], s')
      else match s' with
           | [] => None
           | c1 :: s'' =>
             if (r =? 92) && N.eqb c1 39 then map_fst (cons 39%N) (raw_scan f s'')
             else map_fst (app (firstn (Z.to_nat k) s)) (raw_scan f s')
           end
    end
  end.

Lemma peekS_eq p s w : peekS (AS p s w) = let '(r, k, _) := stepS s in (r, AS p s k).
Proof. reflexivity. Qed.

Lemma sliceFromS_mid p0 pre t ci :
  p0 <= ci <= p0 + zlen pre ->
  sliceFromS p0 (pre ++ t) ci (p0 + zlen pre) = Ok (skipn (Z.to_nat (ci - p0)) pre).
Proof.
  intros H. unfold sliceFromS.
  assert ((p0 <=? ci) && (ci <=? p0 + zlen pre) && (p0 + zlen pre <=? p0 + zlen (pre ++ t)) = true) as ->.
  { rewrite zlen_app. unfold zlen in *. lia. }
  f_equal. rewrite skipn_app. rewrite firstn_app. rewrite skipn_length.
  replace (Z.to_nat (p0 + zlen pre - ci) - (length pre - Z.to_nat (ci - p0)))%nat with 0%nat by (unfold zlen in *; lia).
  replace (Z.to_nat (ci - p0) - length pre)%nat with 0%nat by (unfold zlen in *; lia).
  cbn [skipn firstn]. rewrite app_nil_r. apply firstn_all2. rewrite skipn_length. unfold zlen in *. lia.
Qed.

Lemma raw_loop_scan p0 s0 : forall fuel pre t ci buf w,
  s0 = pre ++ t -> p0 <= ci <= p0 + zlen pre -> (length t < fuel)%nat ->
  let q := p0 + zlen pre in
  let mid := skipn (Z.to_nat (ci - p0)) pre in
  match raw_scan fuel t with
  | Some (v, rest) =>
    exists ci' buf' tail,
      raw_loopS fuel p0 s0 (fst (nextS (AS q t w))) ci buf (snd (nextS (AS q t w))) =
        Ok (ci', buf', AS (p0 + zlen s0 - zlen rest) rest 1) /\
      p0 <= ci' <= p0 + zlen s0 - zlen rest - 1 /\
      sliceFromS p0 s0 ci' (p0 + zlen s0 - zlen rest - 1) = Ok tail /\
      buf' ++ tail = buf ++ mid ++ v
  | None =>
    exists ci' buf' a',
      raw_loopS fuel p0 s0 (fst (nextS (AS q t w))) ci buf (snd (nextS (AS q t w))) = Ok (ci', buf', a') /\
      aw a' = 0 /\ endS a' = p0 + zlen s0
  end.
Proof.
  induction fuel as [|f IH]; intros pre t ci buf w Hs0 Hci Hf; [lia|]. cbn zeta.
  rewrite nextS_eq. cbn [raw_scan raw_loopS].
  destruct t as [|c t0].
  { cbn [stepS fst snd]. assert (eof =? 39 = false) as -> by reflexivity.
    rewrite peekS_eq. cbn [stepS]. assert (eof =? eof = true) as -> by reflexivity.
    eexists _, _, _. split; [reflexivity|]. split; [reflexivity|]. unfold endS. cbn.
    rewrite Hs0, app_nil_r. unfold zlen. cbn. lia. }
  pose proof (stepS_split (c :: t0) ltac:(discriminate)) as Sp. pose proof (stepS_first c t0) as Fi.
  destruct (stepS (c :: t0)) as [[r k] t'] eqn:Es. destruct Sp as [Hk [Hsp [Hl Hr]]]. cbn [fst snd].
  assert (Hz0 : zlen s0 = zlen pre + k + zlen t') by (rewrite Hs0, zlen_app; lia).
  destruct (r =? 39) eqn:E39.
  { assert (k = 1) as -> by (destruct Fi as [[_ [_ [-> _]]]|[_ Hr2]]; lia).
    eexists ci, buf, _. split; [f_equal; f_equal; f_equal; lia|]. split; [lia|].
    replace (p0 + zlen s0 - zlen t' - 1) with (p0 + zlen pre) by lia. rewrite Hs0.
    split; [apply sliceFromS_mid; lia|]. rewrite app_nil_r. reflexivity. }
  rewrite peekS_eq. cbn [asuf ap].
  destruct t' as [|c1 t''].
  { cbn [stepS]. assert (eof =? eof = true) as -> by reflexivity.
    eexists _, _, _. split; [reflexivity|]. split; [reflexivity|]. unfold endS. cbn. unfold zlen in *. cbn in *. lia. }
  pose proof (stepS_split (c1 :: t'') ltac:(discriminate)) as Sp1. pose proof (stepS_first c1 t'') as Fi1.
  destruct (stepS (c1 :: t'')) as [[r1 k1] t3] eqn:Es1. destruct Sp1 as [Hk1 [Hsp1 [Hl1 Hr1]]].
  assert (r1 =? eof = false) as -> by (apply Z.eqb_neq; exact Hr1).
  (* the common continuation: copy this rune and go on with the next one *)
  assert (Copy : forall wx,
    match map_fst (app (firstn (Z.to_nat k) (c :: t0))) (raw_scan f (c1 :: t'')) with
    | Some (v, rest) =>
      exists ci' buf' tail,
        (let '(c', a4) := nextS (AS (p0 + zlen pre + k) (c1 :: t'') wx) in raw_loopS f p0 s0 c' ci buf a4) =
          Ok (ci', buf', AS (p0 + zlen s0 - zlen rest) rest 1) /\
        p0 <= ci' <= p0 + zlen s0 - zlen rest - 1 /\
        sliceFromS p0 s0 ci' (p0 + zlen s0 - zlen rest - 1) = Ok tail /\
        buf' ++ tail = buf ++ skipn (Z.to_nat (ci - p0)) pre ++ v
    | None =>
      exists ci' buf' a',
        (let '(c', a4) := nextS (AS (p0 + zlen pre + k) (c1 :: t'') wx) in raw_loopS f p0 s0 c' ci buf a4) = Ok (ci', buf', a') /\
        aw a' = 0 /\ endS a' = p0 + zlen s0
    end).
  { intros wx.
    assert (Hs0' : s0 = (pre ++ firstn (Z.to_nat k) (c :: t0)) ++ c1 :: t'').
    { rewrite <- app_assoc, <- Hsp. exact Hs0. }
    assert (Hzp : zlen (pre ++ firstn (Z.to_nat k) (c :: t0)) = zlen pre + k).
    { rewrite zlen_app, zlen_firstn_le by (unfold zlen in Hl; cbn [length] in *; lia). lia. }
    pose proof (IH (pre ++ firstn (Z.to_nat k) (c :: t0)) (c1 :: t'') ci buf wx Hs0' ltac:(lia)
                   ltac:(unfold zlen in Hl; cbn [length] in *; lia)) as G.
    cbn zeta in G. rewrite Hzp in G. replace (p0 + (zlen pre + k)) with (p0 + zlen pre + k) in G by lia.
    assert (Hmid : skipn (Z.to_nat (ci - p0)) (pre ++ firstn (Z.to_nat k) (c :: t0)) =
                   skipn (Z.to_nat (ci - p0)) pre ++ firstn (Z.to_nat k) (c :: t0)).
    { rewrite skipn_app. replace (Z.to_nat (ci - p0) - length pre)%nat with 0%nat by (unfold zlen in *; lia). reflexivity. }
    rewrite Hmid in G.
    destruct (nextS (AS (p0 + zlen pre + k) (c1 :: t'') wx)) as [c' a4]. cbn [fst snd] in G.
    destruct (raw_scan f (c1 :: t'')) as [[v rest]|]; cbn [map_fst].
    - destruct G as [ci' [buf' [tail [G1 [G2 [G3 G4]]]]]]. exists ci', buf', tail.
      split; [exact G1|]. split; [lia|]. split; [exact G3|]. rewrite G4. rewrite <- ?app_assoc. reflexivity.
    - exact G. }
  destruct (r =? 92) eqn:E92.
  - assert (k = 1) as Hk1' by (destruct Fi as [[_ [_ [-> _]]]|[_ Hr2]]; lia). subst k.
    rewrite peekS_eq. cbn [asuf ap]. rewrite Es1.
    destruct (N.eqb c1 39) eqn:Ec1.
    + (* an escaped quote *)
      apply N.eqb_eq in Ec1. subst c1.
      assert (Hq : r1 = 39 /\ k1 = 1 /\ t3 = t'').
      { destruct Fi1 as [[_ [-> [-> ->]]]|[Hc _]]; [repeat split; reflexivity | discriminate]. }
      destruct Hq as [-> [-> ->]]. assert (39 =? 39 = true) as -> by reflexivity. cbn [andb].
      cbn [ap]. replace (p0 + zlen pre + 1 - 1) with (p0 + zlen pre) by lia.
      replace (sliceFromS p0 s0 ci (p0 + zlen pre)) with (@Ok bytes (skipn (Z.to_nat (ci - p0)) pre))
        by (rewrite Hs0; symmetry; apply sliceFromS_mid; lia). cbn [bind].
      rewrite nextS_eq. rewrite Es1. cbn [bind ap].
      assert (Hs0' : s0 = (pre ++ [c; 39%N]) ++ t'').
      { rewrite <- app_assoc. cbn [app]. rewrite Hs0. f_equal.
        rewrite Hsp. cbn [Z.to_nat firstn]. replace (Z.to_nat 1) with 1%nat by lia. reflexivity. }
      assert (Hzp : zlen (pre ++ [c; 39%N]) = zlen pre + 2) by (rewrite zlen_app; unfold zlen; cbn; lia).
      pose proof (IH (pre ++ [c; 39%N]) t'' (p0 + zlen pre + 1 + 1)
                     (buf ++ skipn (Z.to_nat (ci - p0)) pre ++ [39%N]) 1 Hs0' ltac:(lia)
                     ltac:(unfold zlen in *; cbn [length] in *; lia)) as G.
      cbn zeta in G. rewrite Hzp in G.
      replace (p0 + (zlen pre + 2)) with (p0 + zlen pre + 1 + 1) in G by lia.
      assert (Hmid : skipn (Z.to_nat (p0 + zlen pre + 1 + 1 - p0)) (pre ++ [c; 39%N]) = []).
      { apply skipn_all2. rewrite app_length. unfold zlen. cbn [length]. lia. }
      rewrite Hmid in G. cbn [app] in G.
      destruct (nextS (AS (p0 + zlen pre + 1 + 1) t'' 1)) as [c' a4]. cbn [fst snd] in G.
      destruct (raw_scan f t'') as [[v rest]|]; cbn [map_fst].
      * destruct G as [ci' [buf' [tail [G1 [G2 [G3 G4]]]]]]. exists ci', buf', tail.
        split; [exact G1|]. split; [lia|]. split; [exact G3|]. rewrite G4. rewrite <- ?app_assoc. reflexivity.
      * exact G.
    + (* a backslash before something else: it is copied *)
      assert (r1 =? 39 = false) as ->.
      { destruct Fi1 as [[_ [-> _]]|[_ Hr2]]; [apply N.eqb_neq in Ec1; lia | lia]. }
      cbn [andb bind]. apply (Copy k1).
  - cbn [andb bind]. apply (Copy k).
Qed.


(* ---- the scanners read byte by byte what they read rune by rune ---- *)
(* a rune wider than one byte consists of a first byte and continuation bytes, none of them ASCII *)
Lemma decode_rune_conts b s0 : let '(r, k) := decode_rune (b :: s0) in
  Forall (fun x => N.leb 128 x = true) (firstn (k - 1) s0).
Proof.
  unfold decode_rune. destruct (N.ltb b 128); [constructor|].
  destruct (in_range 194 223 b).
  { destruct s0 as [|b1 s0]; [constructor|]. destruct (in_range 128 191 b1) eqn:E; cbn; [|constructor].
    constructor; [unfold in_range in E; lia | constructor]. }
  destruct (in_range 224 239 b).
  { destruct s0 as [|b1 [|b2 s0]]; try constructor.
    destruct (_ && _) eqn:E; cbn; [|constructor]. apply andb_true_iff in E as [E1 E2].
    constructor; [unfold in_range in E1; destruct (N.eqb b 224), (N.eqb b 237); lia|].
    constructor; [unfold in_range in E2; lia | constructor]. }
  destruct (in_range 240 244 b); [|constructor].
  destruct s0 as [|b1 [|b2 [|b3 s0]]]; try constructor.
  destruct (_ && _ && _) eqn:E; cbn; [|constructor]. apply andb_true_iff in E as [E12 E3]. apply andb_true_iff in E12 as [E1 E2].
  constructor; [unfold in_range in E1; destruct (N.eqb b 240), (N.eqb b 244); lia|].
  constructor; [unfold in_range in E2; lia|]. constructor; [unfold in_range in E3; lia | constructor].
Qed.

Lemma stepS_conts b s0 : let '(r, k, s') := stepS (b :: s0) in
  exists conts, b :: s0 = b :: conts ++ s' /\ zlen conts = k - 1 /\ Forall (fun x => N.leb 128 x = true) conts /\
                (r < 128 -> conts = [] /\ r = Z.of_N b).
Proof.
  pose proof (decode_rune_conts b s0) as C. pose proof (stepS_first b s0) as F.
  pose proof (stepS_split (b :: s0) ltac:(discriminate)) as Sp.
  unfold stepS in *. destruct (decode_rune (b :: s0)) as [r k].
  destruct Sp as [Hk [Hsp [Hl _]]]. rewrite Nat2Z.id in Hsp.
  exists (firstn (k - 1) s0). split.
  - destruct k as [|k]; [lia|]. cbn [skipn firstn] in *. replace (S k - 1)%nat with k by lia.
    f_equal. symmetry. apply firstn_skipn.
  - split; [|split; [exact C|]].
    + rewrite zlen_firstn_le; [lia|]. unfold zlen in Hl. rewrite skipn_length in Hl. cbn [length] in Hl. lia.
    + intros Hr. destruct F as [[Hb [-> [Hk1 _]]]|[Hb Hr2]]; [|lia].
      replace (k - 1)%nat with 0%nat by lia. split; reflexivity.
Qed.

(* byte-level reading of raw_scan *)
Fixpoint raw_scanB (s : bytes) : option (bytes * bytes) :=
  match s with
  | [] => None
  | b :: s' =>
    if N.eqb b 39 then Some ([], s')
    else match s' with
         | [] => None
         | c1 :: s'' =>
           if N.eqb b 92 && N.eqb c1 39 then map_fst (cons 39%N) (raw_scanB s'')
           else map_fst (cons b) (raw_scanB s')
         end
  end.

Lemma raw_scanB_cons b s' : N.eqb b 39 = false -> N.eqb b 92 = false -> s' <> [] ->
  raw_scanB (b :: s') = map_fst (cons b) (raw_scanB s').
Proof. intros H1 H2 Hs. cbn [raw_scanB]. rewrite H1, H2. destruct s'; [congruence | reflexivity]. Qed.

(* bytes that are neither a quote nor a backslash are copied one by one *)
Lemma raw_scanB_copy conts : Forall (fun x => N.leb 128 x = true) conts -> forall s', s' <> [] ->
  raw_scanB (conts ++ s') = map_fst (app conts) (raw_scanB s').
Proof.
  induction 1 as [|x conts Hx _ IH]; intros s' Hs'.
  - cbn. destruct (raw_scanB s') as [[? ?]|]; reflexivity.
  - cbn [app raw_scanB]. assert (N.eqb x 39 = false) as -> by lia. assert (N.eqb x 92 = false) as -> by lia. cbn [andb].
    destruct (conts ++ s') as [|c1 r] eqn:E; [destruct conts; [cbn in E; congruence | discriminate]|].
    rewrite <- E, IH by exact Hs'. destruct (raw_scanB s') as [[? ?]|]; reflexivity.
Qed.

Lemma raw_scanB_copy_end conts : Forall (fun x => N.leb 128 x = true) conts -> raw_scanB conts = None.
Proof.
  induction 1 as [|x conts Hx _ IH]; [reflexivity|]. cbn [raw_scanB].
  assert (N.eqb x 39 = false) as -> by lia. assert (N.eqb x 92 = false) as -> by lia. cbn [andb].
  destruct conts; [reflexivity|]. rewrite IH. reflexivity.
Qed.

Lemma raw_scan_bytes : forall fuel s, (length s < fuel)%nat -> raw_scan fuel s = raw_scanB s.
Proof.
  induction fuel as [|f IH]; intros s Hf; [lia|]. destruct s as [|b s0]; [reflexivity|].
  cbn [raw_scan]. pose proof (stepS_conts b s0) as C. pose proof (stepS_first b s0) as F.
  destruct (stepS (b :: s0)) as [[r k] s'] eqn:Es. destruct C as [conts [Hsp [Hzc [Hc Hascii]]]].
  assert (Hs0 : s0 = conts ++ s') by (inversion Hsp; reflexivity). clear Hsp.
  assert (Hlen : (length s' < f)%nat) by (rewrite Hs0 in Hf; cbn [length] in Hf; rewrite app_length in Hf; lia).
  assert (Hfirst : firstn (Z.to_nat k) (b :: s0) = b :: conts).
  { rewrite Hs0. replace (Z.to_nat k) with (S (length conts)) by (unfold zlen in Hzc; lia).
    cbn [firstn]. f_equal. apply firstn_app_exact. }
  rewrite Hfirst. clear Hfirst Es.
  destruct (r =? 39) eqn:E39.
  { destruct (Hascii ltac:(lia)) as [-> Hr]. cbn [app] in *. cbn [raw_scanB].
    assert (N.eqb b 39 = true) as -> by lia. subst s0. reflexivity. }
  assert (Hb39 : N.eqb b 39 = false).
  { destruct F as [[Hb [Hr _]]|[Hb _]]; lia. }
  destruct (r =? 92) eqn:E92.
  - destruct (Hascii ltac:(lia)) as [-> Hr]. cbn [app] in *. subst s0.
    cbn [raw_scanB]. rewrite Hb39. assert (N.eqb b 92 = true) as -> by lia. cbn [andb].
    destruct s' as [|c1 s'']; [reflexivity|]. destruct (N.eqb c1 39).
    + rewrite IH by (cbn [length] in *; lia). reflexivity.
    + rewrite IH by exact Hlen. cbn. destruct (raw_scanB (c1 :: s'')) as [[? ?]|]; reflexivity.
  - assert (Hb92 : N.eqb b 92 = false).
    { destruct F as [[Hb [Hr _]]|[Hb _]]; lia. }
    cbn [andb]. subst s0.
    destruct s' as [|c1 s''].
    + (* the rune is the last thing in the input *)
      rewrite app_nil_r.
      destruct conts as [|x conts]; [cbn [raw_scanB]; rewrite Hb39; reflexivity|].
      rewrite raw_scanB_cons by (first [assumption | discriminate]).
      rewrite (raw_scanB_copy_end (x :: conts) Hc). reflexivity.
    + rewrite IH by exact Hlen.
      rewrite (raw_scanB_cons b (conts ++ c1 :: s'')) by (first [assumption | destruct conts; cbn; discriminate]).
      rewrite (raw_scanB_copy conts Hc (c1 :: s'')) by discriminate.
      destruct (raw_scanB (c1 :: s'')) as [[? ?]|]; reflexivity.
Qed.


(* the spelling of a string as a raw literal body: ' written as \' *)
Fixpoint raw_escape (x : bytes) : bytes :=
  match x with
  | [] => []
  | c :: r => if N.eqb c 39 then 92%N :: 39%N :: raw_escape r else c :: raw_escape r
  end.

Lemma raw_escape_roundtrip : forall x rest, raw_ok x = true ->
  raw_scanB (raw_escape x ++ 39%N :: rest) = Some (x, rest).
Proof.
  induction x as [|c x IH]; intros rest Hok; [reflexivity|]. cbn [raw_ok] in Hok. apply andb_true_iff in Hok as [H1 H2].
  cbn [raw_escape]. destruct (N.eqb c 39) eqn:E39.
  - apply N.eqb_eq in E39. subst c. cbn [app raw_scanB]. cbn. rewrite IH by exact H2. reflexivity.
  - cbn [app raw_scanB]. rewrite E39.
    destruct (raw_escape x ++ 39%N :: rest) as [|c1 s''] eqn:E; [destruct (raw_escape x); discriminate|].
    assert (Hno : N.eqb c 92 && N.eqb c1 39 = false).
    { destruct (N.eqb c 92) eqn:E92; [|reflexivity]. cbn [andb].
      destruct x as [|d x']; [discriminate|]. cbn [raw_escape app] in E.
      destruct (N.eqb d 39) eqn:Ed; [discriminate|]. inversion E; subst. exact Ed. }
    rewrite Hno. rewrite <- E, IH by exact H2. reflexivity.
Qed.

Theorem consumeRawS_scan p s w : 0 <= p ->
  consumeRawStringLiteralS (AS p s w) =
  match raw_scan (S (length s + Z.to_nat p)) s with
  | Some (v, rest) => Ok (Token tStringLiteral v p (zlen v), AS (p + zlen s - zlen rest) rest 1)
  | None => Err (ESyntax (p + zlen s))
  end.
Proof.
  intros Hp. unfold consumeRawStringLiteralS. cbn [asuf ap].
  pose proof (raw_loop_scan p s (S (length s + Z.to_nat p)) [] s p [] w eq_refl) as G.
  cbn zeta in G. change (zlen []) with 0 in G. rewrite Z.add_0_r in G.
  specialize (G ltac:(lia) ltac:(lia)).
  destruct (nextS (AS p s w)) as [c a1]. cbn [fst snd] in G.
  destruct (raw_scan _ s) as [[v rest]|].
  - destruct G as [ci' [buf' [tail [G1 [G2 [G3 G4]]]]]]. rewrite G1. cbn [bind aw ap].
    assert (1 =? 0 = false) as -> by reflexivity.
    assert (ci' <? p + zlen s - zlen rest = true) as -> by lia.
    rewrite G3. cbn [bind]. rewrite G4. replace (Z.to_nat (p - p)) with 0%nat by lia. reflexivity.
  - destruct G as [ci' [buf' [a' [G1 [G2 G3]]]]]. rewrite G1. cbn [bind]. rewrite G2. cbn.
    unfold unclosedS. rewrite G3. reflexivity.
Qed.

(* a raw string literal denotes exactly the written string, backslashes included *)
Theorem raw_string_lexes x :
  raw_ok x = true ->
  tokenizeS (39%N :: raw_escape x ++ [39%N]) =
  Ok [Token tStringLiteral x 1 (zlen x); Token tEOF [] (zlen (39%N :: raw_escape x ++ [39%N])) 0].
Proof.
  intros Hok. unfold tokenizeS. set (e := 39%N :: raw_escape x ++ [39%N]).
  remember (S (length e)) as f1 eqn:Ef1.
  cbn [tokenize_loopS]. unfold nextS at 1. cbn [asuf ap]. unfold e at 1. rewrite (stepS_ascii 39) by reflexivity.
  assert (ident_start (Z.of_N 39) = false) as -> by (vm_compute; reflexivity).
  assert (assoc_Z (Z.of_N 39) basic_tokens = None) as -> by (vm_compute; reflexivity).
  cbn -[tokenize_loopS consumeRawStringLiteralS raw_escape e].
  rewrite consumeRawS_scan by lia. rewrite raw_scan_bytes by lia.
  rewrite raw_escape_roundtrip by exact Hok. cbn [bind].
  replace (0 + 1 + zlen (raw_escape x ++ [39%N]) - zlen []) with (zlen e)
    by (unfold e, zlen; cbn [length]; lia).
  subst f1. rewrite lex_eof. reflexivity.
Qed.


(* ---- byte-level reading of scan_until ---- *)
Fixpoint scan_untilB (endr : N) (s : bytes) : option (bytes * bytes) :=
  match s with
  | [] => None
  | b :: s' =>
    if N.eqb b endr then Some ([], s')
    else if N.eqb b 92 then
      match s' with
      | [] => None
      | c1 :: s'' => map_fst (fun x => b :: c1 :: x) (scan_untilB endr s'')
      end
    else map_fst (cons b) (scan_untilB endr s')
  end.

Lemma scan_untilB_copy endr conts : N.ltb endr 128 = true ->
  Forall (fun x => N.leb 128 x = true) conts -> forall s',
  scan_untilB endr (conts ++ s') = map_fst (app conts) (scan_untilB endr s').
Proof.
  intros He. induction 1 as [|x conts Hx _ IH]; intros s'.
  - cbn. destruct (scan_untilB endr s') as [[? ?]|]; reflexivity.
  - cbn [app scan_untilB]. assert (N.eqb x endr = false) as -> by lia. assert (N.eqb x 92 = false) as -> by lia.
    rewrite IH. destruct (scan_untilB endr s') as [[? ?]|]; reflexivity.
Qed.

Lemma scan_until_bytes endr : N.ltb endr 128 = true -> N.eqb endr 92 = false ->
  forall fuel s, (length s < fuel)%nat -> scan_until fuel (Z.of_N endr) s = scan_untilB endr s.
Proof.
  intros He He92. induction fuel as [|f IH]; intros s Hf; [lia|]. destruct s as [|b s0]; [reflexivity|].
  cbn [scan_until]. pose proof (stepS_conts b s0) as C. pose proof (stepS_first b s0) as F.
  destruct (stepS (b :: s0)) as [[r k] s'] eqn:Es. destruct C as [conts [Hsp [Hzc [Hc Hascii]]]].
  assert (Hs0 : s0 = conts ++ s') by (inversion Hsp; reflexivity). clear Hsp.
  assert (Hlen : (length s' < f)%nat) by (rewrite Hs0 in Hf; cbn [length] in Hf; rewrite app_length in Hf; lia).
  assert (Hfirst : forall n, firstn (S (length conts) + n) (b :: s0) = b :: conts ++ firstn n s').
  { intros n. rewrite Hs0. cbn [Nat.add firstn]. f_equal. rewrite firstn_app. rewrite firstn_all2 by lia.
    f_equal. f_equal. lia. }
  assert (Hk : Z.to_nat k = S (length conts)) by (unfold zlen in Hzc; lia).
  clear Es.
  destruct (r =? Z.of_N endr) eqn:E1.
  { destruct (Hascii ltac:(lia)) as [-> Hr]. cbn [app] in *. cbn [scan_untilB].
    assert (N.eqb b endr = true) as -> by lia. subst s0. reflexivity. }
  assert (Hbe : N.eqb b endr = false).
  { destruct F as [[Hb [Hr _]]|[Hb _]]; lia. }
  destruct (r =? 92) eqn:E92.
  - destruct (Hascii ltac:(lia)) as [-> Hr]. cbn [app length] in *. subst s0.
    cbn [scan_untilB]. rewrite Hbe. assert (N.eqb b 92 = true) as -> by lia.
    destruct s' as [|c1 s1]; [reflexivity|].
    pose proof (stepS_conts c1 s1) as C2.
    destruct (stepS (c1 :: s1)) as [[r2 k2] s''] eqn:Es2. destruct C2 as [conts2 [Hsp2 [Hzc2 [Hc2 _]]]].
    assert (Hs1 : s1 = conts2 ++ s'') by (inversion Hsp2; reflexivity). clear Hsp2.
    rewrite IH by (subst s1; cbn [length] in *; rewrite app_length in *; lia).
    subst s1. rewrite (scan_untilB_copy endr conts2 He Hc2).
    replace (Z.to_nat (k + k2)) with (1 + (S (length conts2) + 0))%nat by (unfold zlen in *; cbn [length] in *; lia).
    cbn [Nat.add firstn]. rewrite firstn_app, firstn_all2 by lia.
    replace (length conts2 + 0 - length conts2)%nat with 0%nat by lia. cbn [firstn]. rewrite app_nil_r.
    destruct (scan_untilB endr s'') as [[? ?]|]; reflexivity.
  - assert (Hb92 : N.eqb b 92 = false).
    { destruct F as [[Hb [Hr _]]|[Hb _]]; lia. }
    rewrite IH by exact Hlen. cbn [scan_untilB]. rewrite Hbe, Hb92. subst s0.
    rewrite (scan_untilB_copy endr conts He Hc).
    rewrite Hk. replace (S (length conts)) with (S (length conts) + 0)%nat by lia.
    rewrite (Hfirst 0%nat). cbn [firstn]. rewrite app_nil_r.
    destruct (scan_untilB endr s') as [[? ?]|]; reflexivity.
Qed.

(* a body in which every delimiter and every backslash is escaped by a backslash *)
Fixpoint clean (endr : N) (s : bytes) : bool :=
  match s with
  | [] => true
  | b :: s' =>
    if N.eqb b endr then false
    else if N.eqb b 92 then match s' with [] => false | _ :: s'' => clean endr s'' end
    else clean endr s'
  end.

Lemma scan_clean endr rest : forall n body, (length body <= n)%nat -> clean endr body = true ->
  scan_untilB endr (body ++ endr :: rest) = Some (body, rest).
Proof.
  induction n as [|n IH]; intros body Hn Hc.
  - destruct body; [|cbn in Hn; lia]. cbn. rewrite N.eqb_refl. reflexivity.
  - destruct body as [|b body]; [cbn; rewrite N.eqb_refl; reflexivity|].
    cbn [clean] in Hc. cbn [app scan_untilB]. destruct (N.eqb b endr); [discriminate|].
    destruct (N.eqb b 92).
    + destruct body as [|c1 body]; [discriminate|]. cbn [app]. rewrite IH by (auto; cbn [length] in *; lia). reflexivity.
    + rewrite IH by (auto; cbn [length] in *; lia). reflexivity.
Qed.


(* ---- quoted identifiers and JSON literals as whole expressions ---- *)
Lemma consumeUntilS_clean endr p body rest w : N.ltb endr 128 = true -> N.eqb endr 92 = false -> 0 <= p ->
  clean endr body = true ->
  consumeUntilS (Z.of_N endr) (AS p (body ++ endr :: rest) w) = Ok (body, AS (p + zlen body + 1) rest 1).
Proof.
  intros He He92 Hp Hc. rewrite consumeUntilS_scan by lia.
  rewrite scan_until_bytes by (auto; lia). rewrite (scan_clean endr rest (length body) body (Nat.le_refl _) Hc). reflexivity.
Qed.

(* "body" read as an expression: one quoted-identifier token holding the JSON
   decoding of the body (or the decoding error) *)
Theorem quoted_identifier_lexes body :
  clean 34 body = true ->
  tokenizeS (34%N :: body ++ [34%N]) =
  match json_unquote body with
  | Some d => Ok [Token tQuotedIdentifier d 0 (zlen d); Token tEOF [] (zlen body + 2) 0]
  | None => Err ECompileOther
  end.
Proof.
  intros Hc. unfold tokenizeS. set (e := 34%N :: body ++ [34%N]).
  remember (S (length e)) as f1 eqn:Ef1.
  cbn [tokenize_loopS]. unfold nextS at 1. cbn [asuf ap]. unfold e at 1. rewrite (stepS_ascii 34) by reflexivity.
  assert (ident_start (Z.of_N 34) = false) as -> by (vm_compute; reflexivity).
  assert (assoc_Z (Z.of_N 34) basic_tokens = None) as -> by (vm_compute; reflexivity).
  cbn -[tokenize_loopS consumeQuotedIdentifierS e].
  unfold consumeQuotedIdentifierS. change 34 with (Z.of_N 34).
  rewrite (consumeUntilS_clean 34 1 body [] 1) by (auto; lia). cbn [bind].
  destruct (json_unquote body) as [d|]; [|reflexivity]. cbn [bind ap].
  subst f1. rewrite lex_eof. cbn [rev app ap]. replace (1 - 1) with 0 by lia.
  replace (1 + zlen body + 1) with (zlen body + 2) by lia. reflexivity.
Qed.

(* `body` read as an expression: one JSON-literal token holding the body with \` read as ` *)
Theorem literal_lexes body :
  clean 96 body = true ->
  tokenizeS (96%N :: body ++ [96%N]) =
  Ok [Token tJSONLiteral (replace2 92 96 96 body) 1 (zlen (replace2 92 96 96 body)); Token tEOF [] (zlen body + 2) 0].
Proof.
  intros Hc. unfold tokenizeS. set (e := 96%N :: body ++ [96%N]).
  remember (S (length e)) as f1 eqn:Ef1.
  cbn [tokenize_loopS]. unfold nextS at 1. cbn [asuf ap]. unfold e at 1. rewrite (stepS_ascii 96) by reflexivity.
  assert (ident_start (Z.of_N 96) = false) as -> by (vm_compute; reflexivity).
  assert (assoc_Z (Z.of_N 96) basic_tokens = None) as -> by (vm_compute; reflexivity).
  cbn -[tokenize_loopS consumeLiteralS e replace2].
  unfold consumeLiteralS. change 96 with (Z.of_N 96) at 1.
  rewrite (consumeUntilS_clean 96 1 body [] 1) by (auto; lia). cbn [bind ap].
  subst f1. rewrite lex_eof. cbn [rev app ap]. replace (1 - 1) with 0 by lia.
  replace (1 + zlen body + 1) with (zlen body + 2) by lia. reflexivity.
Qed.

(* the spelling of a JSON text inside backticks: ` written as \` *)
Fixpoint lit_escape (t : bytes) : bytes :=
  match t with
  | [] => []
  | c :: r => if N.eqb c 96 then 92%N :: 96%N :: lit_escape r else c :: lit_escape r
  end.

Lemma lit_escape_head t : match lit_escape t with 96%N :: _ => False | _ => True end.
Proof. destruct t as [|c r]; cbn; [exact I|]. destruct (N.eqb_spec c 96); [exact I|]. destruct c as [|p]; try exact I.
  repeat (destruct p as [p|p|]; try exact I). congruence. Qed.

Theorem lit_unescape : forall t, replace2 92 96 96 (lit_escape t) = t.
Proof.
  induction t as [|c r IH]; [reflexivity|]. cbn [lit_escape]. destruct (N.eqb c 96) eqn:E.
  - apply N.eqb_eq in E. subst c. cbn [replace2]. cbn. rewrite IH. reflexivity.
  - pose proof (lit_escape_head r) as Hh. destruct (lit_escape r) as [|y r'] eqn:Er.
    + cbn. f_equal. destruct r as [|d r0]; [reflexivity|]. cbn in Er. destruct (N.eqb d 96); discriminate.
    + cbn [replace2]. assert (N.eqb c 92 && N.eqb y 96 = false) as ->.
      { destruct (N.eqb_spec y 96); [subst; contradiction | rewrite andb_false_r; reflexivity]. }
      f_equal. exact IH.
Qed.

(* texts whose backslashes come in pairs with the following byte, which is not a
   backtick (JSON text: a backslash occurs only inside strings, as the first
   byte of an escape) *)
Fixpoint paired (t : bytes) : bool :=
  match t with
  | [] => true
  | c :: r =>
    if N.eqb c 92 then match r with [] => false | d :: r' => negb (N.eqb d 96) && paired r' end
    else paired r
  end.

Lemma lit_escape_clean : forall n t, (length t <= n)%nat -> paired t = true -> clean 96 (lit_escape t) = true.
Proof.
  induction n as [|n IH]; intros t Hn Hp; [destruct t; [reflexivity | cbn in Hn; lia]|].
  destruct t as [|c r]; [reflexivity|]. cbn [paired] in Hp. cbn [lit_escape].
  destruct (N.eqb c 96) eqn:E96.
  - apply N.eqb_eq in E96. subst c. cbn in Hp. cbn [clean]. cbn. apply IH; [cbn [length] in Hn; lia | exact Hp].
  - destruct (N.eqb c 92) eqn:E92.
    + destruct r as [|d r']; [discriminate|]. apply andb_true_iff in Hp as [Hd Hp]. apply negb_true_iff in Hd.
      cbn [lit_escape]. rewrite Hd. cbn [clean]. rewrite E96, E92. apply IH; [cbn [length] in Hn; lia | exact Hp].
    + cbn [clean]. rewrite E96, E92. apply IH; [cbn [length] in Hn; lia | exact Hp].
Qed.

(* a JSON text t spelled in backticks is read as one literal token holding t *)
Theorem json_literal_lexes t :
  paired t = true ->
  tokenizeS (96%N :: lit_escape t ++ [96%N]) =
  Ok [Token tJSONLiteral t 1 (zlen t); Token tEOF [] (zlen (lit_escape t) + 2) 0].
Proof.
  intros Hp. rewrite literal_lexes by (apply (lit_escape_clean (length t)); [lia | exact Hp]).
  rewrite lit_unescape. reflexivity.
Qed.


(* ---- from tokens to what the expression denotes ---- *)
Lemma parse_raw_tokens x p n q :
  parse_tokens [Token tStringLiteral x p n; Token tEOF [] q 0] = Ok (Node ASTLiteral (NVJson (VStr x)) []).
Proof. reflexivity. Qed.
Lemma parse_quoted_tokens x p n q :
  parse_tokens [Token tQuotedIdentifier x p n; Token tEOF [] q 0] = Ok (Node ASTField (NVStr x) []).
Proof. reflexivity. Qed.
Lemma parse_unquoted_tokens x p n q :
  parse_tokens [Token tUnquotedIdentifier x p n; Token tEOF [] q 0] = Ok (Node ASTField (NVStr x) []).
Proof. reflexivity. Qed.
Lemma parse_lit_tokens t p n q :
  parse_tokens [Token tJSONLiteral t p n; Token tEOF [] q 0] =
  match json_unmarshal t with Some v => Ok (Node ASTLiteral (NVJson v) []) | None => Err ECompileOther end.
Proof. unfold parse_tokens. cbn -[json_unmarshal]. destruct (json_unmarshal t); reflexivity. Qed.

Variable ord : obj -> obj.

(* a raw string literal denotes exactly the written string *)
Theorem raw_string_denotes x d :
  raw_ok x = true -> search ord (39%N :: raw_escape x ++ [39%N]) d = Ok (VStr x).
Proof.
  intros H. unfold search, parse. rewrite tokenize_view, (raw_string_lexes x H). cbn [bind].
  rewrite parse_raw_tokens. reflexivity.
Qed.

(* a quoted identifier whose body decodes to s selects exactly the member s *)
Theorem quoted_identifier_selects body s m :
  clean 34 body = true -> json_unquote body = Some s ->
  search ord (34%N :: body ++ [34%N]) (VObj m) = Ok (match obj_get s m with Some v => v | None => VNull end).
Proof.
  intros Hc Hu. unfold search, parse. rewrite tokenize_view, (quoted_identifier_lexes body Hc), Hu. cbn [bind].
  rewrite parse_quoted_tokens. reflexivity.
Qed.

Theorem unquoted_identifier_selects name m :
  valid_unquoted name = true ->
  search ord name (VObj m) = Ok (match obj_get name m with Some v => v | None => VNull end).
Proof.
  intros Hv. unfold search, parse. rewrite tokenize_view, (unquoted_identifier_lexes name Hv). cbn [bind].
  rewrite parse_unquoted_tokens. reflexivity.
Qed.

(* a JSON text in backticks denotes the value json.Unmarshal gives for it *)
Theorem json_literal_denotes t d :
  paired t = true ->
  search ord (96%N :: lit_escape t ++ [96%N]) d =
  match json_unmarshal t with Some v => Ok v | None => Err ECompileOther end.
Proof.
  intros Hp. unfold search, parse. rewrite tokenize_view, (json_literal_lexes t Hp). cbn [bind].
  rewrite parse_lit_tokens. destruct (json_unmarshal t); reflexivity.
Qed.


(* ---- quoted identifiers in Go's JSON spelling ---- *)
Lemma clean_high endr conts rest : N.ltb endr 128 = true -> Forall (fun x => N.leb 128 x = true) conts ->
  clean endr (conts ++ rest) = clean endr rest.
Proof.
  intros He. induction 1 as [|x conts Hx _ IH]; [reflexivity|]. cbn [app clean].
  assert (N.eqb x endr = false) as -> by lia. assert (N.eqb x 92 = false) as -> by lia. exact IH.
Qed.

Lemma clean_esc_rune r rest : valid_rune r = true -> clean 34 (esc_rune r ++ rest) = clean 34 rest.
Proof.
  intros Hv. unfold esc_rune. destruct (r <? 128) eqn:E.
  - set (c := Z.to_N r).
    destruct (N.eqb c 92 || N.eqb c 34) eqn:E1; [reflexivity|].
    destruct (N.eqb c 8); [reflexivity|]. destruct (N.eqb c 12); [reflexivity|]. destruct (N.eqb c 10); [reflexivity|].
    destruct (N.eqb c 13); [reflexivity|]. destruct (N.eqb c 9); [reflexivity|].
    destruct (N.ltb c 32 || N.eqb c 60 || N.eqb c 62 || N.eqb c 38) eqn:E2.
    + assert (Hr : 0 <= r < 128) by (unfold valid_rune in Hv; lia).
      destruct (hex_digit_plain (Z.of_N c / 16) ltac:(lia)) as [A1 A2].
      destruct (hex_digit_plain (Z.of_N c mod 16) ltac:(lia)) as [B1 B2].
      cbn -[hex_digit Z.div Z.modulo]. rewrite A1, A2, B1, B2. reflexivity.
    + cbn [app clean]. assert (N.eqb c 34 = false) as -> by lia. assert (N.eqb c 92 = false) as -> by lia. reflexivity.
  - destruct ((r =? 8232) || (r =? 8233)) eqn:E2.
    + destruct (hex_digit_plain (r mod 16) ltac:(lia)) as [A1 A2].
      cbn -[hex_digit Z.modulo]. rewrite A1, A2. reflexivity.
    + apply clean_high; [reflexivity | apply encode_high_all; [exact Hv | lia]].
Qed.

Lemma clean_json_escape rs : forallb valid_rune rs = true -> clean 34 (json_escape rs) = true.
Proof.
  induction rs as [|r rs IH]; intros Hv; [reflexivity|]. cbn in Hv. apply andb_true_iff in Hv as [Hr Hrs].
  unfold json_escape in *. cbn [map concat]. rewrite clean_esc_rune by exact Hr. apply IH. exact Hrs.
Qed.

(* For every Unicode string s (a sequence of scalar values), the quoted
   identifier spelled as json.Marshal spells s selects exactly the key s *)
Theorem quoted_identifier_go_spelling rs m :
  forallb valid_rune rs = true ->
  search ord (marshal_string (string_of_runes rs)) (VObj m) =
  Ok (match obj_get (string_of_runes rs) m with Some v => v | None => VNull end).
Proof.
  intros Hv. rewrite marshal_string_escape by exact Hv.
  apply quoted_identifier_selects; [apply clean_json_escape; exact Hv | apply unquote_escape; exact Hv].
Qed.


(* ---- the same statements for Model/Lexer.v's tokenize ---- *)
Theorem tok_unquoted name : valid_unquoted name = true ->
  tokenize name = Ok [Token tUnquotedIdentifier name 0 (zlen name); Token tEOF [] (zlen name) 0].
Proof. intros H. rewrite tokenize_view. apply unquoted_identifier_lexes. exact H. Qed.

Theorem tok_unquoted_only s n t2 :
  tokenize s = Ok [Token tUnquotedIdentifier s 0 n; t2] -> valid_unquoted s = true.
Proof. rewrite tokenize_view. apply unquoted_identifier_exactly. Qed.

Theorem tok_raw x : raw_ok x = true ->
  tokenize (39%N :: raw_escape x ++ [39%N]) =
  Ok [Token tStringLiteral x 1 (zlen x); Token tEOF [] (zlen (39%N :: raw_escape x ++ [39%N])) 0].
Proof. intros H. rewrite tokenize_view. apply raw_string_lexes. exact H. Qed.

Theorem tok_quoted rs : forallb valid_rune rs = true ->
  tokenize (marshal_string (string_of_runes rs)) =
  Ok [Token tQuotedIdentifier (string_of_runes rs) 0 (zlen (string_of_runes rs));
      Token tEOF [] (zlen (json_escape rs) + 2) 0].
Proof.
  intros Hv. rewrite tokenize_view, marshal_string_escape by exact Hv.
  rewrite quoted_identifier_lexes by (apply clean_json_escape; exact Hv).
  rewrite unquote_escape by exact Hv. reflexivity.
Qed.

Theorem tok_literal t : paired t = true ->
  tokenize (96%N :: lit_escape t ++ [96%N]) =
  Ok [Token tJSONLiteral t 1 (zlen t); Token tEOF [] (zlen (lit_escape t) + 2) 0].
Proof. intros H. rewrite tokenize_view. apply json_literal_lexes. exact H. Qed.

End WithNum.

(* JsonString.v — JSON string escaping round trip: the text json.Marshal writes
   for a (valid UTF-8) string is decoded back to that string by the JSON string
   scanner, and contains no unescaped quote (used by C14: quoted identifiers;
   C09: to_string; C16). *)
From JM Require Import Model.Base Model.Num Model.Utf8 Model.Value Model.JsonText.
From JM Require Import Proofs.ValueFacts Proofs.Utf8Facts.
From Coq Require Import ZifyBool ZifyN ZifyNat.
Ltac Zify.zify_post_hook ::= Z.div_mod_to_equations.

Section WithNum.
Context {NumO : NumOps}.

(* what appendString writes for one code point *)
Definition esc_rune (r : Z) : bytes :=
  if r <? 128 then
    let c := Z.to_N r in
    if N.eqb c 92 || N.eqb c 34 then [92%N; c]
    else if N.eqb c 8 then str "\b"
    else if N.eqb c 12 then str "\f"
    else if N.eqb c 10 then str "\n"
    else if N.eqb c 13 then str "\r"
    else if N.eqb c 9 then str "\t"
    else if N.ltb c 32 || N.eqb c 60 || N.eqb c 62 || N.eqb c 38 then
      str "\u00" ++ [hex_digit (Z.of_N c / 16); hex_digit (Z.of_N c mod 16)]
    else [c]
  else if (r =? 8232) || (r =? 8233) then str "\u202" ++ [hex_digit (r mod 16)]
  else encode_rune r.

Lemma encode_ascii r : 0 <= r < 128 -> encode_rune r = [Z.to_N r].
Proof. intros H. unfold encode_rune, valid_rune, is_surrogate. assert ((0 <=? r) && (r <=? 1114111) && negb ((55296 <=? r) && (r <=? 57343)) = true) as -> by lia.
  assert (r <? 128 = true) as -> by lia. reflexivity. Qed.

Lemma encode_high_first r : valid_rune r = true -> 128 <= r ->
  exists b tl, encode_rune r = b :: tl /\ N.ltb b 128 = false /\ (2 <= length (encode_rune r))%nat.
Proof.
  intros Hv Hr. unfold encode_rune. rewrite Hv. unfold valid_rune, is_surrogate in Hv.
  assert (r <? 128 = false) as -> by lia.
  destruct (r <? 2048) eqn:E2; [eexists _, _; split; [reflexivity|]; split; [lia | cbn; lia]|].
  destruct (r <? 65536) eqn:E3; eexists _, _; (split; [reflexivity|]; split; [lia | cbn; lia]).
Qed.

Lemma marshal_step r s' f : valid_rune r = true ->
  marshal_string_fuel (S f) (encode_rune r ++ s') = esc_rune r ++ marshal_string_fuel f s'.
Proof.
  intros Hv. unfold esc_rune. destruct (r <? 128) eqn:E.
  - assert (Hr : 0 <= r < 128) by (unfold valid_rune in Hv; lia). rewrite (encode_ascii r Hr). cbn [app marshal_string_fuel].
    assert (N.ltb (Z.to_N r) 128 = true) as -> by lia. reflexivity.
  - destruct (encode_high_first r Hv ltac:(lia)) as [b [tl [Eb [Hb Hl]]]].
    rewrite Eb. cbn [app marshal_string_fuel]. rewrite Hb.
    change (b :: tl ++ s') with ((b :: tl) ++ s'). rewrite <- Eb. rewrite decode_encode by exact Hv.
    assert ((r =? rune_error) && Nat.eqb (length (encode_rune r)) 1 = false) as ->.
    { destruct (Nat.eqb_spec (length (encode_rune r)) 1); [lia | apply andb_false_r]. }
    rewrite skipn_app, skipn_all, Nat.sub_diag. cbn [skipn app].
    rewrite firstn_app, firstn_all, Nat.sub_diag. cbn [firstn]. rewrite app_nil_r.
    destruct ((r =? 8232) || (r =? 8233)); [|reflexivity].
    rewrite <- ?app_assoc. reflexivity.
Qed.

Lemma esc_len r : (1 <= length (encode_rune r))%nat.
Proof. pose proof (encode_rune_nonempty r). destruct (encode_rune r); [congruence | cbn; lia]. Qed.

Lemma marshal_runes : forall rs f, forallb valid_rune rs = true -> (length (string_of_runes rs) <= f)%nat ->
  marshal_string_fuel f (string_of_runes rs) = concat (map esc_rune rs).
Proof.
  induction rs as [|r rs IH]; intros f Hv Hf; [destruct f; reflexivity|].
  cbn in Hv. apply andb_true_iff in Hv as [Hr Hrs]. unfold string_of_runes in *. cbn [map concat] in *.
  rewrite app_length in Hf. pose proof (esc_len r).
  destruct f as [|f]; [lia|]. rewrite marshal_step by exact Hr. f_equal. apply IH; [exact Hrs | lia].
Qed.

(* ---- decoding ---- *)
Lemma hex_val_digit z : 0 <= z < 16 -> hex_val (hex_digit z) = Some z.
Proof.
  intros H. unfold hex_val, hex_digit, is_digit. destruct (z <? 10) eqn:E.
  - assert (N.leb 48 (Z.to_N (48 + z)) && N.leb (Z.to_N (48 + z)) 57 = true) as -> by lia. f_equal. lia.
  - assert (N.leb 48 (Z.to_N (87 + z)) && N.leb (Z.to_N (87 + z)) 57 = false) as -> by lia.
    assert (N.leb 97 (Z.to_N (87 + z)) && N.leb (Z.to_N (87 + z)) 102 = true) as -> by lia. f_equal. lia.
Qed.

Lemma hex_digit_plain z : 0 <= z < 16 -> N.eqb (hex_digit z) 34 = false /\ N.eqb (hex_digit z) 92 = false.
Proof. intros H. unfold hex_digit. destruct (z <? 10) eqn:E; split; lia. Qed.

Lemma string_body_step r rest acc f : valid_rune r = true ->
  string_body (S f) (esc_rune r ++ rest) acc = string_body f rest (rev_append (encode_rune r) acc).
Proof.
  intros Hv. unfold esc_rune. destruct (r <? 128) eqn:E.
  - assert (Hr : 0 <= r < 128) by (unfold valid_rune in Hv; lia). rewrite (encode_ascii r Hr). cbn [rev_append].
    set (c := Z.to_N r). assert (Hc : Z.of_N c = r) by (unfold c; lia).
    destruct (N.eqb c 92 || N.eqb c 34) eqn:E1.
    { cbn [app string_body]. assert (N.eqb 92 34 = false) as -> by reflexivity. assert (N.ltb 92 32 = false) as -> by reflexivity.
      assert (N.eqb 92 92 = true) as -> by reflexivity.
      assert (N.eqb c 34 || N.eqb c 92 || N.eqb c 47 = true) as -> by lia. reflexivity. }
    destruct (N.eqb_spec c 8) as [->|]; [reflexivity|]. destruct (N.eqb_spec c 12) as [->|]; [reflexivity|].
    destruct (N.eqb_spec c 10) as [->|]; [reflexivity|]. destruct (N.eqb_spec c 13) as [->|]; [reflexivity|].
    destruct (N.eqb_spec c 9) as [->|]; [reflexivity|].
    destruct (N.ltb c 32 || N.eqb c 60 || N.eqb c 62 || N.eqb c 38) eqn:E2.
    + cbn [str app string_body]. cbn -[hex_digit string_body hex4 Z.div Z.modulo].
      unfold hex4. change (hex_val 48) with (Some 0).
      rewrite !hex_val_digit by lia.
      assert (Hval : 0 * 4096 + 0 * 256 + Z.of_N c / 16 * 16 + Z.of_N c mod 16 = r) by lia. rewrite Hval.
      assert (is_surrogate r = false) as -> by (unfold is_surrogate; lia).
      rewrite (encode_ascii r Hr). reflexivity.
    + cbn [app string_body]. assert (N.eqb c 34 = false) as -> by lia. assert (N.ltb c 32 = false) as -> by lia.
      assert (N.eqb c 92 = false) as -> by lia. assert (N.ltb c 128 = true) as -> by lia. reflexivity.
  - destruct ((r =? 8232) || (r =? 8233)) eqn:E2.
    + assert (Hr : r = 8232 \/ r = 8233) by lia.
      destruct Hr as [->| ->]; cbn -[string_body encode_rune rev_append]; reflexivity.
    + destruct (encode_high_first r Hv ltac:(lia)) as [b [tl [Eb [Hb Hl]]]].
      rewrite Eb. cbn [app string_body].
      assert (N.eqb b 34 = false) as -> by lia. assert (N.ltb b 32 = false) as -> by lia.
      assert (N.eqb b 92 = false) as -> by lia. rewrite Hb.
      change (b :: tl ++ rest) with ((b :: tl) ++ rest). rewrite <- Eb. rewrite decode_encode by exact Hv.
      rewrite skipn_app, skipn_all, Nat.sub_diag. cbn [skipn app]. reflexivity.
Qed.

Lemma rev_append_rev {A} (a b : list A) : rev_append a b = rev a ++ b.
Proof. revert b. induction a as [|x a IH]; intros b; [reflexivity|]. cbn. rewrite IH, <- app_assoc. reflexivity. Qed.

Lemma string_body_runes : forall rs rest acc f, forallb valid_rune rs = true -> (length rs < f)%nat ->
  string_body f (concat (map esc_rune rs) ++ 34%N :: rest) acc = Some (rev acc ++ string_of_runes rs, rest).
Proof.
  induction rs as [|r rs IH]; intros rest acc f Hv Hf.
  - destruct f as [|f]; [lia|]. cbn. rewrite app_nil_r. reflexivity.
  - cbn in Hv. apply andb_true_iff in Hv as [Hr Hrs]. destruct f as [|f]; [cbn in Hf; lia|].
    cbn [map concat]. rewrite <- app_assoc. rewrite string_body_step by exact Hr.
    rewrite IH by (auto; cbn in Hf; lia). rewrite rev_append_rev, rev_app_distr, rev_involutive.
    unfold string_of_runes. cbn [map concat]. rewrite <- app_assoc. reflexivity.
Qed.

(* the escaped text of a valid UTF-8 string, without the surrounding quotes *)
Definition json_escape (rs : list Z) : bytes := concat (map esc_rune rs).

Lemma marshal_string_escape rs : forallb valid_rune rs = true ->
  marshal_string (string_of_runes rs) = 34%N :: json_escape rs ++ [34%N].
Proof. intros H. unfold marshal_string. rewrite marshal_runes by (auto; lia). reflexivity. Qed.

Lemma esc_rune_len r : valid_rune r = true -> (1 <= length (esc_rune r))%nat.
Proof.
  intros Hv. unfold esc_rune. repeat match goal with |- context [if ?c then _ else _] => destruct c end;
    try (cbn; lia). apply esc_len.
Qed.

Lemma json_escape_len rs : forallb valid_rune rs = true -> (length rs <= length (json_escape rs))%nat.
Proof.
  induction rs as [|r rs IH]; intros Hv; [cbn; lia|]. cbn in Hv. apply andb_true_iff in Hv as [Hr Hrs].
  unfold json_escape in *. cbn [map concat length]. rewrite app_length. pose proof (esc_rune_len r Hr). specialize (IH Hrs). lia.
Qed.

(* decoding the escaped text gives the string back *)
Theorem unquote_escape rs : forallb valid_rune rs = true ->
  json_unquote (json_escape rs) = Some (string_of_runes rs).
Proof.
  intros Hv. unfold json_unquote, json_escape.
  rewrite (string_body_runes rs [] [] _ Hv).
  - reflexivity.
  - pose proof (json_escape_len rs Hv). unfold json_escape in *. rewrite app_length. cbn [length]. lia.
Qed.


(* every byte of a multi-byte encoding is outside ASCII *)
Lemma encode_high_all r : valid_rune r = true -> 128 <= r -> Forall (fun x => N.leb 128 x = true) (encode_rune r).
Proof.
  intros Hv Hr. unfold encode_rune. rewrite Hv. unfold valid_rune, is_surrogate in Hv.
  assert (r <? 128 = false) as -> by lia.
  destruct (r <? 2048) eqn:E2; [repeat constructor; lia|].
  destruct (r <? 65536) eqn:E3; repeat constructor; lia.
Qed.

End WithNum.

(* ParserMono.v — the parser's answer does not depend on how much fuel it is
   given, once it has enough: an Ok result with fuel f is the result with any
   larger fuel.  Used to compose the pieces of the completeness proof. *)
From JM Require Import Model.Base Model.Num Model.Utf8 Model.Value Model.JsonText Model.Lexer Model.Parser.
From JM Require Import gen.Tables Proofs.ParserShape.

Section WithNum.
Context {NumO : NumOps}.
Variable ts : list token.

Definition pe_le (pe pe' : Z -> nat -> outcome (node * nat)) : Prop :=
  forall bp i r, pe bp i = Ok r -> pe' bp i = Ok r.
Definition ce_le (ce ce' : node -> Z -> nat -> outcome (node * nat)) : Prop :=
  forall l bp i r, ce l bp i = Ok r -> ce' l bp i = Ok r.

Section Body.
Variables pe pe' : Z -> nat -> outcome (node * nat).
Variables ce ce' : node -> Z -> nat -> outcome (node * nat).
Hypothesis Hpe : pe_le pe pe'.
Hypothesis Hce : ce_le ce ce'.

Ltac step H x E :=
  match type of H with
  | bind ?X _ = Ok _ => destruct X as [x| | |] eqn:E; cbn [bind] in H |- *; try discriminate
  end.

Lemma msl_loop_mono : forall g acc i r, msl_loop ts pe g acc i = Ok r -> msl_loop ts pe' g acc i = Ok r.
Proof.
  induction g as [|g IH]; intros acc i r H; [discriminate|]. cbn [msl_loop] in *.
  step H p E. destruct p as [e i1]. rewrite (Hpe _ _ _ E). cbn [bind]. step H t E0.
  destruct (tok_eqb t tRbracket); [exact H|]. step H i2 E1. apply IH. exact H.
Qed.

Lemma msh_loop_mono : forall g acc i r, msh_loop ts pe g acc i = Ok r -> msh_loop ts pe' g acc i = Ok r.
Proof.
  induction g as [|g IH]; intros acc i r H; [discriminate|]. cbn [msh_loop] in *.
  step H kt E. step H c0 E0. destruct (_ || _); [|exact H]. step H i1 E1. step H p E2. destruct p as [v i2].
  rewrite (Hpe _ _ _ E2). cbn [bind].
  step H c E3. destruct (tok_eqb c tComma); [apply IH; exact H | exact H].
Qed.

Lemma parseDotRHS_mono bp i r : parseDotRHS ts pe ce bp i = Ok r -> parseDotRHS ts pe' ce' bp i = Ok r.
Proof.
  unfold parseDotRHS. intros H. step H t E. destruct (_ || _ || _); [apply Hpe; exact H|].
  destruct (tok_eqb t tLbracket).
  { step H i1 E0. unfold parseMultiSelectList in *. step H p E1. destruct p as [lft i2].
    rewrite (msl_loop_mono _ _ _ _ E1). cbn [bind]. apply Hce. exact H. }
  destruct (tok_eqb t tLbrace); [|exact H].
  step H i1 E0. unfold parseMultiSelectHash in *. step H p E1. destruct p as [lft i2].
  rewrite (msh_loop_mono _ _ _ _ E1). cbn [bind]. apply Hce. exact H.
Qed.

Lemma parseProjectionRHS_mono bp i r : parseProjectionRHS ts pe ce bp i = Ok r -> parseProjectionRHS ts pe' ce' bp i = Ok r.
Proof.
  unfold parseProjectionRHS. intros H. step H t E. destruct (_ <? _); [exact H|].
  destruct (tok_eqb t tLbracket).
  { step H nx E0. step H b E1. destruct b; [apply Hpe; exact H | exact H]. }
  destruct (tok_eqb t tFilter); [apply Hpe; exact H|].
  destruct (tok_eqb t tDot); [|exact H]. step H i1 E0. apply parseDotRHS_mono. exact H.
Qed.

Lemma projectIfSlice_mono l rg i r : projectIfSlice ts pe ce l rg i = Ok r -> projectIfSlice ts pe' ce' l rg i = Ok r.
Proof.
  unfold projectIfSlice. destruct (ast_eqb _ _); [|auto]. intros H. step H p E. destruct p as [x i1].
  rewrite (parseProjectionRHS_mono _ _ _ E). exact H.
Qed.

Lemma parseFilter_mono n i r : parseFilter ts pe ce n i = Ok r -> parseFilter ts pe' ce' n i = Ok r.
Proof.
  unfold parseFilter. intros H. step H p E. destruct p as [c i1]. rewrite (Hpe _ _ _ E). cbn [bind].
  step H i2 E0. step H t E1.
  destruct (tok_eqb t tFlatten); [exact H|]. step H p E2. destruct p as [x i3].
  rewrite (parseProjectionRHS_mono _ _ _ E2). exact H.
Qed.

Lemma parseFunctionArg_mono i r : parseFunctionArg ts pe i = Ok r -> parseFunctionArg ts pe' i = Ok r.
Proof.
  unfold parseFunctionArg. intros H. step H t E. destruct (negb _); [apply Hpe; exact H|].
  step H p E0. destruct p as [e i1]. rewrite (Hpe _ _ _ E0). exact H.
Qed.

Lemma args_loop_mono : forall g acc i r, args_loop ts pe g acc i = Ok r -> args_loop ts pe' g acc i = Ok r.
Proof.
  induction g as [|g IH]; intros acc i r H; [discriminate|]. cbn [args_loop] in *.
  step H p E. destruct p as [e i1]. rewrite (parseFunctionArg_mono _ _ E). cbn [bind]. step H t E0.
  destruct (tok_eqb t tRparen); [exact H|]. step H i2 E1. apply IH. exact H.
Qed.

Lemma nud_mono t i r : nud ts pe ce t i = Ok r -> nud ts pe' ce' t i = Ok r.
Proof.
  unfold nud. destruct (ttype t); try (intros H; exact H).
  - (* tStar *) intros H. step H c E. step H p E0. destruct p as [rg i1].
    destruct (tok_eqb c tRbracket); [inversion E0; subst; exact H|].
    rewrite (parseProjectionRHS_mono _ _ _ E0). exact H.
  - (* tFilter *) apply parseFilter_mono.
  - (* tFlatten *) intros H. step H p E. destruct p as [rg i1]. rewrite (parseProjectionRHS_mono _ _ _ E). exact H.
  - (* tLparen *) intros H. step H p E. destruct p as [e i1]. rewrite (Hpe _ _ _ E). exact H.
  - (* tLbracket *) intros H. step H c E. destruct (_ || _).
    + step H p E0. destruct p as [rg i1]. apply projectIfSlice_mono. exact H.
    + step H b E0. destruct b.
      * step H p E1. destruct p as [rg i1]. rewrite (parseProjectionRHS_mono _ _ _ E1). exact H.
      * unfold parseMultiSelectList in *. apply msl_loop_mono. exact H.
  - (* tLbrace *) unfold parseMultiSelectHash. apply msh_loop_mono.
  - (* tNot *) intros H. step H p E. destruct p as [e i1]. rewrite (Hpe _ _ _ E). exact H.
Qed.

Lemma led_mono tt n i r : led ts pe ce tt n i = Ok r -> led ts pe' ce' tt n i = Ok r.
Proof.
  unfold led. destruct tt; try (intros H; exact H);
    try (intros H; step H p E; destruct p as [rg i1]; rewrite (Hpe _ _ _ E); exact H).
  - (* tDot *) intros H. step H c E. destruct (negb _).
    + step H p E0. destruct p as [rg i1]. rewrite (parseDotRHS_mono _ _ _ E0). exact H.
    + step H p E0. destruct p as [rg i1]. rewrite (parseProjectionRHS_mono _ _ _ E0). exact H.
  - apply parseFilter_mono.
  - intros H. step H p E. destruct p as [rg i1]. rewrite (parseProjectionRHS_mono _ _ _ E). exact H.
  - (* tLparen *) intros H. step H prev E. destruct (negb _); [exact H|]. step H c E0. step H p E1. destruct p as [args i1].
    destruct (negb (tok_eqb c tRparen)); [rewrite (args_loop_mono _ _ _ _ E1) | inversion E1; subst]; exact H.
  - (* tLbracket *) intros H. step H c E. destruct (_ || _).
    + step H p E0. destruct p as [rg i1]. apply projectIfSlice_mono. exact H.
    + step H i1 E0. step H i2 E1. step H p E2. destruct p as [rg i3]. rewrite (parseProjectionRHS_mono _ _ _ E2). exact H.
Qed.

End Body.

Lemma pe_S f bp i : parseExpression ts (S f) bp i =
  (leftToken <- lookaheadToken ts i 0 ;;
   '(lft, i1) <- nud ts (parseExpression ts f) (continueExpression ts f) leftToken (S i) ;;
   continueExpression ts f lft (bp_of site_parseExpression_continueExpression tUnknown bp) i1).
Proof. reflexivity. Qed.

Lemma ce_S f lft bp i : continueExpression ts (S f) lft bp i =
  (cur <- current ts i ;;
   if bp <? binding_power cur then
     '(lft', i') <- led ts (parseExpression ts f) (continueExpression ts f) cur lft (S i) ;;
     continueExpression ts f lft' bp i'
   else Ok (lft, i)).
Proof. reflexivity. Qed.

Lemma fuel_mono : forall f,
  (forall f', (f <= f')%nat -> pe_le (parseExpression ts f) (parseExpression ts f')) /\
  (forall f', (f <= f')%nat -> ce_le (continueExpression ts f) (continueExpression ts f')).
Proof.
  induction f as [|f [IHp IHc]].
  - split; intros f' _ ? ? ? ?; discriminate.
  - split; intros f' Hf'; (destruct f' as [|f']; [lia|]); assert (Hle : (f <= f')%nat) by lia.
    + intros bp i r H. rewrite pe_S in *.
      destruct (lookaheadToken ts i 0) as [t| | |]; cbn [bind] in *; try discriminate.
      destruct (nud ts (parseExpression ts f) (continueExpression ts f) t (S i)) as [[l i1]| | |] eqn:En; cbn [bind] in *; try discriminate.
      rewrite (nud_mono _ _ _ _ (IHp f' Hle) (IHc f' Hle) _ _ _ En). cbn [bind]. apply (IHc f' Hle). exact H.
    + intros l bp i r H. rewrite ce_S in *.
      destruct (current ts i) as [c| | |]; cbn [bind] in *; try discriminate.
      destruct (bp <? binding_power c); [|exact H].
      destruct (led ts (parseExpression ts f) (continueExpression ts f) c l (S i)) as [[l' i']| | |] eqn:El; cbn [bind] in *; try discriminate.
      rewrite (led_mono _ _ _ _ (IHp f' Hle) (IHc f' Hle) _ _ _ _ El). cbn [bind]. apply (IHc f' Hle). exact H.
Qed.

End WithNum.

(* ParserFuel.v — fuel independence of the parser for every outcome: a result
   other than OutOfFuel obtained with fuel f is the result with any larger fuel.
   With parse_tokens_total (the fuel of the model always suffices) this lets a
   derivation found with some fuel be read as a statement about Parse. *)
From JM Require Import Model.Base Model.Num Model.Utf8 Model.Value Model.JsonText Model.Lexer Model.Parser.
From JM Require Import gen.Tables.

Section WithNum.
Context {NumO : NumOps}.
Variable ts : list token.

Definition live {A} (x : outcome A) : Prop := x <> OutOfFuel.
Definition pe_ne (pe pe' : Z -> nat -> outcome (node * nat)) : Prop :=
  forall bp i, live (pe bp i) -> pe' bp i = pe bp i.
Definition ce_ne (ce ce' : node -> Z -> nat -> outcome (node * nat)) : Prop :=
  forall l bp i, live (ce l bp i) -> ce' l bp i = ce l bp i.

Lemma live_bind {A B} (x : outcome A) (k : A -> outcome B) : live (bind x k) -> live x.
Proof. unfold live. destruct x; cbn; congruence. Qed.

Section Body.
Variables pe pe' : Z -> nat -> outcome (node * nat).
Variables ce ce' : node -> Z -> nat -> outcome (node * nat).
Hypothesis Hpe : pe_ne pe pe'.
Hypothesis Hce : ce_ne ce ce'.

(* H : live (bind X k): X is live; name its value *)
Ltac step H x :=
  match type of H with
  | live (bind ?X _) =>
    let HX := fresh "HX" in
    pose proof (live_bind _ _ H) as HX;
    destruct X as [x| | |] eqn:?; cbn [bind] in H |- *; try reflexivity; try (exfalso; apply HX; reflexivity); clear HX
  end.

Lemma msl_loop_ne : forall g acc i, live (msl_loop ts pe g acc i) -> msl_loop ts pe' g acc i = msl_loop ts pe g acc i.
Proof.
  induction g as [|g IH]; intros acc i H; [exfalso; apply H; reflexivity|]. cbn [msl_loop] in *.
  rewrite (Hpe _ _ (live_bind _ _ H)). step H p. destruct p as [e i1]. step H t.
  destruct (tok_eqb t tRbracket); [reflexivity|]. step H i2. apply IH. exact H.
Qed.

Lemma msh_loop_ne : forall g acc i, live (msh_loop ts pe g acc i) -> msh_loop ts pe' g acc i = msh_loop ts pe g acc i.
Proof.
  induction g as [|g IH]; intros acc i H; [exfalso; apply H; reflexivity|]. cbn [msh_loop] in *.
  step H kt. step H c0. destruct (_ || _); [|reflexivity]. step H i1.
  rewrite (Hpe _ _ (live_bind _ _ H)). step H p. destruct p as [v i2]. step H c.
  destruct (tok_eqb c tComma); [apply IH; exact H | reflexivity].
Qed.

Lemma parseDotRHS_ne bp i : live (parseDotRHS ts pe ce bp i) -> parseDotRHS ts pe' ce' bp i = parseDotRHS ts pe ce bp i.
Proof.
  unfold parseDotRHS. intros H. step H t. destruct (_ || _ || _); [apply Hpe; exact H|].
  destruct (tok_eqb t tLbracket).
  { step H i1. unfold parseMultiSelectList in *. rewrite (msl_loop_ne _ _ _ (live_bind _ _ H)). step H p. destruct p as [lft i2].
    apply Hce. exact H. }
  destruct (tok_eqb t tLbrace); [|reflexivity].
  step H i1. unfold parseMultiSelectHash in *. rewrite (msh_loop_ne _ _ _ (live_bind _ _ H)). step H p. destruct p as [lft i2].
  apply Hce. exact H.
Qed.

Lemma parseProjectionRHS_ne bp i :
  live (parseProjectionRHS ts pe ce bp i) -> parseProjectionRHS ts pe' ce' bp i = parseProjectionRHS ts pe ce bp i.
Proof.
  unfold parseProjectionRHS. intros H. step H t. destruct (_ <? _); [reflexivity|].
  destruct (tok_eqb t tLbracket).
  { step H nx. step H b. destruct b; [apply Hpe; exact H | reflexivity]. }
  destruct (tok_eqb t tFilter); [apply Hpe; exact H|].
  destruct (tok_eqb t tDot); [|reflexivity]. step H i1. apply parseDotRHS_ne. exact H.
Qed.

Lemma projectIfSlice_ne l rg i :
  live (projectIfSlice ts pe ce l rg i) -> projectIfSlice ts pe' ce' l rg i = projectIfSlice ts pe ce l rg i.
Proof.
  unfold projectIfSlice. destruct (ast_eqb _ _); [|reflexivity]. intros H.
  rewrite (parseProjectionRHS_ne _ _ (live_bind _ _ H)). reflexivity.
Qed.

Lemma parseFilter_ne n i : live (parseFilter ts pe ce n i) -> parseFilter ts pe' ce' n i = parseFilter ts pe ce n i.
Proof.
  unfold parseFilter. intros H. rewrite (Hpe _ _ (live_bind _ _ H)). step H p. destruct p as [c i1].
  step H i2. step H t. destruct (tok_eqb t tFlatten); [reflexivity|].
  rewrite (parseProjectionRHS_ne _ _ (live_bind _ _ H)). reflexivity.
Qed.

Lemma parseFunctionArg_ne i : live (parseFunctionArg ts pe i) -> parseFunctionArg ts pe' i = parseFunctionArg ts pe i.
Proof.
  unfold parseFunctionArg. intros H. step H t. destruct (negb _); [apply Hpe; exact H|].
  rewrite (Hpe _ _ (live_bind _ _ H)). reflexivity.
Qed.

Lemma args_loop_ne : forall g acc i, live (args_loop ts pe g acc i) -> args_loop ts pe' g acc i = args_loop ts pe g acc i.
Proof.
  induction g as [|g IH]; intros acc i H; [exfalso; apply H; reflexivity|]. cbn [args_loop] in *.
  rewrite (parseFunctionArg_ne _ (live_bind _ _ H)). step H p. destruct p as [e i1]. step H t.
  destruct (tok_eqb t tRparen); [reflexivity|]. step H i2. apply IH. exact H.
Qed.

Lemma nud_ne t i : live (nud ts pe ce t i) -> nud ts pe' ce' t i = nud ts pe ce t i.
Proof.
  unfold nud. destruct (ttype t); try reflexivity; intros H.
  - (* tStar *) step H c. destruct (tok_eqb c tRbracket); [reflexivity|].
    rewrite (parseProjectionRHS_ne _ _ (live_bind _ _ H)). reflexivity.
  - (* tFilter *) apply parseFilter_ne. exact H.
  - (* tFlatten *) rewrite (parseProjectionRHS_ne _ _ (live_bind _ _ H)). reflexivity.
  - (* tLparen *) rewrite (Hpe _ _ (live_bind _ _ H)). reflexivity.
  - (* tLbracket *) step H c. destruct (_ || _).
    + step H p. destruct p as [rg i1]. apply projectIfSlice_ne. exact H.
    + step H b. destruct b.
      * rewrite (parseProjectionRHS_ne _ _ (live_bind _ _ H)). reflexivity.
      * unfold parseMultiSelectList in *. apply msl_loop_ne. exact H.
  - (* tLbrace *) unfold parseMultiSelectHash in *. apply msh_loop_ne. exact H.
  - (* tNot *) rewrite (Hpe _ _ (live_bind _ _ H)). reflexivity.
Qed.

Lemma led_ne tt n i : live (led ts pe ce tt n i) -> led ts pe' ce' tt n i = led ts pe ce tt n i.
Proof.
  unfold led. destruct tt; try reflexivity; intros H;
    try (rewrite (Hpe _ _ (live_bind _ _ H)); reflexivity).
  - (* tDot *) step H c. destruct (negb _).
    + rewrite (parseDotRHS_ne _ _ (live_bind _ _ H)). reflexivity.
    + rewrite (parseProjectionRHS_ne _ _ (live_bind _ _ H)). reflexivity.
  - apply parseFilter_ne. exact H.
  - rewrite (parseProjectionRHS_ne _ _ (live_bind _ _ H)). reflexivity.
  - (* tLparen *) step H prev. destruct (negb _); [reflexivity|]. step H c.
    destruct (negb (tok_eqb c tRparen)); [rewrite (args_loop_ne _ _ _ (live_bind _ _ H)) |]; reflexivity.
  - (* tLbracket *) step H c. destruct (_ || _).
    + step H p. destruct p as [rg i1]. apply projectIfSlice_ne. exact H.
    + step H i1. step H i2. rewrite (parseProjectionRHS_ne _ _ (live_bind _ _ H)). reflexivity.
Qed.

End Body.

Lemma pe_S' f bp i : parseExpression ts (S f) bp i =
  (leftToken <- lookaheadToken ts i 0 ;;
   '(lft, i1) <- nud ts (parseExpression ts f) (continueExpression ts f) leftToken (S i) ;;
   continueExpression ts f lft (bp_of site_parseExpression_continueExpression tUnknown bp) i1).
Proof. reflexivity. Qed.

Lemma ce_S' f lft bp i : continueExpression ts (S f) lft bp i =
  (cur <- current ts i ;;
   if bp <? binding_power cur then
     '(lft', i') <- led ts (parseExpression ts f) (continueExpression ts f) cur lft (S i) ;;
     continueExpression ts f lft' bp i'
   else Ok (lft, i)).
Proof. reflexivity. Qed.

Lemma fuel_ne : forall f,
  (forall f', (f <= f')%nat -> pe_ne (parseExpression ts f) (parseExpression ts f')) /\
  (forall f', (f <= f')%nat -> ce_ne (continueExpression ts f) (continueExpression ts f')).
Proof.
  induction f as [|f [IHp IHc]].
  - split; intros f' _; [intros bp i H | intros l bp i H]; exfalso; apply H; reflexivity.
  - split; intros f' Hf'; (destruct f' as [|f']; [lia|]); assert (Hle : (f <= f')%nat) by lia.
    + intros bp i H. rewrite !pe_S' in *.
      destruct (lookaheadToken ts i 0) as [t| | |]; cbn [bind] in *; try reflexivity.
      rewrite (nud_ne _ _ _ _ (IHp f' Hle) (IHc f' Hle) _ _ (live_bind _ _ H)).
      destruct (nud ts (parseExpression ts f) (continueExpression ts f) t (S i)) as [[l i1]| | |]; cbn [bind] in *; try reflexivity.
      apply (IHc f' Hle). exact H.
    + intros l bp i H. rewrite !ce_S' in *.
      destruct (current ts i) as [c| | |]; cbn [bind] in *; try reflexivity.
      destruct (bp <? binding_power c); [|reflexivity].
      rewrite (led_ne _ _ _ _ (IHp f' Hle) (IHc f' Hle) _ _ _ (live_bind _ _ H)).
      destruct (led ts (parseExpression ts f) (continueExpression ts f) c l (S i)) as [[l' i']| | |]; cbn [bind] in *; try reflexivity.
      apply (IHc f' Hle). exact H.
Qed.

(* the answer of parseExpression does not depend on the fuel, as long as it is enough *)
Theorem parse_fuel_independent f f' bp i :
  parseExpression ts f bp i <> OutOfFuel -> parseExpression ts f' bp i <> OutOfFuel ->
  parseExpression ts f bp i = parseExpression ts f' bp i.
Proof.
  intros H H'. destruct (Nat.le_ge_cases f f') as [Hle|Hle].
  - symmetry. apply (proj1 (fuel_ne f) f' Hle). exact H.
  - apply (proj1 (fuel_ne f') f Hle). exact H'.
Qed.

End WithNum.

(* ParserComplete.v — completeness of the Pratt parser (C03, C04): every
   well-precedenced expression tree, spelled by render, is parsed to the AST
   compile gives for it.  Together with ParserShape (whatever is accepted is the
   AST of a tree) this is the statement that parser.go implements the JMESPath
   precedence, associativity and projection-scope rules. *)
From JM Require Import Model.Base Model.Num Model.Utf8 Model.Value Model.JsonText Model.Lexer Model.Parser.
From JM Require Import Spec.Grammar.
From JM Require Import gen.Tables Proofs.TablesOk Proofs.ValueFacts Proofs.InterpRefine Proofs.SpecFacts
     Proofs.ParserShape Proofs.ParserMono Proofs.ParserFuel Proofs.ParserTotal.
From Coq Require Import ZifyBool ZifyN ZifyNat.
Ltac Zify.zify_post_hook ::= Z.div_mod_to_equations.

Section WithNum.
Context {NumO : NumOps}.

(* The JSON text chosen to spell a literal: lit_text v is a JSON text of v whenever
   v has one, and is not a JSON text at all otherwise.  (Not every value has one:
   a string that is not valid UTF-8 is never what json.Unmarshal returns.)  Such a
   function exists for every number type; where json.Marshal's text is read back
   (Proofs/JsonRound.v) it is json.Marshal. *)
Definition lit_spec (lit_text : value -> bytes) : Prop :=
  forall v, json_unmarshal (lit_text v) = Some v \/
            (json_unmarshal (lit_text v) = None /\ forall t, json_unmarshal t <> Some v).

Variable lit_text : value -> bytes.
Hypothesis lit_ok : lit_spec lit_text.

Notation render := (render lit_text).

(* ---- decimal integers ---- *)
Lemma digits_val_app : forall l c a, is_digit c = true ->
  digits_val (l ++ [c]) a = match digits_val l a with Some v => Some (v * 10 + (Z.of_N c - 48)) | None => None end.
Proof.
  induction l as [|d l IH]; intros c a Hc; cbn [app digits_val].
  - rewrite Hc. reflexivity.
  - destruct (is_digit d); [apply IH; exact Hc | reflexivity].
Qed.

Lemma pos_digits_acc : forall f z acc, pos_digits f z acc = pos_digits f z [] ++ acc.
Proof.
  induction f as [|f IH]; intros z acc; [reflexivity|]. cbn [pos_digits].
  destruct (z <? 10); [reflexivity|]. rewrite IH, (IH _ [_]), <- app_assoc. reflexivity.
Qed.

Lemma digit_is_digit z : 0 <= z < 10 -> is_digit (Z.to_N (48 + z)) = true /\ Z.of_N (Z.to_N (48 + z)) - 48 = z.
Proof. intros H. unfold is_digit. split; lia. Qed.

Lemma pos_digits_val : forall f z, 0 <= z < 10 ^ Z.of_nat f -> (0 < f)%nat ->
  digits_val (pos_digits f z []) 0 = Some z /\ pos_digits f z [] <> [].
Proof.
  induction f as [|f IH]; intros z Hz Hf; [lia|]. cbn [pos_digits].
  destruct (z <? 10) eqn:E.
  - destruct (digit_is_digit z ltac:(lia)) as [D1 D2]. cbn [digits_val]. rewrite D1, D2. split; [f_equal; lia | discriminate].
  - rewrite pos_digits_acc.
    assert (Hf' : (0 < f)%nat).
    { destruct f; [|lia]. cbn in Hz. lia. }
    assert (Hz' : 0 <= z / 10 < 10 ^ Z.of_nat f).
    { replace (Z.of_nat (S f)) with (Z.of_nat f + 1) in Hz by lia. rewrite Z.pow_add_r in Hz by lia.
      split; [apply Z.div_pos; lia|]. apply Z.div_lt_upper_bound; lia. }
    destruct (IH (z / 10) Hz' Hf') as [V N]. destruct (digit_is_digit (z mod 10) ltac:(apply Z.mod_pos_bound; lia)) as [D1 D2].
    rewrite digits_val_app by exact D1. rewrite V, D2. split; [f_equal; pose proof (Z.div_mod z 10); lia|].
    destruct (pos_digits f (z / 10) []); [congruence | discriminate].
Qed.

Lemma pos_digits_head f z : 0 <= z -> match pos_digits f z [] with c :: _ => N.eqb c 45 = false /\ N.eqb c 43 = false | [] => True end.
Proof.
  revert z. induction f as [|f IH]; intros z Hz; [exact I|]. cbn [pos_digits]. destruct (z <? 10) eqn:E.
  - split; lia.
  - rewrite pos_digits_acc. specialize (IH (z / 10) ltac:(apply Z.div_pos; lia)).
    destruct (pos_digits f (z / 10) []); [cbn [app]; split; apply N.eqb_neq; pose proof (Z.mod_pos_bound z 10); lia | exact IH].
Qed.

Lemma sign_split (c : N) (r : bytes) : c <> 45%N -> c <> 43%N ->
  sign_of (c :: r) = (false, c :: r).
Proof.
  intros H1 H2. unfold sign_of. destruct c as [|p]; [reflexivity|].
  destruct p as [p|p|]; try reflexivity; destruct p as [p|p|]; try reflexivity; destruct p as [p|p|]; try reflexivity;
  destruct p as [p|p|]; try reflexivity; destruct p as [p|p|]; try reflexivity; destruct p as [p|p|]; try reflexivity; congruence.
Qed.

Lemma atoi_plain d : d <> [] ->
  match d with c :: _ => N.eqb c 45 = false /\ N.eqb c 43 = false | [] => True end ->
  atoi d = match digits_val d 0 with Some v => if in_int64 v then Some v else None | None => None end.
Proof.
  intros Hne Hh. destruct d as [|c r]; [congruence|]. destruct Hh as [H1 H2]. unfold atoi.
  apply N.eqb_neq in H1, H2. rewrite (sign_split c r H1 H2). reflexivity.
Qed.

Lemma atoi_int_text z : in_int64 z = true -> atoi (int_text z) = Some z.
Proof.
  intros Hz. assert (Hz' := Hz). unfold in_int64, two63 in Hz'. unfold int_text.
  assert (P20 : 10 ^ Z.of_nat 20 = 100000000000000000000) by reflexivity.
  destruct (z <? 0) eqn:E.
  - assert (Hr : 0 <= - z < 10 ^ Z.of_nat 20) by (rewrite P20; lia).
    destruct (pos_digits_val 20 (- z) Hr ltac:(lia)) as [V N]. unfold atoi. cbn [sign_of].
    generalize dependent (pos_digits 20 (- z) []). intros d V N.
    destruct d as [|c r]; [congruence|]. rewrite V.
    replace (- - z) with z by lia. rewrite Hz. reflexivity.
  - assert (Hr : 0 <= z < 10 ^ Z.of_nat 20) by (rewrite P20; lia).
    destruct (pos_digits_val 20 z Hr ltac:(lia)) as [V N].
    pose proof (pos_digits_head 20 z ltac:(lia)) as Hh.
    generalize dependent (pos_digits 20 z []). intros d V N Hh.
    rewrite (atoi_plain d N Hh). rewrite V, Hz. reflexivity.
Qed.

(* ---- the left spine of an expression ---- *)
Definition nE (e : expr) : nat := length (render e).

(* the operand the parser has already read when it meets the operator of e *)
Definition lchild (e : expr) : option expr :=
  match e with
  | ECall name _ => Some (EIdent false name)
  | EIndex (Some l) _ | ESlice (Some l) _ _ _ _ | EListProj (Some l) _ | EFlatten (Some l) _
  | EFilter (Some l) _ _ | EValProj (Some l) _ => Some l
  | ESub l _ | EPipe l _ | EOr l _ | EAnd l _ | ECmp _ l _ => Some l
  | _ => None
  end.

Ltac bsplit :=
  repeat match goal with
         | H : _ && _ = true |- _ => apply andb_true_iff in H; destruct H
         end.

Lemma level_of_cmp op : binding_power (cmp_tok op) = lvl_cmp.
Proof. destruct op; reflexivity. Qed.

Lemma npos_lchild e l : lchild e = Some l -> npos e = npos l.
Proof.
  destruct e as [q name | | lv | s | x | es | kvs | fname args | x | [l0|] i | [l0|] a b c r | [l0|] r | [l0|] r
                 | [l0|] c r | [l0|] r | l0 r | l0 r | l0 r | l0 r | op l0 r]; cbn [lchild]; intros H; try discriminate;
    inversion H; subst; reflexivity.
Qed.

(* what the precedence rules give for the left operand, and the operator token that follows it *)
Lemma spine_facts e l : lchild e = Some l -> wp e = true ->
  wp l = true /\ lmin e <= lmin l /\ (esize l < esize e)%nat /\
  exists ty v tl, render e = render l ++ tk ty v :: tl /\ binding_power ty <= rl l /\ lmin e <= binding_power ty.
Proof.
  intros Hl Hw. destruct e as [q name | | lv | s | x | es | kvs | fname args | x | [l0|] i | [l0|] a b c r | [l0|] r | [l0|] r
                              | [l0|] c r | [l0|] r | l0 r | l0 r | l0 r | l0 r | op l0 r];
    cbn [lchild] in Hl; try discriminate; inversion Hl; subst l; cbn [wp] in Hw; bsplit.
  - (* ECall *) cbn [wp lmin rl esize]. repeat split; try assumption; try (unfold lvl_call, lvl_top; lia); try lia.
    eexists tLparen, _, _. split; [reflexivity|]. cbn. unfold lvl_top, lvl_call. lia.
  - (* EIndex *) cbn [lmin esize]. repeat split; try assumption; try lia.
    eexists tLbracket, _, _. split; [cbn [render]; reflexivity|]. cbn. unfold lvl_bracket in *. lia.
  - (* ESlice *) cbn [lmin esize]. repeat split; try assumption; try lia.
    eexists tLbracket, _, _. split; [cbn [render]; rewrite <- ?app_assoc; reflexivity|]. cbn. unfold lvl_bracket in *. lia.
  - (* EListProj *) cbn [lmin esize]. repeat split; try assumption; try lia.
    eexists tLbracket, _, _. split; [cbn [render]; reflexivity|]. cbn. unfold lvl_bracket in *. lia.
  - (* EFlatten *) cbn [lmin esize]. repeat split; try assumption; try lia.
    eexists tFlatten, _, _. split; [cbn [render]; reflexivity|]. cbn. unfold lvl_flatten in *. lia.
  - (* EFilter *) cbn [lmin esize]. repeat split; try assumption; try lia.
    eexists tFilter, _, _. split; [cbn [render]; reflexivity|]. cbn. unfold lvl_filter in *. lia.
  - (* EValProj *) cbn [lmin esize]. repeat split; try assumption; try lia.
    eexists tDot, _, _. split; [cbn [render]; reflexivity|]. cbn. unfold lvl_dot in *. lia.
  - (* ESub *) cbn [lmin esize]. repeat split; try assumption; try lia.
    eexists tDot, _, _. split; [cbn [render]; reflexivity|]. cbn. unfold lvl_dot in *. lia.
  - (* EPipe *) cbn [lmin esize]. repeat split; try assumption; try lia.
    eexists tPipe, _, _. split; [cbn [render]; reflexivity|]. cbn. unfold lvl_pipe in *. lia.
  - (* EOr *) cbn [lmin esize]. repeat split; try assumption; try lia.
    eexists tOr, _, _. split; [cbn [render]; reflexivity|]. cbn. unfold lvl_or in *. lia.
  - (* EAnd *) cbn [lmin esize]. repeat split; try assumption; try lia.
    eexists tAnd, _, _. split; [cbn [render]; reflexivity|]. cbn. unfold lvl_and in *. lia.
  - (* ECmp *) cbn [lmin esize]. repeat split; try assumption; try lia.
    eexists (cmp_tok op), _, _. split; [cbn [render]; reflexivity|]. rewrite level_of_cmp. unfold lvl_cmp in *. lia.
Qed.

(* ---- right-hand sides of projections, as the spelling and the rules see them ---- *)
Definition rrhs (r : rhs) : list token :=
  match r with RNone => [] | RDot x => tk tDot (str ".") :: render x | RBrk x => render x end.
Definition crhs (r : rhs) : node :=
  match r with RNone => ident_node | RDot x => compile x | RBrk x => compile x end.
Definition rlr (r : rhs) (p : Z) : Z :=
  match r with RNone => lvl_proj_stop - 1 | RDot x => Z.min p (rl x) | RBrk x => Z.min p (rl x) end.
Definition rhs_okb (r : rhs) (p : Z) : bool :=
  match r with
  | RNone => true
  | RDot x => wp x && (p <? lmin x) && match head x with HIdent | HQuoted | HMulti | HMultiStar | HStar => true | _ => false end
  | RBrk x => wp x && (p <? lmin x) && match head x with HBracket | HFilter => true | _ => false end
  end.
Definition rsz (r : rhs) : nat := match r with RNone => 0%nat | RDot x => esize x | RBrk x => esize x end.
Definition clhs (l : option expr) : node := match l with Some x => compile x | None => ident_node end.

Lemma lmin_pos : forall e, 0 < lmin e.
Proof.
  fix IH 1. intros e. destruct e as [q name | | lv | s | x | es | kvs | fname args | x | l i | l a b c r | l r | l r
                                    | l c r | l r | l r | l r | l r | l r | op l r]; cbn [lmin];
    try (unfold lvl_top, lvl_call; lia);
    try (destruct l as [l|]; [specialize (IH l)|]; unfold lvl_top, lvl_bracket, lvl_flatten, lvl_filter, lvl_dot in *; lia);
    specialize (IH l); unfold lvl_dot, lvl_pipe, lvl_or, lvl_and, lvl_cmp in *; lia.
Qed.

Lemma rl_pos : forall e, 0 < rl e.
Proof.
  fix IH 1. intros e. destruct e as [q name | | lv | s | x | es | kvs | fname args | x | l i | l a b c r | l r | l r
                                    | l c r | l r | l r | l r | l r | l r | op l r]; cbn [rl];
    try (unfold lvl_top; lia); try (destruct q; unfold lvl_top, lvl_call; lia).
  - specialize (IH x). unfold lvl_not. lia.
  - destruct r as [|x|x]; [|specialize (IH x)|specialize (IH x)]; unfold lvl_proj_stop, lvl_star in *; lia.
  - destruct r as [|x|x]; [|specialize (IH x)|specialize (IH x)]; unfold lvl_proj_stop, lvl_star in *; lia.
  - destruct r as [|x|x]; [|specialize (IH x)|specialize (IH x)]; unfold lvl_proj_stop, lvl_flatten in *; lia.
  - destruct r as [|x|x]; [|specialize (IH x)|specialize (IH x)]; unfold lvl_proj_stop, lvl_filter in *; lia.
  - destruct r as [|x|x]; [|specialize (IH x)|specialize (IH x)]; unfold lvl_proj_stop, lvl_star in *; lia.
  - specialize (IH r). unfold lvl_dot. lia.
  - specialize (IH r). unfold lvl_pipe. lia.
  - specialize (IH r). unfold lvl_or. lia.
  - specialize (IH r). unfold lvl_and. lia.
  - specialize (IH r). unfold lvl_cmp. lia.
Qed.

(* the leftmost sub-expression, the one a prefix handler reads *)
Fixpoint lhead (e : expr) : expr :=
  match e with
  | ECall name _ => EIdent false name
  | EIndex (Some l) _ | ESlice (Some l) _ _ _ _ | EListProj (Some l) _ | EFlatten (Some l) _
  | EFilter (Some l) _ _ | EValProj (Some l) _ => lhead l
  | ESub l _ | EPipe l _ | EOr l _ | EAnd l _ | ECmp _ l _ => lhead l
  | _ => e
  end.

Lemma lhead_lchild e : match lchild e with Some l => lhead e = lhead l | None => lhead e = e end.
Proof.
  destruct e as [q name | | lv | s | x | es | kvs | fname args | x | [l|] i | [l|] a b c r | [l|] r | [l|] r
                 | [l|] c r | [l|] r | l r | l r | l r | l r | op l r]; reflexivity.
Qed.

Lemma head_lhead : forall e, head e = head (lhead e).
Proof.
  fix IH 1. intros e. destruct e as [q name | | lv | s | x | es | kvs | fname args | x | [l|] i | [l|] a b c r | [l|] r | [l|] r
                 | [l|] c r | [l|] r | l r | l r | l r | l r | op l r]; cbn [head lhead]; try reflexivity; try apply IH.
Qed.

Lemma render_lhead : forall e, exists tl, render e = render (lhead e) ++ tl.
Proof.
  fix IH 1. intros e. destruct e as [q name | | lv | s | x | es | kvs | fname args | x | [l|] i | [l|] a b c r | [l|] r | [l|] r
                 | [l|] c r | [l|] r | l r | l r | l r | l r | op l r]; cbn [lhead];
    try (exists []; rewrite app_nil_r; reflexivity);
    try (destruct (IH l) as [tl Htl]; cbn [render]; rewrite Htl, <- ?app_assoc; eexists; reflexivity).
  cbn [render]. eexists. reflexivity.
Qed.

Lemma wp_lhead : forall e, wp e = true -> wp (lhead e) = true.
Proof.
  fix IH 1. intros e Hw. destruct e as [q name | | lv | s | x | es | kvs | fname args | x | [l|] i | [l|] a b c r | [l|] r | [l|] r
                 | [l|] c r | [l|] r | l r | l r | l r | l r | op l r]; cbn [lhead]; try exact Hw;
    cbn [wp] in Hw; bsplit; try (apply IH; assumption); try reflexivity.
Qed.

Lemma esize_lhead : forall e, (esize (lhead e) <= esize e)%nat.
Proof.
  fix IH 1. intros e. destruct e as [q name | | lv | s | x | es | kvs | fname args | x | [l|] i | [l|] a b c r | [l|] r | [l|] r
                 | [l|] c r | [l|] r | l r | l r | l r | l r | op l r]; cbn [lhead esize]; try lia;
    try (specialize (IH l); lia).
Qed.

Lemma lmin_lhead : forall e, lmin e <= lmin (lhead e).
Proof.
  fix IH 1. intros e. destruct e as [q name | | lv | s | x | es | kvs | fname args | x | [l|] i | [l|] a b c r | [l|] r | [l|] r
                 | [l|] c r | [l|] r | l r | l r | l r | l r | op l r]; cbn [lhead lmin]; try lia;
    try (specialize (IH l); lia).
  unfold lvl_call, lvl_top. lia.
Qed.

Lemma render_first_not_expref : forall e, match render e with t :: _ => ttype t <> tExpref | [] => False end.
Proof.
  fix IH 1. intros e. destruct e as [q name | | lv | s | x | es | kvs | fname args | x | [l|] i | [l|] a b c r | [l|] r | [l|] r
                 | [l|] c r | [l|] r | l r | l r | l r | l r | op l r]; cbn [render];
    try (destruct q); try discriminate;
    try (specialize (IH l); destruct (render l); [contradiction | cbn [app]; exact IH]).
Qed.

Lemma lchild_lhead : forall e, lchild (lhead e) = None.
Proof.
  fix IH 1. intros e. destruct e as [q name | | lv | s | x | es | kvs | fname args | x | [l|] i | [l|] a b c r | [l|] r | [l|] r
                 | [l|] c r | [l|] r | l r | l r | l r | l r | op l r]; cbn [lhead]; try reflexivity; apply IH.
Qed.

Lemma render_nonempty : forall e, render e <> [].
Proof. intros e. pose proof (render_first_not_expref e). destruct (render e); [contradiction | discriminate]. Qed.

Lemma sep_by_length {A} (f : A -> list token) (sep : list token) (l : list A) :
  (forall x, f x <> []) -> (length l <= length (sep_by sep (map f l)))%nat.
Proof.
  intros Hf. induction l as [|x l IH]; [cbn; lia|]. cbn [map sep_by]. destruct l as [|y l'].
  - cbn. specialize (Hf x). destruct (f x); [congruence | cbn; lia].
  - cbn [map] in *. rewrite !app_length. specialize (Hf x). destruct (f x); [congruence|]. cbn [length] in *. lia.
Qed.

(* the first token of an expression whose leftmost form is a bracket form or a filter *)
Lemma head_first_bracket e :
  match head e with
  | HBracket => exists tl, render e = tk tLbracket (str "[") :: tl
  | HFilter => exists tl, render e = tk tFilter (str "[?") :: tl
  | _ => True
  end.
Proof.
  destruct (render_lhead e) as [tl Hr]. rewrite (head_lhead e). pose proof (lchild_lhead e) as Hlc. rewrite Hr.
  destruct (lhead e) as [q name | | lv | s0 | x0 | es | kvs | fname args | x0 | [l|] i0 | [l|] a b c r | [l|] r | [l|] r
                 | [l|] c r | [l|] r | l r | l r | l r | l r | op l r]; cbn [head lchild] in *; try exact I; try discriminate;
    try (destruct q; exact I); try (destruct (star_list es); exact I); cbn [render app]; rewrite <- ?app_assoc; cbn [app]; eexists; reflexivity.
Qed.

Lemma rrhs_first r p : rhs_okb r p = true ->
  match rrhs r with
  | [] => r = RNone
  | t :: _ => ttype t = tDot \/ ttype t = tLbracket \/ ttype t = tFilter
  end.
Proof.
  destruct r as [|x|x]; cbn [rrhs rhs_okb]; intros H; [reflexivity | left; reflexivity|]. bsplit.
  pose proof (head_first_bracket x) as Hf. destruct (head x); try discriminate.
  - destruct Hf as [tl ->]. right. left. reflexivity.
  - destruct Hf as [tl ->]. right. right. reflexivity.
Qed.

(* the token kinds an expression can start with *)
Definition starter (ty : tokType) : bool :=
  match ty with
  | tUnquotedIdentifier | tQuotedIdentifier | tCurrent | tJSONLiteral | tStringLiteral | tLparen | tLbracket | tLbrace
  | tNot | tStar | tFilter | tFlatten => true
  | _ => false
  end.

Lemma render_starter : forall e, match render e with t :: _ => starter (ttype t) = true | [] => False end.
Proof.
  fix IH 1. intros e. destruct e as [q name | | lv | s | x | es | kvs | fname args | x | [l|] i | [l|] a b c r | [l|] r | [l|] r
                 | [l|] c r | [l|] r | l r | l r | l r | l r | op l r]; cbn [render];
    try (destruct q); try reflexivity;
    try (specialize (IH l); destruct (render l); [contradiction | cbn [app]; exact IH]).
Qed.

(* the operator token that follows the leftmost form when the expression is more than that form *)
Definition opener (ty : tokType) : bool :=
  match ty with
  | tLparen | tLbracket | tFlatten | tFilter | tDot | tPipe | tOr | tAnd | tEQ | tNE | tLT | tLTE | tGT | tGTE => true
  | _ => false
  end.

Lemma lchild_render e l : lchild e = Some l -> exists ty v tl, render e = render l ++ tk ty v :: tl /\ opener ty = true.
Proof.
  intros Hl. destruct e as [q name | | lv | s | x | es | kvs | fname args | x | [l0|] i | [l0|] a b c r | [l0|] r | [l0|] r
                              | [l0|] c r | [l0|] r | l0 r | l0 r | l0 r | l0 r | op l0 r];
    cbn [lchild] in Hl; try discriminate; inversion Hl; subst l; cbn [render]; rewrite <- ?app_assoc; cbn [app];
    try (eexists _, _, _; split; [reflexivity | reflexivity]).
  eexists (cmp_tok op), _, _. split; [reflexivity | destruct op; reflexivity].
Qed.

Lemma lhead_tail : forall k e, (esize e <= k)%nat -> lchild e <> None ->
  exists t tl, render e = render (lhead e) ++ t :: tl /\ opener (ttype t) = true.
Proof.
  induction k as [|k IH]; intros e Hk Hne; [destruct e; cbn in Hk; lia|].
  pose proof (lhead_lchild e) as Hl. destruct (lchild e) as [l|] eqn:El; [|congruence].
  destruct (lchild_render e l El) as [ty [v [tl [Hr Hop]]]].
  assert (Hsz : (esize l < esize e)%nat).
  { destruct e as [q name | | lv | s | x | es | kvs | fname args | x | [l0|] i | [l0|] a b c r | [l0|] r | [l0|] r
                              | [l0|] c r | [l0|] r | l0 r | l0 r | l0 r | l0 r | op l0 r];
      cbn [lchild] in El; try discriminate; inversion El; subst l; cbn [esize]; lia. }
  rewrite Hl. pose proof (lhead_lchild l) as Hl2. destruct (lchild l) as [l2|] eqn:El2.
  - destruct (IH l ltac:(lia) ltac:(congruence)) as [t [tl' [Hr' Hop']]]. exists t, (tl' ++ tk ty v :: tl).
    split; [rewrite Hr, Hr', <- app_assoc; reflexivity | exact Hop'].
  - rewrite Hl2. exists (tk ty v), tl. split; [exact Hr | exact Hop].
Qed.

Definition slice_tokens (a b : option Z) (c : option (option Z)) : list token :=
  opt_num a ++ [tk tColon (str ":")] ++ opt_num b ++
  (match c with Some o => [tk tColon (str ":")] ++ opt_num o | None => [] end) ++ [tk tRbracket (str "]")].

(* ---- the spelling of each form, with the right-hand side as rrhs ---- *)
Definition olhs (l : option expr) : list token := match l with Some x => render x | None => [] end.

Lemma render_index l z : render (EIndex l z) = olhs l ++ [tk tLbracket (str "["); tk tNumber (int_text z); tk tRbracket (str "]")].
Proof. destruct l; reflexivity. Qed.
Lemma render_slice l a b c r :
  render (ESlice l a b c r) = olhs l ++ tk tLbracket (str "[") :: slice_tokens a b c ++ rrhs r.
Proof. unfold slice_tokens. cbn [render]. rewrite <- ?app_assoc. destruct l, r; cbn [olhs rrhs app]; rewrite <- ?app_assoc; reflexivity. Qed.
Lemma render_listproj l r :
  render (EListProj l r) = olhs l ++ tk tLbracket (str "[") :: tk tStar (str "*") :: tk tRbracket (str "]") :: rrhs r.
Proof. cbn [render]. destruct l, r; reflexivity. Qed.
Lemma render_flatten l r : render (EFlatten l r) = olhs l ++ tk tFlatten (str "[]") :: rrhs r.
Proof. cbn [render]. destruct l, r; reflexivity. Qed.
Lemma render_filter l c r :
  render (EFilter l c r) = olhs l ++ tk tFilter (str "[?") :: (render c ++ [tk tRbracket (str "]")] ++ rrhs r).
Proof. cbn [render]. rewrite <- ?app_assoc. destruct l, r; cbn [olhs rrhs app]; rewrite <- ?app_assoc; reflexivity. Qed.
Lemma render_valproj_none r : render (EValProj None r) = tk tStar (str "*") :: rrhs r.
Proof. destruct r; reflexivity. Qed.
Lemma render_valproj_some l r : render (EValProj (Some l) r) = render l ++ tk tDot (str ".") :: tk tStar (str "*") :: rrhs r.
Proof. destruct r; reflexivity. Qed.

Lemma rhs_okb_of r p : (match r with
                        | RNone => true
                        | RDot x => wp x && (p <? lmin x) && match head x with HIdent | HQuoted | HMulti | HMultiStar | HStar => true | _ => false end
                        | RBrk x => wp x && (p <? lmin x) && match head x with HBracket | HFilter => true | _ => false end
                        end) = rhs_okb r p.
Proof. destruct r; reflexivity. Qed.
Lemma rlr_of r p : (match r with RNone => lvl_proj_stop - 1 | RDot x => Z.min p (rl x) | RBrk x => Z.min p (rl x) end) = rlr r p.
Proof. destruct r; reflexivity. Qed.

(* an expression that starts with "*": what comes right after the star *)
Lemma after_star e t1 tl : render e = t1 :: tl -> ttype t1 = tStar -> wp e = true ->
  (e = EValProj None RNone /\ tl = []) \/ (exists t tl', tl = t :: tl' /\ ttype t <> tRbracket /\ ttype t <> tComma).
Proof.
  intros Hr0 Hty Hw. assert (Hr := Hr0).
  destruct (render_lhead e) as [tl0 Hl]. pose proof (lchild_lhead e) as Hlc. pose proof (wp_lhead e Hw) as Hwl.
  pose proof (lhead_lchild e) as Hle.
  destruct (lhead e) as [q name | | lv | s0 | x0 | es | kvs | fname args | x0 | [l|] i0 | [l|] a b c r | [l|] r | [l|] r
                 | [l|] c r | [l|] r | l r | l r | l r | l r | op l r] eqn:Eh; cbn [lchild] in Hlc; try discriminate;
    rewrite Hl in Hr; cbn [render app] in Hr; try (destruct q); try (inversion Hr; subst t1; discriminate Hty).
  (* lhead e = EValProj None r *)
  rewrite render_valproj_none in Hl. cbn [wp] in Hwl. rewrite rhs_okb_of in Hwl. cbn [andb] in Hwl.
  pose proof (rrhs_first r lvl_star Hwl) as Hfirst.
  destruct (rrhs r) as [|t0 tl1] eqn:Err.
  - subst r. destruct (lchild e) as [l|] eqn:El.
    + destruct (lhead_tail (esize e) e (Nat.le_refl _) ltac:(congruence)) as [t [tl' [Hr' Hop]]].
      rewrite Eh in Hr'. cbn [render app] in Hr'. rewrite Hr' in Hr0. inversion Hr0; subst.
      right. exists t, tl'. split; [reflexivity|]. destruct (ttype t); try discriminate; split; discriminate.
    + left. split; [symmetry; exact Hle|]. rewrite <- Hle in Hr0. cbn [render] in Hr0. inversion Hr0. reflexivity.
  - right. cbn [app] in Hl. rewrite Hl in Hr0. inversion Hr0; subst. exists t0, (tl1 ++ tl0). split; [reflexivity|].
    destruct Hfirst as [->|[->| ->]]; split; discriminate.
Qed.

(* what the parser reads from the value of a token: a number token counts by its
   integer, a literal token by the JSON value of its text, names and raw strings
   by their bytes, every other token by its type alone *)
Definition veq (ty : tokType) (a b : bytes) : Prop :=
  match ty with
  | tNumber => atoi a = atoi b
  | tJSONLiteral => json_unmarshal a = json_unmarshal b /\ json_unmarshal b <> None
  | tUnquotedIdentifier | tQuotedIdentifier | tStringLiteral => a = b
  | _ => True
  end.

Section Tokens.
Variable ts : list token.

(* ---- results with some amount of fuel ---- *)
Definition PEf F := parseExpression ts F.
Definition CEf F := continueExpression ts F.
Definition PE bp i r := exists F, PEf F bp i = Ok r.
Definition CE l bp i r := exists F, CEf F l bp i = Ok r.

Lemma PEf_mono F F' bp i r : (F <= F')%nat -> PEf F bp i = Ok r -> PEf F' bp i = Ok r.
Proof. intros H. apply (proj1 (fuel_mono ts F) F' H). Qed.
Lemma CEf_mono F F' l bp i r : (F <= F')%nat -> CEf F l bp i = Ok r -> CEf F' l bp i = Ok r.
Proof. intros H. apply (proj2 (fuel_mono ts F) F' H). Qed.

(* a function of the parser body applied at some fuel *)
Definition atF {A} (f : (Z -> nat -> outcome (node * nat)) -> (node -> Z -> nat -> outcome (node * nat)) -> outcome A)
           (r : A) : Prop := exists F, f (PEf F) (CEf F) = Ok r.

(* ---- tokens ---- *)
Definition tokat (i : nat) (ty : tokType) (v : bytes) : Prop :=
  exists t, nth_error ts i = Some t /\ ttype t = ty /\ veq ty (tvalue t) v.
Definition Spell (i : nat) (l : list token) : Prop :=
  forall k t, nth_error l k = Some t -> tokat (i + k) (ttype t) (tvalue t).

Lemma Spell_app i a b : Spell i (a ++ b) -> Spell i a /\ Spell (i + length a) b.
Proof.
  intros H. split; intros k t Hk.
  - apply H. rewrite nth_error_app1; [exact Hk | apply nth_error_Some; congruence].
  - replace (i + length a + k)%nat with (i + (length a + k))%nat by lia. apply H.
    rewrite nth_error_app2 by lia. replace (length a + k - length a)%nat with k by lia. exact Hk.
Qed.

Lemma Spell_cons i t l : Spell i (t :: l) -> tokat i (ttype t) (tvalue t) /\ Spell (S i) l.
Proof.
  intros H. split.
  - replace i with (i + 0)%nat by lia. apply H. reflexivity.
  - intros k t' Hk. replace (S i + k)%nat with (i + S k)%nat by lia. apply H. exact Hk.
Qed.

Lemma tokat_current i ty v : tokat i ty v -> current ts i = Ok ty.
Proof.
  intros [t [Ht [Hty _]]]. unfold current, lookahead, lookaheadToken, nth_or_panic. rewrite Nat.add_0_r, Ht. cbn. rewrite Hty. reflexivity.
Qed.

Lemma tokat_lookahead i n ty v : tokat (i + n) ty v -> lookahead ts i n = Ok ty.
Proof.
  intros [t [Ht [Hty _]]]. unfold lookahead, lookaheadToken, nth_or_panic. rewrite Ht. cbn. rewrite Hty. reflexivity.
Qed.

Lemma tokat_token i ty v : tokat i ty v -> exists t, lookaheadToken ts i 0 = Ok t /\ ttype t = ty /\ veq ty (tvalue t) v.
Proof.
  intros [t [Ht [Hty Hv]]]. exists t. unfold lookaheadToken, nth_or_panic. rewrite Nat.add_0_r, Ht. auto.
Qed.

Lemma tokat_match i ty v : tokat i ty v -> match_ ts i ty = Ok (S i).
Proof.
  intros H. unfold match_. rewrite (tokat_current _ _ _ H). cbn [bind].
  assert (tok_eqb ty ty = true) as -> by (unfold tok_eqb; apply N.eqb_refl). reflexivity.
Qed.

(* ---- composing ---- *)
Lemma CE_stop l bp i ty v : tokat i ty v -> binding_power ty <= bp -> CE l bp i (l, i).
Proof.
  intros Ht Hp. exists 1%nat. unfold CEf. rewrite ce_S. rewrite (tokat_current _ _ _ Ht). cbn [bind].
  assert (bp <? binding_power ty = false) as -> by lia. reflexivity.
Qed.

Lemma CE_step l bp i ty v l' i' r :
  tokat i ty v -> bp < binding_power ty ->
  (exists F, led ts (PEf F) (CEf F) ty l (S i) = Ok (l', i')) ->
  CE l' bp i' r -> CE l bp i r.
Proof.
  intros Ht Hp [F1 H1] [F2 H2]. exists (S (Nat.max F1 F2)). unfold CEf. rewrite ce_S.
  rewrite (tokat_current _ _ _ Ht). cbn [bind]. assert (bp <? binding_power ty = true) as -> by lia.
  rewrite (led_mono ts (PEf F1) (PEf (Nat.max F1 F2)) (CEf F1) (CEf (Nat.max F1 F2))) with (r := (l', i')).
  - cbn [bind]. apply (CEf_mono F2); [lia | exact H2].
  - intros bp0 i0 r0. apply PEf_mono. lia.
  - intros l0 bp0 i0 r0. apply CEf_mono. lia.
  - exact H1.
Qed.

Lemma PE_nud bp i ty v l i1 r :
  tokat i ty v ->
  (exists F t, lookaheadToken ts i 0 = Ok t /\ nud ts (PEf F) (CEf F) t (S i) = Ok (l, i1)) ->
  CE l bp i1 r -> PE bp i r.
Proof.
  intros Ht [F1 [t [Hl H1]]] [F2 H2]. exists (S (Nat.max F1 F2)). unfold PEf. rewrite pe_S. rewrite Hl. cbn [bind].
  rewrite (nud_mono ts (PEf F1) (PEf (Nat.max F1 F2)) (CEf F1) (CEf (Nat.max F1 F2))) with (r := (l, i1)).
  - cbn [bind]. change (bp_of site_parseExpression_continueExpression tUnknown bp) with bp.
    apply (CEf_mono F2); [lia | exact H2].
  - intros bp0 i0 r0. apply PEf_mono. lia.
  - intros l0 bp0 i0 r0. apply CEf_mono. lia.
  - exact H1.
Qed.


(* ---- the statements ---- *)
Definition follow (j : nat) (lvl : Z) : Prop := exists fty fv, tokat j fty fv /\ binding_power fty <= lvl.

(* having read e (and nothing more), the parser is where it would be had it been handed compile e *)
Definition StE (e : expr) : Prop :=
  forall bp i r, wp e = true -> npos e = true -> bp < lmin e -> Spell i (render e) -> follow (i + nE e) (rl e) ->
    CE (compile e) bp (i + nE e) r -> PE bp i r.

(* one operator of the left spine *)
Definition StStep (e : expr) : Prop :=
  forall l, lchild e = Some l ->
  forall bp i r, wp e = true -> bp < lmin e -> Spell i (render e) -> follow (i + nE e) (rl e) ->
    CE (compile e) bp (i + nE e) r -> CE (compile l) bp (i + nE l) r.

Lemma follow_le j a b : follow j a -> a <= b -> follow j b.
Proof. intros [ty [v [H1 H2]]] Hab. exists ty, v. split; [exact H1 | lia]. Qed.

(* an expression with a left operand: read the operand, then take the step *)
Lemma StE_from_step e l : lchild e = Some l -> StE l -> StStep e -> StE e.
Proof.
  intros Hl HEl Hstep bp i r Hw Hnp Hbp Hsp Hf Hce.
  destruct (spine_facts e l Hl Hw) as [Hwl [Hlm [_ [ty [v [tl [Hr [Hp _]]]]]]]].
  apply (HEl bp i r Hwl ltac:(rewrite <- (npos_lchild e l Hl); exact Hnp) ltac:(lia)).
  - rewrite Hr in Hsp. apply Spell_app in Hsp. apply Hsp.
  - rewrite Hr in Hsp. apply Spell_app in Hsp as [_ Hsp]. apply Spell_cons in Hsp as [Ht _].
    exists ty, v. split; [exact Ht | exact Hp].
  - apply (Hstep l Hl bp i r Hw Hbp Hsp Hf Hce).
Qed.


(* ---- index and slice brackets ---- *)
Lemma slice_loop_mono : forall g g' parts index i r, (g <= g')%nat ->
  slice_loop ts g parts index i = Ok r -> slice_loop ts g' parts index i = Ok r.
Proof.
  induction g as [|g IH]; intros g' parts index i r Hg H; [discriminate|]. destruct g' as [|g']; [lia|].
  cbn [slice_loop] in *. destruct (current ts i) as [c| | |]; cbn [bind] in *; try discriminate.
  destruct (negb (tok_eqb c tRbracket) && (index <? 3)%nat); [|exact H].
  destruct (tok_eqb c tColon).
  - destruct (Nat.eqb (S index) 3); [exact H|]. apply (IH g'); [lia | exact H].
  - destruct (_ && _); [|exact H]. destruct (lookaheadToken ts i 0) as [t| | |]; cbn [bind] in *; try discriminate.
    destruct (atoi (tvalue t)); [|exact H]. apply (IH g'); [lia | exact H].
Qed.

Lemma Spell_bound i t l : Spell i (t :: l) -> (i < length ts)%nat.
Proof. intros H. apply Spell_cons in H as [[t' [Ht _]] _]. apply nth_error_Some. congruence. Qed.

Lemma tokat_number i z : tokat i tNumber (int_text z) -> in_int64 z = true ->
  exists t, lookaheadToken ts i 0 = Ok t /\ atoi (tvalue t) = Some z.
Proof. intros H Hz. destruct (tokat_token _ _ _ H) as [t [H1 [_ H3]]]. exists t. cbn [veq] in H3. rewrite H3, atoi_int_text by exact Hz. auto. Qed.

Lemma parse_index i z : in_int64 z = true ->
  Spell i [tk tNumber (int_text z); tk tRbracket (str "]")] ->
  parseIndexExpression ts i = Ok (Node ASTIndex (NVInt z) [], S (S i)).
Proof.
  intros Hz H. apply Spell_cons in H as [H0 H]. apply Spell_cons in H as [H1 _]. cbn [ttype tvalue tk] in *.
  unfold parseIndexExpression. rewrite (tokat_lookahead i 0 tNumber _ ltac:(rewrite Nat.add_0_r; exact H0)). cbn [bind].
  rewrite (tokat_lookahead i 1 tRbracket _ ltac:(replace (i + 1)%nat with (S i) by lia; exact H1)). cbn [bind].
  destruct (tokat_number i z H0 Hz) as [t [Ht Ha]]. rewrite Ht. cbn [bind]. rewrite Ha.
  rewrite (tokat_match _ _ _ H1). reflexivity.
Qed.

Lemma slice_loop_number g parts index i z : tokat i tNumber (int_text z) -> in_int64 z = true ->
  get_part parts index = None -> (index < 3)%nat ->
  slice_loop ts (S g) parts index i = slice_loop ts g (set_part parts index z) index (S i).
Proof.
  intros H Hz Hp Hi. cbn [slice_loop]. rewrite (tokat_current _ _ _ H). cbn [bind].
  assert ((index <? 3)%nat = true) as -> by (apply Nat.ltb_lt; exact Hi). cbn [tok_eqb negb andb].
  change (tok_eqb tNumber tRbracket) with false. change (tok_eqb tNumber tColon) with false. change (tok_eqb tNumber tNumber) with true.
  cbn [negb andb]. rewrite Hp. destruct (tokat_number i z H Hz) as [t [Ht Ha]]. rewrite Ht. cbn [bind]. rewrite Ha. reflexivity.
Qed.

Lemma slice_loop_colon g parts index i : tokat i tColon (str ":") -> (S index < 3)%nat ->
  slice_loop ts (S g) parts index i = slice_loop ts g parts (S index) (S i).
Proof.
  intros H Hi. cbn [slice_loop]. rewrite (tokat_current _ _ _ H). cbn [bind].
  assert ((index <? 3)%nat = true) as -> by (apply Nat.ltb_lt; lia).
  change (tok_eqb tColon tRbracket) with false. change (tok_eqb tColon tColon) with true. cbn [negb andb].
  assert (Nat.eqb (S index) 3 = false) as -> by (apply Nat.eqb_neq; lia). reflexivity.
Qed.

Lemma slice_loop_end g parts index i : tokat i tRbracket (str "]") ->
  slice_loop ts (S g) parts index i =
  Ok (let '(a, b, c) := parts in mk ASTSlice (NVSlice a b c) [], S i).
Proof.
  intros H. cbn [slice_loop]. rewrite (tokat_current _ _ _ H). cbn [bind].
  change (tok_eqb tRbracket tRbracket) with true. cbn [negb andb]. rewrite (tokat_match _ _ _ H). cbn [bind].
  destruct parts as [[a b] c]. reflexivity.
Qed.

Lemma Spell_length i l : l <> [] -> Spell i l -> (i + length l <= length ts)%nat.
Proof.
  intros Hne H. destruct (exists_last Hne) as [l' [t ->]]. apply Spell_app in H as [_ H].
  apply Spell_bound in H. rewrite app_length. cbn [length]. lia.
Qed.

Lemma Spell_nth i l k t : Spell i l -> nth_error l k = Some t -> tokat (i + k) (ttype t) (tvalue t).
Proof. intros H Hk. apply H. exact Hk. Qed.

Ltac spell_facts H :=
  try (pose proof (Spell_nth _ _ 0 _ H eq_refl) as T0; cbn [ttype tvalue tk] in T0; rewrite Nat.add_0_r in T0);
  try (pose proof (Spell_nth _ _ 1 _ H eq_refl) as T1; cbn [ttype tvalue tk] in T1; rewrite Nat.add_1_r in T1);
  try (pose proof (Spell_nth _ _ 2 _ H eq_refl) as T2; cbn [ttype tvalue tk] in T2;
       match type of T2 with tokat (?i + 2) _ _ => replace (i + 2)%nat with (S (S i)) in T2 by lia end);
  try (pose proof (Spell_nth _ _ 3 _ H eq_refl) as T3; cbn [ttype tvalue tk] in T3;
       match type of T3 with tokat (?i + 3) _ _ => replace (i + 3)%nat with (S (S (S i))) in T3 by lia end);
  try (pose proof (Spell_nth _ _ 4 _ H eq_refl) as T4; cbn [ttype tvalue tk] in T4;
       match type of T4 with tokat (?i + 4) _ _ => replace (i + 4)%nat with (S (S (S (S i)))) in T4 by lia end);
  try (pose proof (Spell_nth _ _ 5 _ H eq_refl) as T5; cbn [ttype tvalue tk] in T5;
       match type of T5 with tokat (?i + 5) _ _ => replace (i + 5)%nat with (S (S (S (S (S i))))) in T5 by lia end).

Lemma parse_slice i a b c :
  opt_int64 a = true -> opt_int64 b = true -> opt_int64 (cjoin c) = true ->
  Spell i (slice_tokens a b c) ->
  parseIndexExpression ts i = Ok (Node ASTSlice (NVSlice a b (cjoin c)) [], (i + length (slice_tokens a b c))%nat).
Proof.
  intros Ha Hb Hc H.
  pose proof (Spell_length i (slice_tokens a b c)) as Hlen.
  assert (Hne : slice_tokens a b c <> []) by (unfold slice_tokens; destruct a; discriminate).
  specialize (Hlen Hne H).
  assert (Hfuel : exists g0, length ts = (length (slice_tokens a b c) + g0)%nat) by (exists (length ts - length (slice_tokens a b c))%nat; lia).
  destruct Hfuel as [g0 Hg0].
  unfold parseIndexExpression, parseSliceExpression. rewrite Hg0. clear Hlen Hne Hg0.
  unfold slice_tokens in *.
  destruct a as [za|], b as [zb|], c as [[zc|]|]; cbn [cjoin opt_num app length Nat.add] in *; cbn [opt_int64] in *; spell_facts H.
  all: match type of T0 with tokat _ ?ty ?v => rewrite (tokat_lookahead i 0 ty v) by (rewrite Nat.add_0_r; exact T0) end; cbn [bind].
  all: try (rewrite (tokat_lookahead i 1 tColon (str ":")) by (rewrite Nat.add_1_r; exact T1); cbn [bind]).
  all: change (tok_eqb tColon tColon) with true; change (tok_eqb tNumber tColon) with false; cbn iota; cbn [bind].
  all: repeat first
         [ erewrite slice_loop_number by (first [eassumption | reflexivity | lia])
         | rewrite slice_loop_colon by (first [assumption | lia])
         | rewrite slice_loop_end by assumption ].
  all: cbn [set_part]; f_equal; f_equal; lia.
Qed.

(* ---- the induction ---- *)
Section Ind.
Variable n : nat.
Hypothesis IHE : forall e, (esize e < n)%nat -> StE e.
Hypothesis IHStep : forall e, (esize e < n)%nat -> StStep e.

(* a sub-expression read in a context of level bp, up to a token that does not continue it *)
Lemma PE_whole e bp i : (esize e < n)%nat -> wp e = true -> npos e = true -> bp < lmin e -> Spell i (render e) ->
  follow (i + nE e) (Z.min bp (rl e)) -> PE bp i (compile e, (i + nE e)%nat).
Proof.
  intros Hs Hw Hnp Hbp Hsp [fty [fv [Ht Hp]]]. apply (IHE e Hs bp i _ Hw Hnp Hbp Hsp).
  - exists fty, fv. split; [exact Ht | lia].
  - apply (CE_stop _ _ _ fty fv Ht). lia.
Qed.

Lemma pe_le_F F F' : (F <= F')%nat -> pe_le (PEf F) (PEf F').
Proof. intros H bp i r. apply PEf_mono. exact H. Qed.
Lemma ce_le_F F F' : (F <= F')%nat -> ce_le (CEf F) (CEf F').
Proof. intros H l bp i r. apply CEf_mono. exact H. Qed.

Lemma follow_close i ty v x : tokat i ty v -> binding_power ty = 0 -> follow i (Z.min 0 (rl x)).
Proof. intros Ht Hp. exists ty, v. split; [exact Ht|]. pose proof (rl_pos x). lia. Qed.

(* ---- multi-select lists ---- *)
Lemma msl_ok : forall es acc i g, es <> [] ->
  (forall x, In x es -> (esize x < n)%nat /\ wp x = true /\ npos x = true) ->
  Spell i (sep_by [tk tComma (str ",")] (map render es) ++ [tk tRbracket (str "]")]) ->
  (length es <= g)%nat ->
  exists F, msl_loop ts (PEf F) g acc i =
            Ok (mk ASTMultiSelectList NVNone (rev acc ++ map compile es),
                (i + length (sep_by [tk tComma (str ",")] (map render es) ++ [tk tRbracket (str "]")]))%nat).
Proof.
  induction es as [|x es IH]; intros acc i g Hne Hall Hsp Hg; [congruence|].
  destruct (Hall x (or_introl eq_refl)) as [Hsz [Hw Hnp]].
  destruct g as [|g]; [cbn in Hg; lia|].
  destruct es as [|y es'].
  - (* the last element *)
    cbn [map sep_by] in *. apply Spell_app in Hsp as [Hx Hrb]. apply Spell_cons in Hrb as [Hrb _]. cbn [ttype tvalue tk] in Hrb.
    destruct (PE_whole x 0 i Hsz Hw Hnp (lmin_pos x) Hx (follow_close _ _ _ x Hrb eq_refl)) as [F HF].
    unfold nE in *. exists F. cbn [msl_loop]. change (bp_of site_parseMultiSelectList_parseExpression tUnknown 0) with 0. rewrite HF. cbn [bind]. rewrite (tokat_current _ _ _ Hrb). cbn [bind].
    change (tok_eqb tRbracket tRbracket) with true. cbn iota. rewrite (tokat_match _ _ _ Hrb). cbn [bind rev map].
    rewrite app_length. cbn [length]. f_equal. f_equal. lia.
  - (* an element followed by a comma *)
    cbn [map sep_by] in Hsp. rewrite <- !app_assoc in Hsp. apply Spell_app in Hsp as [Hx Hrest].
    cbn [app] in Hrest. apply Spell_cons in Hrest as [Hc Hrest]. cbn [ttype tvalue tk] in Hc.
    destruct (PE_whole x 0 i Hsz Hw Hnp (lmin_pos x) Hx (follow_close _ _ _ x Hc eq_refl)) as [F1 HF1].
    destruct (IH (compile x :: acc) (S (i + nE x)) g ltac:(discriminate)
                 (fun z Hz => Hall z (or_intror Hz)) Hrest ltac:(cbn [length] in *; lia)) as [F2 HF2].
    unfold nE in *. exists (Nat.max F1 F2). cbn [msl_loop]. change (bp_of site_parseMultiSelectList_parseExpression tUnknown 0) with 0.
    rewrite (PEf_mono F1 (Nat.max F1 F2) _ _ _ (Nat.le_max_l _ _) HF1). cbn [bind].
    rewrite (tokat_current _ _ _ Hc). cbn [bind]. change (tok_eqb tComma tRbracket) with false. cbn iota.
    rewrite (tokat_match _ _ _ Hc). cbn [bind].
    rewrite (msl_loop_mono ts (PEf F2) (PEf (Nat.max F1 F2)) (pe_le_F F2 (Nat.max F1 F2) (Nat.le_max_r _ _)) _ _ _ _ HF2).
    cbn [rev map sep_by]. rewrite <- !app_assoc. cbn [app]. f_equal. f_equal.
    rewrite !app_length. cbn [length]. rewrite !app_length. unfold nE. cbn [length]. lia.
Qed.

(* ---- multi-select hashes ---- *)
Definition kv_tokens (kv : bool * bytes * expr) : list token :=
  tk (if fst (fst kv) then tQuotedIdentifier else tUnquotedIdentifier) (snd (fst kv)) :: tk tColon (str ":") :: render (snd kv).
Definition kv_node (kv : bool * bytes * expr) : node :=
  Node ASTKeyValPair (NVStr (snd (fst kv))) [compile (snd kv)].

Lemma msh_ok : forall kvs acc i g, kvs <> [] ->
  (forall kv, In kv kvs -> (esize (snd kv) < n)%nat /\ wp (snd kv) = true /\ npos (snd kv) = true) ->
  Spell i (sep_by [tk tComma (str ",")] (map kv_tokens kvs) ++ [tk tRbrace (str "}")]) ->
  (length kvs <= g)%nat ->
  exists F, msh_loop ts (PEf F) g acc i =
            Ok (mk ASTMultiSelectHash NVNone (rev acc ++ map kv_node kvs),
                (i + length (sep_by [tk tComma (str ",")] (map kv_tokens kvs) ++ [tk tRbrace (str "}")]))%nat).
Proof.
  induction kvs as [|kv kvs IH]; intros acc i g Hne Hall Hsp Hg; [congruence|].
  destruct (Hall kv (or_introl eq_refl)) as [Hsz [Hw Hnp]].
  destruct g as [|g]; [cbn in Hg; lia|].
  destruct kv as [[q key] x]. cbn [fst snd] in *.
  assert (Hkey : forall rest, Spell i (kv_tokens (q, key, x) ++ rest) ->
            exists kt, lookaheadToken ts i 0 = Ok kt /\ tvalue kt = key /\
                       current ts i = Ok (if q then tQuotedIdentifier else tUnquotedIdentifier) /\
                       match_ ts (S i) tColon = Ok (S (S i)) /\ Spell (S (S i)) (render x ++ rest)).
  { intros rest H. unfold kv_tokens in H. cbn [fst snd app] in H. apply Spell_cons in H as [H0 H]. apply Spell_cons in H as [H1 H].
    cbn [ttype tvalue tk] in *. destruct (tokat_token _ _ _ H0) as [kt [K1 [K2 K3]]]. exists kt.
    repeat split; [exact K1 | destruct q; exact K3 | apply (tokat_current _ _ _ H0) | apply (tokat_match _ _ _ H1) | exact H]. }
  destruct kvs as [|kv2 kvs'].
  - cbn [map sep_by] in *. destruct (Hkey _ Hsp) as [kt [K1 [K2 [K3 [K4 K5]]]]].
    apply Spell_app in K5 as [Hx Hrb]. apply Spell_cons in Hrb as [Hrb _]. cbn [ttype tvalue tk] in Hrb.
    destruct (PE_whole x 0 (S (S i)) Hsz Hw Hnp (lmin_pos x) Hx (follow_close _ _ _ x Hrb eq_refl)) as [F HF].
    unfold nE in *. exists F. cbn [msh_loop]. rewrite K1, K3. cbn [bind].
    assert ((tok_eqb (if q then tQuotedIdentifier else tUnquotedIdentifier) tUnquotedIdentifier
             || tok_eqb (if q then tQuotedIdentifier else tUnquotedIdentifier) tQuotedIdentifier) = true) as -> by (destruct q; reflexivity).
    rewrite K4. cbn [bind]. change (bp_of site_parseMultiSelectHash_parseExpression tUnknown 0) with 0. rewrite HF. cbn [bind].
    rewrite (tokat_current _ _ _ Hrb). cbn [bind]. change (tok_eqb tRbrace tComma) with false. change (tok_eqb tRbrace tRbrace) with true.
    cbn iota. cbn [rev map]. rewrite K2. unfold kv_node, kv_tokens. cbn [fst snd].
    f_equal. f_equal. rewrite ?app_length; cbn [length]; rewrite ?app_length; cbn [length]; lia.
  - cbn [map sep_by] in Hsp. rewrite <- !app_assoc in Hsp. destruct (Hkey _ Hsp) as [kt [K1 [K2 [K3 [K4 K5]]]]].
    apply Spell_app in K5 as [Hx Hrest]. cbn [app] in Hrest. apply Spell_cons in Hrest as [Hc Hrest]. cbn [ttype tvalue tk] in Hc.
    destruct (PE_whole x 0 (S (S i)) Hsz Hw Hnp (lmin_pos x) Hx (follow_close _ _ _ x Hc eq_refl)) as [F1 HF1].
    destruct (IH (mk ASTKeyValPair (NVStr key) [compile x] :: acc) (S (S (S i) + nE x)) g ltac:(discriminate)
                 (fun z Hz => Hall z (or_intror Hz)) Hrest ltac:(cbn [length] in *; lia)) as [F2 HF2].
    unfold nE in *. exists (Nat.max F1 F2). cbn [msh_loop]. rewrite K1, K3. cbn [bind].
    assert ((tok_eqb (if q then tQuotedIdentifier else tUnquotedIdentifier) tUnquotedIdentifier
             || tok_eqb (if q then tQuotedIdentifier else tUnquotedIdentifier) tQuotedIdentifier) = true) as -> by (destruct q; reflexivity).
    rewrite K4. cbn [bind]. change (bp_of site_parseMultiSelectHash_parseExpression tUnknown 0) with 0.
    rewrite (PEf_mono F1 (Nat.max F1 F2) _ _ _ (Nat.le_max_l _ _) HF1). cbn [bind].
    rewrite (tokat_current _ _ _ Hc). cbn [bind]. change (tok_eqb tComma tComma) with true. cbn iota. rewrite K2.
    rewrite (msh_loop_mono ts (PEf F2) (PEf (Nat.max F1 F2)) (pe_le_F F2 (Nat.max F1 F2) (Nat.le_max_r _ _)) _ _ _ _ HF2).
    cbn [rev map sep_by]. rewrite <- !app_assoc. cbn [app]. unfold kv_node at 2. cbn [fst snd]. f_equal. f_equal.
    rewrite (app_length (kv_tokens (q, key, x))).
    assert (L : length (kv_tokens (q, key, x)) = S (S (length (render x)))) by reflexivity. rewrite L. cbn [length]. lia.
Qed.

(* ---- function arguments ---- *)
Definition arg_tokens (a : arg) : list token :=
  match a with AExpr x => render x | ARef x => tk tExpref (str "&") :: render x end.
Definition arg_node (a : arg) : node :=
  match a with AExpr x => compile x | ARef x => N0 ASTExpRef [compile x] end.
Definition arg_expr (a : arg) : expr := match a with AExpr x => x | ARef x => x end.

Lemma arg_ok a i fty : (esize (arg_expr a) < n)%nat -> wp (arg_expr a) = true -> npos (arg_expr a) = true ->
  Spell i (arg_tokens a) -> tokat (i + length (arg_tokens a)) fty (match fty with tComma => str "," | _ => str ")" end) ->
  binding_power fty = 0 ->
  exists F, parseFunctionArg ts (PEf F) i = Ok (arg_node a, (i + length (arg_tokens a))%nat).
Proof.
  intros Hsz Hw Hnp Hsp Hf Hp0. destruct a as [x|x]; cbn [arg_expr arg_tokens arg_node] in *.
  - destruct (PE_whole x 0 i Hsz Hw Hnp (lmin_pos x) Hsp (follow_close _ _ _ x Hf Hp0)) as [F HF].
    exists F. unfold parseFunctionArg.
    pose proof (render_first_not_expref x) as Hne. destruct (render x) as [|t0 tl] eqn:Er; [contradiction|].
    apply Spell_cons in Hsp as [H0 _]. rewrite (tokat_current _ _ _ H0). cbn [bind].
    assert (tok_eqb (ttype t0) tExpref = false) as ->.
    { destruct (ttype t0); try reflexivity. congruence. }
    cbn [negb]. change (bp_of site_parseFunctionArg_parseExpression tUnknown 0) with 0. unfold nE in HF. rewrite Er in HF. exact HF.
  - apply Spell_cons in Hsp as [H0 Hx]. cbn [ttype tvalue tk length] in *.
    replace (i + S (length (render x)))%nat with (S i + length (render x))%nat in * by lia.
    destruct (PE_whole x 0 (S i) Hsz Hw Hnp (lmin_pos x) Hx (follow_close _ _ _ x Hf Hp0)) as [F HF].
    exists F. unfold parseFunctionArg. rewrite (tokat_current _ _ _ H0). cbn [bind].
    change (tok_eqb tExpref tExpref) with true. cbn [negb].
    change (bp_of site_parseFunctionArg_parseExpression2 tUnknown 0) with 0. rewrite HF. reflexivity.
Qed.

Lemma args_ok : forall args acc i g, args <> [] ->
  (forall a, In a args -> (esize (arg_expr a) < n)%nat /\ wp (arg_expr a) = true /\ npos (arg_expr a) = true) ->
  Spell i (sep_by [tk tComma (str ",")] (map arg_tokens args) ++ [tk tRparen (str ")")]) ->
  (length args <= g)%nat ->
  exists F, args_loop ts (PEf F) g acc i =
            Ok (rev acc ++ map arg_node args,
                (i + length (sep_by [tk tComma (str ",")] (map arg_tokens args)))%nat).
Proof.
  induction args as [|a args IH]; intros acc i g Hne Hall Hsp Hg; [congruence|].
  destruct (Hall a (or_introl eq_refl)) as [Hsz [Hw Hnp]].
  destruct g as [|g]; [cbn in Hg; lia|].
  destruct args as [|b args'].
  - cbn [map sep_by] in *. apply Spell_app in Hsp as [Ha Hrp]. apply Spell_cons in Hrp as [Hrp _]. cbn [ttype tvalue tk] in Hrp.
    destruct (arg_ok a i tRparen Hsz Hw Hnp Ha Hrp eq_refl) as [F HF].
    exists F. cbn [args_loop]. rewrite HF. cbn [bind]. rewrite (tokat_current _ _ _ Hrp). cbn [bind].
    change (tok_eqb tRparen tRparen) with true. cbn iota. cbn [rev map]. reflexivity.
  - cbn [map sep_by] in Hsp. rewrite <- !app_assoc in Hsp. apply Spell_app in Hsp as [Ha Hrest].
    cbn [app] in Hrest. apply Spell_cons in Hrest as [Hc Hrest]. cbn [ttype tvalue tk] in Hc.
    destruct (arg_ok a i tComma Hsz Hw Hnp Ha Hc eq_refl) as [F1 HF1].
    destruct (IH (arg_node a :: acc) (S (i + length (arg_tokens a))) g ltac:(discriminate)
                 (fun z Hz => Hall z (or_intror Hz)) Hrest ltac:(cbn [length] in *; lia)) as [F2 HF2].
    exists (Nat.max F1 F2). cbn [args_loop].
    rewrite (parseFunctionArg_mono ts (PEf F1) (PEf (Nat.max F1 F2)) (pe_le_F F1 (Nat.max F1 F2) (Nat.le_max_l _ _)) _ _ HF1). cbn [bind].
    rewrite (tokat_current _ _ _ Hc). cbn [bind]. change (tok_eqb tComma tRparen) with false. cbn iota.
    rewrite (tokat_match _ _ _ Hc). cbn [bind].
    rewrite (args_loop_mono ts (PEf F2) (PEf (Nat.max F1 F2)) (pe_le_F F2 (Nat.max F1 F2) (Nat.le_max_r _ _)) _ _ _ _ HF2).
    cbn [rev map sep_by]. rewrite <- !app_assoc. cbn [app]. f_equal. f_equal.
    rewrite (app_length (arg_tokens a)). cbn [length]. lia.
Qed.

(* from the operand at the far left up to the whole expression *)
Lemma lhead_spine : forall k e, (esize e <= k)%nat -> (esize e < n)%nat ->
  forall bp i r, wp e = true -> bp < lmin e -> Spell i (render e) -> follow (i + nE e) (rl e) ->
  CE (compile e) bp (i + nE e) r -> CE (compile (lhead e)) bp (i + nE (lhead e)) r.
Proof.
  induction k as [|k IH]; intros e Hk Hn bp i r Hw Hbp Hsp Hf Hce.
  - destruct e; cbn in Hk; lia.
  - pose proof (lhead_lchild e) as Hl. destruct (lchild e) as [l|] eqn:El; [|rewrite Hl; exact Hce].
    destruct (spine_facts e l El Hw) as [Hwl [Hlm [Hsz [ty [v [tl [Hr [Hp _]]]]]]]].
    rewrite Hl. apply (IH l ltac:(lia) ltac:(lia) bp i r Hwl ltac:(lia)).
    + rewrite Hr in Hsp. apply Spell_app in Hsp. apply Hsp.
    + rewrite Hr in Hsp. apply Spell_app in Hsp as [_ Hsp]. apply Spell_cons in Hsp as [Ht _].
      exists ty, v. split; [exact Ht | exact Hp].
    + apply (IHStep e Hn l El bp i r Hw Hbp Hsp Hf Hce).
Qed.


(* ---- what may follow a dot ---- *)
Lemma multiselect_list_ok es i :
  wp (EMSList es) = true -> (esize (EMSList es) < n)%nat -> Spell i (render (EMSList es)) ->
  exists F, (i1 <- match_ ts i tLbracket ;; parseMultiSelectList ts (PEf F) i1) =
            Ok (compile (EMSList es), (i + nE (EMSList es))%nat).
Proof.
  intros Hw Hsz Hsp. cbn [wp] in Hw. bsplit. cbn [render] in Hsp. apply Spell_cons in Hsp as [Hopen Hsp]. cbn [ttype tvalue tk] in Hopen.
  assert (Hne : es <> []) by (destruct es; [discriminate | discriminate]).
  assert (Hall : forall x, In x es -> (esize x < n)%nat /\ wp x = true /\ npos x = true).
  { intros x Hx. split; [pose proof (esize_in_list x es Hx); cbn [esize] in Hsz; lia|].
    match goal with Hf : forallb _ es = true |- _ => rewrite forallb_forall in Hf; specialize (Hf x Hx); apply andb_true_iff in Hf; exact Hf end. }
  assert (Hlen : (length es <= S (length ts))%nat).
  { pose proof (sep_by_length render [tk tComma (str ",")] es render_nonempty) as L.
    pose proof (fun Hn => Spell_length (S i) _ Hn Hsp) as L2.
    specialize (L2 ltac:(intros Hx; apply app_eq_nil in Hx; destruct Hx as [_ Hx]; discriminate Hx)).
    rewrite app_length in L2. lia. }
  destruct (msl_ok es [] (S i) (S (length ts)) Hne Hall Hsp Hlen) as [F HF].
  exists F. rewrite (tokat_match _ _ _ Hopen). cbn [bind]. unfold parseMultiSelectList. rewrite HF.
  cbn [rev app compile]. unfold nE. cbn [render length]. f_equal. f_equal. lia.
Qed.

Lemma multiselect_hash_ok kvs i :
  wp (EMSHash kvs) = true -> (esize (EMSHash kvs) < n)%nat -> Spell i (render (EMSHash kvs)) ->
  exists F, (i1 <- match_ ts i tLbrace ;; parseMultiSelectHash ts (PEf F) i1) =
            Ok (compile (EMSHash kvs), (i + nE (EMSHash kvs))%nat).
Proof.
  intros Hw Hsz Hsp. cbn [wp] in Hw. bsplit. cbn [render] in Hsp. apply Spell_cons in Hsp as [Hopen Hsp]. cbn [ttype tvalue tk] in Hopen.
  assert (Hne : kvs <> []) by (destruct kvs; [discriminate | discriminate]).
  assert (Hall : forall kv, In kv kvs -> (esize (snd kv) < n)%nat /\ wp (snd kv) = true /\ npos (snd kv) = true).
  { intros kv Hx. split; [pose proof (esize_in_kvs kv kvs Hx); cbn [esize] in Hsz; lia|].
    match goal with Hf : forallb _ kvs = true |- _ => rewrite forallb_forall in Hf; specialize (Hf kv Hx); apply andb_true_iff in Hf; exact Hf end. }
  change (map (fun kv : bool * bytes * expr =>
                 tk (if fst (fst kv) then tQuotedIdentifier else tUnquotedIdentifier) (snd (fst kv))
                 :: tk tColon (str ":") :: render (snd kv)) kvs) with (map kv_tokens kvs) in Hsp.
  assert (Hlen : (length kvs <= S (length ts))%nat).
  { pose proof (sep_by_length kv_tokens [tk tComma (str ",")] kvs ltac:(intros x; discriminate)) as L.
    pose proof (fun Hn => Spell_length (S i) _ Hn Hsp) as L2.
    specialize (L2 ltac:(intros Hx; apply app_eq_nil in Hx; destruct Hx as [_ Hx]; discriminate Hx)).
    rewrite app_length in L2. lia. }
  destruct (msh_ok kvs [] (S i) (S (length ts)) Hne Hall Hsp Hlen) as [F HF].
  exists F. rewrite (tokat_match _ _ _ Hopen). cbn [bind]. unfold parseMultiSelectHash. rewrite HF.
  cbn [rev app compile]. unfold nE. cbn [render length].
  change (map (fun kv : bool * bytes * expr =>
                 tk (if fst (fst kv) then tQuotedIdentifier else tUnquotedIdentifier) (snd (fst kv))
                 :: tk tColon (str ":") :: render (snd kv)) kvs) with (map kv_tokens kvs).
  f_equal. f_equal. lia.
Qed.


Definition dot_head (e : expr) : bool :=
  match head e with HIdent | HQuoted | HMulti | HMultiStar | HStar => true | _ => false end.

Lemma dot_ok x bp i : (esize x < n)%nat -> wp x = true -> bp < lmin x -> dot_head x = true ->
  Spell i (render x) -> follow (i + nE x) (Z.min bp (rl x)) ->
  exists F, parseDotRHS ts (PEf F) (CEf F) bp i = Ok (compile x, (i + nE x)%nat).
Proof.
  intros Hsz Hw Hbp Hh Hsp Hf.
  destruct (render_lhead x) as [tl Hr]. pose proof (head_lhead x) as Hhd. pose proof (lchild_lhead x) as Hlc.
  pose proof (wp_lhead x Hw) as Hwh. pose proof (esize_lhead x) as Hsh.
  unfold dot_head in Hh. rewrite Hhd in Hh.
  (* the three cases in which the right-hand side is read by parseExpression *)
  assert (Direct : forall ty v tl', render (lhead x) = tk ty v :: tl' ->
             (tok_eqb ty tQuotedIdentifier || tok_eqb ty tUnquotedIdentifier || tok_eqb ty tStar) = true ->
             npos x = true ->
             exists F, parseDotRHS ts (PEf F) (CEf F) bp i = Ok (compile x, (i + nE x)%nat)).
  { intros ty v tl' Hrl Hty Hnp. destruct (PE_whole x bp i Hsz Hw Hnp Hbp Hsp Hf) as [F HF]. exists F.
    unfold parseDotRHS. rewrite Hr, Hrl in Hsp. cbn [app] in Hsp. apply Spell_cons in Hsp as [H0 _].
    rewrite (tokat_current _ _ _ H0). cbn [bind ttype tk]. rewrite Hty.
    change (bp_of site_parseDotRHS_parseExpression tUnknown bp) with bp. exact HF. }
  destruct (lhead x) as [q name | | lv | s0 | x0 | es | kvs | fname args | x0 | [l|] i0 | [l|] a b c r | [l|] r | [l|] r
                 | [l|] c r | [l|] r | l r | l r | l r | l r | op l r] eqn:Eh; cbn [head lchild] in *; try discriminate.
  - (* identifier *) destruct q; eapply Direct; try reflexivity; unfold npos; rewrite Hhd; reflexivity.
  - (* multi-select list *)
    assert (Hm : Spell i (render (EMSList es))) by (rewrite Hr in Hsp; apply Spell_app in Hsp; apply Hsp).
    destruct (multiselect_list_ok es i Hwh ltac:(lia) Hm) as [F1 HF1].
    assert (Hce : CE (compile (EMSList es)) bp (i + nE (EMSList es)) (compile x, (i + nE x)%nat)).
    { rewrite <- Eh. apply (lhead_spine (esize x) x (Nat.le_refl _) Hsz bp i _ Hw Hbp Hsp).
      - destruct Hf as [fty [fv [Ht Hp]]]. exists fty, fv. split; [exact Ht | lia].
      - destruct Hf as [fty [fv [Ht Hp]]]. apply (CE_stop _ _ _ fty fv Ht). lia. }
    destruct Hce as [F2 HF2]. exists (Nat.max F1 F2). unfold parseDotRHS.
    cbn [render] in Hm. apply Spell_cons in Hm as [H0 _]. rewrite (tokat_current _ _ _ H0). cbn [bind ttype tk].
    change (tok_eqb tLbracket tQuotedIdentifier || tok_eqb tLbracket tUnquotedIdentifier || tok_eqb tLbracket tStar) with false.
    change (tok_eqb tLbracket tLbracket) with true. cbn iota.
    destruct (match_ ts i tLbracket) as [i1| | |] eqn:Em; cbn [bind] in HF1 |- *; try discriminate.
    unfold parseMultiSelectList in *.
    rewrite (msl_loop_mono ts (PEf F1) (PEf (Nat.max F1 F2)) (pe_le_F F1 _ (Nat.le_max_l _ _)) _ _ _ _ HF1). cbn [bind].
    change (bp_of site_parseDotRHS_continueExpression tUnknown bp) with bp.
    apply (CEf_mono F2 _ _ _ _ _ (Nat.le_max_r _ _) HF2).
  - (* multi-select hash *)
    assert (Hm : Spell i (render (EMSHash kvs))) by (rewrite Hr in Hsp; apply Spell_app in Hsp; apply Hsp).
    destruct (multiselect_hash_ok kvs i Hwh ltac:(lia) Hm) as [F1 HF1].
    assert (Hce : CE (compile (EMSHash kvs)) bp (i + nE (EMSHash kvs)) (compile x, (i + nE x)%nat)).
    { rewrite <- Eh. apply (lhead_spine (esize x) x (Nat.le_refl _) Hsz bp i _ Hw Hbp Hsp).
      - destruct Hf as [fty [fv [Ht Hp]]]. exists fty, fv. split; [exact Ht | lia].
      - destruct Hf as [fty [fv [Ht Hp]]]. apply (CE_stop _ _ _ fty fv Ht). lia. }
    destruct Hce as [F2 HF2]. exists (Nat.max F1 F2). unfold parseDotRHS.
    cbn [render] in Hm. apply Spell_cons in Hm as [H0 _]. rewrite (tokat_current _ _ _ H0). cbn [bind ttype tk].
    change (tok_eqb tLbrace tQuotedIdentifier || tok_eqb tLbrace tUnquotedIdentifier || tok_eqb tLbrace tStar) with false.
    change (tok_eqb tLbrace tLbracket) with false. change (tok_eqb tLbrace tLbrace) with true. cbn iota.
    destruct (match_ ts i tLbrace) as [i1| | |] eqn:Em; cbn [bind] in HF1 |- *; try discriminate.
    unfold parseMultiSelectHash in *.
    rewrite (msh_loop_mono ts (PEf F1) (PEf (Nat.max F1 F2)) (pe_le_F F1 _ (Nat.le_max_l _ _)) _ _ _ _ HF1). cbn [bind].
    change (bp_of site_parseDotRHS_continueExpression2 tUnknown bp) with bp.
    apply (CEf_mono F2 _ _ _ _ _ (Nat.le_max_r _ _) HF2).
  - (* prefix object wildcard *) eapply Direct; try reflexivity. unfold npos; rewrite Hhd; reflexivity.
Qed.


(* ---- the right-hand side of a projection ---- *)
Lemma prhs_ok r p i : (rsz r < n)%nat \/ r = RNone -> rhs_okb r p = true ->
  Spell i (rrhs r) -> follow (i + length (rrhs r)) (rlr r p) ->
  exists F, parseProjectionRHS ts (PEf F) (CEf F) p i = Ok (crhs r, (i + length (rrhs r))%nat).
Proof.
  intros Hsz Hok Hsp Hf. destruct r as [|x|x]; cbn [rrhs crhs rlr rhs_okb rsz length] in *.
  - (* nothing: the next token ends the projection *)
    destruct Hf as [fty [fv [Ht Hp]]]. exists 0%nat. unfold parseProjectionRHS. rewrite Nat.add_0_r in *.
    rewrite (tokat_current _ _ _ Ht). cbn [bind]. unfold lvl_proj_stop in Hp.
    assert (binding_power fty <? projection_stop = true) as -> by (change projection_stop with 10; lia). reflexivity.
  - (* .x *)
    destruct Hsz as [Hsz|]; [|discriminate]. bsplit. apply Spell_cons in Hsp as [Tdot Hx]. cbn [ttype tvalue tk] in Tdot.
    replace (i + S (length (render x)))%nat with (S i + nE x)%nat in * by (unfold nE; lia).
    destruct (dot_ok x p (S i) Hsz ltac:(assumption) ltac:(lia) ltac:(unfold dot_head; assumption) Hx Hf) as [F HF].
    exists F. unfold parseProjectionRHS. rewrite (tokat_current _ _ _ Tdot). cbn [bind].
    change (binding_power tDot <? projection_stop) with false. change (tok_eqb tDot tLbracket) with false.
    change (tok_eqb tDot tFilter) with false. change (tok_eqb tDot tDot) with true. cbn iota.
    rewrite (tokat_match _ _ _ Tdot). cbn [bind]. change (bp_of site_parseProjectionRHS_parseDotRHS tUnknown p) with p. exact HF.
  - (* a bracket form or a filter *)
    destruct Hsz as [Hsz|]; [|discriminate]. bsplit.
    match goal with Hw : wp x = true, Hl : (p <? lmin x) = true, Hh : _ = true |- _ =>
      rename Hw into Hwx; rename Hl into Hlx; rename Hh into Hhx end.
    assert (Hnpx : npos x = true) by (unfold npos; destruct (head x); try discriminate; reflexivity).
    destruct (PE_whole x p i Hsz Hwx Hnpx ltac:(lia) Hsp Hf) as [F HF]. exists F.
    destruct (render_lhead x) as [tl Hr]. pose proof (head_lhead x) as Hhd. pose proof (lchild_lhead x) as Hlc.
    rewrite Hhd in Hhx. rewrite Hr in Hsp. unfold parseProjectionRHS.
    destruct (lhead x) as [q name | | lv | s0 | x0 | es | kvs | fname args | x0 | [l|] i0 | [l|] a b c r | [l|] r | [l|] r
                 | [l|] c r | [l|] r | l r | l r | l r | l r | op l r] eqn:Eh; cbn [head lchild] in *; try discriminate;
      try (destruct (star_list es); discriminate).
    + destruct q; discriminate.
    + (* [i] *) cbn [render app] in Hsp. spell_facts Hsp.
      rewrite (tokat_current _ _ _ T0). cbn [bind]. change (binding_power tLbracket <? projection_stop) with false.
      change (tok_eqb tLbracket tLbracket) with true. cbn iota.
      rewrite (tokat_lookahead i 1 tNumber _ ltac:(rewrite Nat.add_1_r; exact T1)). cbn [bind].
      change (tok_eqb tNumber tNumber || tok_eqb tNumber tColon) with true. cbn iota. cbn [bind].
      change (bp_of site_parseProjectionRHS_parseExpression tUnknown p) with p. exact HF.
    + (* [a:b:c] *) cbn [render app] in Hsp. rewrite <- ?app_assoc in Hsp. cbn [app] in Hsp.
      apply Spell_cons in Hsp as [T0 Hsp]. cbn [ttype tvalue tk] in T0.
      rewrite (tokat_current _ _ _ T0). cbn [bind]. change (binding_power tLbracket <? projection_stop) with false.
      change (tok_eqb tLbracket tLbracket) with true. cbn iota.
      assert (Hnext : exists ty v, tokat (S i) ty v /\ (tok_eqb ty tNumber || tok_eqb ty tColon) = true).
      { destruct a as [za|]; cbn [opt_num app] in Hsp; apply Spell_cons in Hsp as [T1 _]; cbn [ttype tvalue tk] in T1;
          eexists _, _; (split; [exact T1 | reflexivity]). }
      destruct Hnext as [ty [v [T1 Hty]]].
      rewrite (tokat_lookahead i 1 ty v ltac:(rewrite Nat.add_1_r; exact T1)). cbn [bind]. rewrite Hty. cbn [bind].
      change (bp_of site_parseProjectionRHS_parseExpression tUnknown p) with p. exact HF.
    + (* [*] *) cbn [render app] in Hsp. spell_facts Hsp.
      rewrite (tokat_current _ _ _ T0). cbn [bind]. change (binding_power tLbracket <? projection_stop) with false.
      change (tok_eqb tLbracket tLbracket) with true. cbn iota.
      rewrite (tokat_lookahead i 1 tStar _ ltac:(rewrite Nat.add_1_r; exact T1)). cbn [bind].
      change (tok_eqb tStar tNumber || tok_eqb tStar tColon) with false. change (tok_eqb tStar tStar) with true. cbn iota.
      rewrite (tokat_lookahead i 2 tRbracket _ ltac:(replace (i + 2)%nat with (S (S i)) by lia; exact T2)). cbn [bind].
      change (tok_eqb tRbracket tRbracket) with true. cbn iota.
      change (bp_of site_parseProjectionRHS_parseExpression tUnknown p) with p. exact HF.
    + (* [?c] *) cbn [render app] in Hsp. apply Spell_cons in Hsp as [T0 _]. cbn [ttype tvalue tk] in T0.
      rewrite (tokat_current _ _ _ T0). cbn [bind]. change (binding_power tFilter <? projection_stop) with false.
      change (tok_eqb tFilter tLbracket) with false. change (tok_eqb tFilter tFilter) with true. cbn iota.
      change (bp_of site_parseProjectionRHS_parseExpression2 tUnknown p) with p. exact HF.
Qed.


(* ---- prefix forms: what nud reads ---- *)
Definition NudOk (e : expr) (i : nat) : Prop :=
  exists F t, lookaheadToken ts i 0 = Ok t /\ nud ts (PEf F) (CEf F) t (S i) = Ok (compile e, (i + nE e)%nat).

Lemma StE_of_nud e : (forall i, wp e = true -> npos e = true -> Spell i (render e) -> follow (i + nE e) (rl e) -> NudOk e i) -> StE e.
Proof.
  intros Hn bp i r Hw Hnp Hbp Hsp Hf Hce. destruct (Hn i Hw Hnp Hsp Hf) as [F [t [Hl Hnud]]].
  pose proof (render_nonempty e) as Hne. destruct (render e) as [|t0 tl] eqn:Er; [congruence|].
  apply Spell_cons in Hsp as [H0 _].
  apply (PE_nud bp i (ttype t0) (tvalue t0) (compile e) (i + nE e)%nat r H0); [|exact Hce].
  exists F, t. split; assumption.
Qed.

Lemma nud_ident q name : StE (EIdent q name).
Proof.
  apply StE_of_nud. intros i Hw Hnp Hsp Hf. unfold NudOk, nE in *. cbn [render] in *. destruct q; cbn [length] in *.
  - apply Spell_cons in Hsp as [H0 _]. cbn [ttype tvalue tk] in H0. destruct (tokat_token _ _ _ H0) as [t [T1 [T2 T3]]].
    exists 0%nat, t. split; [exact T1|]. unfold nud. rewrite T2.
    destruct Hf as [fty [fv [Ht Hp]]]. replace (i + 1)%nat with (S i) in * by lia.
    rewrite (tokat_current _ _ _ Ht). cbn [bind].
    destruct (tok_eqb fty tLparen) eqn:Efp.
    + exfalso. assert (fty = tLparen) by (destruct fty; try discriminate; reflexivity). subst.
      cbn [rl] in Hp. change (binding_power tLparen) with lvl_call in Hp. lia.
    + cbn [veq] in T3. rewrite T3. reflexivity.
  - apply Spell_cons in Hsp as [H0 _]. cbn [ttype tvalue tk] in H0. destruct (tokat_token _ _ _ H0) as [t [T1 [T2 T3]]].
    cbn [veq] in T3. exists 0%nat, t. split; [exact T1|]. unfold nud. rewrite T2, T3. replace (i + 1)%nat with (S i) by lia. reflexivity.
Qed.

Lemma nud_current : StE ECurrent.
Proof.
  apply StE_of_nud. intros i Hw Hnp Hsp Hf. unfold NudOk, nE in *. cbn [render length] in *.
  apply Spell_cons in Hsp as [H0 _]. cbn [ttype tvalue tk] in H0. destruct (tokat_token _ _ _ H0) as [t [T1 [T2 T3]]].
  exists 0%nat, t. split; [exact T1|]. unfold nud. rewrite T2. replace (i + 1)%nat with (S i) by lia. reflexivity.
Qed.

Lemma nud_lit v : StE (ELit v).
Proof.
  apply StE_of_nud. intros i Hw Hnp Hsp Hf. unfold NudOk, nE in *. cbn [render length wp] in *.
  apply Spell_cons in Hsp as [H0 _]. cbn [ttype tvalue tk] in H0. destruct (tokat_token _ _ _ H0) as [t [T1 [T2 T3]]].
  cbn [veq] in T3. destruct T3 as [T3 T4]. destruct (lit_ok v) as [E|[E _]]; [|congruence].
  exists 0%nat, t. split; [exact T1|]. unfold nud. rewrite T2, T3, E. replace (i + 1)%nat with (S i) by lia. reflexivity.
Qed.

Lemma nud_raw s0 : StE (ERaw s0).
Proof.
  apply StE_of_nud. intros i Hw Hnp Hsp Hf. unfold NudOk, nE in *. cbn [render length] in *.
  apply Spell_cons in Hsp as [H0 _]. cbn [ttype tvalue tk] in H0. destruct (tokat_token _ _ _ H0) as [t [T1 [T2 T3]]].
  exists 0%nat, t. split; [exact T1|]. unfold nud. rewrite T2, T3. replace (i + 1)%nat with (S i) by lia. reflexivity.
Qed.

Lemma nud_paren x : (esize x < n)%nat -> StE (EParen x).
Proof.
  intros Hsz. apply StE_of_nud. intros i Hw _ Hsp Hf. unfold NudOk, nE in *. cbn [render wp] in *.
  apply andb_true_iff in Hw as [Hw Hnp].
  apply Spell_cons in Hsp as [H0 Hsp]. cbn [ttype tvalue tk] in H0. destruct (tokat_token _ _ _ H0) as [t [T1 [T2 T3]]].
  apply Spell_app in Hsp as [Hx Hrp]. apply Spell_cons in Hrp as [Hrp _]. cbn [ttype tvalue tk] in Hrp.
  destruct (PE_whole x 0 (S i) Hsz Hw Hnp (lmin_pos x) Hx (follow_close _ _ _ x Hrp eq_refl)) as [F HF].
  exists F, t. split; [exact T1|]. unfold nud. rewrite T2.
  change (bp_of site_nud_tLparen_parseExpression tUnknown 0) with 0. rewrite HF. cbn [bind].
  unfold nE. rewrite (tokat_match _ _ _ Hrp). cbn [bind compile length]. rewrite app_length. cbn [length]. f_equal. f_equal. lia.
Qed.

Lemma nud_not x : (esize x < n)%nat -> StE (ENot x).
Proof.
  intros Hsz. apply StE_of_nud. intros i Hw _ Hsp Hf. unfold NudOk, nE in *. cbn [render wp rl] in *. bsplit.
  apply Spell_cons in Hsp as [Hb Hx]. cbn [ttype tvalue tk] in Hb. destruct (tokat_token _ _ _ Hb) as [t [T1 [T2 T3]]].
  cbn [length] in Hf. replace (i + S (length (render x)))%nat with (S i + nE x)%nat in Hf by (unfold nE; lia).
  destruct (PE_whole x (binding_power tNot) (S i) Hsz ltac:(assumption) ltac:(assumption) ltac:(change (binding_power tNot) with lvl_not; lia) Hx Hf) as [F HF].
  exists F, t. split; [exact T1|]. unfold nud. rewrite T2.
  change (bp_of site_nud_tNot_parseExpression tUnknown 0) with (binding_power tNot). rewrite HF. cbn [bind compile length].
  unfold nE. f_equal. f_equal. lia.
Qed.


(* ---- filters ---- *)
Lemma filter_ok lnode c r i :
  (esize c < n)%nat -> ((rsz r < n)%nat \/ r = RNone) -> wp c = true -> npos c = true -> rhs_okb r lvl_filter = true ->
  Spell i (render c ++ [tk tRbracket (str "]")] ++ rrhs r) ->
  follow (i + length (render c ++ [tk tRbracket (str "]")] ++ rrhs r)) (rlr r lvl_filter) ->
  exists F, parseFilter ts (PEf F) (CEf F) lnode i =
            Ok (mk ASTFilterProjection NVNone [lnode; crhs r; compile c],
                (i + length (render c ++ [tk tRbracket (str "]")] ++ rrhs r))%nat).
Proof.
  intros Hsc Hsr Hwc Hnc Hok Hsp Hf.
  apply Spell_app in Hsp as [Hc Hsp]. cbn [app] in Hsp. apply Spell_cons in Hsp as [Hrb Hr]. cbn [ttype tvalue tk] in Hrb.
  destruct (PE_whole c 0 i Hsc Hwc Hnc (lmin_pos c) Hc (follow_close _ _ _ c Hrb eq_refl)) as [F1 HF1]. unfold nE in *.
  set (j := S (i + length (render c))) in *.
  assert (Hend : (i + length (render c ++ [tk tRbracket (str "]")] ++ rrhs r))%nat = (j + length (rrhs r))%nat).
  { rewrite !app_length. cbn [length]. unfold j. lia. }
  rewrite Hend in *. clear Hend.
  pose proof (rrhs_first r lvl_filter Hok) as Hfirst.
  destruct (rrhs r) as [|t0 tl] eqn:Err.
  - (* no right-hand side *)
    subst r. cbn [rlr crhs length] in *. destruct Hf as [fty [fv [Ht Hp]]]. rewrite Nat.add_0_r in *.
    exists F1. unfold parseFilter. change (bp_of site_parseFilter_parseExpression tUnknown 0) with 0. rewrite HF1. cbn [bind].
    rewrite (tokat_match _ _ _ Hrb). cbn [bind]. fold j. rewrite (tokat_current _ _ _ Ht). cbn [bind].
    destruct (tok_eqb fty tFlatten); [reflexivity|].
    unfold parseProjectionRHS. rewrite (tokat_current _ _ _ Ht). cbn [bind]. unfold lvl_proj_stop in Hp.
    assert (binding_power fty <? projection_stop = true) as -> by (change projection_stop with 10; lia). reflexivity.
  - rewrite <- Err in *.
    destruct (prhs_ok r lvl_filter j Hsr Hok Hr Hf) as [F2 HF2].
    exists (Nat.max F1 F2). unfold parseFilter. change (bp_of site_parseFilter_parseExpression tUnknown 0) with 0.
    rewrite (PEf_mono F1 _ _ _ _ (Nat.le_max_l _ _) HF1). cbn [bind].
    rewrite (tokat_match _ _ _ Hrb). cbn [bind]. fold j.
    rewrite Err in Hr. apply Spell_cons in Hr as [T0 _]. rewrite (tokat_current _ _ _ T0). cbn [bind].
    assert (tok_eqb (ttype t0) tFlatten = false) as -> by (destruct Hfirst as [->|[->| ->]]; reflexivity).
    change (bp_of site_parseFilter_parseProjectionRHS tUnknown 0) with lvl_filter.
    rewrite (parseProjectionRHS_mono ts (PEf F2) (PEf (Nat.max F1 F2)) (CEf F2) (CEf (Nat.max F1 F2))
               (pe_le_F _ _ (Nat.le_max_r _ _)) (ce_le_F _ _ (Nat.le_max_r _ _)) _ _ _ HF2). reflexivity.
Qed.


(* ---- bracket forms after "[" ---- *)
Lemma index_tail lnode i z : in_int64 z = true ->
  Spell i [tk tNumber (int_text z); tk tRbracket (str "]")] ->
  ('(rgt, i1) <- parseIndexExpression ts i ;; projectIfSlice ts (PEf 0) (CEf 0) lnode rgt i1) =
  Ok (N0 ASTIndexExpression [lnode; Node ASTIndex (NVInt z) []], S (S i)).
Proof. intros Hz H. rewrite (parse_index i z Hz H). reflexivity. Qed.

Lemma slice_tail lnode i a b c r :
  opt_int64 a = true -> opt_int64 b = true -> opt_int64 (cjoin c) = true ->
  ((rsz r < n)%nat \/ r = RNone) -> rhs_okb r lvl_star = true ->
  Spell i (slice_tokens a b c ++ rrhs r) ->
  follow (i + length (slice_tokens a b c ++ rrhs r)) (rlr r lvl_star) ->
  exists F, ('(rgt, i1) <- parseIndexExpression ts i ;; projectIfSlice ts (PEf F) (CEf F) lnode rgt i1) =
            Ok (N0 ASTProjection [N0 ASTIndexExpression [lnode; Node ASTSlice (NVSlice a b (cjoin c)) []]; crhs r],
                (i + length (slice_tokens a b c ++ rrhs r))%nat).
Proof.
  intros Ha Hb Hc Hsr Hok Hsp Hf. apply Spell_app in Hsp as [Hs Hr]. rewrite app_length, Nat.add_assoc in *.
  destruct (prhs_ok r lvl_star _ Hsr Hok Hr Hf) as [F HF]. exists F.
  rewrite (parse_slice i a b c Ha Hb Hc Hs). cbn [bind]. unfold projectIfSlice. cbn [node_type]. change (ast_eqb ASTSlice ASTSlice) with true. cbn iota.
  change (bp_of site_projectIfSlice_parseProjectionRHS tUnknown 0) with lvl_star. rewrite HF. reflexivity.
Qed.

Lemma nud_index z : StE (EIndex None z).
Proof.
  apply StE_of_nud. intros i Hw Hnp Hsp Hf. unfold NudOk, nE in *. cbn [render wp app] in *.
  spell_facts Hsp. destruct (tokat_token _ _ _ T0) as [t [L1 [L2 L3]]].
  exists 0%nat, t. split; [exact L1|]. unfold nud. rewrite L2. rewrite (tokat_current _ _ _ T1). cbn [bind].
  change (tok_eqb tNumber tNumber || tok_eqb tNumber tColon) with true. cbn iota.
  assert (Hs2 : Spell (S i) [tk tNumber (int_text z); tk tRbracket (str "]")]).
  { apply Spell_cons in Hsp as [_ Hsp]. exact Hsp. }
  rewrite (index_tail identity_node (S i) z Hw Hs2). cbn [length compile]. f_equal. f_equal. lia.
Qed.

Lemma nud_slice a b c r : ((rsz r < n)%nat \/ r = RNone) -> StE (ESlice None a b c r).
Proof.
  intros Hsr. apply StE_of_nud. intros i Hw Hnp Hsp Hf. unfold NudOk, nE in *. rewrite render_slice in *. cbn [olhs app] in *.
  cbn [wp rl] in *. rewrite rhs_okb_of in Hw. rewrite rlr_of in Hf. bsplit. cbn [length] in *.
  apply Spell_cons in Hsp as [T0 Hsp]. cbn [ttype tvalue tk] in T0. destruct (tokat_token _ _ _ T0) as [t [L1 [L2 L3]]].
  replace (i + S (length (slice_tokens a b c ++ rrhs r)))%nat with (S i + length (slice_tokens a b c ++ rrhs r))%nat in * by lia.
  destruct (slice_tail identity_node (S i) a b c r ltac:(assumption) ltac:(assumption) ltac:(assumption) Hsr
                       ltac:(assumption) Hsp Hf) as [F HF].
  exists F, t. split; [exact L1|]. unfold nud. rewrite L2.
  assert (Hc : exists ty v, tokat (S i) ty v /\ (tok_eqb ty tNumber || tok_eqb ty tColon) = true).
  { unfold slice_tokens in Hsp. destruct a as [za|]; cbn [opt_num app] in Hsp; apply Spell_cons in Hsp as [T1 _];
      cbn [ttype tvalue tk] in T1; eexists _, _; (split; [exact T1 | reflexivity]). }
  destruct Hc as [ty [v [T1 Hty]]]. rewrite (tokat_current _ _ _ T1). cbn [bind]. rewrite Hty. exact HF.
Qed.


Lemma nud_listproj r : ((rsz r < n)%nat \/ r = RNone) -> StE (EListProj None r).
Proof.
  intros Hsr. apply StE_of_nud. intros i Hw Hnp Hsp Hf. unfold NudOk, nE in *. rewrite render_listproj in *. cbn [olhs app] in *.
  cbn [wp rl] in *. rewrite rhs_okb_of in Hw. rewrite rlr_of in Hf. cbn [length andb] in *.
  apply Spell_cons in Hsp as [T0 Hsp]. apply Spell_cons in Hsp as [T1 Hsp]. apply Spell_cons in Hsp as [T2 Hsp].
  cbn [ttype tvalue tk] in *. destruct (tokat_token _ _ _ T0) as [t [L1 [L2 L3]]].
  replace (i + S (S (S (length (rrhs r)))))%nat with (S (S (S i)) + length (rrhs r))%nat in * by lia.
  destruct (prhs_ok r lvl_star _ Hsr Hw Hsp Hf) as [F HF].
  exists F, t. split; [exact L1|]. unfold nud. rewrite L2. rewrite (tokat_current _ _ _ T1). cbn [bind].
  change (tok_eqb tStar tNumber || tok_eqb tStar tColon) with false. change (tok_eqb tStar tStar) with true. cbn iota.
  rewrite (tokat_lookahead (S i) 1 tRbracket _ ltac:(rewrite Nat.add_1_r; exact T2)). cbn [bind].
  change (tok_eqb tRbracket tRbracket) with true. cbn iota.
  change (bp_of site_nud_tLbracket_parseProjectionRHS tUnknown 0) with lvl_star. rewrite HF. reflexivity.
Qed.

Lemma nud_flatten r : ((rsz r < n)%nat \/ r = RNone) -> StE (EFlatten None r).
Proof.
  intros Hsr. apply StE_of_nud. intros i Hw Hnp Hsp Hf. unfold NudOk, nE in *. rewrite render_flatten in *. cbn [olhs app] in *.
  cbn [wp rl] in *. rewrite rhs_okb_of in Hw. rewrite rlr_of in Hf. cbn [length andb] in *.
  apply Spell_cons in Hsp as [T0 Hsp]. cbn [ttype tvalue tk] in *. destruct (tokat_token _ _ _ T0) as [t [L1 [L2 L3]]].
  replace (i + S (length (rrhs r)))%nat with (S i + length (rrhs r))%nat in * by lia.
  destruct (prhs_ok r lvl_flatten _ Hsr Hw Hsp Hf) as [F HF].
  exists F, t. split; [exact L1|]. unfold nud. rewrite L2.
  change (bp_of site_nud_tFlatten_parseProjectionRHS tUnknown 0) with lvl_flatten. rewrite HF. reflexivity.
Qed.

Lemma nud_filter c r : (esize c < n)%nat -> ((rsz r < n)%nat \/ r = RNone) -> StE (EFilter None c r).
Proof.
  intros Hsc Hsr. apply StE_of_nud. intros i Hw Hnp Hsp Hf. unfold NudOk, nE in *. rewrite render_filter in *. cbn [olhs] in *. rewrite ?app_nil_l in *.
  cbn [wp rl] in *. rewrite rhs_okb_of in Hw. rewrite rlr_of in Hf. bsplit. cbn [length] in *.
  apply Spell_cons in Hsp as [T0 Hsp]. cbn [ttype tvalue tk] in *. destruct (tokat_token _ _ _ T0) as [t [L1 [L2 L3]]].
  replace (i + S (length (render c ++ [tk tRbracket (str "]")] ++ rrhs r)))%nat
    with (S i + length (render c ++ [tk tRbracket (str "]")] ++ rrhs r))%nat in * by lia.
  destruct (filter_ok identity_node c r (S i) Hsc Hsr ltac:(assumption) ltac:(assumption) ltac:(assumption) Hsp Hf) as [F HF].
  exists F, t. split; [exact L1|]. unfold nud. rewrite L2. rewrite HF. reflexivity.
Qed.

Lemma nud_valproj r : ((rsz r < n)%nat \/ r = RNone) -> StE (EValProj None r).
Proof.
  intros Hsr. apply StE_of_nud. intros i Hw Hnp Hsp Hf. unfold NudOk, nE in *. rewrite render_valproj_none in *.
  cbn [wp rl] in *. rewrite rhs_okb_of in Hw. rewrite rlr_of in Hf. cbn [length andb] in *.
  apply Spell_cons in Hsp as [T0 Hsp]. cbn [ttype tvalue tk] in *. destruct (tokat_token _ _ _ T0) as [t [L1 [L2 L3]]].
  replace (i + S (length (rrhs r)))%nat with (S i + length (rrhs r))%nat in * by lia.
  destruct (prhs_ok r lvl_star _ Hsr Hw Hsp Hf) as [F HF].
  exists F, t. split; [exact L1|]. unfold nud. rewrite L2.
  pose proof (rrhs_first r lvl_star Hw) as Hfirst.
  destruct (rrhs r) as [|t0 tl] eqn:Err.
  - subst r. cbn [crhs rlr length] in *. destruct Hf as [fty [fv [Ht Hp]]]. rewrite Nat.add_0_r in *.
    rewrite (tokat_current _ _ _ Ht). cbn [bind]. destruct (tok_eqb fty tRbracket); [reflexivity|].
    change (bp_of site_nud_tStar_parseProjectionRHS tUnknown 0) with lvl_star. rewrite HF. reflexivity.
  - apply Spell_cons in Hsp as [T1 _]. rewrite (tokat_current _ _ _ T1). cbn [bind].
    assert (tok_eqb (ttype t0) tRbracket = false) as -> by (destruct Hfirst as [->|[->| ->]]; reflexivity).
    change (bp_of site_nud_tStar_parseProjectionRHS tUnknown 0) with lvl_star. rewrite HF. reflexivity.
Qed.

Lemma nud_mshash kvs : (esize (EMSHash kvs) <= n)%nat -> StE (EMSHash kvs).
Proof.
  intros Hsz. apply StE_of_nud. intros i Hw Hnp Hsp Hf. unfold NudOk.
  assert (Hopen : tokat i tLbrace (str "{")) by (cbn [render] in Hsp; apply Spell_cons in Hsp as [T0 _]; exact T0).
  destruct (tokat_token _ _ _ Hopen) as [t [L1 [L2 L3]]].
  cbn [wp] in Hw. bsplit.
  assert (Hne : kvs <> []) by (destruct kvs; [discriminate | discriminate]).
  assert (Hall : forall kv, In kv kvs -> (esize (snd kv) < n)%nat /\ wp (snd kv) = true /\ npos (snd kv) = true).
  { intros kv Hx. split; [pose proof (esize_in_kvs kv kvs Hx); cbn [esize] in Hsz; lia|].
    match goal with Hfa : forallb _ kvs = true |- _ => rewrite forallb_forall in Hfa; specialize (Hfa kv Hx); apply andb_true_iff in Hfa; exact Hfa end. }
  cbn [render] in Hsp. apply Spell_cons in Hsp as [_ Hsp].
  change (map (fun kv : bool * bytes * expr =>
                 tk (if fst (fst kv) then tQuotedIdentifier else tUnquotedIdentifier) (snd (fst kv))
                 :: tk tColon (str ":") :: render (snd kv)) kvs) with (map kv_tokens kvs) in Hsp.
  assert (Hlen : (length kvs <= S (length ts))%nat).
  { pose proof (sep_by_length kv_tokens [tk tComma (str ",")] kvs ltac:(intros x; discriminate)) as L.
    pose proof (fun Hn => Spell_length (S i) _ Hn Hsp) as Lb.
    specialize (Lb ltac:(intros Hx; apply app_eq_nil in Hx; destruct Hx as [_ Hx]; discriminate Hx)).
    rewrite app_length in Lb. lia. }
  destruct (msh_ok kvs [] (S i) (S (length ts)) Hne Hall Hsp Hlen) as [F HF].
  exists F, t. split; [exact L1|]. unfold nud. rewrite L2. unfold parseMultiSelectHash. rewrite HF.
  cbn [rev app compile]. unfold nE. cbn [render length].
  change (map (fun kv : bool * bytes * expr =>
                 tk (if fst (fst kv) then tQuotedIdentifier else tUnquotedIdentifier) (snd (fst kv))
                 :: tk tColon (str ":") :: render (snd kv)) kvs) with (map kv_tokens kvs).
  f_equal. f_equal. lia.
Qed.


Lemma nud_mslist es : (esize (EMSList es) <= n)%nat -> StE (EMSList es).
Proof.
  intros Hsz. apply StE_of_nud. intros i Hw Hnp Hsp Hf. unfold NudOk.
  assert (Hopen : tokat i tLbracket (str "[")) by (cbn [render] in Hsp; apply Spell_cons in Hsp as [T0 _]; exact T0).
  destruct (tokat_token _ _ _ Hopen) as [t [L1 [L2 L3]]].
  cbn [wp] in Hw. bsplit.
  match goal with Hx : negb _ = true |- _ => rename Hx into Hshape end.
  match goal with Hx : forallb _ es = true |- _ => rename Hx into Hwes end.
  assert (Hne : es <> []) by (destruct es; [discriminate | discriminate]).
  assert (Hall : forall x, In x es -> (esize x < n)%nat /\ wp x = true /\ npos x = true).
  { intros x Hx. split; [pose proof (esize_in_list x es Hx); cbn [esize] in Hsz; lia|].
    rewrite forallb_forall in Hwes. specialize (Hwes x Hx). apply andb_true_iff in Hwes. exact Hwes. }
  cbn [render] in Hsp. apply Spell_cons in Hsp as [_ Hsp].
  assert (Hlen : (length es <= S (length ts))%nat).
  { pose proof (sep_by_length render [tk tComma (str ",")] es render_nonempty) as L.
    pose proof (fun Hn => Spell_length (S i) _ Hn Hsp) as Lb.
    specialize (Lb ltac:(intros Hx; apply app_eq_nil in Hx; destruct Hx as [_ Hx]; discriminate Hx)).
    rewrite app_length in Lb. lia. }
  destruct (msl_ok es [] (S i) (S (length ts)) Hne Hall Hsp Hlen) as [F HF].
  exists F, t. split; [exact L1|]. unfold nud. rewrite L2.
  (* the first token of the first element decides that this is a multi-select *)
  destruct es as [|e1 rest]; [congruence|].
  pose proof (render_starter e1) as Hst. destruct (render e1) as [|t1 tl1] eqn:Er1; [contradiction|].
  assert (T1 : tokat (S i) (ttype t1) (tvalue t1)).
  { cbn [map sep_by] in Hsp. destruct (map render rest); rewrite Er1 in Hsp; cbn [app] in Hsp; apply Spell_cons in Hsp as [T _]; exact T. }
  rewrite (tokat_current _ _ _ T1). cbn [bind].
  assert (Hnum : (tok_eqb (ttype t1) tNumber || tok_eqb (ttype t1) tColon) = false) by (destruct (ttype t1); try discriminate; reflexivity).
  rewrite Hnum.
  destruct (tok_eqb (ttype t1) tStar) eqn:Estar.
  - (* "*": the token after it is not "]" *)
    assert (Hty : ttype t1 = tStar) by (destruct (ttype t1); try discriminate; reflexivity).
    assert (Hw1 : wp e1 = true) by (apply (Hall e1 (or_introl eq_refl))).
    assert (Hnext : exists ty v, tokat (S (S i)) ty v /\ ty <> tRbracket).
    { destruct (after_star e1 t1 tl1 Er1 Hty Hw1) as [[He1 Htl]|[t2 [tl' [Htl [Hn1 Hn2]]]]].
      - subst e1 tl1. destruct rest as [|e2 rest'].
        + unfold npos in Hnp. cbn in Hnp. discriminate.
        + cbn [map sep_by] in Hsp. rewrite Er1 in Hsp. cbn [app] in Hsp.
          apply Spell_cons in Hsp as [_ Hsp]. apply Spell_cons in Hsp as [T2 _]. cbn [ttype tvalue tk] in T2.
          eexists _, _. split; [exact T2 | discriminate].
      - subst tl1. cbn [map sep_by] in Hsp. destruct (map render rest); rewrite Er1 in Hsp; cbn [app] in Hsp;
          apply Spell_cons in Hsp as [_ Hsp]; apply Spell_cons in Hsp as [T2 _]; eexists _, _; (split; [exact T2 | exact Hn1]). }
    destruct Hnext as [ty [v [T2 Hnr]]].
    rewrite (tokat_lookahead (S i) 1 ty v ltac:(rewrite Nat.add_1_r; exact T2)). cbn [bind].
    assert (tok_eqb ty tRbracket = false) as -> by (destruct ty; try reflexivity; congruence). cbn iota.
    unfold parseMultiSelectList. rewrite HF. cbn [rev app compile]. unfold nE. cbn [render length]. f_equal. f_equal. lia.
  - cbn [bind]. unfold parseMultiSelectList. rewrite HF. cbn [rev app compile]. unfold nE. cbn [render length]. f_equal. f_equal. lia.
Qed.


(* ---- infix and postfix forms: what led reads ---- *)
Definition LedOk (e l : expr) (i : nat) : Prop :=
  exists F ty v, tokat (i + nE l) ty v /\ lmin e <= binding_power ty /\
                 led ts (PEf F) (CEf F) ty (compile l) (S (i + nE l)) = Ok (compile e, (i + nE e)%nat).

Lemma StStep_of_led e l : lchild e = Some l ->
  (forall i, wp e = true -> Spell i (render e) -> follow (i + nE e) (rl e) -> LedOk e l i) -> StStep e.
Proof.
  intros Hl Hled l' Hl' bp i r Hw Hbp Hsp Hf Hce. rewrite Hl in Hl'. inversion Hl'; subst l'.
  destruct (Hled i Hw Hsp Hf) as [F [ty [v [Ht [Hlm Hl2]]]]].
  apply (CE_step (compile l) bp (i + nE l) ty v (compile e) (i + nE e)%nat r Ht ltac:(lia)); [|exact Hce].
  exists F. exact Hl2.
Qed.

(* binary operators whose right operand is read by parseExpression at the operator's own level *)
Lemma led_binary (mkE : expr -> expr -> expr) (ty : tokType) (txt : bytes) (lvl : Z) (nd : astNodeType) (nv : nodeval) :
  (forall l r, lchild (mkE l r) = Some l) ->
  (forall l r, render (mkE l r) = render l ++ [tk ty txt] ++ render r) ->
  (forall l r, compile (mkE l r) = Node nd nv [compile l; compile r]) ->
  (forall l r, wp (mkE l r) = true -> wp r = true /\ npos r = true /\ lvl < lmin r) ->
  (forall l r, rl (mkE l r) = Z.min lvl (rl r)) ->
  (forall l r, lmin (mkE l r) <= lvl) ->
  binding_power ty = lvl ->
  (forall F n0 i, led ts (PEf F) (CEf F) ty n0 i =
                  ('(rgt, i1) <- PEf F lvl i ;; Ok (Node nd nv [n0; rgt], i1))) ->
  forall l r, (esize r < n)%nat -> StStep (mkE l r).
Proof.
  intros Hlc Hrd Hcp Hwp Hrl Hlm Hbp Hled l r Hsz. apply (StStep_of_led _ l (Hlc l r)). intros i Hw Hsp Hf.
  destruct (Hwp l r Hw) as [Hwr [Hnr Hlr]]. unfold LedOk, nE in *. rewrite Hrd in *.
  assert (Hend : (i + length (render l ++ [tk ty txt] ++ render r))%nat = (S (i + length (render l)) + length (render r))%nat).
  { rewrite !app_length. cbn [length]. lia. }
  rewrite Hend in *. clear Hend.
  apply Spell_app in Hsp as [_ Hsp]. cbn [app] in Hsp. apply Spell_cons in Hsp as [Top Hr]. cbn [ttype tvalue tk] in Top.
  rewrite Hrl in Hf.
  destruct (PE_whole r lvl (S (i + length (render l))) Hsz Hwr Hnr Hlr Hr Hf) as [F HF].
  exists F, ty, txt. split; [exact Top|]. split; [rewrite Hbp; apply Hlm|].
  rewrite Hled. unfold nE in HF. rewrite HF. cbn [bind]. rewrite Hcp. reflexivity.
Qed.


Lemma step_pipe l r : (esize r < n)%nat -> StStep (EPipe l r).
Proof.
  apply (led_binary EPipe tPipe (str "|") lvl_pipe ASTPipe NVNone); try reflexivity.
  - intros l0 r0 H. cbn [wp] in H. bsplit. split; [assumption | split; [assumption | lia]].
  - intros l0 r0. cbn [lmin]. lia.
Qed.
Lemma step_or l r : (esize r < n)%nat -> StStep (EOr l r).
Proof.
  apply (led_binary EOr tOr (str "||") lvl_or ASTOrExpression NVNone); try reflexivity.
  - intros l0 r0 H. cbn [wp] in H. bsplit. split; [assumption | split; [assumption | lia]].
  - intros l0 r0. cbn [lmin]. lia.
Qed.
Lemma step_and l r : (esize r < n)%nat -> StStep (EAnd l r).
Proof.
  apply (led_binary EAnd tAnd (str "&&") lvl_and ASTAndExpression NVNone); try reflexivity.
  - intros l0 r0 H. cbn [wp] in H. bsplit. split; [assumption | split; [assumption | lia]].
  - intros l0 r0. cbn [lmin]. lia.
Qed.
Lemma step_cmp op l r : (esize r < n)%nat -> StStep (ECmp op l r).
Proof.
  apply (led_binary (ECmp op) (cmp_tok op)
           (match op with CmpEQ => str "==" | CmpNE => str "!=" | CmpLT => str "<" | CmpLE => str "<=" | CmpGT => str ">" | CmpGE => str ">=" end)
           lvl_cmp ASTComparator (NVTok (cmp_tok op))); try reflexivity.
  - intros l0 r0 H. cbn [wp] in H. bsplit. split; [assumption | split; [assumption | lia]].
  - intros l0 r0. cbn [lmin]. lia.
  - destruct op; reflexivity.
  - intros F n0 i. destruct op; reflexivity.
Qed.

Lemma step_sub l r : (esize r < n)%nat -> StStep (ESub l r).
Proof.
  intros Hsz. apply (StStep_of_led (ESub l r) l eq_refl). intros i Hw Hsp Hf. unfold LedOk, nE in *. cbn [render wp rl] in *. bsplit.
  assert (Hend : (i + length (render l ++ [tk tDot (str ".")] ++ render r))%nat = (S (i + length (render l)) + length (render r))%nat).
  { rewrite !app_length. cbn [length]. lia. }
  rewrite Hend in *. clear Hend.
  apply Spell_app in Hsp as [_ Hsp]. cbn [app] in Hsp. apply Spell_cons in Hsp as [Top Hr]. cbn [ttype tvalue tk] in Top.
  match goal with Hh : match head r with _ => _ end = true |- _ => rename Hh into Hhead end.
  assert (Hdh : dot_head r = true) by (unfold dot_head; destruct (head r); try discriminate; reflexivity).
  destruct (dot_ok r lvl_dot (S (i + length (render l))) Hsz ltac:(assumption) ltac:(lia) Hdh Hr Hf) as [F HF].
  exists F, tDot, (str "."). split; [exact Top|]. split; [cbn [lmin]; change (binding_power tDot) with lvl_dot; lia|].
  unfold led.
  (* the token after the dot is not "*" *)
  pose proof (render_starter r) as Hst. destruct (render r) as [|t0 tl] eqn:Err; [contradiction|].
  apply Spell_cons in Hr as [T0 _]. rewrite (tokat_current _ _ _ T0). cbn [bind].
  assert (Hns : tok_eqb (ttype t0) tStar = false).
  { destruct (tok_eqb (ttype t0) tStar) eqn:Es; [|reflexivity]. exfalso.
    assert (Hty : ttype t0 = tStar) by (destruct (ttype t0); try discriminate; reflexivity).
    (* r would start with the object wildcard: its head is HStar *)
    destruct (render_lhead r) as [tl0 Hl]. pose proof (head_lhead r) as Hhd. pose proof (lchild_lhead r) as Hlc.
    rewrite Hhd in Hhead. rewrite Hl in Err.
    destruct (lhead r) as [q name | | lv | s0 | x0 | es | kvs | fname args | x0 | [l1|] i0 | [l1|] a b c r1 | [l1|] r1 | [l1|] r1
                 | [l1|] c r1 | [l1|] r1 | l1 r1 | l1 r1 | l1 r1 | l1 r1 | op l1 r1]; cbn [lchild head] in *; try discriminate;
      cbn [render app] in Err; try (destruct q); inversion Err; subst t0; discriminate Hty. }
  rewrite Hns. cbn [negb]. change (bp_of site_led_tDot_parseDotRHS tDot 0) with lvl_dot.
  unfold nE in HF. rewrite Err in HF. rewrite HF. reflexivity.
Qed.


Lemma step_index l z : StStep (EIndex (Some l) z).
Proof.
  apply (StStep_of_led (EIndex (Some l) z) l eq_refl). intros i Hw Hsp Hf. unfold LedOk, nE in *.
  rewrite render_index in *. cbn [olhs wp] in *. bsplit.
  apply Spell_app in Hsp as [_ Hsp]. assert (Hsp0 := Hsp). spell_facts Hsp.
  exists 0%nat, tLbracket, (str "["). split; [exact T0|]. split; [cbn [lmin]; change (binding_power tLbracket) with lvl_bracket; lia|].
  unfold led. rewrite (tokat_current _ _ _ T1). cbn [bind].
  change (tok_eqb tNumber tNumber || tok_eqb tNumber tColon) with true. cbn iota.
  apply Spell_cons in Hsp0 as [_ Hsp0].
  rewrite (index_tail (compile l) (S (i + length (render l))) z ltac:(assumption) Hsp0). cbn [compile]. f_equal. f_equal.
  rewrite app_length. cbn [length]. lia.
Qed.

Lemma step_slice l a b c r : ((rsz r < n)%nat \/ r = RNone) -> StStep (ESlice (Some l) a b c r).
Proof.
  intros Hsr. apply (StStep_of_led (ESlice (Some l) a b c r) l eq_refl). intros i Hw Hsp Hf. unfold LedOk, nE in *.
  rewrite render_slice in *. cbn [olhs] in *. cbn [wp rl] in *. rewrite rhs_okb_of in Hw. rewrite rlr_of in Hf. bsplit.
  assert (Hend : (i + length (render l ++ tk tLbracket (str "[") :: slice_tokens a b c ++ rrhs r))%nat =
                 (S (i + length (render l)) + length (slice_tokens a b c ++ rrhs r))%nat).
  { rewrite app_length. cbn [length]. lia. }
  rewrite Hend in *. clear Hend.
  apply Spell_app in Hsp as [_ Hsp]. apply Spell_cons in Hsp as [T0 Hsp]. cbn [ttype tvalue tk] in T0.
  destruct (slice_tail (compile l) (S (i + length (render l))) a b c r ltac:(assumption) ltac:(assumption) ltac:(assumption) Hsr
                       ltac:(assumption) Hsp Hf) as [F HF].
  exists F, tLbracket, (str "["). split; [exact T0|]. split; [cbn [lmin]; change (binding_power tLbracket) with lvl_bracket; lia|].
  unfold led.
  assert (Hc : exists ty v, tokat (S (i + length (render l))) ty v /\ (tok_eqb ty tNumber || tok_eqb ty tColon) = true).
  { unfold slice_tokens in Hsp. destruct a as [za|]; cbn [opt_num app] in Hsp; apply Spell_cons in Hsp as [T1 _];
      cbn [ttype tvalue tk] in T1; eexists _, _; (split; [exact T1 | reflexivity]). }
  destruct Hc as [ty [v [T1 Hty]]]. rewrite (tokat_current _ _ _ T1). cbn [bind]. rewrite Hty. exact HF.
Qed.

Lemma step_listproj l r : ((rsz r < n)%nat \/ r = RNone) -> StStep (EListProj (Some l) r).
Proof.
  intros Hsr. apply (StStep_of_led (EListProj (Some l) r) l eq_refl). intros i Hw Hsp Hf. unfold LedOk, nE in *.
  rewrite render_listproj in *. cbn [olhs] in *. cbn [wp rl] in *. rewrite rhs_okb_of in Hw. rewrite rlr_of in Hf. bsplit.
  assert (Hend : (i + length (render l ++ tk tLbracket (str "[") :: tk tStar (str "*") :: tk tRbracket (str "]") :: rrhs r))%nat =
                 (S (S (S (i + length (render l)))) + length (rrhs r))%nat).
  { rewrite app_length. cbn [length]. lia. }
  rewrite Hend in *. clear Hend.
  apply Spell_app in Hsp as [_ Hsp]. apply Spell_cons in Hsp as [T0 Hsp]. apply Spell_cons in Hsp as [T1 Hsp].
  apply Spell_cons in Hsp as [T2 Hsp]. cbn [ttype tvalue tk] in *.
  destruct (prhs_ok r lvl_star _ Hsr ltac:(assumption) Hsp Hf) as [F HF].
  exists F, tLbracket, (str "["). split; [exact T0|]. split; [cbn [lmin]; change (binding_power tLbracket) with lvl_bracket; lia|].
  unfold led. rewrite (tokat_current _ _ _ T1). cbn [bind].
  change (tok_eqb tStar tNumber || tok_eqb tStar tColon) with false. cbn iota.
  rewrite (tokat_match _ _ _ T1). cbn [bind]. rewrite (tokat_match _ _ _ T2). cbn [bind].
  change (bp_of site_led_tLbracket_parseProjectionRHS tLbracket 0) with lvl_star. rewrite HF. reflexivity.
Qed.

Lemma step_flatten l r : ((rsz r < n)%nat \/ r = RNone) -> StStep (EFlatten (Some l) r).
Proof.
  intros Hsr. apply (StStep_of_led (EFlatten (Some l) r) l eq_refl). intros i Hw Hsp Hf. unfold LedOk, nE in *.
  rewrite render_flatten in *. cbn [olhs] in *. cbn [wp rl] in *. rewrite rhs_okb_of in Hw. rewrite rlr_of in Hf. bsplit.
  assert (Hend : (i + length (render l ++ tk tFlatten (str "[]") :: rrhs r))%nat = (S (i + length (render l)) + length (rrhs r))%nat).
  { rewrite app_length. cbn [length]. lia. }
  rewrite Hend in *. clear Hend.
  apply Spell_app in Hsp as [_ Hsp]. apply Spell_cons in Hsp as [T0 Hsp]. cbn [ttype tvalue tk] in *.
  destruct (prhs_ok r lvl_flatten _ Hsr ltac:(assumption) Hsp Hf) as [F HF].
  exists F, tFlatten, (str "[]"). split; [exact T0|]. split; [cbn [lmin]; change (binding_power tFlatten) with lvl_flatten; lia|].
  unfold led. change (bp_of site_led_tFlatten_parseProjectionRHS tFlatten 0) with lvl_flatten. rewrite HF. reflexivity.
Qed.

Lemma step_filter l c r : (esize c < n)%nat -> ((rsz r < n)%nat \/ r = RNone) -> StStep (EFilter (Some l) c r).
Proof.
  intros Hsc Hsr. apply (StStep_of_led (EFilter (Some l) c r) l eq_refl). intros i Hw Hsp Hf. unfold LedOk, nE in *.
  rewrite render_filter in *. cbn [olhs] in *. cbn [wp rl] in *. rewrite rhs_okb_of in Hw. rewrite rlr_of in Hf. bsplit.
  assert (Hend : (i + length (render l ++ tk tFilter (str "[?") :: render c ++ [tk tRbracket (str "]")] ++ rrhs r))%nat =
                 (S (i + length (render l)) + length (render c ++ [tk tRbracket (str "]")] ++ rrhs r))%nat).
  { rewrite app_length. cbn [length]. lia. }
  rewrite Hend in *. clear Hend.
  apply Spell_app in Hsp as [_ Hsp]. apply Spell_cons in Hsp as [T0 Hsp]. cbn [ttype tvalue tk] in *.
  destruct (filter_ok (compile l) c r _ Hsc Hsr ltac:(assumption) ltac:(assumption) ltac:(assumption) Hsp Hf) as [F HF].
  exists F, tFilter, (str "[?"). split; [exact T0|]. split; [cbn [lmin]; change (binding_power tFilter) with lvl_filter; lia|].
  unfold led. rewrite HF. reflexivity.
Qed.

Lemma step_valproj l r : ((rsz r < n)%nat \/ r = RNone) -> StStep (EValProj (Some l) r).
Proof.
  intros Hsr. apply (StStep_of_led (EValProj (Some l) r) l eq_refl). intros i Hw Hsp Hf. unfold LedOk, nE in *.
  rewrite render_valproj_some in *. cbn [wp rl] in *. rewrite rhs_okb_of in Hw. rewrite rlr_of in Hf. bsplit.
  assert (Hend : (i + length (render l ++ tk tDot (str ".") :: tk tStar (str "*") :: rrhs r))%nat =
                 (S (S (i + length (render l))) + length (rrhs r))%nat).
  { rewrite app_length. cbn [length]. lia. }
  rewrite Hend in *. clear Hend.
  apply Spell_app in Hsp as [_ Hsp]. apply Spell_cons in Hsp as [T0 Hsp]. apply Spell_cons in Hsp as [T1 Hsp]. cbn [ttype tvalue tk] in *.
  destruct (prhs_ok r lvl_star _ Hsr ltac:(assumption) Hsp Hf) as [F HF].
  exists F, tDot, (str "."). split; [exact T0|]. split; [cbn [lmin]; change (binding_power tDot) with lvl_dot; lia|].
  unfold led. rewrite (tokat_current _ _ _ T1). cbn [bind]. change (tok_eqb tStar tStar) with true. cbn [negb].
  change (bp_of site_led_tDot_parseProjectionRHS tDot 0) with lvl_star. rewrite HF. reflexivity.
Qed.


Lemma render_call name args :
  render (ECall name args) =
  tk tUnquotedIdentifier name :: tk tLparen (str "(") :: sep_by [tk tComma (str ",")] (map arg_tokens args) ++ [tk tRparen (str ")")].
Proof. reflexivity. Qed.

Lemma compile_call name args : compile (ECall name args) = Node ASTFunctionExpression (NVStr name) (map arg_node args).
Proof. reflexivity. Qed.

Lemma step_call name args : (esize (ECall name args) <= n)%nat -> StStep (ECall name args).
Proof.
  intros Hsz. apply (StStep_of_led (ECall name args) (EIdent false name) eq_refl). intros i Hw Hsp Hf. unfold LedOk.
  assert (HnE : nE (EIdent false name) = 1%nat) by reflexivity. rewrite HnE.
  unfold nE. rewrite render_call in *. cbn [wp] in Hw. bsplit.
  match goal with Hx : forallb _ args = true |- _ => rename Hx into Hwa end.
  apply Spell_cons in Hsp as [Tn Hsp]. apply Spell_cons in Hsp as [Tp Hsp]. cbn [ttype tvalue tk] in *.
  replace (i + 1)%nat with (S i) by lia.
  assert (Hall : forall a, In a args -> (esize (arg_expr a) < n)%nat /\ wp (arg_expr a) = true /\ npos (arg_expr a) = true).
  { intros a Ha. split.
    - pose proof (esize_in_args a args Ha) as Hs. cbn [esize] in Hsz. destruct a; cbn [arg_expr SpecFacts.arg_expr] in *; lia.
    - rewrite forallb_forall in Hwa. specialize (Hwa a Ha). destruct a; cbn [arg_expr SpecFacts.arg_expr]; apply andb_true_iff in Hwa; exact Hwa. }
  (* the callee is the unquoted identifier just before "(" *)
  assert (Hprev : (if Nat.ltb (S (S i)) 2 then Panic else nth_or_panic ts (S (S i) - 2)) = Ok (match nth_error ts i with Some t => t | None => tk tUnknown [] end)
                  /\ exists t, nth_error ts i = Some t /\ ttype t = tUnquotedIdentifier).
  { destruct Tn as [t [Ht [Hty Hv]]]. split; [|exists t; auto].
    assert (Nat.ltb (S (S i)) 2 = false) as -> by (apply Nat.ltb_ge; lia).
    replace (S (S i) - 2)%nat with i by lia. unfold nth_or_panic. rewrite Ht. reflexivity. }
  destruct Hprev as [Hprev [tn [Htn Htyn]]]. rewrite Htn in Hprev.
  destruct args as [|a0 args'].
  - (* no arguments *)
    cbn [map sep_by app] in Hsp. apply Spell_cons in Hsp as [Tr _]. cbn [ttype tvalue tk] in Tr.
    exists 0%nat, tLparen, (str "("). split; [exact Tp|]. split; [cbn [lmin]; change (binding_power tLparen) with lvl_call; lia|].
    unfold led. rewrite Hprev. cbn [bind compile node_type]. rewrite Htyn.
    change (ast_eqb ASTField ASTField && tok_eqb tUnquotedIdentifier tUnquotedIdentifier) with true. cbn [negb].
    rewrite (tokat_current _ _ _ Tr). cbn [bind]. change (tok_eqb tRparen tRparen) with true. cbn [negb bind].
    rewrite (tokat_match _ _ _ Tr). cbn [bind node_val map sep_by app length]. f_equal. f_equal. lia.
  - (* arguments *)
    assert (Hne : a0 :: args' <> []) by discriminate.
    assert (Hlen : (length (a0 :: args') <= S (length ts))%nat).
    { pose proof (sep_by_length arg_tokens [tk tComma (str ",")] (a0 :: args')
                    ltac:(intros x; destruct x; [apply render_nonempty | discriminate])) as L.
      pose proof (fun Hn => Spell_length (S (S i)) _ Hn Hsp) as Lb.
      specialize (Lb ltac:(intros Hx; apply app_eq_nil in Hx; destruct Hx as [_ Hx]; discriminate Hx)).
      rewrite app_length in Lb. lia. }
    destruct (args_ok (a0 :: args') [] (S (S i)) (S (length ts)) Hne Hall Hsp Hlen) as [F HF].
    exists F, tLparen, (str "("). split; [exact Tp|]. split; [cbn [lmin]; change (binding_power tLparen) with lvl_call; lia|].
    unfold led. rewrite Hprev. cbn [bind compile node_type]. rewrite Htyn.
    change (ast_eqb ASTField ASTField && tok_eqb tUnquotedIdentifier tUnquotedIdentifier) with true. cbn [negb].
    (* the first token of the first argument is not ")" *)
    assert (Hfirst : exists ty v, tokat (S (S i)) ty v /\ tok_eqb ty tRparen = false).
    { assert (Ha0 : exists t0 tl0, arg_tokens a0 = t0 :: tl0 /\ tok_eqb (ttype t0) tRparen = false).
      { destruct a0 as [x|x]; cbn [arg_tokens].
        - pose proof (render_starter x) as Hst. destruct (render x) as [|t0 tl0]; [contradiction|].
          exists t0, tl0. split; [reflexivity|]. destruct (ttype t0); try discriminate; reflexivity.
        - eexists _, _. split; reflexivity. }
      destruct Ha0 as [t0 [tl0 [Ea0 Hnr]]]. cbn [map sep_by] in Hsp. rewrite Ea0 in Hsp.
      destruct (map arg_tokens args'); cbn [app] in Hsp; apply Spell_cons in Hsp as [T _]; eexists _, _; (split; [exact T | exact Hnr]). }
    destruct Hfirst as [ty [v [Tf Hnr]]]. rewrite (tokat_current _ _ _ Tf). cbn [bind]. rewrite Hnr. cbn [negb].
    rewrite HF. cbn [bind rev app].
    apply Spell_app in Hsp as [_ Hrp]. apply Spell_cons in Hrp as [Hrp _]. cbn [ttype tvalue tk] in Hrp.
    rewrite (tokat_match _ _ _ Hrp). cbn [bind node_val]. f_equal. f_equal.
    cbn [length]. rewrite app_length. cbn [length]. lia.
Qed.

End Ind.

(* ---- putting the cases together ---- *)
Lemma rsz_lt r k : (match r with RNone => 1 | RDot x => esize x | RBrk x => esize x end <= k)%nat -> (rsz r < S k)%nat \/ r = RNone.
Proof. destruct r; cbn [rsz]; intros H; [right; reflexivity | left; lia | left; lia]. Qed.

Theorem parser_complete_all : forall n,
  (forall e, (esize e < n)%nat -> StE e) /\ (forall e, (esize e < n)%nat -> StStep e).
Proof.
  induction n as [|n [IHE IHStep]].
  - split; intros e He; lia.
  - assert (HStep : forall e, (esize e < S n)%nat -> StStep e).
    { intros e He.
      destruct e as [q name | | lv | s0 | x | es | kvs | fname args | x | [l|] z | [l|] a b c r | [l|] r | [l|] r
                     | [l|] c r | [l|] r | l r | l r | l r | l r | op l r];
        try (intros l0 Hl0; discriminate Hl0); cbn [esize] in He.
      - eapply (step_call n); eauto. cbn [esize]. lia.
      - eapply (step_index n); eauto.
      - eapply (step_slice n); eauto. destruct r; cbn [rsz]; [right; reflexivity | left; lia | left; lia].
      - eapply (step_listproj n); eauto. destruct r; cbn [rsz]; [right; reflexivity | left; lia | left; lia].
      - eapply (step_flatten n); eauto. destruct r; cbn [rsz]; [right; reflexivity | left; lia | left; lia].
      - eapply (step_filter n); eauto; [lia | destruct r; cbn [rsz]; [right; reflexivity | left; lia | left; lia]].
      - eapply (step_valproj n); eauto. destruct r; cbn [rsz]; [right; reflexivity | left; lia | left; lia].
      - eapply (step_sub n); eauto. lia.
      - eapply (step_pipe n); eauto. lia.
      - eapply (step_or n); eauto. lia.
      - eapply (step_and n); eauto. lia.
      - eapply (step_cmp n); eauto. lia. }
    split; [|exact HStep].
    (* StE by induction on the length of the left spine *)
    assert (G : forall k e, (esize e <= k)%nat -> (esize e < S n)%nat -> StE e).
    { induction k as [|k IHk]; intros e Hk He; [destruct e; cbn in Hk; lia|].
      destruct (lchild e) as [l|] eqn:El.
      - apply (StE_from_step e l El); [|apply HStep; exact He].
        assert (Hsz : (esize l < esize e)%nat).
        { destruct e as [q name | | lv | s0 | x | es | kvs | fname args | x | [l0|] z | [l0|] a b c r | [l0|] r | [l0|] r
                         | [l0|] c r | [l0|] r | l0 r | l0 r | l0 r | l0 r | op l0 r];
            cbn [lchild] in El; try discriminate; inversion El; subst l; cbn [esize]; lia. }
        apply IHk; lia.
      - destruct e as [q name | | lv | s0 | x | es | kvs | fname args | x | [l0|] z | [l0|] a b c r | [l0|] r | [l0|] r
                       | [l0|] c r | [l0|] r | l0 r | l0 r | l0 r | l0 r | op l0 r];
          cbn [lchild] in El; try discriminate; cbn [esize] in He.
        + apply nud_ident.
        + apply nud_current.
        + apply nud_lit.
        + apply nud_raw.
        + eapply (nud_paren n); eauto. lia.
        + eapply (nud_mslist n); eauto. cbn [esize]. lia.
        + eapply (nud_mshash n); eauto. cbn [esize]. lia.
        + eapply (nud_not n); eauto. lia.
        + apply nud_index.
        + eapply (nud_slice n); eauto. destruct r; cbn [rsz]; [right; reflexivity | left; lia | left; lia].
        + eapply (nud_listproj n); eauto. destruct r; cbn [rsz]; [right; reflexivity | left; lia | left; lia].
        + eapply (nud_flatten n); eauto. destruct r; cbn [rsz]; [right; reflexivity | left; lia | left; lia].
        + eapply (nud_filter n); eauto; [lia | destruct r; cbn [rsz]; [right; reflexivity | left; lia | left; lia]].
        + eapply (nud_valproj n); eauto. destruct r; cbn [rsz]; [right; reflexivity | left; lia | left; lia]. }
    intros e He. apply (G (esize e) e (Nat.le_refl _) He).
Qed.

End Tokens.

(* ---- the theorem ---- *)
(* Parse on any token list that spells a well-precedenced tree (types and values
   of the tokens; positions are free) and ends in its only tEOF: the AST of the tree *)
Theorem parse_tokens_complete (e : expr) (ts : list token) :
  wp e = true -> npos e = true -> wf_tokens ts ->
  Spell ts 0 (render e ++ [tk tEOF []]) ->
  parse_tokens ts = Ok (compile e).
Proof.
  intros Hw Hnp Hwf Hsp. apply Spell_app in Hsp as [He Heof]. apply Spell_cons in Heof as [Heof _]. cbn [ttype tvalue tk] in Heof.
  rewrite Nat.add_0_l in Heof.
  destruct (parser_complete_all ts (S (esize e))) as [HE _].
  assert (Hpe : PE ts 0 0 (compile e, nE e)).
  { apply (HE e ltac:(lia) 0 0%nat (compile e, nE e) Hw Hnp (lmin_pos e) He).
    - exists tEOF, []. split; [exact Heof|]. pose proof (rl_pos e). change (binding_power tEOF) with 0. lia.
    - apply (CE_stop ts _ _ _ tEOF [] Heof). change (binding_power tEOF) with 0. lia. }
  destruct Hpe as [F HF]. unfold PEf in HF.
  assert (Hlive : parseExpression ts (parse_fuel ts) 0 0 <> OutOfFuel).
  { destruct (pe_ce_res ts Hwf (parse_fuel ts)) as [Hres _].
    assert (Hn : (0 < length ts)%nat) by (destruct Hwf as [H1 _]; lia).
    destruct (Hres 0 0%nat ltac:(lia) Hn) as [_ [Hfuel _]]. intros E. specialize (Hfuel E). unfold parse_fuel in Hfuel. lia. }
  unfold parse_tokens. change (bp_of site_Parse_parseExpression tUnknown 0) with 0.
  rewrite <- (parse_fuel_independent ts F (parse_fuel ts) 0 0 ltac:(rewrite HF; discriminate) Hlive). rewrite HF. cbn [bind].
  unfold nE. rewrite (tokat_current ts _ _ _ Heof). cbn [bind]. reflexivity.
Qed.


(* ---- the canonical token list ---- *)
Definition noeof (l : list token) : Prop := Forall (fun t => ttype t <> tEOF) l.

Lemma noeof_sep {A} (f : A -> list token) sep l : noeof sep -> Forall (fun x => noeof (f x)) l -> noeof (sep_by sep (map f l)).
Proof.
  intros Hs. induction 1 as [|x l Hx Hl IH]; [constructor|]. cbn [map sep_by]. destruct l as [|y l']; [exact Hx|].
  apply Forall_app. split; [exact Hx|]. apply Forall_app. split; [exact Hs | exact IH].
Qed.

Lemma render_noeof : forall e, noeof (render e).
Proof.
  fix IH 1. intros e.
  assert (Ho : forall l : option expr, noeof (match l with Some x => render x | None => [] end)).
  { intros [x|]; [apply IH | constructor]. }
  assert (Hr : forall r : rhs, noeof (match r with RNone => [] | RDot x => tk tDot (str ".") :: render x | RBrk x => render x end)).
  { intros [|x|x]; [constructor | constructor; [discriminate | apply IH] | apply IH]. }
  assert (Hn : forall o : option Z, noeof (opt_num o)) by (intros [z|]; repeat constructor; discriminate).
  destruct e as [q name | | lv | s | x | es | kvs | fname args | x | l i | l a b c r | l r | l r
                 | l c r | l r | l r | l r | l r | l r | op l r]; cbn [render].
  - destruct q; repeat constructor; discriminate.
  - repeat constructor; discriminate.
  - repeat constructor; discriminate.
  - repeat constructor; discriminate.
  - constructor; [discriminate|]. apply Forall_app. split; [apply IH | repeat constructor; discriminate].
  - constructor; [discriminate|]. apply Forall_app. split; [|repeat constructor; discriminate].
    apply noeof_sep; [repeat constructor; discriminate|]. induction es as [|x es IHes]; constructor; [apply IH | exact IHes].
  - constructor; [discriminate|]. apply Forall_app. split; [|repeat constructor; discriminate].
    apply noeof_sep; [repeat constructor; discriminate|]. induction kvs as [|kv kvs IHk]; constructor; [|exact IHk].
    constructor; [destruct (fst (fst kv)); discriminate|]. constructor; [discriminate | apply IH].
  - constructor; [discriminate|]. constructor; [discriminate|]. apply Forall_app. split; [|repeat constructor; discriminate].
    apply noeof_sep; [repeat constructor; discriminate|]. induction args as [|a args IHa]; constructor; [|exact IHa].
    destruct a as [x|x]; [apply IH | constructor; [discriminate | apply IH]].
  - constructor; [discriminate | apply IH].
  - apply Forall_app. split; [apply Ho | repeat constructor; discriminate].
  - repeat (apply Forall_app; split); try apply Ho; try apply Hn; try apply Hr; try (repeat constructor; discriminate).
    destruct c; [apply Forall_app; split; [repeat constructor; discriminate | apply Hn] | constructor].
  - repeat (apply Forall_app; split); try apply Ho; try apply Hr; repeat constructor; discriminate.
  - repeat (apply Forall_app; split); try apply Ho; try apply Hr; repeat constructor; discriminate.
  - repeat (apply Forall_app; split); try apply Ho; try apply Hr; try apply IH; repeat constructor; discriminate.
  - destruct l as [x|]; [repeat (apply Forall_app; split); try apply IH; try apply Hr; repeat constructor; discriminate|].
    constructor; [discriminate | apply Hr].
  - repeat (apply Forall_app; split); try apply IH; repeat constructor; discriminate.
  - repeat (apply Forall_app; split); try apply IH; repeat constructor; discriminate.
  - repeat (apply Forall_app; split); try apply IH; repeat constructor; discriminate.
  - repeat (apply Forall_app; split); try apply IH; repeat constructor; discriminate.
  - repeat (apply Forall_app; split); try apply IH; repeat constructor; destruct op; discriminate.
Qed.

Lemma render_eof_wf e : wf_tokens (render e ++ [tk tEOF []]).
Proof.
  unfold wf_tokens. rewrite app_length. cbn [length]. split; [lia|]. intros i t Hi.
  replace (length (render e) + 1 - 1)%nat with (length (render e)) by lia.
  destruct (Nat.lt_ge_cases i (length (render e))) as [Hlt|Hge].
  - rewrite nth_error_app1 in Hi by exact Hlt. pose proof (render_noeof e) as Hn. unfold noeof in Hn. rewrite Forall_forall in Hn.
    specialize (Hn t (nth_error_In _ _ Hi)). split; [intros E; contradiction | intros E; lia].
  - rewrite nth_error_app2 in Hi by exact Hge. destruct (i - length (render e))%nat as [|k] eqn:Ek.
    + cbn in Hi. inversion Hi; subst. split; [intros _; lia | reflexivity].
    + cbn in Hi. destruct k; discriminate.
Qed.

(* the parser on the spelling of a well-precedenced tree builds the AST of that tree *)
Definition lits_valid (l : list token) : Prop :=
  Forall (fun t => ttype t = tJSONLiteral -> json_unmarshal (tvalue t) <> None) l.

Lemma veq_self ty v : (ty = tJSONLiteral -> json_unmarshal v <> None) -> veq ty v v.
Proof. destruct ty; cbn; auto. Qed.

Theorem parse_render e : wp e = true -> npos e = true -> lits_valid (render e) ->
  parse_tokens (render e ++ [tk tEOF []]) = Ok (compile e).
Proof.
  intros Hw Hnp Hv. apply (parse_tokens_complete e _ Hw Hnp (render_eof_wf e)).
  intros k t Hk. exists t. rewrite Nat.add_0_l. split; [exact Hk|]. split; [reflexivity|]. apply veq_self.
  assert (Hall : lits_valid (render e ++ [tk tEOF []])) by (apply Forall_app; split; [exact Hv | constructor; [discriminate | constructor]]).
  unfold lits_valid in Hall. rewrite Forall_forall in Hall. apply Hall. eapply nth_error_In; eauto.
Qed.

End WithNum.

(* SearchTotal.v — the one-shot Search and Compile+Search on arbitrary bytes and
   arbitrary data without expression references: a value or an error, never a
   panic; what is compiled is the AST of an expression tree, and searching it is
   the specification's eval of that tree. *)
From JM Require Import Model.Base Model.Num Model.Utf8 Model.Value Model.JsonText Model.Lexer Model.Parser
     Model.Slice Model.Functions Model.Interp Model.Api.
From JM Require Import Spec.Grammar Spec.Semantics.
From JM Require Import Proofs.ValueFacts Proofs.InterpRefine Proofs.SpecFacts Proofs.CompileTotal Proofs.ParserShape.
From Coq Require Import ZifyBool Permutation.

Section WithNum.
Context {NumO : NumOps}.
Variable ord : obj -> obj.
Hypothesis ord_perm : forall m, Permutation (ord m) m.

(* every compiled expression is the AST of a tree, and Search on it is eval of that tree *)
Theorem compiled_is_tree (e : bytes) n :
  Api.compile e = Ok n ->
  exists x, n = Grammar.compile x /\ sem_ok x = true /\
            forall d, plain d = true -> search_compiled ord n d = eval ord x d.
Proof.
  intros H. destruct (parse_shape e n H) as [x [-> Hx]]. exists x. split; [reflexivity|]. split; [exact Hx|].
  intros d Hd. apply (search_compiled_is_eval ord ord_perm); assumption.
Qed.

(* Search(expression, data) = Compile(expression) then Search(data) *)
Lemma search_is_compile_then_search (e : bytes) d :
  search ord e d = (n <- Api.compile e ;; search_compiled ord n d).
Proof. reflexivity. Qed.

Theorem search_total (e : bytes) d :
  plain d = true ->
  match search ord e d with
  | Ok r => plain r = true
  | Err _ => True
  | Panic => False
  | OutOfFuel => exists x, Api.compile e = Ok (Grammar.compile x) /\ eval ord x d = OutOfFuel
  end.
Proof.
  intros Hd. rewrite search_is_compile_then_search. pose proof (compile_total e) as T.
  destruct (Api.compile e) as [n|er| |] eqn:Ec; cbn [bind]; try contradiction; [|exact I].
  destruct (compiled_is_tree e n Ec) as [x [-> [Hx Hs]]]. rewrite (Hs d Hd).
  pose proof (eval_no_panic ord x d) as Hnp.
  destruct (eval ord x d) as [r|er| |] eqn:Ee; [| exact I | exfalso; apply Hnp; reflexivity |].
  - eapply (eval_plain ord ord_perm); eauto.
  - exists x. split; [reflexivity | exact Ee].
Qed.

End WithNum.

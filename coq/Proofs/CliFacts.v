(* CliFacts.v — cmd/jpgo (C19): exit status and standard output of run() as a
   function of the expression and the input bytes. *)
From JM Require Import Model.Base Model.Num Model.Utf8 Model.Value Model.JsonText Model.Lexer Model.Parser
     Model.Slice Model.Functions Model.Interp Model.Api Model.Cli.
From JM Require Import Spec.Grammar Spec.Semantics.
From JM Require Import Proofs.ValueFacts Proofs.InterpRefine Proofs.SpecFacts Proofs.CompileTotal Proofs.ParserShape
     Proofs.SearchTotal Proofs.Closure.
From Coq Require Import Permutation.

Section WithNum.
Context {NumO : NumOps}.
Variable ord : obj -> obj.
Hypothesis ord_perm : forall m, Permutation (ord m) m.

(* valid expression, valid JSON input, successful Search: the indented JSON text
   of exactly the library's result, a newline, status 0 *)
Theorem cli_success (e text : bytes) c d r t :
  (exists n, parse e = Ok n) -> input_of c = Some text -> json_unmarshal text = Some d ->
  search ord e d = Ok r -> marshal_indent 0 r = Some t ->
  cli_run ord [e] c = Ok (CliResult (t ++ [10%N]) 0).
Proof.
  intros [n Hp] Hi Hu Hs Hm. unfold cli_run. rewrite Hp, Hi, Hu, Hs, Hm. reflexivity.
Qed.

(* the converse: status 0 only in that situation; any other status comes with
   an empty standard output *)
Theorem cli_exit_status (e : bytes) c res :
  cli_run ord [e] c = Ok res ->
  (cli_exit res = 0 /\
   exists n text d r t, parse e = Ok n /\ input_of c = Some text /\ json_unmarshal text = Some d /\
                        search ord e d = Ok r /\ marshal_indent 0 r = Some t /\ cli_stdout res = t ++ [10%N]) \/
  (cli_exit res = 1 /\ cli_stdout res = [] /\
   ((exists er, parse e = Err er) \/ input_of c = None \/
    (exists text, input_of c = Some text /\ json_unmarshal text = None) \/
    (exists text d er, input_of c = Some text /\ json_unmarshal text = Some d /\ search ord e d = Err er) \/
    (exists text d r, input_of c = Some text /\ json_unmarshal text = Some d /\ search ord e d = Ok r /\
                      marshal_indent 0 r = None))).
Proof.
  unfold cli_run, fail. destruct (parse e) as [n|er| |] eqn:Hp; try discriminate.
  2:{ intros H; inversion H; subst. right. repeat split. left. eauto. }
  destruct (input_of c) as [text|] eqn:Hi.
  2:{ intros H; inversion H; subst. right. repeat split. right. left. reflexivity. }
  destruct (json_unmarshal text) as [d|] eqn:Hu.
  2:{ intros H; inversion H; subst. right. repeat split. right. right. left. eauto. }
  destruct (search ord e d) as [r|er| |] eqn:Hs; try discriminate.
  2:{ intros H; inversion H; subst. right. repeat split. right. right. right. left. eauto 6. }
  destruct (marshal_indent 0 r) as [t|] eqn:Hm.
  - intros H; inversion H; subst. left. split; [reflexivity|]. exists n, text, d, r, t. repeat split; assumption.
  - intros H; inversion H; subst. right. repeat split. right. right. right. right. eauto 8.
Qed.

(* a wrong number of positional arguments: failure, nothing printed *)
Theorem cli_usage args c : length args <> 1%nat -> cli_run ord args c = Ok (CliResult [] 1).
Proof. destruct args as [|a [|b args]]; cbn; intros H; try reflexivity. congruence. Qed.

(* the two input channels are interchangeable *)
Theorem cli_channel args x : cli_run ord args (FromFile x) = cli_run ord args (FromStdin x).
Proof. reflexivity. Qed.

(* jpgo itself never panics on JSON input, whatever the expression *)
Theorem cli_no_panic args c : cli_run ord args c <> Panic.
Proof.
  unfold cli_run, fail. destruct args as [|e [|b args]]; try discriminate.
  pose proof (compile_total e) as T. unfold Api.compile in T.
  destruct (parse e) as [n|er| |] eqn:Hp; try discriminate; try contradiction.
  destruct (input_of c) as [text|]; try discriminate.
  destruct (json_unmarshal text) as [d|] eqn:Hu; try discriminate.
  pose proof (search_total ord ord_perm e d (is_json_plain d (json_unmarshal_json text d Hu))) as S.
  destruct (search ord e d) as [r|er| |]; try discriminate; try contradiction.
  destruct (marshal_indent 0 r); discriminate.
Qed.

(* MarshalIndent fails exactly when Marshal does (a non-finite number) *)
Ltac dm H := repeat match type of H with match ?A with _ => _ end => destruct A end; try contradiction; try exact I.

Lemma marshal_indent_defined : forall v lvl,
  match marshal_indent lvl v, json_marshal v with
  | Some _, Some _ => True | None, None => True | _, _ => False end.
Proof.
  fix IH 1. intros [ | [|] | n | s | l | m | r] lvl; cbn [marshal_indent json_marshal]; try exact I.
  - destruct (num_finite n); exact I.
  - assert (G : forall l, match (fix go (l : list value) : option (list bytes) :=
             match l with
             | [] => Some []
             | x :: r => match marshal_indent (S lvl) x, go r with
                         | Some a, Some b => Some (a :: b)
                         | _, _ => None end
             end) l,
            (fix go (l : list value) : option (list bytes) :=
             match l with
             | [] => Some []
             | x :: r => match json_marshal x, go r with
                         | Some a, Some b => Some (a :: b)
                         | _, _ => None end
             end) l with
            | Some _, Some _ => True | None, None => True | _, _ => False end).
    { intros l1. induction l1 as [|x l1 IHl]; [exact I|]. specialize (IH x (S lvl)).
      destruct (marshal_indent (S lvl) x), (json_marshal x); try contradiction.
      - dm IHl.
      - exact I. }
    destruct l as [|x0 l0]; [exact I|]. specialize (G (x0 :: l0)).
    dm G.
  - assert (G : forall m, match (fix go (m : obj) : option (list bytes) :=
             match m with
             | [] => Some []
             | (k, x) :: r => match marshal_indent (S lvl) x, go r with
                              | Some a, Some b => Some ((marshal_string k ++ 58%N :: 32%N :: a) :: b)
                              | _, _ => None end
             end) m,
            (fix go (m : obj) : option (list bytes) :=
             match m with
             | [] => Some []
             | (k, x) :: r => match json_marshal x, go r with
                              | Some a, Some b => Some ((marshal_string k ++ 58%N :: a) :: b)
                              | _, _ => None end
             end) m with
            | Some _, Some _ => True | None, None => True | _, _ => False end).
    { intros m1. induction m1 as [|[k x] m1 IHm]; [exact I|]. specialize (IH x (S lvl)).
      destruct (marshal_indent (S lvl) x), (json_marshal x); try contradiction.
      - dm IHm.
      - exact I. }
    destruct m as [|kv0 m0]; [exact I|]. specialize (G (kv0 :: m0)).
    dm G.
Qed.

(* with the no-overflow proviso of C16 the result of a successful Search on JSON
   input is always serialisable: status 0 exactly for valid expression, valid
   input and successful evaluation *)
Theorem cli_status_complete (e text : bytes) c d r :
  NoOverflow -> input_of c = Some text -> json_unmarshal text = Some d -> search ord e d = Ok r ->
  exists t, marshal_indent 0 r = Some t /\ cli_run ord [e] c = Ok (CliResult (t ++ [10%N]) 0).
Proof.
  intros Hn Hi Hu Hs.
  assert (Hj : is_json r = true) by (eapply (search_json ord ord_perm); eauto using json_unmarshal_json).
  destruct (marshal_total r Hj) as [t0 Ht0].
  pose proof (marshal_indent_defined r 0) as Hd. rewrite Ht0 in Hd.
  destruct (marshal_indent 0 r) as [t|] eqn:Hm; [|contradiction].
  exists t. split; [reflexivity|]. apply (cli_success e text c d r t); auto.
  unfold search in Hs. destruct (parse e) as [n| | |]; try discriminate. eauto.
Qed.

End WithNum.

(* PipeText.v — the pipe from bytes: for any two texts A and B that read as
   expressions, Search on "A | B" is Search on B of the result of Search on A
   (and fails exactly when a step fails) — also when B itself contains pipes. *)
From JM Require Import Model.Base Model.Num Model.Utf8 Model.Value Model.JsonText Model.Lexer Model.Parser Model.Slice
     Model.Functions Model.Interp Model.Api.
From JM Require Import Spec.Grammar Spec.Semantics.
From JM Require Import gen.Tables Proofs.TablesOk Proofs.ValueFacts Proofs.LexerTotal Proofs.LexView Proofs.Utf8Facts
     Proofs.JsonString Proofs.LexSpell Proofs.ParserTotal Proofs.ParserComplete Proofs.InterpRefine Proofs.LexText Proofs.LexAdj
     Proofs.ParserSound Proofs.ApiFacts Proofs.LexExact Proofs.Contexts Proofs.CtxFacts.
From Coq Require Import ZifyBool ZifyN ZifyNat.

Section WithNum.
Context {NumO : NumOps}.

(* ---- readings of concatenated texts ---- *)
Lemma follow_ok_app ty s t : s <> [] -> follow_ok ty (s ++ t) = follow_ok ty s.
Proof. destruct s as [|b s]; [congruence|]. reflexivity. Qed.

Lemma Lex_app_ws s1 l1 c s2 l2 : Lex s1 l1 -> wsc c -> Lex (c :: s2) l2 -> Lex (s1 ++ c :: s2) (l1 ++ l2).
Proof.
  intros H1 Hc H2. induction H1 as [|c0 s l Hc0 _ IH|ty v text s l Ht Hfo _ IH].
  - exact H2.
  - cbn [app]. apply Lex_ws; assumption.
  - rewrite <- !app_assoc. cbn [app]. apply Lex_tok; [exact Ht| |exact IH].
    destruct s as [|b s']; [cbn [app]; apply follow_ws; exact Hc|]. rewrite follow_ok_app by discriminate. exact Hfo.
Qed.

Definition pipe_text (a b : bytes) : bytes := a ++ 32%N :: 124%N :: 32%N :: b.

Lemma Lex_pipe a la b lb : Lex a la -> Lex b lb -> Lex (pipe_text a b) (la ++ (tPipe, [124%N]) :: lb).
Proof.
  intros Ha Hb. unfold pipe_text. apply Lex_app_ws; [exact Ha | left; reflexivity|].
  apply Lex_ws; [left; reflexivity|].
  change (124%N :: 32%N :: b) with ([124%N] ++ 32%N :: b).
  apply Lex_tok; [apply TTfixed; reflexivity | reflexivity|]. apply Lex_ws; [left; reflexivity | exact Hb].
Qed.

(* ---- a well-precedenced tree that is open at the pipe level is a pipe ---- *)
Ltac sp H := repeat match type of H with (_ && _) = true => let H2 := fresh H in apply andb_true_iff in H as [H H2] end.

Lemma rl_pipe l r : rl (EPipe l r) <= lvl_pipe.
Proof. cbn [rl]. lia. Qed.

Lemma wp_low_is_pipe : forall e : expr, wp e = true -> lmin e <= lvl_pipe -> exists l r, e = EPipe l r.
Proof.
  fix IH 1. intros e Hw Hl.
  assert (Ho : forall (l : option expr) p, lvl_pipe < p ->
                 match l with Some x => wp x && (p <=? rl x) | None => true end = true ->
                 match l with Some x => Z.min (lmin x) p | None => lvl_top end <= lvl_pipe -> False).
  { intros [x|] p Hp H1 H2; [|unfold lvl_top, lvl_pipe in H2; clear - H2; lia]. apply andb_true_iff in H1 as [H1 H3].
    assert (Hx : lmin x <= lvl_pipe) by (clear - H2 Hp; lia). destruct (IH x H1 Hx) as [l' [r' ->]]. pose proof (rl_pipe l' r') as Hrl. clear - Hrl H3 Hp. lia. }
  assert (Hb : forall (x : expr) p, lvl_pipe < p -> wp x = true -> (p <=? rl x) = true -> Z.min (lmin x) p <= lvl_pipe -> False).
  { intros x p Hp H1 H3 H2. assert (Hx : lmin x <= lvl_pipe) by (clear - H2 Hp; lia). destruct (IH x H1 Hx) as [l' [r' ->]]. pose proof (rl_pipe l' r') as Hrl. clear - Hrl H3 Hp. lia. }
  destruct e as [q name | | lv | s | x | es | kvs | fname args | x | l i | l a b c r | l r | l r
                 | l c r | l r | l r | l r | l r | l r | op l r]; cbn [wp] in Hw; cbn [lmin] in Hl;
    try (unfold lvl_top, lvl_call, lvl_pipe in Hl; clear - Hl; lia).
  - sp Hw. exfalso. apply (Ho l lvl_bracket); [reflexivity | exact Hw | exact Hl].
  - sp Hw. exfalso. apply (Ho l lvl_bracket); [reflexivity | exact Hw | exact Hl].
  - sp Hw. exfalso. apply (Ho l lvl_bracket); [reflexivity | exact Hw | exact Hl].
  - sp Hw. exfalso. apply (Ho l lvl_flatten); [reflexivity | exact Hw | exact Hl].
  - sp Hw. exfalso. apply (Ho l lvl_filter); [reflexivity | exact Hw | exact Hl].
  - sp Hw. exfalso. apply (Ho l lvl_dot); [reflexivity | exact Hw | exact Hl].
  - sp Hw. exfalso. apply (Hb l lvl_dot); [reflexivity | exact Hw | assumption | exact Hl].
  - exists l, r. reflexivity.
  - sp Hw. exfalso. apply (Hb l lvl_or); [reflexivity | exact Hw | assumption | exact Hl].
  - sp Hw. exfalso. apply (Hb l lvl_and); [reflexivity | exact Hw | assumption | exact Hl].
  - sp Hw. exfalso. apply (Hb l lvl_cmp); [reflexivity | exact Hw | assumption | exact Hl].
Qed.

Section Text.
Variable lit_text : value -> bytes.
Hypothesis lit_ok : lit_spec lit_text.
Variable ord : obj -> obj.
Hypothesis ord_perm : forall m, Permutation.Permutation (ord m) m.

Lemma bind_assoc_o {A B C} (x : outcome A) (f : A -> outcome B) (g : B -> outcome C) :
  (y <- (z <- x ;; f z) ;; g y) = (z <- x ;; y <- f z ;; g y).
Proof. destruct x; reflexivity. Qed.

(* the tree that the tokens of a, a pipe sign and the tokens of b spell *)
Lemma pipe_join : forall b a : expr, wp a = true -> npos a = true -> wp b = true -> npos b = true ->
  exists t, wp t = true /\ npos t = true /\
            render lit_text t = render lit_text a ++ tk tPipe (str "|") :: render lit_text b /\
            forall d, eval ord t d = (x <- eval ord a d ;; eval ord b x).
Proof.
  fix IH 1. intros b a Ha Hna Hb Hnb.
  destruct (Z_le_gt_dec (lmin b) lvl_pipe) as [Hle|Hgt].
  - destruct b as [q name | | lv | s | x | es | kvs | fname args | x | l i | l a0 b0 c r | l r | l r
                   | l c r | l r | l r | b1 b2 | l r | l r | op l r];
      try (destruct (wp_low_is_pipe _ Hb Hle) as [? [? E]]; discriminate E).
    cbn [wp] in Hb. sp Hb.
    assert (Hnb1 : npos b1 = true) by exact Hnb.
    destruct (IH b1 a Ha Hna Hb Hnb1) as [t1 [W1 [N1 [R1 E1]]]].
    exists (EPipe t1 b2). split; [|split; [|split]].
    + cbn [wp]. pose proof (rl_pos t1) as Hrl.
      repeat (match goal with |- (_ && _) = true => apply andb_true_iff; split end); try assumption.
      clear - Hrl. unfold lvl_pipe. lia.
    + exact N1.
    + cbn [render]. rewrite R1. rewrite <- !app_assoc. cbn [app]. reflexivity.
    + intros d. rewrite (pipe_is_composition ord). rewrite E1. rewrite bind_assoc_o.
      destruct (eval ord a d) as [x| | |]; cbn [bind]; reflexivity.
  - exists (EPipe a b). split; [|split; [|split]].
    + cbn [wp]. pose proof (rl_pos a) as Hrl.
      repeat (match goal with |- (_ && _) = true => apply andb_true_iff; split end); try assumption.
      * clear - Hrl. unfold lvl_pipe. lia.
      * clear - Hgt. lia.
    + exact Hna.
    + cbn [render]. reflexivity.
    + intros d. apply (pipe_is_composition ord).
Qed.

(* Search on "A | B" = Search on B of the result of Search on A, for all texts A and B
   that read as expressions *)
Theorem search_pipe_text (sa sb : bytes) la lb (a b : expr) d :
  Lex sa la -> reads_as la (render lit_text a) -> wp a = true -> npos a = true ->
  Lex sb lb -> reads_as lb (render lit_text b) -> wp b = true -> npos b = true ->
  plain d = true ->
  Api.search ord (pipe_text sa sb) d = (x <- Api.search ord sa d ;; Api.search ord sb x).
Proof.
  intros HLa Hra Hwa Hna HLb Hrb Hwb Hnb Hd.
  destruct (pipe_join b a Hwa Hna Hwb Hnb) as [t [Wt [Nt [Rt Et]]]].
  assert (Hr : reads_as (la ++ (tPipe, [124%N]) :: lb) (render lit_text t)).
  { rewrite Rt. unfold reads_as. apply Forall2_app; [exact Hra|]. constructor; [|exact Hrb]. cbn [fst snd tk ttype tvalue]. split; [reflexivity | exact I]. }
  rewrite (search_bytes_exact lit_text lit_ok ord ord_perm _ _ t d (Lex_pipe sa la sb lb HLa HLb) Hr Wt Nt Hd).
  rewrite Et. rewrite (search_bytes_exact lit_text lit_ok ord ord_perm sa la a d HLa Hra Hwa Hna Hd).
  destruct (eval ord a d) as [x| | |] eqn:Ea; cbn [bind]; try reflexivity.
  assert (Hx : plain x = true) by (apply (eval_plain ord ord_perm a d x (wp_sem_ok a Hwa) Hd Ea)).
  rewrite (search_bytes_exact lit_text lit_ok ord ord_perm sb lb b x HLb Hrb Hwb Hnb Hx). reflexivity.
Qed.

End Text.
End WithNum.

(* Contexts.v — evaluation contexts of the specification:
   (a) strict contexts (C11): if the hole is reached with current node v and the
       expression in the hole fails on v, the whole expression fails;
   (b) root contexts (C15): contexts whose hole is evaluated against the same
       current node as the whole; replacing the expression in the hole by one
       with the same value there does not change the result. *)
From JM Require Import Model.Base Model.Num Model.Value Model.Functions.
From JM Require Import Spec.Grammar Spec.PySlice Spec.Semantics.
From JM Require Import Proofs.ValueFacts Proofs.InterpRefine.
From Coq Require Import ZifyBool.

Section WithNum.
Context {NumO : NumOps}.
Variable ord : obj -> obj.

(* ---------- root contexts ---------- *)
Inductive rctx :=
| RHole
| RParen (c : rctx)
| RNot (c : rctx)
| ROrL (c : rctx) (r : expr) | ROrR (l : expr) (c : rctx)
| RAndL (c : rctx) (r : expr) | RAndR (l : expr) (c : rctx)
| RCmpL (op : cmpop) (c : rctx) (r : expr) | RCmpR (op : cmpop) (l : expr) (c : rctx)
| RSubL (c : rctx) (r : expr)
| RPipeL (c : rctx) (r : expr)
| RIndexL (c : rctx) (i : Z)
| RSliceL (c : rctx) (a b : option Z) (s : option (option Z)) (r : rhs)
| RListProjL (c : rctx) (r : rhs)
| RFlattenL (c : rctx) (r : rhs)
| RFilterL (c : rctx) (cond : expr) (r : rhs)
| RValProjL (c : rctx) (r : rhs)
| RMSList (before : list expr) (c : rctx) (after : list expr)
| RMSHash (before : list (bool * bytes * expr)) (q : bool) (k : bytes) (c : rctx) (after : list (bool * bytes * expr))
| RCallArg (name : bytes) (before : list arg) (c : rctx) (after : list arg).

Fixpoint rplug (c : rctx) (e : expr) : expr :=
  match c with
  | RHole => e
  | RParen c => EParen (rplug c e)
  | RNot c => ENot (rplug c e)
  | ROrL c r => EOr (rplug c e) r
  | ROrR l c => EOr l (rplug c e)
  | RAndL c r => EAnd (rplug c e) r
  | RAndR l c => EAnd l (rplug c e)
  | RCmpL op c r => ECmp op (rplug c e) r
  | RCmpR op l c => ECmp op l (rplug c e)
  | RSubL c r => ESub (rplug c e) r
  | RPipeL c r => EPipe (rplug c e) r
  | RIndexL c i => EIndex (Some (rplug c e)) i
  | RSliceL c a b s r => ESlice (Some (rplug c e)) a b s r
  | RListProjL c r => EListProj (Some (rplug c e)) r
  | RFlattenL c r => EFlatten (Some (rplug c e)) r
  | RFilterL c cond r => EFilter (Some (rplug c e)) cond r
  | RValProjL c r => EValProj (Some (rplug c e)) r
  | RMSList before c after => EMSList (before ++ rplug c e :: after)
  | RMSHash before q k c after => EMSHash (before ++ (q, k, rplug c e) :: after)
  | RCallArg name before c after => ECall name (before ++ AExpr (rplug c e) :: after)
  end.

Lemma mapM_app {A B} (f : A -> outcome B) l1 l2 :
  mapM f (l1 ++ l2) = (xs <- mapM f l1 ;; ys <- mapM f l2 ;; Ok (xs ++ ys)).
Proof.
  induction l1 as [|x l1 IH]; cbn.
  - destruct (mapM f l2); reflexivity.
  - destruct (f x); cbn; try reflexivity. rewrite IH.
    destruct (mapM f l1); cbn; try reflexivity. destruct (mapM f l2); reflexivity.
Qed.

(* referential transparency: only the value of the hole against the root matters *)
Theorem rctx_congruence (c : rctx) (e e' : expr) d :
  eval ord e d = eval ord e' d -> eval ord (rplug c e) d = eval ord (rplug c e') d.
Proof.
  intros H. induction c; cbn [rplug].
  - exact H.
  - change (eval ord (EParen (rplug c e)) d) with (eval ord (rplug c e) d).
    change (eval ord (EParen (rplug c e')) d) with (eval ord (rplug c e') d). exact IHc.
  - cbn [eval]. rewrite IHc. reflexivity.
  - cbn [eval]. rewrite IHc. reflexivity.
  - cbn [eval]. rewrite IHc. reflexivity.
  - cbn [eval]. rewrite IHc. reflexivity.
  - cbn [eval]. rewrite IHc. reflexivity.
  - cbn [eval]. rewrite IHc. reflexivity.
  - cbn [eval]. rewrite IHc. reflexivity.
  - cbn [eval]. rewrite IHc. reflexivity.
  - cbn [eval]. rewrite IHc. reflexivity.
  - cbn [eval]. rewrite IHc. reflexivity.
  - cbn [eval]. rewrite IHc. reflexivity.
  - cbn [eval]. rewrite IHc. reflexivity.
  - cbn [eval]. rewrite IHc. reflexivity.
  - cbn [eval]. rewrite IHc. reflexivity.
  - cbn [eval]. rewrite IHc. reflexivity.
  - rewrite !eval_mslist. rewrite !mapM_app. cbn [mapM]. rewrite IHc. reflexivity.
  - rewrite !eval_mshash. rewrite !mapM_app. cbn [mapM snd fst]. rewrite IHc. reflexivity.
  - rewrite !eval_call. rewrite !mapM_app. cbn [mapM eval_arg]. rewrite IHc. reflexivity.
Qed.

(* in particular: replace a sub-expression by the literal of its value *)
Corollary replace_by_literal (c : rctx) (e : expr) d v :
  eval ord e d = Ok v -> eval ord (rplug c e) d = eval ord (rplug c (ELit v)) d.
Proof. intros H. apply rctx_congruence. rewrite H. reflexivity. Qed.

(* ---------- strict contexts ---------- *)
(* the root contexts, plus the positions evaluated against another current node:
   right of "." and "|", right-hand sides and filter conditions of projections
   (on their first element), expression-reference arguments of map *)
Inductive sctx :=
| SRoot (c : rctx)
| SIn (c : rctx) (s : sctx1)
with sctx1 :=
| SSubR (l : expr) (s : sctx)
| SPipeR (l : expr) (s : sctx)
| SListProjR (l : option expr) (dot : bool) (s : sctx)
| SFlattenR (l : option expr) (dot : bool) (s : sctx)
| SFilterCond (l : option expr) (s : sctx) (r : rhs)
| SFilterR (l : option expr) (cond : expr) (dot : bool) (s : sctx)
| SValProjR (l : option expr) (dot : bool) (s : sctx)
| SMapRef (s : sctx) (arr : expr).

Definition mk_rhs (dot : bool) (e : expr) : rhs := if dot then RDot e else RBrk e.

Fixpoint splug (c : sctx) (e : expr) : expr :=
  match c with
  | SRoot c => rplug c e
  | SIn c s => rplug c (splug1 s e)
  end
with splug1 (s : sctx1) (e : expr) : expr :=
  match s with
  | SSubR l s => ESub l (splug s e)
  | SPipeR l s => EPipe l (splug s e)
  | SListProjR l dot s => EListProj l (mk_rhs dot (splug s e))
  | SFlattenR l dot s => EFlatten l (mk_rhs dot (splug s e))
  | SFilterCond l s r => EFilter l (splug s e) r
  | SFilterR l cond dot s => EFilter l cond (mk_rhs dot (splug s e))
  | SValProjR l dot s => EValProj l (mk_rhs dot (splug s e))
  | SMapRef s arr => ECall (str "map") [ARef (splug s e); AExpr arr]
  end.

(* when is the hole of a root context evaluated: everything evaluated before it
   succeeds, and a short-circuiting operator does not skip it *)
Fixpoint rreached (c : rctx) (d : value) : Prop :=
  match c with
  | RHole => True
  | RParen c | RNot c | ROrL c _ | RAndL c _ | RCmpL _ c _ | RSubL c _ | RPipeL c _
  | RIndexL c _ | RSliceL c _ _ _ _ | RListProjL c _ | RFlattenL c _ | RFilterL c _ _ | RValProjL c _ => rreached c d
  | ROrR l c => (exists x, eval ord l d = Ok x /\ truthy x = false) /\ rreached c d
  | RAndR l c => (exists x, eval ord l d = Ok x /\ truthy x = true) /\ rreached c d
  | RCmpR _ l c => (exists x, eval ord l d = Ok x) /\ rreached c d
  | RMSList before c _ => d <> VNull /\ (exists xs, mapM (fun x => eval ord x d) before = Ok xs) /\ rreached c d
  | RMSHash before _ _ c _ =>
    d <> VNull /\
    (exists xs, mapM (fun kv : bool * bytes * expr => y <- eval ord (snd kv) d ;; Ok (snd (fst kv), y)) before = Ok xs) /\
    rreached c d
  | RCallArg _ before c _ => (exists xs, mapM (eval_arg ord d) before = Ok xs) /\ rreached c d
  end.

Lemma rctx_strict (c : rctx) (e : expr) d er :
  rreached c d -> eval ord e d = Err er -> exists er', eval ord (rplug c e) d = Err er'.
Proof.
  intros Hr He. induction c; cbn [rplug]; cbn [rreached] in Hr.
  - eauto.
  - change (eval ord (EParen (rplug c e)) d) with (eval ord (rplug c e) d). auto.
  - destruct (IHc Hr) as [er' E]. cbn [eval]. rewrite E. cbn [bind]. eauto.
  - destruct (IHc Hr) as [er' E]. cbn [eval]. rewrite E. cbn [bind]. eauto.
  - destruct Hr as [[x [Ex Tx]] Hr]. destruct (IHc Hr) as [er' E]. cbn [eval]. rewrite Ex. cbn. rewrite Tx, E. eauto.
  - destruct (IHc Hr) as [er' E]. cbn [eval]. rewrite E. cbn [bind]. eauto.
  - destruct Hr as [[x [Ex Tx]] Hr]. destruct (IHc Hr) as [er' E]. cbn [eval]. rewrite Ex. cbn. rewrite Tx, E. eauto.
  - destruct (IHc Hr) as [er' E]. cbn [eval]. rewrite E. cbn [bind]. eauto.
  - destruct Hr as [[x Ex] Hr]. destruct (IHc Hr) as [er' E]. cbn [eval]. rewrite Ex. cbn [bind]. rewrite E. cbn [bind]. eauto.
  - destruct (IHc Hr) as [er' E]. cbn [eval]. rewrite E. cbn [bind]. eauto.
  - destruct (IHc Hr) as [er' E]. cbn [eval]. rewrite E. cbn [bind]. eauto.
  - destruct (IHc Hr) as [er' E]. cbn [eval]. rewrite E. cbn [bind]. eauto.
  - destruct (IHc Hr) as [er' E]. cbn [eval]. rewrite E. cbn [bind]. eauto.
  - destruct (IHc Hr) as [er' E]. cbn [eval]. rewrite E. cbn [bind]. eauto.
  - destruct (IHc Hr) as [er' E]. cbn [eval]. rewrite E. cbn [bind]. eauto.
  - destruct (IHc Hr) as [er' E]. cbn [eval]. rewrite E. cbn [bind]. eauto.
  - destruct (IHc Hr) as [er' E]. cbn [eval]. rewrite E. cbn [bind]. eauto.
  - destruct Hr as [Hn [[xs Exs] Hr]]. destruct (IHc Hr) as [er' E]. rewrite eval_mslist, mapM_app, Exs. cbn [bind mapM].
    rewrite E. destruct d; try (eexists; reflexivity). contradiction.
  - destruct Hr as [Hn [[xs Exs] Hr]]. destruct (IHc Hr) as [er' E]. rewrite eval_mshash, mapM_app, Exs. cbn [bind mapM snd fst].
    rewrite E. destruct d; try (eexists; reflexivity). contradiction.
  - destruct Hr as [[xs Exs] Hr]. destruct (IHc Hr) as [er' E]. rewrite eval_call, mapM_app, Exs. cbn [bind mapM eval_arg].
    rewrite E. cbn [bind]. eauto.
Qed.

(* when is the hole of a strict context reached, and with which current node *)
Fixpoint sreached (c : sctx) (d v : value) : Prop :=
  match c with
  | SRoot c => rreached c d /\ v = d
  | SIn c s => rreached c d /\ sreached1 s d v
  end
with sreached1 (s : sctx1) (d v : value) : Prop :=
  match s with
  | SSubR l s | SPipeR l s => exists x, eval ord l d = Ok x /\ sreached s x v
  | SListProjR l _ s => exists x0 rest, lhs_eval ord l d = Ok (VArr (x0 :: rest)) /\ sreached s x0 v
  | SFlattenR l _ s => exists xs x0 rest, lhs_eval ord l d = Ok (VArr xs) /\ flatten1 xs = x0 :: rest /\ sreached s x0 v
  | SFilterCond l s _ => exists x0 rest, lhs_eval ord l d = Ok (VArr (x0 :: rest)) /\ sreached s x0 v
  | SFilterR l cond _ s =>
    exists x0 rest, lhs_eval ord l d = Ok (VArr (x0 :: rest)) /\
                    (exists t, eval ord cond x0 = Ok t /\ truthy t = true) /\ sreached s x0 v
  | SValProjR l _ s => exists m x0 rest, lhs_eval ord l d = Ok (VObj m) /\ map snd (ord m) = x0 :: rest /\ sreached s x0 v
  | SMapRef s arr => exists x0 rest, eval ord arr d = Ok (VArr (x0 :: rest)) /\ sreached s x0 v
  end.

Lemma rhs_eval_mk dot x el : rhs_eval ord (mk_rhs dot x) el = eval ord x el.
Proof. destruct dot; reflexivity. Qed.

Scheme sctx_ind2 := Induction for sctx Sort Prop
  with sctx1_ind2 := Induction for sctx1 Sort Prop.
Combined Scheme sctx_mutind from sctx_ind2, sctx1_ind2.

Theorem sctx_strict_both (e : expr) :
  (forall c d v er, sreached c d v -> eval ord e v = Err er -> exists er', eval ord (splug c e) d = Err er') /\
  (forall s d v er, sreached1 s d v -> eval ord e v = Err er -> exists er', eval ord (splug1 s e) d = Err er').
Proof.
  apply sctx_mutind.
  - intros c d v er [Hr ->] He. cbn [splug]. eapply rctx_strict; eauto.
  - intros c s IHs d v er [Hr Hs] He. cbn [splug]. destruct (IHs d v er Hs He) as [er' E].
    eapply rctx_strict; eauto.
  - intros l s IHs d v er [x [Ex Hs]] He. cbn [splug1 eval]. rewrite Ex. cbn [bind]. eapply IHs; eauto.
  - intros l s IHs d v er [x [Ex Hs]] He. cbn [splug1 eval]. rewrite Ex. cbn [bind]. eapply IHs; eauto.
  - intros l dot s IHs d v er [x0 [rest [El Hs]]] He. destruct (IHs x0 v er Hs He) as [er' E].
    cbn [splug1]. change (eval ord (EListProj l (mk_rhs dot (splug s e))) d)
      with (x <- lhs_eval ord l d ;;
            match x with
            | VArr xs => ys0 <- mapM (rhs_eval ord (mk_rhs dot (splug s e))) xs ;; Ok (VArr (drop_nulls ys0))
            | _ => Ok VNull
            end).
    rewrite El. cbn [bind mapM]. rewrite rhs_eval_mk, E. cbn [bind]. eauto.
  - intros l dot s IHs d v er [xs [x0 [rest [El [Ef Hs]]]]] He. destruct (IHs x0 v er Hs He) as [er' E].
    cbn [splug1]. change (eval ord (EFlatten l (mk_rhs dot (splug s e))) d)
      with (x <- lhs_eval ord l d ;;
            match x with
            | VArr xs => ys0 <- mapM (rhs_eval ord (mk_rhs dot (splug s e))) (flatten1 xs) ;; Ok (VArr (drop_nulls ys0))
            | _ => Ok VNull
            end).
    rewrite El. cbn [bind]. rewrite Ef. cbn [mapM]. rewrite rhs_eval_mk, E. cbn [bind]. eauto.
  - intros l s IHs r d v er [x0 [rest [El Hs]]] He. destruct (IHs x0 v er Hs He) as [er' E].
    cbn [splug1]. change (eval ord (EFilter l (splug s e) r) d)
      with (x <- lhs_eval ord l d ;;
            match x with
            | VArr xs => ys <- mapM (fun el => t <- eval ord (splug s e) el ;; if truthy t then rhs_eval ord r el else Ok VNull) xs ;;
                         Ok (VArr (drop_nulls ys))
            | _ => Ok VNull
            end).
    rewrite El. cbn [bind mapM]. rewrite E. cbn [bind]. eauto.
  - intros l cond dot s IHs d v er [x0 [rest [El [[t [Et Tt]] Hs]]]] He. destruct (IHs x0 v er Hs He) as [er' E].
    cbn [splug1]. change (eval ord (EFilter l cond (mk_rhs dot (splug s e))) d)
      with (x <- lhs_eval ord l d ;;
            match x with
            | VArr xs => ys <- mapM (fun el => t <- eval ord cond el ;;
                                               if truthy t then rhs_eval ord (mk_rhs dot (splug s e)) el else Ok VNull) xs ;;
                         Ok (VArr (drop_nulls ys))
            | _ => Ok VNull
            end).
    rewrite El. cbn [bind mapM]. rewrite Et. cbn [bind]. rewrite Tt, rhs_eval_mk, E. cbn [bind]. eauto.
  - intros l dot s IHs d v er [m [x0 [rest [El [Em Hs]]]]] He. destruct (IHs x0 v er Hs He) as [er' E].
    cbn [splug1]. change (eval ord (EValProj l (mk_rhs dot (splug s e))) d)
      with (x <- lhs_eval ord l d ;;
            match x with
            | VObj m => ys0 <- mapM (rhs_eval ord (mk_rhs dot (splug s e))) (map snd (ord m)) ;; Ok (VArr (drop_nulls ys0))
            | _ => Ok VNull
            end).
    rewrite El. cbn [bind]. rewrite Em. cbn [mapM]. rewrite rhs_eval_mk, E. cbn [bind]. eauto.
  - intros s IHs arr d v er [x0 [rest [Ea Hs]]] He. destruct (IHs x0 v er Hs He) as [er' E].
    cbn [splug1]. rewrite eval_call. cbn [mapM eval_arg bind]. rewrite Ea. cbn [bind].
    unfold spec_call. change (well_typed (str "map") [SRef (eval ord (splug s e)); SVal (VArr (x0 :: rest))]) with true.
    cbn iota. change (apply_function ord (str "map") [SRef (eval ord (splug s e)); SVal (VArr (x0 :: rest))])
      with (ys <- mapM (eval ord (splug s e)) (x0 :: rest) ;; Ok (VArr ys)).
    cbn [mapM]. rewrite E. cbn [bind]. eauto.
Qed.

(* the statement of C11 *)
Corollary sctx_strict (c : sctx) (e : expr) d v er :
  sreached c d v -> eval ord e v = Err er -> exists er', eval ord (splug c e) d = Err er'.
Proof. intros. eapply (proj1 (sctx_strict_both e)); eauto. Qed.

End WithNum.

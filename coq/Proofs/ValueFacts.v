(* ValueFacts.v — basic facts about byte strings, values, outcomes and mapM. *)
From JM Require Import Model.Base Model.Num Model.Value.
From Coq Require Import ZifyBool.

Lemma bytes_eqb_refl s : bytes_eqb s s = true.
Proof. induction s as [|c s IH]; cbn; [reflexivity|]. rewrite N.eqb_refl, IH. reflexivity. Qed.

Lemma bytes_eqb_eq a b : bytes_eqb a b = true <-> a = b.
Proof.
  split.
  - revert b. induction a as [|x a IH]; intros [|y b] H; cbn in H; try discriminate; [reflexivity|].
    apply andb_true_iff in H as [H1 H2]. apply N.eqb_eq in H1. apply IH in H2. subst. reflexivity.
  - intros ->. apply bytes_eqb_refl.
Qed.

Lemma bytes_eqb_neq a b : bytes_eqb a b = false <-> a <> b.
Proof.
  split.
  - intros H E. subst. rewrite bytes_eqb_refl in H. discriminate.
  - intros H. destruct (bytes_eqb a b) eqn:E; [|reflexivity]. apply bytes_eqb_eq in E. contradiction.
Qed.

Lemma bind_ok {A B} (x : outcome A) (f : A -> outcome B) a : x = Ok a -> bind x f = f a.
Proof. intros ->. reflexivity. Qed.

Lemma mapM_ext_in {A B} (f g : A -> outcome B) l :
  (forall x, In x l -> f x = g x) -> mapM f l = mapM g l.
Proof.
  induction l as [|x l IH]; intros H; cbn; [reflexivity|].
  rewrite (H x (or_introl eq_refl)). rewrite IH; [reflexivity|]. intros y Hy. apply H. right. exact Hy.
Qed.

Lemma mapM_ok_forall {A B} (f : A -> outcome B) (P : B -> Prop) l ys :
  (forall x y, In x l -> f x = Ok y -> P y) -> mapM f l = Ok ys -> Forall P ys.
Proof.
  revert ys. induction l as [|x l IH]; intros ys H E; cbn in E.
  - inversion E. constructor.
  - destruct (f x) as [y| | |] eqn:Ef; cbn in E; try discriminate.
    destruct (mapM f l) as [zs| | |] eqn:Em; cbn in E; try discriminate.
    inversion E; subst. constructor.
    + eapply H; [left; reflexivity | exact Ef].
    + apply IH; [|reflexivity]. intros a b Ha Hb. eapply H; [right; exact Ha | exact Hb].
Qed.

Lemma mapM_map {A B C} (f : B -> outcome C) (g : A -> B) l :
  mapM f (map g l) = mapM (fun x => f (g x)) l.
Proof. induction l as [|x l IH]; cbn; [reflexivity|]. rewrite IH. reflexivity. Qed.

Section WithNum.
Context {NumO : NumOps}.

(* no expression reference anywhere inside *)
Fixpoint plain (v : value) : bool :=
  match v with
  | VArr l => forallb plain l
  | VObj m => forallb (fun kv => plain (snd kv)) m
  | VExp _ => false
  | _ => true
  end.

Lemma plain_arr l : plain (VArr l) = true <-> Forall (fun x => plain x = true) l.
Proof. cbn. rewrite forallb_forall, Forall_forall. reflexivity. Qed.

Lemma plain_arr_in l x : plain (VArr l) = true -> In x l -> plain x = true.
Proof. intros H Hin. apply plain_arr in H. rewrite Forall_forall in H. auto. Qed.

Lemma plain_obj m : plain (VObj m) = true <-> Forall (fun kv => plain (snd kv) = true) m.
Proof. cbn. rewrite forallb_forall, Forall_forall. reflexivity. Qed.

Lemma plain_obj_get k m x : plain (VObj m) = true -> obj_get k m = Some x -> plain x = true.
Proof.
  intros H. apply plain_obj in H. induction H as [|[k' y] m Hy Hm IH]; cbn; [discriminate|].
  destruct (bytes_eqb k k'); [intros E; inversion E; subst; exact Hy | exact IH].
Qed.

Lemma plain_obj_set k x m :
  plain x = true -> plain (VObj m) = true -> plain (VObj (obj_set k x m)) = true.
Proof.
  intros Hx Hm. apply plain_obj. apply plain_obj in Hm.
  induction Hm as [|[k' y] m Hy Hm IH]; cbn.
  - constructor; [exact Hx | constructor].
  - destruct (bytes_eqb k k'); [constructor; [exact Hx | exact Hm]|].
    destruct (bytes_ltb k k'); repeat (constructor; auto).
Qed.

Lemma plain_filter (p : value -> bool) l :
  plain (VArr l) = true -> plain (VArr (filter p l)) = true.
Proof.
  intros H. apply plain_arr. apply plain_arr in H. rewrite Forall_forall in *.
  intros x Hx. apply filter_In in Hx as [Hx _]. auto.
Qed.

Lemma is_json_plain v : is_json v = true -> plain v = true.
Proof.
  revert v. fix IH 1. intros [ | b | n | s | l | m | r] H; cbn in *; try reflexivity; try discriminate.
  - induction l as [|x l IHl]; cbn in *; [reflexivity|].
    apply andb_true_iff in H as [H1 H2]. rewrite (IH x H1), (IHl H2). reflexivity.
  - apply andb_true_iff in H as [H _].
    induction m as [|[k x] m IHm]; cbn in *; [reflexivity|].
    apply andb_true_iff in H as [H1 H2]. rewrite (IH x H1), (IHm H2). reflexivity.
Qed.

Lemma bytes_ltb_total a b : bytes_eqb a b = false -> bytes_ltb a b = false -> bytes_ltb b a = true.
Proof.
  revert b. induction a as [|x a IH]; intros [|y b]; cbn; intros H1 H2; try discriminate; try reflexivity.
  destruct (N.ltb x y) eqn:E1; [discriminate|]. destruct (N.ltb y x) eqn:E2; [reflexivity|].
  assert (x = y) by lia. subst. rewrite N.eqb_refl in H1. cbn in H1. apply IH; assumption.
Qed.

Lemma obj_set_sorted k v m : obj_sorted m = true -> obj_sorted (obj_set k v m) = true.
Proof.
  induction m as [|[k1 v1] m IH]; intros Hs; [reflexivity|]. cbn [obj_set].
  destruct (bytes_eqb k k1) eqn:Ee.
  - apply bytes_eqb_eq in Ee. subst. exact Hs.
  - destruct (bytes_ltb k k1) eqn:El.
    + cbn [obj_sorted]. rewrite El. exact Hs.
    + assert (Hgt : bytes_ltb k1 k = true).
      { apply bytes_ltb_total; [exact Ee | exact El]. }
      cbn [obj_sorted] in Hs. destruct m as [|[k2 v2] m'].
      * cbn. rewrite Hgt. reflexivity.
      * apply andb_true_iff in Hs as [H12 Hs']. specialize (IH Hs').
        cbn [obj_set] in *. destruct (bytes_eqb k k2) eqn:E2.
        -- cbn [obj_sorted] in *. rewrite Hgt. exact IH.
        -- destruct (bytes_ltb k k2) eqn:L2.
           ++ cbn [obj_sorted] in *. rewrite Hgt. exact IH.
           ++ cbn [obj_sorted] in *. rewrite H12. exact IH.
Qed.


Lemma is_json_arr l : is_json (VArr l) = true <-> Forall (fun x => is_json x = true) l.
Proof. cbn. rewrite forallb_forall, Forall_forall. reflexivity. Qed.

Lemma is_json_obj m :
  is_json (VObj m) = true <-> Forall (fun kv => is_json (snd kv) = true) m /\ obj_sorted m = true.
Proof. cbn. rewrite andb_true_iff, forallb_forall, Forall_forall. reflexivity. Qed.

Lemma is_json_obj_set k v m :
  is_json v = true -> is_json (VObj m) = true -> is_json (VObj (obj_set k v m)) = true.
Proof.
  intros Hv Hm. apply is_json_obj in Hm as [Hall Hs]. apply is_json_obj. split; [|apply obj_set_sorted; exact Hs].
  clear Hs. induction Hall as [|[k1 v1] m H1 Hm IH]; cbn [obj_set].
  - constructor; [exact Hv | constructor].
  - destruct (bytes_eqb k k1); [constructor; [exact Hv | exact Hm]|].
    destruct (bytes_ltb k k1); repeat (constructor; auto).
Qed.

End WithNum.

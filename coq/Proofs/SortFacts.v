(* SortFacts.v — what the stable sort and the "first extremal element" scan
   compute, for any strict weak order on a domain D (numbers: the finite ones;
   byte strings: all).  Used for sort, sort_by, max, min, max_by, min_by (C09). *)
From JM Require Import Model.Base Model.Num Model.Value Model.Functions Spec.Semantics Proofs.ValueFacts.
From Coq Require Import Permutation Sorted.

Section Order.
Context {A : Type} (lt : A -> A -> bool) (D : A -> Prop).

(* strict weak order on D: asymmetric, and "not less" is transitive *)
Record swo : Prop := {
  swo_asym : forall x y, D x -> D y -> lt x y = true -> lt y x = false;
  swo_ntrans : forall x y z, D x -> D y -> D z -> lt x y = false -> lt y z = false -> lt x z = false
}.
Hypothesis H : swo.

Definition le (a b : A) : Prop := lt b a = false.             (* a is not after b *)
Definition eqv (a b : A) : bool := negb (lt a b) && negb (lt b a).

Lemma lt_le_trans x y z : D x -> D y -> D z -> lt x y = true -> lt z y = false -> lt x z = true.
Proof.
  intros Dx Dy Dz Hxy Hzy. destruct (lt x z) eqn:E; [reflexivity|].
  rewrite (swo_ntrans H x z y Dx Dz Dy E Hzy) in Hxy. discriminate.
Qed.

Lemma le_lt_trans x y z : D x -> D y -> D z -> lt y x = false -> lt y z = true -> lt x z = true.
Proof.
  intros Dx Dy Dz Hyx Hyz. destruct (lt x z) eqn:E; [reflexivity|].
  rewrite (swo_ntrans H y x z Dy Dx Dz Hyx E) in Hyz. discriminate.
Qed.

(* ---- insertion ---- *)
Lemma insert_before_split x l :
  exists l1 l2, l = l1 ++ l2 /\ insert_before lt x l = l1 ++ x :: l2 /\
                (forall y, In y l1 -> lt y x = true) /\
                match l2 with [] => True | y :: _ => lt y x = false end.
Proof.
  induction l as [|y r IH]; cbn.
  - exists [], []. repeat split. intros ? [].
  - destruct (lt y x) eqn:E.
    + destruct IH as [l1 [l2 [-> [-> [H1 H2]]]]]. exists (y :: l1), l2. repeat split; [|exact H2].
      intros z [<-|Hz]; [exact E | apply H1; exact Hz].
    + exists [], (y :: r). repeat split; [intros ? []|exact E].
Qed.

Lemma insert_before_in x l y : In y (insert_before lt x l) <-> y = x \/ In y l.
Proof.
  destruct (insert_before_split x l) as [l1 [l2 [-> [-> _]]]]. rewrite !in_app_iff. cbn [In]. intuition.
Qed.

Lemma stable_sort_in l y : In y (stable_sort lt l) <-> In y l.
Proof.
  induction l as [|x l IH]; cbn; [reflexivity|]. rewrite insert_before_in, IH. intuition.
Qed.

Lemma insert_before_sorted x l :
  D x -> Forall D l -> StronglySorted le l -> StronglySorted le (insert_before lt x l).
Proof.
  intros Dx Dl Hs. induction Hs as [|y r Hr IH Hy]; cbn; [repeat constructor|].
  inversion Dl as [|? ? Dy Dr]; subst. destruct (lt y x) eqn:E.
  - constructor; [apply IH; exact Dr|]. rewrite Forall_forall. intros z Hz. apply insert_before_in in Hz as [->|Hz].
    + unfold le. apply (swo_asym H); assumption.
    + rewrite Forall_forall in Hy. apply Hy. exact Hz.
  - constructor; [constructor; assumption|]. constructor; [exact E|].
    rewrite Forall_forall in *. intros z Hz. unfold le in *.
    apply (swo_ntrans H z y x); auto.
Qed.

(* the result is in ascending order: no element is before a smaller one *)
Theorem stable_sort_sorted l : Forall D l -> StronglySorted le (stable_sort lt l).
Proof.
  induction l as [|x l IH]; intros Hd; cbn; [constructor|]. inversion Hd as [|? ? Dx Dl]; subst.
  apply insert_before_sorted; [exact Dx | | apply IH; exact Dl].
  rewrite Forall_forall in *. intros y Hy. apply (proj1 (stable_sort_in _ _)) in Hy. auto.
Qed.

Lemma filter_false {B} (p : B -> bool) l : (forall y, In y l -> p y = false) -> filter p l = [].
Proof. induction l as [|y l IH]; intros Hf; cbn; [reflexivity|]. rewrite (Hf y (or_introl eq_refl)). apply IH. intros; apply Hf; right; assumption. Qed.

(* ... and it is stable: the elements equivalent to any a come out in their input order *)
Lemma insert_before_stable a x l :
  D a -> D x -> Forall D l -> filter (eqv a) (insert_before lt x l) = filter (eqv a) (x :: l).
Proof.
  intros Da Dx Dl. destruct (insert_before_split x l) as [l1 [l2 [-> [-> [H1 _]]]]].
  rewrite !filter_app. cbn [filter]. rewrite filter_app. destruct (eqv a x) eqn:E; [|reflexivity].
  rewrite (filter_false (eqv a) l1); [reflexivity|]. intros y Hy. specialize (H1 y Hy).
  assert (Dy : D y) by (rewrite Forall_forall in Dl; apply Dl; apply in_app_iff; left; exact Hy).
  unfold eqv in *. apply andb_true_iff in E as [E1 E2]. apply negb_true_iff in E1, E2.
  (* y < x and a ~ x give y < a *)
  rewrite (lt_le_trans y x a Dy Dx Da H1 E1). rewrite andb_false_r. reflexivity.
Qed.

Theorem stable_sort_stable a l :
  D a -> Forall D l -> filter (eqv a) (stable_sort lt l) = filter (eqv a) l.
Proof.
  intros Da. induction l as [|x l IH]; intros Dl; [reflexivity|]. inversion Dl as [|? ? Dx Dl']; subst. cbn [stable_sort].
  rewrite insert_before_stable; [| exact Da | exact Dx |].
  - cbn [filter]. rewrite IH; auto.
  - rewrite Forall_forall in *. intros y Hy. apply (proj1 (stable_sort_in _ _)) in Hy. auto.
Qed.

(* ---- the first extremal element ---- *)
(* first_best better l with better y x := "y strictly beats x": the result beats
   every earlier element and no later element beats it *)
Lemma fold_best_spec (better : A -> A -> bool) (Hb : forall y x, better y x = lt x y) :
  forall r pre b mid, D b -> Forall D pre -> Forall D mid -> Forall D r ->
    (forall y, In y pre -> lt y b = true) -> (forall y, In y mid -> lt b y = false) ->
    exists l1 l2 x, pre ++ b :: mid ++ r = l1 ++ x :: l2 /\
                    fold_left (fun best y => if better y best then y else best) r b = x /\
                    (forall y, In y l1 -> lt y x = true) /\ (forall y, In y l2 -> lt x y = false).
Proof.
  induction r as [|y r IH]; intros pre b mid Db Dpre Dmid Dr Hpre Hmid.
  - exists pre, mid, b. rewrite app_nil_r. repeat split; assumption.
  - inversion Dr as [|? ? Dy Dr']; subst. cbn [fold_left]. rewrite Hb. destruct (lt b y) eqn:E.
    + (* y becomes the best; everything before it is strictly below it *)
      destruct (IH (pre ++ b :: mid) y [] Dy) as [l1 [l2 [x [E1 [E2 [H1 H2]]]]]]; auto.
      * apply Forall_app. split; [exact Dpre | constructor; assumption].
      * intros z Hz. apply in_app_iff in Hz as [Hz|[<-|Hz]]; [| exact E |].
        -- assert (Dz : D z) by (rewrite Forall_forall in Dpre; auto).
           apply (le_lt_trans z b y Dz Db Dy); [|exact E]. apply (swo_asym H); auto.
        -- assert (Dz : D z) by (rewrite Forall_forall in Dmid; auto).
           apply (le_lt_trans z b y Dz Db Dy); [|exact E]. apply Hmid. exact Hz.
      * intros ? [].
      * exists l1, l2, x. rewrite <- app_assoc in E1. cbn in E1. repeat split; assumption.
    + (* b stays; y comes after it and does not beat it *)
      destruct (IH pre b (mid ++ [y]) Db Dpre) as [l1 [l2 [x [E1 [E2 [H1 H2]]]]]]; auto.
      * apply Forall_app. split; [exact Dmid | constructor; [exact Dy | constructor]].
      * intros z Hz. apply in_app_iff in Hz as [Hz|[<-|[]]]; [apply Hmid; exact Hz | exact E].
      * exists l1, l2, x. rewrite <- app_assoc in E1. cbn in E1. repeat split; assumption.
Qed.

(* maximum: better y x := x < y.  The answer is the first of the greatest elements. *)
Theorem first_max_spec l x :
  Forall D l -> first_best (fun y x => lt x y) l = Some x ->
  exists l1 l2, l = l1 ++ x :: l2 /\ (forall y, In y l1 -> lt y x = true) /\ (forall y, In y l2 -> lt x y = false).
Proof.
  destruct l as [|b r]; [discriminate|]. intros Dl E. cbn in E. inversion E as [E']. inversion Dl as [|? ? Db Dr]; subst.
  assert (N1 : forall y, In y [] -> lt y b = true) by (intros ? []).
  assert (N2 : forall y, In y [] -> lt b y = false) by (intros ? []).
  destruct (fold_best_spec (fun y x => lt x y) (fun _ _ => eq_refl) r [] b [] Db (Forall_nil _) (Forall_nil _) Dr N1 N2)
    as [l1 [l2 [x0 [E1 [E2 [H1 H2]]]]]].
  exists l1, l2. cbn in E1. rewrite E2 in *. repeat split; assumption.
Qed.

Lemma first_best_none {B} (better : B -> B -> bool) l : first_best better l = None <-> l = [].
Proof. destruct l; cbn; split; intros; congruence. Qed.

End Order.

(* minimum: the same scan for the converse order *)
Section Min.
Context {A : Type} (lt : A -> A -> bool) (D : A -> Prop).
Hypothesis H : swo lt D.

Lemma swo_flip : swo (fun a b => lt b a) D.
Proof.
  constructor.
  - intros x y Dx Dy E. apply (swo_asym lt D H); assumption.
  - intros x y z Dx Dy Dz E1 E2. apply (swo_ntrans lt D H z y x); assumption.
Qed.

Theorem first_min_spec l x :
  Forall D l -> first_best (fun y x => lt y x) l = Some x ->
  exists l1 l2, l = l1 ++ x :: l2 /\ (forall y, In y l1 -> lt x y = true) /\ (forall y, In y l2 -> lt y x = false).
Proof. intros Dl E. apply (first_max_spec (fun a b => lt b a) D swo_flip l x Dl E). Qed.
End Min.

(* byte strings under bytes_ltb (code-point order = byte order for UTF-8) are a strict total order *)
Lemma bytes_ltb_irrefl a : bytes_ltb a a = false.
Proof. induction a as [|x a IH]; cbn; [reflexivity|]. rewrite N.ltb_irrefl. exact IH. Qed.

Lemma bytes_ltb_trans : forall a b c, bytes_ltb a b = true -> bytes_ltb b c = true -> bytes_ltb a c = true.
Proof.
  induction a as [|x a IH]; intros [|y b] [|z c]; cbn; intros H1 H2; try discriminate; try reflexivity.
  destruct (N.ltb_spec x y) as [Lxy|Gxy].
  - destruct (N.ltb_spec y z) as [Lyz|Gyz].
    + destruct (N.ltb_spec x z); [reflexivity | lia].
    + destruct (N.ltb_spec z y); [discriminate|]. assert (y = z) by lia. subst.
      destruct (N.ltb_spec x z); [reflexivity | lia].
  - destruct (N.ltb_spec y x); [discriminate|]. assert (x = y) by lia. subst.
    destruct (N.ltb_spec y z); [reflexivity|]. destruct (N.ltb_spec z y); [discriminate|]. eapply IH; eauto.
Qed.

Lemma bytes_ltb_asym a b : bytes_ltb a b = true -> bytes_ltb b a = false.
Proof.
  intros E. destruct (bytes_ltb b a) eqn:E2; [|reflexivity].
  pose proof (bytes_ltb_trans a b a E E2) as C. rewrite bytes_ltb_irrefl in C. discriminate.
Qed.

Lemma bytes_swo : swo bytes_ltb (fun _ => True).
Proof.
  constructor.
  - intros x y _ _. apply bytes_ltb_asym.
  - intros x y z _ _ _ E1 E2. destruct (bytes_ltb x z) eqn:E; [|reflexivity].
    (* x < z; y is not above x ... so y <= x < z, contradiction with not (y < z) *)
    destruct (bytes_eqb x y) eqn:Exy.
    + apply bytes_eqb_eq in Exy. subst. congruence.
    + assert (Hyx : bytes_ltb y x = true) by (apply bytes_ltb_total; [exact Exy | exact E1]).
      rewrite (bytes_ltb_trans y x z Hyx E) in E2. discriminate.
Qed.

(* LexText.v — the lexer on the canonical text of a token list (every token
   followed by one space): it reads back exactly those tokens.  With the Pratt
   theorem this gives Compile (text of e) = compile e for every well-precedenced
   tree, at the level of bytes. *)
From JM Require Import Model.Base Model.Num Model.Utf8 Model.Value Model.JsonText Model.Lexer Model.Parser Model.Slice
     Model.Functions Model.Interp Model.Api.
From JM Require Import Spec.Grammar.
From JM Require Import gen.Tables Proofs.TablesOk Proofs.ValueFacts Proofs.LexerTotal Proofs.LexView Proofs.Utf8Facts
     Proofs.JsonString Proofs.LexSpell Proofs.ParserTotal Proofs.ParserComplete Proofs.InterpRefine.
From JM Require Import Spec.Semantics.
From Coq Require Import ZifyBool ZifyN ZifyNat.

Section WithNum.
Context {NumO : NumOps}.

(* the four whitespace characters: space, tab, line feed, carriage return *)
Definition wsc (c : N) : Prop := c = 32%N \/ c = 9%N \/ c = 10%N \/ c = 13%N.

Lemma lex_space c f p rest w acc : wsc c ->
  tokenize_loopS (S f) (AS p (c :: rest) w) acc = tokenize_loopS f (AS (p + 1) rest 1) acc.
Proof. intros [->|[->|[->| ->]]]; reflexivity. Qed.

Lemma lex_dot f p rest w acc :
  tokenize_loopS (S f) (AS p (46%N :: rest) w) acc =
  tokenize_loopS f (AS (p + 1) rest 1) (Token tDot (str ".") (p + 1 - 1) 1 :: acc).
Proof. reflexivity. Qed.

Lemma lex_pipe f p rest w acc :
  tokenize_loopS (S f) (AS p (124%N :: 32%N :: rest) w) acc =
  tokenize_loopS f (AS (p + 1) (32%N :: rest) 1) (Token tPipe (str "|") (p + 1 - 1) 1 :: acc).
Proof. reflexivity. Qed.

Lemma lex_or f p rest w acc :
  tokenize_loopS (S f) (AS p (124%N :: 124%N :: rest) w) acc =
  tokenize_loopS f (AS (p + 1 + 1) rest 1) (Token tOr (str "||") (p + 1 - 1) 2 :: acc).
Proof. reflexivity. Qed.


(* ---- tokens with a fixed text ---- *)
Definition fixed_text (ty : tokType) : option bytes :=
  match ty with
  | tDot => Some (str ".") | tStar => Some (str "*") | tLparen => Some (str "(") | tRparen => Some (str ")")
  | tLbracket => Some (str "[") | tRbracket => Some (str "]") | tLbrace => Some (str "{") | tRbrace => Some (str "}")
  | tComma => Some (str ",") | tColon => Some (str ":") | tCurrent => Some (str "@")
  | tFilter => Some (str "[?") | tFlatten => Some (str "[]") | tPipe => Some (str "|") | tOr => Some (str "||")
  | tAnd => Some (str "&&") | tNot => Some (str "!") | tExpref => Some (str "&")
  | tEQ => Some (str "==") | tNE => Some (str "!=") | tLT => Some (str "<") | tLTE => Some (str "<=")
  | tGT => Some (str ">") | tGTE => Some (str ">=")
  | _ => None
  end.

(* the state after a token: position, remaining input, width of the last rune read *)
Definition lexed (c : N) (f : nat) (p : Z) (text rest : bytes) (w : Z) (acc : list token) (ty : tokType) (v : bytes) : Prop :=
  exists tok p' k, ttype tok = ty /\ tvalue tok = v /\ p' = p + zlen text /\
    tokenize_loopS (S f) (AS p (text ++ c :: rest) w) acc = tokenize_loopS f (AS p' (c :: rest) k) (tok :: acc).

Lemma lex_fixed_aux c ty txt f p rest w acc : wsc c -> fixed_text ty = Some txt ->
  exists tok p' k,
    tokenize_loopS (S f) (AS p (txt ++ c :: rest) w) acc = tokenize_loopS f (AS p' (c :: rest) k) (tok :: acc) /\
    ttype tok = ty /\ tvalue tok = txt /\ p' = p + zlen txt.
Proof.
  intros Hc H. destruct Hc as [->|[->|[->| ->]]]; destruct ty; cbn [fixed_text] in H; inversion H; subst txt;
    (eexists _, _, _; split; [reflexivity|]; split; [reflexivity|]; split; [reflexivity|]; unfold zlen; cbn [length str]; cbn; lia).
Qed.

Lemma lex_fixed c ty txt f p rest w acc : wsc c -> fixed_text ty = Some txt -> lexed c f p txt rest w acc ty txt.
Proof.
  intros Hc H. destruct (lex_fixed_aux c ty txt f p rest w acc Hc H) as [tok [p' [k [H1 [H2 [H3 H4]]]]]].
  exists tok, p', k. auto.
Qed.


(* ---- numbers ---- *)
Lemma wsc_facts c : wsc c -> N.ltb c 128 = true /\ ((Z.of_N c <? 48) || (57 <? Z.of_N c)) = true.
Proof. intros [->|[->|[->| ->]]]; split; reflexivity. Qed.

Lemma number_loopS_spec : forall c ds fuel p rest w, wsc c -> forallb is_digit ds = true -> (length ds < fuel)%nat ->
  number_loopS fuel (AS p (ds ++ c :: rest) w) = Ok (AS (p + zlen ds) (c :: rest) 1).
Proof.
  intros c0 ds. induction ds as [|c ds IH]; intros fuel p rest w Hws Hd Hf.
  - destruct fuel as [|f]; [cbn in Hf; lia|]. destruct (wsc_facts c0 Hws) as [H1 H2].
    cbn [number_loopS app]. unfold nextS at 1, peekS. cbn [asuf ap]. rewrite (stepS_ascii c0 _ H1). rewrite H2.
    unfold zlen. cbn [length snd]. rewrite Z.add_0_r. reflexivity.
  - destruct fuel as [|f]; [cbn in Hf; lia|]. cbn [forallb] in Hd. apply andb_true_iff in Hd as [Hc Hd].
    assert (Hc128 : N.ltb c 128 = true) by (unfold is_digit in Hc; lia).
    cbn [number_loopS app]. unfold nextS at 1. cbn [asuf ap]. rewrite (stepS_ascii c _ Hc128).
    assert ((Z.of_N c <? 48) || (57 <? Z.of_N c) = false) as -> by (unfold is_digit in Hc; lia).
    rewrite IH by (auto; cbn in Hf; lia). f_equal. f_equal. unfold zlen. cbn [length]. lia.
Qed.

(* the text of a number token: an optional minus sign, then digits *)
Definition number_text (v : bytes) : bool :=
  match v with
  | [] => false
  | c :: ds =>
    if N.eqb c 45 then match ds with [] => false | _ => forallb is_digit ds end
    else is_digit c && forallb is_digit ds
  end.

Lemma lex_number sp v f p rest w acc : wsc sp -> 0 <= p -> number_text v = true -> lexed sp f p v rest w acc tNumber v.
Proof.
  intros Hsp Hp Hn. unfold lexed. destruct v as [|c ds]; [discriminate|].
  assert (Hfirst : (Z.of_N c =? 45) || ((48 <=? Z.of_N c) && (Z.of_N c <=? 57)) = true /\ N.ltb c 128 = true /\
                   forallb is_digit ds = true /\ ident_start (Z.of_N c) = false /\ assoc_Z (Z.of_N c) basic_tokens = None).
  { cbn [number_text] in Hn. destruct (N.eqb_spec c 45) as [->|Hne].
    - destruct ds as [|d ds']; [discriminate|]. repeat split; try reflexivity. exact Hn.
    - apply andb_true_iff in Hn as [Hd1 Hd2]. unfold is_digit in Hd1. repeat split; try lia; try exact Hd2.
      + rewrite ident_start_ok by lia. unfold is_alpha_Z. lia.
      + rewrite basic_tokens_ok. repeat match goal with |- context [if ?b then _ else _] => destruct b eqn:?; try lia end. reflexivity. }
  destruct Hfirst as [H1 [H2 [H3 [H4 H5]]]].
  assert (Hloop : tokenize_loopS (S f) (AS p ((c :: ds) ++ sp :: rest) w) acc =
                  tokenize_loopS f (AS (p + zlen (c :: ds)) (sp :: rest) 1) (Token tNumber (c :: ds) p (zlen (c :: ds)) :: acc)).
  { cbn [tokenize_loopS app]. unfold nextS at 1. cbn [asuf ap]. rewrite (stepS_ascii c _ H2). rewrite H4, H5, H1.
    unfold consumeNumberS. cbn [ap aw asuf].
    rewrite (number_loopS_spec sp ds _ (p + 1) rest 1 Hsp H3) by (cbn [length]; rewrite app_length; cbn [length]; lia).
    cbn [bind ap]. replace (p + 1 - 1) with p by lia. rewrite Z.eqb_refl. unfold sliceS.
    assert ((0 <=? p) && (p <=? p + 1 + zlen ds) && (p + 1 + zlen ds <=? p + zlen (c :: ds ++ sp :: rest)) = true) as ->.
    { unfold zlen. cbn [length]. rewrite app_length. cbn [length]. lia. }
    cbn [bind]. replace (Z.to_nat (p + 1 + zlen ds - p)) with (length (c :: ds)) by (unfold zlen; cbn [length]; lia).
    change (c :: ds ++ sp :: rest) with ((c :: ds) ++ sp :: rest). rewrite firstn_app_exact.
    replace (p + 1 + zlen ds) with (p + zlen (c :: ds)) by (unfold zlen; cbn [length]; lia).
    replace (p + zlen (c :: ds) - p) with (zlen (c :: ds)) by lia. reflexivity. }
  eexists _, _, _. split; [|split; [|split; [reflexivity | exact Hloop]]]; reflexivity.
Qed.


(* ---- identifiers, strings, literals followed by a space ---- *)
Lemma lexed_unquoted sp name f p rest w acc : wsc sp -> 0 <= p -> valid_unquoted name = true ->
  lexed sp f p name rest w acc tUnquotedIdentifier name.
Proof.
  intros Hsp Hp Hv.
  assert (Hst : stops (sp :: rest)) by (destruct Hsp as [->|[->|[->| ->]]]; reflexivity).
  destruct (lex_unquoted name (sp :: rest) f p w acc Hv Hst Hp) as [k Hk].
  eexists _, _, k. split; [|split; [|split; [reflexivity | exact Hk]]]; reflexivity.
Qed.

Ltac first_char c :=
  cbn [tokenize_loopS app]; unfold nextS at 1; cbn [asuf ap]; rewrite (stepS_ascii c) by reflexivity;
  let r1 := eval vm_compute in (ident_start (Z.of_N c)) in change (ident_start (Z.of_N c)) with r1;
  let r2 := eval vm_compute in (assoc_Z (Z.of_N c) basic_tokens) in change (assoc_Z (Z.of_N c) basic_tokens) with r2;
  cbn iota.

Lemma lexed_quoted sp rs f p rest w acc : 0 <= p -> forallb valid_rune rs = true ->
  lexed sp f p (marshal_string (string_of_runes rs)) rest w acc tQuotedIdentifier (string_of_runes rs).
Proof.
  intros Hp Hv. rewrite marshal_string_escape by exact Hv.
  assert (Hloop : tokenize_loopS (S f) (AS p ((34%N :: json_escape rs ++ [34%N]) ++ sp :: rest) w) acc =
                  tokenize_loopS f (AS (p + zlen (34%N :: json_escape rs ++ [34%N])) (sp :: rest) 1)
                    (Token tQuotedIdentifier (string_of_runes rs) p (zlen (string_of_runes rs)) :: acc)).
  { first_char 34%N. cbn -[tokenize_loopS consumeQuotedIdentifierS json_escape].
    unfold consumeQuotedIdentifierS. change 34 with (Z.of_N 34).
    rewrite <- app_assoc. cbn [app].
    rewrite (consumeUntilS_clean 34 (p + 1) (json_escape rs) (sp :: rest) 1) by (first [reflexivity | lia | (apply clean_json_escape; exact Hv)]).
    cbn [bind]. rewrite (unquote_escape rs Hv). cbn [bind ap].
    replace (p + 1 - 1) with p by lia.
    replace (p + 1 + zlen (json_escape rs) + 1) with (p + zlen (34%N :: json_escape rs ++ [34%N])) by (unfold zlen; cbn [length]; rewrite app_length; cbn [length]; lia).
    reflexivity. }
  eexists _, _, _. split; [|split; [|split; [reflexivity | exact Hloop]]]; reflexivity.
Qed.

Lemma lexed_raw sp x f p rest w acc : 0 <= p -> raw_ok x = true ->
  lexed sp f p (39%N :: raw_escape x ++ [39%N]) rest w acc tStringLiteral x.
Proof.
  intros Hp Hok.
  assert (Hloop : tokenize_loopS (S f) (AS p ((39%N :: raw_escape x ++ [39%N]) ++ sp :: rest) w) acc =
                  tokenize_loopS f (AS (p + zlen (39%N :: raw_escape x ++ [39%N])) (sp :: rest) 1)
                    (Token tStringLiteral x (p + 1) (zlen x) :: acc)).
  { first_char 39%N. cbn -[tokenize_loopS consumeRawStringLiteralS raw_escape].
    rewrite <- app_assoc. cbn [app].
    rewrite consumeRawS_scan by lia. rewrite raw_scan_bytes by lia.
    rewrite raw_escape_roundtrip by exact Hok. cbn [bind].
    replace (p + 1 + zlen (raw_escape x ++ 39%N :: sp :: rest) - zlen (sp :: rest)) with (p + zlen (39%N :: raw_escape x ++ [39%N]))
      by (unfold zlen; cbn [length]; rewrite !app_length; cbn [length]; lia).
    reflexivity. }
  eexists _, _, _. split; [|split; [|split; [reflexivity | exact Hloop]]]; reflexivity.
Qed.

Lemma lexed_literal sp t f p rest w acc : 0 <= p -> paired t = true ->
  lexed sp f p (96%N :: lit_escape t ++ [96%N]) rest w acc tJSONLiteral t.
Proof.
  intros Hp Hok.
  assert (Hloop : tokenize_loopS (S f) (AS p ((96%N :: lit_escape t ++ [96%N]) ++ sp :: rest) w) acc =
                  tokenize_loopS f (AS (p + zlen (96%N :: lit_escape t ++ [96%N])) (sp :: rest) 1)
                    (Token tJSONLiteral t (p + 1) (zlen t) :: acc)).
  { first_char 96%N. cbn -[tokenize_loopS consumeLiteralS lit_escape].
    unfold consumeLiteralS. change 96 with (Z.of_N 96) at 1.
    rewrite <- app_assoc. cbn [app].
    rewrite (consumeUntilS_clean 96 (p + 1) (lit_escape t) (sp :: rest) 1) by (first [reflexivity | lia | (apply (lit_escape_clean (length t)); [lia | exact Hok])]).
    cbn [bind ap]. rewrite lit_unescape.
    replace (p + 1 + zlen (lit_escape t) + 1) with (p + zlen (96%N :: lit_escape t ++ [96%N])) by (unfold zlen; cbn [length]; rewrite app_length; cbn [length]; lia).
    reflexivity. }
  eexists _, _, _. split; [|split; [|split; [reflexivity | exact Hloop]]]; reflexivity.
Qed.


(* ---- any token ---- *)
Definition utf8_ok (v : bytes) : bool :=
  forallb valid_rune (runes_of v) && bytes_eqb (string_of_runes (runes_of v)) v.

(* a literal token also has to hold a JSON text (for what follows the lexer) *)
Definition json_valid (t : bytes) : bool := match json_unmarshal t with Some _ => true | None => false end.

Definition lexable (t : token) : bool :=
  match ttype t with
  | tUnquotedIdentifier => valid_unquoted (tvalue t)
  | tQuotedIdentifier => utf8_ok (tvalue t)
  | tNumber => number_text (tvalue t)
  | tStringLiteral => raw_ok (tvalue t)
  | tJSONLiteral => paired (tvalue t) && json_valid (tvalue t)
  | ty => match fixed_text ty with Some txt => bytes_eqb (tvalue t) txt | None => false end
  end.

Definition spell_tok (t : token) : bytes :=
  match ttype t with
  | tQuotedIdentifier => marshal_string (tvalue t)
  | tStringLiteral => 39%N :: raw_escape (tvalue t) ++ [39%N]
  | tJSONLiteral => 96%N :: lit_escape (tvalue t) ++ [96%N]
  | _ => tvalue t
  end.

Lemma lex_token sp t f p rest w acc : wsc sp -> 0 <= p -> lexable t = true ->
  lexed sp f p (spell_tok t) rest w acc (ttype t) (tvalue t).
Proof.
  intros Hsp Hp Hl. unfold lexable, spell_tok in *. destruct (ttype t) eqn:Ety; cbn [fixed_text] in Hl; try discriminate;
    try (apply bytes_eqb_eq in Hl; rewrite Hl; apply lex_fixed; [exact Hsp | reflexivity]).
  - apply lex_number; assumption.
  - apply lexed_unquoted; assumption.
  - unfold utf8_ok in Hl. apply andb_true_iff in Hl as [H1 H2]. apply bytes_eqb_eq in H2.
    rewrite <- H2 at 1. rewrite <- H2 at 2. apply lexed_quoted; assumption.
  - apply andb_true_iff in Hl as [Hl _]. apply lexed_literal; assumption.
  - apply lexed_raw; assumption.
Qed.

Lemma spell_tok_nonempty t : lexable t = true -> spell_tok t <> [].
Proof.
  unfold lexable, spell_tok. destruct (ttype t); cbn [fixed_text]; intros H; try discriminate;
    try (apply bytes_eqb_eq in H; rewrite H; discriminate).
  all: destruct (tvalue t); discriminate.
Qed.

(* ---- whole texts: every token followed by a non-empty run of whitespace ---- *)
Definition ws_ok (w : bytes) : Prop := w <> [] /\ Forall wsc w.

Lemma lex_ws_run : forall ws f p rest k acc, Forall wsc ws -> ws <> [] ->
  tokenize_loopS (length ws + f) (AS p (ws ++ rest) k) acc = tokenize_loopS f (AS (p + zlen ws) rest 1) acc.
Proof.
  induction ws as [|c ws IH]; intros f p rest k acc Hall Hne; [congruence|].
  inversion Hall as [|? ? Hc Hall']; subst. cbn [length Nat.add app]. rewrite (lex_space c _ _ _ _ _ Hc).
  destruct ws as [|c2 ws'].
  - cbn [app length Nat.add]. unfold zlen. cbn [length]. reflexivity.
  - rewrite (IH f (p + 1) rest 1 acc Hall' ltac:(discriminate)). f_equal. f_equal. unfold zlen. cbn [length]. lia.
Qed.

(* a text: tokens, each with the whitespace that follows it *)
Definition text_ws (l : list (token * bytes)) : bytes := concat (map (fun tw => spell_tok (fst tw) ++ snd tw) l).

Lemma text_ws_cons t w l : text_ws ((t, w) :: l) = spell_tok t ++ w ++ text_ws l.
Proof. unfold text_ws. cbn [map concat fst snd]. rewrite <- app_assoc. reflexivity. Qed.

Definition same_tv (a b : token) : Prop := ttype a = ttype b /\ tvalue a = tvalue b.

Definition steps (l : list (token * bytes)) : nat := fold_right (fun tw n => (S (length (snd tw)) + n)%nat) 0%nat l.

Lemma lex_text_ws : forall l f p w acc,
  Forall (fun tw : token * bytes => lexable (fst tw) = true /\ ws_ok (snd tw)) l -> 0 <= p -> (steps l < f)%nat ->
  exists out, tokenize_loopS f (AS p (text_ws l) w) acc = Ok (rev acc ++ out ++ [Token tEOF [] (p + zlen (text_ws l)) 0]) /\
              Forall2 same_tv out (map fst l).
Proof.
  induction l as [|[t ws] l IH]; intros f p w acc Hl Hp Hf.
  - destruct f as [|f]; [cbn in Hf; lia|]. exists []. split; [|constructor]. cbn [text_ws map concat]. rewrite lex_eof.
    cbn [rev app]. unfold zlen. cbn [length]. rewrite Z.add_0_r. reflexivity.
  - inversion Hl as [|? ? [Ht [Hne Hws]] Hl']; subst. cbn [fst snd] in *. cbn [steps fold_right snd] in Hf. fold (steps l) in Hf.
    rewrite text_ws_cons.
    destruct ws as [|c ws']; [congruence|]. inversion Hws as [|? ? Hc Hws']; subst.
    assert (Hfuel : exists f', f = S (length (c :: ws') + f') /\ (steps l < f')%nat).
    { exists (f - S (length (c :: ws')))%nat. cbn [length] in *. split; lia. }
    destruct Hfuel as [f' [-> Hf']].
    destruct (lex_token c t (length (c :: ws') + f') p (ws' ++ text_ws l) w acc Hc Hp Ht) as [tok [p' [k [T1 [T2 [Hp' Hloop]]]]]].
    change ((c :: ws') ++ text_ws l) with (c :: ws' ++ text_ws l). rewrite Hloop.
    change (c :: ws' ++ text_ws l) with ((c :: ws') ++ text_ws l).
    rewrite (lex_ws_run (c :: ws') f' p' (text_ws l) k (tok :: acc) Hws ltac:(discriminate)).
    destruct (IH f' (p' + zlen (c :: ws')) 1 (tok :: acc) Hl'
                 ltac:(pose proof (Zle_0_nat (length (spell_tok t))); unfold zlen in *; lia) Hf') as [out [Hout Hsame]].
    exists (tok :: out). split.
    + rewrite Hout. cbn [rev]. rewrite <- !app_assoc. cbn [app].
      replace (p' + zlen (c :: ws') + zlen (text_ws l)) with (p + zlen (spell_tok t ++ (c :: ws') ++ text_ws l)); [reflexivity|].
      subst p'. unfold zlen. rewrite !app_length. lia.
    + cbn [map fst]. constructor; [split; assumption | exact Hsame].
Qed.

Lemma steps_len l : Forall (fun tw : token * bytes => lexable (fst tw) = true /\ ws_ok (snd tw)) l ->
  (steps l <= length (text_ws l))%nat.
Proof.
  induction 1 as [|[t w] l [Ht _] Hl IH]; [cbn; lia|]. rewrite text_ws_cons, !app_length. cbn [steps fold_right fst snd] in *. fold (steps l).
  pose proof (spell_tok_nonempty t Ht) as Hn. destruct (spell_tok t); [congruence|]. cbn [length]. lia.
Qed.

(* the canonical text: one space after every token *)
Definition spaced (l : list token) : list (token * bytes) := map (fun t => (t, [32%N])) l.
Definition text_of (l : list token) : bytes := text_ws (spaced l).

Lemma spaced_ok l : Forall (fun t => lexable t = true) l ->
  Forall (fun tw : token * bytes => lexable (fst tw) = true /\ ws_ok (snd tw)) (spaced l).
Proof.
  induction 1 as [|t l Ht Hl IH]; constructor; [|exact IH]. cbn [fst snd]. split; [exact Ht|].
  split; [discriminate | constructor; [left; reflexivity | constructor]].
Qed.

Lemma map_fst_spaced l : map fst (spaced l) = l.
Proof. unfold spaced. rewrite map_map. cbn [fst]. apply map_id. Qed.

Lemma Forall2_nth {A B} (R : A -> B -> Prop) a b : Forall2 R a b ->
  forall k t, nth_error b k = Some t -> exists t', nth_error a k = Some t' /\ R t' t.
Proof.
  induction 1 as [|x y a b Hxy Hab IH]; intros k t Hk; [destruct k; discriminate|].
  destruct k as [|k]; cbn in *; [inversion Hk; subst; eauto | apply IH; exact Hk].
Qed.

Lemma noeof_eof_wf out t : noeof out -> ttype t = tEOF -> wf_tokens (out ++ [t]).
Proof.
  intros Hn Ht. unfold wf_tokens. rewrite app_length. cbn [length]. split; [lia|]. intros i t0 Hi.
  replace (length out + 1 - 1)%nat with (length out) by lia.
  destruct (Nat.lt_ge_cases i (length out)) as [Hlt|Hge].
  - rewrite nth_error_app1 in Hi by exact Hlt. unfold noeof in Hn. rewrite Forall_forall in Hn.
    specialize (Hn t0 (nth_error_In _ _ Hi)). split; [intros E; contradiction | intros E; lia].
  - rewrite nth_error_app2 in Hi by exact Hge. destruct (i - length out)%nat as [|k] eqn:Ek.
    + cbn in Hi. inversion Hi; subst. split; [intros _; lia | intros _; exact Ht].
    + cbn in Hi. destruct k; discriminate.
Qed.

Lemma same_tv_noeof a b : Forall2 same_tv a b -> noeof b -> noeof a.
Proof.
  unfold noeof. induction 1 as [|x y a b [Hxy _] Hab IH]; intros Hn; [constructor|]. inversion Hn; subst.
  constructor; [congruence | apply IH; assumption].
Qed.


(* ---- the tokens of a rendered tree are lexable ---- *)
Lemma pos_digits_digits : forall f z, 0 <= z -> forallb is_digit (pos_digits f z []) = true.
Proof.
  induction f as [|f IH]; intros z Hz; [reflexivity|]. cbn [pos_digits]. destruct (z <? 10) eqn:E.
  - cbn [forallb]. unfold is_digit. lia.
  - rewrite pos_digits_acc, forallb_app, IH by (apply Z.div_pos; lia). cbn [forallb andb].
    pose proof (Z.mod_pos_bound z 10 ltac:(lia)). unfold is_digit. lia.
Qed.

Lemma pos_digits_ne f z : pos_digits (S f) z [] <> [].
Proof.
  cbn [pos_digits]. destruct (z <? 10); [discriminate|]. rewrite pos_digits_acc. destruct (pos_digits f (z / 10) []); discriminate.
Qed.

Lemma number_text_int z : number_text (int_text z) = true.
Proof.
  unfold int_text. destruct (z <? 0) eqn:E.
  - cbn [number_text]. change (N.eqb 45 45) with true. cbv iota.
    pose proof (pos_digits_ne 19 (- z)) as Hn. pose proof (pos_digits_digits 20 (- z) ltac:(lia)) as Hd.
    destruct (pos_digits 20 (- z) []); [congruence | exact Hd].
  - pose proof (pos_digits_ne 19 z) as Hn. pose proof (pos_digits_digits 20 z ltac:(lia)) as Hd.
    destruct (pos_digits 20 z []) as [|c ds]; [congruence|]. cbn [number_text]. cbn [forallb] in Hd.
    apply andb_true_iff in Hd as [Hc Hd]. destruct (N.eqb_spec c 45) as [->|_]; [discriminate Hc|]. rewrite Hc, Hd. reflexivity.
Qed.

Section Texty.
Variable lit_text : value -> bytes.

(* what the text of a tree needs beyond wp (the lexical side): unquoted names
   match [A-Za-z_][A-Za-z0-9_]*, names of quoted identifiers are valid UTF-8, raw
   strings have no backslash before a quote or at the end, and the chosen JSON
   text of a literal has no dangling backslash *)
Fixpoint texty (e : expr) : bool :=
  let lo (l : option expr) := match l with Some x => texty x | None => true end in
  let ro (r : rhs) := match r with RNone => true | RDot x => texty x | RBrk x => texty x end in
  match e with
  | EIdent q name => if q then utf8_ok name else valid_unquoted name
  | ECurrent => true
  | ELit v => paired (lit_text v) && json_valid (lit_text v)
  | ERaw s => raw_ok s
  | EParen x => texty x
  | EMSList es => forallb texty es
  | EMSHash kvs => forallb (fun kv : bool * bytes * expr => (if fst (fst kv) then utf8_ok (snd (fst kv)) else valid_unquoted (snd (fst kv))) && texty (snd kv)) kvs
  | ECall name args => valid_unquoted name && forallb (fun a => match a with AExpr x => texty x | ARef x => texty x end) args
  | ENot x => texty x
  | EIndex l _ => lo l
  | ESlice l _ _ _ r => lo l && ro r
  | EListProj l r => lo l && ro r
  | EFlatten l r => lo l && ro r
  | EFilter l c r => lo l && texty c && ro r
  | EValProj l r => lo l && ro r
  | ESub l r => texty l && texty r
  | EPipe l r => texty l && texty r
  | EOr l r => texty l && texty r
  | EAnd l r => texty l && texty r
  | ECmp _ l r => texty l && texty r
  end.

Definition lexables (l : list token) : Prop := Forall (fun t => lexable t = true) l.

Lemma lexables_sep {A} (f : A -> list token) sep l : lexables sep -> Forall (fun x => lexables (f x)) l -> lexables (sep_by sep (map f l)).
Proof.
  intros Hs. induction 1 as [|x l Hx Hl IH]; [constructor|]. cbn [map sep_by]. destruct l as [|y l']; [exact Hx|].
  apply Forall_app. split; [exact Hx|]. apply Forall_app. split; [exact Hs | exact IH].
Qed.

Ltac fixedtok := repeat constructor; reflexivity.
Ltac sp H := repeat match type of H with (_ && _) = true => let H2 := fresh H in apply andb_true_iff in H as [H H2] end.

Lemma render_lexable : forall e, wp e = true -> texty e = true -> lexables (render lit_text e).
Proof.
  fix IH 1. intros e Hw Ht.
  assert (Ho : forall (l : option expr) p, match l with Some x => wp x && (p <=? rl x) | None => true end = true ->
                 match l with Some x => texty x | None => true end = true ->
                 lexables (match l with Some x => render lit_text x | None => [] end)).
  { intros [x|] p H1 H2; [|constructor]. apply andb_true_iff in H1 as [H1 _]. apply IH; assumption. }
  assert (Hr : forall (r : rhs) p,
             match r with
             | RNone => true
             | RDot x => wp x && (p <? lmin x) && match head x with HIdent | HQuoted | HMulti | HMultiStar | HStar => true | _ => false end
             | RBrk x => wp x && (p <? lmin x) && match head x with HBracket | HFilter => true | _ => false end
             end = true ->
             match r with RNone => true | RDot x => texty x | RBrk x => texty x end = true ->
             lexables (match r with RNone => [] | RDot x => tk tDot (str ".") :: render lit_text x | RBrk x => render lit_text x end)).
  { intros [|x|x] p H1 H2; [constructor| |]; sp H1; [constructor; [reflexivity|]|]; apply IH; assumption. }
  assert (Hn : forall o : option Z, lexables (opt_num o)).
  { intros [z|]; [|constructor]. constructor; [|constructor]. unfold lexable. cbn [tk ttype tvalue]. apply number_text_int. }
  destruct e as [q name | | lv | s | x | es | kvs | fname args | x | l i | l a b c r | l r | l r
                 | l c r | l r | l r | l r | l r | l r | op l r]; cbn [render]; cbn [wp] in Hw; cbn [texty] in Ht.
  - destruct q; constructor; [exact Ht | constructor | exact Ht | constructor].
  - fixedtok.
  - constructor; [exact Ht | constructor].
  - constructor; [exact Ht | constructor].
  - sp Hw. constructor; [reflexivity|]. apply Forall_app. split; [apply IH; assumption | fixedtok].
  - constructor; [reflexivity|]. apply Forall_app. split; [|fixedtok].
    apply lexables_sep; [fixedtok|]. apply andb_true_iff in Hw as [_ Hw].
    induction es as [|x es IHes]; constructor; cbn [forallb] in Hw, Ht; sp Hw; sp Ht; [apply IH; assumption | apply IHes; assumption].
  - constructor; [reflexivity|]. apply Forall_app. split; [|fixedtok].
    apply lexables_sep; [fixedtok|]. apply andb_true_iff in Hw as [_ Hw].
    induction kvs as [|[[q k] x] kvs IHk]; constructor; cbn [forallb fst snd] in Hw, Ht; sp Hw; sp Ht; [|apply IHk; assumption].
    cbn [fst snd]. constructor; [destruct q; assumption|]. constructor; [reflexivity | apply IH; assumption].
  - sp Ht. constructor; [exact Ht|]. constructor; [reflexivity|]. apply Forall_app. split; [|fixedtok].
    apply lexables_sep; [fixedtok|].
    induction args as [|a args IHa]; constructor; cbn [forallb] in Hw, Ht0; sp Hw; sp Ht0; [|apply IHa; assumption].
    destruct a as [x|x]; sp Hw; [apply IH; assumption | constructor; [reflexivity | apply IH; assumption]].
  - sp Hw. constructor; [reflexivity | apply IH; assumption].
  - sp Hw. apply Forall_app. split; [eapply Ho; eassumption|]. constructor; [reflexivity|]. constructor; [apply number_text_int | fixedtok].
  - sp Hw. sp Ht. repeat (apply Forall_app; split); try (eapply Ho; eassumption); try apply Hn; try (eapply Hr; eassumption); try fixedtok.
    destruct c as [o|]; [apply Forall_app; split; [fixedtok | apply Hn] | constructor].
  - sp Hw. sp Ht. repeat (apply Forall_app; split); try (eapply Ho; eassumption); try (eapply Hr; eassumption); fixedtok.
  - sp Hw. sp Ht. repeat (apply Forall_app; split); try (eapply Ho; eassumption); try (eapply Hr; eassumption); fixedtok.
  - sp Hw. sp Ht. repeat (apply Forall_app; split); try (eapply Ho; eassumption); try (eapply Hr; eassumption); try (apply IH; assumption); fixedtok.
  - sp Hw. sp Ht. destruct l as [x|].
    + sp Hw. repeat (apply Forall_app; split); try (apply IH; assumption); try (eapply Hr; eassumption); fixedtok.
    + constructor; [reflexivity | eapply Hr; eassumption].
  - sp Hw. sp Ht. repeat (apply Forall_app; split); try (apply IH; assumption); fixedtok.
  - sp Hw. sp Ht. repeat (apply Forall_app; split); try (apply IH; assumption); fixedtok.
  - sp Hw. sp Ht. repeat (apply Forall_app; split); try (apply IH; assumption); fixedtok.
  - sp Hw. sp Ht. repeat (apply Forall_app; split); try (apply IH; assumption); fixedtok.
  - sp Hw. sp Ht. repeat (apply Forall_app; split); try (apply IH; assumption); try fixedtok. destruct op; fixedtok.
Qed.

End Texty.

(* ---- Compile on the canonical text of a well-precedenced tree ---- *)
Section Text.
Variable lit_text : value -> bytes.
Hypothesis lit_ok : lit_spec lit_text.

Definition expr_text (e : expr) : bytes := text_of (render lit_text e).

Definition ws_text_ok (l : list (token * bytes)) : Prop :=
  Forall (fun tw : token * bytes => lexable (fst tw) = true /\ ws_ok (snd tw)) l.

(* the lexer on a text whose tokens are each followed by some whitespace: exactly
   those tokens (types and values), whatever the whitespace *)
Theorem tokenize_text_ws l : ws_text_ok l ->
  exists out, tokenize (text_ws l) = Ok (out ++ [Token tEOF [] (zlen (text_ws l)) 0]) /\ Forall2 same_tv out (map fst l).
Proof.
  intros Hl. rewrite tokenize_view. unfold tokenizeS.
  destruct (lex_text_ws l (S (S (length (text_ws l)))) 0 0 [] Hl ltac:(lia) ltac:(pose proof (steps_len l Hl); lia)) as [out [Ho Hs]].
  exists out. rewrite Ho. cbn [rev app]. rewrite Z.add_0_l. split; [reflexivity | exact Hs].
Qed.

Theorem tokenize_text l : Forall (fun t => lexable t = true) l ->
  exists out, tokenize (text_of l) = Ok (out ++ [Token tEOF [] (zlen (text_of l)) 0]) /\ Forall2 same_tv out l.
Proof.
  intros Hl. destruct (tokenize_text_ws (spaced l) (spaced_ok l Hl)) as [out [Ho Hs]]. rewrite map_fst_spaced in Hs.
  exists out. split; assumption.
Qed.

(* Compile on any whitespace-separated spelling of the tokens of a well-precedenced tree *)
Theorem compile_text_ws e l : wp e = true -> npos e = true -> ws_text_ok l -> map fst l = render lit_text e ->
  Api.compile (text_ws l) = Ok (Grammar.compile e).
Proof.
  intros Hw Hnp Hl Hr. unfold Api.compile, parse.
  destruct (tokenize_text_ws _ Hl) as [out [Ho Hs]]. rewrite Ho. cbn [bind]. rewrite Hr in Hs.
  apply (parse_tokens_complete lit_text lit_ok e _ Hw Hnp).
  - apply noeof_eof_wf; [|reflexivity]. exact (same_tv_noeof _ _ Hs (render_noeof lit_text e)).
  - intros k t Hk. rewrite Nat.add_0_l.
    assert (H2 : Forall2 same_tv (out ++ [Token tEOF [] (zlen (text_ws l)) 0]) (render lit_text e ++ [tk tEOF []])).
    { apply Forall2_app; [exact Hs|]. constructor; [split; reflexivity | constructor]. }
    destruct (Forall2_nth _ _ _ H2 k t Hk) as [t' [Hk' [T1 T2]]]. exists t'. split; [exact Hk'|]. split; [exact T1|].
    rewrite T2. apply veq_self. intros Ety.
    (* a literal token of the spelling holds a JSON text: it is one of the tokens of l *)
    assert (Hin : In t (map fst l)).
    { rewrite Hr. apply nth_error_In in Hk. apply in_app_or in Hk as [Hk|[<-|[]]]; [exact Hk | discriminate Ety]. }
    apply in_map_iff in Hin as [[t0 w0] [E0 Hin]]. cbn [fst] in E0. subst t0.
    unfold ws_text_ok in Hl. rewrite Forall_forall in Hl. destruct (Hl _ Hin) as [Hlex _]. cbn [fst] in Hlex.
    unfold lexable in Hlex. rewrite Ety in Hlex. apply andb_true_iff in Hlex as [_ Hv]. unfold json_valid in Hv.
    destruct (json_unmarshal (tvalue t)); [discriminate | discriminate Hv].
Qed.

(* whitespace between tokens is insignificant: two texts with the same tokens and
   any whitespace (space, tab, line feed, carriage return; at least one character)
   after each of them are read as the same tokens, and Compile gives the same AST *)
Theorem whitespace_insignificant_tokens l1 l2 : ws_text_ok l1 -> ws_text_ok l2 -> map fst l1 = map fst l2 ->
  exists o1 o2 e1 e2, tokenize (text_ws l1) = Ok (o1 ++ [e1]) /\ tokenize (text_ws l2) = Ok (o2 ++ [e2]) /\
    ttype e1 = tEOF /\ ttype e2 = tEOF /\
    Forall2 (fun a b => ttype a = ttype b /\ tvalue a = tvalue b) o1 o2.
Proof.
  intros H1 H2 Hm. destruct (tokenize_text_ws l1 H1) as [o1 [T1 S1]]. destruct (tokenize_text_ws l2 H2) as [o2 [T2 S2]].
  eexists o1, o2, _, _. split; [exact T1|]. split; [exact T2|]. split; [reflexivity|]. split; [reflexivity|].
  rewrite <- Hm in S2. clear - S1 S2. revert o2 S2. induction S1 as [|a t o1 l [Ha1 Ha2] _ IH]; intros o2 S2; inversion S2 as [|b ? o2' ? [Hb1 Hb2] S2']; subst; constructor.
  - split; congruence.
  - apply IH. exact S2'.
Qed.

Theorem whitespace_insignificant e l1 l2 : wp e = true -> npos e = true -> ws_text_ok l1 -> ws_text_ok l2 ->
  map fst l1 = render lit_text e -> map fst l2 = render lit_text e ->
  Api.compile (text_ws l1) = Api.compile (text_ws l2).
Proof. intros Hw Hnp H1 H2 R1 R2. rewrite (compile_text_ws e l1), (compile_text_ws e l2); auto. Qed.

Theorem compile_text e : wp e = true -> npos e = true -> Forall (fun t => lexable t = true) (render lit_text e) ->
  Api.compile (expr_text e) = Ok (Grammar.compile e).
Proof.
  intros Hw Hnp Hl. unfold expr_text, text_of. apply compile_text_ws; [exact Hw | exact Hnp | apply spaced_ok; exact Hl | apply map_fst_spaced].
Qed.

(* every well-precedenced tree has a text — its tokens, each followed by a space —
   on which Compile returns exactly the AST of the tree *)
Theorem compile_expr_text e : wp e = true -> npos e = true -> texty lit_text e = true ->
  Api.compile (expr_text e) = Ok (Grammar.compile e).
Proof. intros Hw Hnp Ht. apply compile_text; [exact Hw | exact Hnp | apply render_lexable; assumption]. Qed.

(* ... and Search on that text is the denotation of the tree *)
Theorem search_expr_text (ord : obj -> obj) (ord_perm : forall m, Permutation.Permutation (ord m) m) e d : wp e = true -> npos e = true -> texty lit_text e = true ->
  sem_ok e = true -> plain d = true ->
  Api.search ord (expr_text e) d = eval ord e d.
Proof.
  intros Hw Hnp Ht Hs Hd. unfold Api.search. pose proof (compile_expr_text e Hw Hnp Ht) as Hc. unfold Api.compile in Hc.
  rewrite Hc. cbn [bind]. apply (search_compiled_is_eval ord ord_perm e d Hs Hd).
Qed.

End Text.

End WithNum.

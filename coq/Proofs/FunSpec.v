(* FunSpec.v — relational reading of the built-in functions (C09): what the
   specification's call returns, stated as properties of the result rather than
   as the algorithm.  Model/Functions.v's dispatcher equals spec_call
   (FunFacts.call_refines), so everything here is a statement about the model of
   functions.go as well. *)
From JM Require Import Model.Base Model.Num Model.Utf8 Model.Value Model.JsonText Model.Functions.
From JM Require Import Spec.Grammar Spec.Semantics.
From JM Require Import Proofs.ValueFacts Proofs.FunFacts Proofs.SortFacts Proofs.Utf8Facts.
From Coq Require Import Permutation Sorted.

Section WithNum.
Context {NumO : NumOps}.
Variable ord : obj -> obj.

Definition finite (x : num) : Prop := num_finite x = true.
(* on finite numbers < is a strict weak order (IEEE 754: total on non-NaN values, -0 = +0) *)
Definition NumOrder : Prop := swo num_ltb finite.

Ltac sig_compute :=
  unfold spec_call, well_typed;
  match goal with |- context [assoc_bytes ?k spec_signatures] =>
    let r := eval vm_compute in (assoc_bytes k spec_signatures) in
    change (assoc_bytes k spec_signatures) with r end;
  cbn [sig_params sig_rest args_ok existsb has_type orb andb].

Ltac name_compute :=
  unfold apply_function;
  repeat match goal with |- context [name_is ?k ?s] =>
    let r := eval vm_compute in (name_is k s) in change (name_is k s) with r end;
  cbn iota.

(* ---- sort ---- *)
Theorem sort_numbers l :
  all_num l = true ->
  exists ns, spec_call ord (str "sort") [SVal (VArr l)] = Ok (VArr (map VNum ns)) /\
             Permutation ns (nums_of l) /\
             (NumOrder -> Forall finite (nums_of l) ->
              StronglySorted (le num_ltb) ns /\
              forall a, finite a -> filter (eqv num_ltb a) ns = filter (eqv num_ltb a) (nums_of l)).
Proof.
  intros Hn. exists (stable_sort num_ltb (nums_of l)). split; [|split].
  - sig_compute. rewrite Hn. rewrite orb_true_r. cbn [andb]. name_compute. rewrite Hn. reflexivity.
  - apply stable_sort_perm.
  - intros Ho Hf. split; [apply (stable_sort_sorted num_ltb finite Ho); exact Hf|].
    intros a Ha. apply (stable_sort_stable num_ltb finite Ho); assumption.
Qed.


Theorem sort_strings l :
  all_num l = false -> all_str l = true ->
  exists ss, spec_call ord (str "sort") [SVal (VArr l)] = Ok (VArr (map VStr ss)) /\
             Permutation ss (strs_of l) /\ StronglySorted (le bytes_ltb) ss.
Proof.
  intros Hn Hs. exists (stable_sort bytes_ltb (strs_of l)). split; [|split].
  - sig_compute. rewrite Hs. cbn [orb andb]. name_compute. rewrite Hn. reflexivity.
  - apply stable_sort_perm.
  - apply (stable_sort_sorted bytes_ltb (fun _ => True) bytes_swo). apply Forall_forall. intros; exact I.
Qed.

(* ---- the by-functions: keys ---- *)
(* keyed f l ks: ks pairs every element of l, in order, with the key f gives for it *)
Definition keyed {K} (inj : K -> value) (f : value -> outcome value) (l : list value) (ks : list (K * value)) : Prop :=
  Forall2 (fun x p => snd p = x /\ f x = Ok (inj (fst p))) l ks.

Lemma mapM_num_key_keyed f l ks : mapM (num_key f) l = Ok ks -> keyed VNum f l ks.
Proof.
  revert ks. induction l as [|x l IH]; intros ks H; cbn in H.
  - inversion H. constructor.
  - unfold num_key at 1 in H. destruct (f x) as [k| | |] eqn:Ef; cbn in H; try discriminate.
    destruct k; cbn in H; try discriminate.
    destruct (mapM (num_key f) l) as [ks'| | |] eqn:Em; cbn in H; try discriminate. inversion H; subst.
    constructor; [split; [reflexivity | exact Ef] | apply IH; reflexivity].
Qed.

Lemma mapM_str_key_keyed f l ks : mapM (str_key f) l = Ok ks -> keyed VStr f l ks.
Proof.
  revert ks. induction l as [|x l IH]; intros ks H; cbn in H.
  - inversion H. constructor.
  - unfold str_key at 1 in H. destruct (f x) as [k| | |] eqn:Ef; cbn in H; try discriminate.
    destruct k; cbn in H; try discriminate.
    destruct (mapM (str_key f) l) as [ks'| | |] eqn:Em; cbn in H; try discriminate. inversion H; subst.
    constructor; [split; [reflexivity | exact Ef] | apply IH; reflexivity].
Qed.

Lemma keyed_snd {K} (inj : K -> value) f l ks : keyed inj f l ks -> map snd ks = l.
Proof. induction 1 as [|x p l ks [Hp _] _ IH]; cbn; [reflexivity|]. rewrite Hp, IH. reflexivity. Qed.

(* by_keys succeeds exactly with the keys of all elements, all numbers or all strings *)
Lemma by_keys_keyed f l r : by_keys f l = Ok r ->
  match r with KNum ks => keyed VNum f l ks | KStr ks => keyed VStr f l ks end.
Proof.
  unfold by_keys. destruct l as [|x l]; [intros H; inversion H; constructor|].
  destruct (f x) as [k0| | |]; cbn [bind]; try discriminate. destruct k0; try discriminate.
  - destruct (mapM (num_key f) (x :: l)) as [ks| | |] eqn:E; cbn [bind]; try discriminate.
    intros H; inversion H; subst. apply mapM_num_key_keyed. exact E.
  - destruct (mapM (str_key f) (x :: l)) as [ks| | |] eqn:E; cbn [bind]; try discriminate.
    intros H; inversion H; subst. apply mapM_str_key_keyed. exact E.
Qed.

Definition key_lt {K} (lt : K -> K -> bool) (p q : K * value) : bool := lt (fst p) (fst q).

Lemma swo_key {K} (lt : K -> K -> bool) (D : K -> Prop) : swo lt D -> swo (key_lt lt) (fun p => D (fst p)).
Proof.
  intros [Ha Ht]. constructor; unfold key_lt.
  - intros x y Dx Dy. apply Ha; assumption.
  - intros x y z Dx Dy Dz. apply Ht; assumption.
Qed.

Lemma sort_by_equation l f :
  spec_call ord (str "sort_by") [SVal (VArr l); SRef f] =
  ks <- by_keys f l ;;
  match ks with
  | KNum ks => Ok (VArr (map snd (stable_sort (key_lt num_ltb) ks)))
  | KStr ks => Ok (VArr (map snd (stable_sort (key_lt bytes_ltb) ks)))
  end.
Proof. sig_compute. name_compute. reflexivity. Qed.

(* sort_by: the elements, reordered by ascending key, elements with equivalent
   keys in their original order; an error if some key evaluation fails or the
   keys are not all numbers or all strings *)
Theorem sort_by_numbers l f r :
  spec_call ord (str "sort_by") [SVal (VArr l); SRef f] = Ok r ->
  exists out,
    r = VArr out /\ Permutation out l /\
    ((exists ks sorted, keyed VNum f l ks /\ out = map snd sorted /\ Permutation sorted ks /\
        (NumOrder -> Forall (fun p => finite (fst p)) ks ->
         StronglySorted (le (key_lt num_ltb)) sorted /\
         forall a, finite (fst a) -> filter (eqv (key_lt num_ltb) a) sorted = filter (eqv (key_lt num_ltb) a) ks))
     \/
     (exists ks sorted, keyed VStr f l ks /\ out = map snd sorted /\ Permutation sorted ks /\
         StronglySorted (le (key_lt bytes_ltb)) sorted /\
         forall a, filter (eqv (key_lt bytes_ltb) a) sorted = filter (eqv (key_lt bytes_ltb) a) ks)).
Proof.
  rewrite sort_by_equation. destruct (by_keys f l) as [k| | |] eqn:Ek; cbn [bind]; try discriminate.
  pose proof (by_keys_keyed f l k Ek) as Hk. destruct k as [ks|ks]; intros H; inversion H; subst; clear H.
  - exists (map snd (stable_sort (key_lt num_ltb) ks)). split; [reflexivity|]. split.
    + rewrite <- (keyed_snd VNum f l ks Hk). apply Permutation_map. apply stable_sort_perm.
    + left. exists ks, (stable_sort (key_lt num_ltb) ks). repeat split; [exact Hk | apply stable_sort_perm | |].
      * apply (stable_sort_sorted _ _ (swo_key num_ltb finite H)); assumption.
      * intros a Ha. apply (stable_sort_stable _ _ (swo_key num_ltb finite H)); assumption.
  - exists (map snd (stable_sort (key_lt bytes_ltb) ks)). split; [reflexivity|]. split.
    + rewrite <- (keyed_snd VStr f l ks Hk). apply Permutation_map. apply stable_sort_perm.
    + right. exists ks, (stable_sort (key_lt bytes_ltb) ks).
      assert (Dall : Forall (fun p : bytes * value => True) ks) by (apply Forall_forall; intros; exact I).
      repeat split; [exact Hk | apply stable_sort_perm | |].
      * apply (stable_sort_sorted _ _ (swo_key bytes_ltb (fun _ => True) bytes_swo)); exact Dall.
      * intros a. apply (stable_sort_stable _ _ (swo_key bytes_ltb (fun _ => True) bytes_swo)); [exact I | exact Dall].
Qed.


(* ---- max, min ---- *)
(* x is the first greatest element of l: it is in l, everything before it is
   strictly smaller, nothing after it is greater *)
Definition first_greatest {K} (lt : K -> K -> bool) (l : list K) (x : K) : Prop :=
  exists l1 l2, l = l1 ++ x :: l2 /\ (forall y, In y l1 -> lt y x = true) /\ (forall y, In y l2 -> lt x y = false).
Definition first_least {K} (lt : K -> K -> bool) (l : list K) (x : K) : Prop :=
  exists l1 l2, l = l1 ++ x :: l2 /\ (forall y, In y l1 -> lt x y = true) /\ (forall y, In y l2 -> lt y x = false).

Lemma max_equation l :
  spec_call ord (str "max") [SVal (VArr l)] =
  if all_num l || all_str l then
    if all_num l
    then Ok (match first_best (fun y x => num_ltb x y) (nums_of l) with Some n => VNum n | None => VNull end)
    else Ok (match first_best (fun y x => bytes_ltb x y) (strs_of l) with Some s => VStr s | None => VNull end)
  else Err EEval.
Proof. sig_compute. rewrite !orb_false_r. destruct (all_num l || all_str l); cbn [andb]; [name_compute|]; reflexivity. Qed.

Lemma min_equation l :
  spec_call ord (str "min") [SVal (VArr l)] =
  if all_num l || all_str l then
    if all_num l
    then Ok (match first_best (fun y x => num_ltb y x) (nums_of l) with Some n => VNum n | None => VNull end)
    else Ok (match first_best (fun y x => bytes_ltb y x) (strs_of l) with Some s => VStr s | None => VNull end)
  else Err EEval.
Proof. sig_compute. rewrite !orb_false_r. destruct (all_num l || all_str l); cbn [andb]; [name_compute|]; reflexivity. Qed.

Lemma all_num_nil_iff l : all_num l = true -> (nums_of l = [] <-> l = []).
Proof.
  intros H. destruct l as [|v l]; [split; reflexivity|]. cbn in H. destruct v; try discriminate. cbn. split; discriminate.
Qed.

Theorem max_numbers l :
  all_num l = true -> NumOrder -> Forall finite (nums_of l) ->
  (l = [] /\ spec_call ord (str "max") [SVal (VArr l)] = Ok VNull) \/
  (exists n, spec_call ord (str "max") [SVal (VArr l)] = Ok (VNum n) /\ first_greatest num_ltb (nums_of l) n).
Proof.
  intros Hn Ho Hf. rewrite max_equation, Hn. cbn [orb].
  destruct (first_best _ (nums_of l)) as [n|] eqn:E.
  - right. exists n. split; [reflexivity|]. apply (first_max_spec num_ltb finite Ho); assumption.
  - left. apply first_best_none in E. apply (all_num_nil_iff l Hn) in E. split; [exact E | reflexivity].
Qed.

Theorem min_numbers l :
  all_num l = true -> NumOrder -> Forall finite (nums_of l) ->
  (l = [] /\ spec_call ord (str "min") [SVal (VArr l)] = Ok VNull) \/
  (exists n, spec_call ord (str "min") [SVal (VArr l)] = Ok (VNum n) /\ first_least num_ltb (nums_of l) n).
Proof.
  intros Hn Ho Hf. rewrite min_equation, Hn. cbn [orb].
  destruct (first_best _ (nums_of l)) as [n|] eqn:E.
  - right. exists n. split; [reflexivity|]. apply (first_min_spec num_ltb finite Ho); assumption.
  - left. apply first_best_none in E. apply (all_num_nil_iff l Hn) in E. split; [exact E | reflexivity].
Qed.

Lemma all_true {B} (l : list B) : Forall (fun _ => True) l.
Proof. apply Forall_forall. intros; exact I. Qed.

Theorem max_strings l :
  all_num l = false -> all_str l = true ->
  exists s, spec_call ord (str "max") [SVal (VArr l)] = Ok (VStr s) /\ first_greatest bytes_ltb (strs_of l) s.
Proof.
  intros Hn Hs. rewrite max_equation, Hn, Hs. cbn [orb].
  destruct (first_best _ (strs_of l)) as [s|] eqn:E.
  - exists s. split; [reflexivity|]. apply (first_max_spec bytes_ltb (fun _ => True) bytes_swo); [apply all_true | exact E].
  - apply first_best_none in E. destruct l as [|v l]; [discriminate|]. cbn in Hs. destruct v; try discriminate.
Qed.

Theorem min_strings l :
  all_num l = false -> all_str l = true ->
  exists s, spec_call ord (str "min") [SVal (VArr l)] = Ok (VStr s) /\ first_least bytes_ltb (strs_of l) s.
Proof.
  intros Hn Hs. rewrite min_equation, Hn, Hs. cbn [orb].
  destruct (first_best _ (strs_of l)) as [s|] eqn:E.
  - exists s. split; [reflexivity|]. apply (first_min_spec bytes_ltb (fun _ => True) bytes_swo); [apply all_true | exact E].
  - apply first_best_none in E. destruct l as [|v l]; [discriminate|]. cbn in Hs. destruct v; try discriminate.
Qed.

(* ---- max_by, min_by ---- *)
Lemma max_by_equation l f :
  spec_call ord (str "max_by") [SVal (VArr l); SRef f] =
  ks <- by_keys f l ;;
  match ks with
  | KNum ks => Ok (match first_best (fun y x => key_lt num_ltb x y) ks with Some p => snd p | None => VNull end)
  | KStr ks => Ok (match first_best (fun y x => key_lt bytes_ltb x y) ks with Some p => snd p | None => VNull end)
  end.
Proof. sig_compute. name_compute. reflexivity. Qed.

Lemma min_by_equation l f :
  spec_call ord (str "min_by") [SVal (VArr l); SRef f] =
  ks <- by_keys f l ;;
  match ks with
  | KNum ks => Ok (match first_best (fun y x => key_lt num_ltb y x) ks with Some p => snd p | None => VNull end)
  | KStr ks => Ok (match first_best (fun y x => key_lt bytes_ltb y x) ks with Some p => snd p | None => VNull end)
  end.
Proof. sig_compute. name_compute. reflexivity. Qed.

Theorem max_by_empty f : spec_call ord (str "max_by") [SVal (VArr []); SRef f] = Ok VNull.
Proof. rewrite max_by_equation. reflexivity. Qed.
Theorem min_by_empty f : spec_call ord (str "min_by") [SVal (VArr []); SRef f] = Ok VNull.
Proof. rewrite min_by_equation. reflexivity. Qed.

(* the result is the element of the first greatest key *)
Theorem max_by_spec l f r :
  l <> [] -> spec_call ord (str "max_by") [SVal (VArr l); SRef f] = Ok r ->
  (exists ks p, keyed VNum f l ks /\ r = snd p /\
                (NumOrder -> Forall (fun p => finite (fst p)) ks -> first_greatest (key_lt num_ltb) ks p)) \/
  (exists ks p, keyed VStr f l ks /\ r = snd p /\ first_greatest (key_lt bytes_ltb) ks p).
Proof.
  intros Hne. rewrite max_by_equation. destruct (by_keys f l) as [k| | |] eqn:Ek; cbn [bind]; try discriminate.
  pose proof (by_keys_keyed f l k Ek) as Hk. destruct k as [ks|ks]; intros H; inversion H; subst; clear H.
  - left. destruct (first_best _ ks) as [p|] eqn:E.
    + exists ks, p. repeat split; [exact Hk|]. intros Ho Hf.
      apply (first_max_spec (key_lt num_ltb) _ (swo_key num_ltb finite Ho)); assumption.
    + apply first_best_none in E. subst. inversion Hk; subst. congruence.
  - right. destruct (first_best _ ks) as [p|] eqn:E.
    + exists ks, p. repeat split; [exact Hk|].
      apply (first_max_spec (key_lt bytes_ltb) _ (swo_key bytes_ltb _ bytes_swo)); [apply all_true | exact E].
    + apply first_best_none in E. subst. inversion Hk; subst. congruence.
Qed.

Theorem min_by_spec l f r :
  l <> [] -> spec_call ord (str "min_by") [SVal (VArr l); SRef f] = Ok r ->
  (exists ks p, keyed VNum f l ks /\ r = snd p /\
                (NumOrder -> Forall (fun p => finite (fst p)) ks -> first_least (key_lt num_ltb) ks p)) \/
  (exists ks p, keyed VStr f l ks /\ r = snd p /\ first_least (key_lt bytes_ltb) ks p).
Proof.
  intros Hne. rewrite min_by_equation. destruct (by_keys f l) as [k| | |] eqn:Ek; cbn [bind]; try discriminate.
  pose proof (by_keys_keyed f l k Ek) as Hk. destruct k as [ks|ks]; intros H; inversion H; subst; clear H.
  - left. destruct (first_best _ ks) as [p|] eqn:E.
    + exists ks, p. repeat split; [exact Hk|]. intros Ho Hf.
      apply (first_min_spec (key_lt num_ltb) _ (swo_key num_ltb finite Ho)); assumption.
    + apply first_best_none in E. subst. inversion Hk; subst. congruence.
  - right. destruct (first_best _ ks) as [p|] eqn:E.
    + exists ks, p. repeat split; [exact Hk|].
      apply (first_min_spec (key_lt bytes_ltb) _ (swo_key bytes_ltb _ bytes_swo)); [apply all_true | exact E].
    + apply first_best_none in E. subst. inversion Hk; subst. congruence.
Qed.


(* ---- merge ---- *)
Lemma obj_get_set k k' v m :
  obj_get k (obj_set k' v m) = if bytes_eqb k k' then Some v else obj_get k m.
Proof.
  induction m as [|[k1 v1] m IH]; cbn [obj_set obj_get].
  - destruct (bytes_eqb k k'); reflexivity.
  - destruct (bytes_eqb k' k1) eqn:E1.
    + apply bytes_eqb_eq in E1. subst k1. cbn [obj_get]. destruct (bytes_eqb k k'); reflexivity.
    + destruct (bytes_ltb k' k1); cbn [obj_get].
      * destruct (bytes_eqb k k'); reflexivity.
      * rewrite IH. destruct (bytes_eqb k k1) eqn:E2; [|reflexivity].
        apply bytes_eqb_eq in E2. subst k1. destruct (bytes_eqb k k') eqn:E3; [|reflexivity].
        apply bytes_eqb_eq in E3. subst k'. rewrite bytes_eqb_refl in E1. discriminate.
Qed.

Lemma sorted_head_absent k v m : obj_sorted ((k, v) :: m) = true -> obj_get k m = None.
Proof.
  revert k v. induction m as [|[k1 v1] m IH]; intros k v Hs; [reflexivity|].
  cbn [obj_sorted] in Hs. apply andb_true_iff in Hs as [H1 H2]. cbn [obj_get].
  destruct (bytes_eqb k k1) eqn:E.
  - apply bytes_eqb_eq in E. subst. rewrite bytes_ltb_irrefl in H1. discriminate.
  - apply (IH k v). destruct m as [|[k2 v2] m]; [reflexivity|]. cbn [obj_sorted] in *.
    apply andb_true_iff in H2 as [H2 H3]. rewrite (bytes_ltb_trans k k1 k2 H1 H2). exact H3.
Qed.

Lemma obj_sorted_tail k v m : obj_sorted ((k, v) :: m) = true -> obj_sorted m = true.
Proof. cbn. destruct m as [|[k1 v1] m]; [reflexivity|]. intros H. apply andb_true_iff in H as [_ H]. exact H. Qed.

(* folding a well-formed object into an accumulator: its members override *)
Lemma fold_set_get k o : forall acc, obj_sorted o = true ->
  obj_get k (fold_left (fun f kv => obj_set (fst kv) (snd kv) f) o acc) =
  match obj_get k o with Some v => Some v | None => obj_get k acc end.
Proof.
  induction o as [|[k1 v1] o IH]; intros acc Hs; [reflexivity|]. cbn [fold_left fst snd].
  rewrite (IH _ (obj_sorted_tail _ _ _ Hs)). cbn [obj_get]. rewrite obj_get_set.
  destruct (bytes_eqb k k1) eqn:E; [|reflexivity].
  apply bytes_eqb_eq in E. subst. rewrite (sorted_head_absent _ _ _ Hs). reflexivity.
Qed.

(* the value merge gives key k: that of the last argument that has k *)
Definition last_binding (k : bytes) (objs : list obj) : option value :=
  fold_left (fun acc o => match obj_get k o with Some v => Some v | None => acc end) objs None.

Definition objs_of (vals : list value) : list obj := flat_map (fun v => match v with VObj m => [m] | _ => [] end) vals.

Lemma merge_equation args :
  well_typed (str "merge") args = true ->
  spec_call ord (str "merge") args =
  Ok (VObj (fold_left (fun f v => match v with
                                  | VObj m => fold_left (fun f kv => obj_set (fst kv) (snd kv) f) m f
                                  | _ => f end) (arg_values args) [])).
Proof. intros H. unfold spec_call. rewrite H. name_compute. reflexivity. Qed.

Lemma merge_fold_get k vals : forall acc,
  Forall (fun v => match v with VObj m => obj_sorted m = true | _ => True end) vals ->
  obj_get k (fold_left (fun f v => match v with
                                   | VObj m => fold_left (fun f kv => obj_set (fst kv) (snd kv) f) m f
                                   | _ => f end) vals acc) =
  fold_left (fun a o => match obj_get k o with Some v => Some v | None => a end) (objs_of vals) (obj_get k acc).
Proof.
  induction vals as [|v vals IH]; intros acc Hs; [reflexivity|]. inversion Hs as [|? ? H1 H2]; subst.
  cbn [fold_left]. rewrite (IH _ H2). destruct v; cbn [objs_of flat_map app]; try reflexivity.
  fold (objs_of vals). cbn [fold_left]. rewrite fold_set_get by exact H1. reflexivity.
Qed.

Theorem merge_later_wins args m :
  Forall (fun v => match v with VObj o => obj_sorted o = true | _ => True end) (arg_values args) ->
  spec_call ord (str "merge") args = Ok (VObj m) ->
  forall k, obj_get k m = last_binding k (objs_of (arg_values args)).
Proof.
  intros Hs H k. unfold spec_call in H. destruct (well_typed (str "merge") args) eqn:Ew; [|discriminate].
  revert H. name_compute. intros H. inversion H; subst. rewrite merge_fold_get by exact Hs. reflexivity.
Qed.

(* ---- not_null ---- *)
Theorem not_null_first args :
  well_typed (str "not_null") args = true ->
  spec_call ord (str "not_null") args =
  Ok (match find not_null (arg_values args) with Some v => v | None => VNull end).
Proof. intros H. unfold spec_call. rewrite H. name_compute. reflexivity. Qed.

Lemma find_first {B} (p : B -> bool) l x :
  find p l = Some x -> exists l1 l2, l = l1 ++ x :: l2 /\ p x = true /\ forall y, In y l1 -> p y = false.
Proof.
  induction l as [|y l IH]; cbn; [discriminate|]. destruct (p y) eqn:E.
  - intros H; inversion H; subst. exists [], l. repeat split; [exact E | intros ? []].
  - intros H. destruct (IH H) as [l1 [l2 [-> [Hx Hl]]]]. exists (y :: l1), l2. repeat split; [exact Hx|].
    intros z [<-|Hz]; [exact E | apply Hl; exact Hz].
Qed.

(* ---- map ---- *)
Theorem map_equation f l :
  spec_call ord (str "map") [SRef f; SVal (VArr l)] = (ys <- mapM f l ;; Ok (VArr ys)).
Proof. sig_compute. name_compute. reflexivity. Qed.

Lemma mapM_Forall2 {B C} (f : B -> outcome C) l ys : mapM f l = Ok ys -> Forall2 (fun x y => f x = Ok y) l ys.
Proof.
  revert ys. induction l as [|x l IH]; intros ys H; cbn in H; [inversion H; constructor|].
  destruct (f x) as [y| | |] eqn:E; cbn in H; try discriminate.
  destruct (mapM f l) as [ys'| | |]; cbn in H; try discriminate. inversion H; subst. constructor; [exact E | apply IH; reflexivity].
Qed.

(* one result per element, in order, nulls kept: the result has the length of the input *)
Theorem map_elementwise f l r :
  spec_call ord (str "map") [SRef f; SVal (VArr l)] = Ok r ->
  exists ys, r = VArr ys /\ Forall2 (fun x y => f x = Ok y) l ys.
Proof.
  rewrite map_equation. destruct (mapM f l) as [ys| | |] eqn:E; cbn [bind]; try discriminate.
  intros H; inversion H; subst. exists ys. split; [reflexivity | apply mapM_Forall2; exact E].
Qed.

(* ---- numbers ---- *)
Theorem abs_equation n : spec_call ord (str "abs") [SVal (VNum n)] = Ok (VNum (num_abs n)).
Proof. sig_compute. name_compute. reflexivity. Qed.
Theorem ceil_equation n : spec_call ord (str "ceil") [SVal (VNum n)] = Ok (VNum (num_ceil n)).
Proof. sig_compute. name_compute. reflexivity. Qed.
Theorem floor_equation n : spec_call ord (str "floor") [SVal (VNum n)] = Ok (VNum (num_floor n)).
Proof. sig_compute. name_compute. reflexivity. Qed.

Theorem avg_empty : spec_call ord (str "avg") [SVal (VArr [])] = Ok VNull.
Proof. sig_compute. name_compute. reflexivity. Qed.

Theorem avg_equation l : l <> [] -> all_num l = true ->
  spec_call ord (str "avg") [SVal (VArr l)] =
  Ok (VNum (num_div (fold_left num_add (nums_of l) (num_of_Z 0)) (num_of_Z (zlen l)))).
Proof.
  intros Hne Hn. sig_compute. rewrite Hn. cbn [andb]. name_compute. destruct l; [congruence|].
  destruct v; cbn in Hn; try discriminate. reflexivity.
Qed.

Theorem sum_equation l : all_num l = true ->
  spec_call ord (str "sum") [SVal (VArr l)] = Ok (VNum (fold_left num_add (nums_of l) (num_of_Z 0))).
Proof.
  intros Hn. sig_compute. rewrite Hn. cbn [andb]. name_compute. destruct l as [|v l]; [reflexivity|].
  destruct v; cbn in Hn; try discriminate. reflexivity.
Qed.

(* to_number: a number is itself; a string is its value when that is a finite
   number, null otherwise; anything else is null *)
Theorem to_number_equation v :
  spec_call ord (str "to_number") [SVal v] =
  Ok (match v with
      | VNum n => VNum n
      | VStr s => match num_parse_go s with Some x => if num_finite x then VNum x else VNull | None => VNull end
      | _ => VNull
      end).
Proof. sig_compute. name_compute. destruct v; reflexivity. Qed.

Theorem to_number_finite_or_null s r :
  spec_call ord (str "to_number") [SVal (VStr s)] = Ok r -> r = VNull \/ exists x, r = VNum x /\ finite x.
Proof.
  rewrite to_number_equation. intros H; inversion H; subst. destruct (num_parse_go s) as [x|]; [|left; reflexivity].
  destruct (num_finite x) eqn:E; [right; exists x; split; [reflexivity | exact E] | left; reflexivity].
Qed.

(* to_string: a string is itself, anything else its JSON text *)
Theorem to_string_equation v :
  spec_call ord (str "to_string") [SVal v] =
  match v with
  | VStr _ => Ok v
  | _ => match json_marshal v with Some t => Ok (VStr t) | None => Err EEval end
  end.
Proof. sig_compute. name_compute. destruct v; reflexivity. Qed.

Theorem to_array_equation v :
  spec_call ord (str "to_array") [SVal v] = Ok (match v with VArr _ => v | _ => VArr [v] end).
Proof. sig_compute. name_compute. destruct v; reflexivity. Qed.

Theorem type_equation v : spec_call ord (str "type") [SVal v] = Ok (VStr (type_name v)).
Proof. sig_compute. name_compute. destruct v; reflexivity. Qed.

(* ---- length, reverse: code points ---- *)
Theorem length_equation v :
  spec_call ord (str "length") [SVal v] =
  match v with
  | VStr s => Ok (VNum (num_of_Z (zlen (runes_of s))))
  | VArr l => Ok (VNum (num_of_Z (zlen l)))
  | VObj m => Ok (VNum (num_of_Z (zlen m)))
  | _ => Err EEval
  end.
Proof. sig_compute. destruct v; cbn [has_type orb andb]; try reflexivity; name_compute; reflexivity. Qed.

Theorem reverse_equation v :
  spec_call ord (str "reverse") [SVal v] =
  match v with
  | VStr s => Ok (VStr (string_of_runes (rev (runes_of s))))
  | VArr l => Ok (VArr (rev l))
  | _ => Err EEval
  end.
Proof. sig_compute. destruct v; cbn [has_type orb andb]; try reflexivity; name_compute; reflexivity. Qed.

(* on the UTF-8 encoding of a sequence of code points: their number, and the
   encoding of the reversed sequence *)
Theorem length_code_points rs : forallb valid_rune rs = true ->
  spec_call ord (str "length") [SVal (VStr (string_of_runes rs))] = Ok (VNum (num_of_Z (zlen rs))).
Proof. intros H. rewrite length_equation, runes_of_string by exact H. reflexivity. Qed.

Theorem reverse_code_points rs : forallb valid_rune rs = true ->
  spec_call ord (str "reverse") [SVal (VStr (string_of_runes rs))] = Ok (VStr (string_of_runes (rev rs))).
Proof. intros H. rewrite reverse_equation, runes_of_string by exact H. reflexivity. Qed.

(* ---- strings and containers ---- *)
Theorem contains_equation a b :
  spec_call ord (str "contains") [SVal a; SVal b] =
  match a with
  | VStr s => Ok (VBool (match b with VStr e => contains_sub s e | _ => false end))
  | VArr l => Ok (VBool (existsb (fun x => json_equal x b) l))
  | _ => Err EEval
  end.
Proof. sig_compute. destruct a; destruct b; cbn [has_type orb andb]; try reflexivity; name_compute; reflexivity. Qed.

Theorem starts_with_equation s p0 :
  spec_call ord (str "starts_with") [SVal (VStr s); SVal (VStr p0)] = Ok (VBool (has_prefix s p0)).
Proof. sig_compute. name_compute. reflexivity. Qed.
Theorem ends_with_equation s p0 :
  spec_call ord (str "ends_with") [SVal (VStr s); SVal (VStr p0)] = Ok (VBool (has_suffix s p0)).
Proof. sig_compute. name_compute. reflexivity. Qed.

Lemma has_prefix_spec s p0 : has_prefix s p0 = true <-> exists t, s = p0 ++ t.
Proof.
  revert s. induction p0 as [|a p0 IH]; intros s.
  - destruct s; cbn; split; eauto.
  - destruct s as [|b s]; cbn [has_prefix]; [split; [discriminate | intros [t Ht]; discriminate]|].
    split.
    + intros H. apply andb_true_iff in H as [E H]. apply IH in H as [t ->]. apply N.eqb_eq in E. subst. exists t. reflexivity.
    + intros [t Ht]. inversion Ht; subst. apply andb_true_iff. split; [apply N.eqb_refl | apply IH; exists t; reflexivity].
Qed.

Lemma has_suffix_spec s p0 : has_suffix s p0 = true <-> exists t, s = t ++ p0.
Proof.
  unfold has_suffix. rewrite has_prefix_spec. split.
  - intros [t Ht]. exists (rev t). rewrite <- (rev_involutive s), Ht, rev_app_distr, rev_involutive. reflexivity.
  - intros [t ->]. exists (rev t). apply rev_app_distr.
Qed.

Theorem join_equation sep l : all_str l = true ->
  spec_call ord (str "join") [SVal (VStr sep); SVal (VArr l)] = Ok (VStr (join_bytes sep (strs_of l))).
Proof. intros H. sig_compute. rewrite H. cbn [andb]. name_compute. reflexivity. Qed.

Theorem keys_equation m :
  spec_call ord (str "keys") [SVal (VObj m)] = Ok (VArr (map (fun kv => VStr (fst kv)) (ord m))).
Proof. sig_compute. name_compute. reflexivity. Qed.
Theorem values_equation m :
  spec_call ord (str "values") [SVal (VObj m)] = Ok (VArr (map snd (ord m))).
Proof. sig_compute. name_compute. reflexivity. Qed.

End WithNum.

(* ParserSound.v — the converse of ParserComplete.v: whatever token list the
   parser accepts is, token by token, the spelling of a well-precedenced tree
   (wp, in nud position), and the AST returned is that tree's.  Token values count
   up to what the parser reads from them: a number token by its integer, a
   literal token by the JSON value of its text (tsim).  With the Pratt theorem
   this makes the accepted token lists exactly the spellings of the trees of the
   grammar. *)
From JM Require Import Model.Base Model.Num Model.Utf8 Model.Value Model.JsonText Model.Lexer Model.Parser.
From JM Require Import Spec.Grammar.
From JM Require Import gen.Tables Proofs.TablesOk Proofs.ValueFacts Proofs.ParserTotal Proofs.ParserShape Proofs.ParserComplete
     Proofs.LexerTotal Proofs.CompileTotal.
From Coq Require Import ZifyBool.

Lemma Forall2_of_nth {A B} (R : A -> B -> Prop) : forall (a : list A) (b : list B), length a = length b ->
  (forall k y, nth_error b k = Some y -> exists x, nth_error a (0 + k) = Some x /\ R x y) -> Forall2 R a b.
Proof.
  induction a as [|x a IH]; intros [|y b] Hl H; try discriminate; constructor.
  - destruct (H 0%nat y eq_refl) as [x' [Hx HR]]. cbn in Hx. inversion Hx; subst. exact HR.
  - apply IH; [cbn in Hl; lia|]. intros k y' Hk. destruct (H (S k) y' Hk) as [x' [Hx HR]]. exists x'. split; [exact Hx | exact HR].
Qed.

Section WithNum.
Context {NumO : NumOps}.

Definition tsim (a b : token) : Prop := ttype a = ttype b /\ veq (ttype b) (tvalue a) (tvalue b).

Section Text.
Variable lit_text : value -> bytes.
Hypothesis lit_ok : lit_spec lit_text.

Notation render := (render lit_text).
Notation nE := (nE lit_text).
Notation rrhs := (rrhs lit_text).
Notation olhs := (olhs lit_text).
Notation kv_tokens := (kv_tokens lit_text).
Notation arg_tokens := (arg_tokens lit_text).

Section Tokens.
Variable ts : list token.

(* the tokens from position i on spell l *)
Definition Sim (i : nat) (l : list token) : Prop :=
  forall k t, nth_error l k = Some t -> exists a, nth_error ts (i + k) = Some a /\ tsim a t.

Lemma Sim_nil i : Sim i [].
Proof. intros k t H. destruct k; discriminate. Qed.

Lemma Sim_cons i t l : (exists a, nth_error ts i = Some a /\ tsim a t) -> Sim (S i) l -> Sim i (t :: l).
Proof.
  intros H0 Hl k t' Hk. destruct k as [|k].
  - cbn in Hk. inversion Hk; subst. rewrite Nat.add_0_r. exact H0.
  - cbn in Hk. replace (i + S k)%nat with (S i + k)%nat by lia. apply Hl. exact Hk.
Qed.

Lemma Sim_app i a b : Sim i a -> Sim (i + length a) b -> Sim i (a ++ b).
Proof.
  intros Ha Hb k t Hk. destruct (Nat.lt_ge_cases k (length a)) as [Hlt|Hge].
  - rewrite nth_error_app1 in Hk by exact Hlt. apply Ha. exact Hk.
  - rewrite nth_error_app2 in Hk by exact Hge.
    replace (i + k)%nat with (i + length a + (k - length a))%nat by lia. apply Hb. exact Hk.
Qed.

Lemma Sim_one i ty v : (exists a, nth_error ts i = Some a /\ ttype a = ty /\ veq ty (tvalue a) v) -> Sim i [tk ty v].
Proof.
  intros [a [H1 [H2 H3]]]. apply Sim_cons; [|apply Sim_nil]. exists a. split; [exact H1|]. split; [exact H2 | exact H3].
Qed.

(* a token of a fixed spelling: only its type matters *)
Definition fixedty (ty : tokType) : Prop :=
  match ty with tNumber | tJSONLiteral | tUnquotedIdentifier | tQuotedIdentifier | tStringLiteral => False | _ => True end.

Lemma veq_fixed ty a b : fixedty ty -> veq ty a b.
Proof. destruct ty; cbn; intros H; try contradiction; exact I. Qed.

Definition tyat (i : nat) (ty : tokType) : Prop := exists a, nth_error ts i = Some a /\ ttype a = ty.

Lemma Sim_fixed i ty v : tyat i ty -> fixedty ty -> Sim i [tk ty v].
Proof. intros [a [H1 H2]] Hf. apply Sim_one. exists a. split; [exact H1|]. split; [exact H2 | apply veq_fixed; exact Hf]. Qed.

(* ---- reading the parser's primitives backwards ---- *)
Lemma lookaheadToken_inv i n t : lookaheadToken ts i n = Ok t -> nth_error ts (i + n) = Some t.
Proof. unfold lookaheadToken, nth_or_panic. destruct (nth_error ts (i + n)); intros H; inversion H; reflexivity. Qed.

Lemma lookahead_inv i n ty : lookahead ts i n = Ok ty -> tyat (i + n) ty.
Proof.
  unfold lookahead, omap. intros H. apply bind_ok_inv in H as [t [Ht H]]. inversion H; subst.
  exists t. split; [apply lookaheadToken_inv; exact Ht | reflexivity].
Qed.

Lemma current_inv i ty : current ts i = Ok ty -> tyat i ty.
Proof. unfold current. intros H. apply lookahead_inv in H. rewrite Nat.add_0_r in H. exact H. Qed.

Lemma tok_eqb_eq a b : tok_eqb a b = true -> a = b.
Proof. destruct a, b; cbn; intros H; try reflexivity; discriminate. Qed.

Lemma match_inv i ty j : match_ ts i ty = Ok j -> j = S i /\ tyat i ty.
Proof.
  unfold match_. intros H. apply bind_ok_inv in H as [c [Hc H]]. destruct (tok_eqb c ty) eqn:E.
  - inversion H; subst. split; [reflexivity|]. apply tok_eqb_eq in E. subst c. apply current_inv. exact Hc.
  - unfold syntaxError in H. apply bind_ok_inv in H as [? [_ H]]. discriminate.
Qed.

Lemma syntaxError_not_ok {A} i (r : A) : @syntaxError ts A i = Ok r -> False.
Proof. unfold syntaxError. intros H. apply bind_ok_inv in H as [? [_ H]]. discriminate. Qed.

Lemma tyat_fun i a b : tyat i a -> tyat i b -> a = b.
Proof. intros [x [H1 H2]] [y [H3 H4]]. rewrite H1 in H3. inversion H3; subst. reflexivity. Qed.

(* ---- index and slice brackets ---- *)
(* tokens read by the slice loop when it has seen `index` colons *)
Definition pre_tokens (parts : option Z * option Z * option Z) (index : nat) : list token :=
  let '(a, b, c) := parts in
  match index with
  | 0%nat => opt_num a
  | 1%nat => opt_num a ++ [tk tColon (str ":")] ++ opt_num b
  | _ => opt_num a ++ [tk tColon (str ":")] ++ opt_num b ++ [tk tColon (str ":")] ++ opt_num c
  end.
(* parts not reached yet are empty *)
Definition parts_ok (parts : option Z * option Z * option Z) (index : nat) : Prop :=
  let '(a, b, c) := parts in
  opt_int64 a = true /\ opt_int64 b = true /\ opt_int64 c = true /\
  ((index < 1)%nat -> b = None) /\ ((index < 2)%nat -> c = None) /\ (index <= 2)%nat.

Lemma Sim_number i z a : nth_error ts i = Some a -> ttype a = tNumber -> atoi (tvalue a) = Some z ->
  Sim i [tk tNumber (int_text z)].
Proof.
  intros H1 H2 H3. apply Sim_one. exists a. split; [exact H1|]. split; [exact H2|]. cbn [veq].
  rewrite H3. symmetry. apply atoi_int_text. eapply atoi_int64; eauto.
Qed.

Lemma slice_loop_sound : forall g parts index i0 i n j,
  parts_ok parts index -> Sim i0 (pre_tokens parts index) -> i = (i0 + length (pre_tokens parts index))%nat ->
  slice_loop ts g parts index i = Ok (n, j) ->
  exists a b c index', n = Node ASTSlice (NVSlice a b c) [] /\ parts_ok (a, b, c) index' /\
    Sim i0 (pre_tokens (a, b, c) index' ++ [tk tRbracket (str "]")]) /\
    j = (i0 + length (pre_tokens (a, b, c) index' ++ [tk tRbracket (str "]")]))%nat.
Proof.
  induction g as [|g IH]; intros parts index i0 i n j Hp Hs Hi H; [discriminate|].
  cbn [slice_loop] in H. apply bind_ok_inv in H as [cur [Hcur H]]. apply current_inv in Hcur.
  destruct (negb (tok_eqb cur tRbracket) && Nat.ltb index 3) eqn:Eg.
  - destruct (tok_eqb cur tColon) eqn:Ec.
    + apply tok_eqb_eq in Ec. subst cur.
      destruct (Nat.eqb (S index) 3) eqn:E3; [exfalso; eapply syntaxError_not_ok; eauto|].
      apply Nat.eqb_neq in E3.
      assert (Hidx : (index < 2)%nat).
      { apply andb_true_iff in Eg as [_ Eg]. apply Nat.ltb_lt in Eg. lia. }
      destruct parts as [[a b] c]. destruct Hp as [Ha [Hb [Hc [Hb0 [Hc0 Hi2]]]]].
      apply (IH (a, b, c) (S index) i0 (S i) n j); [| | |exact H].
      * repeat split; try assumption; try lia. intros Hx. apply Hc0. lia.
      * destruct index as [|[|k]]; [| |lia].
        -- pose proof (Hb0 ltac:(lia)) as Eb. subst b. cbn [pre_tokens opt_num] in *. rewrite ?app_nil_r.
           apply Sim_app; [exact Hs|]. rewrite <- Hi. apply Sim_fixed; [exact Hcur | exact I].
        -- pose proof (Hc0 ltac:(lia)) as Ec0. subst c. cbn [pre_tokens opt_num] in *. rewrite ?app_nil_r.
           replace (opt_num a ++ [tk tColon (str ":")] ++ opt_num b ++ [tk tColon (str ":")])
             with ((opt_num a ++ [tk tColon (str ":")] ++ opt_num b) ++ [tk tColon (str ":")]) by (rewrite <- !app_assoc; reflexivity).
           apply Sim_app; [exact Hs|]. rewrite <- Hi. apply Sim_fixed; [exact Hcur | exact I].
      * destruct index as [|[|k]]; [| |lia]; cbn [pre_tokens] in *.
        -- pose proof (Hb0 ltac:(lia)) as Eb. subst b. cbn [opt_num]. rewrite !app_length. cbn [length]. lia.
        -- pose proof (Hc0 ltac:(lia)) as Ec0. subst c. cbn [opt_num]. rewrite !app_length in *. cbn [length] in *. lia.
    + destruct (tok_eqb cur tNumber && match get_part parts index with None => true | Some _ => false end) eqn:En;
        [|exfalso; eapply syntaxError_not_ok; eauto].
      apply andb_true_iff in En as [En Hg]. apply tok_eqb_eq in En. subst cur.
      apply bind_ok_inv in H as [t [Ht H]]. apply lookaheadToken_inv in Ht. rewrite Nat.add_0_r in Ht.
      destruct (atoi (tvalue t)) as [z|] eqn:Ez; [|discriminate].
      assert (Hty : ttype t = tNumber).
      { destruct Hcur as [x [Hx1 Hx2]]. rewrite Ht in Hx1. inversion Hx1; subst. exact Hx2. }
      assert (Hidx : (index < 3)%nat) by (apply andb_true_iff in Eg as [_ Eg]; apply Nat.ltb_lt in Eg; exact Eg).
      destruct parts as [[a b] c]. destruct Hp as [Ha [Hb [Hc [Hb0 [Hc0 Hi2]]]]].
      pose proof (atoi_int64 _ _ Ez) as Hz.
      apply (IH (set_part (a, b, c) index z) index i0 (S i) n j); [| | |exact H].
      * unfold set_part. destruct index as [|[|k]]; cbn [get_part] in Hg.
        -- destruct a; [discriminate|]. repeat split; try assumption; try lia; intros; auto.
        -- destruct b; [discriminate|]. repeat split; try assumption; try lia; intros; try lia; auto.
        -- destruct c; [discriminate|]. repeat split; try assumption; try lia; intros; lia.
      * unfold set_part. destruct index as [|[|k]]; cbn [get_part] in Hg.
        -- destruct a; [discriminate|]. cbn [pre_tokens opt_num] in *. subst i. rewrite Nat.add_0_r in Ht.
           apply (Sim_number i0 z t Ht Hty Ez).
        -- destruct b; [discriminate|]. cbn [pre_tokens opt_num] in *. rewrite app_nil_r in *.
           replace (opt_num a ++ [tk tColon (str ":")] ++ [tk tNumber (int_text z)])
             with ((opt_num a ++ [tk tColon (str ":")]) ++ [tk tNumber (int_text z)]) by (rewrite <- app_assoc; reflexivity).
           apply Sim_app; [exact Hs|]. rewrite <- Hi. apply (Sim_number i z t Ht Hty Ez).
        -- destruct c; [discriminate|]. assert (k = 0%nat) by lia. subst k. cbn [pre_tokens opt_num] in *. rewrite app_nil_r in *.
           replace (opt_num a ++ [tk tColon (str ":")] ++ opt_num b ++ [tk tColon (str ":")] ++ [tk tNumber (int_text z)])
             with ((opt_num a ++ [tk tColon (str ":")] ++ opt_num b ++ [tk tColon (str ":")]) ++ [tk tNumber (int_text z)])
             by (rewrite <- !app_assoc; reflexivity).
           apply Sim_app; [exact Hs|]. rewrite <- Hi. apply (Sim_number i z t Ht Hty Ez).
      * unfold set_part. destruct index as [|[|k]]; cbn [get_part] in Hg.
        -- destruct a; [discriminate|]. cbn [pre_tokens opt_num length] in *. lia.
        -- destruct b; [discriminate|]. cbn [pre_tokens opt_num] in *. rewrite ?app_length in *. cbn [length] in *. lia.
        -- destruct c; [discriminate|]. assert (k = 0%nat) by lia. subst k. cbn [pre_tokens opt_num] in *.
           repeat (rewrite ?app_length in *; cbn [length] in * ). lia.
  - apply bind_ok_inv in H as [i' [Hm H]]. apply match_inv in Hm as [-> Hrb].
    destruct parts as [[a b] c]. inversion H; subst n j.
    exists a, b, c, index. split; [reflexivity|]. split; [exact Hp|]. split.
    + apply Sim_app; [exact Hs|]. rewrite <- Hi. apply Sim_fixed; [exact Hrb | exact I].
    + rewrite app_length. cbn [length]. lia.
Qed.


Lemma Sim_ty i l k t : Sim i l -> nth_error l k = Some t -> tyat (i + k) (ttype t).
Proof. intros H Hk. destruct (H k t Hk) as [a [H1 [H2 _]]]. exists a. split; assumption. Qed.

Lemma parseIndexExpression_sound i n j : (tyat i tNumber \/ tyat i tColon) -> parseIndexExpression ts i = Ok (n, j) ->
  (exists z, n = Node ASTIndex (NVInt z) [] /\ in_int64 z = true /\
             Sim i [tk tNumber (int_text z); tk tRbracket (str "]")] /\ j = S (S i)) \/
  (exists a b c, n = Node ASTSlice (NVSlice a b (cjoin c)) [] /\
                 opt_int64 a = true /\ opt_int64 b = true /\ opt_int64 (cjoin c) = true /\
                 Sim i (slice_tokens a b c) /\ j = (i + length (slice_tokens a b c))%nat).
Proof.
  unfold parseIndexExpression, parseSliceExpression. intros Hfirst H.
  apply bind_ok_inv in H as [l0 [Hl0 H]]. apply lookahead_inv in Hl0. rewrite Nat.add_0_r in Hl0.
  apply bind_ok_inv in H as [isl [Hisl H]].
  destruct isl.
  - right.
    assert (Hcolon : tyat i tColon \/ tyat (i + 1) tColon).
    { destruct (tok_eqb l0 tColon) eqn:E0.
      - apply tok_eqb_eq in E0. subst l0. left. exact Hl0.
      - apply bind_ok_inv in Hisl as [l1 [Hl1 Hisl]]. inversion Hisl as [E1]. apply tok_eqb_eq in E1. subst l1.
        right. apply lookahead_inv. exact Hl1. }
    destruct (slice_loop_sound (S (length ts)) (None, None, None) 0 i i n j) as [a [b [c [idx [-> [Hp [Hs Hj]]]]]]];
      [repeat split; auto; lia | apply Sim_nil | cbn; lia | exact H |].
    destruct Hp as [Ha [Hb [Hc [Hb0 [Hc0 Hi2]]]]].
    destruct idx as [|[|k]].
    + (* no colon was read: impossible *)
      exfalso. cbn [pre_tokens] in Hs. destruct a as [za|]; cbn [opt_num app] in Hs.
      * pose proof (Sim_ty i _ 0 _ Hs eq_refl) as T0. pose proof (Sim_ty i _ 1 _ Hs eq_refl) as T1. cbn [ttype tk] in *.
        rewrite Nat.add_0_r in T0. destruct Hcolon as [Hc1|Hc1]; [pose proof (tyat_fun _ _ _ T0 Hc1) | pose proof (tyat_fun _ _ _ T1 Hc1)]; discriminate.
      * pose proof (Sim_ty i _ 0 _ Hs eq_refl) as T0. cbn [ttype tk] in *. rewrite Nat.add_0_r in T0.
        destruct Hfirst as [Hf|Hf]; pose proof (tyat_fun _ _ _ T0 Hf); discriminate.
    + (* one colon *)
      pose proof (Hc0 ltac:(lia)) as Ec. subst c. exists a, b, None. cbn [cjoin].
      assert (Et : pre_tokens (a, b, None) 1 ++ [tk tRbracket (str "]")] = slice_tokens a b None).
      { unfold slice_tokens. cbn [pre_tokens app]. rewrite <- !app_assoc. reflexivity. }
      rewrite Et in *. repeat split; try assumption; reflexivity.
    + (* two colons *)
      assert (k = 0%nat) by lia. subst k. exists a, b, (Some c).
      assert (Ej : cjoin (Some c) = c) by (destruct c; reflexivity). rewrite Ej.
      assert (Et : pre_tokens (a, b, c) 2 ++ [tk tRbracket (str "]")] = slice_tokens a b (Some c)).
      { unfold slice_tokens. cbn [pre_tokens]. rewrite <- !app_assoc. reflexivity. }
      rewrite Et in *. repeat split; try assumption; reflexivity.
  - left. apply bind_ok_inv in H as [t [Ht H]]. apply lookaheadToken_inv in Ht. rewrite Nat.add_0_r in Ht.
    destruct (atoi (tvalue t)) as [z|] eqn:Ez; [|discriminate].
    apply bind_ok_inv in H as [i' [Hm H]]. apply match_inv in Hm as [-> Hrb]. inversion H; subst n j.
    exists z. split; [reflexivity|]. split; [eapply atoi_int64; eauto|]. split; [|reflexivity].
    (* token i is a number: it is not a colon (the slice test failed) and the caller saw a number or a colon *)
    assert (Hnum : ttype t = tNumber).
    { destruct Hfirst as [[x [Hx1 Hx2]]|[x [Hx1 Hx2]]]; rewrite Ht in Hx1; inversion Hx1; subst x; [exact Hx2|].
      exfalso. destruct Hl0 as [y [Hy1 Hy2]]. rewrite Ht in Hy1. inversion Hy1; subst y. rewrite Hx2 in Hy2. subst l0.
      cbn in Hisl. discriminate. }
    apply Sim_cons; [|apply Sim_fixed; [exact Hrb | exact I]].
    exists t. split; [exact Ht|]. split; [exact Hnum|]. cbn [veq tk ttype tvalue]. rewrite Ez. symmetry. apply atoi_int_text. eapply atoi_int64; eauto.
Qed.

(* ---- the statements ---- *)
Definition stop (j : nat) (lvl : Z) : Prop := exists t, nth_error ts j = Some t /\ binding_power (ttype t) <= lvl.

Definition ty_or (i : nat) : tokType := match nth_error ts i with Some t => ttype t | None => tUnknown end.
Lemma tyat_ty_or i ty : tyat i ty -> ty_or i = ty.
Proof. intros [a [H1 H2]]. unfold ty_or. rewrite H1. exact H2. Qed.

(* the leftmost form of what a prefix handler reads, as the tokens tell it *)
Definition nud_head (i : nat) : headkind :=
  match ty_or i with
  | tUnquotedIdentifier => HIdent | tQuotedIdentifier => HQuoted | tLbrace => HMulti | tStar => HStar
  | tFilter => HFilter | tFlatten => HFlatten
  | tLbracket =>
    match ty_or (S i) with
    | tNumber | tColon => HBracket
    | tStar => match ty_or (S (S i)) with tRbracket => HBracket | _ => HMulti end
    | _ => HMulti
    end
  | _ => HOther
  end.

Lemma nud_head_npos i e : head e = nud_head i -> npos e = true.
Proof.
  unfold npos. intros ->. unfold nud_head. destruct (ty_or i); try reflexivity.
  destruct (ty_or (S i)); try reflexivity. destruct (ty_or (S (S i))); reflexivity.
Qed.

(* e was read from i0 on, in a context of level bp, up to j *)
Definition Res (bp : Z) (i0 : nat) (n : node) (j : nat) (e : expr) : Prop :=
  n = compile e /\ wp e = true /\ Sim i0 (render e) /\ j = (i0 + nE e)%nat /\ bp < lmin e /\ stop j (Z.min bp (rl e)).

(* l has been read from i0 to i and may be extended by the operator at i *)
Definition Left (l : expr) (i0 i : nat) : Prop :=
  wp l = true /\ Sim i0 (render l) /\ i = (i0 + nE l)%nat /\
  (forall t, nth_error ts i = Some t -> binding_power (ttype t) <= rl l).

Lemma Res_Left bp i0 n j e : Res bp i0 n j e -> Left e i0 j.
Proof.
  intros [_ [Hw [Hs [Hj [_ [t [Ht Hp]]]]]]]. repeat split; try assumption.
  intros t' Ht'. rewrite Ht in Ht'. inversion Ht'; subst. lia.
Qed.

Lemma binding_power_le_top ty : binding_power ty <= lvl_top.
Proof. destruct ty; cbn; unfold lvl_top; lia. Qed.

Section Body.
Variable pe : Z -> nat -> outcome (node * nat).
Variable ce : node -> Z -> nat -> outcome (node * nat).
Hypothesis Hpe : forall bp i n j, bp < lvl_top -> pe bp i = Ok (n, j) -> exists e, Res bp i n j e /\ head e = nud_head i.
Hypothesis Hce : forall l bp i0 i n j, Left l i0 i -> bp < lmin l -> ce (compile l) bp i = Ok (n, j) ->
  exists e, Res bp i0 n j e /\ head e = head l.

Definition elem_ok (x : expr) : Prop := wp x = true /\ npos x = true.

Lemma pe_elem bp i n j : bp < lvl_top -> pe bp i = Ok (n, j) ->
  exists e, n = compile e /\ elem_ok e /\ Sim i (render e) /\ j = (i + nE e)%nat /\ bp < lmin e /\ head e = nud_head i.
Proof.
  intros Hlt H. destruct (Hpe _ _ _ _ Hlt H) as [e [[Hc [Hw [Hs [Hj [Hl _]]]]] Hh]]. exists e.
  repeat split; try assumption. eapply nud_head_npos; eauto.
Qed.

Notation comma := [tk tComma (str ",")].

Ltac sites := cbv [bp_of site_Parse_parseExpression site_parseExpression_continueExpression site_led_tDot_parseDotRHS
  site_led_tDot_parseProjectionRHS site_led_tPipe_parseExpression site_led_tOr_parseExpression site_led_tAnd_parseExpression
  site_led_tFlatten_parseProjectionRHS site_led_tEQ_tNE_tGT_tGTE_tLT_tLTE_parseExpression site_led_tLbracket_parseProjectionRHS
  site_nud_tStar_parseProjectionRHS site_nud_tFlatten_parseProjectionRHS site_nud_tLbracket_parseProjectionRHS
  site_nud_tNot_parseExpression site_nud_tLparen_parseExpression site_parseFunctionArg_parseExpression
  site_parseFunctionArg_parseExpression2 site_parseMultiSelectList_parseExpression site_parseMultiSelectHash_parseExpression
  site_projectIfSlice_parseProjectionRHS site_parseFilter_parseExpression site_parseFilter_parseProjectionRHS
  site_parseDotRHS_parseExpression site_parseDotRHS_continueExpression site_parseDotRHS_continueExpression2
  site_parseProjectionRHS_parseExpression site_parseProjectionRHS_parseExpression2 site_parseProjectionRHS_parseDotRHS] in *.

Ltac len := repeat (rewrite ?app_length in *; cbn [length] in * ); unfold ParserComplete.nE in *; lia.

Lemma sep_by_cons2 {A} (f : A -> list token) x y r :
  sep_by comma (map f (x :: y :: r)) = f x ++ comma ++ sep_by comma (map f (y :: r)).
Proof. reflexivity. Qed.

(* ---- multi-select lists ---- *)
Lemma msl_loop_sound : forall g acc i n j, msl_loop ts pe g acc i = Ok (n, j) ->
  exists es, es <> [] /\ n = mk ASTMultiSelectList NVNone (rev acc ++ map compile es) /\ Forall elem_ok es /\
    Sim i (sep_by comma (map render es) ++ [tk tRbracket (str "]")]) /\
    j = (i + length (sep_by comma (map render es) ++ [tk tRbracket (str "]")]))%nat.
Proof.
  induction g as [|g IH]; intros acc i n j H; [discriminate|].
  cbn [msl_loop] in H. apply bind_ok_inv in H as [[nd i1] [He H]]. cbn beta iota in H.
  destruct (pe_elem 0 _ _ _ eq_refl He) as [e [-> [Hok [Hs [-> _]]]]].
  apply bind_ok_inv in H as [c [Hc H]]. apply current_inv in Hc.
  destruct (tok_eqb c tRbracket) eqn:Erb.
  - apply tok_eqb_eq in Erb. subst c. apply bind_ok_inv in H as [i2 [Hm H]]. apply match_inv in Hm as [-> _].
    inversion H; subst n j. exists [e]. split; [discriminate|]. split; [cbn [rev map]; reflexivity|]. split; [constructor; [exact Hok | constructor]|].
    cbn [map sep_by]. split.
    + apply Sim_app; [exact Hs|]. apply Sim_fixed; [exact Hc | exact I].
    + len.
  - apply bind_ok_inv in H as [i2 [Hm H]]. apply match_inv in Hm as [-> Hcomma].
    destruct (IH _ _ _ _ H) as [es [Hne [-> [Hall [Hs2 ->]]]]].
    exists (e :: es). split; [discriminate|]. split; [cbn [rev map]; rewrite <- app_assoc; reflexivity|].
    split; [constructor; assumption|].
    destruct es as [|y es']; [congruence|]. rewrite sep_by_cons2. rewrite <- !app_assoc. split.
    + apply Sim_app; [exact Hs|]. cbn [app]. apply Sim_cons.
      * destruct Hcomma as [a [Ha1 Ha2]]. exists a. split; [exact Ha1|]. split; [exact Ha2 | exact I].
      * exact Hs2.
    + len.
Qed.

(* ---- multi-select hashes ---- *)
Lemma msh_loop_sound : forall g acc i n j, msh_loop ts pe g acc i = Ok (n, j) ->
  exists kvs, kvs <> [] /\ n = mk ASTMultiSelectHash NVNone (rev acc ++ map kv_node kvs) /\
    Forall (fun kv => elem_ok (snd kv)) kvs /\
    Sim i (sep_by comma (map kv_tokens kvs) ++ [tk tRbrace (str "}")]) /\
    j = (i + length (sep_by comma (map kv_tokens kvs) ++ [tk tRbrace (str "}")]))%nat.
Proof.
  induction g as [|g IH]; intros acc i n j H; [discriminate|].
  cbn [msh_loop] in H. apply bind_ok_inv in H as [kt [Hkt H]]. apply lookaheadToken_inv in Hkt. rewrite Nat.add_0_r in Hkt.
  apply bind_ok_inv in H as [c0 [Hc0 H]]. apply current_inv in Hc0.
  destruct (tok_eqb c0 tUnquotedIdentifier || tok_eqb c0 tQuotedIdentifier) eqn:Ek; [|exfalso; eapply syntaxError_not_ok; eauto].
  apply bind_ok_inv in H as [i1 [Hm H]]. apply match_inv in Hm as [-> Hcolon].
  apply bind_ok_inv in H as [[v i2] [Hv H]]. cbn beta iota in H.
  destruct (pe_elem 0 _ _ _ eq_refl Hv) as [e [-> [Hok [Hs [-> _]]]]].
  apply bind_ok_inv in H as [c [Hc H]]. apply current_inv in Hc.
  assert (Hkty : ttype kt = c0) by (destruct Hc0 as [x [Hx1 Hx2]]; rewrite Hkt in Hx1; inversion Hx1; subst; reflexivity).
  set (q := tok_eqb c0 tQuotedIdentifier).
  assert (Hq : c0 = if q then tQuotedIdentifier else tUnquotedIdentifier).
  { unfold q. destruct (tok_eqb c0 tQuotedIdentifier) eqn:E1; [apply tok_eqb_eq; exact E1|].
    rewrite orb_false_r in Ek. apply tok_eqb_eq. exact Ek. }
  set (kv := (q, tvalue kt, e)).
  assert (Hkv : Sim i (kv_tokens kv)).
  { unfold ParserComplete.kv_tokens, kv. cbn [fst snd]. apply Sim_cons.
    - exists kt. split; [exact Hkt|]. split; [cbn [tk ttype]; rewrite Hkty; exact Hq|]. cbn [tk ttype tvalue]. destruct q; reflexivity.
    - apply Sim_cons; [|exact Hs]. destruct Hcolon as [a [Ha1 Ha2]]. exists a. split; [exact Ha1|]. split; [exact Ha2 | exact I]. }
  assert (Hlen : length (kv_tokens kv) = S (S (nE e))) by reflexivity.
  destruct (tok_eqb c tComma) eqn:Ecm.
  - apply tok_eqb_eq in Ecm. subst c.
    destruct (IH _ _ _ _ H) as [kvs [Hne [-> [Hall [Hs2 ->]]]]].
    exists (kv :: kvs). split; [discriminate|]. split; [cbn [rev map]; rewrite <- app_assoc; reflexivity|].
    split; [constructor; [exact Hok | exact Hall]|].
    destruct kvs as [|y kvs']; [congruence|]. rewrite sep_by_cons2. rewrite <- !app_assoc. split.
    + apply Sim_app; [exact Hkv|]. cbn [app]. rewrite Hlen. apply Sim_cons.
      * destruct Hc as [a [Ha1 Ha2]]. exists a. replace (i + S (S (nE e)))%nat with (S (S i) + nE e)%nat by lia.
        split; [exact Ha1|]. split; [exact Ha2 | exact I].
      * replace (S (i + S (S (nE e))))%nat with (S (S (S i) + nE e))%nat by lia. exact Hs2.
    + len.
  - destruct (tok_eqb c tRbrace) eqn:Erb; [|exfalso; eapply syntaxError_not_ok; eauto].
    apply tok_eqb_eq in Erb. subst c. inversion H; subst n j.
    exists [kv]. split; [discriminate|]. split; [reflexivity|]. split; [constructor; [exact Hok | constructor]|].
    cbn [map sep_by]. split.
    + apply Sim_app; [exact Hkv|]. rewrite Hlen. replace (i + S (S (nE e)))%nat with (S (S i) + nE e)%nat by lia.
      apply Sim_fixed; [exact Hc | exact I].
    + len.
Qed.

(* ---- function arguments ---- *)
Definition arg_ok (a : arg) : Prop := elem_ok (arg_expr a).

Lemma parseFunctionArg_sound i n j : parseFunctionArg ts pe i = Ok (n, j) ->
  exists a, n = arg_node a /\ arg_ok a /\ Sim i (arg_tokens a) /\ j = (i + length (arg_tokens a))%nat.
Proof.
  unfold parseFunctionArg. intros H. apply bind_ok_inv in H as [c [Hc H]]. apply current_inv in Hc.
  destruct (negb (tok_eqb c tExpref)) eqn:Ex.
  - destruct (pe_elem 0 _ _ _ eq_refl H) as [e [-> [Hok [Hs [-> _]]]]]. exists (AExpr e). repeat split; try assumption; apply Hok.
  - apply bind_ok_inv in H as [[nd i1] [He H]]. cbn beta iota in H. inversion H; subst n j.
    destruct (pe_elem 0 _ _ _ eq_refl He) as [e [-> [Hok [Hs [-> _]]]]]. exists (ARef e).
    apply negb_false_iff in Ex. apply tok_eqb_eq in Ex. subst c.
    split; [reflexivity|]. split; [exact Hok|]. cbn [ParserComplete.arg_tokens]. split.
    + apply Sim_cons; [|exact Hs]. destruct Hc as [a [Ha1 Ha2]]. exists a. split; [exact Ha1|]. split; [exact Ha2 | exact I].
    + len.
Qed.

Lemma args_loop_sound : forall g acc i ns j, args_loop ts pe g acc i = Ok (ns, j) ->
  exists args, args <> [] /\ ns = rev acc ++ map arg_node args /\ Forall arg_ok args /\
    Sim i (sep_by comma (map arg_tokens args)) /\ j = (i + length (sep_by comma (map arg_tokens args)))%nat /\
    tyat j tRparen.
Proof.
  induction g as [|g IH]; intros acc i ns j H; [discriminate|].
  cbn [args_loop] in H. apply bind_ok_inv in H as [[nd i1] [He H]]. cbn beta iota in H.
  destruct (parseFunctionArg_sound _ _ _ He) as [a [-> [Hok [Hs ->]]]].
  apply bind_ok_inv in H as [c [Hc H]]. apply current_inv in Hc.
  destruct (tok_eqb c tRparen) eqn:Erp.
  - apply tok_eqb_eq in Erp. subst c. inversion H; subst ns j. exists [a].
    split; [discriminate|]. split; [reflexivity|]. split; [constructor; [exact Hok | constructor]|].
    cbn [map sep_by]. repeat split; try assumption.
  - apply bind_ok_inv in H as [i2 [Hm H]]. apply match_inv in Hm as [-> Hcomma].
    destruct (IH _ _ _ _ H) as [args [Hne [-> [Hall [Hs2 [-> Hrp]]]]]].
    exists (a :: args). split; [discriminate|]. split; [cbn [rev map]; rewrite <- app_assoc; reflexivity|].
    split; [constructor; assumption|].
    destruct args as [|y args']; [congruence|]. rewrite sep_by_cons2. split; [|split].
    + apply Sim_app; [exact Hs|]. cbn [app]. apply Sim_cons.
      * destruct Hcomma as [x [Hx1 Hx2]]. exists x. split; [exact Hx1|]. split; [exact Hx2 | exact I].
      * exact Hs2.
    + len.
    + replace (i + length (arg_tokens a ++ comma ++ sep_by comma (map arg_tokens (y :: args'))))%nat
        with (S (i + length (arg_tokens a)) + length (sep_by comma (map arg_tokens (y :: args'))))%nat by len.
      exact Hrp.
Qed.

(* ---- what may follow a dot ---- *)
Definition dot_kind (i : nat) (e : expr) : Prop :=
  (tyat i tStar /\ head e = HStar) \/
  (match head e with HIdent | HQuoted | HMulti | HMultiStar => True | _ => False end).

Lemma wp_mslist es : es <> [] -> Forall elem_ok es -> wp (EMSList es) = true.
Proof.
  intros Hne Hall. cbn [wp]. apply andb_true_iff. split; [destruct es; [congruence | reflexivity]|].
  apply forallb_forall. intros x Hx. rewrite Forall_forall in Hall. destruct (Hall x Hx) as [H1 H2]. rewrite H1, H2. reflexivity.
Qed.

Lemma wp_mshash kvs : kvs <> [] -> Forall (fun kv : bool * bytes * expr => elem_ok (snd kv)) kvs -> wp (EMSHash kvs) = true.
Proof.
  intros Hne Hall. cbn [wp]. apply andb_true_iff. split; [destruct kvs; [congruence | reflexivity]|].
  apply forallb_forall. intros x Hx. rewrite Forall_forall in Hall. destruct (Hall x Hx) as [H1 H2]. rewrite H1, H2. reflexivity.
Qed.

Lemma render_mshash kvs :
  render (EMSHash kvs) = tk tLbrace (str "{") :: sep_by comma (map kv_tokens kvs) ++ [tk tRbrace (str "}")].
Proof. reflexivity. Qed.

Lemma compile_mshash kvs : compile (EMSHash kvs) = mk ASTMultiSelectHash NVNone (map kv_node kvs).
Proof. reflexivity. Qed.

Lemma parseDotRHS_sound bp i n j : bp < lvl_top -> parseDotRHS ts pe ce bp i = Ok (n, j) ->
  exists e, Res bp i n j e /\ dot_kind i e.
Proof.
  intros Hbp0. unfold parseDotRHS. intros H. sites. apply bind_ok_inv in H as [la [Hla H]]. apply current_inv in Hla.
  destruct (tok_eqb la tQuotedIdentifier || tok_eqb la tUnquotedIdentifier || tok_eqb la tStar) eqn:E1.
  - destruct (Hpe _ _ _ _ Hbp0 H) as [e [Hres Hh]]. exists e. split; [exact Hres|].
    unfold nud_head in Hh. rewrite (tyat_ty_or _ _ Hla) in Hh.
    destruct (tok_eqb la tQuotedIdentifier) eqn:Eq; [apply tok_eqb_eq in Eq; subst la; right; rewrite Hh; exact I|].
    destruct (tok_eqb la tUnquotedIdentifier) eqn:Eu; [apply tok_eqb_eq in Eu; subst la; right; rewrite Hh; exact I|].
    cbn [orb] in E1. apply tok_eqb_eq in E1. subst la. left. split; [exact Hla | exact Hh].
  - destruct (tok_eqb la tLbracket) eqn:Elb.
    + apply tok_eqb_eq in Elb. subst la.
      apply bind_ok_inv in H as [i1 [Hm H]]. apply match_inv in Hm as [-> _].
      apply bind_ok_inv in H as [[lft i2] [Hl H]]. cbn beta iota in H.
      destruct (msl_loop_sound _ _ _ _ _ Hl) as [es [Hne [-> [Hall [Hs ->]]]]]. cbn [rev app] in H.
      change (mk ASTMultiSelectList NVNone (map compile es)) with (compile (EMSList es)) in H.
      assert (HL : Left (EMSList es) i (S i + length (sep_by comma (map render es) ++ [tk tRbracket (str "]")]))).
      { split; [apply wp_mslist; assumption|]. split; [|split].
        - cbn [Grammar.render]. apply Sim_cons; [|exact Hs]. destruct Hla as [a [Ha1 Ha2]]. exists a. split; [exact Ha1|]. split; [exact Ha2 | exact I].
        - unfold ParserComplete.nE. cbn [Grammar.render length]. lia.
        - intros t _. cbn [rl]. pose proof (binding_power_le_top (ttype t)). lia. }
      destruct (Hce _ _ _ _ _ _ HL ltac:(cbn [lmin]; exact Hbp0) H) as [e [Hres Hh]].
      exists e. split; [exact Hres|]. right. rewrite Hh. cbn [head]. destruct (star_list es); exact I.
    + destruct (tok_eqb la tLbrace) eqn:Elc; [|exfalso; eapply syntaxError_not_ok; eauto].
      apply tok_eqb_eq in Elc. subst la.
      apply bind_ok_inv in H as [i1 [Hm H]]. apply match_inv in Hm as [-> _].
      apply bind_ok_inv in H as [[lft i2] [Hl H]]. cbn beta iota in H.
      destruct (msh_loop_sound _ _ _ _ _ Hl) as [kvs [Hne [-> [Hall [Hs ->]]]]]. cbn [rev app] in H.
      rewrite <- compile_mshash in H.
      assert (HL : Left (EMSHash kvs) i (S i + length (sep_by comma (map kv_tokens kvs) ++ [tk tRbrace (str "}")]))).
      { split; [apply wp_mshash; assumption|]. split; [|split].
        - rewrite render_mshash. apply Sim_cons; [|exact Hs]. destruct Hla as [a [Ha1 Ha2]]. exists a. split; [exact Ha1|]. split; [exact Ha2 | exact I].
        - unfold ParserComplete.nE. rewrite render_mshash. cbn [length]. lia.
        - intros t _. cbn [rl]. pose proof (binding_power_le_top (ttype t)). lia. }
      destruct (Hce _ _ _ _ _ _ HL ltac:(cbn [lmin]; exact Hbp0) H) as [e [Hres Hh]].
      exists e. split; [exact Hres|]. right. rewrite Hh. exact I.
Qed.

(* ---- the right-hand side of a projection ---- *)
Lemma parseProjectionRHS_sound p i n j : p < lvl_top -> parseProjectionRHS ts pe ce p i = Ok (n, j) ->
  exists r, n = crhs r /\ rhs_okb r p = true /\ Sim i (rrhs r) /\ j = (i + length (rrhs r))%nat /\ stop j (rlr r p).
Proof.
  intros Hp. unfold parseProjectionRHS. intros H. sites. apply bind_ok_inv in H as [c [Hc H]]. apply current_inv in Hc.
  destruct (binding_power c <? projection_stop) eqn:Estop.
  - inversion H; subst n j. exists RNone. split; [reflexivity|]. split; [reflexivity|]. split; [apply Sim_nil|].
    split; [cbn; lia|]. destruct Hc as [a [Ha1 Ha2]]. exists a. split; [exact Ha1|]. rewrite Ha2. cbn [rlr].
    change projection_stop with 10 in Estop. unfold lvl_proj_stop. lia.
  - destruct (tok_eqb c tLbracket) eqn:Elb.
    + apply tok_eqb_eq in Elb. subst c.
      apply bind_ok_inv in H as [nx [Hnx H]]. apply lookahead_inv in Hnx. replace (i + 1)%nat with (S i) in Hnx by lia.
      apply bind_ok_inv in H as [ok [Hok H]].
      destruct ok; [|exfalso; eapply syntaxError_not_ok; eauto].
      destruct (Hpe _ _ _ _ Hp H) as [e [[-> [Hw [Hs [-> [Hl Hst]]]]] Hh]].
      assert (Hhb : head e = HBracket).
      { rewrite Hh. unfold nud_head. rewrite (tyat_ty_or _ _ Hc), (tyat_ty_or _ _ Hnx).
        destruct (tok_eqb nx tNumber || tok_eqb nx tColon) eqn:E1.
        - destruct (tok_eqb nx tNumber) eqn:E2; [apply tok_eqb_eq in E2; subst nx; reflexivity|].
          cbn [orb] in E1. apply tok_eqb_eq in E1. subst nx. reflexivity.
        - destruct (tok_eqb nx tStar) eqn:E3; [|discriminate]. apply tok_eqb_eq in E3. subst nx.
          apply bind_ok_inv in Hok as [l2 [Hl2 Hok]]. apply lookahead_inv in Hl2. replace (i + 2)%nat with (S (S i)) in Hl2 by lia.
          inversion Hok as [E4]. apply tok_eqb_eq in E4. subst l2. rewrite (tyat_ty_or _ _ Hl2). reflexivity. }
      exists (RBrk e). split; [reflexivity|]. split; [|split; [exact Hs|split; [reflexivity | exact Hst]]].
      cbn [rhs_okb]. rewrite Hw, Hhb. cbn [andb]. rewrite andb_true_r. lia.
    + destruct (tok_eqb c tFilter) eqn:Ef.
      * apply tok_eqb_eq in Ef. subst c.
        destruct (Hpe _ _ _ _ Hp H) as [e [[-> [Hw [Hs [-> [Hl Hst]]]]] Hh]].
        assert (Hhb : head e = HFilter) by (rewrite Hh; unfold nud_head; rewrite (tyat_ty_or _ _ Hc); reflexivity).
        exists (RBrk e). split; [reflexivity|]. split; [|split; [exact Hs|split; [reflexivity | exact Hst]]].
        cbn [rhs_okb]. rewrite Hw, Hhb. cbn [andb]. rewrite andb_true_r. lia.
      * destruct (tok_eqb c tDot) eqn:Ed; [|exfalso; eapply syntaxError_not_ok; eauto].
        apply tok_eqb_eq in Ed. subst c.
        apply bind_ok_inv in H as [i1 [Hm H]]. apply match_inv in Hm as [-> _].
        destruct (parseDotRHS_sound _ _ _ _ Hp H) as [e [[-> [Hw [Hs [-> [Hl Hst]]]]] Hk]].
        exists (RDot e). split; [reflexivity|]. split; [|split; [|split]].
        -- cbn [rhs_okb]. rewrite Hw. cbn [andb].
           assert (Hhd : match head e with HIdent | HQuoted | HMulti | HMultiStar | HStar => true | _ => false end = true).
           { destruct Hk as [[_ Hk]|Hk]; [rewrite Hk; reflexivity | destruct (head e); try contradiction; reflexivity]. }
           rewrite Hhd. rewrite andb_true_r. lia.
        -- cbn [ParserComplete.rrhs]. apply Sim_cons; [|exact Hs]. destruct Hc as [a [Ha1 Ha2]]. exists a. split; [exact Ha1|]. split; [exact Ha2 | exact I].
        -- cbn [ParserComplete.rrhs length]. unfold ParserComplete.nE. lia.
        -- exact Hst.
Qed.

(* ---- index and slice brackets, after "[" ---- *)
Lemma bracket_sound (lo : option expr) ib n j : (tyat ib tNumber \/ tyat ib tColon) ->
  ('(rgt, i1) <- parseIndexExpression ts ib ;; projectIfSlice ts pe ce (clhs lo) rgt i1) = Ok (n, j) ->
  (exists z, n = compile (EIndex lo z) /\ in_int64 z = true /\
             Sim ib [tk tNumber (int_text z); tk tRbracket (str "]")] /\ j = S (S ib)) \/
  (exists a b c r, n = compile (ESlice lo a b c r) /\
                   opt_int64 a = true /\ opt_int64 b = true /\ opt_int64 (cjoin c) = true /\ rhs_okb r lvl_star = true /\
                   Sim ib (slice_tokens a b c ++ rrhs r) /\ j = (ib + length (slice_tokens a b c ++ rrhs r))%nat /\
                   stop j (rlr r lvl_star)).
Proof.
  intros Hfirst H. apply bind_ok_inv in H as [[rgt i1] [Hi H]]. cbn beta iota in H.
  destruct (parseIndexExpression_sound _ _ _ Hfirst Hi) as [[z [-> [Hz [Hs ->]]]]|[a [b [c [-> [Ha [Hb [Hc [Hs ->]]]]]]]]].
  - left. unfold projectIfSlice in H. cbn [node_type] in H. change (ast_eqb ASTIndex ASTSlice) with false in H. cbn iota in H.
    inversion H; subst n j. exists z. split; [destruct lo; reflexivity|]. repeat split; assumption.
  - right. unfold projectIfSlice in H. cbn [node_type] in H. change (ast_eqb ASTSlice ASTSlice) with true in H. cbn iota in H.
    apply bind_ok_inv in H as [[r i2] [Hr H]]. cbn beta iota in H. inversion H; subst n j. sites.
    destruct (parseProjectionRHS_sound lvl_star _ _ _ eq_refl Hr) as [rr [-> [Hok [Hsr [-> Hst]]]]].
    exists a, b, c, rr. split; [destruct lo, rr; reflexivity|]. repeat split; try assumption.
    + apply Sim_app; assumption.
    + len.
Qed.

(* ---- filters, after "[?" ---- *)
Lemma parseFilter_sound (lo : option expr) i n j : parseFilter ts pe ce (clhs lo) i = Ok (n, j) ->
  exists c r, n = compile (EFilter lo c r) /\ elem_ok c /\ rhs_okb r lvl_filter = true /\
    Sim i (render c ++ [tk tRbracket (str "]")] ++ rrhs r) /\
    j = (i + length (render c ++ [tk tRbracket (str "]")] ++ rrhs r))%nat /\ stop j (rlr r lvl_filter).
Proof.
  unfold parseFilter. intros H. sites. apply bind_ok_inv in H as [[cond i1] [Hc H]]. cbn beta iota in H.
  destruct (pe_elem 0 _ _ _ eq_refl Hc) as [c [-> [Hok [Hs [-> _]]]]].
  apply bind_ok_inv in H as [i2 [Hm H]]. apply match_inv in Hm as [-> Hrb].
  apply bind_ok_inv in H as [cur [Hcur H]]. apply current_inv in Hcur.
  apply bind_ok_inv in H as [[rgt i3] [Hr H]]. cbn beta iota in H. inversion H; subst n j.
  assert (Hrhs : exists r, rgt = crhs r /\ rhs_okb r lvl_filter = true /\ Sim (S (i + nE c)) (rrhs r) /\
                           i3 = (S (i + nE c) + length (rrhs r))%nat /\ stop i3 (rlr r lvl_filter)).
  { destruct (tok_eqb cur tFlatten) eqn:Ef.
    - apply tok_eqb_eq in Ef. subst cur. inversion Hr; subst rgt i3. exists RNone. split; [reflexivity|]. split; [reflexivity|].
      split; [apply Sim_nil|]. split; [cbn; lia|]. destruct Hcur as [a [Ha1 Ha2]]. exists a. split; [exact Ha1|]. rewrite Ha2. cbn. lia.
    - apply (parseProjectionRHS_sound lvl_filter _ _ _ eq_refl Hr). }
  destruct Hrhs as [r [-> [Hrok [Hsr [-> Hst]]]]].
  exists c, r. split; [destruct lo, r; reflexivity|]. split; [exact Hok|]. split; [exact Hrok|]. split; [|split].
  - apply Sim_app; [exact Hs|]. cbn [app]. apply Sim_cons.
    + destruct Hrb as [a [Ha1 Ha2]]. exists a. split; [exact Ha1|]. split; [exact Ha2 | exact I].
    + exact Hsr.
  - len.
  - replace (i + length (render c ++ [tk tRbracket (str "]")] ++ rrhs r))%nat with (S (i + nE c) + length (rrhs r))%nat by len.
    exact Hst.
Qed.

(* ---- prefix forms ---- *)
Lemma not_lparen_power ty : ty <> tLparen -> binding_power ty <= lvl_call - 1.
Proof. destruct ty; cbn; unfold lvl_call; intros H; try lia. congruence. Qed.

Lemma stop_all j lvl : stop j lvl -> forall t, nth_error ts j = Some t -> binding_power (ttype t) <= lvl.
Proof. intros [t0 [H0 Hp]] t Ht. rewrite H0 in Ht. inversion Ht; subst. exact Hp. Qed.

Lemma Sim_tok i t ty v : nth_error ts i = Some t -> ttype t = ty -> veq ty (tvalue t) v -> Sim i [tk ty v].
Proof. intros H1 H2 H3. apply Sim_one. exists t. auto. Qed.

Lemma nud_sound t i n j : nth_error ts i = Some t -> nud ts pe ce t (S i) = Ok (n, j) ->
  exists l, n = compile l /\ Left l i j /\ lmin l = lvl_top /\ head l = nud_head i.
Proof.
  intros Ht H. unfold nud in H. sites.
  assert (Hty : ty_or i = ttype t) by (unfold ty_or; rewrite Ht; reflexivity).
  assert (Hti : tyat i (ttype t)) by (exists t; auto).
  unfold nud_head. rewrite Hty.
  destruct (ttype t) eqn:Ety; try (unfold syntaxErrorToken in H; discriminate).
  - (* tStar *)
    apply bind_ok_inv in H as [c [Hc H]]. apply current_inv in Hc.
    apply bind_ok_inv in H as [[rgt i1] [Hr H]]. cbn beta iota in H. inversion H; subst n j.
    assert (Hrhs : exists r, rgt = crhs r /\ rhs_okb r lvl_star = true /\ Sim (S i) (rrhs r) /\
                             i1 = (S i + length (rrhs r))%nat /\ stop i1 (rlr r lvl_star)).
    { destruct (tok_eqb c tRbracket) eqn:Erb.
      - apply tok_eqb_eq in Erb. subst c. inversion Hr; subst rgt i1. exists RNone. split; [reflexivity|]. split; [reflexivity|].
        split; [apply Sim_nil|]. split; [cbn; lia|]. destruct Hc as [a [Ha1 Ha2]]. exists a. split; [exact Ha1|]. rewrite Ha2. cbn. lia.
      - apply (parseProjectionRHS_sound lvl_star _ _ _ eq_refl Hr). }
    destruct Hrhs as [r [-> [Hrok [Hsr [-> Hst]]]]].
    exists (EValProj None r). split; [destruct r; reflexivity|]. split; [|split; [reflexivity | reflexivity]].
    split; [cbn [wp]; rewrite rhs_okb_of; exact Hrok|]. split; [|split].
    + rewrite render_valproj_none. apply Sim_cons; [|exact Hsr]. exists t. split; [exact Ht|]. split; [exact Ety | exact I].
    + unfold ParserComplete.nE. rewrite render_valproj_none. cbn [length]. lia.
    + cbn [rl]. rewrite rlr_of. apply stop_all. exact Hst.
  - (* tFilter *)
    destruct (parseFilter_sound None _ _ _ H) as [c [r [-> [[Hwc Hnc] [Hrok [Hs [-> Hst]]]]]]].
    exists (EFilter None c r). split; [reflexivity|]. split; [|split; [reflexivity | reflexivity]].
    split; [cbn [wp]; rewrite rhs_okb_of, Hwc, Hnc, Hrok; reflexivity|]. split; [|split].
    + rewrite render_filter. cbn [ParserComplete.olhs app]. apply Sim_cons; [|exact Hs]. exists t. split; [exact Ht|]. split; [exact Ety | exact I].
    + unfold ParserComplete.nE. rewrite render_filter. cbn [ParserComplete.olhs app length]. lia.
    + cbn [rl]. rewrite rlr_of. apply stop_all. exact Hst.
  - (* tFlatten *)
    apply bind_ok_inv in H as [[rgt i1] [Hr H]]. cbn beta iota in H. inversion H; subst n j.
    destruct (parseProjectionRHS_sound lvl_flatten _ _ _ eq_refl Hr) as [r [-> [Hrok [Hsr [-> Hst]]]]].
    exists (EFlatten None r). split; [destruct r; reflexivity|]. split; [|split; [reflexivity | reflexivity]].
    split; [cbn [wp]; rewrite rhs_okb_of; exact Hrok|]. split; [|split].
    + rewrite render_flatten. cbn [ParserComplete.olhs app]. apply Sim_cons; [|exact Hsr]. exists t. split; [exact Ht|]. split; [exact Ety | exact I].
    + unfold ParserComplete.nE. rewrite render_flatten. cbn [ParserComplete.olhs app length]. lia.
    + cbn [rl]. rewrite rlr_of. apply stop_all. exact Hst.
  - (* tLparen *)
    apply bind_ok_inv in H as [[nd i1] [He H]]. cbn beta iota in H.
    apply bind_ok_inv in H as [i2 [Hm H]]. apply match_inv in Hm as [-> Hrp]. inversion H; subst n j.
    destruct (pe_elem 0 _ _ _ eq_refl He) as [x [-> [[Hwx Hnx] [Hs [-> _]]]]].
    exists (EParen x). split; [reflexivity|]. split; [|split; [reflexivity | reflexivity]].
    split; [cbn [wp]; rewrite Hwx, Hnx; reflexivity|]. split; [|split].
    + cbn [Grammar.render]. apply Sim_cons; [exists t; split; [exact Ht|]; split; [exact Ety | exact I]|].
      apply Sim_app; [exact Hs|]. apply Sim_fixed; [exact Hrp | exact I].
    + unfold ParserComplete.nE. cbn [Grammar.render length]. len.
    + intros t' _. cbn [rl]. apply binding_power_le_top.
  - (* tLbracket *)
    apply bind_ok_inv in H as [c [Hc H]]. apply current_inv in Hc. rewrite (tyat_ty_or _ _ Hc).
    destruct (tok_eqb c tNumber || tok_eqb c tColon) eqn:Enc.
    + assert (Hfirst : tyat (S i) tNumber \/ tyat (S i) tColon).
      { destruct (tok_eqb c tNumber) eqn:E1; [apply tok_eqb_eq in E1; subst c; left; exact Hc|].
        cbn [orb] in Enc. apply tok_eqb_eq in Enc. subst c. right. exact Hc. }
      assert (Hhd : match c with tNumber | tColon => HBracket
                             | tStar => match ty_or (S (S i)) with tRbracket => HBracket | _ => HMulti end
                             | _ => HMulti end = HBracket).
      { destruct Hfirst as [Hf|Hf]; rewrite (tyat_fun _ _ _ Hc Hf); reflexivity. }
      rewrite Hhd.
      destruct (bracket_sound None _ _ _ Hfirst H) as [[z [-> [Hz [Hs ->]]]]|[a [b [cc [r [-> [Ha [Hb [Hcc [Hrok [Hs [-> Hst]]]]]]]]]]]].
      * exists (EIndex None z). split; [reflexivity|]. split; [|split; [reflexivity | reflexivity]].
        split; [cbn [wp]; exact Hz|]. split; [|split].
        -- cbn [Grammar.render app]. apply Sim_cons; [exists t; split; [exact Ht|]; split; [exact Ety | exact I] | exact Hs].
        -- unfold ParserComplete.nE. cbn [Grammar.render app length]. lia.
        -- intros t' _. cbn [rl]. apply binding_power_le_top.
      * exists (ESlice None a b cc r). split; [reflexivity|]. split; [|split; [reflexivity | reflexivity]].
        split; [cbn [wp]; rewrite rhs_okb_of, Ha, Hb, Hcc, Hrok; reflexivity|]. split; [|split].
        -- rewrite render_slice. cbn [ParserComplete.olhs app]. apply Sim_cons; [exists t; split; [exact Ht|]; split; [exact Ety | exact I] | exact Hs].
        -- unfold ParserComplete.nE. rewrite render_slice. cbn [ParserComplete.olhs app length]. lia.
        -- cbn [rl]. rewrite rlr_of. apply stop_all. exact Hst.
    + apply bind_ok_inv in H as [sr [Hsr H]]. destruct sr.
      * (* [*] *)
        destruct (tok_eqb c tStar) eqn:Est; [|discriminate]. apply tok_eqb_eq in Est. subst c.
        apply bind_ok_inv in Hsr as [l1 [Hl1 Hsr]]. apply lookahead_inv in Hl1. replace (S i + 1)%nat with (S (S i)) in Hl1 by lia.
        inversion Hsr as [E1]. apply tok_eqb_eq in E1. subst l1. rewrite (tyat_ty_or _ _ Hl1).
        apply bind_ok_inv in H as [[rgt i1] [Hr H]]. cbn beta iota in H. inversion H; subst n j.
        destruct (parseProjectionRHS_sound lvl_star _ _ _ eq_refl Hr) as [r [-> [Hrok [Hsrr [-> Hst]]]]].
        exists (EListProj None r). split; [destruct r; reflexivity|]. split; [|split; [reflexivity | reflexivity]].
        split; [cbn [wp]; rewrite rhs_okb_of; exact Hrok|]. split; [|split].
        -- rewrite render_listproj. cbn [ParserComplete.olhs app].
           apply Sim_cons; [exists t; split; [exact Ht|]; split; [exact Ety | exact I]|].
           apply Sim_cons; [destruct Hc as [a [Ha1 Ha2]]; exists a; split; [exact Ha1|]; split; [exact Ha2 | exact I]|].
           apply Sim_cons; [destruct Hl1 as [a [Ha1 Ha2]]; exists a; split; [exact Ha1|]; split; [exact Ha2 | exact I]|]. exact Hsrr.
        -- unfold ParserComplete.nE. rewrite render_listproj. cbn [ParserComplete.olhs app length]. lia.
        -- cbn [rl]. rewrite rlr_of. apply stop_all. exact Hst.
      * (* a multi-select list *)
        destruct (msl_loop_sound _ _ _ _ _ H) as [es [Hne [-> [Hall [Hs ->]]]]].
        assert (Hstar : star_list es = false).
        { destruct es as [|[| | | | | | | | | | | | | |[|] [| |]| | | | |] [|]]; try reflexivity.
          exfalso. cbn [map sep_by Grammar.render app] in Hs.
          pose proof (Sim_ty _ _ 0 _ Hs eq_refl) as T0. pose proof (Sim_ty _ _ 1 _ Hs eq_refl) as T1. cbn [ttype tk] in T0, T1.
          rewrite Nat.add_0_r in T0. replace (S i + 1)%nat with (S (S i)) in T1 by lia.
          pose proof (tyat_fun _ _ _ Hc T0). subst c. cbn in Hsr.
          apply bind_ok_inv in Hsr as [l1 [Hl1 Hsr]]. apply lookahead_inv in Hl1. replace (S i + 1)%nat with (S (S i)) in Hl1 by lia.
          pose proof (tyat_fun _ _ _ Hl1 T1). subst l1. cbn in Hsr. discriminate. }
        exists (EMSList es). split; [reflexivity|]. split; [|split; [reflexivity|]].
        -- split; [apply wp_mslist; assumption|]. split; [|split].
           ++ cbn [Grammar.render]. apply Sim_cons; [exists t; split; [exact Ht|]; split; [exact Ety | exact I] | exact Hs].
           ++ unfold ParserComplete.nE. cbn [Grammar.render length]. lia.
           ++ intros t' _. cbn [rl]. apply binding_power_le_top.
        -- cbn [head]. rewrite Hstar.
           destruct (tok_eqb c tNumber) eqn:E1; [discriminate|]. destruct (tok_eqb c tColon) eqn:E2; [discriminate|].
           destruct c; try reflexivity; try discriminate.
           (* "*" not followed by "]" *)
           cbn in Hsr. apply bind_ok_inv in Hsr as [l1 [Hl1 Hsr]]. apply lookahead_inv in Hl1. replace (S i + 1)%nat with (S (S i)) in Hl1 by lia.
           rewrite (tyat_ty_or _ _ Hl1). inversion Hsr as [E3]. destruct l1; try reflexivity. discriminate.
  - (* tLbrace *)
    destruct (msh_loop_sound _ _ _ _ _ H) as [kvs [Hne [-> [Hall [Hs ->]]]]].
    exists (EMSHash kvs). split; [reflexivity|]. split; [|split; [reflexivity | reflexivity]].
    split; [apply wp_mshash; assumption|]. split; [|split].
    + rewrite render_mshash. apply Sim_cons; [exists t; split; [exact Ht|]; split; [exact Ety | exact I] | exact Hs].
    + unfold ParserComplete.nE. rewrite render_mshash. cbn [length]. lia.
    + intros t' _. cbn [rl]. apply binding_power_le_top.
  - (* tUnquotedIdentifier *)
    inversion H; subst n j. exists (EIdent false (tvalue t)). split; [reflexivity|]. split; [|split; [reflexivity | reflexivity]].
    split; [reflexivity|]. split; [|split].
    + cbn [Grammar.render]. apply (Sim_tok i t _ _ Ht Ety). reflexivity.
    + unfold ParserComplete.nE. cbn. lia.
    + intros t' _. cbn [rl]. apply binding_power_le_top.
  - (* tQuotedIdentifier *)
    apply bind_ok_inv in H as [c [Hc H]]. apply current_inv in Hc. destruct (tok_eqb c tLparen) eqn:Elp; [discriminate|].
    inversion H; subst n j. exists (EIdent true (tvalue t)). split; [reflexivity|]. split; [|split; [reflexivity | reflexivity]].
    split; [reflexivity|]. split; [|split].
    + cbn [Grammar.render]. apply (Sim_tok i t _ _ Ht Ety). reflexivity.
    + unfold ParserComplete.nE. cbn. lia.
    + intros t' Ht'. cbn [rl]. apply not_lparen_power. intros E. destruct Hc as [a [Ha1 Ha2]]. rewrite Ht' in Ha1. inversion Ha1; subst a.
      rewrite E in Ha2. subst c. discriminate.
  - (* tJSONLiteral *)
    destruct (json_unmarshal (tvalue t)) as [v|] eqn:Ev; [|discriminate]. inversion H; subst n j.
    pose proof (json_unmarshal_json _ _ Ev) as Hj.
    exists (ELit v). split; [reflexivity|]. split; [|split; [reflexivity | reflexivity]].
    split; [exact Hj|]. split; [|split].
    + cbn [Grammar.render]. apply (Sim_tok i t _ _ Ht Ety). cbn [veq tk ttype tvalue].
      destruct (lit_ok v) as [E|[_ E]]; [rewrite Ev, E; split; [reflexivity | discriminate] | exfalso; exact (E _ Ev)].
    + unfold ParserComplete.nE. cbn. lia.
    + intros t' _. cbn [rl]. apply binding_power_le_top.
  - (* tStringLiteral *)
    inversion H; subst n j. exists (ERaw (tvalue t)). split; [reflexivity|]. split; [|split; [reflexivity | reflexivity]].
    split; [reflexivity|]. split; [|split].
    + cbn [Grammar.render]. apply (Sim_tok i t _ _ Ht Ety). reflexivity.
    + unfold ParserComplete.nE. cbn. lia.
    + intros t' _. cbn [rl]. apply binding_power_le_top.
  - (* tCurrent *)
    inversion H; subst n j. exists ECurrent. split; [reflexivity|]. split; [|split; [reflexivity | reflexivity]].
    split; [reflexivity|]. split; [|split].
    + cbn [Grammar.render]. apply (Sim_tok i t _ _ Ht Ety). exact I.
    + unfold ParserComplete.nE. cbn. lia.
    + intros t' _. cbn [rl]. apply binding_power_le_top.
  - (* tNot *)
    apply bind_ok_inv in H as [[nd i1] [He H]]. cbn beta iota in H. inversion H; subst n j.
    destruct (Hpe (binding_power tNot) _ _ _ eq_refl He) as [x [[-> [Hwx [Hs [-> [Hl Hst]]]]] Hh]].
    exists (ENot x). split; [reflexivity|]. split; [|split; [reflexivity | reflexivity]].
    split; [|split; [|split]].
    + cbn [wp]. rewrite Hwx, (nud_head_npos _ _ Hh). cbn [andb]. rewrite andb_true_r. change (binding_power tNot) with lvl_not in Hl. lia.
    + cbn [Grammar.render]. apply Sim_cons; [exists t; split; [exact Ht|]; split; [exact Ety | exact I] | exact Hs].
    + unfold ParserComplete.nE. cbn [Grammar.render length]. lia.
    + cbn [rl]. apply stop_all. change (binding_power tNot) with lvl_not in Hst. exact Hst.
Qed.

(* ---- infix and postfix forms ---- *)
Lemma Left_power l i0 i cur : Left l i0 i -> nth_error ts i = Some cur -> binding_power (ttype cur) <= rl l.
Proof. intros [_ [_ [_ H]]] Hc. apply H. exact Hc. Qed.

Lemma Sim_snoc i0 l i t ty v : Sim i0 l -> i = (i0 + length l)%nat -> nth_error ts i = Some t -> ttype t = ty -> fixedty ty ->
  forall rest, Sim (S i) rest -> Sim i0 (l ++ tk ty v :: rest).
Proof.
  intros Hl Hi Ht Hty Hf rest Hr. apply Sim_app; [exact Hl|]. rewrite <- Hi. apply Sim_cons; [|exact Hr].
  exists t. split; [exact Ht|]. split; [exact Hty | apply veq_fixed; exact Hf].
Qed.

Lemma last_token_field l i0 i prev :
  Left l i0 i -> node_type (compile l) = ASTField -> (1 <= i)%nat -> nth_error ts (i - 1) = Some prev ->
  ttype prev = tUnquotedIdentifier -> exists name, l = EIdent false name /\ i = S i0.
Proof.
  intros [_ [Hs [Hi _]]] Hf Hi1 Hp Hty.
  destruct l as [q name | | lv | s0 | x | es | kvs | fname args | x | [l0|] z | [l0|] a b c r | [l0|] r | [l0|] r
                 | [l0|] c r | [l0|] r | l0 r | l0 r | l0 r | l0 r | op l0 r]; cbn [compile node_type N0] in Hf; try discriminate.
  - unfold ParserComplete.nE in Hi. cbn [Grammar.render] in *. destruct q; cbn [length] in Hi.
    + exfalso. pose proof (Sim_ty _ _ 0 _ Hs eq_refl) as T. cbn [ttype tk] in T. rewrite Nat.add_0_r in T.
      replace (i - 1)%nat with i0 in Hp by lia. destruct T as [a [Ha1 Ha2]]. rewrite Hp in Ha1. inversion Ha1; subst a. congruence.
    + exists name. split; [reflexivity | lia].
  - (* a parenthesised field: the token before "(" is ")" *)
    exfalso. unfold ParserComplete.nE in Hi. cbn [Grammar.render length] in Hi. rewrite app_length in Hi. cbn [length] in Hi.
    assert (Hk : nth_error (tk tLparen (str "(") :: Grammar.render lit_text x ++ [tk tRparen (str ")")]) (S (length (Grammar.render lit_text x))) =
                 Some (tk tRparen (str ")"))).
    { cbn [nth_error]. rewrite nth_error_app2 by lia. rewrite Nat.sub_diag. reflexivity. }
    pose proof (Sim_ty _ _ _ _ Hs Hk) as T. cbn [ttype tk] in T.
    replace (i0 + S (length (Grammar.render lit_text x)))%nat with (i - 1)%nat in T by lia.
    destruct T as [a [Ha1 Ha2]]. rewrite Hp in Ha1. inversion Ha1; subst a. congruence.
Qed.

Lemma led_sound (l : expr) i0 i cur n j :
  Left l i0 i -> nth_error ts i = Some cur ->
  led ts pe ce (ttype cur) (compile l) (S i) = Ok (n, j) ->
  exists e, n = compile e /\ Left e i0 j /\ Z.min (lmin l) (binding_power (ttype cur)) <= lmin e /\ head e = head l.
Proof.
  intros HL Hcur H. pose proof (Left_power _ _ _ _ HL Hcur) as Hpw.
  destruct HL as [Hwl [Hsl [Hi Hfol]]].
  unfold led in H. sites.
  (* binary operators whose right operand is read at the operator's level *)
  assert (Hbin : forall (mkE : expr -> expr -> expr) ty v lvl nd nv,
             ttype cur = ty -> fixedty ty -> binding_power ty = lvl -> lvl < lvl_top ->
             (forall a b, Grammar.render lit_text (mkE a b) = Grammar.render lit_text a ++ tk ty v :: Grammar.render lit_text b) ->
             (forall a b, compile (mkE a b) = Node nd nv [compile a; compile b]) ->
             (forall a b, wp (mkE a b) = wp a && (lvl <=? rl a) && wp b && (lvl <? lmin b) && npos b) ->
             (forall a b, rl (mkE a b) = Z.min lvl (rl b)) ->
             (forall a b, lmin (mkE a b) = Z.min (lmin a) lvl) ->
             (forall a b, head (mkE a b) = head a) ->
             ('(rgt, i1) <- pe lvl (S i) ;; Ok (mk nd nv [compile l; rgt], i1)) = Ok (n, j) ->
             exists e, n = compile e /\ Left e i0 j /\ Z.min (lmin l) (binding_power (ttype cur)) <= lmin e /\ head e = head l).
  { intros mkE ty v lvl nd nv Ety Hfx Hlvl Hlt Hrd Hcp Hwp Hrl Hlm Hhd H0.
    apply bind_ok_inv in H0 as [[rgt i1] [Hr H0]]. cbn beta iota in H0. inversion H0; subst n j.
    destruct (Hpe _ _ _ _ Hlt Hr) as [r [[-> [Hwr [Hsr [-> [Hlr Hst]]]]] Hh]].
    exists (mkE l r). split; [rewrite Hcp; reflexivity|]. split; [|split; [rewrite Hlm, Ety, Hlvl; lia | apply Hhd]].
    split; [|split; [|split]].
    - rewrite Hwp, Hwl, Hwr, (nud_head_npos _ _ Hh). rewrite Ety, Hlvl in Hpw. cbn [andb].
      assert ((lvl <=? rl l) = true) as -> by lia. assert ((lvl <? lmin r) = true) as -> by lia. reflexivity.
    - rewrite Hrd. apply (Sim_snoc i0 _ i cur ty v Hsl Hi Hcur Ety Hfx). exact Hsr.
    - unfold ParserComplete.nE in *. rewrite Hrd. len.
    - rewrite Hrl. apply stop_all. exact Hst. }
  destruct (ttype cur) eqn:Ety; try solve [exfalso; eapply syntaxError_not_ok; eauto].
  - (* tDot *)
    apply bind_ok_inv in H as [c [Hc H]]. apply current_inv in Hc.
    destruct (negb (tok_eqb c tStar)) eqn:Ens.
    + apply bind_ok_inv in H as [[rgt i1] [Hr H]]. cbn beta iota in H. inversion H; subst n j.
      destruct (parseDotRHS_sound lvl_dot _ _ _ eq_refl Hr) as [r [[-> [Hwr [Hsr [-> [Hlr Hst]]]]] Hk]].
      assert (Hhd : match head r with HIdent | HQuoted | HMulti | HMultiStar => true | _ => false end = true).
      { destruct Hk as [[Hs1 _]|Hk]; [|destruct (head r); try contradiction; reflexivity].
        exfalso. pose proof (tyat_fun _ _ _ Hc Hs1). subst c. discriminate. }
      exists (ESub l r). split; [reflexivity|]. split; [|split; [cbn [lmin]; change (binding_power tDot) with lvl_dot; lia | reflexivity]].
      split; [|split; [|split]].
      * cbn [wp]. rewrite Hwl, Hwr, Hhd. change (binding_power tDot) with lvl_dot in *. cbn [andb].
        assert ((lvl_dot <=? rl l) = true) as -> by lia. assert ((lvl_dot <? lmin r) = true) as -> by lia. reflexivity.
      * cbn [Grammar.render app]. apply (Sim_snoc i0 _ i cur tDot _ Hsl Hi Hcur Ety I). exact Hsr.
      * unfold ParserComplete.nE in *. cbn [Grammar.render]. len.
      * cbn [rl]. apply stop_all. exact Hst.
    + apply negb_false_iff in Ens. apply tok_eqb_eq in Ens. subst c.
      apply bind_ok_inv in H as [[rgt i1] [Hr H]]. cbn beta iota in H. inversion H; subst n j.
      destruct (parseProjectionRHS_sound lvl_star _ _ _ eq_refl Hr) as [r [-> [Hrok [Hsr [-> Hst]]]]].
      exists (EValProj (Some l) r). split; [destruct r; reflexivity|].
      split; [|split; [cbn [lmin]; change (binding_power tDot) with lvl_dot; lia | reflexivity]].
      split; [|split; [|split]].
      * cbn [wp]. rewrite rhs_okb_of, Hwl, Hrok. change (binding_power tDot) with lvl_dot in *. cbn [andb].
        assert ((lvl_dot <=? rl l) = true) as -> by lia. reflexivity.
      * rewrite render_valproj_some. apply (Sim_snoc i0 _ i cur tDot _ Hsl Hi Hcur Ety I).
        apply Sim_cons; [|exact Hsr]. destruct Hc as [a [Ha1 Ha2]]. exists a. split; [exact Ha1|]. split; [exact Ha2 | exact I].
      * unfold ParserComplete.nE in *. rewrite render_valproj_some. len.
      * cbn [rl]. rewrite rlr_of. apply stop_all. exact Hst.
  - (* tFilter *)
    destruct (parseFilter_sound (Some l) _ _ _ H) as [c [r [-> [[Hwc Hnc] [Hrok [Hs [-> Hst]]]]]]].
    exists (EFilter (Some l) c r). split; [reflexivity|].
    split; [|split; [cbn [lmin]; change (binding_power tFilter) with lvl_filter; lia | reflexivity]].
    split; [|split; [|split]].
    + cbn [wp]. rewrite rhs_okb_of, Hwl, Hwc, Hnc, Hrok. change (binding_power tFilter) with lvl_filter in *. cbn [andb].
      assert ((lvl_filter <=? rl l) = true) as -> by lia. reflexivity.
    + rewrite render_filter. cbn [ParserComplete.olhs]. apply (Sim_snoc i0 _ i cur tFilter _ Hsl Hi Hcur Ety I). exact Hs.
    + unfold ParserComplete.nE in *. rewrite render_filter. cbn [ParserComplete.olhs]. len.
    + cbn [rl]. rewrite rlr_of. apply stop_all. exact Hst.
  - (* tFlatten *)
    apply bind_ok_inv in H as [[rgt i1] [Hr H]]. cbn beta iota in H. inversion H; subst n j.
    destruct (parseProjectionRHS_sound lvl_flatten _ _ _ eq_refl Hr) as [r [-> [Hrok [Hsr [-> Hst]]]]].
    exists (EFlatten (Some l) r). split; [destruct r; reflexivity|].
    split; [|split; [cbn [lmin]; change (binding_power tFlatten) with lvl_flatten; lia | reflexivity]].
    split; [|split; [|split]].
    + cbn [wp]. rewrite rhs_okb_of, Hwl, Hrok. change (binding_power tFlatten) with lvl_flatten in *. cbn [andb].
      assert ((lvl_flatten <=? rl l) = true) as -> by lia. reflexivity.
    + rewrite render_flatten. cbn [ParserComplete.olhs]. apply (Sim_snoc i0 _ i cur tFlatten _ Hsl Hi Hcur Ety I). exact Hsr.
    + unfold ParserComplete.nE in *. rewrite render_flatten. cbn [ParserComplete.olhs]. len.
    + cbn [rl]. rewrite rlr_of. apply stop_all. exact Hst.
  - (* tLparen *)
    apply bind_ok_inv in H as [prev [Hprev H]].
    destruct (ast_eqb (node_type (compile l)) ASTField && tok_eqb (ttype prev) tUnquotedIdentifier) eqn:Ef; cbn [negb] in H;
      [|apply bind_ok_inv in H as [? [_ H]]; discriminate].
    apply andb_true_iff in Ef as [Ef1 Ef2]. apply tok_eqb_eq in Ef2.
    assert (Hfield : node_type (compile l) = ASTField) by (destruct (node_type (compile l)); try discriminate; reflexivity).
    destruct (Nat.ltb (S i) 2) eqn:Elt; [discriminate|]. apply Nat.ltb_ge in Elt.
    unfold nth_or_panic in Hprev. replace (S i - 2)%nat with (i - 1)%nat in Hprev by lia.
    destruct (nth_error ts (i - 1)) as [pv|] eqn:Epv; [|discriminate]. inversion Hprev; subst pv.
    destruct (last_token_field l i0 i prev (conj Hwl (conj Hsl (conj Hi Hfol))) Hfield ltac:(lia) Epv Ef2) as [name [-> Hi1]].
    unfold ParserComplete.nE in *. cbn [Grammar.render length] in *. replace (i0 + 1)%nat with (S i0) in * by lia.
    clear Hi. subst i.
    apply bind_ok_inv in H as [c [Hc H]]. apply current_inv in Hc.
    apply bind_ok_inv in H as [[args i1] [Ha H]]. cbn beta iota in H.
    apply bind_ok_inv in H as [i2 [Hm H]]. apply match_inv in Hm as [-> Hrp]. inversion H; subst n j.
    cbn [compile node_val].
    assert (Hname : Sim i0 [tk tUnquotedIdentifier name]) by (cbn [Grammar.render] in Hsl; exact Hsl).
    assert (Hargs : exists al, args = map arg_node al /\ Forall arg_ok al /\
                               Sim (S (S i0)) (match al with [] => [] | _ => sep_by comma (map arg_tokens al) end) /\
                               i1 = (S (S i0) + length (match al with [] => [] | _ => sep_by comma (map arg_tokens al) end))%nat).
    { destruct (negb (tok_eqb c tRparen)) eqn:Enr.
      - destruct (args_loop_sound _ _ _ _ _ Ha) as [al [Hne [-> [Hall [Hs [-> _]]]]]]. exists al. cbn [rev app].
        destruct al; [congruence|]. repeat split; assumption.
      - inversion Ha; subst args i1. exists []. repeat split; [constructor | apply Sim_nil | cbn; lia]. }
    destruct Hargs as [al [-> [Hall [Hsa ->]]]].
    exists (ECall name al). split; [rewrite compile_call; reflexivity|].
    split; [|split; [cbn [lmin]; change (binding_power tLparen) with lvl_call; lia | reflexivity]].
    split; [|split; [|split]].
    + cbn [wp]. apply forallb_forall. intros a Hin. rewrite Forall_forall in Hall. destruct (Hall a Hin) as [H1 H2].
      destruct a; cbn [ParserComplete.arg_expr] in *; rewrite H1, H2; reflexivity.
    + rewrite render_call. apply Sim_cons; [specialize (Hname 0%nat _ eq_refl); rewrite Nat.add_0_r in Hname; exact Hname|].
      apply Sim_cons; [exists cur; split; [exact Hcur|]; split; [exact Ety | exact I]|].
      destruct al as [|a0 al'].
      * cbn [map sep_by app]. apply Sim_fixed; [|exact I]. cbn [length] in Hrp. rewrite Nat.add_0_r in Hrp. exact Hrp.
      * apply Sim_app; [exact Hsa|]. apply Sim_fixed; [exact Hrp | exact I].
    + unfold ParserComplete.nE. rewrite render_call. cbn [Grammar.render length]. destruct al; cbn [map sep_by app length]; [lia|]. len.
    + intros t' _. cbn [rl]. apply binding_power_le_top.
  - (* tLbracket *)
    apply bind_ok_inv in H as [c [Hc H]]. apply current_inv in Hc.
    destruct (tok_eqb c tNumber || tok_eqb c tColon) eqn:Enc.
    + assert (Hfirst : tyat (S i) tNumber \/ tyat (S i) tColon).
      { destruct (tok_eqb c tNumber) eqn:E1; [apply tok_eqb_eq in E1; subst c; left; exact Hc|].
        cbn [orb] in Enc. apply tok_eqb_eq in Enc. subst c. right. exact Hc. }
      change (binding_power tLbracket) with lvl_bracket in *.
      destruct (bracket_sound (Some l) _ _ _ Hfirst H) as [[z [-> [Hz [Hs ->]]]]|[a [b [cc [r [-> [Ha [Hb [Hcc [Hrok [Hs [-> Hst]]]]]]]]]]]].
      * exists (EIndex (Some l) z). split; [reflexivity|]. split; [|split; [cbn [lmin]; lia | reflexivity]].
        split; [|split; [|split]].
        -- cbn [wp]. rewrite Hwl, Hz. cbn [andb]. assert ((lvl_bracket <=? rl l) = true) as -> by lia. reflexivity.
        -- rewrite render_index. cbn [ParserComplete.olhs]. apply (Sim_snoc i0 _ i cur tLbracket _ Hsl Hi Hcur Ety I). exact Hs.
        -- unfold ParserComplete.nE in *. rewrite render_index. cbn [ParserComplete.olhs]. len.
        -- intros t' _. cbn [rl]. apply binding_power_le_top.
      * exists (ESlice (Some l) a b cc r). split; [reflexivity|]. split; [|split; [cbn [lmin]; lia | reflexivity]].
        split; [|split; [|split]].
        -- cbn [wp]. rewrite rhs_okb_of, Hwl, Ha, Hb, Hcc, Hrok. cbn [andb]. assert ((lvl_bracket <=? rl l) = true) as -> by lia. reflexivity.
        -- rewrite render_slice. cbn [ParserComplete.olhs]. apply (Sim_snoc i0 _ i cur tLbracket _ Hsl Hi Hcur Ety I). exact Hs.
        -- unfold ParserComplete.nE in *. rewrite render_slice. cbn [ParserComplete.olhs]. len.
        -- cbn [rl]. rewrite rlr_of. apply stop_all. exact Hst.
    + apply bind_ok_inv in H as [i1 [Hm1 H]]. apply match_inv in Hm1 as [-> Hstar].
      apply bind_ok_inv in H as [i2 [Hm2 H]]. apply match_inv in Hm2 as [-> Hrb].
      apply bind_ok_inv in H as [[rgt i3] [Hr H]]. cbn beta iota in H. inversion H; subst n j.
      destruct (parseProjectionRHS_sound lvl_star _ _ _ eq_refl Hr) as [r [-> [Hrok [Hsr [-> Hst]]]]].
      change (binding_power tLbracket) with lvl_bracket in *.
      exists (EListProj (Some l) r). split; [destruct r; reflexivity|]. split; [|split; [cbn [lmin]; lia | reflexivity]].
      split; [|split; [|split]].
      * cbn [wp]. rewrite rhs_okb_of, Hwl, Hrok. cbn [andb]. assert ((lvl_bracket <=? rl l) = true) as -> by lia. reflexivity.
      * rewrite render_listproj. cbn [ParserComplete.olhs]. apply (Sim_snoc i0 _ i cur tLbracket _ Hsl Hi Hcur Ety I).
        apply Sim_cons; [destruct Hstar as [a [Ha1 Ha2]]; exists a; split; [exact Ha1|]; split; [exact Ha2 | exact I]|].
        apply Sim_cons; [destruct Hrb as [a [Ha1 Ha2]]; exists a; split; [exact Ha1|]; split; [exact Ha2 | exact I]|]. exact Hsr.
      * unfold ParserComplete.nE in *. rewrite render_listproj. cbn [ParserComplete.olhs]. len.
      * cbn [rl]. rewrite rlr_of. apply stop_all. exact Hst.
  - (* tOr *) apply (Hbin EOr tOr (str "||") lvl_or ASTOrExpression NVNone); try reflexivity. exact H.
  - (* tPipe *) apply (Hbin EPipe tPipe (str "|") lvl_pipe ASTPipe NVNone); try reflexivity. exact H.
  - apply (Hbin (ECmp CmpLT) tLT (str "<") lvl_cmp ASTComparator (NVTok tLT)); try reflexivity. exact H.
  - apply (Hbin (ECmp CmpLE) tLTE (str "<=") lvl_cmp ASTComparator (NVTok tLTE)); try reflexivity. exact H.
  - apply (Hbin (ECmp CmpGT) tGT (str ">") lvl_cmp ASTComparator (NVTok tGT)); try reflexivity. exact H.
  - apply (Hbin (ECmp CmpGE) tGTE (str ">=") lvl_cmp ASTComparator (NVTok tGTE)); try reflexivity. exact H.
  - apply (Hbin (ECmp CmpEQ) tEQ (str "==") lvl_cmp ASTComparator (NVTok tEQ)); try reflexivity. exact H.
  - apply (Hbin (ECmp CmpNE) tNE (str "!=") lvl_cmp ASTComparator (NVTok tNE)); try reflexivity. exact H.
  - (* tAnd *) apply (Hbin EAnd tAnd (str "&&") lvl_and ASTAndExpression NVNone); try reflexivity. exact H.
Qed.

End Body.

(* ---- the Pratt loop ---- *)
Lemma pe_ce_sound : forall f,
  (forall bp i n j, bp < lvl_top -> parseExpression ts f bp i = Ok (n, j) -> exists e, Res bp i n j e /\ head e = nud_head i) /\
  (forall l bp i0 i n j, Left l i0 i -> bp < lmin l -> continueExpression ts f (compile l) bp i = Ok (n, j) ->
     exists e, Res bp i0 n j e /\ head e = head l).
Proof.
  induction f as [|f [IHpe IHce]]; [split; intros; discriminate|]. split.
  - intros bp i n j Hlt H. cbn [parseExpression] in H. apply bind_ok_inv in H as [t [Ht H]]. apply lookaheadToken_inv in Ht.
    rewrite Nat.add_0_r in Ht. apply bind_ok_inv in H as [[lft i1] [Hn H]]. cbn beta iota in H.
    destruct (nud_sound _ _ IHpe IHce t i lft i1 Ht Hn) as [l [-> [HL [Hlm Hh]]]].
    change (bp_of site_parseExpression_continueExpression tUnknown bp) with bp in H.
    destruct (IHce l bp i i1 n j HL ltac:(rewrite Hlm; exact Hlt) H) as [e [Hres Hhe]].
    exists e. split; [exact Hres | congruence].
  - intros l bp i0 i n j HL Hbp H. cbn [continueExpression] in H. apply bind_ok_inv in H as [c [Hc H]].
    unfold current, lookahead, omap in Hc. apply bind_ok_inv in Hc as [cur [Hcur Hc]]. apply lookaheadToken_inv in Hcur.
    rewrite Nat.add_0_r in Hcur. inversion Hc; subst c.
    destruct (bp <? binding_power (ttype cur)) eqn:Elt.
    + apply bind_ok_inv in H as [[l' i'] [Hled H]]. cbn beta iota in H.
      destruct (led_sound _ _ IHpe IHce l i0 i cur l' i' HL Hcur Hled) as [e' [-> [HL' [Hlm Hh]]]].
      destruct (IHce e' bp i0 i' n j HL' ltac:(lia) H) as [e [Hres Hhe]].
      exists e. split; [exact Hres | congruence].
    + inversion H; subst n j. exists l. split; [|reflexivity].
      destruct HL as [Hw [Hs [Hi Hfol]]]. repeat split; try assumption.
      exists cur. split; [exact Hcur|]. specialize (Hfol cur Hcur). lia.
Qed.

(* ---- the theorem ---- *)
Theorem parse_tokens_sound n : parse_tokens ts = Ok n ->
  exists e, n = compile e /\ wp e = true /\ npos e = true /\ Sim 0 (render e ++ [tk tEOF []]).
Proof.
  unfold parse_tokens. intros H. apply bind_ok_inv in H as [[nd i] [Hp H]]. cbn beta iota in H.
  apply bind_ok_inv in H as [c [Hc H]]. apply current_inv in Hc.
  destruct (negb (tok_eqb c tEOF)) eqn:Ee; [exfalso; eapply syntaxError_not_ok; eauto|].
  apply negb_false_iff in Ee. apply tok_eqb_eq in Ee. subst c. inversion H; subst nd.
  destruct (proj1 (pe_ce_sound (parse_fuel ts)) 0 0%nat n i eq_refl Hp) as [e [[-> [Hw [Hs [-> _]]]] Hh]].
  exists e. split; [reflexivity|]. split; [exact Hw|]. split; [eapply nud_head_npos; eauto|].
  apply Sim_app; [exact Hs|]. apply Sim_fixed; [exact Hc | exact I].
Qed.


(* Sim is the Spell of ParserComplete.v *)
Lemma Sim_Spell i l : Sim i l <-> Spell ts i l.
Proof.
  unfold Sim, Spell, tokat, tsim. split; intros H k t Hk; destruct (H k t Hk) as [a [H1 [H2 H3]]]; exists a; auto.
Qed.

(* the accepted token lists are exactly the spellings of the well-precedenced
   trees (in nud position), and the AST returned is the tree's *)
Theorem parse_tokens_exact : wf_tokens ts ->
  forall n, parse_tokens ts = Ok n <->
            exists e, n = compile e /\ wp e = true /\ npos e = true /\ Sim 0 (render e ++ [tk tEOF []]).
Proof.
  intros Hwf n. split.
  - apply parse_tokens_sound.
  - intros [e [-> [Hw [Hnp Hs]]]]. apply (parse_tokens_complete lit_text lit_ok e ts Hw Hnp Hwf). apply Sim_Spell. exact Hs.
Qed.

Corollary accepted_iff_sentence : wf_tokens ts ->
  ((exists n, parse_tokens ts = Ok n) <-> (exists e, wp e = true /\ npos e = true /\ Sim 0 (render e ++ [tk tEOF []]))).
Proof.
  intros Hwf. split.
  - intros [n H]. apply parse_tokens_sound in H as [e [_ H]]. exists e. exact H.
  - intros [e [Hw [Hnp Hs]]]. exists (compile e). apply (parse_tokens_exact Hwf). exists e. auto.
Qed.

(* the same statements with the Spell of ParserComplete.v *)
Theorem parse_tokens_sound_spell n : parse_tokens ts = Ok n ->
  exists x, n = compile x /\ wp x = true /\ npos x = true /\ Spell ts 0 (render x ++ [tk tEOF []]).
Proof.
  intros H. destruct (parse_tokens_sound n H) as [x [H1 [H2 [H3 H4]]]].
  exists x. repeat split; assumption.
Qed.

Theorem parse_tokens_exact_spell : wf_tokens ts ->
  forall n, parse_tokens ts = Ok n <->
            exists x, n = compile x /\ wp x = true /\ npos x = true /\ Spell ts 0 (render x ++ [tk tEOF []]).
Proof.
  intros Hwf n. rewrite (parse_tokens_exact Hwf n).
  split; intros [x [H1 [H2 [H3 H4]]]]; exists x; repeat split; assumption.
Qed.

(* with the end-of-input token only at the end, the spelling covers the whole list *)
Lemma Sim_whole l : wf_tokens ts -> Sim 0 (l ++ [tk tEOF []]) -> Forall2 tsim ts (l ++ [tk tEOF []]).
Proof.
  intros [Hn Heof] Hs. apply Forall2_of_nth.
  - assert (Hk : nth_error (l ++ [tk tEOF []]) (length l) = Some (tk tEOF [])) by (rewrite nth_error_app2, Nat.sub_diag by lia; reflexivity).
    destruct (Hs _ _ Hk) as [a [Ha [Hty _]]]. cbn [ttype tk] in Hty. rewrite Nat.add_0_l in Ha.
    pose proof (proj1 (Heof _ _ Ha) Hty) as Hi. rewrite app_length. cbn [length]. lia.
  - intros k y Hy. destruct (Hs k y Hy) as [a [Ha Hsim]]. exists a. split; [exact Ha | exact Hsim].
Qed.

End Tokens.

(* ---- from bytes: Compile accepts a byte string exactly when the lexer turns it
   into a token list that spells a well-precedenced tree; the AST is that tree's ---- *)
Lemma tokenize_wf (s : bytes) ts : tokenize s = Ok ts -> wf_tokens ts.
Proof.
  intros H. pose proof (tokenize_total s) as T. rewrite H in T. destruct T as [acc [-> Hacc]].
  apply lexed_tokens_wf. exact Hacc.
Qed.

Theorem compile_exact (s : bytes) n :
  parse s = Ok n <->
  exists ts e, tokenize s = Ok ts /\ n = compile e /\ wp e = true /\ npos e = true /\
               Spell ts 0 (render e ++ [tk tEOF []]).
Proof.
  unfold parse. split.
  - intros H. apply bind_ok_inv in H as [ts [Ht H]]. exists ts.
    destruct (parse_tokens_sound_spell ts n H) as [e He]. exists e. split; [exact Ht | exact He].
  - intros [ts [e [Ht He]]]. rewrite Ht. cbn [bind]. apply (parse_tokens_exact_spell ts (tokenize_wf s ts Ht)). exists e. exact He.
Qed.

End Text.
End WithNum.

(* InterpRefine.v — the tree-walking interpreter, run on the AST that the
   specification assigns to an expression, computes exactly what the
   specification's eval says, for every expression, every value without
   expression references and every sufficient amount of fuel; and the result
   again contains no expression reference.  Function calls are delegated to
   call_refines (Proofs/FunFacts.v). *)
From JM Require Import Model.Base Model.Num Model.Utf8 Model.Value Model.JsonText
     Model.Slice Model.Functions Model.Interp Model.Lexer Model.Parser Model.Api.
From JM Require Import Spec.Grammar Spec.PySlice Spec.Semantics.
From JM Require Import Proofs.ValueFacts Proofs.SliceFacts Proofs.FunFacts.
From Coq Require Import ZifyBool Permutation.

Section WithNum.
Context {NumO : NumOps}.
Variable ord : obj -> obj.

(* ---- measures and side conditions on expressions ---- *)
Fixpoint esize (e : expr) : nat :=
  let osize (l : option expr) := match l with Some x => esize x | None => 1%nat end in
  let rsize (r : rhs) := match r with RNone => 1%nat | RDot x => esize x | RBrk x => esize x end in
  match e with
  | EParen x => S (esize x)
  | EMSList es => S (S (fold_right (fun x a => esize x + a)%nat 0%nat es))
  | EMSHash kvs => S (S (S (fold_right (fun kv a => esize (snd kv) + a)%nat 0%nat kvs)))
  | ECall _ args =>
    S (S (fold_right (fun a acc => (match a with AExpr x => esize x | ARef x => esize x end) + acc)%nat 0%nat args))
  | ENot x => S (esize x)
  | EIndex l _ => S (S (osize l))
  | ESlice l _ _ _ r => S (S (S (osize l + rsize r)))
  | EListProj l r => S (S (osize l + rsize r))
  | EFlatten l r => S (S (S (osize l + rsize r)))
  | EFilter l c r => S (S (osize l + esize c + rsize r))
  | EValProj l r => S (S (osize l + rsize r))
  | ESub l r | EPipe l r | EOr l r | EAnd l r | ECmp _ l r => S (esize l + esize r)
  | _ => 1%nat
  end.

(* what the semantics needs of an expression: literals without expression
   references, integers in the int64 range *)
Fixpoint sem_ok (e : expr) : bool :=
  let ook (l : option expr) := match l with Some x => sem_ok x | None => true end in
  let rok (r : rhs) := match r with RNone => true | RDot x => sem_ok x | RBrk x => sem_ok x end in
  match e with
  | ELit v => is_json v
  | EParen x => sem_ok x
  | EMSList es => forallb sem_ok es
  | EMSHash kvs => forallb (fun kv : bool * bytes * expr => sem_ok (snd kv)) kvs
  | ECall _ args => forallb (fun a => match a with AExpr x => sem_ok x | ARef x => sem_ok x end) args
  | ENot x => sem_ok x
  | EIndex l i => ook l && in_int64 i
  | ESlice l a b c r => ook l && opt_int64 a && opt_int64 b && opt_int64 (cjoin c) && rok r
  | EListProj l r => ook l && rok r
  | EFlatten l r => ook l && rok r
  | EFilter l c r => ook l && sem_ok c && rok r
  | EValProj l r => ook l && rok r
  | ESub l r | EPipe l r | EOr l r | EAnd l r | ECmp _ l r => sem_ok l && sem_ok r
  | _ => true
  end.

(* ---- small facts ---- *)
Lemma isFalse_falsy v : isFalse v = falsy v.
Proof. destruct v as [ | [|] | | [|] | [|] | [|] | ]; reflexivity. Qed.

Lemma not_is_null x : negb (is_null x) = not_null x.
Proof. destruct x; reflexivity. Qed.

Lemma filter_nulls l : filter (fun x => negb (is_null x)) l = drop_nulls l.
Proof. unfold drop_nulls. apply filter_ext. intros x. apply not_is_null. Qed.

Lemma match_not_null {T} v (A B : T) :
  is_null v = false -> match v with VNull => A | _ => B end = B.
Proof. destruct v; intros H; try reflexivity; discriminate. Qed.

Lemma execute_identity f v : Execute ord (S f) ident_node v = Ok v.
Proof. reflexivity. Qed.

Lemma plain_drop_nulls l : plain (VArr l) = true -> plain (VArr (drop_nulls l)) = true.
Proof. apply plain_filter. Qed.

Lemma plain_flatten1 l : plain (VArr l) = true -> plain (VArr (flatten1 l)) = true.
Proof.
  intros H. apply plain_arr. apply plain_arr in H. unfold flatten1.
  rewrite Forall_forall in *. intros x Hx. apply in_flat_map in Hx as [y [Hy Hx]].
  specialize (H y Hy). destruct y; cbn in Hx; try (destruct Hx as [<-|[]]; exact H).
  apply plain_arr in H. rewrite Forall_forall in H. auto.
Qed.

Lemma plain_map_snd m : plain (VObj m) = true -> plain (VArr (map snd m)) = true.
Proof.
  intros H. apply plain_arr. apply plain_obj in H. rewrite Forall_forall in *.
  intros x Hx. apply in_map_iff in Hx as [[k y] [<- Hy]]. apply (H _ Hy).
Qed.

(* the only thing the theorems need of the iteration order *)
Hypothesis ord_perm : forall m, Permutation (ord m) m.

Lemma plain_ord m : plain (VObj m) = true -> plain (VObj (ord m)) = true.
Proof.
  intros H. apply plain_obj. apply plain_obj in H. rewrite Forall_forall in *.
  intros kv Hkv. apply H. eapply Permutation_in; [apply ord_perm | exact Hkv].
Qed.

(* what "the interpreter at fuel f on node n agrees with g" means *)
Definition agrees (f : nat) (n : node) (g : value -> outcome value) : Prop :=
  agrees_gen (Execute ord f) n g.

(* argument lists of a call: model values against specification arguments *)
Definition arg_rel (f : nat) (mv : value) (sa : sarg) : Prop := arg_rel_gen (Execute ord f) mv sa.

Lemma call_refines f name margs sargs :
  Forall2 (arg_rel f) margs sargs ->
  CallFunction ord (Execute ord f) name margs = spec_call ord name sargs /\
  (forall r, spec_call ord name sargs = Ok r -> plain r = true).
Proof. apply (FunFacts.call_refines ord ord_perm (Execute ord f)). Qed.

(* mapping the projected right-hand side over the elements *)
Lemma project_agrees f rn g c0 xs :
  agrees f rn g -> plain (VArr xs) = true ->
  (rs <- mapM (fun element => c1 <- child [c0; rn] 1 ;; Execute ord f c1 element) xs ;;
   Ok (VArr (filter (fun x => negb (is_null x)) rs)))
  = (ys <- mapM g xs ;; Ok (VArr (drop_nulls ys)))
  /\ (forall r, (ys <- mapM g xs ;; Ok (VArr (drop_nulls ys))) = Ok r -> plain r = true).
Proof.
  intros Hag Hxs.
  assert (E : mapM (fun element => c1 <- child [c0; rn] 1 ;; Execute ord f c1 element) xs = mapM g xs).
  { apply mapM_ext_in. intros x Hx. cbn. apply Hag. eapply plain_arr_in; eauto. }
  rewrite E. split.
  - destruct (mapM g xs); cbn; try reflexivity. rewrite filter_nulls. reflexivity.
  - intros r Hr. destruct (mapM g xs) as [ys| | |] eqn:Em; cbn in Hr; try discriminate.
    inversion Hr; subst. apply plain_drop_nulls. apply plain_arr.
    eapply mapM_ok_forall; [|exact Em]. intros x y Hx Hy.
    eapply Hag; [eapply plain_arr_in; eauto | exact Hy].
Qed.

Definition lhs_node (l : option expr) : node := match l with Some x => compile x | None => ident_node end.
Definition lhs_eval (l : option expr) (v : value) : outcome value :=
  match l with Some x => eval ord x v | None => Ok v end.
Definition rhs_node (r : rhs) : node :=
  match r with RNone => ident_node | RDot x => compile x | RBrk x => compile x end.
Definition rhs_eval (r : rhs) (x : value) : outcome value :=
  match r with RNone => Ok x | RDot y => eval ord y x | RBrk y => eval ord y x end.

Definition osize (l : option expr) : nat := match l with Some x => esize x | None => 1%nat end.
Definition rsize (r : rhs) : nat := match r with RNone => 1%nat | RDot x => esize x | RBrk x => esize x end.
Definition ook (l : option expr) : bool := match l with Some x => sem_ok x | None => true end.
Definition rok (r : rhs) : bool := match r with RNone => true | RDot x => sem_ok x | RBrk x => sem_ok x end.

(* equations for eval on the list-shaped forms, in terms of mapM *)
Lemma eval_mslist es v :
  eval ord (EMSList es) v =
  match v with
  | VNull => Ok VNull
  | _ => ys <- mapM (fun x => eval ord x v) es ;; Ok (VArr ys)
  end.
Proof.
  cbn [eval].
  assert (E : (fix go (es0 : list expr) : outcome (list value) :=
                 match es0 with
                 | [] => Ok []
                 | x :: r => y <- eval ord x v ;; ys <- go r ;; Ok (y :: ys)
                 end) es = mapM (fun x => eval ord x v) es).
  { induction es as [|x es IHes]; cbn; [reflexivity|]. rewrite IHes. reflexivity. }
  rewrite E. reflexivity.
Qed.

Lemma eval_mshash kvs v :
  eval ord (EMSHash kvs) v =
  match v with
  | VNull => Ok VNull
  | _ => ys <- mapM (fun kv : bool * bytes * expr => y <- eval ord (snd kv) v ;; Ok (snd (fst kv), y)) kvs ;;
         Ok (VObj (fold_left (fun m kv => obj_set (fst kv) (snd kv) m) ys []))
  end.
Proof.
  cbn [eval].
  assert (E : (fix go (kvs0 : list (bool * bytes * expr)) : outcome (list (bytes * value)) :=
                 match kvs0 with
                 | [] => Ok []
                 | (_, k, x) :: r => y <- eval ord x v ;; ys <- go r ;; Ok ((k, y) :: ys)
                 end) kvs
              = mapM (fun kv : bool * bytes * expr => y <- eval ord (snd kv) v ;; Ok (snd (fst kv), y)) kvs).
  { induction kvs as [|[[q k] x] kvs IHk]; cbn; [reflexivity|]. rewrite IHk.
    destruct (eval ord x v); reflexivity. }
  rewrite E. reflexivity.
Qed.

Definition eval_arg (v : value) (a : arg) : outcome sarg :=
  match a with
  | AExpr x => y <- eval ord x v ;; Ok (SVal y)
  | ARef x => Ok (SRef (eval ord x))
  end.

Lemma eval_call name args v :
  eval ord (ECall name args) v = (xs <- mapM (eval_arg v) args ;; spec_call ord name xs).
Proof.
  cbn [eval].
  assert (E : (fix go (args0 : list arg) : outcome (list sarg) :=
                 match args0 with
                 | [] => Ok []
                 | AExpr x :: r => y <- eval ord x v ;; ys <- go r ;; Ok (SVal y :: ys)
                 | ARef x :: r => ys <- go r ;; Ok (SRef (eval ord x) :: ys)
                 end) args = mapM (eval_arg v) args).
  { induction args as [|[x|x] args IHa]; cbn; [reflexivity| |].
    - rewrite IHa. destruct (eval ord x v); reflexivity.
    - rewrite IHa. reflexivity. }
  rewrite E. reflexivity.
Qed.

(* element-wise agreement lifts to mapM *)
Lemma mapM_agrees {A} f (l : list A) (cn : A -> node) (g : A -> value -> outcome value) v :
  (forall x, In x l -> agrees f (cn x) (g x)) -> plain v = true ->
  mapM (fun x => Execute ord f (cn x) v) l = mapM (fun x => g x v) l /\ (forall ys, mapM (fun x => g x v) l = Ok ys -> Forall (fun y => plain y = true) ys).
Proof.
  intros Hall Hv. split.
  - apply mapM_ext_in. intros x Hx. apply (Hall x Hx v Hv).
  - intros ys Hy. eapply mapM_ok_forall; [|exact Hy]. intros x y Hx Hxy.
    eapply (Hall x Hx v Hv). exact Hxy.
Qed.

Lemma plain_fold_obj_set (ys : list (bytes * value)) (acc : obj) :
  Forall (fun kv => plain (snd kv) = true) ys -> plain (VObj acc) = true ->
  plain (VObj (fold_left (fun m kv => obj_set (fst kv) (snd kv) m) ys acc)) = true.
Proof.
  intros H. revert acc. induction H as [|[k y] ys Hy Hys IHys]; intros acc Hacc; cbn; [exact Hacc|].
  apply IHys. apply plain_obj_set; assumption.
Qed.

Lemma plain_pick_idx xs idx : plain (VArr xs) = true -> plain (VArr (pick_idx xs idx)) = true.
Proof.
  intros H. apply plain_arr. apply plain_arr in H. rewrite Forall_forall in *.
  intros x Hx. unfold pick_idx in Hx. apply in_flat_map in Hx as [i [_ Hx]].
  destruct (nth_error xs (Z.to_nat i)) eqn:E; [|destruct Hx].
  destruct Hx as [<-|[]]. apply H. eapply nth_error_In; eauto.
Qed.

Lemma plain_nth xs k : plain (VArr xs) = true -> plain (nth k xs VNull) = true.
Proof.
  intros H. destruct (nth_in_or_default k xs VNull) as [Hin| ->]; [|reflexivity].
  eapply plain_arr_in; eauto.
Qed.

Lemma index_agree xs i :
  in_int64 i = true -> zlen xs < two63 ->
  (let index := if i <? 0 then wrap64 (i + zlen xs) else i in
   if (index <? zlen xs) && (0 <=? index) then nth (Z.to_nat index) xs VNull else VNull)
  = index_list xs i.
Proof.
  intros Hi Hl. unfold index_list, in_int64 in *. assert (0 <= zlen xs) by apply zlen_nonneg.
  destruct (i <? 0) eqn:E.
  - rewrite wrap64_id by (unfold two63 in *; lia).
    cbv zeta. destruct (i + zlen xs <? zlen xs) eqn:E1; destruct (0 <=? i + zlen xs) eqn:E2; cbn; try reflexivity; lia.
  - cbv zeta. destruct (i <? zlen xs) eqn:E1; destruct (0 <=? i) eqn:E2; cbn; try reflexivity; lia.
Qed.

Lemma plain_index_list xs i : plain (VArr xs) = true -> plain (index_list xs i) = true.
Proof.
  intros H. unfold index_list. destruct (_ && _); [apply plain_nth; exact H | reflexivity].
Qed.

Lemma opt_int64_spec o : opt_int64 o = true -> forall z, o = Some z -> - two63 <= z < two63.
Proof. intros H z ->. cbn in H. unfold in_int64 in H. lia. Qed.

Definition carg (a : arg) : node :=
  match a with AExpr x => compile x | ARef x => N0 ASTExpRef [compile x] end.

(* evaluating the argument list: same outcome on both sides, related values *)
Lemma args_agree f args v :
  (forall a, In a args -> agrees f (compile (match a with AExpr x => x | ARef x => x end))
                                 (eval ord (match a with AExpr x => x | ARef x => x end))) ->
  ((1 <= f)%nat \/ args = []) -> plain v = true ->
  match mapM (fun a => Execute ord f (carg a) v) args, mapM (eval_arg v) args with
  | Ok m, Ok s => Forall2 (arg_rel f) m s
  | Err e, Err e' => e = e'
  | Panic, Panic => True
  | OutOfFuel, OutOfFuel => True
  | _, _ => False
  end.
Proof.
  intros Hall Hf Hv. destruct Hf as [Hf|Hf]; [|subst; constructor].
  induction args as [|a args IHa]; cbn [mapM]; [constructor|].
  assert (IHa' := IHa (fun b Hb => Hall b (or_intror Hb))). clear IHa.
  assert (Ha := Hall a (or_introl eq_refl)).
  destruct a as [x|x]; cbn [carg eval_arg].
  - destruct (Ha v Hv) as [E P]. rewrite E. destruct (eval ord x v) as [y| | |] eqn:Ey; cbn [bind]; auto.
    destruct (mapM (fun a => Execute ord f (carg a) v) args), (mapM (eval_arg v) args); cbn [bind]; auto.
    constructor; [|assumption]. cbn. split; [reflexivity | apply P; reflexivity].
  - assert (Ex : Execute ord f (N0 ASTExpRef [compile x]) v = Ok (VExp (compile x))).
    { destruct f as [|f']; [lia | reflexivity]. }
    rewrite Ex. cbn [bind].
    destruct (mapM (fun a => Execute ord f (carg a) v) args), (mapM (eval_arg v) args); cbn [bind]; auto.
    constructor; [|assumption]. cbn. eexists. split; [reflexivity | exact Ha].
Qed.

(* one-step equations for Execute on the node shapes that compile produces *)
Lemma ex_indexexpr f a b v :
  Execute ord (S f) (N0 ASTIndexExpression [a; b]) v = (lft <- Execute ord f a v ;; Execute ord f b lft).
Proof. reflexivity. Qed.
Lemma ex_subexpr f a b v :
  Execute ord (S f) (N0 ASTSubexpression [a; b]) v = (lft <- Execute ord f a v ;; Execute ord f b lft).
Proof. reflexivity. Qed.
Lemma ex_pipe f a b v :
  Execute ord (S f) (N0 ASTPipe [a; b]) v = (x <- Execute ord f a v ;; Execute ord f b x).
Proof. reflexivity. Qed.
Lemma ex_index f i v :
  Execute ord (S f) (Node ASTIndex (NVInt i) []) v =
  match v with
  | VArr l =>
    if two63 <=? zlen l then OutOfFuel
    else Ok (let index := if i <? 0 then wrap64 (i + zlen l) else i in
             if (index <? zlen l) && (0 <=? index) then nth (Z.to_nat index) l VNull else VNull)
  | _ => Ok VNull
  end.
Proof. destruct v; try reflexivity. cbn. destruct (two63 <=? zlen l); [reflexivity|].
       destruct (_ && _); reflexivity. Qed.
Lemma ex_slice f a b c v :
  Execute ord (S f) (Node ASTSlice (NVSlice a b c) []) v =
  match v with
  | VArr l => if two63 <=? zlen l then OutOfFuel
              else r <- slice_go l (mk_param a) (mk_param b) (mk_param c) ;; Ok (VArr r)
  | _ => Ok VNull
  end.
Proof. reflexivity. Qed.
Lemma ex_projection f a b v :
  Execute ord (S f) (N0 ASTProjection [a; b]) v =
  (lft <- Execute ord f a v ;;
   match lft with
   | VArr l => rs <- mapM (fun element => c1 <- child [a; b] 1 ;; Execute ord f c1 element) l ;;
               Ok (VArr (filter (fun x => negb (is_null x)) rs))
   | _ => Ok VNull
   end).
Proof. reflexivity. Qed.
Lemma ex_valproj f a b v :
  Execute ord (S f) (N0 ASTValueProjection [a; b]) v =
  (lft <- Execute ord f a v ;;
   match lft with
   | VObj m => rs <- mapM (fun element => c1 <- child [a; b] 1 ;; Execute ord f c1 element) (map snd (ord m)) ;;
               Ok (VArr (filter (fun x => negb (is_null x)) rs))
   | _ => Ok VNull
   end).
Proof. reflexivity. Qed.
Lemma ex_flatten f a v :
  Execute ord (S f) (N0 ASTFlatten [a]) v =
  (lft <- Execute ord f a v ;;
   match lft with
   | VArr l => Ok (VArr (flatten1 l))
   | _ => Ok VNull
   end).
Proof. reflexivity. Qed.
Lemma ex_filter f a b c v :
  Execute ord (S f) (N0 ASTFilterProjection [a; b; c]) v =
  (lft <- Execute ord f a v ;;
   match lft with
   | VArr l =>
     rs <- mapM (fun element =>
                   result <- Execute ord f c element ;;
                   if negb (isFalse result) then c1 <- child [a; b; c] 1 ;; Execute ord f c1 element
                   else Ok VNull) l ;;
     Ok (VArr (filter (fun x => negb (is_null x)) rs))
   | _ => Ok VNull
   end).
Proof. reflexivity. Qed.
Lemma ex_or f a b v :
  Execute ord (S f) (N0 ASTOrExpression [a; b]) v =
  (m <- Execute ord f a v ;; if isFalse m then Execute ord f b v else Ok m).
Proof. reflexivity. Qed.
Lemma ex_and f a b v :
  Execute ord (S f) (N0 ASTAndExpression [a; b]) v =
  (m <- Execute ord f a v ;; if isFalse m then Ok m else Execute ord f b v).
Proof. reflexivity. Qed.
Lemma ex_not f a v :
  Execute ord (S f) (N0 ASTNotExpression [a]) v = (m <- Execute ord f a v ;; Ok (VBool (isFalse m))).
Proof. reflexivity. Qed.
Lemma ex_cmp f t a b v :
  Execute ord (S f) (Node ASTComparator (NVTok t) [a; b]) v =
  (lft <- Execute ord f a v ;; rgt <- Execute ord f b v ;;
   match t with
   | tEQ => Ok (VBool (objs_equal lft rgt))
   | tNE => Ok (VBool (negb (objs_equal lft rgt)))
   | _ => match lft, rgt with
          | VNum ln, VNum rn =>
            match t with
            | tGT => Ok (VBool (num_ltb rn ln))
            | tGTE => Ok (VBool (num_leb rn ln))
            | tLT => Ok (VBool (num_ltb ln rn))
            | tLTE => Ok (VBool (num_leb ln rn))
            | _ => Err EEval
            end
          | _, _ => Ok VNull
          end
   end).
Proof.
  cbn [Execute child nth_or_panic nth_error bind].
  destruct (Execute ord f a v) as [l| | |]; cbn [bind]; try reflexivity;
  destruct (Execute ord f b v) as [r| | |]; cbn [bind]; try reflexivity;
  destruct t; try reflexivity; destruct l; try reflexivity; destruct r; reflexivity.
Qed.
Lemma ex_mslist f ch v :
  Execute ord (S f) (N0 ASTMultiSelectList ch) v =
  if is_null v then Ok VNull else rs <- mapM (fun c => Execute ord f c v) ch ;; Ok (VArr rs).
Proof. reflexivity. Qed.
Lemma ex_mshash f ch v :
  Execute ord (S f) (N0 ASTMultiSelectHash ch) v =
  if is_null v then Ok VNull
  else kvs <- mapM (fun c => cur <- Execute ord f c v ;;
                             match node_val c with NVStr key => Ok (key, cur) | _ => Panic end) ch ;;
       Ok (VObj (fold_left (fun m kv => obj_set (fst kv) (snd kv) m) kvs [])).
Proof. reflexivity. Qed.
Lemma ex_kvp f k a v :
  Execute ord (S f) (Node ASTKeyValPair (NVStr k) [a]) v = Execute ord f a v.
Proof. reflexivity. Qed.
Lemma ex_call f name ch v :
  Execute ord (S f) (Node ASTFunctionExpression (NVStr name) ch) v =
  (args <- mapM (fun a => Execute ord f a v) ch ;; CallFunction ord (Execute ord f) name args).
Proof. reflexivity. Qed.

Lemma node_depth_pos (n : node) : (1 <= node_depth n)%nat.
Proof. destruct n. cbn. lia. Qed.

Lemma depth_in_list (x : node) (l : list node) :
  In x l -> (node_depth x <= fold_right (fun y a => Nat.max (node_depth y) a) 0 l)%nat.
Proof. induction l as [|y l IH]; intros H; [destruct H|]. cbn. destruct H as [->|H]; [lia|]. specialize (IH H). lia. Qed.

Ltac ok_const := split; [reflexivity | let r := fresh "r" in let Hr := fresh "Hr" in intros r Hr; inversion Hr; subst; reflexivity].

Ltac fuel_S fuel f H :=
  cbn [node_depth fold_right N0] in H;
  destruct fuel as [|f]; [lia|].

Ltac split_ok H :=
  repeat match type of H with
         | (_ && _)%bool = true => let H1 := fresh H in apply andb_true_iff in H as [H H1]
         end.

Theorem execute_eval :
  forall n e, (esize e <= n)%nat -> sem_ok e = true ->
  forall fuel, (node_depth (compile e) <= fuel)%nat -> agrees fuel (compile e) (eval ord e).
Proof.
  induction n as [|n IH]; intros e Hn Hok fuel Hf.
  { destruct e; cbn in Hn; lia. }
  (* derived induction hypotheses *)
  assert (IHl : forall l f, (osize l <= n)%nat -> ook l = true -> (node_depth (lhs_node l) <= f)%nat ->
                            agrees f (lhs_node l) (lhs_eval l)).
  { intros [x|] f Hs Ho Hfl; cbn [lhs_node lhs_eval osize ook node_depth ident_node fold_right] in *.
    - apply IH; assumption.
    - destruct f as [|f]; [lia|]. intros v Hv. split; [reflexivity|]. intros r Hr. inversion Hr; subst; exact Hv. }
  assert (IHr : forall r f, (rsize r <= n)%nat -> rok r = true -> (node_depth (rhs_node r) <= f)%nat ->
                            agrees f (rhs_node r) (rhs_eval r)).
  { intros [|x|x] f Hs Ho Hfl; cbn [rhs_node rhs_eval rsize rok node_depth ident_node fold_right] in *.
    - destruct f as [|f]; [lia|]. intros v Hv. split; [reflexivity|]. intros r Hr. inversion Hr; subst; exact Hv.
    - apply IH; assumption.
    - apply IH; assumption. }
  destruct e as [q name | | lv | s | x | es | kvs | fname args | x | l i | l a b c r | l r | l r | l c r | l r
                 | l r | l r | l r | l r | op l r].
  - (* EIdent *)
    cbn [compile] in Hf. fuel_S fuel f Hf. intros v Hv. cbn. split.
    + destruct v; reflexivity.
    + intros r Hr. destruct v as [ | | | | | m | ]; inversion Hr; subst; try reflexivity.
      destruct (obj_get name m) eqn:E; [eapply plain_obj_get; eauto | reflexivity].
  - (* ECurrent *)
    cbn [compile] in Hf. fuel_S fuel f Hf. intros v Hv. cbn. split; [reflexivity|]. intros r Hr. inversion Hr; subst; exact Hv.
  - (* ELit *)
    cbn [compile] in Hf. fuel_S fuel f Hf. intros w Hw. cbn. split; [reflexivity|]. intros r Hr. inversion Hr; subst; apply is_json_plain; exact Hok.
  - (* ERaw *)
    cbn [compile] in Hf. fuel_S fuel f Hf. intros w Hw. cbn. split; [reflexivity|]. intros r Hr. inversion Hr; subst; reflexivity.
  - (* EParen *)
    change (esize (EParen x)) with (S (esize x)) in *. change (sem_ok (EParen x)) with (sem_ok x) in Hok.
    change (compile (EParen x)) with (compile x) in *.
    intros v Hv. change (eval ord (EParen x) v) with (eval ord x v).
    apply (IH x); [lia | exact Hok | lia | exact Hv].
  - (* EMSList *)
    change (esize (EMSList es)) with (S (S (fold_right (fun x a => esize x + a)%nat 0%nat es))) in Hn.
    change (sem_ok (EMSList es)) with (forallb sem_ok es) in Hok.
    change (compile (EMSList es)) with (N0 ASTMultiSelectList (map compile es)) in *.
    fuel_S fuel f Hf. intros v Hv.
    assert (Hall : forall x, In x es -> agrees f (compile x) (eval ord x)).
    { intros x Hx. assert (Hsz : (esize x <= fold_right (fun x a => esize x + a) 0 es)%nat).
      { clear - Hx. induction es as [|y es IHes]; [destruct Hx|]. cbn. destruct Hx as [->|Hx]; [lia|]. specialize (IHes Hx). lia. }
      pose proof (depth_in_list (compile x) (map compile es) (in_map compile es x Hx)).
      apply IH; [lia | | lia]. rewrite forallb_forall in Hok. auto. }
    rewrite eval_mslist.
    rewrite ex_mslist.
    destruct (is_null v) eqn:En; [destruct v; try discriminate; ok_const|].
    rewrite mapM_map.
    destruct (mapM_agrees f es (fun x => compile x) (fun x => eval ord x) v Hall Hv) as [Em Pm].
    rewrite Em. rewrite (match_not_null v _ _ En).
    split; [reflexivity|]. intros r Hr.
    destruct (mapM (fun x => eval ord x v) es) as [ys| | |] eqn:Eg; cbn in Hr; try discriminate.
    inversion Hr; subst. apply plain_arr. apply Pm. reflexivity.
  - (* EMSHash *)
    change (esize (EMSHash kvs)) with (S (S (S (fold_right (fun kv a => esize (snd kv) + a)%nat 0%nat kvs)))) in Hn.
    change (sem_ok (EMSHash kvs)) with (forallb (fun kv : bool * bytes * expr => sem_ok (snd kv)) kvs) in Hok.
    change (compile (EMSHash kvs))
      with (N0 ASTMultiSelectHash (map (fun kv : bool * bytes * expr =>
                                          Node ASTKeyValPair (NVStr (snd (fst kv))) [compile (snd kv)]) kvs)) in *.
    fuel_S fuel f Hf. intros v Hv.
    assert (Hall : forall kv : bool * bytes * expr, In kv kvs ->
               exists f2, f = S f2 /\ agrees f2 (compile (snd kv)) (eval ord (snd kv))).
    { intros kv Hkv. assert (Hsz : (esize (snd kv) <= fold_right (fun kv a => esize (snd kv) + a) 0 kvs)%nat).
      { clear - Hkv. induction kvs as [|y kvs IHk]; [destruct Hkv|]. cbn. destruct Hkv as [->|Hkv]; [lia|]. specialize (IHk Hkv). lia. }
      pose proof (depth_in_list _ _ (in_map (fun kv : bool * bytes * expr =>
                      Node ASTKeyValPair (NVStr (snd (fst kv))) [compile (snd kv)]) kvs kv Hkv)) as Hd.
      cbn [node_depth fold_right] in Hd. destruct f as [|f2]; [lia|]. exists f2. split; [reflexivity|].
      apply IH; [lia | | lia]. rewrite forallb_forall in Hok. auto. }
    rewrite eval_mshash.
    rewrite ex_mshash.
    destruct (is_null v) eqn:En; [destruct v; try discriminate; ok_const|].
    rewrite mapM_map. rewrite (match_not_null v _ _ En).
    rewrite (mapM_ext_in _ (fun kv : bool * bytes * expr => y <- eval ord (snd kv) v ;; Ok (snd (fst kv), y))).
    2:{ intros kv Hkv. destruct (Hall kv Hkv) as [f2 [-> Hag]]. rewrite ex_kvp. cbn [node_val].
        destruct (Hag v Hv) as [E _]. rewrite E. reflexivity. }
    split; [reflexivity|]. intros r Hr.
    destruct (mapM _ kvs) as [ys| | |] eqn:Eg in Hr; cbn in Hr; try discriminate.
    inversion Hr; subst. apply plain_fold_obj_set; [|reflexivity].
    eapply mapM_ok_forall; [|exact Eg]. intros kv y Hkv Hy. cbn in Hy.
    destruct (eval ord (snd kv) v) as [z| | |] eqn:Ez; cbn in Hy; try discriminate. inversion Hy; subst. cbn.
    destruct (Hall kv Hkv) as [f2 [_ Hag]]. eapply (Hag v Hv). exact Ez.
  - (* ECall *)
    change (esize (ECall fname args))
      with (S (S (fold_right (fun a acc => (match a with AExpr x => esize x | ARef x => esize x end) + acc)%nat 0%nat args))) in Hn.
    change (sem_ok (ECall fname args))
      with (forallb (fun a => match a with AExpr x => sem_ok x | ARef x => sem_ok x end) args) in Hok.
    change (compile (ECall fname args)) with (Node ASTFunctionExpression (NVStr fname) (map carg args)) in *.

    fuel_S fuel f Hf. intros v Hv.
    assert (Hall : forall a, In a args ->
               agrees f (compile (match a with AExpr x => x | ARef x => x end))
                        (eval ord (match a with AExpr x => x | ARef x => x end))).
    { intros a Ha.
      assert (Hsz : ((match a with AExpr x => esize x | ARef x => esize x end)
                     <= fold_right (fun a acc => (match a with AExpr x => esize x | ARef x => esize x end) + acc) 0 args)%nat).
      { clear - Ha. induction args as [|y args IHa]; [destruct Ha|]. cbn. destruct Ha as [->|Ha]; [lia|]. specialize (IHa Ha). lia. }
      rewrite forallb_forall in Hok. specialize (Hok a Ha).
      pose proof (depth_in_list _ _ (in_map carg args a Ha)) as Hd.
      destruct a as [x|x]; cbn [carg node_depth fold_right N0] in Hd; (apply IH; [lia | exact Hok | lia]). }
    assert (Hf1 : (1 <= f)%nat \/ args = []).
    { destruct args as [|a0 args0]; [right; reflexivity|left].
      pose proof (depth_in_list _ _ (in_map carg (a0 :: args0) a0 (or_introl eq_refl))) as Hd.
      pose proof (node_depth_pos (carg a0)). lia. }
    rewrite eval_call.
    rewrite ex_call. rewrite mapM_map.
    pose proof (args_agree f args v Hall Hf1 Hv) as Hag.
    destruct (mapM (fun x => Execute ord f (carg x) v) args) as [m|e1| |],
             (mapM (eval_arg v) args) as [sa|e2| |]; cbn [bind]; try contradiction.
    + apply call_refines. exact Hag.
    + subst. split; [reflexivity | discriminate].
    + split; [reflexivity | discriminate].
    + split; [reflexivity | discriminate].
  - (* ENot *)
    change (esize (ENot x)) with (S (esize x)) in *. change (sem_ok (ENot x)) with (sem_ok x) in Hok.
    change (compile (ENot x)) with (N0 ASTNotExpression [compile x]) in *.
    fuel_S fuel f Hf. intros v Hv. rewrite ex_not.
    change (eval ord (ENot x) v) with (y <- eval ord x v ;; Ok (VBool (falsy y))).
    destruct (IH x ltac:(lia) Hok f ltac:(lia) v Hv) as [E P]. rewrite E.
    destruct (eval ord x v); cbn [bind]; split; try reflexivity; try discriminate.
    all: try (do 2 f_equal; apply isFalse_falsy).
    all: intros r Hr; inversion Hr; reflexivity.
  - (* EIndex *)
    change (esize (EIndex l i)) with (S (S (osize l))) in Hn.
    change (sem_ok (EIndex l i)) with (ook l && in_int64 i) in Hok.
    change (compile (EIndex l i)) with (N0 ASTIndexExpression [lhs_node l; Node ASTIndex (NVInt i) []]) in *.

    split_ok Hok. fuel_S fuel f Hf. fuel_S f f2 Hf. intros v Hv.
    change (eval ord (EIndex l i) v)
      with (x <- lhs_eval l v ;;
            match x with
            | VArr xs => if two63 <=? zlen xs then OutOfFuel else Ok (index_list xs i)
            | _ => Ok VNull
            end).
    rewrite ex_indexexpr.
    destruct (IHl l (S f2) ltac:(lia) Hok ltac:(lia) v Hv) as [E P]. rewrite E.
    destruct (lhs_eval l v) as [x| | |] eqn:El; cbn [bind]; try (split; [reflexivity | discriminate]).
    specialize (P x eq_refl). rewrite ex_index.
    destruct x as [ | | | | xs | | ]; try (ok_const).
    destruct (two63 <=? zlen xs) eqn:Eh; [split; [reflexivity | discriminate]|].
    rewrite index_agree by (auto; lia). split; [reflexivity|].
    intros r Hr. inversion Hr; subst. apply plain_index_list. exact P.
  - (* ESlice *)
    change (esize (ESlice l a b c r)) with (S (S (S (osize l + rsize r)))) in Hn.
    change (sem_ok (ESlice l a b c r)) with (ook l && opt_int64 a && opt_int64 b && opt_int64 (cjoin c) && rok r) in Hok.
    change (compile (ESlice l a b c r))
      with (N0 ASTProjection [N0 ASTIndexExpression [lhs_node l; Node ASTSlice (NVSlice a b (cjoin c)) []]; rhs_node r]) in *.

    split_ok Hok. fuel_S fuel f Hf. fuel_S f f2 Hf. fuel_S f2 f3 Hf. intros v Hv.
    change (eval ord (ESlice l a b c r) v)
      with (x <- lhs_eval l v ;;
            match x with
            | VArr xs =>
              if two63 <=? zlen xs then OutOfFuel else
              match py_slice xs a b (cjoin c) with
              | Some ys => ys0 <- mapM (rhs_eval r) ys ;; Ok (VArr (drop_nulls ys0))
              | None => Err EEval
              end
            | _ => Ok VNull
            end).
    rewrite ex_projection, ex_indexexpr.
    destruct (IHl l (S f3) ltac:(lia) Hok ltac:(lia) v Hv) as [E P]. rewrite E.
    destruct (lhs_eval l v) as [x| | |] eqn:El; cbn [bind]; try (split; [reflexivity | discriminate]).
    specialize (P x eq_refl). rewrite ex_slice.
    destruct x as [ | | | | xs | | ]; try (ok_const).
    destruct (two63 <=? zlen xs) eqn:Eh; [split; [reflexivity | discriminate]|].
    rewrite (slice_go_python xs a b (cjoin c)) by (first [lia | apply opt_int64_spec; assumption]).
    destruct (py_slice xs a b (cjoin c)) as [ys|] eqn:Ep; cbn [bind]; [|split; [reflexivity | discriminate]].
    assert (Pys : plain (VArr ys) = true).
    { unfold py_slice in Ep. destruct (py_indices (zlen xs) a b (cjoin c)); inversion Ep. apply plain_pick_idx. exact P. }
    apply (project_agrees (S (S f3)) (rhs_node r) (rhs_eval r)); [|exact Pys].
    apply IHr; [lia | assumption | lia].
  - (* EListProj *)
    change (esize (EListProj l r)) with (S (S (osize l + rsize r))) in Hn.
    change (sem_ok (EListProj l r)) with (ook l && rok r) in Hok.
    change (compile (EListProj l r)) with (N0 ASTProjection [lhs_node l; rhs_node r]) in *.

    split_ok Hok. fuel_S fuel f Hf. intros v Hv.
    change (eval ord (EListProj l r) v)
      with (x <- lhs_eval l v ;;
            match x with
            | VArr xs => ys0 <- mapM (rhs_eval r) xs ;; Ok (VArr (drop_nulls ys0))
            | _ => Ok VNull
            end).
    rewrite ex_projection.
    destruct (IHl l f ltac:(lia) Hok ltac:(lia) v Hv) as [E P]. rewrite E.
    destruct (lhs_eval l v) as [x| | |] eqn:El; cbn [bind]; try (split; [reflexivity | discriminate]).
    specialize (P x eq_refl).
    destruct x as [ | | | | xs | | ]; try (ok_const).
    apply (project_agrees f (rhs_node r) (rhs_eval r)); [|exact P].
    apply IHr; [lia | assumption | lia].
  - (* EFlatten *)
    change (esize (EFlatten l r)) with (S (S (S (osize l + rsize r)))) in Hn.
    change (sem_ok (EFlatten l r)) with (ook l && rok r) in Hok.
    change (compile (EFlatten l r)) with (N0 ASTProjection [N0 ASTFlatten [lhs_node l]; rhs_node r]) in *.

    split_ok Hok. fuel_S fuel f Hf. fuel_S f f2 Hf. intros v Hv.
    change (eval ord (EFlatten l r) v)
      with (x <- lhs_eval l v ;;
            match x with
            | VArr xs => ys0 <- mapM (rhs_eval r) (flatten1 xs) ;; Ok (VArr (drop_nulls ys0))
            | _ => Ok VNull
            end).
    rewrite ex_projection, ex_flatten.
    destruct (IHl l f2 ltac:(lia) Hok ltac:(lia) v Hv) as [E P]. rewrite E.
    destruct (lhs_eval l v) as [x| | |] eqn:El; cbn [bind]; try (split; [reflexivity | discriminate]).
    specialize (P x eq_refl).
    destruct x as [ | | | | xs | | ]; try (ok_const).
    cbn [bind]. apply (project_agrees (S f2) (rhs_node r) (rhs_eval r)); [|apply plain_flatten1; exact P].
    apply IHr; [lia | assumption | lia].
  - (* EFilter *)
    change (esize (EFilter l c r)) with (S (S (osize l + esize c + rsize r))) in Hn.
    change (sem_ok (EFilter l c r)) with (ook l && sem_ok c && rok r) in Hok.
    change (compile (EFilter l c r)) with (N0 ASTFilterProjection [lhs_node l; rhs_node r; compile c]) in *.

    split_ok Hok. fuel_S fuel f Hf. intros v Hv.
    set (g := fun el => t <- eval ord c el ;; if truthy t then rhs_eval r el else Ok VNull).
    change (eval ord (EFilter l c r) v)
      with (x <- lhs_eval l v ;;
            match x with
            | VArr xs => ys <- mapM g xs ;; Ok (VArr (drop_nulls ys))
            | _ => Ok VNull
            end).
    rewrite ex_filter.
    destruct (IHl l f ltac:(lia) Hok ltac:(lia) v Hv) as [E P]. rewrite E.
    destruct (lhs_eval l v) as [x| | |] eqn:El; cbn [bind]; try (split; [reflexivity | discriminate]).
    specialize (P x eq_refl).
    destruct x as [ | | | | xs | | ]; try (ok_const).
    assert (Hc : agrees f (compile c) (eval ord c)) by (apply IH; [lia | assumption | lia]).
    assert (Hr : agrees f (rhs_node r) (rhs_eval r)) by (apply IHr; [lia | assumption | lia]).
    rewrite (mapM_ext_in _ g).
    2:{ intros el Hel. assert (Pel : plain el = true) by (eapply plain_arr_in; eauto).
        unfold g. destruct (Hc el Pel) as [Ec _]. rewrite Ec.
        destruct (eval ord c el) as [t| | |]; cbn [bind]; try reflexivity.
        rewrite isFalse_falsy. unfold truthy. destruct (falsy t); cbn; [reflexivity|].
        apply (Hr el Pel). }
    split.
    + destruct (mapM g xs); cbn; try reflexivity. rewrite filter_nulls. reflexivity.
    + intros r0 Hr0. destruct (mapM g xs) as [ys| | |] eqn:Eg; cbn in Hr0; try discriminate.
      inversion Hr0; subst. apply plain_drop_nulls. apply plain_arr.
      eapply mapM_ok_forall; [|exact Eg]. intros el y Hel Hy. unfold g in Hy.
      assert (Pel : plain el = true) by (eapply plain_arr_in; eauto).
      destruct (eval ord c el) as [t| | |]; cbn in Hy; try discriminate.
      destruct (truthy t); [eapply (Hr el Pel); exact Hy | inversion Hy; reflexivity].
  - (* EValProj *)
    change (esize (EValProj l r)) with (S (S (osize l + rsize r))) in Hn.
    change (sem_ok (EValProj l r)) with (ook l && rok r) in Hok.
    change (compile (EValProj l r)) with (N0 ASTValueProjection [lhs_node l; rhs_node r]) in *.

    split_ok Hok. fuel_S fuel f Hf. intros v Hv.
    change (eval ord (EValProj l r) v)
      with (x <- lhs_eval l v ;;
            match x with
            | VObj m => ys0 <- mapM (rhs_eval r) (map snd (ord m)) ;; Ok (VArr (drop_nulls ys0))
            | _ => Ok VNull
            end).
    rewrite ex_valproj.
    destruct (IHl l f ltac:(lia) Hok ltac:(lia) v Hv) as [E P]. rewrite E.
    destruct (lhs_eval l v) as [x| | |] eqn:El; cbn [bind]; try (split; [reflexivity | discriminate]).
    specialize (P x eq_refl).
    destruct x as [ | | | | | m | ]; try (ok_const).
    apply (project_agrees f (rhs_node r) (rhs_eval r)); [|apply plain_map_snd; apply plain_ord; exact P].
    apply IHr; [lia | assumption | lia].
  - (* ESub *)
    change (esize (ESub l r)) with (S (esize l + esize r)) in Hn.
    change (sem_ok (ESub l r)) with (sem_ok l && sem_ok r) in Hok.
    change (compile (ESub l r)) with (N0 ASTSubexpression [compile l; compile r]) in *.

    split_ok Hok. fuel_S fuel f Hf. intros v Hv.
    change (eval ord (ESub l r) v) with (x <- eval ord l v ;; eval ord r x).
    rewrite ex_subexpr.
    destruct (IH l ltac:(lia) Hok f ltac:(lia) v Hv) as [E P]. rewrite E.
    destruct (eval ord l v) as [x| | |]; cbn [bind]; try (split; [reflexivity | discriminate]).
    apply (IH r ltac:(lia) Hok0 f ltac:(lia) x (P x eq_refl)).
  - (* EPipe *)
    change (esize (EPipe l r)) with (S (esize l + esize r)) in Hn.
    change (sem_ok (EPipe l r)) with (sem_ok l && sem_ok r) in Hok.
    change (compile (EPipe l r)) with (N0 ASTPipe [compile l; compile r]) in *.

    split_ok Hok. fuel_S fuel f Hf. intros v Hv.
    change (eval ord (EPipe l r) v) with (x <- eval ord l v ;; eval ord r x).
    rewrite ex_pipe.
    destruct (IH l ltac:(lia) Hok f ltac:(lia) v Hv) as [E P]. rewrite E.
    destruct (eval ord l v) as [x| | |]; cbn [bind]; try (split; [reflexivity | discriminate]).
    apply (IH r ltac:(lia) Hok0 f ltac:(lia) x (P x eq_refl)).
  - (* EOr *)
    change (esize (EOr l r)) with (S (esize l + esize r)) in Hn.
    change (sem_ok (EOr l r)) with (sem_ok l && sem_ok r) in Hok.
    change (compile (EOr l r)) with (N0 ASTOrExpression [compile l; compile r]) in *.

    split_ok Hok. fuel_S fuel f Hf. intros v Hv.
    change (eval ord (EOr l r) v) with (x <- eval ord l v ;; if truthy x then Ok x else eval ord r v).
    rewrite ex_or.
    destruct (IH l ltac:(lia) Hok f ltac:(lia) v Hv) as [E P]. rewrite E.
    destruct (eval ord l v) as [x| | |]; cbn [bind]; try (split; [reflexivity | discriminate]).
    rewrite isFalse_falsy. unfold truthy. destruct (falsy x); cbn [negb].
    + apply (IH r ltac:(lia) Hok0 f ltac:(lia) v Hv).
    + split; [reflexivity|]. intros r1 Hr1; inversion Hr1; subst. apply P. reflexivity.
  - (* EAnd *)
    change (esize (EAnd l r)) with (S (esize l + esize r)) in Hn.
    change (sem_ok (EAnd l r)) with (sem_ok l && sem_ok r) in Hok.
    change (compile (EAnd l r)) with (N0 ASTAndExpression [compile l; compile r]) in *.

    split_ok Hok. fuel_S fuel f Hf. intros v Hv.
    change (eval ord (EAnd l r) v) with (x <- eval ord l v ;; if truthy x then eval ord r v else Ok x).
    rewrite ex_and.
    destruct (IH l ltac:(lia) Hok f ltac:(lia) v Hv) as [E P]. rewrite E.
    destruct (eval ord l v) as [x| | |]; cbn [bind]; try (split; [reflexivity | discriminate]).
    rewrite isFalse_falsy. unfold truthy. destruct (falsy x); cbn [negb].
    + split; [reflexivity|]. intros r1 Hr1; inversion Hr1; subst. apply P. reflexivity.
    + apply (IH r ltac:(lia) Hok0 f ltac:(lia) v Hv).
  - (* ECmp *)
    change (esize (ECmp op l r)) with (S (esize l + esize r)) in Hn.
    change (sem_ok (ECmp op l r)) with (sem_ok l && sem_ok r) in Hok.
    change (compile (ECmp op l r)) with (Node ASTComparator (NVTok (cmp_tok op)) [compile l; compile r]) in *.

    split_ok Hok. fuel_S fuel f Hf. intros v Hv.
    rewrite ex_cmp. cbn [eval].
    destruct (IH l ltac:(lia) Hok f ltac:(lia) v Hv) as [E P]. rewrite E.
    destruct (eval ord l v) as [x| | |]; cbn [bind]; try (split; [reflexivity | discriminate]).
    destruct (IH r ltac:(lia) Hok0 f ltac:(lia) v Hv) as [E2 P2]. rewrite E2.
    destruct (eval ord r v) as [y| | |]; cbn [bind]; try (split; [reflexivity | discriminate]).
    destruct op; cbn [cmp_tok cmp_num];
      try (ok_const).
    all: destruct x; try (ok_const).
    all: destruct y; ok_const.
Qed.

(* the statement used by the property files *)
Corollary execute_is_eval e v fuel :
  sem_ok e = true -> plain v = true -> (node_depth (compile e) <= fuel)%nat ->
  Execute ord fuel (compile e) v = eval ord e v.
Proof. intros Hok Hv Hf. apply (execute_eval (esize e) e (le_n _) Hok fuel Hf v Hv). Qed.

Corollary eval_plain e v r :
  sem_ok e = true -> plain v = true -> eval ord e v = Ok r -> plain r = true.
Proof.
  intros Hok Hv Hr.
  eapply (execute_eval (esize e) e (le_n _) Hok (node_depth (compile e)) (le_n _) v Hv). exact Hr.
Qed.

(* the depth of an AST is at most its size: Api.exec_fuel is enough *)
Lemma node_depth_le_size (n : node) : (node_depth n <= node_size n)%nat.
Proof.
  revert n. fix IH 1. intros [ty val ch]. cbn [node_depth node_size].
  assert (H : (fold_right (fun x a => Nat.max (node_depth x) a) 0 ch
               <= fold_right (fun x a => node_size x + a) 0 ch)%nat).
  { induction ch as [|c ch IHc]; cbn; [lia|]. specialize (IH c). lia. }
  lia.
Qed.

Corollary search_compiled_is_eval e v :
  sem_ok e = true -> plain v = true ->
  Api.search_compiled ord (compile e) v = eval ord e v.
Proof.
  intros Hok Hv. unfold Api.search_compiled, Api.exec_fuel. apply execute_is_eval; auto.
  pose proof (node_depth_le_size (compile e)). lia.
Qed.

End WithNum.

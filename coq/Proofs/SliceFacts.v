(* SliceFacts.v — util.go slice/computeSliceParams/capSlice (with 64-bit
   wrap-around and the unchecked slice[i]) select exactly what Python's extended
   slicing selects, for all integers of the int64 range, and never panic or run
   out of fuel. *)
From JM Require Import Model.Base Model.Slice Spec.PySlice.
From Coq Require Import ZifyBool.

Local Open Scope Z_scope.

Lemma wrap64_id z : - two63 <= z < two63 -> wrap64 z = z.
Proof.
  intros H. unfold wrap64, two63, two64 in *.
  rewrite Z.mod_small by lia. lia.
Qed.

Definition len_ok {A} (xs : list A) : Prop := zlen xs < two63.

Lemma zlen_nonneg {A} (xs : list A) : 0 <= zlen xs.
Proof. unfold zlen. lia. Qed.

(* capSlice is Python's clamping of a given bound *)
Lemma capSlice_py len z step :
  0 <= len < two63 -> - two63 <= z < two63 -> step <> 0 ->
  forall is_start, capSlice len z step = py_bound len step (Some z) is_start.
Proof.
  intros Hl Hz Hs is_start. unfold capSlice, py_bound.
  destruct (z <? 0) eqn:E1.
  - rewrite wrap64_id by (unfold two63 in *; lia).
    destruct (z + len <? 0) eqn:E2; destruct (step <? 0) eqn:E3; lia.
  - destruct (len <=? z) eqn:E2; destruct (step <? 0) eqn:E3;
      try rewrite wrap64_id by (unfold two63 in *; lia); lia.
Qed.

Definition step_of (c : option Z) : Z := match c with Some s => s | None => 1 end.

Lemma start_py len a s :
  0 <= len < two63 -> (forall z, a = Some z -> - two63 <= z < two63) -> s <> 0 ->
  (if negb (spSpecified (mk_param a)) then (if s <? 0 then wrap64 (len - 1) else 0)
   else capSlice len (spN (mk_param a)) s) = py_bound len s a true.
Proof.
  intros Hl Ha Hs. destruct a as [z|]; cbn [mk_param spSpecified spN negb].
  - apply capSlice_py; auto.
  - unfold py_bound. destruct (s <? 0); [apply wrap64_id; unfold two63 in *; lia | reflexivity].
Qed.

Lemma stop_py len b s :
  0 <= len < two63 -> (forall z, b = Some z -> - two63 <= z < two63) -> s <> 0 ->
  (if negb (spSpecified (mk_param b)) then (if s <? 0 then -1 else len)
   else capSlice len (spN (mk_param b)) s) = py_bound len s b false.
Proof.
  intros Hl Hb Hs. destruct b as [z|]; cbn [mk_param spSpecified spN negb].
  - apply capSlice_py; auto.
  - unfold py_bound. destruct (s <? 0); reflexivity.
Qed.

Lemma computeSliceParams_py len a b c :
  0 <= len < two63 ->
  (forall z, a = Some z -> - two63 <= z < two63) ->
  (forall z, b = Some z -> - two63 <= z < two63) ->
  computeSliceParams len (mk_param a) (mk_param b) (mk_param c) =
  if step_of c =? 0 then None
  else Some (py_bound len (step_of c) a true, py_bound len (step_of c) b false, step_of c).
Proof.
  intros Hl Ha Hb. unfold computeSliceParams.
  destruct c as [s|]; cbn [mk_param spSpecified spN negb step_of].
  - destruct (s =? 0) eqn:Es; [reflexivity|].
    rewrite start_py, stop_py by (auto; lia). reflexivity.
  - change (1 =? 0) with false. cbv iota.
    rewrite start_py, stop_py by (auto; lia). reflexivity.
Qed.

(* the selected elements, as a function of the index list *)
Definition pick_idx {A} (xs : list A) (idx : list Z) : list A :=
  flat_map (fun i => match nth_error xs (Z.to_nat i) with Some x => [x] | None => [] end) idx.

Lemma index_or_panic_ok {A} (xs : list A) i :
  0 <= i < zlen xs -> exists x, index_or_panic xs i = Ok x /\ nth_error xs (Z.to_nat i) = Some x.
Proof.
  intros H. unfold index_or_panic, nth_or_panic.
  destruct (i <? 0) eqn:E; [lia|].
  destruct (nth_error xs (Z.to_nat i)) eqn:En.
  - eexists; split; reflexivity.
  - apply nth_error_None in En. unfold zlen in H. lia.
Qed.

Lemma pick_idx_cons {A} (xs : list A) i idx x :
  nth_error xs (Z.to_nat i) = Some x -> pick_idx xs (i :: idx) = x :: pick_idx xs idx.
Proof. intros H. unfold pick_idx. cbn. rewrite H. reflexivity. Qed.

Definition arith (start step : Z) (n : nat) : list Z :=
  map (fun k => start + Z.of_nat k * step) (seq 0 n).

Lemma arith_S start step n : arith start step (S n) = start :: arith (start + step) step n.
Proof.
  unfold arith. cbn [seq map]. f_equal; [lia|].
  rewrite <- seq_shift, map_map. apply map_ext. intros k. lia.
Qed.

(* the ascending loop *)
Lemma slice_up_spec {A} (xs : list A) stop step :
  0 < step < two63 -> stop <= zlen xs -> zlen xs < two63 ->
  forall n fuel i acc,
    (n <= fuel)%nat -> 0 <= i ->
    (n = 0%nat -> stop <= i) ->
    (n <> 0%nat -> i + (Z.of_nat n - 1) * step < stop <= i + Z.of_nat n * step) ->
    slice_up (S fuel) xs i stop step acc = Ok (rev acc ++ pick_idx xs (arith i step n)).
Proof.
  intros Hstep Hstop Hlen n. induction n as [|n IH]; intros fuel i acc Hf Hi H0 Hn.
  - cbn [slice_up]. specialize (H0 eq_refl).
    destruct (i <? stop) eqn:E; [lia|]. cbn. rewrite app_nil_r. reflexivity.
  - assert (Hn' := Hn ltac:(lia)). clear H0.
    cbn [slice_up]. destruct (i <? stop) eqn:E; [|nia].
    destruct (index_or_panic_ok xs i ltac:(lia)) as [x [Hx Hnth]].
    rewrite Hx. cbn [bind].
    rewrite wrap64_id by (unfold two63 in *; lia).
    rewrite arith_S, (pick_idx_cons _ _ _ _ Hnth).
    destruct (stop - i <=? step) eqn:E2.
    + (* last element *)
      assert (n = 0%nat) by nia. subst n. cbn. reflexivity.
    + destruct fuel as [|fuel]; [lia|].
      rewrite wrap64_id by (unfold two63 in *; lia).
      rewrite IH; [cbn [rev]; rewrite <- app_assoc; reflexivity | lia | lia | intros ->; lia | intros _; nia].
Qed.

(* the descending loop *)
Lemma slice_down_spec {A} (xs : list A) stop step :
  - two63 <= step < 0 -> -1 <= stop -> zlen xs < two63 ->
  forall n fuel i acc,
    (n <= fuel)%nat -> i < zlen xs ->
    (n = 0%nat -> i <= stop) ->
    (n <> 0%nat -> i + Z.of_nat n * step <= stop < i + (Z.of_nat n - 1) * step) ->
    slice_down (S fuel) xs i stop step acc = Ok (rev acc ++ pick_idx xs (arith i step n)).
Proof.
  intros Hstep Hstop Hlen n. induction n as [|n IH]; intros fuel i acc Hf Hi H0 Hn.
  - cbn [slice_down]. specialize (H0 eq_refl).
    destruct (stop <? i) eqn:E; [lia|]. cbn. rewrite app_nil_r. reflexivity.
  - assert (Hn' := Hn ltac:(lia)). clear H0.
    cbn [slice_down]. destruct (stop <? i) eqn:E; [|nia].
    destruct (index_or_panic_ok xs i ltac:(lia)) as [x [Hx Hnth]].
    rewrite Hx. cbn [bind].
    rewrite wrap64_id by (unfold two63 in *; lia).
    rewrite arith_S, (pick_idx_cons _ _ _ _ Hnth).
    destruct (step <=? stop - i) eqn:E2.
    + assert (n = 0%nat) by nia. subst n. cbn. reflexivity.
    + destruct fuel as [|fuel]; [lia|].
      rewrite wrap64_id by (unfold two63 in *; lia).
      rewrite IH; [cbn [rev]; rewrite <- app_assoc; reflexivity | lia | lia | intros ->; lia | intros _; nia].
Qed.

Lemma py_bound_range len step x is_start :
  0 <= len -> step <> 0 -> -1 <= py_bound len step x is_start <= len.
Proof.
  intros Hl Hs. unfold py_bound.
  destruct x as [z|]; destruct (step <? 0) eqn:E; try destruct (z <? 0) eqn:E2;
    try destruct is_start; lia.
Qed.

Lemma py_bound_pos len step x is_start :
  0 <= len -> 0 < step -> 0 <= py_bound len step x is_start <= len.
Proof.
  intros Hl Hs. unfold py_bound.
  destruct x as [z|]; destruct (step <? 0) eqn:E; try destruct (z <? 0) eqn:E2;
    try destruct is_start; lia.
Qed.

Lemma py_bound_neg len step x is_start :
  0 <= len -> step < 0 -> -1 <= py_bound len step x is_start <= len - 1.
Proof.
  intros Hl Hs. unfold py_bound.
  destruct x as [z|]; destruct (step <? 0) eqn:E; try destruct (z <? 0) eqn:E2;
    try destruct is_start; lia.
Qed.

(* the main statement: for all lists shorter than 2^63 and all int64 parameters *)
Theorem slice_go_python {A} (xs : list A) a b c :
  zlen xs < two63 ->
  (forall z, a = Some z -> - two63 <= z < two63) ->
  (forall z, b = Some z -> - two63 <= z < two63) ->
  (forall z, c = Some z -> - two63 <= z < two63) ->
  slice_go xs (mk_param a) (mk_param b) (mk_param c) =
  match py_slice xs a b c with
  | Some ys => Ok ys
  | None => Err EEval
  end.
Proof.
  intros Hlen Ha Hb Hc.
  assert (Hl0 := zlen_nonneg xs).
  unfold slice_go, py_slice, py_indices.
  rewrite computeSliceParams_py by (auto; lia).
  fold (step_of c). set (step := step_of c).
  assert (Hstep : - two63 <= step < two63).
  { unfold step, step_of. destruct c as [s|]; [apply Hc; reflexivity | unfold two63; lia]. }
  destruct (step =? 0) eqn:E0; [reflexivity|].
  assert (step <> 0) by lia.
  set (start := py_bound (zlen xs) step a true).
  set (stop := py_bound (zlen xs) step b false).
  set (n := py_range_len start stop step).
  fold (arith start step (Z.to_nat n)). fold (pick_idx xs (arith start step (Z.to_nat n))).
  destruct (0 <? step) eqn:Epos.
  - destruct (py_bound_pos (zlen xs) step a true ltac:(lia) ltac:(lia)) as [Hs1 Hs2].
    destruct (py_bound_pos (zlen xs) step b false ltac:(lia) ltac:(lia)) as [Ht1 Ht2].
    fold start in Hs1, Hs2. fold stop in Ht1, Ht2.
    assert (Hn : 0 <= n <= zlen xs).
    { unfold n, py_range_len. rewrite Epos. destruct (start <? stop) eqn:E; [|lia].
      split; [apply Z.div_pos; lia|].
      apply Z.div_le_upper_bound; nia. }
    rewrite (slice_up_spec xs stop step ltac:(lia) ltac:(lia) Hlen (Z.to_nat n)); try lia.
    + reflexivity.
    + unfold zlen in *. lia.
    + intros Hz. unfold n, py_range_len in *. rewrite Epos in *.
      destruct (start <? stop) eqn:E; [|lia].
      exfalso. assert (1 <= (stop - start + step - 1) / step).
      { apply Z.div_le_lower_bound; lia. }
      lia.
    + intros Hz. rewrite Z2Nat.id by lia. unfold n, py_range_len in *. rewrite Epos in *.
      destruct (start <? stop) eqn:E; [|cbn in Hz; lia].
      pose proof (Z.div_mod (stop - start + step - 1) step ltac:(lia)).
      pose proof (Z.mod_pos_bound (stop - start + step - 1) step ltac:(lia)).
      nia.
  - assert (Hneg : step < 0) by lia.
    destruct (py_bound_neg (zlen xs) step a true ltac:(lia) Hneg) as [Hs1 Hs2].
    destruct (py_bound_neg (zlen xs) step b false ltac:(lia) Hneg) as [Ht1 Ht2].
    fold start in Hs1, Hs2. fold stop in Ht1, Ht2.
    assert (Hn : 0 <= n <= zlen xs).
    { unfold n, py_range_len. rewrite Epos. destruct (stop <? start) eqn:E; [|lia].
      split; [apply Z.div_pos; lia|].
      apply Z.div_le_upper_bound; nia. }
    rewrite (slice_down_spec xs stop step ltac:(lia) ltac:(lia) Hlen (Z.to_nat n)); try lia.
    + reflexivity.
    + unfold zlen in *. lia.
    + intros Hz. unfold n, py_range_len in *. rewrite Epos in *.
      destruct (stop <? start) eqn:E; [|lia].
      exfalso. assert (1 <= (start - stop - step - 1) / - step).
      { apply Z.div_le_lower_bound; lia. }
      lia.
    + intros Hz. rewrite Z2Nat.id by lia. unfold n, py_range_len in *. rewrite Epos in *.
      destruct (stop <? start) eqn:E; [|cbn in Hz; lia].
      pose proof (Z.div_mod (start - stop - step - 1) (- step) ltac:(lia)).
      pose proof (Z.mod_pos_bound (start - stop - step - 1) (- step) ltac:(lia)).
      nia.
Qed.

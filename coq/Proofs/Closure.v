(* Closure.v — JSON closure (C16): evaluating an expression whose literals are
   JSON on JSON data yields JSON data — no expression reference, well-formed
   objects, and finite numbers provided the arithmetic of this evaluation does
   not overflow (the proviso of the property). *)
From JM Require Import Model.Base Model.Num Model.Utf8 Model.Value Model.JsonText Model.Functions.
From JM Require Import Spec.Grammar Spec.PySlice Spec.Semantics.
From JM Require Import Model.Lexer Model.Parser Model.Interp Model.Api.
From JM Require Import Proofs.ValueFacts Proofs.SliceFacts Proofs.FunFacts Proofs.InterpRefine Proofs.SpecFacts
     Proofs.CompileTotal Proofs.ParserShape Proofs.SearchTotal.
From Coq Require Import ZifyBool Permutation.

Section WithNum.
Context {NumO : NumOps}.
Variable ord : obj -> obj.
Hypothesis ord_perm : forall m, Permutation (ord m) m.

(* The closure argument is carried out once, for a predicate P on numbers:
   P := num_finite gives JSON data proper (under the no-overflow proviso
   NumClosed), P := fun _ => true gives the unconditional shape theorem (no
   expression reference, well-formed objects) for every number instance. *)
Variable P : num -> bool.

Fixpoint jw (v : value) : bool :=
  match v with
  | VNull | VBool _ | VStr _ => true
  | VNum n => P n
  | VArr l => forallb jw l
  | VObj m => forallb (fun kv => jw (snd kv)) m && obj_sorted m
  | VExp _ => false
  end.

(* what the number operations must preserve; satisfied outright by exact
   arithmetic, and by binary64 as long as no addition or division overflows *)
Record NumClosed : Prop := {
  nc_fin : forall x, num_finite x = true -> P x = true;
  nc_abs : forall x, P x = true -> P (num_abs x) = true;
  nc_ceil : forall x, P x = true -> P (num_ceil x) = true;
  nc_floor : forall x, P x = true -> P (num_floor x) = true;
  nc_of_Z : forall z, P (num_of_Z z) = true;
  nc_add : forall x y, P x = true -> P y = true -> P (num_add x y) = true;
  nc_div_len : forall x z, P x = true -> 0 < z -> P (num_div x (num_of_Z z)) = true
}.
Hypothesis Hnum : NumClosed.

Definition J (v : value) : Prop := jw v = true.

Lemma J_arr l : J (VArr l) <-> Forall J l.
Proof. unfold J. cbn. rewrite forallb_forall, Forall_forall. reflexivity. Qed.

Lemma J_arr_in l x : J (VArr l) -> In x l -> J x.
Proof. intros H Hin. apply J_arr in H. rewrite Forall_forall in H. auto. Qed.

Lemma J_obj m : J (VObj m) <-> Forall (fun kv => J (snd kv)) m /\ obj_sorted m = true.
Proof.
  unfold J. cbn. rewrite andb_true_iff, forallb_forall, Forall_forall. reflexivity.
Qed.

Lemma J_obj_set k v m : J (VObj m) -> J v -> J (VObj (obj_set k v m)).
Proof.
  intros Hm Hv. apply J_obj in Hm as [Hall Hs]. apply J_obj. split; [|apply obj_set_sorted; exact Hs].
  clear Hs. induction Hall as [|[k1 v1] m H1 Hm IH]; cbn [obj_set].
  - constructor; [exact Hv | constructor].
  - destruct (bytes_eqb k k1); [constructor; [exact Hv | exact Hm]|].
    destruct (bytes_ltb k k1); repeat (constructor; auto).
Qed.

Lemma J_fold_obj_set (ys : list (bytes * value)) acc :
  Forall (fun kv => J (snd kv)) ys -> J (VObj acc) ->
  J (VObj (fold_left (fun m kv => obj_set (fst kv) (snd kv) m) ys acc)).
Proof.
  intros H. revert acc. induction H as [|[k y] ys Hy _ IH]; intros acc Hacc; cbn; [exact Hacc|].
  apply IH. apply J_obj_set; assumption.
Qed.

Lemma J_perm l l' : Permutation l l' -> J (VArr l') -> J (VArr l).
Proof.
  intros Hp H. apply J_arr. apply J_arr in H. rewrite Forall_forall in *.
  intros x Hx. apply H. eapply Permutation_in; eauto.
Qed.

Lemma J_filter (p : value -> bool) l : J (VArr l) -> J (VArr (filter p l)).
Proof.
  intros H. apply J_arr. apply J_arr in H. rewrite Forall_forall in *.
  intros x Hx. apply filter_In in Hx as [Hx _]. auto.
Qed.

Lemma J_flatten1 l : J (VArr l) -> J (VArr (flatten1 l)).
Proof.
  intros H. apply J_arr. apply J_arr in H. unfold flatten1. rewrite Forall_forall in *.
  intros x Hx. apply in_flat_map in Hx as [y [Hy Hx]]. specialize (H y Hy).
  destruct y; cbn in Hx; try (destruct Hx as [<-|[]]; exact H). apply J_arr in H. rewrite Forall_forall in H. auto.
Qed.

Lemma J_pick_idx xs idx : J (VArr xs) -> J (VArr (pick_idx xs idx)).
Proof.
  intros H. apply J_arr. apply J_arr in H. rewrite Forall_forall in *.
  intros x Hx. unfold pick_idx in Hx. apply in_flat_map in Hx as [i [_ Hx]].
  destruct (nth_error xs (Z.to_nat i)) eqn:E; [|destruct Hx]. destruct Hx as [<-|[]]. apply H. eapply nth_error_In; eauto.
Qed.

Lemma J_nth xs k : J (VArr xs) -> J (nth k xs VNull).
Proof.
  intros H. destruct (nth_in_or_default k xs VNull) as [Hin| ->]; [eapply J_arr_in; eauto | reflexivity].
Qed.

Lemma J_obj_get k m x : J (VObj m) -> obj_get k m = Some x -> J x.
Proof.
  intros H. apply J_obj in H as [H _]. induction H as [|[k1 y] m Hy _ IH]; cbn; [discriminate|].
  destruct (bytes_eqb k k1); [intros E; inversion E; subst; exact Hy | exact IH].
Qed.

Lemma J_ord_values m : J (VObj m) -> J (VArr (map snd (ord m))).
Proof.
  intros H. apply J_obj in H as [H _]. apply J_arr. rewrite Forall_forall in *.
  intros x Hx. apply in_map_iff in Hx as [[k y] [<- Hy]]. apply (H (k, y)).
  eapply Permutation_in; [apply ord_perm | exact Hy].
Qed.

(* sums of finite numbers *)
Lemma finite_fold_add ns acc :
  Forall (fun n => P n = true) ns -> P acc = true ->
  P (fold_left num_add ns acc) = true.
Proof.
  intros H. revert acc. induction H as [|n ns Hn _ IH]; intros acc Ha; cbn; [exact Ha|].
  apply IH. apply (nc_add Hnum); assumption.
Qed.

Lemma nums_of_finite l : J (VArr l) -> Forall (fun n => P n = true) (nums_of l).
Proof.
  intros H. apply J_arr in H. unfold nums_of. rewrite Forall_forall in *. intros n Hn.
  apply in_flat_map in Hn as [v [Hv Hn]]. specialize (H v Hv). destruct v; cbn in Hn; try destruct Hn as [<-|[]]; try contradiction.
  exact H.
Qed.

(* the result of a closure argument is JSON when its argument is *)
Definition sarg_J (a : sarg) : Prop :=
  match a with
  | SVal v => J v
  | SRef g => forall x r, J x -> g x = Ok r -> J r
  end.

Definition RJ (r : outcome value) : Prop := forall v, r = Ok v -> J v.

Lemma RJ_ok v : J v -> RJ (Ok v).
Proof. intros H w E. inversion E; subst. exact H. Qed.
Lemma RJ_err e : RJ (Err e).
Proof. intros w E. discriminate. Qed.

Lemma mapM_J {A} (g : A -> outcome value) l ys :
  (forall x y, In x l -> g x = Ok y -> J y) -> mapM g l = Ok ys -> J (VArr ys).
Proof. intros H E. apply J_arr. eapply mapM_ok_forall; eauto. Qed.

Lemma first_best_in {A} (better : A -> A -> bool) l x : first_best better l = Some x -> In x l.
Proof.
  destruct l as [|a l]; [discriminate|]. cbn. intros E. inversion E; subst. clear E.
  revert a. induction l as [|b l IH]; intros a; cbn; [left; reflexivity|].
  destruct (better b a).
  - destruct (IH b) as [H|H]; [right; left; exact H | right; right; exact H].
  - destruct (IH a) as [H|H]; [left; exact H | right; right; exact H].
Qed.

Lemma by_keys_snd g l ks :
  by_keys g l = Ok ks ->
  match ks with KNum ks => map snd ks = l | KStr ks => map snd ks = l end.
Proof.
  unfold by_keys. destruct l as [|x l]; [intros E; inversion E; reflexivity|].
  destruct (g x) as [k0| | |]; cbn [bind]; try discriminate. destruct k0; try discriminate.
  - destruct (mapM (num_key g) (x :: l)) as [k1| | |] eqn:E1; cbn [bind]; try discriminate.
    intros E. inversion E; subst. eapply num_key_snd; eauto.
  - destruct (mapM (str_key g) (x :: l)) as [k1| | |] eqn:E1; cbn [bind]; try discriminate.
    intros E. inversion E; subst. eapply str_key_snd; eauto.
Qed.

Lemma J_snd_in {K} (ks : list (K * value)) l p : map snd ks = l -> J (VArr l) -> In p ks -> J (snd p).
Proof. intros E H Hin. eapply J_arr_in; [exact H|]. rewrite <- E. apply in_map. exact Hin. Qed.

Ltac rj :=
  repeat match goal with
         | |- RJ (if ?c then _ else _) => destruct c
         | |- RJ (Ok _) => apply RJ_ok
         | |- RJ (Err _) => apply RJ_err
         | |- RJ (match ?x with _ => _ end) => destruct x eqn:?
         end.

Lemma apply_function_J name args : Forall sarg_J args -> RJ (apply_function ord name args).
Proof.
  intros Hall. unfold apply_function.
  destruct (name_is name _).
  { (* merge *)
    apply RJ_ok.
    assert (G : forall vals acc, Forall J vals -> J (VObj acc) ->
                J (VObj (fold_left (fun f v => match v with
                                               | VObj m => fold_left (fun f kv => obj_set (fst kv) (snd kv) f) m f
                                               | _ => f end) vals acc))).
    { induction vals as [|v vals IH]; intros acc Hv Hacc; cbn; [exact Hacc|]. inversion Hv; subst.
      apply IH; [assumption|]. destruct v; try exact Hacc. apply J_fold_obj_set; [|exact Hacc].
      match goal with H : J (VObj _) |- _ => apply J_obj in H as [H _]; exact H end. }
    apply G; [|reflexivity]. unfold arg_values. apply Forall_forall. intros v Hv.
    apply in_flat_map in Hv as [a [Ha Hv]]. rewrite Forall_forall in Hall. specialize (Hall a Ha).
    destruct a; cbn in Hv; [destruct Hv as [<-|[]]; exact Hall | destruct Hv]. }
  destruct (name_is name _).
  { (* not_null *)
    apply RJ_ok. destruct (find not_null (arg_values args)) eqn:Ef; [|reflexivity].
    apply find_some in Ef as [Hin _]. unfold arg_values in Hin. apply in_flat_map in Hin as [a [Ha Hv]].
    rewrite Forall_forall in Hall. specialize (Hall a Ha). destruct a; cbn in Hv; [destruct Hv as [<-|[]]; exact Hall | destruct Hv]. }
  destruct args as [|a1 [|a2 [|a3 rest]]]; try apply RJ_err.
  - inversion Hall as [|? ? H1 _]; subst. destruct a1 as [v|g]; [|apply RJ_err]. cbn [sarg_J] in H1.
    destruct v.
    all: rj; try reflexivity; try exact H1.
    all: try (cbn; rewrite ?andb_true_r; exact H1).
    all: try (unfold J; cbn; first [apply (nc_abs Hnum) | apply (nc_ceil Hnum) | apply (nc_floor Hnum) | apply (nc_of_Z Hnum)]; exact H1).
    all: try (unfold J; cbn; apply (nc_of_Z Hnum)).
    all: try (apply J_arr; constructor; [exact H1 | constructor]).
    + (* to_number of a string *)
      destruct (num_parse_go s) as [x|]; [|reflexivity]. destruct (num_finite x) eqn:Ef; [apply (nc_fin Hnum); exact Ef | reflexivity].
    + (* avg *)
      unfold J. cbn [jw]. apply (nc_div_len Hnum); [|unfold zlen; cbn [length]; lia].
      apply finite_fold_add; [apply nums_of_finite; exact H1 | apply (nc_of_Z Hnum)].
    + (* sum *)
      unfold J. cbn [jw]. apply finite_fold_add; [apply nums_of_finite; exact H1 | apply (nc_of_Z Hnum)].
    + (* max, numbers *)
      destruct (first_best _ (nums_of l)) as [x|] eqn:Ef; [|reflexivity]. apply first_best_in in Ef.
      pose proof (nums_of_finite l H1) as Hf. rewrite Forall_forall in Hf. apply (Hf x Ef).
    + destruct (first_best _ (strs_of l)); reflexivity.
    + destruct (first_best _ (nums_of l)) as [x|] eqn:Ef; [|reflexivity]. apply first_best_in in Ef.
      pose proof (nums_of_finite l H1) as Hf. rewrite Forall_forall in Hf. apply (Hf x Ef).
    + destruct (first_best _ (strs_of l)); reflexivity.
    + (* reverse *) eapply J_perm; [apply Permutation_sym, Permutation_rev | exact H1].
    + (* sort, numbers *)
      apply J_arr. apply Forall_forall. intros x Hx. apply in_map_iff in Hx as [n0 [<- Hn]].
      pose proof (nums_of_finite l H1) as Hf. rewrite Forall_forall in Hf. apply Hf.
      eapply Permutation_in; [apply stable_sort_perm | exact Hn].
    + apply J_arr. apply Forall_forall. intros x Hx. apply in_map_iff in Hx as [s0 [<- _]]. reflexivity.
    + (* keys *) apply J_arr. apply Forall_forall. intros x Hx. apply in_map_iff in Hx as [kv [<- _]]. reflexivity.
    + (* values *) apply J_ord_values. exact H1.
  - (* two arguments *)
    inversion Hall as [|? ? H1 Hall2]; subst. inversion Hall2 as [|? ? H2 _]; subst.
    destruct a1 as [v|g]; destruct a2 as [w|h]; try apply RJ_err.
    + rj; reflexivity.
    + (* array, &expr: the by-functions *)
      destruct v; try apply RJ_err. cbn [sarg_J] in H1, H2.
      assert (Hk : forall ks, by_keys h l = Ok ks ->
                   match ks with KNum ks => map snd ks = l | KStr ks => map snd ks = l end) by (apply by_keys_snd).
      rj.
      * (* sort_by *)
        intros r Hr. destruct (by_keys h l) as [ks| | |] eqn:Ek; cbn [bind] in Hr; try discriminate.
        specialize (Hk ks eq_refl). destruct ks as [ks|ks]; inversion Hr; subst.
        -- eapply J_perm; [apply Permutation_map; apply stable_sort_perm | exact H1].
        -- eapply J_perm; [apply Permutation_map; apply stable_sort_perm | exact H1].
      * (* max_by *)
        intros r Hr. destruct (by_keys h l) as [ks| | |] eqn:Ek; cbn [bind] in Hr; try discriminate.
        specialize (Hk ks eq_refl). destruct ks as [ks|ks]; inversion Hr; subst.
        -- destruct (first_best _ ks) as [p|] eqn:Ef; [|reflexivity]. apply first_best_in in Ef. eapply J_arr_in; [exact H1 | apply in_map; exact Ef].
        -- destruct (first_best _ ks) as [p|] eqn:Ef; [|reflexivity]. apply first_best_in in Ef. eapply J_arr_in; [exact H1 | apply in_map; exact Ef].
      * (* min_by *)
        intros r Hr. destruct (by_keys h l) as [ks| | |] eqn:Ek; cbn [bind] in Hr; try discriminate.
        specialize (Hk ks eq_refl). destruct ks as [ks|ks]; inversion Hr; subst.
        -- destruct (first_best _ ks) as [p|] eqn:Ef; [|reflexivity]. apply first_best_in in Ef. eapply J_arr_in; [exact H1 | apply in_map; exact Ef].
        -- destruct (first_best _ ks) as [p|] eqn:Ef; [|reflexivity]. apply first_best_in in Ef. eapply J_arr_in; [exact H1 | apply in_map; exact Ef].
    + (* &expr, array: map *)
      destruct w; try apply RJ_err. cbn [sarg_J] in H1, H2. rj.
      intros r Hr. destruct (mapM g l) as [ys| | |] eqn:Em; cbn [bind] in Hr; try discriminate. inversion Hr; subst.
      eapply mapM_J; [|exact Em]. intros x y Hx Hy. eapply H1; [eapply J_arr_in; eauto | exact Hy].
  - destruct a1 as [v|g]; [destruct v|]; try apply RJ_err;
      destruct a2 as [w|h]; try apply RJ_err; try (destruct w; apply RJ_err).
    all: try (destruct v; apply RJ_err).
Qed.


(* literals are JSON data *)
Fixpoint lits_json (e : expr) : bool :=
  let ook (l : option expr) := match l with Some x => lits_json x | None => true end in
  let rok (r : rhs) := match r with RNone => true | RDot x => lits_json x | RBrk x => lits_json x end in
  match e with
  | ELit v => jw v
  | EParen x => lits_json x
  | EMSList es => forallb lits_json es
  | EMSHash kvs => forallb (fun kv : bool * bytes * expr => lits_json (snd kv)) kvs
  | ECall _ args => forallb (fun a => match a with AExpr x => lits_json x | ARef x => lits_json x end) args
  | ENot x => lits_json x
  | EIndex l _ => ook l
  | ESlice l _ _ _ r => ook l && rok r
  | EListProj l r => ook l && rok r
  | EFlatten l r => ook l && rok r
  | EFilter l c r => ook l && lits_json c && rok r
  | EValProj l r => ook l && rok r
  | ESub l r | EPipe l r | EOr l r | EAnd l r | ECmp _ l r => lits_json l && lits_json r
  | _ => true
  end.

Lemma RJ_bind (x : outcome value) (f : value -> outcome value) :
  RJ x -> (forall a, J a -> RJ (f a)) -> RJ (bind x f).
Proof. intros Hx Hf. destruct x as [a| | |]; cbn; try (intros w E; discriminate). apply Hf. apply Hx. reflexivity. Qed.

Lemma RJ_project (g : value -> outcome value) xs :
  (forall x, J x -> RJ (g x)) -> J (VArr xs) -> RJ (ys <- mapM g xs ;; Ok (VArr (drop_nulls ys))).
Proof.
  intros Hg Hxs r Hr. destruct (mapM g xs) as [ys| | |] eqn:Em; cbn in Hr; try discriminate. inversion Hr; subst.
  apply J_filter. eapply mapM_J; [|exact Em]. intros x y Hx Hy. eapply Hg; [eapply J_arr_in; eauto | exact Hy].
Qed.

Theorem eval_J : forall e, lits_json e = true -> forall v, J v -> RJ (eval ord e v).
Proof.
  apply (expr_size_ind (fun e => lits_json e = true -> forall v, J v -> RJ (eval ord e v))).
  intros e IH Hl v Hv.
  assert (IHl : forall l, (osize l < esize e)%nat \/ l = None ->
                          match l with Some x => lits_json x | None => true end = true -> RJ (lhs_eval ord l v)).
  { intros [x|] H Hx; cbn; [apply IH; [destruct H as [H|H]; [exact H | discriminate] | exact Hx | exact Hv] | apply RJ_ok; exact Hv]. }
  assert (IHr : forall r, (rsize r < esize e)%nat \/ r = RNone ->
                          match r with RNone => true | RDot x => lits_json x | RBrk x => lits_json x end = true ->
                          forall el, J el -> RJ (rhs_eval ord r el)).
  { intros [|x|x] H Hx el Hel; cbn; [apply RJ_ok; exact Hel | |];
      (apply IH; [destruct H as [H|H]; [exact H | discriminate] | exact Hx | exact Hel]). }
  destruct e as [q name | | lv | s | x | es | kvs | fname args | x | l i | l a b c r | l r | l r | l c r | l r
                 | l r | l r | l r | l r | op l r]; cbn [lits_json] in Hl.
  - cbn. apply RJ_ok. destruct v; try reflexivity. destruct (obj_get name m) eqn:E; [eapply J_obj_get; eauto | reflexivity].
  - cbn. apply RJ_ok. exact Hv.
  - cbn. apply RJ_ok. exact Hl.
  - cbn. apply RJ_ok. reflexivity.
  - change (eval ord (EParen x) v) with (eval ord x v). apply IH; [cbn; lia | exact Hl | exact Hv].
  - rewrite eval_mslist. rewrite forallb_forall in Hl. destruct v; try (apply RJ_ok; reflexivity); try discriminate Hv;
    (intros w0 Hr; match type of Hr with bind ?G _ = _ => destruct G as [ys| | |] eqn:Em end; cbn in Hr; try discriminate;
      inversion Hr; subst; eapply mapM_J; [|exact Em]; intros x y Hx Hy;
      eapply (IH x); [pose proof (esize_in_list x es Hx); cbn; lia | auto | exact Hv | exact Hy]).
  - rewrite eval_mshash. rewrite forallb_forall in Hl. destruct v; try (apply RJ_ok; reflexivity); try discriminate Hv;
    (intros w0 Hr; match type of Hr with bind ?G _ = _ => destruct G as [ys| | |] eqn:Em end; cbn in Hr; try discriminate;
      inversion Hr; subst; apply J_fold_obj_set; [|reflexivity];
      eapply mapM_ok_forall; [|exact Em]; intros kv y Hkv Hy; cbn in Hy;
      destruct (eval ord (snd kv) _) as [z| | |] eqn:Ez; cbn in Hy; try discriminate; inversion Hy; subst; cbn;
      eapply (IH (snd kv)); [pose proof (esize_in_kvs kv kvs Hkv); cbn; lia | auto | exact Hv | exact Ez]).
  - rewrite eval_call. rewrite forallb_forall in Hl. intros r Hr.
    destruct (mapM (eval_arg ord v) args) as [xs| | |] eqn:Em; cbn [bind] in Hr; try discriminate.
    unfold spec_call in Hr. destruct (well_typed fname xs); [|discriminate].
    eapply apply_function_J; [|exact Hr].
    eapply mapM_ok_forall; [|exact Em]. intros a sa Ha Hsa. pose proof (esize_in_args a args Ha) as Hs.
    specialize (Hl a Ha). destruct a as [x|x]; cbn [eval_arg] in Hsa.
    + destruct (eval ord x v) as [y| | |] eqn:Ey; cbn in Hsa; try discriminate. inversion Hsa; subst. cbn.
      eapply (IH x); [cbn in *; lia | exact Hl | exact Hv | exact Ey].
    + inversion Hsa; subst. cbn. intros y r0 Hy Hr0. eapply (IH x); [cbn in *; lia | exact Hl | exact Hy | exact Hr0].
  - change (eval ord (ENot x) v) with (y <- eval ord x v ;; Ok (VBool (falsy y))).
    apply RJ_bind; [apply IH; [cbn; lia | exact Hl | exact Hv] | intros a _; apply RJ_ok; reflexivity].
  - change (eval ord (EIndex l i) v)
      with (x <- lhs_eval ord l v ;;
            match x with
            | VArr xs => if two63 <=? zlen xs then OutOfFuel else Ok (index_list xs i)
            | _ => Ok VNull
            end).
    apply RJ_bind; [apply IHl; [destruct l; [left; cbn; lia | right; reflexivity] | exact Hl]|].
    intros a Ha. destruct a; try (apply RJ_ok; reflexivity). destruct (two63 <=? zlen l0); [intros w E; discriminate|].
    apply RJ_ok. unfold index_list. destruct (_ && _); [apply J_nth; exact Ha | reflexivity].
  - apply andb_true_iff in Hl as [Hl1 Hl2].
    change (eval ord (ESlice l a b c r) v)
      with (x <- lhs_eval ord l v ;;
            match x with
            | VArr xs =>
              if two63 <=? zlen xs then OutOfFuel else
              match py_slice xs a b (cjoin c) with
              | Some ys => ys0 <- mapM (rhs_eval ord r) ys ;; Ok (VArr (drop_nulls ys0))
              | None => Err EEval
              end
            | _ => Ok VNull
            end).
    apply RJ_bind; [apply IHl; [destruct l; [left; cbn; lia | right; reflexivity] | exact Hl1]|].
    intros x Hx. destruct x; try (apply RJ_ok; reflexivity). destruct (two63 <=? zlen l0); [intros w E; discriminate|].
    destruct (py_slice l0 a b (cjoin c)) as [ys|] eqn:Ep; [|apply RJ_err].
    apply RJ_project; [apply IHr; [destruct r; [right; reflexivity | left; cbn; lia | left; cbn; lia] | exact Hl2]|].
    unfold py_slice in Ep. destruct (py_indices (zlen l0) a b (cjoin c)); inversion Ep. apply J_pick_idx. exact Hx.
  - apply andb_true_iff in Hl as [Hl1 Hl2].
    change (eval ord (EListProj l r) v)
      with (x <- lhs_eval ord l v ;;
            match x with
            | VArr xs => ys0 <- mapM (rhs_eval ord r) xs ;; Ok (VArr (drop_nulls ys0))
            | _ => Ok VNull
            end).
    apply RJ_bind; [apply IHl; [destruct l; [left; cbn; lia | right; reflexivity] | exact Hl1]|].
    intros x Hx. destruct x; try (apply RJ_ok; reflexivity).
    apply RJ_project; [apply IHr; [destruct r; [right; reflexivity | left; cbn; lia | left; cbn; lia] | exact Hl2] | exact Hx].
  - apply andb_true_iff in Hl as [Hl1 Hl2].
    change (eval ord (EFlatten l r) v)
      with (x <- lhs_eval ord l v ;;
            match x with
            | VArr xs => ys0 <- mapM (rhs_eval ord r) (flatten1 xs) ;; Ok (VArr (drop_nulls ys0))
            | _ => Ok VNull
            end).
    apply RJ_bind; [apply IHl; [destruct l; [left; cbn; lia | right; reflexivity] | exact Hl1]|].
    intros x Hx. destruct x; try (apply RJ_ok; reflexivity).
    apply RJ_project; [apply IHr; [destruct r; [right; reflexivity | left; cbn; lia | left; cbn; lia] | exact Hl2]
                      | apply J_flatten1; exact Hx].
  - apply andb_true_iff in Hl as [Hl12 Hl3]. apply andb_true_iff in Hl12 as [Hl1 Hl2].
    change (eval ord (EFilter l c r) v)
      with (x <- lhs_eval ord l v ;;
            match x with
            | VArr xs => ys <- mapM (fun el => t <- eval ord c el ;; if truthy t then rhs_eval ord r el else Ok VNull) xs ;;
                         Ok (VArr (drop_nulls ys))
            | _ => Ok VNull
            end).
    apply RJ_bind; [apply IHl; [destruct l; [left; cbn; lia | right; reflexivity] | exact Hl1]|].
    intros x Hx. destruct x; try (apply RJ_ok; reflexivity).
    apply RJ_project; [|exact Hx]. intros el Hel.
    apply RJ_bind; [apply IH; [cbn; destruct l; cbn; lia | exact Hl2 | exact Hel]|].
    intros t _. destruct (truthy t); [|apply RJ_ok; reflexivity].
    apply IHr; [destruct r; [right; reflexivity | left; cbn; lia | left; cbn; lia] | exact Hl3 | exact Hel].
  - apply andb_true_iff in Hl as [Hl1 Hl2].
    change (eval ord (EValProj l r) v)
      with (x <- lhs_eval ord l v ;;
            match x with
            | VObj m => ys0 <- mapM (rhs_eval ord r) (map snd (ord m)) ;; Ok (VArr (drop_nulls ys0))
            | _ => Ok VNull
            end).
    apply RJ_bind; [apply IHl; [destruct l; [left; cbn; lia | right; reflexivity] | exact Hl1]|].
    intros x Hx. destruct x; try (apply RJ_ok; reflexivity).
    apply RJ_project; [apply IHr; [destruct r; [right; reflexivity | left; cbn; lia | left; cbn; lia] | exact Hl2]
                      | apply J_ord_values; exact Hx].
  - apply andb_true_iff in Hl as [Hl1 Hl2]. change (eval ord (ESub l r) v) with (x <- eval ord l v ;; eval ord r x).
    apply RJ_bind; [apply IH; [cbn; lia | exact Hl1 | exact Hv] | intros x Hx; apply IH; [cbn; lia | exact Hl2 | exact Hx]].
  - apply andb_true_iff in Hl as [Hl1 Hl2]. change (eval ord (EPipe l r) v) with (x <- eval ord l v ;; eval ord r x).
    apply RJ_bind; [apply IH; [cbn; lia | exact Hl1 | exact Hv] | intros x Hx; apply IH; [cbn; lia | exact Hl2 | exact Hx]].
  - apply andb_true_iff in Hl as [Hl1 Hl2].
    change (eval ord (EOr l r) v) with (x <- eval ord l v ;; if truthy x then Ok x else eval ord r v).
    apply RJ_bind; [apply IH; [cbn; lia | exact Hl1 | exact Hv]|].
    intros x Hx. destruct (truthy x); [apply RJ_ok; exact Hx | apply IH; [cbn; lia | exact Hl2 | exact Hv]].
  - apply andb_true_iff in Hl as [Hl1 Hl2].
    change (eval ord (EAnd l r) v) with (x <- eval ord l v ;; if truthy x then eval ord r v else Ok x).
    apply RJ_bind; [apply IH; [cbn; lia | exact Hl1 | exact Hv]|].
    intros x Hx. destruct (truthy x); [apply IH; [cbn; lia | exact Hl2 | exact Hv] | apply RJ_ok; exact Hx].
  - apply andb_true_iff in Hl as [Hl1 Hl2]. cbn [eval].
    apply RJ_bind; [apply IH; [cbn; lia | exact Hl1 | exact Hv]|]. intros x _.
    apply RJ_bind; [apply IH; [cbn; lia | exact Hl2 | exact Hv]|]. intros y _.
    destruct op; try (apply RJ_ok; reflexivity); destruct x; try (apply RJ_ok; reflexivity); destruct y; apply RJ_ok; reflexivity.
Qed.

End WithNum.

(* ---- instances of the predicate, and the API-level statements ---- *)
Section Corollaries.
Context {NumO : NumOps}.
Variable ord : obj -> obj.
Hypothesis ord_perm : forall m, Permutation (ord m) m.

Lemma jw_mono (P Q : num -> bool) : (forall n, P n = true -> Q n = true) ->
  forall v, jw P v = true -> jw Q v = true.
Proof.
  intros HPQ. fix IH 1. intros [ | b | n | s | l | m | r] H; cbn in *; try reflexivity; try discriminate.
  - apply HPQ. exact H.
  - induction l as [|x l IHl]; cbn in *; [reflexivity|].
    apply andb_true_iff in H as [H1 H2]. rewrite (IH x H1), (IHl H2). reflexivity.
  - apply andb_true_iff in H as [H Hs]. rewrite Hs, andb_true_r.
    clear Hs. induction m as [|[k x] m IHm]; cbn in *; [reflexivity|].
    apply andb_true_iff in H as [H1 H2]. rewrite (IH x H1), (IHm H2). reflexivity.
Qed.

Lemma jw_is_json : forall v, jw num_finite v = is_json v.
Proof.
  intros [ | b | n | s | l | m | r]; reflexivity.
Qed.

(* shape only: no expression reference anywhere, every object well-formed *)
Definition json_shape (v : value) : bool := jw (fun _ => true) v.

Lemma is_json_shape v : is_json v = true -> json_shape v = true.
Proof. rewrite <- jw_is_json. apply jw_mono. reflexivity. Qed.

Lemma shape_closed : NumClosed (fun _ => true).
Proof. constructor; reflexivity. Qed.

Lemma sem_ok_lits (P : num -> bool) : (forall n, num_finite n = true -> P n = true) ->
  forall e, sem_ok e = true -> lits_json P e = true.
Proof.
  intros HP. apply (expr_size_ind (fun e => sem_ok e = true -> lits_json P e = true)). intros e IH H.
  assert (Ho : forall l, (osize l < esize e)%nat \/ l = None ->
                         match l with Some x => sem_ok x | None => true end = true ->
                         match l with Some x => lits_json P x | None => true end = true).
  { intros [x|] Hs Hx; [apply IH; [destruct Hs as [Hs|Hs]; [exact Hs | discriminate] | exact Hx] | reflexivity]. }
  assert (Hr : forall r, (rsize r < esize e)%nat \/ r = RNone ->
                         match r with RNone => true | RDot x => sem_ok x | RBrk x => sem_ok x end = true ->
                         match r with RNone => true | RDot x => lits_json P x | RBrk x => lits_json P x end = true).
  { intros [|x|x] Hs Hx; [reflexivity | |]; (apply IH; [destruct Hs as [Hs|Hs]; [exact Hs | discriminate] | exact Hx]). }
  destruct e as [q name | | lv | s | x | es | kvs | fname args | x | l i | l a b c r | l r | l r | l c r | l r
                 | l r | l r | l r | l r | op l r]; cbn [sem_ok lits_json] in *; try reflexivity.
  - rewrite <- jw_is_json in H. eapply jw_mono; [|exact H]. exact HP.
  - apply IH; [cbn; lia | exact H].
  - rewrite forallb_forall in *. intros x Hx. apply IH; [pose proof (esize_in_list x es Hx); cbn; lia | auto].
  - rewrite forallb_forall in *. intros kv Hkv. apply IH; [pose proof (esize_in_kvs kv kvs Hkv); cbn; lia | auto].
  - rewrite forallb_forall in *. intros a Ha. pose proof (esize_in_args a args Ha) as Hs. specialize (H a Ha).
    destruct a as [x|x]; (apply IH; [cbn in *; lia | exact H]).
  - apply IH; [cbn; lia | exact H].
  - apply andb_true_iff in H as [H _]. apply Ho; [destruct l; [left; cbn; lia | right; reflexivity] | exact H].
  - repeat (apply andb_true_iff in H as [H ?]). apply andb_true_iff. split.
    + apply Ho; [destruct l; [left; cbn; lia | right; reflexivity] | exact H].
    + apply Hr; [destruct r; [right; reflexivity | left; cbn; lia | left; cbn; lia] | assumption].
  - apply andb_true_iff in H as [H1 H2]. apply andb_true_iff. split.
    + apply Ho; [destruct l; [left; cbn; lia | right; reflexivity] | exact H1].
    + apply Hr; [destruct r; [right; reflexivity | left; cbn; lia | left; cbn; lia] | exact H2].
  - apply andb_true_iff in H as [H1 H2]. apply andb_true_iff. split.
    + apply Ho; [destruct l; [left; cbn; lia | right; reflexivity] | exact H1].
    + apply Hr; [destruct r; [right; reflexivity | left; cbn; lia | left; cbn; lia] | exact H2].
  - apply andb_true_iff in H as [H12 H3]. apply andb_true_iff in H12 as [H1 H2].
    apply andb_true_iff. split; [apply andb_true_iff; split|].
    + apply Ho; [destruct l; [left; cbn; lia | right; reflexivity] | exact H1].
    + apply IH; [cbn; destruct l; cbn; lia | exact H2].
    + apply Hr; [destruct r; [right; reflexivity | left; cbn; lia | left; cbn; lia] | exact H3].
  - apply andb_true_iff in H as [H1 H2]. apply andb_true_iff. split.
    + apply Ho; [destruct l; [left; cbn; lia | right; reflexivity] | exact H1].
    + apply Hr; [destruct r; [right; reflexivity | left; cbn; lia | left; cbn; lia] | exact H2].
  - apply andb_true_iff in H as [H1 H2]. rewrite !IH; [reflexivity | cbn; lia | exact H2 | cbn; lia | exact H1].
  - apply andb_true_iff in H as [H1 H2]. rewrite !IH; [reflexivity | cbn; lia | exact H2 | cbn; lia | exact H1].
  - apply andb_true_iff in H as [H1 H2]. rewrite !IH; [reflexivity | cbn; lia | exact H2 | cbn; lia | exact H1].
  - apply andb_true_iff in H as [H1 H2]. rewrite !IH; [reflexivity | cbn; lia | exact H2 | cbn; lia | exact H1].
  - apply andb_true_iff in H as [H1 H2]. rewrite !IH; [reflexivity | cbn; lia | exact H2 | cbn; lia | exact H1].
Qed.

(* the no-overflow proviso of the property, for the number type of the model *)
Definition NoOverflow : Prop := NumClosed num_finite.

(* specification level: JSON in, JSON out *)
Theorem eval_json e d r :
  NoOverflow -> sem_ok e = true -> is_json d = true -> eval ord e d = Ok r -> is_json r = true.
Proof.
  intros Hn He Hd Hr. rewrite <- jw_is_json in *.
  eapply (eval_J ord ord_perm num_finite Hn e); [apply sem_ok_lits; [exact (nc_fin _ Hn) | exact He] | exact Hd | exact Hr].
Qed.

(* ... and without any proviso, everything except the finiteness of numbers *)
Theorem eval_shape e d r :
  sem_ok e = true -> json_shape d = true -> eval ord e d = Ok r -> json_shape r = true.
Proof.
  intros He Hd Hr.
  eapply (eval_J ord ord_perm (fun _ => true) shape_closed e); [apply sem_ok_lits; [reflexivity | exact He] | exact Hd | exact Hr].
Qed.

Lemma shape_plain v : json_shape v = true -> plain v = true.
Proof.
  revert v. fix IH 1. intros [ | b | n | s | l | m | r] H; cbn in *; try reflexivity; try discriminate.
  - induction l as [|x l IHl]; cbn in *; [reflexivity|].
    apply andb_true_iff in H as [H1 H2]. rewrite (IH x H1), (IHl H2). reflexivity.
  - apply andb_true_iff in H as [H _].
    induction m as [|[k x] m IHm]; cbn in *; [reflexivity|].
    apply andb_true_iff in H as [H1 H2]. rewrite (IH x H1), (IHm H2). reflexivity.
Qed.

(* API level: Search(expression text, data) of the model of the library *)
Theorem search_json (e : bytes) d r :
  NoOverflow -> is_json d = true -> search ord e d = Ok r -> is_json r = true.
Proof.
  intros Hn Hd H. rewrite search_is_compile_then_search in H.
  destruct (Api.compile e) as [n|er| |] eqn:Ec; cbn [bind] in H; try discriminate.
  destruct (compiled_is_tree ord ord_perm e n Ec) as [x [-> [Hx Hs]]].
  rewrite (Hs d (is_json_plain d Hd)) in H. eapply eval_json; eauto.
Qed.

Theorem search_shape (e : bytes) d r :
  json_shape d = true -> search ord e d = Ok r -> json_shape r = true.
Proof.
  intros Hd H. rewrite search_is_compile_then_search in H.
  destruct (Api.compile e) as [n|er| |] eqn:Ec; cbn [bind] in H; try discriminate.
  destruct (compiled_is_tree ord ord_perm e n Ec) as [x [-> [Hx Hs]]].
  rewrite (Hs d (shape_plain d Hd)) in H. eapply eval_shape; eauto.
Qed.

(* a JSON value can always be serialised *)
Lemma marshal_total : forall v, is_json v = true -> exists s, json_marshal v = Some s.
Proof.
  fix IH 1. intros [ | [|] | n | s | l | m | r] H; cbn [json_marshal]; try (eexists; reflexivity).
  - cbn in H. rewrite H. eexists; reflexivity.
  - assert (G : exists parts, (fix go (l : list value) : option (list bytes) :=
             match l with
             | [] => Some []
             | x :: r => match json_marshal x, go r with
                         | Some a, Some b => Some (a :: b)
                         | _, _ => None end
             end) l = Some parts).
    { cbn in H. induction l as [|x l IHl]; [eexists; reflexivity|]. cbn in H. apply andb_true_iff in H as [H1 H2].
      destruct (IH x H1) as [a ->]. destruct (IHl H2) as [b ->]. eexists; reflexivity. }
    destruct G as [parts ->]. eexists; reflexivity.
  - assert (G : exists parts, (fix go (m : obj) : option (list bytes) :=
             match m with
             | [] => Some []
             | (k, x) :: r => match json_marshal x, go r with
                              | Some a, Some b => Some ((marshal_string k ++ 58%N :: a) :: b)
                              | _, _ => None end
             end) m = Some parts).
    { cbn in H. apply andb_true_iff in H as [H _]. induction m as [|[k x] m IHm]; [eexists; reflexivity|]. cbn in H.
      apply andb_true_iff in H as [H1 H2].
      destruct (IH x H1) as [a ->]. destruct (IHm H2) as [b ->]. eexists; reflexivity. }
    destruct G as [parts ->]. eexists; reflexivity.
Qed.

End Corollaries.

(* TablesOk.v — the tables that tools/extract_tables regenerates from
   lexer.go / parser.go / functions.go on every run satisfy what the proofs
   need of them: the Pratt binding powers realise the specification's precedence
   levels, every parse call site passes the level of its construct, the
   projection stop constant, the token and AST enumerations, the character
   tables and identifier bit masks, the function signatures. *)
From JM Require Import Model.Base Model.Num Model.Value Model.Lexer Model.Functions.
From JM Require Import Spec.Grammar Spec.Semantics Proofs.FunFacts.
From JM Require Import gen.Tables.
From Coq Require Import ZifyBool.

(* the specification's level of the operator a token starts; 0 for tokens that
   never continue an expression *)
Definition spec_level (t : tokType) : Z :=
  match t with
  | tPipe => lvl_pipe
  | tOr => lvl_or
  | tAnd => lvl_and
  | tEQ | tNE | tLT | tLTE | tGT | tGTE => lvl_cmp
  | tFlatten => lvl_flatten
  | tStar => lvl_star
  | tFilter => lvl_filter
  | tDot => lvl_dot
  | tNot => lvl_not
  | tLbrace => lvl_brace
  | tLbracket => lvl_bracket
  | tLparen => lvl_call
  | _ => 0
  end.

Lemma binding_power_is_spec_level : forall t, binding_power t = spec_level t.
Proof. destruct t; reflexivity. Qed.

Lemma projection_stop_ok : projection_stop = lvl_proj_stop.
Proof. reflexivity. Qed.

(* every call site passes the level of the construct it parses *)
Definition call_sites_ok : Prop :=
  site_Parse_parseExpression = BPLit 0 /\
  site_parseExpression_continueExpression = BPParam /\
  site_led_tDot_parseDotRHS = BPTok tDot /\
  site_led_tDot_parseProjectionRHS = BPTok tStar /\
  site_led_tPipe_parseExpression = BPTok tPipe /\
  site_led_tOr_parseExpression = BPTok tOr /\
  site_led_tAnd_parseExpression = BPTok tAnd /\
  site_led_tFlatten_parseProjectionRHS = BPTok tFlatten /\
  site_led_tEQ_tNE_tGT_tGTE_tLT_tLTE_parseExpression = BPArgTok /\
  site_led_tLbracket_parseProjectionRHS = BPTok tStar /\
  site_nud_tStar_parseProjectionRHS = BPTok tStar /\
  site_nud_tFlatten_parseProjectionRHS = BPTok tFlatten /\
  site_nud_tLbracket_parseProjectionRHS = BPTok tStar /\
  site_nud_tNot_parseExpression = BPTok tNot /\
  site_nud_tLparen_parseExpression = BPLit 0 /\
  site_parseFunctionArg_parseExpression = BPLit 0 /\
  site_parseFunctionArg_parseExpression2 = BPTok tExpref /\
  site_parseMultiSelectList_parseExpression = BPLit 0 /\
  site_parseMultiSelectHash_parseExpression = BPLit 0 /\
  site_projectIfSlice_parseProjectionRHS = BPTok tStar /\
  site_parseFilter_parseExpression = BPLit 0 /\
  site_parseFilter_parseProjectionRHS = BPTok tFilter /\
  site_parseDotRHS_parseExpression = BPParam /\
  site_parseDotRHS_continueExpression = BPParam /\
  site_parseDotRHS_continueExpression2 = BPParam /\
  site_parseProjectionRHS_parseExpression = BPParam /\
  site_parseProjectionRHS_parseExpression2 = BPParam /\
  site_parseProjectionRHS_parseDotRHS = BPParam.

Lemma call_sites_are_ok : call_sites_ok.
Proof. unfold call_sites_ok. repeat split; reflexivity. Qed.

(* the enumerations of the source are the constructors of the model, in order *)
Definition tok_name (t : tokType) : bytes :=
  match t with
  | tUnknown => str "tUnknown" | tStar => str "tStar" | tDot => str "tDot" | tFilter => str "tFilter"
  | tFlatten => str "tFlatten" | tLparen => str "tLparen" | tRparen => str "tRparen"
  | tLbracket => str "tLbracket" | tRbracket => str "tRbracket" | tLbrace => str "tLbrace"
  | tRbrace => str "tRbrace" | tOr => str "tOr" | tPipe => str "tPipe" | tNumber => str "tNumber"
  | tUnquotedIdentifier => str "tUnquotedIdentifier" | tQuotedIdentifier => str "tQuotedIdentifier"
  | tComma => str "tComma" | tColon => str "tColon" | tLT => str "tLT" | tLTE => str "tLTE"
  | tGT => str "tGT" | tGTE => str "tGTE" | tEQ => str "tEQ" | tNE => str "tNE"
  | tJSONLiteral => str "tJSONLiteral" | tStringLiteral => str "tStringLiteral"
  | tCurrent => str "tCurrent" | tExpref => str "tExpref" | tAnd => str "tAnd" | tNot => str "tNot"
  | tEOF => str "tEOF"
  end.
Definition ast_name (t : astNodeType) : bytes :=
  match t with
  | ASTEmpty => str "ASTEmpty" | ASTComparator => str "ASTComparator" | ASTCurrentNode => str "ASTCurrentNode"
  | ASTExpRef => str "ASTExpRef" | ASTFunctionExpression => str "ASTFunctionExpression" | ASTField => str "ASTField"
  | ASTFilterProjection => str "ASTFilterProjection" | ASTFlatten => str "ASTFlatten" | ASTIdentity => str "ASTIdentity"
  | ASTIndex => str "ASTIndex" | ASTIndexExpression => str "ASTIndexExpression" | ASTKeyValPair => str "ASTKeyValPair"
  | ASTLiteral => str "ASTLiteral" | ASTMultiSelectHash => str "ASTMultiSelectHash"
  | ASTMultiSelectList => str "ASTMultiSelectList" | ASTOrExpression => str "ASTOrExpression"
  | ASTAndExpression => str "ASTAndExpression" | ASTNotExpression => str "ASTNotExpression" | ASTPipe => str "ASTPipe"
  | ASTProjection => str "ASTProjection" | ASTSubexpression => str "ASTSubexpression" | ASTSlice => str "ASTSlice"
  | ASTValueProjection => str "ASTValueProjection"
  end.

Lemma enumerations_ok : tok_names = map tok_name all_tokTypes /\ ast_names = map ast_name all_astTypes.
Proof. split; reflexivity. Qed.

(* single-character tokens and whitespace *)
Lemma basic_tokens_ok :
  forall r, assoc_Z r basic_tokens =
            if r =? 46 then Some tDot else if r =? 42 then Some tStar else if r =? 44 then Some tComma
            else if r =? 58 then Some tColon else if r =? 123 then Some tLbrace else if r =? 125 then Some tRbrace
            else if r =? 93 then Some tRbracket else if r =? 40 then Some tLparen else if r =? 41 then Some tRparen
            else if r =? 64 then Some tCurrent else None.
Proof.
  intros r. unfold basic_tokens. cbn [assoc_Z].
  repeat match goal with |- context [if ?c then _ else _] => destruct c eqn:?; try lia; try reflexivity end.
Qed.

Lemma white_space_ok : forall r, is_white r = ((r =? 32) || (r =? 9) || (r =? 10) || (r =? 13)).
Proof.
  intros r. unfold is_white, white_space. cbn [existsb].
  repeat match goal with |- context [?a =? ?b] => destruct (Z.eqb_spec a b) end; subst; try reflexivity; lia.
Qed.

(* identifier characters: the bit masks and their guards denote [A-Za-z_] and [A-Za-z0-9_] *)
Definition is_alpha_Z (r : Z) : bool := ((65 <=? r) && (r <=? 90)) || ((97 <=? r) && (r <=? 122)) || (r =? 95).
Definition is_alnum_Z (r : Z) : bool := is_alpha_Z r || ((48 <=? r) && (r <=? 57)).

Lemma ident_start_window :
  forallb (fun k => Bool.eqb (ident_start (Z.of_nat k - 1)) (is_alpha_Z (Z.of_nat k - 1))) (seq 0 258) = true.
Proof. vm_compute. reflexivity. Qed.

Lemma ident_start_ok : forall r, -1 <= r <= 1114111 -> ident_start r = is_alpha_Z r.
Proof.
  intros r Hr. destruct (Z_lt_ge_dec r 257) as [Hlt|Hge].
  - pose proof ident_start_window as Hw. rewrite forallb_forall in Hw.
    specialize (Hw (Z.to_nat (r + 1))). rewrite Z2Nat.id in Hw by lia.
    replace (r + 1 - 1) with r in Hw by lia. apply Bool.eqb_prop. apply Hw. apply in_seq. lia.
  - (* a shift count of 64 or more gives 0 *)
    unfold ident_start, is_alpha_Z, u64, shl1, two64.
    rewrite (Z.mod_small r) by lia. rewrite Z.mod_small by lia.
    destruct (r - 64 <? 64) eqn:E; [lia|]. rewrite Z.land_0_r. cbn.
    destruct (65 <=? r) eqn:E1, (r <=? 90) eqn:E2, (97 <=? r) eqn:E3, (r <=? 122) eqn:E4, (r =? 95) eqn:E5; try reflexivity; lia.
Qed.

Definition trailing_stop_spec (r : Z) : bool := negb (is_alnum_Z r).

Lemma ident_trailing_window :
  forallb (fun k => match ident_trailing_stop (Z.of_nat k - 1) with
                    | Ok b => Bool.eqb b (trailing_stop_spec (Z.of_nat k - 1))
                    | _ => false
                    end) (seq 0 258) = true.
Proof. vm_compute. reflexivity. Qed.

(* in particular the table lookup never leaves the two-word mask: no panic *)
Lemma ident_trailing_ok : forall r, -1 <= r <= 1114111 -> ident_trailing_stop r = Ok (trailing_stop_spec r).
Proof.
  intros r Hr. destruct (Z_lt_ge_dec r 257) as [Hlt|Hge].
  - pose proof ident_trailing_window as Hw. rewrite forallb_forall in Hw.
    specialize (Hw (Z.to_nat (r + 1))). rewrite Z2Nat.id in Hw by lia.
    replace (r + 1 - 1) with r in Hw by lia.
    assert (Hin : In (Z.to_nat (r + 1)) (seq 0 258)) by (apply in_seq; lia).
    specialize (Hw Hin). destruct (ident_trailing_stop r); try discriminate.
    f_equal. apply Bool.eqb_prop. exact Hw.
  - unfold ident_trailing_stop, trailing_guard_lo, trailing_guard_hi.
    destruct (r <? 0) eqn:E0; [lia|]. destruct (128 <=? r) eqn:E1; [|lia]. cbn.
    f_equal. unfold trailing_stop_spec, is_alnum_Z, is_alpha_Z.
    destruct (65 <=? r) eqn:A1, (r <=? 90) eqn:A2, (97 <=? r) eqn:A3, (r <=? 122) eqn:A4, (r =? 95) eqn:A5,
             (48 <=? r) eqn:A6, (r <=? 57) eqn:A7; try reflexivity; lia.
Qed.

Scheme Equality for stype.
Fixpoint list_beq {A} (eq : A -> A -> bool) (a b : list A) : bool :=
  match a, b with
  | [], [] => true
  | x :: a', y :: b' => eq x y && list_beq eq a' b'
  | _, _ => false
  end.

(* the function table agrees with the specification's signatures, name by name *)
Lemma function_table_signatures :
  forallb (fun e => match assoc_bytes (fe_key e) (@spec_signatures) with
                    | Some sg =>
                      let s := sig_of e in
                      list_beq (list_beq stype_beq) (sig_params s) (sig_params sg) &&
                      match sig_rest s, sig_rest sg with
                      | None, None => true
                      | Some a, Some b => list_beq stype_beq a b
                      | _, _ => false
                      end
                    | None => false
                    end) function_table = true.
Proof. vm_compute. reflexivity. Qed.

Lemma levels_ordered :
  0 < lvl_pipe < lvl_or /\ lvl_or < lvl_and /\ lvl_and < lvl_cmp /\ lvl_cmp < lvl_flatten /\
  lvl_flatten < lvl_proj_stop /\ lvl_proj_stop <= lvl_star /\ lvl_star < lvl_filter /\
  lvl_filter < lvl_dot /\ lvl_dot < lvl_not /\ lvl_not < lvl_brace /\ lvl_brace < lvl_bracket /\
  lvl_bracket < lvl_call.
Proof. unfold lvl_pipe, lvl_or, lvl_and, lvl_cmp, lvl_flatten, lvl_proj_stop, lvl_star, lvl_filter, lvl_dot, lvl_not,
       lvl_brace, lvl_bracket, lvl_call. lia. Qed.

Section WithNum.
Context {NumO : NumOps}.
Lemma or_left_assoc (a b c : expr) :
  wp a = true -> wp b = true -> wp c = true -> npos b = true -> npos c = true ->
  lvl_or <= rl a -> lvl_or < lmin b -> lvl_or < lmin c -> lvl_or <= rl b ->
  wp (EOr (EOr a b) c) = true /\ wp (EOr a (EOr b c)) = false.
Proof.
  intros Ha Hb Hc Nb Nc H1 H2 H3 H4. split.
  - cbn [wp rl lmin]. rewrite Ha, Hb, Hc, Nb, Nc. cbn [andb].
    repeat (apply andb_true_iff; split); try lia; reflexivity.
  - cbn [wp rl lmin]. rewrite Ha, Hb, Hc. cbn [andb].
    assert (E : (lvl_or <? Z.min (lmin b) lvl_or) = false) by (unfold lvl_or in *; lia).
    rewrite E. rewrite !andb_false_r. reflexivity.
Qed.
End WithNum.

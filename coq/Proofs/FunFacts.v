(* FunFacts.v — the function library: resolveArgs/typeCheck against the
   specification's signatures, and every handler against apply_function, for all
   argument lists. *)
From JM Require Import Model.Base Model.Num Model.Utf8 Model.Value Model.JsonText Model.Functions.
From JM Require Import Spec.Grammar Spec.Semantics.
From JM Require Import Proofs.ValueFacts.
From JM Require Import gen.Tables.
From Coq Require Import ZifyBool Permutation.

Section WithNum.
Context {NumO : NumOps}.
Variable ord : obj -> obj.
Hypothesis ord_perm : forall m, Permutation (ord m) m.
Variable exec : node -> value -> outcome value.

Definition agrees_gen (n : node) (g : value -> outcome value) : Prop :=
  forall v, plain v = true -> exec n v = g v /\ (forall r, g v = Ok r -> plain r = true).

Definition arg_rel_gen (mv : value) (sa : sarg) : Prop :=
  match sa with
  | SVal sv => mv = sv /\ plain sv = true
  | SRef g => exists n, mv = VExp n /\ agrees_gen n g
  end.

(* ---- types ---- *)
Definition jp2s (t : jpType) : stype :=
  match t with
  | jpNumber => TNumber | jpString => TString | jpArray => TArray | jpObject => TObject
  | jpArrayNumber => TArrayNumber | jpArrayString => TArrayString | jpExpref => TExpref | jpAny => TAny
  end.

Lemma all_nums_all_num l : match all_nums l with Some _ => true | None => false end = all_num l.
Proof.
  induction l as [|x l IH]; [reflexivity|]. destruct x; cbn; try reflexivity.
  unfold all_num in IH. rewrite <- IH. destruct (all_nums l); reflexivity.
Qed.
Lemma all_strs_all_str l : match all_strs l with Some _ => true | None => false end = all_str l.
Proof.
  induction l as [|x l IH]; [reflexivity|]. destruct x; cbn; try reflexivity.
  unfold all_str in IH. rewrite <- IH. destruct (all_strs l); reflexivity.
Qed.
Lemma all_nums_nums_of l ns : all_nums l = Some ns -> ns = nums_of l.
Proof.
  revert ns. induction l as [|x l IH]; intros ns H; cbn in *; [inversion H; reflexivity|].
  destruct x; try discriminate. destruct (all_nums l) as [ms|]; [|discriminate].
  inversion H; subst. cbn. f_equal. apply IH. reflexivity.
Qed.
Lemma all_strs_strs_of l ss : all_strs l = Some ss -> ss = strs_of l.
Proof.
  revert ss. induction l as [|x l IH]; intros ss H; cbn in *; [inversion H; reflexivity|].
  destruct x; try discriminate. destruct (all_strs l) as [ms|]; [|discriminate].
  inversion H; subst. cbn. f_equal. apply IH. reflexivity.
Qed.
Lemma all_num_all_nums l : all_num l = true -> all_nums l = Some (nums_of l).
Proof.
  intros H. rewrite <- all_nums_all_num in H. destruct (all_nums l) eqn:E; [|discriminate].
  f_equal. apply all_nums_nums_of. exact E.
Qed.
Lemma all_str_all_strs l : all_str l = true -> all_strs l = Some (strs_of l).
Proof.
  intros H. rewrite <- all_strs_all_str in H. destruct (all_strs l) eqn:E; [|discriminate].
  f_equal. apply all_strs_strs_of. exact E.
Qed.

Lemma type_ok_rel t mv sa : arg_rel_gen mv sa -> type_ok t mv = has_type (jp2s t) sa.
Proof.
  destruct sa as [sv|g]; cbn [arg_rel_gen].
  - intros [-> Hp]. destruct t, sv; cbn in *; try reflexivity; try discriminate.
    + apply all_nums_all_num.
    + apply all_strs_all_str.
  - intros [n [-> _]]. destruct t; reflexivity.
Qed.

Definition tys (s : argSpec) : list stype := map jp2s (as_types s).

Lemma typeCheck_rel s mv sa :
  arg_rel_gen mv sa -> typeCheck s mv = existsb (fun t => has_type t sa) (tys s).
Proof.
  intros H. unfold typeCheck, tys. induction (as_types s) as [|t ts IH]; cbn; [reflexivity|].
  rewrite (type_ok_rel t mv sa H), IH. reflexivity.
Qed.

(* the signature a table entry amounts to *)
Definition sig_of (e : functionEntry) : signature :=
  let specs := fe_args e in
  let lastspec := last specs (ArgSpec [] false) in
  Sig (map tys specs) (if as_variadic lastspec then Some (tys lastspec) else None).

Lemma check_fixed_rel specs margs sargs :
  Forall2 arg_rel_gen margs sargs ->
  Nat.eqb (length specs) (length margs) && check_fixed specs margs = args_ok (map tys specs) None sargs.
Proof.
  intros H. revert specs. induction H as [|mv sa margs sargs Hr Hrest IH]; intros [|s specs]; cbn; try reflexivity.
  rewrite (typeCheck_rel s mv sa Hr). rewrite <- IH.
  destruct (existsb _ (tys s)); cbn; [reflexivity | rewrite andb_false_r; reflexivity].
Qed.

Lemma check_variadic_rel specs lastspec margs sargs :
  Forall2 arg_rel_gen margs sargs ->
  negb (Nat.ltb (length margs) (length specs)) && check_variadic specs lastspec margs
  = args_ok (map tys specs) (Some (tys lastspec)) sargs.
Proof.
  intros H. revert specs. induction H as [|mv sa margs sargs Hr Hrest IH]; intros [|s specs]; cbn; try reflexivity.
  - rewrite (typeCheck_rel lastspec mv sa Hr). specialize (IH []). cbn in IH. rewrite IH. reflexivity.
  - rewrite (typeCheck_rel s mv sa Hr). specialize (IH specs).
    change (Nat.ltb (S (length margs)) (S (length specs))) with (Nat.ltb (length margs) (length specs)).
    rewrite <- IH. destruct (existsb _ (tys s)); cbn; [reflexivity | rewrite andb_false_r; reflexivity].
Qed.

Lemma last_indep {A} (l : list A) a d d' : last (a :: l) d = last (a :: l) d'.
Proof.
  revert a. induction l as [|b l IH]; intros a; [reflexivity|].
  change (last (a :: b :: l) d) with (last (b :: l) d).
  change (last (a :: b :: l) d') with (last (b :: l) d'). apply IH.
Qed.

Lemma resolveArgs_rel e margs sargs :
  fe_args e <> [] -> Forall2 arg_rel_gen margs sargs ->
  resolveArgs e margs = args_ok (sig_params (sig_of e)) (sig_rest (sig_of e)) sargs.
Proof.
  intros Hne H. unfold resolveArgs, sig_of. destruct (fe_args e) as [|s0 rest] eqn:E; [contradiction|].
  cbn [sig_params sig_rest].
  assert (El := last_indep rest s0 s0 (ArgSpec [] false)).
  rewrite El. destruct (as_variadic (last (s0 :: rest) (ArgSpec [] false))); cbn [negb].
  - apply check_variadic_rel. exact H.
  - apply check_fixed_rel. exact H.
Qed.

(* ---- helpers for the handlers ---- *)
Lemma mapM_as_num l : all_num l = true -> mapM as_num l = Ok (nums_of l).
Proof.
  induction l as [|x l IH]; intros H; [reflexivity|]. destruct x; cbn in H; try discriminate.
  cbn. rewrite (IH H). reflexivity.
Qed.
Lemma mapM_as_str l : all_str l = true -> mapM as_str l = Ok (strs_of l).
Proof.
  induction l as [|x l IH]; intros H; [reflexivity|]. destruct x; cbn in H; try discriminate.
  cbn. rewrite (IH H). reflexivity.
Qed.

Lemma insert_before_perm {A} (lt : A -> A -> bool) x l : Permutation (insert_before lt x l) (x :: l).
Proof.
  induction l as [|y l IH]; cbn; [apply Permutation_refl|].
  destruct (lt y x); [|apply Permutation_refl].
  eapply Permutation_trans; [apply perm_skip; exact IH | apply perm_swap].
Qed.
Lemma stable_sort_perm {A} (lt : A -> A -> bool) l : Permutation (stable_sort lt l) l.
Proof.
  induction l as [|x l IH]; cbn; [constructor|].
  eapply Permutation_trans; [apply insert_before_perm | apply perm_skip; exact IH].
Qed.

Lemma plain_map_VNum ns : plain (VArr (map VNum ns)) = true.
Proof. apply plain_arr. apply Forall_forall. intros x Hx. apply in_map_iff in Hx as [n [<- _]]. reflexivity. Qed.
Lemma plain_map_VStr ss : plain (VArr (map VStr ss)) = true.
Proof. apply plain_arr. apply Forall_forall. intros x Hx. apply in_map_iff in Hx as [n [<- _]]. reflexivity. Qed.
Lemma plain_perm l l' : Permutation l l' -> plain (VArr l') = true -> plain (VArr l) = true.
Proof.
  intros Hp H. apply plain_arr. apply plain_arr in H. rewrite Forall_forall in *.
  intros x Hx. apply H. eapply Permutation_in; eauto.
Qed.
Lemma plain_rev l : plain (VArr l) = true -> plain (VArr (rev l)) = true.
Proof. apply plain_perm. apply Permutation_sym, Permutation_rev. Qed.

Lemma plain_fold_best {A} (better : A -> A -> bool) (P : A -> Prop) l x :
  P x -> Forall P l -> P (fold_left (fun best y => if better y best then y else best) l x).
Proof.
  intros Hx Hl. revert x Hx. induction Hl as [|y l Hy Hl IH]; intros x Hx; cbn; [exact Hx|].
  apply IH. destruct (better y x); assumption.
Qed.

Ltac inv_rel :=
  repeat match goal with
         | H : Forall2 arg_rel_gen _ [] |- _ => inversion H; subst; clear H
         | H : Forall2 arg_rel_gen _ (_ :: _) |- _ => inversion H; subst; clear H
         | H : arg_rel_gen _ (SVal _) |- _ => destruct H as [-> ?]
         | H : arg_rel_gen _ (SRef _) |- _ => destruct H as [? [-> ?]]
         end.

Ltac ok_plain := split; [reflexivity | let r := fresh "r" in let Hr := fresh "Hr" in
                                       intros r Hr; inversion Hr; subst; clear Hr; try reflexivity].

(* one well-typed call against the specification *)
Definition fn_ok (h : list value -> outcome value) (name : bytes) (sg : signature) : Prop :=
  forall margs sargs,
    Forall2 arg_rel_gen margs sargs ->
    args_ok (sig_params sg) (sig_rest sg) sargs = true ->
    h margs = apply_function ord name sargs /\ (forall r, apply_function ord name sargs = Ok r -> plain r = true).

(* shape of the argument list of a well-typed call *)
Lemma args_ok_1 ts sargs :
  args_ok [ts] None sargs = true -> exists a, sargs = [a] /\ existsb (fun t => has_type t a) ts = true.
Proof.
  destruct sargs as [|a [|b rest]]; cbn; intros H; try discriminate.
  - exists a. split; [reflexivity|]. rewrite andb_true_r in H. exact H.
  - rewrite andb_false_r in H. discriminate.
Qed.
Lemma args_ok_2 ts1 ts2 sargs :
  args_ok [ts1; ts2] None sargs = true ->
  exists a b, sargs = [a; b] /\ existsb (fun t => has_type t a) ts1 = true
              /\ existsb (fun t => has_type t b) ts2 = true.
Proof.
  destruct sargs as [|a [|b [|c rest]]]; cbn; intros H; try discriminate.
  - rewrite andb_false_r in H. discriminate.
  - exists a, b. split; [reflexivity|]. rewrite andb_true_r in H. apply andb_true_iff in H. exact H.
  - rewrite !andb_false_r in H. discriminate.
Qed.

Ltac one_arg Hok a Ht :=
  apply args_ok_1 in Hok as [a [-> Ht]]; cbn in Ht; inv_rel.
Ltac two_args Hok a b Ha Hb :=
  apply args_ok_2 in Hok as [a [b [-> [Ha Hb]]]]; cbn in Ha, Hb; inv_rel.

Lemma fn_abs : fn_ok jpfAbs (str "abs") (Sig [[TNumber]] None).
Proof.
  intros margs sargs HR Hok. one_arg Hok a Ht.
  destruct a as [v|g]; [destruct v|]; try discriminate; inv_rel. ok_plain.
Qed.
Lemma fn_ceil : fn_ok jpfCeil (str "ceil") (Sig [[TNumber]] None).
Proof.
  intros margs sargs HR Hok. one_arg Hok a Ht.
  destruct a as [v|g]; [destruct v|]; try discriminate; inv_rel. ok_plain.
Qed.
Lemma fn_floor : fn_ok jpfFloor (str "floor") (Sig [[TNumber]] None).
Proof.
  intros margs sargs HR Hok. one_arg Hok a Ht.
  destruct a as [v|g]; [destruct v|]; try discriminate; inv_rel. ok_plain.
Qed.

Lemma fn_avg : fn_ok jpfAvg (str "avg") (Sig [[TArrayNumber]] None).
Proof.
  intros margs sargs HR Hok. one_arg Hok a Ht.
  destruct a as [v|g]; [destruct v|]; try discriminate; inv_rel.
  rewrite orb_false_r in Ht. destruct l as [|x l]; [ok_plain|].
  unfold jpfAvg. cbn [Functions.arg nth_or_panic nth_error bind as_arr].
  rewrite (mapM_as_num _ Ht). ok_plain.
Qed.

Lemma fn_sum : fn_ok jpfSum (str "sum") (Sig [[TArrayNumber]] None).
Proof.
  intros margs sargs HR Hok. one_arg Hok a Ht.
  destruct a as [v|g]; [destruct v|]; try discriminate; inv_rel.
  rewrite orb_false_r in Ht.
  unfold jpfSum. cbn [Functions.arg nth_or_panic nth_error bind toArrayNum].
  rewrite (all_num_all_nums _ Ht). ok_plain.
Qed.

Lemma fn_contains : fn_ok jpfContains (str "contains") (Sig [[TArray; TString]; [TAny]] None).
Proof.
  intros margs sargs HR Hok. two_args Hok a b Ha Hb.
  destruct b as [w|g]; [|discriminate]. destruct a as [v|g]; [|discriminate]. inv_rel.
  destruct v; try discriminate.
  - destruct w; ok_plain.
  - ok_plain.
Qed.

Lemma fn_starts_with : fn_ok jpfStartsWith (str "starts_with") (Sig [[TString]; [TString]] None).
Proof.
  intros margs sargs HR Hok. two_args Hok a b Ha Hb.
  destruct a as [v|g]; [destruct v|]; try discriminate.
  destruct b as [w|g]; [destruct w|]; try discriminate. inv_rel. ok_plain.
Qed.
Lemma fn_ends_with : fn_ok jpfEndsWith (str "ends_with") (Sig [[TString]; [TString]] None).
Proof.
  intros margs sargs HR Hok. two_args Hok a b Ha Hb.
  destruct a as [v|g]; [destruct v|]; try discriminate.
  destruct b as [w|g]; [destruct w|]; try discriminate. inv_rel. ok_plain.
Qed.

Lemma fn_join : fn_ok jpfJoin (str "join") (Sig [[TString]; [TArrayString]] None).
Proof.
  intros margs sargs HR Hok. two_args Hok a b Ha Hb.
  destruct a as [v|g]; [destruct v|]; try discriminate.
  destruct b as [w|g]; [destruct w|]; try discriminate. inv_rel.
  rewrite orb_false_r in Hb.
  unfold jpfJoin. cbn [Functions.arg nth_or_panic nth_error bind as_arr as_str].
  rewrite (mapM_as_str _ Hb). ok_plain.
Qed.

Lemma fn_keys : fn_ok (jpfKeys ord) (str "keys") (Sig [[TObject]] None).
Proof.
  intros margs sargs HR Hok. one_arg Hok a Ht.
  destruct a as [v|g]; [destruct v|]; try discriminate; inv_rel. ok_plain.
  apply plain_arr. apply Forall_forall. intros x Hx. apply in_map_iff in Hx as [kv [<- _]]. reflexivity.
Qed.
Lemma fn_values : fn_ok (jpfValues ord) (str "values") (Sig [[TObject]] None).
Proof.
  intros margs sargs HR Hok. one_arg Hok a Ht.
  destruct a as [v|g]; [destruct v|]; try discriminate; inv_rel. ok_plain.
  apply plain_arr. match goal with H : plain (VObj ?m) = true |- _ => apply plain_obj in H; rename H into Hm end.
  rewrite Forall_forall in *. intros x Hx. apply in_map_iff in Hx as [kv [<- Hkv]].
  apply Hm. eapply Permutation_in; [apply ord_perm | exact Hkv].
Qed.

Lemma fn_length : fn_ok jpfLength (str "length") (Sig [[TString; TArray; TObject]] None).
Proof.
  intros margs sargs HR Hok. one_arg Hok a Ht.
  destruct a as [v|g]; [destruct v|]; try discriminate; inv_rel; ok_plain.
Qed.

Lemma fn_map : fn_ok (jpfMap exec) (str "map") (Sig [[TExpref]; [TArray]] None).
Proof.
  intros margs sargs HR Hok. two_args Hok a b Ha Hb.
  destruct a as [v|g]; [destruct v; discriminate|].
  destruct b as [w|g']; [destruct w|]; try discriminate. inv_rel.
  unfold jpfMap. cbn [Functions.arg nth_or_panic nth_error bind as_arr as_exp].
  match goal with H : plain (VArr ?l) = true |- _ => rename H into Hl end.
  match goal with H : agrees_gen ?n g |- _ => rename H into Hag; rewrite (mapM_ext_in (exec n) g l) end.
  2:{ intros el Hel. apply Hag. eapply plain_arr_in; eauto. }
  cbn. split; [reflexivity|]. intros r Hr.
  destruct (mapM g l) as [ys| | |] eqn:Em; cbn in Hr; try discriminate. inversion Hr; subst.
  apply plain_arr. eapply mapM_ok_forall; [|exact Em]. intros el y Hel Hy.
  eapply Hag; [eapply plain_arr_in; eauto | exact Hy].
Qed.

Lemma pick_first_best {A} (better : A -> A -> bool) l : pick better l = first_best better l.
Proof. destruct l; reflexivity. Qed.

Lemma all_num_false_nums l : all_num l = false -> all_nums l = None.
Proof. intros H. rewrite <- all_nums_all_num in H. destruct (all_nums l); [discriminate | reflexivity]. Qed.

Lemma fn_max : fn_ok jpfMax (str "max") (Sig [[TArrayNumber; TArrayString]] None).
Proof.
  intros margs sargs HR Hok. one_arg Hok a Ht.
  destruct a as [v|g]; [destruct v|]; try discriminate; inv_rel.
  cbn in Ht. rewrite orb_false_r in Ht.
  unfold jpfMax. cbn [Functions.arg nth_or_panic nth_error bind toArrayNum toArrayStr].
  cbn [apply_function]. cbn.
  destruct (all_num l) eqn:En.
  - rewrite (all_num_all_nums _ En). split; [reflexivity|]. intros r Hr. inversion Hr.
    destruct (nums_of l); reflexivity.
  - cbn [orb] in Ht. rewrite (all_num_false_nums _ En), (all_str_all_strs _ Ht).
    split; [reflexivity|]. intros r Hr. inversion Hr. destruct (strs_of l); reflexivity.
Qed.
Lemma fn_min : fn_ok jpfMin (str "min") (Sig [[TArrayNumber; TArrayString]] None).
Proof.
  intros margs sargs HR Hok. one_arg Hok a Ht.
  destruct a as [v|g]; [destruct v|]; try discriminate; inv_rel.
  cbn in Ht. rewrite orb_false_r in Ht.
  unfold jpfMin. cbn [Functions.arg nth_or_panic nth_error bind toArrayNum toArrayStr].
  cbn [apply_function]. cbn.
  destruct (all_num l) eqn:En.
  - rewrite (all_num_all_nums _ En). split; [reflexivity|]. intros r Hr. inversion Hr.
    destruct (nums_of l); reflexivity.
  - cbn [orb] in Ht. rewrite (all_num_false_nums _ En), (all_str_all_strs _ Ht).
    split; [reflexivity|]. intros r Hr. inversion Hr. destruct (strs_of l); reflexivity.
Qed.

Lemma fn_sort : fn_ok jpfSort (str "sort") (Sig [[TArrayString; TArrayNumber]] None).
Proof.
  intros margs sargs HR Hok. one_arg Hok a Ht.
  destruct a as [v|g]; [destruct v|]; try discriminate; inv_rel.
  cbn in Ht. rewrite orb_false_r in Ht.
  unfold jpfSort. cbn [Functions.arg nth_or_panic nth_error bind toArrayNum toArrayStr].
  cbn [apply_function]. cbn.
  destruct (all_num l) eqn:En.
  - rewrite (all_num_all_nums _ En). split; [reflexivity|]. intros r Hr. inversion Hr. apply plain_map_VNum.
  - rewrite orb_false_r in Ht. rewrite (all_num_false_nums _ En), (all_str_all_strs _ Ht).
    split; [reflexivity|]. intros r Hr. inversion Hr. apply plain_map_VStr.
Qed.

Lemma fn_reverse : fn_ok jpfReverse (str "reverse") (Sig [[TArray; TString]] None).
Proof.
  intros margs sargs HR Hok. one_arg Hok a Ht.
  destruct a as [v|g]; [destruct v|]; try discriminate; inv_rel; ok_plain.
  apply plain_rev. assumption.
Qed.

Lemma fn_to_array : fn_ok jpfToArray (str "to_array") (Sig [[TAny]] None).
Proof.
  intros margs sargs HR Hok. one_arg Hok a Ht.
  destruct a as [v|g]; [|discriminate]. inv_rel.
  destruct v; ok_plain; try assumption; try (cbn; rewrite ?andb_true_r; assumption).
Qed.

Lemma fn_to_string : fn_ok jpfToString (str "to_string") (Sig [[TAny]] None).
Proof.
  intros margs sargs HR Hok. one_arg Hok a Ht.
  destruct a as [v|g]; [|discriminate]. inv_rel.
  destruct v; cbn -[json_marshal]; try discriminate;
    try (destruct (json_marshal _); [ok_plain | split; [reflexivity | discriminate]]).
  ok_plain.
Qed.

Lemma fn_to_number : fn_ok jpfToNumber (str "to_number") (Sig [[TAny]] None).
Proof.
  intros margs sargs HR Hok. one_arg Hok a Ht.
  destruct a as [v|g]; [|discriminate]. inv_rel.
  destruct v; cbn; try ok_plain; try discriminate.
  destruct (num_parse_go s) as [x|]; [destruct (num_finite x)|]; ok_plain.
Qed.

Lemma fn_type : fn_ok jpfType (str "type") (Sig [[TAny]] None).
Proof.
  intros margs sargs HR Hok. one_arg Hok a Ht.
  destruct a as [v|g]; [|discriminate]. inv_rel.
  destruct v; cbn; try ok_plain; try discriminate.
Qed.

(* ---- the by-functions ---- *)
Lemma num_key_snd g l ks : mapM (num_key g) l = Ok ks -> map snd ks = l.
Proof.
  revert ks. induction l as [|x l IH]; intros ks H; cbn in H; [inversion H; reflexivity|].
  unfold num_key in H at 1. destruct (g x) as [k| | |]; cbn in H; try discriminate.
  destruct k; cbn in H; try discriminate.
  destruct (mapM (num_key g) l) as [ys| | |]; cbn in H; try discriminate.
  inversion H; subst. cbn. f_equal. apply IH. reflexivity.
Qed.
Lemma str_key_snd g l ks : mapM (str_key g) l = Ok ks -> map snd ks = l.
Proof.
  revert ks. induction l as [|x l IH]; intros ks H; cbn in H; [inversion H; reflexivity|].
  unfold str_key in H at 1. destruct (g x) as [k| | |]; cbn in H; try discriminate.
  destruct k; cbn in H; try discriminate.
  destruct (mapM (str_key g) l) as [ys| | |]; cbn in H; try discriminate.
  inversion H; subst. cbn. f_equal. apply IH. reflexivity.
Qed.

Lemma by_loop_num_spec better n g rest :
  agrees_gen n g -> Forall (fun x => plain x = true) rest ->
  forall t first,
    by_loop_num exec better n rest t first =
    (ks <- mapM (num_key g) rest ;;
     Ok (snd (fold_left (fun best y => if better (fst y) (fst best) then y else best) ks (t, first)))).
Proof.
  intros Hag Hpl. induction Hpl as [|item rest Hi Hrest IH]; intros t first; [reflexivity|].
  cbn [by_loop_num mapM]. destruct (Hag item Hi) as [E _]. rewrite E. unfold num_key at 1.
  destruct (g item) as [k| | |]; cbn [bind]; try reflexivity.
  destruct k; cbn [bind]; try reflexivity.
  destruct (better n0 t) eqn:Eb; rewrite IH;
    destruct (mapM (num_key g) rest); cbn [bind fold_left fst snd]; try reflexivity; rewrite Eb; reflexivity.
Qed.
Lemma by_loop_str_spec better n g rest :
  agrees_gen n g -> Forall (fun x => plain x = true) rest ->
  forall t first,
    by_loop_str exec better n rest t first =
    (ks <- mapM (str_key g) rest ;;
     Ok (snd (fold_left (fun best y => if better (fst y) (fst best) then y else best) ks (t, first)))).
Proof.
  intros Hag Hpl. induction Hpl as [|item rest Hi Hrest IH]; intros t first; [reflexivity|].
  cbn [by_loop_str mapM]. destruct (Hag item Hi) as [E _]. rewrite E. unfold str_key at 1.
  destruct (g item) as [k| | |]; cbn [bind]; try reflexivity.
  destruct k; cbn [bind]; try reflexivity.
  destruct (better s t) eqn:Eb; rewrite IH;
    destruct (mapM (str_key g) rest); cbn [bind fold_left fst snd]; try reflexivity; rewrite Eb; reflexivity.
Qed.

Lemma mapM_num_key_cons g first rest n :
  g first = Ok (VNum n) ->
  mapM (num_key g) (first :: rest) = (ks <- mapM (num_key g) rest ;; Ok ((n, first) :: ks)).
Proof. intros E. cbn [mapM]. unfold num_key at 1. rewrite E. reflexivity. Qed.
Lemma mapM_str_key_cons g first rest s :
  g first = Ok (VStr s) ->
  mapM (str_key g) (first :: rest) = (ks <- mapM (str_key g) rest ;; Ok ((s, first) :: ks)).
Proof. intros E. cbn [mapM]. unfold str_key at 1. rewrite E. reflexivity. Qed.

Lemma plain_fold_pair {K} (better : K -> K -> bool) (ks : list (K * value)) (p : K * value) :
  plain (snd p) = true -> Forall (fun x => plain x = true) (map snd ks) ->
  plain (snd (fold_left (fun best y => if better (fst y) (fst best) then y else best) ks p)) = true.
Proof.
  intros Hp Hks. revert p Hp. induction ks as [|k ks IH]; intros p Hp; cbn; [exact Hp|].
  inversion Hks; subst. apply IH; [assumption|]. destruct (better (fst k) (fst p)); assumption.
Qed.

(* max_by / min_by, for the two orientations of the comparison *)
Lemma by_extreme_ok (nb : num -> num -> bool) (sb : bytes -> bytes -> bool) (name : bytes) :
  (forall l g, apply_function ord name [SVal (VArr l); SRef g] =
     (ks <- by_keys g l ;;
      match ks with
      | KNum ks => Ok (match first_best (fun y x => nb (fst y) (fst x)) ks with Some p => snd p | None => VNull end)
      | KStr ks => Ok (match first_best (fun y x => sb (fst y) (fst x)) ks with Some p => snd p | None => VNull end)
      end)) ->
  fn_ok (by_extreme exec nb sb) name (Sig [[TArray]; [TExpref]] None).
Proof.
  intros Hspec margs sargs HR Hok. two_args Hok a b Ha Hb.
  destruct a as [v|g']; [destruct v|]; try discriminate.
  destruct b as [w|g]; [destruct w; discriminate|]. inv_rel.
  match goal with H : agrees_gen ?n g |- _ => rename H into Hag; rename n into nd end.
  match goal with H : plain (VArr ?l) = true |- _ => rename H into Hl end.
  rewrite Hspec. unfold by_extreme. cbn [Functions.arg nth_or_panic nth_error bind as_arr as_exp].
  destruct l as [|first rest]; [cbn; ok_plain|].
  apply plain_arr in Hl. inversion Hl as [|? ? Hf Hrest]; subst.
  cbn [by_keys]. destruct (Hag first Hf) as [E _]. rewrite E.
  destruct (g first) as [k0| | |] eqn:Eg; cbn [bind]; try (split; [reflexivity | discriminate]).
  destruct k0; cbn [bind]; try (split; [reflexivity | discriminate]).
  - rewrite (by_loop_num_spec nb nd g rest Hag Hrest).
    rewrite (mapM_num_key_cons g first rest _ Eg).
    destruct (mapM (num_key g) rest) as [ks| | |] eqn:Ek; cbn [bind]; try (split; [reflexivity | discriminate]).
    cbn [first_best]. split; [reflexivity|]. intros r Hr. inversion Hr; subst.
    apply plain_fold_pair; [exact Hf|]. rewrite (num_key_snd _ _ _ Ek). exact Hrest.
  - rewrite (by_loop_str_spec sb nd g rest Hag Hrest).
    rewrite (mapM_str_key_cons g first rest _ Eg).
    destruct (mapM (str_key g) rest) as [ks| | |] eqn:Ek; cbn [bind]; try (split; [reflexivity | discriminate]).
    cbn [first_best]. split; [reflexivity|]. intros r Hr. inversion Hr; subst.
    apply plain_fold_pair; [exact Hf|]. rewrite (str_key_snd _ _ _ Ek). exact Hrest.
Qed.

Lemma fn_max_by : fn_ok (jpfMaxBy exec) (str "max_by") (Sig [[TArray]; [TExpref]] None).
Proof. apply (by_extreme_ok (fun cur best => num_ltb best cur) (fun cur best => bytes_ltb best cur)). reflexivity. Qed.
Lemma fn_min_by : fn_ok (jpfMinBy exec) (str "min_by") (Sig [[TArray]; [TExpref]] None).
Proof. apply (by_extreme_ok (fun cur best => num_ltb cur best) (fun cur best => bytes_ltb cur best)). reflexivity. Qed.

Lemma fn_sort_by : fn_ok (jpfSortBy exec) (str "sort_by") (Sig [[TArray]; [TExpref]] None).
Proof.
  intros margs sargs HR Hok. two_args Hok a b Ha Hb.
  destruct a as [v|g']; [destruct v|]; try discriminate.
  destruct b as [w|g]; [destruct w; discriminate|]. inv_rel.
  match goal with H : agrees_gen ?n g |- _ => rename H into Hag; rename n into nd end.
  match goal with H : plain (VArr ?l) = true |- _ => rename H into Hl end.
  change (apply_function ord (str "sort_by") [SVal (VArr l); SRef g])
    with (ks <- by_keys g l ;;
          match ks with
          | KNum ks => Ok (VArr (map snd (stable_sort (fun p q => num_ltb (fst p) (fst q)) ks)))
          | KStr ks => Ok (VArr (map snd (stable_sort (fun p q => bytes_ltb (fst p) (fst q)) ks)))
          end).
  unfold jpfSortBy. cbn [Functions.arg nth_or_panic nth_error bind as_arr as_exp].
  destruct l as [|first rest]; [cbn; ok_plain|].
  assert (Hall := Hl). apply plain_arr in Hl. inversion Hl as [|? ? Hf Hrest]; subst.
  cbn [by_keys]. destruct (Hag first Hf) as [E _]. rewrite E.
  destruct (g first) as [k0| | |] eqn:Eg; cbn [bind]; try (split; [reflexivity | discriminate]).
  destruct k0; cbn [bind]; try (split; [reflexivity | discriminate]).
  - rewrite (mapM_ext_in (key_num exec nd) (num_key g) (first :: rest)).
    2:{ intros el Hel. unfold key_num, num_key. destruct (Hag el) as [Ee _]; [eapply plain_arr_in; eauto|]. rewrite Ee. reflexivity. }
    destruct (mapM (num_key g) (first :: rest)) as [ks| | |] eqn:Ek; cbn [bind]; try (split; [reflexivity | discriminate]).
    split; [reflexivity|]. intros r Hr. inversion Hr; subst.
    eapply plain_perm; [apply Permutation_map; apply stable_sort_perm|].
    rewrite (num_key_snd _ _ _ Ek). exact Hall.
  - rewrite (mapM_ext_in (key_str exec nd) (str_key g) (first :: rest)).
    2:{ intros el Hel. unfold key_str, str_key. destruct (Hag el) as [Ee _]; [eapply plain_arr_in; eauto|]. rewrite Ee. reflexivity. }
    destruct (mapM (str_key g) (first :: rest)) as [ks| | |] eqn:Ek; cbn [bind]; try (split; [reflexivity | discriminate]).
    split; [reflexivity|]. intros r Hr. inversion Hr; subst.
    eapply plain_perm; [apply Permutation_map; apply stable_sort_perm|].
    rewrite (str_key_snd _ _ _ Ek). exact Hall.
Qed.

(* ---- the variadic functions ---- *)
Lemma args_ok_variadic ts sargs :
  args_ok [ts] (Some ts) sargs = true ->
  sargs <> [] /\ Forall (fun a => existsb (fun t => has_type t a) ts = true) sargs.
Proof.
  destruct sargs as [|a rest]; cbn; [discriminate|]. intros H. apply andb_true_iff in H as [Ha Hr].
  split; [discriminate|]. constructor; [exact Ha|].
  induction rest as [|b rest IH]; [constructor|]. cbn in Hr. apply andb_true_iff in Hr as [Hb Hr].
  constructor; [exact Hb | apply IH; exact Hr].
Qed.

Lemma fn_not_null : fn_ok jpfNotNull (str "not_null") (Sig [[TAny]] (Some [TAny])).
Proof.
  intros margs sargs HR Hok. apply args_ok_variadic in Hok as [_ Hall].
  assert (Em : margs = arg_values sargs /\ Forall (fun x => plain x = true) margs).
  { clear - HR Hall. induction HR as [|mv sa margs sargs Hr Hrest IH]; [split; [reflexivity | constructor]|].
    inversion Hall; subst. destruct (IH H2) as [IH1 IH2].
    destruct sa as [v|g]; [|cbn in H1; discriminate]. destruct Hr as [-> Hp].
    split; [cbn [arg_values flat_map app]; f_equal; exact IH1 | constructor; assumption]. }
  destruct Em as [-> Hpl]. unfold jpfNotNull.
  change (apply_function ord (str "not_null") sargs)
    with (Ok (match find not_null (arg_values sargs) with Some v => v | None => VNull end)).
  split; [reflexivity|]. intros r Hr. inversion Hr; subst.
  destruct (find not_null (arg_values sargs)) eqn:Ef; [|reflexivity].
  apply find_some in Ef as [Hin _]. rewrite Forall_forall in Hpl. auto.
Qed.

Lemma fn_merge : fn_ok jpfMerge (str "merge") (Sig [[TObject]] (Some [TObject])).
Proof.
  intros margs sargs HR Hok. apply args_ok_variadic in Hok as [_ Hall].
  change (apply_function ord (str "merge") sargs)
    with (Ok (VObj (fold_left (fun f v => match v with
                                           | VObj m => fold_left (fun f kv => obj_set (fst kv) (snd kv) f) m f
                                           | _ => f end) (arg_values sargs) []))).
  unfold jpfMerge.
  assert (G : forall acc, plain (VObj acc) = true ->
              exists ms, mapM as_obj margs = Ok ms /\
                fold_left (fun final m => fold_left (fun f kv => obj_set (fst kv) (snd kv) f) m final) ms acc
                = fold_left (fun f v => match v with
                                        | VObj m => fold_left (fun f kv => obj_set (fst kv) (snd kv) f) m f
                                        | _ => f end) (arg_values sargs) acc /\
                plain (VObj (fold_left (fun final m => fold_left (fun f kv => obj_set (fst kv) (snd kv) f) m final) ms acc)) = true).
  { clear - HR Hall. induction HR as [|mv sa margs sargs Hr Hrest IH]; intros acc Hacc.
    - exists []. cbn. auto.
    - inversion Hall; subst. destruct sa as [v|g]; [|cbn in H1; discriminate].
      destruct v; cbn in H1; try discriminate. destruct Hr as [-> Hp].
      assert (Hacc' : plain (VObj (fold_left (fun f kv => obj_set (fst kv) (snd kv) f) m acc)) = true).
      { clear - Hp Hacc. apply plain_obj in Hp. revert acc Hacc.
        induction Hp as [|kv m Hkv Hm IHm]; intros acc Hacc; cbn; [exact Hacc|].
        apply IHm. apply plain_obj_set; assumption. }
      destruct (IH H2 _ Hacc') as [ms [E1 [E2 E3]]].
      exists (m :: ms). cbn [mapM as_obj bind]. rewrite E1. cbn [bind fold_left arg_values flat_map app].
      auto. }
  destruct (G [] eq_refl) as [ms [E1 [E2 E3]]]. rewrite E1. cbn [bind]. rewrite E2.
  split; [reflexivity|]. intros r Hr. inversion Hr; subst. rewrite <- E2. exact E3.
Qed.

(* ---- the whole dispatcher, against the regenerated function table ---- *)
Lemma assoc_bytes_none {A} name (l : list (bytes * A)) :
  (forall k v, In (k, v) l -> bytes_eqb name k = false) -> assoc_bytes name l = None.
Proof.
  induction l as [|[k v] l IH]; intros H; cbn; [reflexivity|].
  rewrite (H k v (or_introl eq_refl)). apply IH. intros k' v' Hin. apply (H k' v'). right. exact Hin.
Qed.

(* every name the specification knows has an entry in the table read from functions.go *)
Lemma spec_names_in_table :
  forallb (fun ksg : bytes * signature =>
             existsb (fun e => bytes_eqb (fe_key e) (fst ksg)) function_table) spec_signatures = true.
Proof. vm_compute. reflexivity. Qed.

Lemma bytes_eqb_sym a b : bytes_eqb a b = bytes_eqb b a.
Proof.
  destruct (bytes_eqb a b) eqn:E.
  - apply bytes_eqb_eq in E. subst. symmetry. apply bytes_eqb_refl.
  - destruct (bytes_eqb b a) eqn:E2; [|reflexivity]. apply bytes_eqb_eq in E2. subst.
    rewrite bytes_eqb_refl in E. discriminate.
Qed.

Ltac entry_case HR lem :=
  match goal with |- context [resolveArgs ?e ?m] =>
    rewrite (resolveArgs_rel e m _ ltac:(cbn; discriminate) HR) end;
  cbn [fe_key fe_handler];
  let k := match goal with |- context [assoc_bytes ?k spec_signatures] => k end in
  let r := eval vm_compute in (assoc_bytes k spec_signatures) in
  change (assoc_bytes k spec_signatures) with r;
  let sg := match goal with |- context [sig_of ?e] => constr:(sig_of e) end in
  let r2 := eval vm_compute in sg in
  change sg with r2;
  cbn [sig_params sig_rest];
  let Eok := fresh "Eok" in
  match goal with |- context [if ?c then _ else _] => destruct c eqn:Eok end;
  [ destruct (lem _ _ HR Eok) as [L1 L2]; split; [exact L1 | exact L2]
  | split; [reflexivity | discriminate] ].

Theorem call_refines name margs sargs :
  Forall2 arg_rel_gen margs sargs ->
  CallFunction ord exec name margs = spec_call ord name sargs /\
  (forall r, spec_call ord name sargs = Ok r -> plain r = true).
Proof.
  intros HR. unfold CallFunction, spec_call, well_typed.
  destruct (find_entry name) as [e|] eqn:Ef.
  - unfold find_entry in Ef. apply find_some in Ef as [Hin Hk]. apply bytes_eqb_eq in Hk. subst name.
    unfold function_table in Hin. cbn [In] in Hin.
    repeat (destruct Hin as [<-|Hin]); [..|contradiction].
    + entry_case HR fn_abs.
    + entry_case HR fn_avg.
    + entry_case HR fn_ceil.
    + entry_case HR fn_contains.
    + entry_case HR fn_ends_with.
    + entry_case HR fn_floor.
    + entry_case HR fn_join.
    + entry_case HR fn_keys.
    + entry_case HR fn_length.
    + entry_case HR fn_map.
    + entry_case HR fn_max.
    + entry_case HR fn_max_by.
    + entry_case HR fn_merge.
    + entry_case HR fn_min.
    + entry_case HR fn_min_by.
    + entry_case HR fn_not_null.
    + entry_case HR fn_reverse.
    + entry_case HR fn_sort.
    + entry_case HR fn_sort_by.
    + entry_case HR fn_starts_with.
    + entry_case HR fn_sum.
    + entry_case HR fn_to_array.
    + entry_case HR fn_to_number.
    + entry_case HR fn_to_string.
    + entry_case HR fn_type.
    + entry_case HR fn_values.
  - assert (En : assoc_bytes name spec_signatures = None).
    { apply assoc_bytes_none. intros k v Hin.
      pose proof spec_names_in_table as Ht. rewrite forallb_forall in Ht. specialize (Ht _ Hin).
      apply existsb_exists in Ht as [e [He Hk]]. cbn [fst] in Hk. apply bytes_eqb_eq in Hk. subst k.
      unfold find_entry in Ef. rewrite bytes_eqb_sym. apply (find_none _ _ Ef e He). }
    rewrite En. split; [reflexivity | discriminate].
Qed.

End WithNum.
